import RsomeV.M.AtomsSoc
import Mathlib.Algebra.BigOperators.Group.Finset.Basic
import Mathlib.Order.Interval.Finset.Nat
import RsomeV.L.AtomsSoc

/-! Order-faithful model of the *dual read-back* of a continuous LP written through the API
(rsome/lp.py):

* `Model.st` (l.389-423): every `LinConstr` passed to `st` receives `constr.index = constr_idx`
  (the counter is never reset: a re-formulation through `ro.Model.do_math` numbers the constraints
  `base, base+1, …` with `base` = value of the counter when the formulation starts);
* `Model.do_math(primal=True)` (l.487-614): rows = the user's `lin_constr` in `st` order, followed
  by the epigraph row `vars[0] - sign*obj >= 0` (stored as the `<=` row `-x0 + sign*c·x <= -sign*c0`,
  `index None`); `ciarray` = per row the `index` of the `LinConstr` it came from; bounds folded into
  `ub` / `lb` (`foldBounds`, `RsomeV/M/AtomsSoc.lean`);
* `LinConstr.dual` (l.3034-3053): `y['pi'][ciarray == index] * sign`;
* `Bounds.dual` (l.3142-3165): `(y['upi'] * sign)[indices]`, zeroed where
  `primal.ub[indices] < values` (resp. `lpi`, `primal.lb[indices] > values`).

Columns: `0` is the epigraph column `x0`, `1 .. n` are the user's variables.  Executable over `ℚ`. -/

namespace RsomeV.DualCert
open Finset

variable {K : Type} [Field K] [LinearOrder K] [IsStrictOrderedRing K]

/-- comparison operator the user wrote -/
inductive Sense | le | ge | eq
  deriving DecidableEq, Repr

/-- a constraint as the user writes it: `A x (<= | >= | ==) b` (array form, `m` rows) -/
structure UBlock (K : Type) where
  m : ℕ
  a : ℕ → ℕ → K
  b : ℕ → K
  sense : Sense

/-- a stored `LinConstr`: `linear`, `const`, `sense` (`eq = true` for `==`, else `<=`) -/
structure LinBlock (K : Type) where
  m : ℕ
  a : ℕ → ℕ → K
  b : ℕ → K
  eq : Bool

/-- `Affine.__le__ / __ge__ / __eq__`: a `>=` constraint is stored as the `<=` constraint of its
negation -/
def UBlock.stored (B : UBlock K) : LinBlock K :=
  match B.sense with
  | .le => ⟨B.m, B.a, B.b, false⟩
  | .ge => ⟨B.m, fun r j => - B.a r j, fun r => - B.b r, false⟩
  | .eq => ⟨B.m, B.a, B.b, true⟩

/-- the user's model: `min / max c·x + c0` over columns `1..n`, linear constraint blocks in `st`
order (stored orientation), `Bounds` objects in `st` order; `base` = value of `Model.constr_idx`
when the formulation starts -/
structure UserLP (K : Type) where
  n : ℕ
  isMax : Bool
  c : ℕ → K
  c0 : K
  blocks : List (LinBlock K)
  bounds : List (Bound K)
  base : ℕ

/-- one row of the compiled program together with its `ciarray` entry -/
structure CRow (K : Type) where
  coef : ℕ → K
  rhs : K
  eq : Bool
  ci : Option ℕ

instance : Inhabited (CRow K) := ⟨⟨fun _ => 0, 0, false, none⟩⟩
instance : Inhabited (LinBlock K) := ⟨⟨0, fun _ _ => 0, fun _ => 0, false⟩⟩

/-- rows of one `LinConstr` whose `index` is `idx` -/
def LinBlock.rows (B : LinBlock K) (idx : ℕ) : List (CRow K) :=
  (List.range B.m).map fun r => ⟨B.a r, B.b r, B.eq, some idx⟩

/-- rows of `lin_constr`, the constraints being numbered `i, i+1, …` -/
def blockRows : ℕ → List (LinBlock K) → List (CRow K)
  | _, [] => []
  | i, B :: Bs => B.rows i ++ blockRows (i + 1) Bs

namespace UserLP

/-- `Model.sign`: `+1` for `min`, `-1` for `max` -/
def sign (U : UserLP K) : K := if U.isMax then -1 else 1

/-- the epigraph row `x0 - sign*obj >= 0`, stored as `-x0 + sign*c·x <= -sign*c0` (`index None`) -/
def epiRow (U : UserLP K) : CRow K :=
  ⟨fun j => if j = 0 then -1 else U.sign * U.c j, - (U.sign * U.c0), false, none⟩

/-- `self.lin_constr + self.aux_constr` -/
def rows (U : UserLP K) : List (CRow K) := blockRows U.base U.blocks ++ [U.epiRow]

/-- `Model.ciarray` -/
def ciarray (U : UserLP K) : List (Option ℕ) := U.rows.map (·.ci)

/-- the `LinProg` `do_math()` returns -/
def compile (U : UserLP K) : LinProg K where
  nr := U.rows.length
  nc := U.n + 1
  a  := fun i j => (U.rows.getD i default).coef j
  b  := fun i => (U.rows.getD i default).rhs
  eq := fun i => (U.rows.getD i default).eq
  ub := (foldBounds U.bounds).1
  lb := (foldBounds U.bounds).2
  c  := fun j => if j = 0 then 1 else 0

/-- first row of block `k` -/
def offset (U : UserLP K) (k : ℕ) : ℕ := ((U.blocks.take k).map (·.m)).sum

/-- `constr.index` of block `k` -/
def indexOf (U : UserLP K) (k : ℕ) : ℕ := U.base + k

/-- block `k` -/
def blk (U : UserLP K) (k : ℕ) : LinBlock K := U.blocks.getD k default

/-- what the API guarantees: the user's rows do not touch the epigraph column `0`, and bound
constraints address user columns `1..n` -/
structure WF (U : UserLP K) : Prop where
  col0 : ∀ k < U.blocks.length, ∀ r < (U.blk k).m, (U.blk k).a r 0 = 0
  bnd : ∀ b ∈ U.bounds, ∀ p ∈ b.entries, 1 ≤ p.1 ∧ p.1 ≤ U.n

/-- the upper bound the user gave for entry `j` (first one; unique under the side condition) -/
def ubOf (U : UserLP K) (j : ℕ) : Option K := (upVals U.bounds j).head?
/-- the lower bound the user gave for entry `j` -/
def lbOf (U : UserLP K) (j : ℕ) : Option K := (loVals U.bounds j).head?

/-- value of row `r` of block `k` at the user's point `x` (columns `1..n`) -/
def rowVal (U : UserLP K) (x : ℕ → K) (k r : ℕ) : K :=
  ∑ j ∈ Finset.Ico 1 (U.n + 1), (U.blk k).a r j * x j

/-- `x` satisfies the user's constraints -/
structure Feas (U : UserLP K) (x : ℕ → K) : Prop where
  rows : ∀ k < U.blocks.length, ∀ r < (U.blk k).m,
    if (U.blk k).eq then U.rowVal x k r = (U.blk k).b r else U.rowVal x k r ≤ (U.blk k).b r
  bnds : ∀ b ∈ U.bounds, ∀ p ∈ b.entries, if b.upper then x p.1 ≤ p.2 else p.2 ≤ x p.1

/-- the user's objective `c·x + c0` -/
def objVal (U : UserLP K) (x : ℕ → K) : K := ∑ j ∈ Finset.Ico 1 (U.n + 1), U.c j * x j + U.c0

end UserLP

/-- the property's side condition: every entry carries at most one upper and at most one lower
bound constraint (over all `Bounds` objects, repeated indices inside one object included) -/
def OneBound (bs : List (Bound K)) : Prop :=
  ∀ j, (upVals bs j).length ≤ 1 ∧ (loVals bs j).length ≤ 1

/-- a dual certificate of the user's model, indexed like the user's constraints: `d k r` for row
`r` of block `k` (blocks in the `<=` / `==` orientation), `dU j` / `dL j` for the upper / lower bound
of entry `j`, certifying the objective value `val` -/
structure UserCert (U : UserLP K) (d : ℕ → ℕ → K) (dU dL : ℕ → K) (val : K) : Prop where
  /-- objective gradient = dual-weighted sum of constraint and bound gradients -/
  grad : ∀ j ∈ Finset.Ico 1 (U.n + 1), U.c j =
    ∑ k ∈ range U.blocks.length, ∑ r ∈ range (U.blk k).m, d k r * (U.blk k).a r j + dU j + dL j
  /-- dual-weighted right-hand sides (+ the objective's constant) = objective value -/
  value : ∑ k ∈ range U.blocks.length, ∑ r ∈ range (U.blk k).m, d k r * (U.blk k).b r
      + ∑ j ∈ Finset.Ico 1 (U.n + 1), dU j * (U.ubOf j).getD 0
      + ∑ j ∈ Finset.Ico 1 (U.n + 1), dL j * (U.lbOf j).getD 0 + U.c0 = val
  /-- `min`: `<=` rows and upper bounds non-positive, lower bounds non-negative -/
  signMin : U.isMax = false →
    (∀ k < U.blocks.length, (U.blk k).eq = false → ∀ r < (U.blk k).m, d k r ≤ 0) ∧
    (∀ j ∈ Finset.Ico 1 (U.n + 1), dU j ≤ 0) ∧ (∀ j ∈ Finset.Ico 1 (U.n + 1), 0 ≤ dL j)
  /-- `max`: reversed -/
  signMax : U.isMax = true →
    (∀ k < U.blocks.length, (U.blk k).eq = false → ∀ r < (U.blk k).m, 0 ≤ d k r) ∧
    (∀ j ∈ Finset.Ico 1 (U.n + 1), 0 ≤ dU j) ∧ (∀ j ∈ Finset.Ico 1 (U.n + 1), dL j ≤ 0)
  /-- an entry without upper / lower bound has zero bound multiplier -/
  ubFree : ∀ j ∈ Finset.Ico 1 (U.n + 1), U.ubOf j = none → dU j = 0
  lbFree : ∀ j ∈ Finset.Ico 1 (U.n + 1), U.lbOf j = none → dL j = 0

/-! ### What `dual()` returns -/

/-- positions `i` (shifted by `off`) with `ci[i] == idx` -/
def posOf (ci : List (Option ℕ)) (idx off : ℕ) : List ℕ :=
  (ci.zipIdx off).filterMap fun p => if p.1 = some idx then some p.2 else none

/-- `LinConstr.dual()`: `y['pi'][ciarray == index] * sign` (a one-element result is returned as a
scalar by the code; the model keeps the list) -/
def dualLin (sign : K) (ci : List (Option ℕ)) (pi : ℕ → K) (idx : ℕ) : List K :=
  (posOf ci idx 0).map fun i => pi i * sign

/-- `a < b` where `none` is `+inf` on the left (`primal.ub[i] < value`) -/
def ubLt : Option K → K → Bool
  | none, _ => false
  | some u, v => decide (u < v)

/-- `a > b` where `none` is `-inf` on the left (`primal.lb[i] > value`) -/
def lbGt : Option K → K → Bool
  | none, _ => false
  | some l, v => decide (l > v)

/-- `Bounds.dual()`: the bound multipliers of the addressed entries times `sign`, zeroed where the
folded bound of the compiled program is strictly tighter than the value of this object -/
def dualBound (sign : K) (ub lb : ℕ → Option K) (upi lpi : ℕ → K) (B : Bound K) : List K :=
  B.entries.map fun p =>
    if B.upper then (if ubLt (ub p.1) p.2 then 0 else upi p.1 * sign)
    else (if lbGt (lb p.1) p.2 then 0 else lpi p.1 * sign)

namespace UserLP

/-- what `dual()` of block `k` returns for the multipliers `pi` of the compiled program -/
def readLin (U : UserLP K) (pi : ℕ → K) (k : ℕ) : List K :=
  dualLin U.sign U.ciarray pi (U.indexOf k)

/-- what `dual()` of the `Bounds` object `B` returns -/
def readBnd (U : UserLP K) (upi lpi : ℕ → K) (B : Bound K) : List K :=
  dualBound U.sign U.compile.ub U.compile.lb upi lpi B

/-- the values `Bounds.dual()` returns for entry `j`, summed over all `Bounds` objects of the
given kind (and over repeated positions): the bound multiplier the user reads off for entry `j` -/
def retBnd (U : UserLP K) (upi lpi : ℕ → K) (upper : Bool) (j : ℕ) : K :=
  ((U.bounds.filter fun B => B.upper == upper).map fun B =>
    ((B.entries.zip (U.readBnd upi lpi B)).map fun q => if q.1.1 = j then q.2 else 0).sum).sum

end UserLP

/-! ### KKT multipliers of a standard-form LP (scipy's sign convention) -/

/-- How the interfaces fill `solution.y = {pi, upi, lpi}` (all in the convention below):
`lp.def_sol` (scipy/HiGHS): `pi[eq rows] = res.eqlin.marginals`, `pi[ineq rows] = res.ineqlin.marginals`,
`upi = res.upper.marginals`, `lpi = res.lower.marginals`; `eco_solver`: `pi[eq] = -y`,
`pi[ineq] = -z[:num_ineq]`, `lpi = +z_lb`, `upi = -z_ub` (ECOS' cone multipliers are `≥ 0`).

`(π, λU, λL)` is a KKT multiplier of `min c·x` over `P` with optimal value `v`:
`π` = marginals of the rows (`≤ 0` on `<=` rows, free on `==` rows), `λU ≤ 0` / `λL ≥ 0` =
marginals of the upper / lower bounds (zero for infinite bounds), stationarity in every column
and complementary slackness in the form of the value identity. -/
structure KKT (P : LinProg K) (π lamU lamL : ℕ → K) (v : K) : Prop where
  stat : ∀ j < P.nc, P.c j = ∑ i ∈ range P.nr, π i * P.a i j + lamU j + lamL j
  rowSign : ∀ i < P.nr, P.eq i = false → π i ≤ 0
  ubSign : ∀ j < P.nc, lamU j ≤ 0
  lbSign : ∀ j < P.nc, 0 ≤ lamL j
  ubInf : ∀ j < P.nc, P.ub j = none → lamU j = 0
  lbInf : ∀ j < P.nc, P.lb j = none → lamL j = 0
  value : ∑ i ∈ range P.nr, π i * P.b i + ∑ j ∈ range P.nc, lamU j * (P.ub j).getD 0
            + ∑ j ∈ range P.nc, lamL j * (P.lb j).getD 0 = v

end RsomeV.DualCert
