import RsomeV.M.Dro

/-! Order-faithful model of the rows `dro.Model.dro_to_roc` (rsome/dro.py l.689-805) emits for ONE
row `i` of an expectation constraint `E(max_l piece_l) <= 0` (an `ExpPWConstr`, or a
`DecLinConstr`/`DecRoConstr` of `ctype == 'E'`, which is the case of one piece).

The code creates `alpha = ro_model.dvar(num_scen)` and — only when there are expectation sets —
`beta = ro_model.dvar((num_rand, num_event))` and emits

1. the **first-stage row** `alpha @ p + Σ_k var_exp_list[k][:num_rand] @ beta[:, k] <= 0`, an uncertain
   row over the lifted support `mix_support`, immediately compiled with `le_to_rc(mixed_support)`;
2. for every scenario `s` (outer loop) and every piece `l` (inner loop) the **second-stage row**
   `piece_{s,l}(x, z) <= alpha[s] + (z @ beta[:, events(s)]).sum()`, stored as
   `RoConstr(left - right, sense 0).forall(sup_constr[s])` — or, when neither side has a random
   part, as the `LinConstr` `left - right <= 0`.

`piece_{s,l}` is piece `l` with the decision rule of scenario `s` (`rule_var()[s]`) substituted:
bi-affine in the columns of `ro_model` that exist before `alpha` is created and in the `num_rand`
random components.  It is an *input* of the model (`DroIn.Rl/Rc/al/ac`); the differential test
computes it from `rule_var()` and the constraint's own `linear/const/raffine` with dense numpy.

Column layout (checked against the code by the differential test): `alpha[s]` is column
`acol0 + s`; `beta` has shape `(num_rand, num_event)` and is laid out row-major, so `beta[j, k]`
(random component `j`, event `k`) is column `acol0 + S + j·nE + k`.  The multipliers of the compiled
first-stage row follow (`le_to_rc` calls `dvar` next): `firstNd = acol0 + S + num_rand·nE` decision
columns exist when the first-stage row is compiled. -/

namespace RsomeV
open Finset

variable {K : Type} [Field K] [LinearOrder K] [IsStrictOrderedRing K]

namespace Dro

/-- what `dro_to_roc` knows about one row of an expectation constraint (after rule substitution) -/
structure DroIn (K : Type) where
  S      : ℕ                     -- `num_scen`
  nrand  : ℕ                     -- `num_rand = sup_model.vars[-1].last`
  acol0  : ℕ                     -- number of `ro_model` columns before `alpha = ro_model.dvar(num_scen)`
  np     : ℕ                     -- number of pieces
  rand   : ℕ → Bool              -- piece `l` has random coefficients (`raffine is not None`: a `DecRoConstr` piece)
  ruleRo : Bool                  -- the decision rules are `RoAffine`s (some decision adapts affinely)
  Rl : ℕ → ℕ → ℕ → ℕ → K         -- scenario s, piece l, random component j, column d
  Rc : ℕ → ℕ → ℕ → K             -- scenario s, piece l, random component j
  al : ℕ → ℕ → ℕ → K             -- scenario s, piece l, column d
  ac : ℕ → ℕ → K                 -- scenario s, piece l

/-- one second-stage item of the returned list -/
structure Row2 (K : Type) where
  s   : ℕ                        -- scenario (the item carries `.forall(sup_constr[s])`)
  l   : ℕ                        -- piece
  lin : Bool                     -- stored as a `LinConstr` (no random part on either side)
  row : RoRows K                 -- `left - right <= 0`, one row

/-- the rows `dro_to_roc` emits for one row of the constraint -/
structure DroOut (K : Type) where
  first  : RoRows K              -- compiled at once over `mix_support(primal=False)`
  second : List (Row2 K)         -- scenario-major, pieces inner

namespace DroIn

/-- column of `alpha[s]` -/
def acol (I : DroIn K) (s : ℕ) : ℕ := I.acol0 + s
/-- column of `beta[j, k]` (`nE` events; row-major `(num_rand, num_event)`) -/
def bcol (I : DroIn K) (nE : ℕ) (k j : ℕ) : ℕ := I.acol0 + I.S + j * nE + k
/-- number of `ro_model` columns when the first-stage row is compiled -/
def firstNd (I : DroIn K) (nE : ℕ) : ℕ := I.acol0 + I.S + I.nrand * nE

/-- value of `piece_{s,l}` at the decision assignment `v` and the realisation `z` -/
def pieceVal (I : DroIn K) (s l : ℕ) (v z : ℕ → K) : K :=
  (∑ j ∈ range I.nrand, ((∑ d ∈ range I.acol0, I.Rl s l j d * v d) + I.Rc s l j) * z j) +
  ((∑ d ∈ range I.acol0, I.al s l d * v d) + I.ac s l)

end DroIn

/-- `event_indices = [k for k in range(num_event) if s in exp_constr_indices[k]]` is non-empty -/
def hasEvent (exps : List (ConeProg K × List ℕ)) (s : ℕ) : Bool :=
  (List.range exps.length).any fun k => decide (s ∈ idx exps k)

/-- is the second-stage item `(s, l)` a `LinConstr`?  `left` is an `Affine` only if the piece is a
`DecLinConstr` and the rule is not a `RoAffine`; `right` is `alpha[s]` only if no event contains `s` -/
def isLin (exps : List (ConeProg K × List ℕ)) (I : DroIn K) (s l : ℕ) : Bool :=
  !(I.rand l) && !I.ruleRo && !(hasEvent exps s)

/-- `Σ_{k : s ∈ E_k} [d is the column of beta[j, k]]`: what `(z @ beta[:, event_indices]).sum()`
contributes to the coefficient of `z_j` at decision column `d` (at most one `k` matches) -/
def betaCoef (exps : List (ConeProg K × List ℕ)) (I : DroIn K) (s j d : ℕ) : K :=
  ∑ k ∈ range exps.length, if s ∈ idx exps k ∧ d = I.bcol exps.length k j then 1 else 0

/-- the second-stage row `(s, l)`: `piece_{s,l}(x, z) - alpha[s] - Σ_{k ∋ s} Σ_j beta[j, k]·z_j <= 0`
as stored in `RoConstr.raffine` (coefficients of `z_j`) and `RoConstr.affine`; `nd` = number of
decision columns the item is padded to (those existing when it is compiled).  A `LinConstr` item
has no random part at all. -/
def row2 (exps : List (ConeProg K × List ℕ)) (I : DroIn K) (nd : ℕ) (s l : ℕ) : RoRows K :=
  if isLin exps I s l then
    { nd := nd, m := 1, nz := I.nrand
      Rl := fun _ _ _ => 0, Rc := fun _ _ => 0
      al := fun _ d => I.al s l d - (if d = I.acol s then 1 else 0)
      ac := fun _ => I.ac s l }
  else
    { nd := nd, m := 1, nz := I.nrand
      Rl := fun _ j d => I.Rl s l j d - betaCoef exps I s j d
      Rc := fun _ j => I.Rc s l j
      al := fun _ d => I.al s l d - (if d = I.acol s then 1 else 0)
      ac := fun _ => I.ac s l }

/-- model of the list `dro_to_roc` returns for one row of the constraint (the first-stage row is
returned *before* compilation; the code returns `first.leToRc (mixSupport pro exps).coneDual`
followed by the second-stage items).  `nd2 s l` = padding width of item `(s, l)`. -/
def droToRoc (pro : ConeProg K) (exps : List (ConeProg K × List ℕ)) (I : DroIn K)
    (nd2 : ℕ → ℕ → ℕ) : DroOut K :=
  { first := droRow pro exps I.S I.nrand (I.firstNd exps.length) I.acol (I.bcol exps.length)
    second := (List.range I.S).flatMap fun s => (List.range I.np).map fun l =>
      { s := s, l := l, lin := isLin exps I s l, row := row2 exps I (nd2 s l) s l } }

end Dro
end RsomeV
