import Mathlib.Algebra.BigOperators.Ring.Finset
import Mathlib.Algebra.Order.BigOperators.Group.Finset
import Mathlib.Algebra.Order.Field.Basic

/-! Order-faithful, `ℕ`-indexed model of `lp.LinProg` and of the LP layer of
`lp.Model.do_math(primal=False)` (rsome/lp.py).  Executable over `ℚ`; theorems in
`RsomeV/L/LpDualWeak.lean` hold over every linear ordered field. -/

namespace RsomeV
open Finset

variable {K : Type} [Field K] [LinearOrder K] [IsStrictOrderedRing K]

/-- standard-form LP as rsome stores it (`LinProg`): rows with sense, bounds, cost -/
structure LinProg (K : Type) where
  nr : ℕ
  nc : ℕ
  a  : ℕ → ℕ → K
  b  : ℕ → K
  eq : ℕ → Bool
  ub : ℕ → Option K
  lb : ℕ → Option K
  c  : ℕ → K

namespace LinProg

def row (P : LinProg K) (i : ℕ) (x : ℕ → K) : K := ∑ j ∈ range P.nc, P.a i j * x j

def leUb (v : K) : Option K → Prop
  | none => True
  | some u => v ≤ u
def geLb (v : K) : Option K → Prop
  | none => True
  | some l => l ≤ v

structure Feas (P : LinProg K) (x : ℕ → K) : Prop where
  rows : ∀ i < P.nr, if P.eq i then P.row i x = P.b i else P.row i x ≤ P.b i
  ubs  : ∀ j < P.nc, leUb (x j) (P.ub j)
  lbs  : ∀ j < P.nc, geLb (x j) (P.lb j)

def obj (P : LinProg K) (x : ℕ → K) : K := ∑ j ∈ range P.nc, P.c j * x j

/-- `np.where((ub != 0) & (ub != inf))` -/
def idxUb (P : LinProg K) : List ℕ :=
  (List.range P.nc).filter fun j => match P.ub j with | some u => decide (u ≠ 0) | none => false
/-- `np.where((lb != 0) & (lb != -inf))` -/
def idxLb (P : LinProg K) : List ℕ :=
  (List.range P.nc).filter fun j => match P.lb j with | some l => decide (l ≠ 0) | none => false
/-- `np.where(lb == ub)` -/
def idxFx (P : LinProg K) : List ℕ :=
  (List.range P.nc).filter fun j => match P.lb j, P.ub j with
    | some l, some u => decide (l = u) | _, _ => false

def isNeg (P : LinProg K) (j : ℕ) : Bool := match P.ub j with | some u => decide (u = 0) | none => false
def isFree (P : LinProg K) (j : ℕ) : Bool :=
  (match P.lb j with | some l => decide (l ≠ 0) | none => true) &&
  (match P.ub j with | some u => decide (u ≠ 0) | none => true)

/-- the augmented primal rows (`sp.vstack` of the original rows and the three bound blocks) -/
def augNr (P : LinProg K) : ℕ := P.nr + P.idxUb.length + P.idxLb.length + P.idxFx.length

def augA (P : LinProg K) (i j : ℕ) : K :=
  if i < P.nr then P.a i j
  else if i < P.nr + P.idxUb.length then (if j = P.idxUb.getD (i - P.nr) 0 then 1 else 0)
  else if i < P.nr + P.idxUb.length + P.idxLb.length then
    (if j = P.idxLb.getD (i - P.nr - P.idxUb.length) 0 then -1 else 0)
  else (if j = P.idxFx.getD (i - P.nr - P.idxUb.length - P.idxLb.length) 0 then -1 else 0)

def augB (P : LinProg K) (i : ℕ) : K :=
  if i < P.nr then P.b i
  else if i < P.nr + P.idxUb.length then ((P.ub (P.idxUb.getD (i - P.nr) 0)).getD 0)
  else if i < P.nr + P.idxUb.length + P.idxLb.length then
    - ((P.lb (P.idxLb.getD (i - P.nr - P.idxUb.length) 0)).getD 0)
  else - ((P.lb (P.idxFx.getD (i - P.nr - P.idxUb.length - P.idxLb.length) 0)).getD 0)

def augEq (P : LinProg K) (i : ℕ) : Bool :=
  if i < P.nr then P.eq i
  else if i < P.nr + P.idxUb.length + P.idxLb.length then false
  else true

/-- the dual program, column `i` = multiplier of augmented row `i` -/
def dual (P : LinProg K) : LinProg K where
  nr := P.nc
  nc := P.augNr
  a  := fun j i => if P.isNeg j then - P.augA i j else P.augA i j
  b  := fun j => if P.isNeg j then - P.c j else P.c j
  eq := fun j => P.isFree j
  ub := fun i => if P.augEq i then none else some 0
  lb := fun _ => none
  c  := fun i => - P.augB i

end LinProg

end RsomeV
