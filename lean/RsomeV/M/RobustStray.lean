import RsomeV.M.Robust

/-! Order-faithful model of the repaired `lp.RoConstr.le_to_rc` (rsome/lp.py): the fragment of
`RoRows.leToRc` followed by the *stray* block.

The dual form `S` of the support program carries `support.num_rand = known`: the number of
random-variable columns that existed when the set was formulated (`RoConstr.forall`,
`ro.Model.minmax/maxmin`).  The rows `known ≤ j < S.lp.nr` of `S` belong to the auxiliary columns of
the formulation (pieces of 1-norms / inf-norms, cone members).  A random variable declared *after*
the set was formulated takes the column number of one of them; `le_to_rc` used to pair its
coefficient with that auxiliary row (block (2)).  The repaired code appends, after the block
`raffine[:, num_rand:] == 0` of the late variables beyond the rows of `S`,

    known = getattr(support, 'num_rand', num_rand)
    if known < num_rand:
        stray = self.raffine[:, known:num_rand]
        if stray.linear.nnz > 0 or np.any(stray.const):
            bounds.append(stray == 0)

i.e. the equalities `Σ_d Rl n j d · x_d = - Rc n j` for `known ≤ j < num_rand`, row-major `(n, j)`,
present only when the sub-array is structurally non-zero. -/

namespace RsomeV
open Finset

variable {K : Type} [Field K] [LinearOrder K] [IsStrictOrderedRing K]

namespace RoRows

/-- width of the stray block: the columns `known ≤ j < num_rand` -/
def strayW (R : RoRows K) (S : ConeProg K) (known : ℕ) : ℕ := R.numRand S - known

/-- `stray.linear.nnz > 0 or np.any(stray.const)` for `stray = raffine[:, known:num_rand]` (empty
range, hence `false`, unless `known < num_rand`) -/
def strayPresent (R : RoRows K) (S : ConeProg K) (known : ℕ) : Bool :=
  (List.range R.m).any fun n => (List.range (R.strayW S known)).any fun jj =>
    decide (R.Rc n (known + jj) ≠ 0) ||
      (List.range R.nd).any fun d => decide (R.Rl n (known + jj) d ≠ 0)

/-- number of rows of the block `raffine[:, known:num_rand] == 0` -/
def n5 (R : RoRows K) (S : ConeProg K) (known : ℕ) : ℕ :=
  if R.strayPresent S known then R.m * R.strayW S known else 0

/-- the repaired `le_to_rc`: the rows of `leToRc R S` (blocks (1)–(4)) followed by the stray block
(5); columns, bounds and cones are those of `leToRc R S`.  The fields `n1 … n4` are those of
`leToRc R S`; the number of rows of block (5) is `R.n5 S known`, and
`prog.lp.nr = n1 + n2 + n3 + n4 + n5`. -/
def leToRcK (R : RoRows K) (S : ConeProg K) (known : ℕ) : RcFragment K :=
  let F := R.leToRc S
  let r0 := F.prog.lp.nr
  let w5 := R.strayW S known
  let a : ℕ → ℕ → K := fun r c =>
    if r < r0 then F.prog.lp.a r c
    else
      -- `raffine[:, known:num_rand] == 0`, flattened row-major `(n, j)`
      (if c < R.nd then R.Rl ((r - r0) / w5) (known + (r - r0) % w5) c else 0)
  let b : ℕ → K := fun r =>
    if r < r0 then F.prog.lp.b r else - R.Rc ((r - r0) / w5) (known + (r - r0) % w5)
  let eq : ℕ → Bool := fun r => if r < r0 then F.prog.lp.eq r else true
  { prog :=
      { lp := { nr := r0 + R.n5 S known, nc := F.prog.lp.nc, a := a, b := b, eq := eq
                ub := F.prog.lp.ub, lb := F.prog.lp.lb, c := F.prog.lp.c }
        st := fun r c => decide (a r c ≠ 0)
        qmat := F.prog.qmat
        xmat := F.prog.xmat }
    n1 := F.n1, n2 := F.n2, n3 := F.n3, n4 := F.n4 }

/-- The *list* `le_to_rc` returns, as a sequence of item kinds — this fixes the position of the row
blocks relative to the bound items, which the program fragment (bounds folded into `ub`/`lb`) does
not record:
`constr1, constr2, [constr3 when num_rand ≠ |rows of S|], [dual_var[:, ub == 0] <= 0],
[dual_var[:, lb == 0] >= 0], [late == 0], [stray == 0]`, then for every row `n` the second-order
cones and the exponential cones of the support. -/
def itemKinds (R : RoRows K) (S : ConeProg K) (known : ℕ) : List String :=
  ["rows1", "rows2"] ++
  (if R.numRand S = S.lp.nr then [] else ["rows3"]) ++
  (if (List.range S.lp.nc).any (fun i => decide (S.lp.ub i = some 0)) then ["ub"] else []) ++
  (if (List.range S.lp.nc).any (fun i => decide (S.lp.lb i = some 0)) then ["lb"] else []) ++
  (if R.latePresent S then ["late"] else []) ++
  (if R.strayPresent S known then ["stray"] else []) ++
  (List.range R.m).flatMap fun _ => S.qmat.map (fun _ => "soc") ++ S.xmat.map (fun _ => "exp")

end RoRows
end RsomeV
