/-! Model of the caching / scratch-model protocol shared by `lp/socp/gcp.Model` (rsome): constraint lists, the
`pupdate`/`dupdate` dirty flags, the cached `primal`/`dual`, `reset()`, `st()`, `do_math()`, and the way
`RoConstr.forall`, `ro.Model.minmax/maxmin` and `Scen.suppset` use the *shared* support model as a scratch pad
(`reset(); st(each); do_math(primal=False)`).  The formulation itself is an abstract function `form` of the
constraint list (models of it: `RsomeV/M/ConeDual.lean`, `RsomeV/M/Atoms*.lean`).  Core Lean only. -/

namespace RsomeV.State

/-- the part of a model object the protocol touches -/
structure Scratch (C F : Type) where
  items  : List C          -- all constraint lists (lin, pws, cone, exp, other, bounds, cvx, ip, det), in st() order
  cache  : Option F        -- `self.dual`
  dirty  : Bool            -- `self.dupdate`

variable {C F : Type}

def init : Scratch C F := { items := [], cache := none, dirty := true }

/-- `st(c)`: append and mark dirty -/
def st (s : Scratch C F) (c : C) : Scratch C F := { s with items := s.items ++ [c], dirty := true }

/-- (repaired) `reset()`: every list emptied, flags set -/
def reset (s : Scratch C F) : Scratch C F := { s with items := [], dirty := true }

/-- the pre-repair `reset()`: constraints of the kinds `leak` survive (ip_constr, det_constr were not cleared) and
the dirty flag is left as it is -/
def legacyReset (leak : C → Bool) (s : Scratch C F) : Scratch C F := { s with items := s.items.filter leak }

/-- `do_math(primal=False)`: return the cache unless dirty -/
def doMath (form : List C → F) (s : Scratch C F) : F × Scratch C F :=
  match s.dirty, s.cache with
  | false, some f => (f, s)
  | _, _ => (form s.items, { s with cache := some (form s.items), dirty := false })

/-- `forall(cs)` / `minmax(obj, cs)` / `suppset(cs)`: formulate the set `cs` on the shared scratch model -/
def formulateSet (form : List C → F) (s : Scratch C F) (cs : List C) : F × Scratch C F :=
  doMath form (cs.foldl st (reset s))

def legacyFormulateSet (leak : C → Bool) (form : List C → F) (s : Scratch C F) (cs : List C) : F × Scratch C F :=
  doMath form (cs.foldl st (legacyReset leak s))

/-- operations of a history -/
inductive Op (C : Type) where
  | st (c : C) | reset | doMath | set (cs : List C)

def step (form : List C → F) (s : Scratch C F) : Op C → Scratch C F
  | .st c => st s c
  | .reset => reset s
  | .doMath => (doMath form s).2
  | .set cs => (formulateSet form s cs).2

def run (form : List C → F) (s : Scratch C F) (ops : List (Op C)) : Scratch C F := ops.foldl (step form) s

/-- the cache is what `form` gives for the current lists whenever it is not marked dirty -/
def Coherent (form : List C → F) (s : Scratch C F) : Prop := s.dirty = false → s.cache = some (form s.items)

end RsomeV.State
