import RsomeV.M.ConeDual

/-! Order-faithful model of `GCProg.to_socp(degree, cuts)` (rsome/gcp.py l.532-643): the
second-order-cone approximation of every exponential cone `xm = [i0, i1, i2]`
(`x_{i2}·exp(x_{i0}/x_{i2}) ≤ x_{i1}`) of a conic program.

For every exponential cone the code appends one block of `numCols L` fresh columns

    local column   0   1   2   3   4   5  6  7   8 … 7+L     8+L+3q, 8+L+3q+1, 8+L+3q+2  (q < 3+L)
    name           t   x0  x1  α0  α1  f  g  h   v_0…v_{L-1}     one triple per rotated cone

and `rowCount L` rows (`more_linear`, preceded by the three `-1` entries of `left_linear` in the
columns of the exponential cone), plus `3 + L` second-order cones `[c+2, c+1, c]` (head first) on
the triples.  Everything else (rows, bounds, cost, cones) is carried over and `xmat` becomes empty.

Row 0 of a block is `t + exp(cut_lower)·α0 ≤ x_{i1}` (the repaired code; before the repair the entry
at `α0` was missing, so that the part of the cone below the lower cut contributed `0`).  The value
`np.exp(cut_lower)` is the model parameter `elo` (the float `np.exp` is trusted to be `exp(cut_lower)`
to within rounding; the model and the tie use the float the code actually writes).

The model is the *pure* function: rsome's code extends `self.qmat` in place (`qmat = self.qmat;
qmat += …`), which also changes the source program; that side effect is not part of the model.
The Python code requires `degree ≥ 1` (`v_idx[0]` raises `IndexError` for `degree = 0`); the model
is total, its theorems assume `1 ≤ L`.

Rows are modelled as sparse rows (`List (column × coefficient)`, the `(data, col_idx)` pairs the
code writes for that row); `entry` is the dense coefficient (duplicates summed, as `csr_matrix`
does) and `stored` the stored pattern (explicit zeros, e.g. `-cut_lower = 0`, stay stored). -/

namespace RsomeV
namespace SocApprox

variable {K : Type} [Field K] [LinearOrder K] [IsStrictOrderedRing K]

/-- `num_vars = 1 + 4 + degree + 3` : `t, x0, x1, α0, α1, f, g, h, v_0..v_{L-1}` -/
def numVars (L : ℕ) : ℕ := 1 + 4 + L + 3
/-- `num_cols = num_vars + (3 + degree)*3` -/
def numCols (L : ℕ) : ℕ := numVars L + (3 + L) * 3
/-- the final value of `row_count` : `1 + 2 + 1 + 3 + 3·(3 + degree)` -/
def rowCount (L : ℕ) : ℕ := 1 + 2 + 1 + 3 + 3 * (3 + L)

/-- the column `w` of the `q`-th rotated cone `y² ≤ α1·w`:
`f, g, h` (`fgh_idx`) for `q = 0, 1, 2`; `v_idx[d+1]` for `q = 3 + d`, `d < L - 1`; `t_idx` for the
last one -/
def wCol (L q : ℕ) : ℕ := if q < 3 then 5 + q else if q < 2 + L then 6 + q else 0

/-- the entries of the middle row (the value `y` that is squared) of the `q`-th rotated cone:
`x1/2^L`; `x1/2^L + α1`; `g`; `v_idx[d]` for `q = 3 + d` -/
def yRow (L q : ℕ) : List (ℕ × K) :=
  if q = 0 then [(2, 1 / 2 ^ L)]
  else if q = 1 then [(2, 1 / 2 ^ L), (4, 1)]
  else if q = 2 then [(6, 1)]
  else [(5 + q, 1)]

/-- sparse row `r` of `more_linear` (block-local column numbers).  Row 0 is
`data = [1, np.exp(cut_lower)]`, `col_idx = [t_idx, alpha_idx[0]]`: `t + exp(cLo)·α0 - x_{i1} ≤ 0`;
`elo` is the value the code writes for `np.exp(cut_lower)`. -/
def blockRow (L : ℕ) (cLo cHi elo : K) (r : ℕ) : List (ℕ × K) :=
  match r with
  | 0 => [(0, 1), (3, elo)]
  | 1 => [(1, 1), (2, 1)]
  | 2 => [(3, 1), (4, 1)]
  | 3 => [(2, 20 / 2 ^ L / 24), (4, 23 / 24), (5, 1 / 4), (7, 1 / 24), (8, -1)]
  | 4 => [(1, 1), (3, -cLo)]
  | 5 => [(2, 1), (4, -cHi)]
  | 6 => [(2, -1), (4, cLo)]
  | r + 7 =>
    match r % 3 with
    | 0 => [(4, 1 / 2), (wCol L (r / 3), -(1 / 2)), (numVars L + 3 * (r / 3), -1)]
    | 1 => yRow L (r / 3) ++ [(numVars L + 3 * (r / 3) + 1, -1)]
    | _ => [(4, -(1 / 2)), (wCol L (r / 3), -(1 / 2)), (numVars L + 3 * (r / 3) + 2, 1)]

/-- `more_sense = [0] + [1]*2 + [0]*4 + [1, 1, 0]*(3 + degree)` (`true` = equality) -/
def blockEq (r : ℕ) : Bool :=
  if r < 1 then false else if r < 3 then true else if r < 7 then false else decide ((r - 7) % 3 ≠ 2)

/-- `more_lb`: `0` on `alpha_idx + fgh_idx + v_idx` and on the head (third column) of every triple -/
def blockLb (L c : ℕ) : Option K :=
  if 3 ≤ c ∧ c < numVars L then some 0
  else if numVars L ≤ c ∧ (c - numVars L) % 3 = 2 then some 0
  else none

/-- `left_linear`: `-1` at `(0, xm[1])`, `(1, xm[0])`, `(2, xm[2])` -/
def leftRow (xm : List ℕ) (r : ℕ) : List (ℕ × K) :=
  match r with
  | 0 => [(xm.getD 1 0, -1)]
  | 1 => [(xm.getD 0 0, -1)]
  | 2 => [(xm.getD 2 0, -1)]
  | _ => []

/-- dense coefficient of a sparse row (duplicate positions are summed) -/
def entry (row : List (ℕ × K)) (j : ℕ) : K := ((row.filter fun e => e.1 == j).map fun e => e.2).sum

/-- stored pattern of a sparse row -/
def stored (row : List (ℕ × K)) (j : ℕ) : Bool := row.any fun e => e.1 == j

/-- first column of the block of the `k`-th exponential cone (`left_width` in iteration `k`) -/
def off (P : ConeProg K) (L k : ℕ) : ℕ := P.lp.nc + k * numCols L

/-- row `r` of the block of the `k`-th exponential cone, global column numbers:
`sp.hstack((left_linear, more_linear))` -/
def globalRow (P : ConeProg K) (L : ℕ) (cLo cHi elo : K) (k r : ℕ) : List (ℕ × K) :=
  leftRow (P.xmat.getD k []) r ++ (blockRow L cLo cHi elo r).map fun e => (off P L k + e.1, e.2)

/-- the `3 + degree` cones of block `k`:
`[list(left_width + num_vars + np.array([2, 1, 0]) + q*3) for q in range(3+degree)]` -/
def blockCones (P : ConeProg K) (L k : ℕ) : List (List ℕ) :=
  (List.range (3 + L)).map fun q =>
    [off P L k + numVars L + 2 + q * 3, off P L k + numVars L + 1 + q * 3, off P L k + numVars L + 0 + q * 3]

/-- `GCProg.to_socp(degree = L, cuts = (cLo, cHi))`, the returned program.  `elo` is the value of the
coefficient `np.exp(cut_lower)` of `α0` in row 0 of every block (a parameter: `exp` does not exist in
a generic field; the tie passes the code's float exactly, the theorems over `ℝ` take
`elo = Real.exp cLo`; with `elo = 0` the coefficients are those of the program rsome built before the
repair - the stored pattern then has one extra explicit zero per block). -/
def toSocp (P : ConeProg K) (L : ℕ) (cLo cHi elo : K) : ConeProg K :=
  let nx := P.xmat.length
  let R := rowCount L
  let W := numCols L
  { lp := { nr := P.lp.nr + nx * R
            nc := P.lp.nc + nx * W
            a := fun i j =>
              if i < P.lp.nr then (if j < P.lp.nc then P.lp.a i j else 0)
              else entry (globalRow P L cLo cHi elo ((i - P.lp.nr) / R) ((i - P.lp.nr) % R)) j
            b := fun i => if i < P.lp.nr then P.lp.b i else 0
            eq := fun i => if i < P.lp.nr then P.lp.eq i else blockEq ((i - P.lp.nr) % R)
            ub := fun j => if j < P.lp.nc then P.lp.ub j else none
            lb := fun j => if j < P.lp.nc then P.lp.lb j else blockLb L ((j - P.lp.nc) % W)
            c := fun j => if j < P.lp.nc then P.lp.c j else 0 }
    st := fun i j =>
      if i < P.lp.nr then (decide (j < P.lp.nc) && P.st i j)
      else stored (globalRow P L cLo cHi elo ((i - P.lp.nr) / R) ((i - P.lp.nr) % R)) j
    qmat := P.qmat ++ (List.range nx).flatMap fun k => blockCones P L k
    xmat := [] }

end SocApprox
end RsomeV
