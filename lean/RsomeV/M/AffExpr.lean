import RsomeV.M.NdArray
import Mathlib.Algebra.BigOperators.Ring.Finset

/-! An expression language for rsome's array algebra (`rsome/lp.py`: `Vars`, `VarSub`, `Affine`;
`rsome/subroutines.py`: `sparse_mul`, `sp_matmul`, `sp_lmatmul`, `sp_trans`, `index_array`, `sv_to_csr`).

* `AffArr K`: what an `Affine` object is, a shape plus one affine form per flat (row-major) position:
  entry `k` denotes `Σ_c coef k c * x c + cst k` (`linear` is `coef` restricted to `size × ncols`,
  `const` is `cst`).
* `Expr K`: the operators of the array algebra.
* `Expr.shape?`: NumPy's result shape, `none` where NumPy raises.  rsome has no consistent treatment of
  arrays without elements (`x[1:1] + 1` works, `x.to_affine()[1:1]`, `x[1:1].sum()`, `x[1:1] * c` raise), so
  the language is the algebra of NON-EMPTY arrays: an operator whose result has no element fails.
* `Expr.compile`: the `AffArr` the code builds, every new row being a selection / combination of operand
  rows through the index maps of `RsomeV/M/NdArray.lean`.
* `Expr.denote`: the meaning, NumPy's operator applied to the VALUE arrays of the operands.

`RsomeV/Props/C05Expr.lean` proves `compile_correct` (evaluating the compiled array gives the denotation)
by structural induction. -/

namespace RsomeV.AffE
open RsomeV.Nd

/-! ## affine arrays and value arrays -/

/-- an `Affine`: shape, number of columns of `linear`, `linear[k, c]`, `const.ravel()[k]` -/
structure AffArr (K : Type) where
  shape : List ℕ
  ncols : ℕ
  coef : ℕ → ℕ → K
  cst : ℕ → K

/-- the value array (flat, row-major) of an affine array at the point `x` -/
def AffArr.eval {K : Type} [CommRing K] (a : AffArr K) (x : ℕ → K) (k : ℕ) : K :=
  (∑ c ∈ Finset.range a.ncols, a.coef k c * x c) + a.cst k

/-- a NumPy array of values: shape and flat row-major data (only positions `< size shape` matter) -/
abbrev Val (K : Type) := List ℕ × (ℕ → K)

/-! ## shapes -/

/-- arrays without elements are outside the language -/
def nonEmpty (s : List ℕ) : Option (List ℕ) := if size s = 0 then none else some s

/-- shape of `e * c` -/
def mulShape (se cs : List ℕ) : Option (List ℕ) := (broadcastShapes se cs).bind nonEmpty

/-- shape of `a @ b` -/
def matmulShapeNE (a b : List ℕ) : Option (List ℕ) := (matmulShape a b).bind nonEmpty

/-- `np.reshape` of an array with `sz` elements to `l`: a negative entry is the unknown dimension (at most
one), it becomes `sz / (product of the others)`; the number of elements must not change -/
def reshapeShape (sz : ℕ) (l : List Int) : Option (List ℕ) :=
  let p := size ((l.filter (0 ≤ ·)).map Int.toNat)
  let s := l.map fun d => if d < 0 then sz / p else d.toNat
  if (l.filter (· < 0)).length ≤ 1 ∧ size s = sz then some s else none

/-- the axis of `a.sum(axis)`: `some none` for the 0-d case (NumPy accepts `axis = 0` and `axis = -1` for a
0-d array and returns it unchanged), `some (some ax)` for a normalised axis of an array of rank `≥ 1` -/
def sumAxisOf (s : List ℕ) (axis : Int) : Option (Option ℕ) :=
  if s = [] then (if axis = 0 ∨ axis = -1 then some none else none)
  else (normAxis s.length axis).map some

/-- shape of `a.sum(axis)` -/
def sumAxisShape (s : List ℕ) (axis : Int) : Option (List ℕ) :=
  (sumAxisOf s axis).map fun
    | none => s
    | some ax => s.eraseIdx ax

/-- shape of `diag(a, k)` (rsome: 2-D arrays only) -/
def diagShape (s : List ℕ) (k : Int) : Option (List ℕ) :=
  match s with
  | [r, c] => nonEmpty [(diagIdx r c k).length]
  | _ => none

/-! ### basic indexing -/

/-- one component of a basic index: an integer or `start:stop:step` -/
inductive Ix where
  | int (i : Int)
  | slice (start stop step : Option Int)

/-- the positions selected along an axis of length `n`; `none` where NumPy raises (integer out of range,
zero step) -/
def Ix.sel (n : ℕ) : Ix → Option (List ℕ)
  | .int i => (normAxis n i).map fun j => [j]
  | .slice a b c => if c = some 0 then none else some (sliceIdx n a b c)

/-- a slice keeps its axis, an integer removes it -/
def Ix.keep : Ix → Bool
  | .int _ => false
  | .slice _ _ _ => true

/-- per axis of the indexed array: the selected positions and whether the axis is kept.  Missing trailing
components are `:`; `none` for more components than axes or a bad component -/
def getitemSels : List ℕ → List Ix → Option (List (List ℕ × Bool))
  | [], [] => some []
  | [], _ :: _ => none
  | d :: ds, [] => (getitemSels ds []).map fun r => (sliceIdx d none none none, true) :: r
  | d :: ds, it :: its =>
    (it.sel d).bind fun s => (getitemSels ds its).map fun r => (s, it.keep) :: r

/-- result shape with the integer-indexed axes kept as axes of length 1 -/
def selFull (sels : List (List ℕ × Bool)) : List ℕ := sels.map fun p => p.1.length

/-- result shape -/
def selShape (sels : List (List ℕ × Bool)) : List ℕ := (sels.filter fun p => p.2).map fun p => p.1.length

/-- flat source position of element `k` of `a[items]` (`index_array(shape)[items].ravel()[k]`): axes of
length 1 do not change the row-major order, so `k` is unravelled in `selFull` and every component is looked up
in the selection of its axis -/
def selSrc (shape : List ℕ) (sels : List (List ℕ × Bool)) (k : ℕ) : ℕ :=
  ravel shape (List.zipWith (fun (p : List ℕ × Bool) j => p.1.getD j 0) sels (unravel (selFull sels) k))

/-- shape of `a[items]` -/
def getitemShape (shape : List ℕ) (items : List Ix) : Option (List ℕ) :=
  (getitemSels shape items).bind fun sels => nonEmpty (selShape sels)

/-! ### concatenation of a sequence -/

/-- `rsome.lp.concat` reshapes 0-d operands to `[1] * ndim` -/
def promote0 (r : ℕ) (s : List ℕ) : List ℕ := if s = [] then List.replicate r 1 else s

/-- the largest rank -/
def maxRank (shapes : List (List ℕ)) : ℕ := (shapes.map List.length).foldl max 0

/-- shape of `concat(arrays, axis)`: `np.concatenate` of the promoted operands, left to right -/
def concatNShape (axis : Int) (shapes : List (List ℕ)) : Option (List ℕ) :=
  match shapes.map (promote0 (maxRank shapes)) with
  | [] => none
  | s :: rest => (normAxis (maxRank shapes) axis).bind fun ax => rest.foldlM (fun acc t => concatShape acc t ax) s

/-! ## operators on affine arrays: what the code builds -/

namespace AffArr
variable {K : Type} [CommRing K]

/-- `Vars.to_affine`: `first + k` is the column of entry `k`; the block must lie inside the `n` columns -/
def var (n first : ℕ) (shape : List ℕ) : Option (AffArr K) :=
  if first + size shape ≤ n then
    (nonEmpty shape).map fun s =>
      { shape := s, ncols := n, coef := fun k c => if c = first + k then 1 else 0, cst := fun _ => 0 }
  else none

/-- a constant array used as an operand (`concat`, `+`): empty `linear` -/
def const (n : ℕ) (shape : List ℕ) (data : ℕ → K) : Option (AffArr K) :=
  (nonEmpty shape).map fun s => { shape := s, ncols := n, coef := fun _ _ => 0, cst := data }

/-- `Affine.__neg__` -/
def neg (a : AffArr K) : AffArr K :=
  { a with coef := fun k c => - a.coef k c, cst := fun k => - a.cst k }

/-- row selection `sel @ linear`, `const.ravel()[src]` -/
def gather (a : AffArr K) (shape : List ℕ) (src : ℕ → ℕ) : AffArr K :=
  { shape := shape, ncols := a.ncols, coef := fun k c => a.coef (src k) c, cst := fun k => a.cst (src k) }

/-- `Affine.__add__`: equal shapes add `linear` directly, otherwise each side is first multiplied by
`np.ones(other.shape)` (`sparse_mul`: row `k` is the row of the broadcast source); `const` is NumPy's sum -/
def add (a b : AffArr K) : Option (AffArr K) :=
  (broadcastShapes a.shape b.shape).map fun t =>
    { shape := t, ncols := a.ncols
      coef := if a.shape = b.shape then fun k c => a.coef k c + b.coef k c
              else fun k c => a.coef (bcastFlat a.shape t k) c + b.coef (bcastFlat b.shape t k) c
      cst := fun k => a.cst (bcastFlat a.shape t k) + b.cst (bcastFlat b.shape t k) }

/-- `Affine.__sub__`: `self + (-other)` -/
def sub (a b : AffArr K) : Option (AffArr K) := a.add b.neg

/-- `Affine.__mul__` / `__rmul__` with a constant array: `sparse_mul(c, self) @ linear` has row
`c[bcast k] * linear[bcast k]`; `const * c` -/
def mulc (a : AffArr K) (cs : List ℕ) (c : ℕ → K) : Option (AffArr K) :=
  (mulShape a.shape cs).map fun t =>
    { shape := t, ncols := a.ncols
      coef := fun k col => c (bcastFlat cs t k) * a.coef (bcastFlat a.shape t k) col
      cst := fun k => a.cst (bcastFlat a.shape t k) * c (bcastFlat cs t k) }

/-- multiplication with a Python scalar (the shape is kept, also for 0-d) -/
def scale (s : K) (a : AffArr K) : AffArr K :=
  { a with coef := fun k col => s * a.coef k col, cst := fun k => a.cst k * s }

/-- `Affine.__matmul__` with a constant array on the right: `sp_lmatmul(c, self, shape) @ linear` has, in row
`o`, the value `c[ib]` in column `ia` for every pair `(ia, ib)` of output element `o`; `const @ c` -/
def matmulc (a : AffArr K) (cs : List ℕ) (c : ℕ → K) : Option (AffArr K) :=
  (matmulShapeNE a.shape cs).map fun t =>
    let pairs := matmulPairs a.shape cs
    { shape := t, ncols := a.ncols
      coef := fun o col => ((pairs.getD o []).map fun p => c p.2 * a.coef p.1 col).sum
      cst := fun o => ((pairs.getD o []).map fun p => a.cst p.1 * c p.2).sum }

/-- `Affine.__rmatmul__`: `sp_matmul(c, self, shape) @ linear`, `c @ const` -/
def rmatmulc (cs : List ℕ) (c : ℕ → K) (a : AffArr K) : Option (AffArr K) :=
  (matmulShapeNE cs a.shape).map fun t =>
    let pairs := matmulPairs cs a.shape
    { shape := t, ncols := a.ncols
      coef := fun o col => ((pairs.getD o []).map fun p => c p.1 * a.coef p.2 col).sum
      cst := fun o => ((pairs.getD o []).map fun p => c p.1 * a.cst p.2).sum }

/-- `Vars.__getitem__` / `VarSub.__getitem__` (`index_array(shape)[item]`, rows `linear[select, :]`) and
`Affine.__getitem__` (`sv_to_csr(sparray[item]) @ linear`) -/
def getitem (a : AffArr K) (items : List Ix) : Option (AffArr K) :=
  (getitemSels a.shape items).bind fun sels =>
    (nonEmpty (selShape sels)).map fun t => a.gather t (selSrc a.shape sels)

/-- `Affine.reshape`: `linear` unchanged, `const.reshape(shape)` -/
def reshape (a : AffArr K) (l : List Int) : Option (AffArr K) :=
  (reshapeShape (size a.shape) l).map fun t => { a with shape := t }

/-- `Affine.T`: `sp_trans(self) @ linear`, `const.T` -/
def transpose (a : AffArr K) : AffArr K := a.gather a.shape.reverse (transposeSrc a.shape)

/-- `Affine.sum()`: the `SparseVec`s of all entries are added up, one row with all rows summed -/
def sumAll (a : AffArr K) : AffArr K :=
  { shape := [], ncols := a.ncols
    coef := fun _ col => ((List.range (size a.shape)).map fun j => a.coef j col).sum
    cst := fun _ => ((List.range (size a.shape)).map fun j => a.cst j).sum }

/-- `Affine.sum(axis)`: `sparray.sum(axis)` adds up the rows of each group -/
def sumAxis (a : AffArr K) (axis : Int) : Option (AffArr K) :=
  (sumAxisOf a.shape axis).map fun
    | none => a
    | some ax =>
      let groups := sumAxisGroups a.shape ax
      { shape := a.shape.eraseIdx ax, ncols := a.ncols
        coef := fun o col => ((groups.getD o []).map fun j => a.coef j col).sum
        cst := fun o => ((groups.getD o []).map fun j => a.cst j).sum }

/-- `Affine.diag(k)`: `self[idx_row, idx_col]` -/
def diag (a : AffArr K) (k : Int) : Option (AffArr K) :=
  match a.shape with
  | [r, c] => (nonEmpty [(diagIdx r c k).length]).map fun t => a.gather t fun i => (diagIdx r c k).getD i 0
  | _ => none

/-- two operands: `sp.vstack((a.linear, b.linear))[idx_all]`, `np.concatenate((a.const, b.const), axis)` -/
def concat2 (ax : ℕ) (a b : AffArr K) : Option (AffArr K) :=
  (concatShape a.shape b.shape ax).map fun t =>
    let src := concatSrc a.shape b.shape ax
    { shape := t, ncols := a.ncols
      coef := fun k col => if (src.getD k (false, 0)).1 then b.coef (src.getD k (false, 0)).2 col
                           else a.coef (src.getD k (false, 0)).2 col
      cst := fun k => if (src.getD k (false, 0)).1 then b.cst (src.getD k (false, 0)).2
                      else a.cst (src.getD k (false, 0)).2 }

/-- the 0-d promotion of `rsome.lp.concat` -/
def promote (r : ℕ) (a : AffArr K) : AffArr K := { a with shape := promote0 r a.shape }

/-- `rsome.lp.concat(arrays, axis)` -/
def concatN (axis : Int) (arrs : List (AffArr K)) : Option (AffArr K) :=
  match arrs.map (promote (maxRank (arrs.map AffArr.shape))) with
  | [] => none
  | a :: rest => (normAxis (maxRank (arrs.map AffArr.shape)) axis).bind fun ax => rest.foldlM (concat2 ax) a

end AffArr

/-! ## operators on value arrays: what NumPy means -/

namespace Val
variable {K : Type} [CommRing K]

def neg (a : Val K) : Val K := (a.1, fun k => - a.2 k)

/-- `a + b` with broadcasting -/
def add (a b : Val K) : Option (Val K) :=
  (broadcastShapes a.1 b.1).map fun t => (t, fun k => a.2 (bcastFlat a.1 t k) + b.2 (bcastFlat b.1 t k))

/-- `a - b` with broadcasting -/
def sub (a b : Val K) : Option (Val K) :=
  (broadcastShapes a.1 b.1).map fun t => (t, fun k => a.2 (bcastFlat a.1 t k) - b.2 (bcastFlat b.1 t k))

/-- `a * c` with broadcasting -/
def mulc (a : Val K) (cs : List ℕ) (c : ℕ → K) : Option (Val K) :=
  (mulShape a.1 cs).map fun t => (t, fun k => a.2 (bcastFlat a.1 t k) * c (bcastFlat cs t k))

/-- `c * a` with broadcasting -/
def rmulc (cs : List ℕ) (c : ℕ → K) (a : Val K) : Option (Val K) :=
  (mulShape a.1 cs).map fun t => (t, fun k => c (bcastFlat cs t k) * a.2 (bcastFlat a.1 t k))

def scale (s : K) (a : Val K) : Val K := (a.1, fun k => s * a.2 k)

/-- `a @ c` -/
def matmulc (a : Val K) (cs : List ℕ) (c : ℕ → K) : Option (Val K) :=
  (matmulShapeNE a.1 cs).map fun t =>
    (t, fun o => (((matmulPairs a.1 cs).getD o []).map fun p => a.2 p.1 * c p.2).sum)

/-- `c @ a` -/
def rmatmulc (cs : List ℕ) (c : ℕ → K) (a : Val K) : Option (Val K) :=
  (matmulShapeNE cs a.1).map fun t =>
    (t, fun o => (((matmulPairs cs a.1).getD o []).map fun p => c p.1 * a.2 p.2).sum)

/-- `a[items]` -/
def getitem (a : Val K) (items : List Ix) : Option (Val K) :=
  (getitemSels a.1 items).bind fun sels =>
    (nonEmpty (selShape sels)).map fun t => (t, fun k => a.2 (selSrc a.1 sels k))

/-- `a.reshape(l)`: same flat data -/
def reshape (a : Val K) (l : List Int) : Option (Val K) :=
  (reshapeShape (size a.1) l).map fun t => (t, a.2)

/-- `a.T` -/
def transpose (a : Val K) : Val K := (a.1.reverse, fun k => a.2 (transposeSrc a.1 k))

/-- `a.sum()` -/
def sumAll (a : Val K) : Val K := ([], fun _ => ((List.range (size a.1)).map a.2).sum)

/-- `a.sum(axis)` -/
def sumAxis (a : Val K) (axis : Int) : Option (Val K) :=
  (sumAxisOf a.1 axis).map fun
    | none => a
    | some ax => (a.1.eraseIdx ax, fun o => (((sumAxisGroups a.1 ax).getD o []).map a.2).sum)

/-- `np.diag(a, k)` of a 2-D array -/
def diag (a : Val K) (k : Int) : Option (Val K) :=
  match a.1 with
  | [r, c] => (nonEmpty [(diagIdx r c k).length]).map fun t => (t, fun i => a.2 ((diagIdx r c k).getD i 0))
  | _ => none

/-- `np.concatenate((a, b), ax)` -/
def concat2 (ax : ℕ) (a b : Val K) : Option (Val K) :=
  (concatShape a.1 b.1 ax).map fun t =>
    (t, fun k => if ((concatSrc a.1 b.1 ax).getD k (false, 0)).1 then b.2 ((concatSrc a.1 b.1 ax).getD k (false, 0)).2
                 else a.2 ((concatSrc a.1 b.1 ax).getD k (false, 0)).2)

def promote (r : ℕ) (a : Val K) : Val K := (promote0 r a.1, a.2)

/-- `np.concatenate` of the (promoted) operands, left to right -/
def concatN (axis : Int) (vs : List (Val K)) : Option (Val K) :=
  match vs.map (promote (maxRank (vs.map Prod.fst))) with
  | [] => none
  | a :: rest => (normAxis (maxRank (vs.map Prod.fst)) axis).bind fun ax => rest.foldlM (concat2 ax) a

end Val

/-! ## the expression language -/

/-- array expressions over decision-variable blocks and constant arrays -/
inductive Expr (K : Type) where
  /-- a `Vars` block: entry `k` is column `first + k` -/
  | var (first : ℕ) (shape : List ℕ)
  /-- a constant array (flat row-major data) -/
  | const (shape : List ℕ) (data : ℕ → K)
  | neg (e : Expr K)
  | add (a b : Expr K)
  | sub (a b : Expr K)
  /-- `e * c` -/
  | mulc (e : Expr K) (cshape : List ℕ) (c : ℕ → K)
  /-- `c * e` -/
  | rmulc (cshape : List ℕ) (c : ℕ → K) (e : Expr K)
  /-- `k * e`, `e * k` for a scalar `k` -/
  | scale (k : K) (e : Expr K)
  /-- `e @ c` -/
  | matmulc (e : Expr K) (cshape : List ℕ) (c : ℕ → K)
  /-- `c @ e` -/
  | rmatmulc (cshape : List ℕ) (c : ℕ → K) (e : Expr K)
  /-- `e[items]`, basic indexing -/
  | getitem (e : Expr K) (items : List Ix)
  | reshape (e : Expr K) (newshape : List Int)
  /-- `e.T` -/
  | T (e : Expr K)
  /-- `e.sum()` -/
  | sum (e : Expr K)
  /-- `e.sum(axis)` -/
  | sumaxis (e : Expr K) (axis : Int)
  /-- `concat([e₁, …], axis)` -/
  | concat (axis : Int) (es : List (Expr K))
  /-- `diag(e, k)` -/
  | diag (e : Expr K) (k : Int)

namespace Expr
variable {K : Type}

mutual
/-- NumPy's result shape; `none` where NumPy raises or the result has no element -/
def shape? : Expr K → Option (List ℕ)
  | .var _ s => nonEmpty s
  | .const s _ => nonEmpty s
  | .neg e => e.shape?
  | .add a b => a.shape?.bind fun sa => b.shape?.bind fun sb => broadcastShapes sa sb
  | .sub a b => a.shape?.bind fun sa => b.shape?.bind fun sb => broadcastShapes sa sb
  | .mulc e cs _ => e.shape?.bind fun s => mulShape s cs
  | .rmulc cs _ e => e.shape?.bind fun s => mulShape s cs
  | .scale _ e => e.shape?
  | .matmulc e cs _ => e.shape?.bind fun s => matmulShapeNE s cs
  | .rmatmulc cs _ e => e.shape?.bind fun s => matmulShapeNE cs s
  | .getitem e items => e.shape?.bind fun s => getitemShape s items
  | .reshape e l => e.shape?.bind fun s => reshapeShape (size s) l
  | .T e => e.shape?.map List.reverse
  | .sum e => e.shape?.map fun _ => []
  | .sumaxis e ax => e.shape?.bind fun s => sumAxisShape s ax
  | .concat ax es => (shapeList es).bind (concatNShape ax)
  | .diag e k => e.shape?.bind fun s => diagShape s k
/-- the shapes of a sequence of operands -/
def shapeList : List (Expr K) → Option (List (List ℕ))
  | [] => some []
  | e :: es => e.shape?.bind fun s => (shapeList es).map fun r => s :: r
end

mutual
/-- every variable block lies inside the first `n` columns -/
def VarsBelow (n : ℕ) : Expr K → Prop
  | .var first s => first + size s ≤ n
  | .const _ _ => True
  | .neg e => e.VarsBelow n
  | .add a b => a.VarsBelow n ∧ b.VarsBelow n
  | .sub a b => a.VarsBelow n ∧ b.VarsBelow n
  | .mulc e _ _ => e.VarsBelow n
  | .rmulc _ _ e => e.VarsBelow n
  | .scale _ e => e.VarsBelow n
  | .matmulc e _ _ => e.VarsBelow n
  | .rmatmulc _ _ e => e.VarsBelow n
  | .getitem e _ => e.VarsBelow n
  | .reshape e _ => e.VarsBelow n
  | .T e => e.VarsBelow n
  | .sum e => e.VarsBelow n
  | .sumaxis e _ => e.VarsBelow n
  | .concat _ es => VarsBelowList n es
  | .diag e _ => e.VarsBelow n
def VarsBelowList (n : ℕ) : List (Expr K) → Prop
  | [] => True
  | e :: es => e.VarsBelow n ∧ VarsBelowList n es
end

variable [CommRing K]

mutual
/-- the affine array rsome builds for the expression in a model with `n` columns -/
def compile (n : ℕ) : Expr K → Option (AffArr K)
  | .var first s => AffArr.var n first s
  | .const s data => AffArr.const n s data
  | .neg e => (e.compile n).map AffArr.neg
  | .add a b => (a.compile n).bind fun a' => (b.compile n).bind fun b' => a'.add b'
  | .sub a b => (a.compile n).bind fun a' => (b.compile n).bind fun b' => a'.sub b'
  | .mulc e cs c => (e.compile n).bind fun a => a.mulc cs c
  | .rmulc cs c e => (e.compile n).bind fun a => a.mulc cs c
  | .scale k e => (e.compile n).map (AffArr.scale k)
  | .matmulc e cs c => (e.compile n).bind fun a => a.matmulc cs c
  | .rmatmulc cs c e => (e.compile n).bind fun a => AffArr.rmatmulc cs c a
  | .getitem e items => (e.compile n).bind fun a => a.getitem items
  | .reshape e l => (e.compile n).bind fun a => a.reshape l
  | .T e => (e.compile n).map AffArr.transpose
  | .sum e => (e.compile n).map AffArr.sumAll
  | .sumaxis e ax => (e.compile n).bind fun a => a.sumAxis ax
  | .concat ax es => (compileList n es).bind (AffArr.concatN ax)
  | .diag e k => (e.compile n).bind fun a => a.diag k
/-- the operands of a `concat` -/
def compileList (n : ℕ) : List (Expr K) → Option (List (AffArr K))
  | [] => some []
  | e :: es => (e.compile n).bind fun a => (compileList n es).map fun r => a :: r
end

mutual
/-- the value of the expression at the point `x` (variable column `c` has value `x c`) -/
def denote (x : ℕ → K) : Expr K → Option (Val K)
  | .var first s => (nonEmpty s).map fun s' => (s', fun k => x (first + k))
  | .const s data => (nonEmpty s).map fun s' => (s', data)
  | .neg e => (e.denote x).map Val.neg
  | .add a b => (a.denote x).bind fun a' => (b.denote x).bind fun b' => Val.add a' b'
  | .sub a b => (a.denote x).bind fun a' => (b.denote x).bind fun b' => Val.sub a' b'
  | .mulc e cs c => (e.denote x).bind fun a => Val.mulc a cs c
  | .rmulc cs c e => (e.denote x).bind fun a => Val.rmulc cs c a
  | .scale k e => (e.denote x).map (Val.scale k)
  | .matmulc e cs c => (e.denote x).bind fun a => Val.matmulc a cs c
  | .rmatmulc cs c e => (e.denote x).bind fun a => Val.rmatmulc cs c a
  | .getitem e items => (e.denote x).bind fun a => Val.getitem a items
  | .reshape e l => (e.denote x).bind fun a => Val.reshape a l
  | .T e => (e.denote x).map Val.transpose
  | .sum e => (e.denote x).map Val.sumAll
  | .sumaxis e ax => (e.denote x).bind fun a => Val.sumAxis a ax
  | .concat ax es => (denoteList x es).bind (Val.concatN ax)
  | .diag e k => (e.denote x).bind fun a => Val.diag a k
/-- the values of the operands of a `concat` -/
def denoteList (x : ℕ → K) : List (Expr K) → Option (List (Val K))
  | [] => some []
  | e :: es => (e.denote x).bind fun a => (denoteList x es).map fun r => a :: r
end

end Expr

end RsomeV.AffE
