import RsomeV.M.AffExpr

/-! `Affine.tril(k)`, `Affine.triu(k)`, `Affine.trace()`, `Affine.diag(k, fill=True)` of `rsome/lp.py`
(the `Vars` / `VarSub` methods are `self.to_affine().f(...)`, `rsome.math.tril/triu/trace/diag` call the
methods; `DecAffine.trace` wraps `Affine.trace`).

The code, for an `Affine` of shape `shape`:

* `tril(k)`: raises unless `len(shape) == 2`; `affine = self + 0` (a NEW object: same `linear`, fresh `const`),
  the rows of `linear` at the flat positions where `~np.tril(np.ones(shape, bool), k)` holds are set to `0`,
  `const = np.tril(const, k)`.  `np.tril(., k)` keeps position `(i, j)` iff `j - i ≤ k`.
* `triu(k)`: the same with `np.triu(., k)`, which keeps `(i, j)` iff `j - i ≥ k`.
* `diag(k, fill=True)`: raises unless 2-D; `idx_row, idx_col` are the coordinates of the `k`-th diagonal (the flat
  positions `idx_row * cols + idx_col` are `Nd.diagIdx rows cols k`); every row of `linear` NOT at one of these
  positions is set to `0`, `const` is `0` except at these positions.  An out-of-range `k` gives the zero matrix
  (no exception).
* `trace()`: raises unless 2-D; `self[range(d), range(d)].sum()` with `d = min(shape)`: the main diagonal
  (`diag(0)`, rows gathered in increasing order) followed by `Affine.sum()`.  For a non-square array this is the
  sum of the `min(rows, cols)` entries `a[i, i]` (as `np.trace`).

All four are total functions into `Option`: `none` = the code raises.  Row order of `linear` and of `const` is
kept (the shape does not change; `trace` has the single row of `sum()`). -/

namespace RsomeV.AffE
open RsomeV.Nd

/-- position `p` (flat, row-major) of an array with `n` columns is kept by `np.tril(., k)`: `j - i ≤ k` -/
def trilKeep (n : ℕ) (k : Int) (p : ℕ) : Bool := decide (((p % n : ℕ) : Int) - ((p / n : ℕ) : Int) ≤ k)

/-- position `p` of an array with `n` columns is kept by `np.triu(., k)`: `j - i ≥ k` -/
def triuKeep (n : ℕ) (k : Int) (p : ℕ) : Bool := decide (k ≤ ((p % n : ℕ) : Int) - ((p / n : ℕ) : Int))

/-- position `p` of an `r × c` array is one of `(idx_row, idx_col)` of `Affine.diag(k, fill=True)` -/
def diagKeep (r c : ℕ) (k : Int) (p : ℕ) : Bool := decide (p ∈ diagIdx r c k)

namespace AffArr
variable {K : Type} [CommRing K]

/-- `linear[~keep] = 0`, `const` zero outside `keep`; shape, number of columns and row order unchanged -/
def mask (a : AffArr K) (keep : ℕ → Bool) : AffArr K :=
  { a with coef := fun p c => if keep p then a.coef p c else 0
           cst := fun p => if keep p then a.cst p else 0 }

/-- `Affine.tril(k)` -/
def tril (a : AffArr K) (k : Int) : Option (AffArr K) :=
  match a.shape with
  | [_, n] => some (a.mask (trilKeep n k))
  | _ => none

/-- `Affine.triu(k)` -/
def triu (a : AffArr K) (k : Int) : Option (AffArr K) :=
  match a.shape with
  | [_, n] => some (a.mask (triuKeep n k))
  | _ => none

/-- `Affine.diag(k, fill=True)` -/
def diagFill (a : AffArr K) (k : Int) : Option (AffArr K) :=
  match a.shape with
  | [r, c] => some (a.mask (diagKeep r c k))
  | _ => none

/-- `Affine.trace()`: `self[range(d), range(d)].sum()`, `d = min(shape)` -/
def trace (a : AffArr K) : Option (AffArr K) := (a.diag 0).map sumAll

end AffArr

/-! ## the NumPy meaning on value arrays -/

namespace Val
variable {K : Type} [CommRing K]

/-- `np.tril(v, k)` of a 2-D array -/
def tril (v : Val K) (k : Int) : Option (Val K) :=
  match v.1 with
  | [_, n] => some (v.1, fun p => if trilKeep n k p then v.2 p else 0)
  | _ => none

/-- `np.triu(v, k)` of a 2-D array -/
def triu (v : Val K) (k : Int) : Option (Val K) :=
  match v.1 with
  | [_, n] => some (v.1, fun p => if triuKeep n k p then v.2 p else 0)
  | _ => none

/-- `np.diag(np.diag(v, k), k)` padded to the shape of `v`: the `k`-th diagonal kept, zeros elsewhere -/
def diagFill (v : Val K) (k : Int) : Option (Val K) :=
  match v.1 with
  | [r, c] => some (v.1, fun p => if diagKeep r c k p then v.2 p else 0)
  | _ => none

/-- `np.trace(v)` of a (non-empty) 2-D array -/
def trace (v : Val K) : Option (Val K) := (Val.diag v 0).map Val.sumAll

end Val

/-! ## sequences of post operations (driver op `aff_tri`) -/

/-- one of the four operations -/
inductive Post where
  | tril (k : Int)
  | triu (k : Int)
  | trace
  | diagFill (k : Int)

variable {K : Type} [CommRing K]

/-- what the code builds -/
def Post.apply (a : AffArr K) : Post → Option (AffArr K)
  | .tril k => a.tril k
  | .triu k => a.triu k
  | .trace => a.trace
  | .diagFill k => a.diagFill k

/-- what NumPy means -/
def Post.denote (v : Val K) : Post → Option (Val K)
  | .tril k => Val.tril v k
  | .triu k => Val.triu v k
  | .trace => Val.trace v
  | .diagFill k => Val.diagFill v k

/-- the operations applied left to right -/
def applyPosts (a : AffArr K) (ps : List Post) : Option (AffArr K) := ps.foldlM Post.apply a

/-- NumPy's operations applied left to right -/
def denotePosts (v : Val K) (ps : List Post) : Option (Val K) := ps.foldlM Post.denote v

end RsomeV.AffE
