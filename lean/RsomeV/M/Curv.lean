import Mathlib.Algebra.Order.Field.Basic

/-! Model of rsome's curvature calculus (rsome/lp.py `Convex`, `PerspConvex`, `PiecewiseConvex` and
their `Dec*` / `Exp*` wrappers): the record `(xtype, sign, multiplier, affine_out)` threaded through
`__neg__`, `__mul__`, `__add__`, `__sub__`, `__rsub__` and the acceptance tests of `__le__`, `__ge__`,
`__eq__`, `min`, `max`.  The argument `affine_in` never changes (for `'S'` it is only re-broadcast),
so it is not part of the record; `affine_out` is tracked as a value of an additive group `A`
(the harness instantiates it with coefficient pairs, the theorems with numbers). -/

namespace RsomeV.Curv

variable {K : Type} [Field K] [LinearOrder K] [IsStrictOrderedRing K]

/-- `np.sign` -/
def sgn (k : K) : K := if 0 < k then 1 else if k < 0 then -1 else 0

/-- the two multiplier classes of `Convex.__mul__`: for `'S'`/`'Q'` (homogeneous of degree two) the
code stores `multiplier·|k|^(1/2)` and later scales the argument; the model stores the square. -/
structure Rec (K : Type) where
  quad : Bool        -- xtype ∈ "SQ"
  sign : K
  mult : K           -- the multiplier (its square for quad atoms): coefficient of the base function
  out  : K
  deriving Repr

/-- an atom as constructed by `Affine.<atom>()`: `sign = +1` for convex atoms, `-1` for concave ones,
`multiplier = 1`, `affine_out = 0` -/
def atom (quad : Bool) (sign : K) : Rec K := { quad := quad, sign := sign, mult := 1, out := 0 }

def neg (r : Rec K) : Rec K := { r with sign := - r.sign, out := - r.out }
def addC (r : Rec K) (c : K) : Rec K := { r with out := r.out + c }
/-- `Convex.__mul__(k)` -/
def scale (r : Rec K) (k : K) : Rec K :=
  { r with sign := sgn k * r.sign, mult := r.mult * |k|, out := k * r.out }
def subC (r : Rec K) (c : K) : Rec K := addC r (-c)
/-- `c - e` = `(-e) + c` -/
def rsubC (r : Rec K) (c : K) : Rec K := addC (neg r) c

/-- value of the expression the record stands for, given the value `F` of the convex base function -/
def val (r : Rec K) (F : K) : K := r.sign * r.mult * F + r.out

inductive Verdict where
  | accept | valueError | typeError
  deriving Repr, DecidableEq

/-- `e <= c`: `left = e - c`; rejected iff `left.sign == -1` -/
def le (r : Rec K) (c : K) : Verdict × Rec K :=
  let l := subC r c
  (if l.sign = -1 then .valueError else .accept, l)
/-- `e >= c`: `right = c - e` -/
def ge (r : Rec K) (c : K) : Verdict × Rec K :=
  let l := rsubC r c
  (if l.sign = -1 then .valueError else .accept, l)

/-- what the accepted `CvxConstr(affine_in, affine_out, multiplier, xtype)` means downstream:
`multiplier·f(affine_in) + affine_out ≤ 0` (every consumer assumes sign `+1`) -/
def constrVal (r : Rec K) (F : K) : K := r.mult * F + r.out

/-- chains of operations, as a syntax tree over one atom -/
inductive Op (K : Type) where
  | neg | scale (k : K) | add (c : K) | sub (c : K) | rsub (c : K)

def apply (r : Rec K) : Op K → Rec K
  | .neg => neg r | .scale k => scale r k | .add c => addC r c | .sub c => subC r c | .rsub c => rsubC r c

/-- meaning of one operation on values -/
def applyVal (v : K) : Op K → K
  | .neg => - v | .scale k => k * v | .add c => v + c | .sub c => v - c | .rsub c => c - v

def run (r : Rec K) (ops : List (Op K)) : Rec K := ops.foldl apply r
def runVal (v : K) (ops : List (Op K)) : K := ops.foldl applyVal v

/-! ### Piecewise (maxof / minof): `sign · max(pieces)` with the pieces stored sign-normalised -/

structure PW (K : Type) where
  sign : K
  pieces : List K
  deriving Repr

def PW.maxof (ps : List K) : PW K := { sign := 1, pieces := ps }
def PW.minof (ps : List K) : PW K := { sign := -1, pieces := ps.map (- ·) }
def PW.neg (p : PW K) : PW K := { p with sign := - p.sign }
/-- `pieces = [piece + other*self.sign ...]` -/
def PW.addC (p : PW K) (c : K) : PW K := { p with pieces := p.pieces.map (· + c * p.sign) }
/-- `np.sign(other) if other != 0 else 1` -/
def sgn1 (k : K) : K := if k = 0 then 1 else sgn k
/-- `PiecewiseConvex.__mul__` (repaired: the sign is kept when the factor is zero, see DESIGN.md F9) -/
def PW.scale (p : PW K) (k : K) : PW K := { sign := p.sign * sgn1 k, pieces := p.pieces.map (· * |k|) }
def PW.apply (p : PW K) : Op K → PW K
  | .neg => p.neg | .scale k => p.scale k | .add c => p.addC c | .sub c => p.addC (-c)
  | .rsub c => p.neg.addC c
def PW.run (p : PW K) (ops : List (Op K)) : PW K := ops.foldl PW.apply p
/-- maximum of a non-empty list -/
def lmax : List K → K
  | [] => 0
  | [a] => a
  | a :: as => max a (lmax as)
def PW.val (p : PW K) : K := p.sign * lmax p.pieces

end RsomeV.Curv
