import Mathlib.Algebra.Field.Rat
import Mathlib.Algebra.Order.Ring.Rat
import Mathlib.Logic.Function.Basic

/-! # Evaluation of bi-affine expressions and decision rules at assigned realisations

Model of `z.assign(values)`, `z[idx].assign(values)` and of `RoAffine.__call__(*args)`,
`DecRule.__call__`, `DecRoAffine.__call__`, `DecAffine.__call__(*args)` of `rsome/lp.py`.

The code:

* `assign` broadcasts `values` against the shape of the variable (of the slice: `np.shape(self.indices)`) and returns
  `RandVal(rvar, values, sw)`; `RandVal.index` is the list of FLAT positions of the assigned entries in the vector of all
  random variables of the model: `arange(first, last)` for a whole variable, `first + indices.ravel()` for a slice
  (`indices = arange(size).reshape(shape)[item]`, so a fancy index may repeat a position).
* `RoAffine.__call__(*args)`:
  ```
  rvec = zeros(rand_model.last)
  for arg in args: rvec[arg.index] = arg.values.ravel()
  nrand = raffine_value.shape[1]
  output = (raffine_value @ rvec[:nrand]).reshape(shape) + affine_value
  ```
  NumPy's `rvec[index] = v` stores `v[0]` at `index[0]`, then `v[1]` at `index[1]`, …: a repeated position keeps the LAST
  value (`setCells`); a later argument overwrites an earlier one.  `rvec[:nrand]` drops the positions the coefficient table
  has no column for (random variables declared after the expression was built).
* `DecRoAffine.__call__(*args)` (dro): a table `rvecs` with one row per scenario; an argument with `sw=False` writes its
  values into EVERY row (`rvecs.loc[:, index] = …`), an argument with `sw=True` writes, scenario by scenario, the `i`-th
  realisation into row `i`; row `s` then meets the coefficient table and the deterministic part of scenario `s`.
* `DecAffine.__call__(*args)` (dro): for each scenario `i`, `RoAffine.__call__` of the rule of scenario `i` at
  `[RandVal(arg.rvar, arg.values.loc[i]) if arg.sw else arg for arg in args]`.

An argument is the list of its `(position, value)` cells in ravel order (`zip(arg.index, arg.values.ravel())`). -/

namespace RsomeV.Assign

/-- one `RandVal`: the cells `(flat position in the vector of random variables, assigned value)` in ravel order -/
structure Arg where
  cells : List (ℕ × ℚ)
deriving Repr, DecidableEq

/-- `arg.index` -/
def Arg.pos (a : Arg) : List ℕ := a.cells.map Prod.fst

/-- `arg.values.ravel()` -/
def Arg.vals (a : Arg) : List ℚ := a.cells.map Prod.snd

/-- the argument with positions `ps` and values `vs` -/
def Arg.mk' (ps : List ℕ) (vs : List ℚ) : Arg := ⟨ps.zip vs⟩

/-- NumPy's `rvec[index] = values`: cell by cell, left to right -/
def setCells (r : ℕ → ℚ) : List (ℕ × ℚ) → ℕ → ℚ
  | [] => r
  | c :: cs => setCells (Function.update r c.1 c.2) cs

/-- one pass of the loop `for arg in args: rvec[arg.index] = arg.values.ravel()` -/
def Arg.apply (r : ℕ → ℚ) (a : Arg) : ℕ → ℚ := setCells r a.cells

/-- `rvec[:nrand]` after the loop over `args` (started from `zeros`); `0` outside `[0, nrand)` -/
def buildRvec (nrand : ℕ) (args : List Arg) : ℕ → ℚ :=
  fun j => if j < nrand then args.foldl Arg.apply (fun _ => 0) j else 0

/-- row `k` of `raffine_value @ rvec`, accumulated column by column -/
def dotRow (nrand : ℕ) (row : ℕ → ℚ) (rvec : ℕ → ℚ) : ℚ :=
  (List.range nrand).foldl (fun acc j => acc + row j * rvec j) 0

/-- entry `k` (flat, row-major) of `RoAffine.__call__(*args)`: `coef k j` is the coefficient of random component `j`
in output entry `k` (`raffine_value`, `nrand` columns), `det k` the deterministic part (`affine_value`) -/
def roCall (nrand : ℕ) (coef : ℕ → ℕ → ℚ) (det : ℕ → ℚ) (args : List Arg) (k : ℕ) : ℚ :=
  dotRow nrand (coef k) (buildRvec nrand args) + det k

/-! ## scenario-wise (dro) -/

/-- one `RandVal` of a dro model: `sw = false` → the realisation `common` for every scenario;
`sw = true` → realisation `scen s` for scenario `s` -/
structure SwArg where
  sw : Bool
  common : Arg
  scen : ℕ → Arg

/-- `RandVal(arg.rvar, arg.values.loc[s]) if arg.sw else arg` -/
def SwArg.at (a : SwArg) (s : ℕ) : Arg := if a.sw then a.scen s else a.common

/-- one pass of the loop of `DecRoAffine.__call__` on the table `rvecs` (`T s` = row of scenario `s`):
`sw = False` writes into every row at once, `sw = True` row after row -/
def stepSw (nscen : ℕ) (T : ℕ → ℕ → ℚ) (a : SwArg) : ℕ → ℕ → ℚ :=
  if a.sw then
    (List.range nscen).foldl (fun T i => Function.update T i ((a.scen i).apply (T i))) T
  else fun s => a.common.apply (T s)

/-- the table `rvecs` after the loop, columns cut to `nrand` -/
def buildRvecsSw (nscen nrand : ℕ) (args : List SwArg) : ℕ → ℕ → ℚ :=
  fun s j => if j < nrand then args.foldl (stepSw nscen) (fun _ _ => 0) s j else 0

/-- entry `k` of the value `DecRoAffine.__call__(*args)` computes for scenario `s`
(`coef s`, `det s`: coefficient table and deterministic part of scenario `s`) -/
def droCall (nscen nrand : ℕ) (coef : ℕ → ℕ → ℕ → ℚ) (det : ℕ → ℕ → ℚ) (args : List SwArg) (s k : ℕ) : ℚ :=
  dotRow nrand (coef s k) (buildRvecsSw nscen nrand args s) + det s k

/-- entry `k` of the value `DecAffine.__call__(*args)` computes for scenario `s`: the `RoAffine.__call__` of the
scenario's rule at the arguments restricted to `s` -/
def decCall (nrand : ℕ) (coef : ℕ → ℕ → ℕ → ℚ) (det : ℕ → ℕ → ℚ) (args : List SwArg) (s k : ℕ) : ℚ :=
  roCall nrand (coef s) (det s) (args.map (·.at s)) k

/-- `DecRoAffine.__call__` answers with a per-scenario Series: `isinstance(raffine_values, pd.Series) or sw`, where
`raffine_values` (a `DecAffine.__call__()` without arguments) is a Series iff `ns > 1` and the expression is event-wise -/
def droSeries (nscen : ℕ) (eventwise : Bool) (args : List SwArg) : Bool :=
  (decide (1 < nscen) && eventwise) || args.any (·.sw)

/-- `DecAffine.__call__` answers with a per-scenario Series: `ns > 1 and (len(event_adapt) > 1 or sw)` -/
def decSeries (nscen : ℕ) (eventwise : Bool) (args : List SwArg) : Bool :=
  decide (1 < nscen) && (eventwise || args.any (·.sw))

end RsomeV.Assign
