import RsomeV.M.RoModel
import RsomeV.M.RoToRoc
import RsomeV.M.DroRows

/-! Order-faithful model of the WHOLE assembly `dro.Model.do_math()` (rsome/dro.py l.438-518),
composed from the per-constraint models:

* `rule_var()` (the decision rules; tables `RoToRoc.Rule`, computed by `Rule.ofDecs` from the partition
  bookkeeping) is called first: `rc_model` then has the columns `0` (its own epigraph column),
  `var_const` (`1 …`), `var_linear`; `n0 = ruleWidth 1 decs` columns in total;
* `ro_model.min(var_const[0])`: the ro_model's objective is the plain affine objective `e_1`
  (`RoObj.affine 1 e_1 0`; the epigraph row `x_1 - x_0 <= 0` is the last row of the program);
* the objective `dec_vars[0] >= obj * sign` and then every entry of `all_constr`, in this order, is
  turned into items handed to `ro_model.st`:
  - `ctype == 'R'` (`DecRoConstr` / `DecLinConstr`): `ro_to_roc` (`RoToRoc.roToRoc`): per scenario an
    `RoConstr` carrying `.forall(support)` (→ `RoItem.rob`, support = conic dual of the support program the
    tag names) or a `LinConstr` (→ `RoItem.det`);
  - `ctype == 'E'` / `ExpPWConstr`: `dro_to_roc` (`Dro.droToRoc`): for every half (an equality is split) and
    every row `i`: `alpha = ro_model.dvar(S)`, `beta = ro_model.dvar((nrand, nE))` (only if `nE > 0`), the
    first-stage row **compiled at once** with `le_to_rc(mix_support(primal=False))` — its multipliers are
    allocated at that moment, *between* `beta` and whatever is declared next, so the fragment is handed to
    `ro_model.st` as ready-made `LinConstr/Bounds/ConeConstr/ExpConstr` objects (`DItem.pre`) —, then for
    every scenario and piece the second-stage `RoConstr` with `.forall(sup_constr[s])` (→ `RoItem.rob`) or
    `LinConstr` (→ `RoItem.det`);
* `ro_model.do_math()`: the model `roModel` of `M/RoModel.lean` — `RoItem.resolve`, `place`, `endCol`,
  `assemble` are reused as they are; the only addition is that a ready-made fragment is placed at the
  columns it already owns (`dplace`).  Without expectation constraints the compiled program *is* `roModel` of
  the item list (`L/DroModel.lean`, `compile_eq_roModel`).

Column layout of the compiled program: `[0]` epigraph column of `rc_model`, `var_const`, `var_linear`, per
expectation row `alpha | beta | multipliers of the first-stage row`, then one multiplier block per `RoConstr`
in the order of `ro_model.all_constr`, then three auxiliary columns per exponential cone.

Scope (as the per-constraint models): uniform sense per constraint; no random variable declared after a
constraint was written; `DecCvxConstr`/`DecPCvxConstr`/`DecExpConstr`/`DecLMIConstr`/`PWConstr` are not
modelled (`DCon` has the two kinds above). -/

namespace RsomeV
open Finset

variable {K : Type} [Field K] [LinearOrder K] [IsStrictOrderedRing K]

namespace DroModel
open RoToRoc Dro

/-! ### What the user declared -/

/-- an `Ambiguity` object: the support program of every scenario (`sup_model.do_math(obj=False)` of
`sup_constr[s]`, primal form), the probability program and the expectation programs with their events
(the inputs of `mix_support`) -/
structure Amb (K : Type) where
  sup  : ℕ → ConeProg K
  pro  : ConeProg K
  exps : List (ConeProg K × List ℕ)

def Amb.undef : Amb K := { sup := fun _ => ConeProg.undef, pro := ConeProg.undef, exps := [] }

/-- `constr.ambset` of a constraint of `ctype == 'R'` -/
inductive Sel (K : Type) where
  /-- `.forall(ambset)` with the `a`-th `Ambiguity` object of the model -/
  | amb (a : ℕ)
  /-- `.forall([support constraints])`: an explicit set, the same for every scenario -/
  | list (P : ConeProg K)
  /-- `constr.ambset is None`: the default set `obj_ambiguity` (if any) -/
  | dflt

/-- the constraint without rows (default element for list look-ups) -/
def Constr.zero : Constr K :=
  { kind := .lin, eq := false
    rows := { nd := 0, m := 0, nz := 0, Rl := fun _ _ _ => 0, Rc := fun _ _ => 0, al := fun _ _ => 0, ac := fun _ => 0 }
    rst := fun _ => false }

/-- an entry of `dro.Model.all_constr` (or the objective row `dec_vars[0] >= obj * sign`) -/
inductive DCon (K : Type) where
  /-- `ctype == 'R'`: a robust (`DecRoConstr`) or linear (`DecLinConstr`) constraint on the event-wise /
  affinely adaptive decisions, bi-affine in the vt_model's columns and the random components -/
  | R (C : Constr K) (sel : Sel K)
  /-- `ctype == 'E'` (one piece, `eq`: sense `==`) or `ExpPWConstr` (`eq = false`):
  `E(max_l piece_l) <= 0` row by row; of every piece the `kind` (`DecRoConstr`: `raffine is not None`) and
  the `rows` are read; `a`: own ambiguity set (`none`: the default one); `pat l i d`: vt column `d` occurs
  (structurally: `np.unique(raffine.linear[row_ind].indices)`) in a random coefficient of row `i` of piece `l` -/
  | E (ps : List (Constr K)) (eq : Bool) (a : Option ℕ) (pat : ℕ → ℕ → ℕ → Bool)

/-- what `dro.Model.do_math` reads -/
structure DroDesc (K : Type) where
  S     : ℕ                      -- `num_scen`
  nrand : ℕ                      -- `num_rand = sup_model.vars[-1].last`
  rule  : Rule                   -- `rule_var()` as tables (`Rule.ofDecs 1 nrand decs`)
  n0    : ℕ                      -- `rc_model.last` after `rule_var()` (`ruleWidth 1 decs`)
  vtc   : String × ℕ             -- vtype string and size of `var_const`
  ambs  : List (Amb K)           -- the `Ambiguity` objects of the model
  dflt  : Option ℕ               -- `obj_ambiguity` (set by `minsup` / `maxinf`)
  objc  : DCon K                 -- `dec_vars[0] >= obj * sign`
  cons  : List (DCon K)          -- `all_constr`

/-- `dec_vars[0] >= obj * sign` for an objective that is one (bi-)affine expression (`DecVar`, `DecAffine`,
`DecRoAffine`; `ctype` `'R'` or `'E'`): `sign*obj - t <= 0`, `t` = vt column 0; no own set -/
def objCon (sign : K) (isE : Bool) (kind : Kind) (rows : RoRows K) (rst : ℕ → Bool) : DCon K :=
  if isE then .E [{ kind := kind, eq := false, rows := rows.epi sign, rst := rst }] false none (fun _ _ d => rst d)
  else .R { kind := kind, eq := false, rows := rows.epi sign, rst := rst } .dflt

namespace DroDesc

def amb (D : DroDesc K) (a : ℕ) : Amb K := D.ambs.getD a Amb.undef

/-- the set selection `ro_to_roc` performs -/
def selAmb (D : DroDesc K) : Sel K → AmbSel
  | .amb _ => .own
  | .list _ => .list
  | .dflt => if D.dflt.isSome then .dflt else .none

/-- the support program (primal form) a tag of `ro_to_roc` names -/
def selPz (D : DroDesc K) (sel : Sel K) : Tag → ConeProg K
  | .own s => (match sel with | .amb a => (D.amb a).sup s | _ => ConeProg.undef)
  | .dflt s => (D.amb (D.dflt.getD 0)).sup s
  | .list => (match sel with | .list P => P | _ => ConeProg.undef)

end DroDesc

/-! ### Items handed to `ro_model.st` -/

/-- what `dro.Model.do_math` hands to `ro_model.st` -/
inductive DItem (K : Type) where
  /-- an `RoConstr` / `LinConstr` (/ `Bounds`) object: compiled by `ro.Model.do_math` -/
  | ro (it : RoItem K)
  /-- the list `(left <= 0).le_to_rc(mixed_support)` (`LinConstr`s, `Bounds`, `ConeConstr`s, `ExpConstr`s): the
  fragment `R.leToRc S` whose multipliers are the existing columns `R.nd …` -/
  | pre (R : RoRows K) (S : ConeProg K)

/-- an item of `ro_to_roc` as an item of the ro_model: the support of an `RoConstr` is the dual form of the
support program its tag names -/
def ofItem (Pz : Tag → ConeProg K) (it : Item K) : DItem K :=
  match it.tag with
  | none => .ro (.det it.row.m it.row.al (fun n => - it.row.ac n) (fun _ => it.eq))
  | some t => if it.eq then .ro (.robEq it.row (some (Pz t).coneDual))
              else .ro (.rob it.row (some (Pz t).coneDual))

/-- a second-stage item of `dro_to_roc` as an item of the ro_model -/
def ofRow2 (A : Amb K) (r : Row2 K) : DItem K :=
  if r.lin then .ro (.det 1 r.row.al (fun n => - r.row.ac n) (fun _ => false))
  else .ro (.rob r.row (some (A.sup r.s).coneDual))

/-- piece `l`, or its negation (right half of an equality) -/
def pieceRows (ps : List (Constr K)) (neg : Bool) (l : ℕ) : RoRows K :=
  if neg then (ps.getD l Constr.zero).orig.negate else (ps.getD l Constr.zero).orig

/-- the input of `Dro.droToRoc` for row `i` of an expectation constraint: every piece with the decision rule
of every scenario substituted (`linear[i, :num_var] @ drule + const[i]`, `raffine.linear[row_ind] @ drule.affine
+ raffine.const[i] + extra`: the row `i` of `substRow`), over the `acol0` columns that exist (the tables are
read for the scenarios `s < S` only; they are set to zero elsewhere) -/
def droIn (r : Rule) (S nrand acol0 : ℕ) (ps : List (Constr K)) (neg : Bool) (i : ℕ) : DroIn K :=
  { S := S, nrand := nrand, acol0 := acol0, np := ps.length
    rand := fun l => (ps.getD l Constr.zero).kind == .ro
    ruleRo := r.isRo nrand
    Rl := fun s l j d => if s < S then (substRow r s acol0 (pieceRows ps neg l)).Rl i j d else 0
    Rc := fun s l j => if s < S then (substRow r s acol0 (pieceRows ps neg l)).Rc i j else 0
    al := fun s l d => if s < S then (substRow r s acol0 (pieceRows ps neg l)).al i d else 0
    ac := fun s l => if s < S then (substRow r s acol0 (pieceRows ps neg l)).ac i else 0 }

/-- the dual form of the lifted support: `ambset.mix_support(primal=False)` -/
def Amb.mixDual (A : Amb K) : ConeProg K := (mixSupport A.pro A.exps).coneDual

/-- columns one row of an expectation constraint allocates: `alpha`, `beta`, the multipliers of the
first-stage row -/
def eW (D : DroDesc K) (A : Amb K) : ℕ := D.S + D.nrand * A.exps.length + A.mixDual.lp.nc

/-- the body of the loop `for i in range(linears[0].shape[0])` of `dro_to_roc` when `rc_model` has `cur`
columns: the compiled first-stage row, then the second-stage items (padded to the `cur + eW` columns that
exist when they are created) -/
def eRow (D : DroDesc K) (A : Amb K) (ps : List (Constr K)) (neg : Bool) (cur i : ℕ) : List (DItem K) :=
  .pre (droToRoc A.pro A.exps (droIn D.rule D.S D.nrand cur ps neg i) (fun _ _ => cur + eW D A)).first A.mixDual ::
    (droToRoc A.pro A.exps (droIn D.rule D.S D.nrand cur ps neg i) (fun _ _ => cur + eW D A)).second.map (ofRow2 A)

/-- number of rows of an expectation constraint: `linears[0].shape[0]` -/
def eRowsOf (ps : List (Constr K)) : ℕ := (ps.headD Constr.zero).rows.m

/-- `ambset = constr.ambset if constr.ambset else self.obj_ambiguity` -/
def eAmb (D : DroDesc K) (a : Option ℕ) : Option ℕ := match a with | some a => some a | none => D.dflt

/-- the check of `dro_to_roc` (inside the loops over the rows `i`, the scenarios and the pieces): under `RoAffine`
rules, a decision column that occurs in a random coefficient of row `i` of a `DecRoConstr` piece has a dependency
declared (`drule.raffine[dec_ind]` has stored entries) → `SyntaxError('Incorrect affine expressions.')` (random ×
adaptive product).  The rules' dependency pattern is the same in every scenario, so the check fails in scenario 0 of
the first offending row or in none; the negated half of an equality has the pattern of the left half.
(`num_scen ≥ 1`.) -/
def rejectsE (r : Rule) (nrand : ℕ) (ps : List (Constr K)) (pat : ℕ → ℕ → ℕ → Bool) (m : ℕ) : Bool :=
  r.isRo nrand && (List.range m).any fun i => (List.range ps.length).any fun l =>
    ((ps.getD l Constr.zero).kind == .ro) && (List.range r.nv).any fun d =>
      pat l i d && (List.range nrand).any fun j => r.mask d j

/-- `ro_to_roc(constr)` / `dro_to_roc(constr)` when `rc_model` has `cur` columns: the items and the new
number of columns; `error`: the exception raised -/
def conItems (D : DroDesc K) (cur : ℕ) : DCon K → Except String (List (DItem K) × ℕ)
  | .R C sel =>
      match roToRoc C D.rule D.S (D.selAmb sel) (fun _ _ => cur) with
      | .error e => .error e.msg
      | .ok its => .ok (its.map (ofItem (D.selPz sel)), cur)
  | .E ps eq a pat =>
      match eAmb D a with
      | none => .error "ValueError: The ambiguity set is undefined."
      | some ai =>
          if rejectsE D.rule D.nrand ps pat (eRowsOf ps) then .error Err.affine.msg else
          -- `dro_to_roc(left) + dro_to_roc(right)` for an equality: run `k = h·m + i`, half `h`, row `i`
          .ok ((List.range ((if eq then 2 else 1) * eRowsOf ps)).flatMap (fun k =>
                  eRow D (D.amb ai) ps (decide (eRowsOf ps ≤ k)) (cur + k * eW D (D.amb ai)) (k % eRowsOf ps)),
               cur + (if eq then 2 else 1) * eRowsOf ps * eW D (D.amb ai))

/-- the loop over the objective row and `all_constr` -/
def go (D : DroDesc K) : ℕ → List (DCon K) → Except String (List (DItem K) × ℕ)
  | cur, [] => .ok ([], cur)
  | cur, c :: t =>
      match conItems D cur c with
      | .error e => .error e
      | .ok (L, c1) =>
          match go D c1 t with
          | .error e => .error e
          | .ok (L', c2) => .ok (L ++ L', c2)

/-- `ro_model.all_constr` and `rc_model.last` when `ro_model.do_math()` is called -/
def droItems (D : DroDesc K) : Except String (List (DItem K) × ℕ) := go D D.n0 (D.objc :: D.cons)

/-! ### `ro_model.do_math()` -/

/-- the blocks of an item of the ro_model (its own support; the equality split of `ro.Model.do_math`) -/
def blocksOf (it : RoItem K) : List (CItem K) := it.resolve ConeProg.undef

/-- `place` with ready-made fragments: they own their columns already -/
def dplace (nd0 : ℕ) : ℕ → List (DItem K) → List (PItem K)
  | _, [] => []
  | cur, .pre R S :: t => .frag R S :: dplace nd0 cur t
  | cur, .ro it :: t => place nd0 cur (blocksOf it) ++ dplace nd0 (endCol cur (blocksOf it)) t

/-- `rc_model.last` after the loop of `ro.Model.do_math` -/
def dend : ℕ → List (DItem K) → ℕ
  | cur, [] => cur
  | cur, .pre _ _ :: t => dend cur t
  | cur, .ro it :: t => dend (endCol cur (blocksOf it)) t

/-- the ro_model as `dro.Model.do_math` sets it up, without its constraints: `nd` decision columns, objective
`min var_const[0]` (column 1), no default support -/
def roSpecOf (nd : ℕ) : RoSpec K :=
  { nd := nd, vars := [], items := [], obj := .affine 1 (fun d => if d = 1 then 1 else 0) 0, S0 := none }

/-- the program `ro_model.do_math()` returns for the items `items` over `nd` decision columns -/
def compile (items : List (DItem K)) (nd : ℕ) : ConeProg K :=
  assemble (dend nd items) (dplace nd nd items) (roSpecOf nd).objRow

/-- **`dro.Model.do_math()`** -/
def droModel (D : DroDesc K) : Except String (ConeProg K) :=
  match droItems D with
  | .error e => .error e
  | .ok (items, nd) => .ok (compile items nd)

/-- the `vtype` vector: the epigraph column of `rc_model`, `var_const` as declared, everything else
(`var_linear`, `alpha`, `beta`, multipliers, auxiliary columns) continuous -/
def droVtype (D : DroDesc K) (P : ConeProg K) : List Char :=
  vtypeVector [("C", 1), D.vtc, ("C", P.lp.nc - 1 - D.vtc.2)]

/-- branch labels (for the coverage histogram of the correspondence test) -/
def droBranches (items : List (DItem K)) : List String :=
  (if items.any fun it => match it with | .pre _ _ => true | _ => false then ["dro_to_roc.first-stage"] else []) ++
  (if items.any fun it => match it with | .ro (.rob _ _) => true | _ => false then ["item.RoConstr"] else []) ++
  (if items.any fun it => match it with | .ro (.robEq _ _) => true | _ => false then ["item.RoConstr=="] else []) ++
  (if items.any fun it => match it with | .ro (.det _ _ _ _) => true | _ => false then ["item.LinConstr"] else []) ++
  (if items.any fun it => match it with | .pre _ S => !S.qmat.isEmpty | _ => false then ["first-stage.soc"] else []) ++
  (if items.any fun it => match it with | .pre _ S => !S.xmat.isEmpty | _ => false then ["first-stage.exp"] else []) ++
  (if items.any fun it => match it with | .ro (.rob _ (some S)) => !S.qmat.isEmpty | _ => false then ["support.soc"] else [])

end DroModel
end RsomeV
