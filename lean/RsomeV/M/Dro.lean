import RsomeV.M.Robust

/-! Order-faithful model of `dro.Ambiguity.mix_support(primal=True)` (rsome/dro.py l.1047-1090):
the *lifted support* of the pair (scenario probabilities, scaled conditional means) that the
event-wise DRO reformulation `dro.Model.dro_to_roc` dualises.

Inputs (exactly what the code computes before assembling `mix_model`):
* `pro`  = `pro_model.do_math(obj=False)` for `ambset.pro_constr` (columns: the `S` scenario
  probabilities first, then lifting columns of norm/KL atoms);
* `exps` = for every expectation set `k`, the pair (`exp_model.do_math(obj=False)` for
  `exp_constr[k]`, `exp_constr_indices[k]`).

Layout of the result (`mix_model.do_math(primal=True, obj=False)`):
* columns `[ p-block (pro.lp.nc) | block 1 (exps[0].lp.nc) | block 2 | … | 3 aux columns per
  exponential cone of pro | 3 aux columns per exponential cone of block 1 | of block 2 | … ]`;
* rows `[ rows of pro verbatim | block 1 rows in perspective form | … | 3 copy rows per
  exponential cone, in the same order as the aux columns ]` (`lin_constr` first, then
  `aux_constr`);
* second-order cones: those of `pro`, then those of every block shifted by the block offset;
* exponential cones: `mix_model` receives `ExpConstr(p[e0], p[e1], p[e2])` for every cone of
  `pro` and then, block after block, `ExpConstr(exp_var[e0], exp_var[e1], exp_var[e2])` for every
  cone of the expectation program of the block (`mix_model.exp_constr` is in `st()` order; the
  source columns of all cones, in `mix_model` coordinates, are `xsrc`).  `gcp.Model.do_math` gives
  each of them three fresh auxiliary columns `a0 a1 a2` (created after all blocks, in that order)
  with rows `a0 - x[e0] == 0`, `a1 - x[e1] <= 0`, `a2 - x[e2] == 0` and one `xmat` triple
  `[a0, a1, a2]`;
* bounds of the sub-programs are ignored (the code reads `linear/const/sense/qmat/xmat` only);
  the result has no bounds; the cost is all ones (`obj=False`). -/

namespace RsomeV
open Finset

variable {K : Type} [Field K] [LinearOrder K] [IsStrictOrderedRing K]

/-- offset of block `k` in a sequence of blocks of widths `ws` -/
def offs (ws : List ℕ) (k : ℕ) : ℕ := (ws.take k).sum

/-- decode a position inside consecutive blocks of widths `ws`: `(block, offset in block)`;
`none` behind the last block -/
def locate : List ℕ → ℕ → Option (ℕ × ℕ)
  | [], _ => none
  | w :: ws, j => if j < w then some (0, j) else (locate ws (j - w)).map fun p => (p.1 + 1, p.2)

namespace Dro

/-- the program with no rows and no columns (default element for list look-ups) -/
def emptyProg : ConeProg K :=
  { lp := { nr := 0, nc := 0, a := fun _ _ => 0, b := fun _ => 0, eq := fun _ => false,
            ub := fun _ => none, lb := fun _ => none, c := fun _ => 0 }
    st := fun _ _ => false, qmat := [], xmat := [] }

/-- the `k`-th expectation program -/
def blk (exps : List (ConeProg K × List ℕ)) (k : ℕ) : ConeProg K := (exps.getD k (emptyProg, [])).1
/-- the scenario indices of the `k`-th expectation set (`exp_constr_indices[k]`) -/
def idx (exps : List (ConeProg K × List ℕ)) (k : ℕ) : List ℕ := (exps.getD k (emptyProg, [])).2

/-- widths of the column blocks -/
def colW (exps : List (ConeProg K × List ℕ)) : List ℕ := exps.map fun e => e.1.lp.nc
/-- heights of the row blocks -/
def rowW (exps : List (ConeProg K × List ℕ)) : List ℕ := exps.map fun e => e.1.lp.nr

/-- first column of block `k` -/
def colOff (pro : ConeProg K) (exps : List (ConeProg K × List ℕ)) (k : ℕ) : ℕ :=
  pro.lp.nc + offs (colW exps) k
/-- first row of block `k` -/
def rowOff (pro : ConeProg K) (exps : List (ConeProg K × List ℕ)) (k : ℕ) : ℕ :=
  pro.lp.nr + offs (rowW exps) k
/-- number of non-auxiliary columns of `mix_model` (`= mix_model.vars[-1].last`) -/
def colEnd (pro : ConeProg K) (exps : List (ConeProg K × List ℕ)) : ℕ := pro.lp.nc + (colW exps).sum
/-- number of `lin_constr` rows of `mix_model` -/
def rowEnd (pro : ConeProg K) (exps : List (ConeProg K × List ℕ)) : ℕ := pro.lp.nr + (rowW exps).sum

/-- source columns, in `mix_model` coordinates, of the exponential cones of `mix_model`, in the
order of `mix_model.exp_constr`: the cones of `pro` (on the `p` block), then the cones of
expectation program 0, 1, … (each shifted by the offset of its block) -/
def xsrc (pro : ConeProg K) (exps : List (ConeProg K × List ℕ)) : List (List ℕ) :=
  pro.xmat ++ (List.range exps.length).flatMap fun k =>
    (blk exps k).xmat.map fun e => e.map fun j => j + colOff pro exps k

/-- the column copied by copy row / auxiliary column `o` (cone `o / 3`, component `o % 3`) -/
def xcol (pro : ConeProg K) (exps : List (ConeProg K × List ℕ)) (o : ℕ) : ℕ :=
  ((xsrc pro exps).getD (o / 3) []).getD (o % 3) 0

/-- coefficient matrix of the mixed support -/
def mixA (pro : ConeProg K) (exps : List (ConeProg K × List ℕ)) (i j : ℕ) : K :=
  if i < pro.lp.nr then (if j < pro.lp.nc then pro.lp.a i j else 0)
  else match locate (rowW exps) (i - pro.lp.nr) with
    | some (k, r) =>
        -- `exp_support.linear @ exp_var - p[indices].sum() * exp_support.const`
        if j < pro.lp.nc then - (((idx exps k).count j : ℕ) : K) * (blk exps k).lp.b r
        else if colOff pro exps k ≤ j ∧ j < colOff pro exps k + (blk exps k).lp.nc then
          (blk exps k).lp.a r (j - colOff pro exps k)
        else 0
    | none =>
        -- copy rows of the exponential cones: `aux[t] - x[e[t]]`
        let o := i - rowEnd pro exps
        if j = colEnd pro exps + o then 1
        else if j = xcol pro exps o then -1 else 0

/-- sense vector of the mixed support (`true` = equality) -/
def mixEq (pro : ConeProg K) (exps : List (ConeProg K × List ℕ)) (i : ℕ) : Bool :=
  if i < pro.lp.nr then pro.lp.eq i
  else match locate (rowW exps) (i - pro.lp.nr) with
    | some (k, r) => (blk exps k).lp.eq r
    | none => decide ((i - rowEnd pro exps) % 3 ≠ 1)

/-- model of `Ambiguity.mix_support(primal=True)` -/
def mixSupport (pro : ConeProg K) (exps : List (ConeProg K × List ℕ)) : ConeProg K :=
  let nx := (xsrc pro exps).length
  let ce := colEnd pro exps
  { lp := { nr := rowEnd pro exps + 3 * nx
            nc := ce + 3 * nx
            a := mixA pro exps
            b := fun i => if i < pro.lp.nr then pro.lp.b i else 0
            eq := mixEq pro exps
            ub := fun _ => none
            lb := fun _ => none
            c := fun _ => 1 }
    -- the rows of `pro` keep their stored pattern; the other rows are produced by sparse
    -- additions, which store exactly the non-zeros
    st := fun i j => if i < pro.lp.nr then (decide (j < pro.lp.nc) && pro.st i j)
                     else decide (mixA pro exps i j ≠ 0)
    qmat := pro.qmat ++ (List.range exps.length).flatMap fun k =>
              (blk exps k).qmat.map fun q => q.map fun j => j + colOff pro exps k
    xmat := (List.range nx).map fun i => [ce + 3 * i, ce + 3 * i + 1, ce + 3 * i + 2] }

/-- total probability of event `k`: `p[indices].sum()` -/
def evProb (exps : List (ConeProg K × List ℕ)) (k : ℕ) (π : ℕ → K) : K := ((idx exps k).map π).sum

/-- the non-auxiliary part `[ π | t_1·ν_1 | t_2·ν_2 | … ]` of the lifted point (`0` behind it) -/
def liftBase (pro : ConeProg K) (exps : List (ConeProg K × List ℕ)) (π : ℕ → K) (ν : ℕ → ℕ → K) :
    ℕ → K := fun j =>
  if j < pro.lp.nc then π j
  else match locate (colW exps) (j - pro.lp.nc) with
    | some (k, o) => evProb exps k π * ν k o
    | none => 0

/-- the point of the lifted support built from probabilities (and lifting values) `π` and
conditional means (and lifting values) `ν k` of every event:
`[ π | t_1·ν_1 | t_2·ν_2 | … | copies x[e[t]] for the exponential cones ]`, `t_k = evProb k π`
(the copies read `π` for a cone of `pro` and `t_k·ν_k` for a cone of block `k`) -/
def liftPoint (pro : ConeProg K) (exps : List (ConeProg K × List ℕ)) (π : ℕ → K) (ν : ℕ → ℕ → K) :
    ℕ → K := fun j =>
  if j < pro.lp.nc then π j
  else match locate (colW exps) (j - pro.lp.nc) with
    | some (k, o) => evProb exps k π * ν k o
    | none => liftBase pro exps π ν (xcol pro exps (j - colEnd pro exps))

/-- decision column that multiplies column `j` of the mixed support in the first-stage row of
`dro_to_roc` (`alpha @ p + Σ_k var_exp_list[k][:num_rand] @ beta[:, k]`) -/
def droCol (pro : ConeProg K) (exps : List (ConeProg K × List ℕ)) (S nz : ℕ)
    (acol : ℕ → ℕ) (bcol : ℕ → ℕ → ℕ) (j : ℕ) : Option ℕ :=
  if j < pro.lp.nc then (if j < S then some (acol j) else none)
  else match locate (colW exps) (j - pro.lp.nc) with
    | some (k, o) => if o < nz then some (bcol k o) else none
    | none => none

/-- the first-stage row of `dro_to_roc` as a block of one uncertain row over the mixed support:
`Σ_s α_s·p_s + Σ_k Σ_j β_{k,j}·μ_{k,j} ≤ 0`, the multipliers `α_s = v (acol s)` and
`β_{k,j} = v (bcol k j)` being decision columns (`nd` decision columns in total) -/
def droRow (pro : ConeProg K) (exps : List (ConeProg K × List ℕ)) (S nz nd : ℕ)
    (acol : ℕ → ℕ) (bcol : ℕ → ℕ → ℕ) : RoRows K :=
  { nd := nd, m := 1, nz := colEnd pro exps
    Rl := fun _ j d => if droCol pro exps S nz acol bcol j = some d then 1 else 0
    Rc := fun _ _ => 0, al := fun _ _ => 0, ac := fun _ => 0 }

end Dro
end RsomeV
