import RsomeV.M.ConeDual
import Mathlib.Algebra.Order.Floor.Defs

/-! # Model of rsome's solver interfaces (C11)

For every interface a function from the compiled program (`ConeProg K`, the model of
`LinProg`/`SOCProg`/`GCProg`) and its `vtype` vector to a structure that holds *exactly* the
data handed to the solver API, in the order the Python code builds it, and a `…Feas`
predicate: what it means for a vector to satisfy that API data (the documented semantics of
the API being called).

* `rsome/lp.py def_sol`          → `DefSolArgs`  (`scipy.optimize.linprog` / `milp`)
* `rsome/eco_solver.py solve`    → `EcosArgs`    (`ecos.solve(c, G, h, dims, A, b, …)`)
* `rsome/ort_solver.py solve`    → `OrtArgs`     (`NumVar`/`IntVar`, `Minimize`, `Add`)
* `rsome/grb_solver.py solve`    → `GrbArgs`     (`addMVar`, `addMConstr`, `addConstr`)

Matrices are lists of rows (`ℕ → K`, read on columns `< n`), vectors indexed by rows are
lists, vectors indexed by columns are `ℕ → _` read on `< n`.  `none` is `±∞` (bounds) or
Python's `None` (missing matrix). -/

namespace RsomeV.Solvers
open Finset RsomeV

variable {K : Type} [Field K] [LinearOrder K] [IsStrictOrderedRing K]

/-! ### Shared vocabulary -/

/-- `g · x` over the first `n` columns -/
def dot (n : ℕ) (g x : ℕ → K) : K := ∑ j ∈ range n, g j * x j

/-- row of `-I` (or `+I` with `s = 1`) selecting column `k` -/
def unitRow (s : K) (k : ℕ) : ℕ → K := fun j => if j = k then s else 0

/-- `A x ≤ b`, row by row (`A` and `b` must have the same number of rows) -/
def RowsLe (n : ℕ) (A : List (ℕ → K)) (b : List K) (x : ℕ → K) : Prop :=
  List.Forall₂ (fun g h => dot n g x ≤ h) A b
/-- `A x = b`, row by row -/
def RowsEq (n : ℕ) (A : List (ℕ → K)) (b : List K) (x : ℕ → K) : Prop :=
  List.Forall₂ (fun g h => dot n g x = h) A b

/-- `x` is an integer -/
def IsInt (v : K) : Prop := ∃ z : ℤ, v = z
/-- `x ∈ {0,1}` -/
def IsBin (v : K) : Prop := v = 0 ∨ v = 1

/-- what `vtype` asks of a vector: `'B'` columns are binary, `'I'` columns integral -/
def VtOk (vt : ℕ → Char) (n : ℕ) (x : ℕ → K) : Prop :=
  ∀ j < n, (vt j = 'B' → IsBin (x j)) ∧ (vt j = 'I' → IsInt (x j))

/-- rsome only ever produces the three letters (`Model.dvar` rejects anything else) -/
def VtWF (vt : ℕ → Char) (n : ℕ) : Prop := ∀ j < n, vt j = 'C' ∨ vt j = 'B' ∨ vt j = 'I'

/-- `np.argwhere(sense == 0)` -/
def ineqIdx (P : LinProg K) : List ℕ := (List.range P.nr).filter fun i => !P.eq i
/-- `np.argwhere(sense == 1)` -/
def eqIdx (P : LinProg K) : List ℕ := (List.range P.nr).filter fun i => P.eq i

/-- `all(vtype == 'C')` -/
def allCont (vt : ℕ → Char) (n : ℕ) : Bool := (List.range n).all fun j => vt j == 'C'

/-- `np.maximum(lb, 0)` on an extended-real lower bound -/
def lbBin : Option K → Option K
  | none => some 0
  | some l => some (max l 0)
/-- `np.minimum(ub, 1)` on an extended-real upper bound -/
def ubBin : Option K → Option K
  | none => some 1
  | some u => some (min u 1)

/-- the tolerance `1e-9` of the inward rounding of integer bounds in `def_sol` -/
def intEps : K := 1 / 10 ^ 9

/-- `np.ceil(lb - 1e-9)` on an extended-real lower bound (`ceil(-inf) = -inf`) -/
def lbRound [FloorRing K] : Option K → Option K
  | none => none
  | some l => some ((⌈l - intEps⌉ : ℤ) : K)
/-- `np.floor(ub + 1e-9)` on an extended-real upper bound (`floor(inf) = inf`) -/
def ubRound [FloorRing K] : Option K → Option K
  | none => none
  | some u => some ((⌊u + intEps⌋ : ℤ) : K)

/-- the lower bound `def_sol` hands to `milp` for a column of type `c`: binaries clipped to `≥ 0`
first, then every non-`'C'` column rounded inward -/
def milpLb [FloorRing K] (c : Char) (l : Option K) : Option K :=
  let l' := if c = 'B' then lbBin l else l
  if c != 'C' then lbRound l' else l'
/-- the upper bound `def_sol` hands to `milp` for a column of type `c` -/
def milpUb [FloorRing K] (c : Char) (u : Option K) : Option K :=
  let u' := if c = 'B' then ubBin u else u
  if c != 'C' then ubRound u' else u'

/-! ### `def_sol` (SciPy) -/

/-- arguments of `opt.linprog(c, A_ub=, b_ub=, A_eq=, b_eq=, bounds=)`.  The four matrices are
`None` exactly when the program has no row at all (`if len(indices_eq) else None`). -/
structure LinprogArgs (K : Type) where
  n   : ℕ
  c   : ℕ → K
  aUb : Option (List (ℕ → K))
  bUb : Option (List K)
  aEq : Option (List (ℕ → K))
  bEq : Option (List K)
  /-- `bounds = [(lb, ub), …]` -/
  lb  : ℕ → Option K
  ub  : ℕ → Option K

/-- arguments of `opt.milp(c, constraints=LinearConstraint(A, b_l, b_u), bounds=Bounds(lb, ub),
integrality=)` -/
structure MilpArgs (K : Type) where
  n   : ℕ
  m   : ℕ
  c   : ℕ → K
  a   : ℕ → ℕ → K
  bl  : ℕ → Option K
  bu  : ℕ → K
  lb  : ℕ → Option K
  ub  : ℕ → Option K
  integrality : ℕ → Bool

inductive DefSolArgs (K : Type) where
  | linprog (d : LinprogArgs K)
  | milp (d : MilpArgs K)

def optRowsLe (n : ℕ) : Option (List (ℕ → K)) → Option (List K) → (ℕ → K) → Prop
  | some A, some b, x => RowsLe n A b x
  | _, _, _ => True
def optRowsEq (n : ℕ) : Option (List (ℕ → K)) → Option (List K) → (ℕ → K) → Prop
  | some A, some b, x => RowsEq n A b x
  | _, _, _ => True

structure LinprogArgs.Feas (d : LinprogArgs K) (x : ℕ → K) : Prop where
  ub  : optRowsLe d.n d.aUb d.bUb x
  eq  : optRowsEq d.n d.aEq d.bEq x
  bnd : ∀ j < d.n, LinProg.geLb (x j) (d.lb j) ∧ LinProg.leUb (x j) (d.ub j)

structure MilpArgs.Feas (d : MilpArgs K) (x : ℕ → K) : Prop where
  rows : ∀ i < d.m, LinProg.geLb (dot d.n (d.a i) x) (d.bl i) ∧ dot d.n (d.a i) x ≤ d.bu i
  bnd  : ∀ j < d.n, LinProg.geLb (x j) (d.lb j) ∧ LinProg.leUb (x j) (d.ub j)
  int  : ∀ j < d.n, d.integrality j = true → IsInt (x j)

def DefSolArgs.Feas : DefSolArgs K → (ℕ → K) → Prop
  | .linprog d, x => d.Feas x
  | .milp d, x => d.Feas x

def DefSolArgs.c : DefSolArgs K → ℕ → K
  | .linprog d => d.c
  | .milp d => d.c

/-- `def_sol(formula)`: the SOC / exponential cones of `formula` are ignored (with a warning).
MILP branch: the bounds of the binary columns are clipped to `[0,1]`, then the bounds of every
non-`'C'` column are rounded inward with the tolerance `1e-9` (`lb = ceil(lb - 1e-9)`,
`ub = floor(ub + 1e-9)`; HiGHS may return a suboptimal point for fractional integer bounds). -/
def defSol [FloorRing K] (P : ConeProg K) (vt : ℕ → Char) : DefSolArgs K :=
  let L := P.lp
  if allCont vt L.nc then
    .linprog {
      n := L.nc, c := L.c
      aUb := if L.nr = 0 then none else some ((ineqIdx L).map L.a)
      bUb := if L.nr = 0 then none else some ((ineqIdx L).map L.b)
      aEq := if L.nr = 0 then none else some ((eqIdx L).map L.a)
      bEq := if L.nr = 0 then none else some ((eqIdx L).map L.b)
      lb := L.lb, ub := L.ub }
  else
    .milp {
      n := L.nc, m := L.nr, c := L.c, a := L.a
      bl := fun i => if L.eq i then some (L.b i) else none
      bu := L.b
      lb := fun j => milpLb (vt j) (L.lb j)
      ub := fun j => milpUb (vt j) (L.ub j)
      integrality := fun j => vt j != 'C' }

/-! ### ECOS -/

/-- arguments of `ecos.solve(c, G, h, dims, A, b[, bool_vars_idx=, int_vars_idx=])` -/
structure EcosArgs (K : Type) where
  n    : ℕ
  c    : ℕ → K
  G    : List (ℕ → K)
  h    : List K
  dimL : ℕ
  dimQ : List ℕ
  dimE : ℕ
  A    : Option (List (ℕ → K))
  b    : Option (List K)
  boolIdx : List ℕ
  intIdx  : List ℕ

/-- the keyword argument `int_vars_idx` is passed only in this case (`bool_vars_idx` never is since the
repair of `eco_solver.solve`: `boolIdx = []` stands for the absent keyword) -/
def EcosArgs.mixed (d : EcosArgs K) : Bool := !(d.boolIdx.isEmpty && d.intIdx.isEmpty)

/-- ECOS' slack vector `s = h - G x` -/
def EcosArgs.slack (d : EcosArgs K) (x : ℕ → K) : List K :=
  List.zipWith (fun g h => h - dot d.n g x) d.G d.h

/-- second-order cone on a slack block, head first: `‖s[1:]‖₂ ≤ s[0]` (no square root) -/
def socVec : List K → Prop
  | [] => True
  | s0 :: t => 0 ≤ s0 ∧ (t.map fun v => v ^ 2).sum ≤ s0 ^ 2

/-- `e` consecutive triples of `s` lie in the exponential cone `E`, read in ECOS' order
`(s₀, s₁, s₂)`, ECOS' cone being `cl {(x,y,z) | z > 0, z·exp(x/z) ≤ y}` -/
def expFeas (E : K → K → K → Prop) : ℕ → List K → Prop
  | 0, _ => True
  | e + 1, s => E (s.getD 0 0) (s.getD 1 0) (s.getD 2 0) ∧ expFeas E e (s.drop 3)

/-- the cone part of the slack: blocks of sizes `dims['q']`, then `dims['e']` triples -/
def coneFeas (E : K → K → K → Prop) : List ℕ → ℕ → List K → Prop
  | [], e, s => expFeas E e s
  | k :: ks, e, s => socVec (s.take k) ∧ coneFeas E ks e (s.drop k)

structure EcosArgs.Feas (d : EcosArgs K) (E : K → K → K → Prop) (x : ℕ → K) : Prop where
  lin  : ∀ v ∈ (d.slack x).take d.dimL, 0 ≤ v
  cone : coneFeas E d.dimQ d.dimE ((d.slack x).drop d.dimL)
  eq   : optRowsEq d.n d.A d.b x
  bool : ∀ j ∈ d.boolIdx, IsBin (x j)
  int  : ∀ j ∈ d.intIdx, IsInt (x j)

/-- `np.argwhere(lb > -inf)` -/
def zlbIdx (P : LinProg K) : List ℕ := (List.range P.nc).filter fun j => (P.lb j).isSome
/-- `np.argwhere(ub < inf)` -/
def zubIdx (P : LinProg K) : List ℕ := (List.range P.nc).filter fun j => (P.ub j).isSome

/-- the bounds `eco_solver.solve` builds its bound rows from: `lower = where(B, max(lb, 0), lb)`,
`upper = where(B, min(ub, 1), ub)` (rows, sense and cost untouched) -/
def clipBin (L : LinProg K) (vt : ℕ → Char) : LinProg K :=
  { L with
    lb := fun j => if vt j = 'B' then lbBin (L.lb j) else L.lb j
    ub := fun j => if vt j = 'B' then ubBin (L.ub j) else L.ub j }

/-- `eco_solver.solve(formula)`.  Binaries are passed as INTEGER variables within `[0, 1]`
(ECOS_BB mixes up the bound rows of binary and integer variables unless every binary column precedes
every integer column): no `bool_vars_idx` at all, `int_vars_idx` = the columns with `vtype in 'BI'`
(ascending), and the bound rows `Glb`/`Gub`/`h` are built from the clipped bounds `clipBin` - a binary
column always has both bound rows. -/
def ecos (P : ConeProg K) (vt : ℕ → Char) : EcosArgs K :=
  let L := P.lp
  let Lc := clipBin L vt
  { n := L.nc, c := L.c
    G := (ineqIdx L).map L.a ++ (zlbIdx Lc).map (unitRow (-1)) ++ (zubIdx Lc).map (unitRow 1) ++
         P.qmat.flatMap (fun q => q.map (unitRow (-1))) ++
         P.xmat.flatMap (fun e => e.map (unitRow (-1)))
    h := (ineqIdx L).map L.b ++ (zlbIdx Lc).map (fun j => - (Lc.lb j).getD 0) ++
         (zubIdx Lc).map (fun j => (Lc.ub j).getD 0) ++
         List.replicate (P.qmat.map List.length).sum 0 ++ List.replicate (P.xmat.length * 3) 0
    dimL := (ineqIdx L).length + (zlbIdx Lc).length + (zubIdx Lc).length
    dimQ := P.qmat.map List.length
    dimE := P.xmat.length
    A := if (eqIdx L).length > 0 then some ((eqIdx L).map L.a) else none
    b := if (eqIdx L).length > 0 then some ((eqIdx L).map L.b) else none
    boolIdx := []
    intIdx := (List.range L.nc).filter fun j => vt j == 'B' || vt j == 'I' }

/-! ### OR-Tools -/

/-- one `solver.Add(left <= const)` / `solver.Add(left == const)`: `lo ≤ coef·x ≤ hi` -/
structure OrtRow (K : Type) where
  coef : ℕ → K
  lo   : Option K
  hi   : K

/-- everything handed to `pywraplp`: the solver name, `NumVar`/`IntVar(lb, ub)` per column,
`Minimize(obj)`, the added rows -/
structure OrtArgs (K : Type) where
  solver : String
  n      : ℕ
  lb     : ℕ → Option K
  ub     : ℕ → Option K
  integer : ℕ → Bool
  obj    : ℕ → K
  rows   : List (OrtRow K)

structure OrtArgs.Feas (d : OrtArgs K) (x : ℕ → K) : Prop where
  rows : ∀ r ∈ d.rows, LinProg.geLb (dot d.n r.coef x) r.lo ∧ dot d.n r.coef x ≤ r.hi
  bnd  : ∀ j < d.n, LinProg.geLb (x j) (d.lb j) ∧ LinProg.leUb (x j) (d.ub j)
  int  : ∀ j < d.n, d.integer j = true → IsInt (x j)

/-- does row `i` have a stored entry (`len(linear[i].indices) > 0`)? -/
def hasStored (P : ConeProg K) (i : ℕ) : Bool := (List.range P.lp.nc).any fun j => P.st i j

/-- the rows OR-Tools receives: every row.  (A row whose CSR slice is empty - `left` is then a bare
number - used to be dropped; since the repair of `ort_solver.solve` it is handed over as the empty
`RowConstraint(lo, const)`, i.e. `0 == const` / `0 <= const`.) -/
def ortKept (P : ConeProg K) : List ℕ := List.range P.lp.nr

/-- `left = sum(coeff[k] * xs[indices[k]])` over the stored entries of row `i`, and
`solver.Add(left == const[i])` / `solver.Add(left <= const[i])` -/
def ortRow (P : ConeProg K) (i : ℕ) : OrtRow K where
  coef := fun j => if P.st i j then P.lp.a i j else 0
  lo := if P.lp.eq i then some (P.lp.b i) else none
  hi := P.lp.b i

/-- `ort_solver.solve(formula)`: one constraint per row, in row order -/
def ortools (P : ConeProg K) (vt : ℕ → Char) : OrtArgs K :=
  let L := P.lp
  { solver := if allCont vt L.nc then "GLOP" else "SCIP"
    n := L.nc
    lb := fun j => if vt j = 'B' then lbBin (L.lb j) else L.lb j
    ub := fun j => if vt j = 'B' then ubBin (L.ub j) else L.ub j
    integer := fun j => vt j != 'C'
    obj := L.c
    rows := (ortKept P).map (ortRow P) }

/-! ### Gurobi -/

/-- `x[index_left] @ I @ x[index_left] <= x[index_right] @ x[index_right]` -/
structure GrbQc where
  left  : List ℕ
  right : List ℕ

/-- `addMVar(nv, lb, ub, vtype)`, `addMConstr(A_eq, x, '=', b_eq)` then
`addMConstr(A_ineq, x, '<', b_ineq)` (both only when the program has a row at all), one quadratic
constraint per cone, `setObjective(obj @ x)` -/
structure GrbArgs (K : Type) where
  n     : ℕ
  lb    : ℕ → Option K
  ub    : ℕ → Option K
  vtype : ℕ → Char
  aEq   : Option (List (ℕ → K))
  bEq   : Option (List K)
  aLe   : Option (List (ℕ → K))
  bLe   : Option (List K)
  qcs   : List GrbQc
  obj   : ℕ → K

/-- Gurobi's meaning of the data: a `'B'` variable is a 0/1 variable *within* its bounds, the
quadratic constraints are taken literally (Gurobi ≥ 11 accepts them even when they are not
second-order cones, i.e. when the right-hand variable may be negative) -/
structure GrbArgs.Feas (d : GrbArgs K) (x : ℕ → K) : Prop where
  eq  : optRowsEq d.n d.aEq d.bEq x
  le  : optRowsLe d.n d.aLe d.bLe x
  bnd : ∀ j < d.n, LinProg.geLb (x j) (d.lb j) ∧ LinProg.leUb (x j) (d.ub j)
  vt  : VtOk d.vtype d.n x
  qc  : ∀ c ∈ d.qcs, (c.left.map fun j => x j ^ 2).sum ≤ (c.right.map fun j => x j ^ 2).sum

/-- `grb_solver.solve(formula)`: exponential cones are ignored (with a warning) -/
def gurobi (P : ConeProg K) (vt : ℕ → Char) : GrbArgs K :=
  let L := P.lp
  { n := L.nc, lb := L.lb, ub := L.ub, vtype := vt
    aEq := if L.nr = 0 then none else some ((eqIdx L).map L.a)
    bEq := if L.nr = 0 then none else some ((eqIdx L).map L.b)
    aLe := if L.nr = 0 then none else some ((ineqIdx L).map L.a)
    bLe := if L.nr = 0 then none else some ((ineqIdx L).map L.b)
    qcs := P.qmat.map fun q => { left := q.drop 1, right := q.take 1 }
    obj := L.c }

/-! ### Status → `Solution` -/

/-- `Solution(solver, objval, x, status, time)`: `objval = none` is `nan`, `x = none` is `None` -/
structure Sol (K : Type) where
  objval : Option K
  x      : Option (ℕ → K)
  status : ℤ

/-- `def_sol`: `if res.status == 0: Solution(obj @ res.x, res.x, …) else Solution(nan, None, …)` -/
def defSolSolution (n : ℕ) (c : ℕ → K) (status : ℤ) (resx : ℕ → K) : Sol K :=
  if status = 0 then { objval := some (dot n c resx), x := some resx, status := status }
  else { objval := none, x := none, status := status }

/-- `eco_solver`: `if exitFlag in [0, 10]: Solution(info['pcost'], sol['x'], …) else
Solution(nan, None, …)` (10 = `ECOS_OPTIMAL + ECOS_INACC_OFFSET`) -/
def ecosSolution (exitFlag : ℤ) (pcost : K) (solx : ℕ → K) : Sol K :=
  if exitFlag = 0 ∨ exitFlag = 10 then { objval := some pcost, x := some solx, status := exitFlag }
  else { objval := none, x := none, status := exitFlag }

/-- `grb_solver`: Gurobi exposes `ObjVal` / `X` whenever it holds an incumbent (`inc`; otherwise the
attribute access raises and the `except AttributeError` branch builds `Solution(nan, None, …)`); the
statuses `INFEASIBLE = 3`, `INF_OR_UNBD = 4`, `UNBOUNDED = 5` never give a solution - the incumbent
of an unbounded MILP is not one (repaired: it used to be returned) -/
def grbSolution (status : ℤ) (inc : Bool) (objval : K) (x : ℕ → K) : Sol K :=
  if status = 3 ∨ status = 4 ∨ status = 5 then { objval := none, x := none, status := status }
  else if inc then { objval := some objval, x := some x, status := status }
  else { objval := none, x := none, status := status }

/-- `ort_solver`: `if status == pywraplp.Solver.OPTIMAL (= 0): Solution(Objective().Value(),
[x.solution_value()], …) else Solution(nan, None, …)` -/
def ortSolution (status : ℤ) (objval : K) (x : ℕ → K) : Sol K :=
  if status = 0 then { objval := some objval, x := some x, status := status }
  else { objval := none, x := none, status := status }

end RsomeV.Solvers
