import RsomeV.M.ConeDual
import RsomeV.M.Robust
import RsomeV.L.ConeDualWeak
import Mathlib.LinearAlgebra.Matrix.PosDef
import Mathlib.Data.Real.Basic
import Mathlib.Data.Real.Star

/-! Order-faithful model of the positive-semidefinite (LMI) layer of
`gcp.Model.do_math(primal=False)` (rsome/gcp.py), stacked on `ConeProg.coneDual`.

How the code stores and reads an LMI block (`GCProg.lmi`, a list of dicts
`{'linear', 'const', 'dim'}`):

* `Affine.__rshift__` builds `LMIConstr(model, left.linear, -left.const, dim)` for
  `left = A - B`; every consumer (`msk_solver`, `cpt_solver`, `RoConstr.le_to_rc`) reads the block
  as **`reshape(linear · x − const, dim × dim) ⪰ 0`** (row-major).  `LmiBlock.mat` is that matrix.
* the code does **not** symmetrise: `do_math(primal=True)` appends the equality rows
  `expr[i,j] == expr[j,i]` (`i < j`) to the linear rows of the program, so for the programs it emits
  the matrix of a feasible point is symmetric and "PSD" is unambiguous.  Those rows are ordinary rows of
  `cone.lp` here.  The dual branch declares the dual matrix variable PSD *without* symmetry rows; the
  two readings of that declaration (symmetric PSD / symmetric part PSD) are `Feas` and `FeasSym`.
* `linear` may be narrower than the program (`Affine.linear` has the width the model had when the
  expression was built); the dual branch `resize`s it, i.e. pads with zero columns (`linP`). -/

namespace RsomeV
open Finset

variable {K : Type} [Field K] [LinearOrder K] [IsStrictOrderedRing K]

/-- one entry of `GCProg.lmi` -/
structure LmiBlock (K : Type) where
  dim   : ℕ
  /-- stored width `linear.shape[1]` -/
  w     : ℕ
  /-- `linear` : `dim² × w`, row `e = i·dim + j` is matrix entry `(i, j)` -/
  lin   : ℕ → ℕ → K
  /-- `const.flatten()` : `dim²` -/
  const : ℕ → K

namespace LmiBlock

/-- `linear` zero-padded to any width (`resize`) -/
def linP (B : LmiBlock K) (e j : ℕ) : K := if j < B.w then B.lin e j else 0

/-- entry `e` of `linear · x − const` -/
def entry (B : LmiBlock K) (x : ℕ → K) (e : ℕ) : K := ∑ c ∈ range B.w, B.lin e c * x c - B.const e

/-- the matrix the block constrains: `reshape(linear · x − const, dim × dim)` -/
def mat (B : LmiBlock K) (x : ℕ → K) : Matrix (Fin B.dim) (Fin B.dim) K :=
  fun i j => B.entry x (i.val * B.dim + j.val)

end LmiBlock

/-- `GCProg`: a conic program (`ConeProg`) plus the list of LMI blocks -/
structure LmiProg (K : Type) where
  cone : ConeProg K
  lmi  : List (LmiBlock K)

namespace LmiProg

/-- `sum([each['dim']**2 for each in plmi])` -/
def total (l : List (LmiBlock K)) : ℕ := (l.map fun B => B.dim ^ 2).sum

/-- `sp.vstack(linear_list)[t, j]`: the blocks' (padded) `linear` stacked; `t` runs over all matrix
entries of all blocks -/
def extCoef : List (LmiBlock K) → ℕ → ℕ → K
  | [], _, _ => 0
  | B :: Bs, t, j => if t < B.dim ^ 2 then B.linP t j else extCoef Bs (t - B.dim ^ 2) j

/-- `np.hstack([c.flatten() for c in consts])[t]` -/
def extConst : List (LmiBlock K) → ℕ → K
  | [], _ => 0
  | B :: Bs, t => if t < B.dim ^ 2 then B.const t else extConst Bs (t - B.dim ^ 2)

/-- one dual LMI entry: `linear` selects the `dim²` columns starting at `off` (`temp_idx`),
`const = 0`, width `total_col` -/
def selBlock (d off tot : ℕ) : LmiBlock K :=
  { dim := d, w := tot, lin := fun e c => if c = off + e then 1 else 0, const := fun _ => 0 }

/-- the dual LMI entries, one per primal block, on consecutive groups of new columns -/
def dualBlocks : List (LmiBlock K) → ℕ → ℕ → List (LmiBlock K)
  | [], _, _ => []
  | B :: Bs, off, tot => selBlock B.dim off tot :: dualBlocks Bs (off + B.dim ^ 2) tot

/-- primal column whose (padded) LMI coefficients go to dual row `r`:
`pxmat/plmi = primal` if `len(primal.qmat) == 0 or dual_socp.linear.shape[0] == pvar_num`, else the
columns are restricted to `keep_idx` (the columns in no second-order cone) -/
def lmiRow (P : LmiProg K) (r : ℕ) : ℕ :=
  if P.cone.qmat.isEmpty || P.cone.socDual.lp.nr == P.cone.lp.nc then r
  else P.cone.linIdx.getD r 0

/-- entry `(r, t)` of the repaired `extra_block`: `vstack(linear_list).T` with the rows of columns
whose upper bound is `0` multiplied by `-1` -/
def extEntryCoef (P : LmiProg K) (t r : ℕ) : K :=
  if P.cone.lp.isNeg (P.lmiRow r) then - extCoef P.lmi t (P.lmiRow r)
  else extCoef P.lmi t (P.lmiRow r)

/-- `gcp.Model.do_math(primal=False)`: after the SOC layouts and the exponential block
(`ConeProg.coneDual`), every LMI block gets `dim²` free columns holding the dual matrix variable;
their coefficient in dual row `r` is the block's coefficient of the primal column of that row
(`extra_block = vstack(linear_list).T`), negated on the rows of columns with upper bound `0`
(`neg_rows = primal.ub == 0`, restricted to `keep_idx`; `sp.diags(flip) @ extra_block` - the linear
layer negates exactly those dual rows), their cost is `-const`, and the dual LMI declares the matrix
formed by the new columns PSD. -/
def lmiDual (P : LmiProg K) : LmiProg K :=
  let S := P.cone.coneDual
  if P.lmi.isEmpty then { cone := S, lmi := [] }
  else
    let n := S.lp.nc
    let T := total P.lmi
    { cone :=
        { lp := { nr := S.lp.nr
                  nc := n + T
                  a := fun r i => if i < n then S.lp.a r i
                    else (if i < n + T then P.extEntryCoef (i - n) r else 0)
                  b := S.lp.b
                  eq := S.lp.eq
                  ub := fun i => if i < n then S.lp.ub i else none
                  lb := fun i => if i < n then S.lp.lb i else none
                  c := fun i => if i < n then S.lp.c i else - extConst P.lmi (i - n) }
          st := fun r i => if i < n then S.st r i
            else decide (i < n + T ∧ P.extEntryCoef (i - n) r ≠ 0)
          qmat := S.qmat
          xmat := S.xmat }
      lmi := dualBlocks P.lmi n (n + T) }

/-- the encoding BEFORE the repair of commit 19ae405 (kept only to state what was wrong with it,
`legacy_lmi_dual_not_weak` in `RsomeV/Props/Lmi.lean`): the LMI columns were appended without the
negation on the dual rows of columns with upper bound `0`. -/
def lmiDualLegacy (P : LmiProg K) : LmiProg K :=
  let S := P.cone.coneDual
  if P.lmi.isEmpty then { cone := S, lmi := [] }
  else
    let n := S.lp.nc
    let T := total P.lmi
    { cone :=
        { lp := { nr := S.lp.nr
                  nc := n + T
                  a := fun r i => if i < n then S.lp.a r i
                    else (if i < n + T then extCoef P.lmi (i - n) (P.lmiRow r) else 0)
                  b := S.lp.b
                  eq := S.lp.eq
                  ub := fun i => if i < n then S.lp.ub i else none
                  lb := fun i => if i < n then S.lp.lb i else none
                  c := fun i => if i < n then S.lp.c i else - extConst P.lmi (i - n) }
          st := fun r i => if i < n then S.st r i
            else decide (i < n + T ∧ extCoef P.lmi (i - n) (P.lmiRow r) ≠ 0)
          qmat := S.qmat
          xmat := S.xmat }
      lmi := dualBlocks P.lmi n (n + T) }


/-- branch labels (coverage histogram of the differential test) -/
def branches (P : LmiProg K) : List String :=
  P.cone.branches ++
  (if P.lmi.isEmpty then ["lmi.none"] else ["lmi.block"]) ++
  (if P.lmi.length > 1 then ["lmi.multi"] else []) ++
  (if P.cone.qmat.isEmpty || P.cone.socDual.lp.nr == P.cone.lp.nc then [] else ["lmi.keep_idx"]) ++
  (if P.lmi.any (fun B => decide (B.w < P.cone.lp.nc)) then ["lmi.narrow"] else []) ++
  (if (List.range P.cone.coneDual.lp.nr).any (fun r => P.cone.lp.isNeg (P.lmiRow r) &&
        (List.range (total P.lmi)).any (fun t => decide (extCoef P.lmi t (P.lmiRow r) ≠ 0)))
    then ["lmi.neg_row"] else [])

/-! ### Feasibility over `ℝ` -/

/-- feasibility, LMI blocks read as "the matrix is symmetric positive semidefinite"
(`Matrix.PosSemidef` includes `IsHermitian`) -/
structure Feas (P : LmiProg ℝ) (E : ℝ → ℝ → ℝ → Prop) (x : ℕ → ℝ) : Prop where
  cone : P.cone.Feas E x
  psd  : ∀ B ∈ P.lmi, (B.mat x).PosSemidef

/-- feasibility, LMI blocks read as "the symmetric part of the matrix is positive semidefinite"
(what a solver interface that symmetrises, `½(M + Mᵀ) ⪰ 0`, imposes; weaker than `Feas`) -/
structure FeasSym (P : LmiProg ℝ) (E : ℝ → ℝ → ℝ → Prop) (x : ℕ → ℝ) : Prop where
  cone : P.cone.Feas E x
  psd  : ∀ B ∈ P.lmi, (B.mat x + (B.mat x).transpose).PosSemidef

end LmiProg

/-! ### LMI uncertainty sets: the LMI constraints of `RoConstr.le_to_rc`

`le_to_rc(support)` ends with, for every uncertain row `n` and every `pconstr in support.lmi`
(`support` = the dual form `do_math(primal=False, obj=False)` of the support model):
`symat = (pconstr['linear'] @ dual_var[n]).reshape((dim, dim)); symat -= pconstr['const'];
constr_list.append(symat >> 0)`.  As an `LMIConstr` over the columns of the counterpart
(`[0, nd)` decisions, `[nd, nd + m·|S|)` multipliers, row-major): -/

namespace RoRows

/-- the block of support LMI `B` for uncertain row `n` -/
def rcBlock (R : RoRows K) (S : ConeProg K) (n : ℕ) (B : LmiBlock K) : LmiBlock K :=
  { dim := B.dim
    w := R.nd + R.m * S.lp.nc
    lin := fun e c =>
      if c < R.nd then 0
      else if decide (R.nd ≤ c ∧ c < R.nd + R.m * S.lp.nc) = true ∧ (c - R.nd) / S.lp.nc = n
        then B.linP e ((c - R.nd) % S.lp.nc)
      else 0
    const := B.const }

/-- all LMI constraints `le_to_rc` returns, in its order (row `n` outer, support block inner) -/
def rcLmi (R : RoRows K) (S : LmiProg K) : List (LmiBlock K) :=
  (List.range R.m).flatMap fun n => S.lmi.map fun B => R.rcBlock S.cone n B

/-- the counterpart of a block of uncertain rows over a support with LMI blocks -/
def leToRcLmi (R : RoRows K) (S : LmiProg K) : LmiProg K :=
  { cone := (R.leToRc S.cone).prog, lmi := R.rcLmi S }

end RoRows
end RsomeV
