import RsomeV.M.Robust
import RsomeV.M.Partition

/-! Order-faithful model of `dro.Model.ro_to_roc` (rsome/dro.py l.503-714) for the robust and the linear
constraints of a dro model (`DecRoConstr`, `DecLinConstr` of `ctype == 'R'`; the objective row
`dec_vars[0] >= obj * sign` goes the same way).

For every scenario `s` the decision rule `drule_list[s] = rule_var()[s]` is substituted for the
vt_model's decision columns: column `d` becomes

  `x_d(z) = v[cc s d] + Σ_j [mask d j] · v[lcol s d j] · z_j`

(`cc s d`: the column of `var_const` decision `d` uses in scenario `s`; `mask`: the stacked
`rand_adapt` matrices — which decision depends affinely on which random component; `lcol s d j`: the
column of `var_linear` holding that coefficient in scenario `s`).  The rule is a `RoAffine` iff some
mask entry is set (`depend_mat.sum() > 0`), otherwise an `Affine`.

What the code does, in its order:

* **equality split** — a `DecRoConstr` of sense 1, and a `DecLinConstr` of sense 1 *when the rule is a
  `RoAffine`*, is replaced by the two inequalities `expr <= 0`, `-expr <= 0` (same `ambset`); the result
  is `ro_to_roc(left) + ro_to_roc(right)`: all scenarios of the left half, then all of the right half.
  (A `DecLinConstr` equality under an `Affine` rule stays one `LinConstr` of sense 1 per scenario.)
* per scenario `s`, in this order:
  1. `DecRoConstr` under a `RoAffine` rule: if a decision column that occurs (structurally:
     `raf_linear.indices`) in a random coefficient has a dependency declared (`drule.raffine[row_ind]`
     non-zero) → `SyntaxError('Incorrect affine expressions.')` (random × adaptive product);
  2. the substituted row is built (`substRow`);
  3. random part identically zero → plain `LinConstr` (three code paths: `Affine` rule;
     `left_empty and right_empty`; the final `else` that turns an `RoConstr` without random part into a
     `LinConstr`);
     otherwise `RoConstr(…, sense).forall(support)` with `support = constr.ambset.sup_constr[s]` (own
     `Ambiguity`), `constr.ambset` (an explicit list of support constraints), or
     `obj_ambiguity.sup_constr[s]` (default) — `SyntaxError('The Ambiguity set is undefined.')` when there
     is neither.

Scope: uniform sense (all rows `<=` or all rows `==`, what the public API builds); the constraint has as
many random components as the model (`raffine.shape[1] == num_rand`: no random variable declared after
the constraint); "identically zero" is tested on values (the code tests `nnz`, i.e. structure: the
differential test checks that no explicit zeros are stored in the cases it generates). -/

namespace RsomeV
open Finset

variable {K : Type} [Field K] [LinearOrder K] [IsStrictOrderedRing K]

namespace RoRows

/-- `-roaffine`: the block of rows with all coefficients negated -/
def negate (R : RoRows K) : RoRows K :=
  { R with Rl := fun n j d => - R.Rl n j d, Rc := fun n j => - R.Rc n j,
           al := fun n d => - R.al n d, ac := fun n => - R.ac n }

/-- the block without its random part -/
def detPart (R : RoRows K) : RoRows K :=
  { R with Rl := fun _ _ _ => 0, Rc := fun _ _ => 0 }

/-- `raffine.linear.nnz == 0 and not raffine.const.any()` (on values) -/
def randZero (R : RoRows K) : Bool :=
  (List.range R.m).all fun n => (List.range R.nz).all fun j =>
    decide (R.Rc n j = 0) && (List.range R.nd).all fun d => decide (R.Rl n j d = 0)

end RoRows

namespace RoToRoc

/-- the decision rules `rule_var()` returns, as substitution tables -/
structure Rule where
  nv   : ℕ                   -- `num_var = vt_model.vars[-1].last`
  cc   : ℕ → ℕ → ℕ           -- scenario s, vt column d ↦ column of the constant part (in `var_const`)
  mask : ℕ → ℕ → Bool        -- vt column d depends affinely on random component j (`depend_mat`)
  lcol : ℕ → ℕ → ℕ → ℕ       -- scenario s, vt column d, component j ↦ column of the coefficient (in `var_linear`)

/-- `depend_mat.sum() > 0`: the rules are `RoAffine`s -/
def Rule.isRo (r : Rule) (nz : ℕ) : Bool :=
  (List.range r.nv).any fun d => (List.range nz).any fun j => r.mask d j

/-- value of decision column `d` in scenario `s` at the ro_model assignment `v` and realisation `z` -/
def Rule.x (r : Rule) (nz : ℕ) (s : ℕ) (v z : ℕ → K) (d : ℕ) : K :=
  v (r.cc s d) + ∑ j ∈ range nz, if r.mask d j then v (r.lcol s d j) * z j else 0

/-! #### the rule tables from the partition bookkeeping (`M/Partition.lean`) -/

open Partition in
/-- `rule_var()` as tables, from the decisions' sizes / events / dependency masks (`dec_vars`, the
epigraph variable `dec_vars[0]` included; a decision without `rand_adapt` has an all-false mask of
shape `size × nrand`).  `c0` = first column of `var_const` in `rc_model` (1: after the ro_model's own
epigraph variable); `var_linear` follows `var_const`. -/
def Rule.ofDecs (c0 nrand : ℕ) (ds : List DecM) : Rule :=
  let dl : List Dec := ds.map fun d => { size := d.size, events := d.events }
  let total := roFirst dl dl.length
  let m : Mask := ds.flatMap (·.mask)
  { nv := (ds.map (·.size)).sum
    cc := fun s d => c0 + (scenCols dl s).getD d 0
    mask := fun d j => (m.getD d []).getD j false
    lcol := fun s d j => c0 + total + (linCols ds s).getD ((nzRowsAll ds).idxOf (d * nrand + j)) 0 }

open Partition in
/-- number of `rc_model` columns after `rule_var()` -/
def ruleWidth (c0 : ℕ) (ds : List DecM) : ℕ :=
  let dl : List Dec := ds.map fun d => { size := d.size, events := d.events }
  c0 + roFirst dl dl.length + linFirst ds ds.length

/-! #### the constraint -/

inductive Kind where
  | ro      -- `DecRoConstr`
  | lin     -- `DecLinConstr`
  deriving DecidableEq, Repr

/-- `constr.ambset` / `obj_ambiguity` -/
inductive AmbSel where
  | own       -- `constr.ambset` is an `Ambiguity`
  | list      -- `constr.ambset` is an explicit list of support constraints
  | dflt      -- `constr.ambset is None`, `obj_ambiguity` is set
  | none      -- neither
  deriving DecidableEq, Repr

/-- which support program the item carries -/
inductive Tag where
  | own (s : ℕ)     -- `constr.ambset.sup_constr[s]`
  | dflt (s : ℕ)    -- `obj_ambiguity.sup_constr[s]`
  | list            -- `constr.ambset` itself
  deriving DecidableEq, Repr

def tagFor : AmbSel → ℕ → Option Tag
  | .own, s => some (.own s)
  | .list, _ => some .list
  | .dflt, s => some (.dflt s)
  | .none, _ => none

inductive Err where
  | affine     -- `SyntaxError('Incorrect affine expressions.')`
  | noAmb      -- `SyntaxError('The Ambiguity set is undefined.')`
  deriving DecidableEq, Repr

def Err.msg : Err → String
  | .affine => "SyntaxError: Incorrect affine expressions."
  | .noAmb => "SyntaxError: The Ambiguity set is undefined."

/-- a `DecRoConstr` / `DecLinConstr`: `rows` is the bi-affine expression over the vt_model's columns
(`rows.nd = num_var`; `Rl n j d` = `raffine.linear[n·nz + j, d]`, `Rc` = `raffine.const`,
`al` = `affine.linear` resp. `linear`, `ac` = `affine.const` resp. `-const`); for a `DecLinConstr`
the random part is ignored -/
structure Constr (K : Type) where
  kind : Kind
  eq   : Bool              -- sense
  rows : RoRows K
  rst  : ℕ → Bool          -- `d ∈ np.unique(raf_linear.indices)`: column d occurs (structurally) in a random coefficient

/-- the expression the constraint bounds: `… <= 0` / `… == 0` -/
def Constr.orig (C : Constr K) : RoRows K :=
  match C.kind with
  | .ro => C.rows
  | .lin => C.rows.detPart

/-- one item of the returned list -/
structure Item (K : Type) where
  h   : ℕ                  -- 0: the constraint itself / left half; 1: right half (negated expression)
  s   : ℕ                  -- scenario
  tag : Option Tag         -- `some t`: an `RoConstr` with `.forall(support t)`; `none`: a `LinConstr`
  eq  : Bool               -- sense of the item
  row : RoRows K           -- over `nd` ro_model columns

/-- the expression `R` (over vt columns) with the rule of scenario `s` substituted, over `nd`
ro_model columns: `raf_linear @ drule.affine + constr.raffine.const` and the random part of
`aff_linear @ drule`; `aff_linear @ drule.affine + const` -/
def substRow (r : Rule) (s nd : ℕ) (R : RoRows K) : RoRows K :=
  { nd := nd, m := R.m, nz := R.nz
    Rl := fun n j c =>
      (∑ d ∈ range r.nv, if r.cc s d = c then R.Rl n j d else 0) +
      (∑ d ∈ range r.nv, if r.mask d j ∧ r.lcol s d j = c then R.al n d else 0)
    Rc := R.Rc
    al := fun n c => ∑ d ∈ range r.nv, if r.cc s d = c then R.al n d else 0
    ac := R.ac }

/-- the check of step 1: some decision column occurring in a random coefficient is affinely adaptive -/
def rejects (C : Constr K) (r : Rule) : Bool :=
  C.kind == .ro && r.isRo C.rows.nz &&
    (List.range r.nv).any fun d => C.rst d && (List.range C.rows.nz).any fun j => r.mask d j

/-- what the loop body produces for scenario `s` of the (half) constraint with expression `R` -/
def itemOf (C : Constr K) (r : Rule) (amb : AmbSel) (nd : ℕ) (h : ℕ) (eq : Bool) (R : RoRows K)
    (s : ℕ) : Except Err (Item K) :=
  if rejects C r then .error .affine else
  let row := substRow r s nd R
  if row.randZero then .ok { h := h, s := s, tag := none, eq := eq, row := row }
  else match tagFor amb s with
    | some t => .ok { h := h, s := s, tag := some t, eq := eq, row := row }
    | none => .error .noAmb

/-- results of the loop, stopping at the first exception -/
def collect {α : Type} : List (Except Err α) → Except Err (List α)
  | [] => .ok []
  | .error e :: _ => .error e
  | .ok a :: l => match collect l with
    | .error e => .error e
    | .ok as => .ok (a :: as)

/-- `ro_to_roc` of a constraint that is not split: the loop over the scenarios -/
def half (C : Constr K) (r : Rule) (S : ℕ) (amb : AmbSel) (nd : ℕ → ℕ → ℕ) (h : ℕ) (eq : Bool)
    (R : RoRows K) : Except Err (List (Item K)) :=
  collect ((List.range S).map fun s => itemOf C r amb (nd h s) h eq R s)

/-- is the constraint split into two inequalities? -/
def splits (C : Constr K) (r : Rule) : Bool :=
  C.eq && (C.kind == .ro || r.isRo C.rows.nz)

/-- **model of `dro.Model.ro_to_roc(constr)`**: `S` = `num_scen`, `nd h s` = number of ro_model columns
the item `(h, s)` is padded to -/
def roToRoc (C : Constr K) (r : Rule) (S : ℕ) (amb : AmbSel) (nd : ℕ → ℕ → ℕ) :
    Except Err (List (Item K)) :=
  if splits C r then
    match half C r S amb nd 0 false C.orig with
    | .error e => .error e
    | .ok l => match half C r S amb nd 1 false C.orig.negate with
      | .error e => .error e
      | .ok l' => .ok (l ++ l')
  else half C r S amb nd 0 C.eq C.orig

end RoToRoc
end RsomeV
