import RsomeV.M.LpDual

/-! Order-faithful model of the conic layers of `do_math(primal=False)`:
`socp.Model.do_math` (two layouts) and `gcp.Model.do_math` (exponential-cone block),
stacked on the LP layer `LinProg.dual`.  (rsome/socp.py, rsome/gcp.py) -/

namespace RsomeV
open Finset

variable {K : Type} [Field K] [LinearOrder K] [IsStrictOrderedRing K]

/-- A conic program as rsome stores it (`GCProg` without LMIs): an LP plus index lists of
second-order cones (`qmat`, head first) and exponential cones (`xmat`, three indices).
`st` is the stored-entry (CSR) pattern of `lp.a`; the layout choice of the SOC dual reads it. -/
structure ConeProg (K : Type) where
  lp   : LinProg K
  st   : ℕ → ℕ → Bool
  qmat : List (List ℕ)
  xmat : List (List ℕ)

namespace ConeProg

/-- stored pattern of the augmented primal rows (bound rows store exactly their ±1) -/
def augSt (P : ConeProg K) (i j : ℕ) : Bool :=
  if i < P.lp.nr then P.st i j
  else if i < P.lp.nr + P.lp.idxUb.length then decide (j = P.lp.idxUb.getD (i - P.lp.nr) 0)
  else if i < P.lp.nr + P.lp.idxUb.length + P.lp.idxLb.length then
    decide (j = P.lp.idxLb.getD (i - P.lp.nr - P.lp.idxUb.length) 0)
  else decide (j = P.lp.idxFx.getD (i - P.lp.nr - P.lp.idxUb.length - P.lp.idxLb.length) 0)

/-- `[item for inner in primal.qmat for item in inner]` -/
def eye (P : ConeProg K) : List ℕ := P.qmat.flatten

/-- `dual_lp.linear[j, :].indices` : stored columns of row `j` of the LP dual -/
def rowStored (P : ConeProg K) (j : ℕ) : List ℕ :=
  (List.range P.lp.augNr).filter fun i => P.augSt i j

/-- position of the head of every cone inside `eye` -/
def headPos : List (List ℕ) → ℕ → List ℕ
  | [], _ => []
  | q :: qs, off => off :: headPos qs (off + q.length)

/-- the (repaired) test that selects the compact layout: every cone variable is a
unit-coefficient column stored in exactly one row, all those rows distinct, head
coefficients `+1`.  (Zero cost of cone columns is a hypothesis of the theorem, not tested by the
code: with `obj=True` the only costed column is the epigraph variable, with `obj=False` the
all-ones cost is a placeholder that the caller ignores on auxiliary columns.) -/
def compactOk (P : ConeProg K) : Bool :=
  let D := P.lp.dual
  let e := P.eye
  e.all (fun j => (P.rowStored j).length == 1) &&
  decide e.Nodup &&
  decide (e.map fun j => (P.rowStored j).headD 0).Nodup &&
  e.all (fun j => let v := D.a j ((P.rowStored j).headD 0); decide (v = 1 ∨ v = -1)) &&
  (P.qmat.all fun q => match q with
    | [] => true
    | h :: _ => decide (D.a h ((P.rowStored h).headD 0) = 1))

/-- columns of the LP dual whose sign is flipped in the compact layout (multipliers of head rows) -/
def headCols (P : ConeProg K) : List ℕ :=
  P.qmat.flatMap fun q => match q with
    | [] => []
    | h :: _ => P.rowStored h

/-- `lin_indices`: primal variables that are in no cone -/
def linIdx (P : ConeProg K) : List ℕ := (List.range P.lp.nc).filter fun j => !(P.eye.contains j)

/-- compact layout (layout 1) -/
def socDual1 (P : ConeProg K) : ConeProg K :=
  let D := P.lp.dual
  let flip : ℕ → Bool := fun i => P.headCols.contains i
  { lp := { nr := P.linIdx.length
            nc := D.nc
            a := fun r i => if flip i then - D.a (P.linIdx.getD r 0) i else D.a (P.linIdx.getD r 0) i
            b := fun r => D.b (P.linIdx.getD r 0)
            eq := fun r => D.eq (P.linIdx.getD r 0)
            ub := fun i => if flip i then (match D.lb i with | none => none | some l => some (-l)) else D.ub i
            lb := fun i => if flip i then some 0 else D.lb i
            c := fun i => if flip i then - D.c i else D.c i }
    st := fun r i => P.augSt i (P.linIdx.getD r 0)
    qmat := P.qmat.map fun q => q.flatMap P.rowStored
    xmat := [] }

/-- lower bounds of the extra cone columns: `0` at the head of each block -/
def extraLb (P : ConeProg K) (k : ℕ) : Option K :=
  if (headPos P.qmat 0).contains k then some 0 else none

def qBlocks : List (List ℕ) → ℕ → List (List ℕ)
  | [], _ => []
  | q :: qs, off => ((List.range q.length).map (· + off)) :: qBlocks qs (off + q.length)

/-- general layout (layout 2): one extra column per cone position -/
def socDual2 (P : ConeProg K) : ConeProg K :=
  let D := P.lp.dual
  let e := P.eye
  { lp := { nr := D.nr
            nc := D.nc + e.length
            a := fun j i => if i < D.nc then D.a j i else (if e.getD (i - D.nc) P.lp.nc = j ∧ i - D.nc < e.length then 1 else 0)
            b := D.b
            eq := D.eq
            ub := fun i => if i < D.nc then D.ub i else none
            lb := fun i => if i < D.nc then D.lb i else P.extraLb (i - D.nc)
            c := fun i => if i < D.nc then D.c i else 0 }
    st := fun j i => if i < D.nc then P.augSt i j else decide (e.getD (i - D.nc) P.lp.nc = j ∧ i - D.nc < e.length)
    qmat := qBlocks P.qmat D.nc
    xmat := [] }

/-- `socp.Model.do_math(primal=False)` -/
def socDual (P : ConeProg K) : ConeProg K :=
  if P.qmat.isEmpty then
    { lp := P.lp.dual, st := fun j i => P.augSt i j, qmat := [], xmat := [] }
  else if P.compactOk then P.socDual1 else P.socDual2

/-- is the dual's row set the compact one (rows of cone variables removed)? -/
def rowsRemoved (P : ConeProg K) : Bool := !P.qmat.isEmpty && P.compactOk

/-- dual row that carries primal variable `j` -/
def dualRowOf (P : ConeProg K) (j : ℕ) : ℕ :=
  if P.rowsRemoved then P.linIdx.idxOf j else j

/-- `gcp.Model.do_math(primal=False)` without LMIs: exponential-cone block on top of `socDual` -/
def coneDual (P : ConeProg K) : ConeProg K :=
  let S := P.socDual
  if P.xmat.isEmpty then S
  else
    let n := S.lp.nc
    let nx := P.xmat.length
    let ex : ℕ → ℕ → ℕ := fun k p => P.dualRowOf ((P.xmat.getD k []).getD p 0)
    let blk : ℕ → ℕ → K := fun r i =>
      -- i = column offset inside the block, k = cone, t = i % 3
      let k := i / 3
      let t := i % 3
      (if t = 2 ∧ r = ex k 0 then -1 else 0) + (if t = 1 ∧ r = ex k 1 then 1 else 0) +
      (if t = 0 ∧ r = ex k 2 then -1 else 0) + (if t = 2 ∧ r = ex k 2 then -1 else 0)
    { lp := { nr := S.lp.nr
              nc := n + 3 * nx
              a := fun r i => if i < n then S.lp.a r i else (if i < n + 3 * nx then blk r (i - n) else 0)
              b := S.lp.b
              eq := S.lp.eq
              ub := fun i => if i < n then S.lp.ub i else none
              lb := fun i => if i < n then S.lp.lb i else none
              c := fun i => if i < n then S.lp.c i else 0 }
      st := fun r i => if i < n then S.st r i else decide (blk r (i - n) ≠ 0)
      qmat := S.qmat
      xmat := (List.range nx).map fun k => [n + 3 * k, n + 3 * k + 1, n + 3 * k + 2] }

/-- branch labels taken (reported by the driver for the coverage histogram) -/
def branches (P : ConeProg K) : List String :=
  (if P.lp.idxUb.isEmpty then [] else ["dual.ub_rows"]) ++
  (if P.lp.idxLb.isEmpty then [] else ["dual.lb_rows"]) ++
  (if P.lp.idxFx.isEmpty then [] else ["dual.fixed_rows"]) ++
  (if (List.range P.lp.nc).any P.lp.isNeg then ["dual.neg"] else []) ++
  (if (List.range P.lp.nc).any P.lp.isFree then ["dual.free"] else []) ++
  (if P.qmat.isEmpty then ["soc.none"] else if P.compactOk then ["soc.layout1"] else ["soc.layout2"]) ++
  (if P.xmat.isEmpty then [] else ["exp.block"])

end ConeProg
end RsomeV
