import RsomeV.M.AtomsExp

/-! Order-faithful model of the *summed* exponential-cone atoms of `gcp.Model.do_math(primal=True)`:
the branch `constr.xtype in 'XL' and constr.params is not None` (rsome/gcp.py), reached by
`rso.exp(e).sum(axis)` / `rso.log(e).sum(axis)` (`lp.Convex.sum` stores `params = ('sum', axis)` and
replaces `affine_out` by `affine_out.sum(axis)`).

The constraint is `k * Σ_axis exp(e) + affine_out <= 0` (X) resp. `-k * Σ_axis log(e) + affine_out <= 0`
(L).  `do_math`

* creates `aux_var = dvar(affine_in.shape, aux=True)` : one column per entry of `e` (row-major), at the
  columns `ncols ..`;
* appends ONE `LinConstr` to `aux_constr`: `aux_var.sum(axis) + affine_out*(1/k) <= 0` (X) resp.
  `aux_var.sum(axis) - affine_out*(1/k) >= 0` (L); its rows are the entries of the NumPy broadcast of
  the sum's shape with the shape of `affine_out` (in normal use the two shapes agree: one row per sum);
* appends, for every entry `s` (row-major), `ExpConstr(in_s, aux_s, 1)` (X: `exp(in_s) ≤ aux_s`) resp.
  `ExpConstr(aux_s, in_s, 1)` (L: `exp(aux_s) ≤ in_s`) to the cone list;
* the common last step (`ExpEnc.prog` of `RsomeV/M/AtomsExp.lean`) then creates three columns and three
  rows per cone and the `xmat` triples.

Executable over `ℚ`; theorems (over `ℝ`) in `RsomeV/Props/AtomsSum.lean`. -/

namespace RsomeV.ASum
open RsomeV.AExp

variable {K : Type} [Field K] [LinearOrder K] [IsStrictOrderedRing K]

/-- `aux_var.sum(axis)[g]` : the sum of the auxiliary columns `base + s` over the entries `s` of the
group `g` (a list of flat row-major indices into `aux_var`) -/
def sumIdx (base : ℕ) (g : List ℕ) : Aff K :=
  g.foldr (fun s acc => (Aff.var (base + s)).add acc) (Aff.cst 0)

/-- a `CvxConstr` of xtype `X` / `L` with `params = ('sum', axis)`.
`ain` : the entries of `affine_in` (row-major); `groups` : for every entry of `affine_in.sum(axis)`
(row-major) the flat indices of the entries it adds up; `aout` : the entries of `affine_out`;
`sumShape` / `outShape` : shapes of `aux_var.sum(axis)` and of `affine_out`. -/
structure SumReq (K : Type) where
  isLog : Bool
  mult  : K
  ain   : List (Aff K)
  groups : List (List ℕ)
  aout  : List (Aff K)
  sumShape : List ℕ
  outShape : List ℕ

namespace SumReq

/-- number of entries of `affine_in` = number of auxiliary columns -/
def ns (R : SumReq K) : ℕ := R.ain.length
def inAt (R : SumReq K) (s : ℕ) : Aff K := R.ain.getD s default
/-- `affine_out * (1/multiplier)`, entry `i` -/
def outDiv (R : SumReq K) (i : ℕ) : Aff K := (R.aout.getD i default).smul (1 / R.mult)
def groupAt (R : SumReq K) (g : ℕ) : List ℕ := R.groups.getD g []
/-- the rows of `aux_sum ± affine_out` : (index into the sums, index into `affine_out`) for every
position of the broadcast shape -/
def pairs (R : SumReq K) : List (List ℕ) := bcastIdx [R.sumShape, R.outShape]

end SumReq

/-- the groups and the shape of `a.sum(axis)` for an array of shape `inShape`
(`axis = none` : Python `None`, everything is summed; `none` when NumPy raises `AxisError`) -/
def groupsOfAxis (inShape : List ℕ) : Option Int → Option (List (List ℕ) × List ℕ)
  | none => some ([List.range (Nd.size inShape)], [])
  | some a =>
    match Nd.normAxis inShape.length a with
    | none => none
    | some ax => some (Nd.sumAxisGroups inShape ax, inShape.eraseIdx ax)

/-- the state of `do_math` just before the common last step, for a model with `ncols` columns
(epigraph column + user columns) holding the single summed constraint `R` -/
def encodeSumAtom (ncols : ℕ) (R : SumReq K) : ExpEnc K :=
  { base := ncols + R.ns
    rows := R.pairs.map fun p =>
      if R.isLog then
        -- `aux_sum - affine_out >= 0`, stored as `-(aux_sum - affine_out) <= 0`
        ERow.le0 ((R.outDiv (p.getD 1 0)).sub (sumIdx ncols (R.groupAt (p.getD 0 0))))
      else
        -- `aux_sum + affine_out <= 0`
        ERow.le0 ((sumIdx ncols (R.groupAt (p.getD 0 0))).add (R.outDiv (p.getD 1 0)))
    cones := (List.range R.ns).map fun s =>
      if R.isLog then ⟨Aff.var (ncols + s), R.inAt s, Aff.cst 1⟩
      else ⟨R.inAt s, Aff.var (ncols + s), Aff.cst 1⟩ }

end RsomeV.ASum
