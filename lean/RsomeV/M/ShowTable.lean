import RsomeV.M.ConeDual
import Mathlib.Algebra.Field.Rat
import Mathlib.Algebra.Order.Ring.Rat

/-! # C16 — model of rsome's `show()` tables

`LinProg.showlc` / `LinProg.show` (rsome/lp.py), `SOCProg.showqc` / `SOCProg.show` (rsome/socp.py),
`GCProg.showec` / `GCProg.show` (rsome/gcp.py, programs without LMIs).

The `pandas.DataFrame` is modelled as a plain labelled table: the column labels, and the rows in
order, each with its row label and its cells.  A cell is a token: a finite float (as the exact
rational), `±inf`, a string, or `NaN` (the "no entry" of `pd.concat`; `show()` ends with
`fillna('-')`, so no `NaN` survives in the table).

What the code puts where (checked cell by cell by `test_show.py`):
* `LC` rows: `linear.todense()` — *every* column, stored or not, `0.0` where nothing is stored —, then
  `'=='` / `'<='`, then `const[i]`;
* `QC` rows: the dense row of `csr_matrix(([-1,1,…,1], qmat[k]))` (duplicate members add up), `'<='`, `0.0`;
* `EC` rows: the dense row of `csr_matrix(([1,2,3], xmat[k]))` (duplicates add up), `'-'`, `'-'`;
* `Obj`, `UB`, `LB`, `Type` rows: frames with the `x` columns only; `pd.concat` gives them `NaN`
  under `sense` and `constant`, `fillna` turns that into `'-'`. -/

namespace RsomeV.ShowTable

/-- one cell of the DataFrame -/
inductive Cell where
  /-- a finite float, as the exact rational (`-0.0` is `0`) -/
  | num (q : ℚ)
  /-- `inf` (`neg = false`) / `-inf` (`neg = true`) -/
  | inf (neg : Bool)
  /-- a Python `str` -/
  | str (s : String)
  /-- `NaN`: no entry -/
  | nan
deriving DecidableEq, Repr, Inhabited

/-- a DataFrame: column labels, and the rows in order (row label, cells) -/
structure Table where
  columns : List String
  rows : List (String × List Cell)
deriving DecidableEq, Repr, Inhabited

/-- `DataFrame.index` -/
def Table.index (T : Table) : List String := T.rows.map (·.1)
/-- `DataFrame.values` -/
def Table.cells (T : Table) : List (List Cell) := T.rows.map (·.2)

/-- which `show` method runs: `LinProg.show`, `SOCProg.show`, `GCProg.show` -/
inductive Kind where
  | lin | soc | gcp
deriving DecidableEq, Repr, Inhabited

/-! ## labels -/

/-- `'<pre>{0}'.format(i+1)` -/
def numLabel (pre : List Char) (i : ℕ) : String := String.ofList (pre ++ Nat.toDigits 10 (i + 1))
/-- `'x{0}'.format(j)` for `j = i+1` -/
def xLabel (j : ℕ) : String := numLabel ['x'] j
/-- `'LC{0}'.format(j)` -/
def lcLabel (i : ℕ) : String := numLabel ['L', 'C'] i
/-- `'QC{0}'.format(j)` -/
def qcLabel (i : ℕ) : String := numLabel ['Q', 'C'] i
/-- `'EC{0}'.format(j)` -/
def ecLabel (i : ℕ) : String := numLabel ['E', 'C'] i

/-- `var_names = ['x{0}'.format(i) for i in range(1, linear.shape[1] + 1)]` -/
def varNames (nc : ℕ) : List String := (List.range nc).map xLabel
/-- the columns of every frame that has `table['sense'] = …; table['constant'] = …` -/
def columns (nc : ℕ) : List String := varNames nc ++ ["sense", "constant"]

/-! ## the pieces -/

/-- the bound as a float: `None` (no bound) is `+inf` in `ub`, `-inf` in `lb` -/
def boundCell (neg : Bool) : Option ℚ → Cell
  | some v => .num v
  | none => .inf neg

/-- entry `j` of one dense row of `sp.csr_matrix((values, indices, indptr)).todense()`:
the stored values whose column index is `j`, added up -/
def csrCell (vals : List ℚ) (idx : List ℕ) (j : ℕ) : ℚ :=
  ((vals.zip idx).map fun p => if p.2 = j then p.1 else 0).sum

/-- one dense row of it -/
def csrRow (nc : ℕ) (vals : List ℚ) (idx : List ℕ) : List Cell :=
  (List.range nc).map fun j => .num (csrCell vals idx j)

/-- `[-1.0] + [1.0]*(len(item)-1)` -/
def qcVals (q : List ℕ) : List ℚ := (-1) :: List.replicate (q.length - 1) 1
/-- `[1, 2, 3]` -/
def ecVals : List ℚ := [1, 2, 3]

variable (P : ConeProg ℚ)

/-- the rows of `showlc()` -/
def lcRows : List (String × List Cell) :=
  (List.range P.lp.nr).map fun i =>
    (lcLabel i, ((List.range P.lp.nc).map fun j => Cell.num (P.lp.a i j)) ++
      [.str (if P.lp.eq i then "==" else "<="), .num (P.lp.b i)])

/-- `LinProg.showlc()` -/
def showlc : Table := ⟨columns P.lp.nc, lcRows P⟩

/-- the rows of `showqc()` -/
def qcRows : List (String × List Cell) :=
  P.qmat.mapIdx fun k q => (qcLabel k, csrRow P.lp.nc (qcVals q) q ++ [.str "<=", .num 0])

/-- `SOCProg.showqc()`: `None` without cones -/
def showqc : Option Table := if P.qmat = [] then none else some ⟨columns P.lp.nc, qcRows P⟩

/-- the rows of `showec()` -/
def ecRows : List (String × List Cell) :=
  P.xmat.mapIdx fun k x => (ecLabel k, csrRow P.lp.nc ecVals x ++ [.str "-", .str "-"])

/-- `GCProg.showec()`: `None` without exponential cones -/
def showec : Option Table := if P.xmat = [] then none else some ⟨columns P.lp.nc, ecRows P⟩

/-- a one-row frame with the `x` columns only (`columns=table.columns[:-2]`) once it went through
`pd.concat` with the full-width table: `NaN` under `sense` and `constant` -/
def narrowRow (label : String) (cells : List Cell) : String × List Cell := (label, cells ++ [.nan, .nan])

/-- `pd.DataFrame(self.obj.reshape((1, self.obj.size)), …, index=['Obj'])` -/
def objRow : String × List Cell := narrowRow "Obj" ((List.range P.lp.nc).map fun j => .num (P.lp.c j))
def ubRow : String × List Cell := narrowRow "UB" ((List.range P.lp.nc).map fun j => boundCell false (P.lp.ub j))
def lbRow : String × List Cell := narrowRow "LB" ((List.range P.lp.nc).map fun j => boundCell true (P.lp.lb j))
/-- `vtype` is the array of type letters (`'C'`, `'B'`, `'I'`), one per column -/
def typeRow (vt : List String) : String × List Cell := narrowRow "Type" (vt.map .str)

/-- `pd.concat([A, B], axis=0)` for frames over the same columns (narrow frames already widened) -/
def Table.concat (A : Table) (rows : List (String × List Cell)) : Table := ⟨A.columns, A.rows ++ rows⟩

/-- `if t is not None: table = pd.concat([table, t], axis=0)` -/
def Table.concatOpt (A : Table) : Option Table → Table
  | none => A
  | some B => A.concat B.rows

/-- `DataFrame.fillna(s)` -/
def fillCell (s : String) : Cell → Cell
  | .nan => .str s
  | c => c
def Table.fillna (T : Table) (s : String) : Table :=
  ⟨T.columns, T.rows.map fun r => (r.1, r.2.map (fillCell s))⟩

/-- `SOCProg.show()` (`withEc = false`) / `GCProg.show()` without LMIs (`withEc = true`), statement
by statement -/
def showConic (withEc : Bool) (vt : List String) : Table :=
  let table := showlc P
  let table : Table := ⟨table.columns, objRow P :: table.rows⟩          -- pd.concat([obj_row, table])
  let table := table.concatOpt (showqc P)
  let table := if withEc then table.concatOpt (showec P) else table
  let table := table.concat [ubRow P, lbRow P, typeRow vt]
  table.fillna "-"

/-- the program as a `LinProg` object holds it: no cone lists -/
def linOnly : ConeProg ℚ := { P with qmat := [], xmat := [] }

/-- the DataFrame returned by `formula.show()`; `LinProg.show()` is `SOCProg.show()` without the cone block
(objective row, linear rows, bounds, types) -/
def showTable (k : Kind) (vt : List String) : Table :=
  match k with
  | .lin => showConic (linOnly P) false vt
  | .soc => showConic P false vt
  | .gcp => showConic P true vt

/-! ## reading a table -/

/-- the first two characters of a row label: `LC`, `QC`, `EC`, `Ob`, `UB`, `LB`, `Ty` -/
def tag (s : String) : List Char := s.toList.take 2

/-- the cells of the rows of one class, in order -/
def rowsOf (t : List Char) (T : Table) : List (List Cell) :=
  (T.rows.filter fun r => tag r.1 = t).map (·.2)

def Cell.toRat : Cell → ℚ
  | .num q => q
  | _ => 0
def Cell.toBound : Cell → Option ℚ
  | .num q => some q
  | _ => none
def Cell.toStr : Cell → String
  | .str s => s
  | _ => ""

/-- a row without its last two cells (`sense`, `constant`) -/
def xCells (cs : List Cell) : List Cell :=
  match cs.reverse with
  | _ :: _ :: rest => rest.reverse
  | _ => []

/-- an `LC` row: coefficients, `sense == '=='`, right-hand side -/
def readLc (cs : List Cell) : List ℚ × Bool × ℚ :=
  match cs.reverse with
  | c :: s :: rest => (rest.reverse.map Cell.toRat, decide (s = .str "=="), c.toRat)
  | _ => ([], false, 0)

/-- a `QC` row: the column with a negative entry, then every column `j` with a positive entry `v`,
`v` times, columns ascending -/
def readQc (cs : List Cell) : List ℕ :=
  let v := (xCells cs).map Cell.toRat
  ((List.range v.length).filter fun j => decide (v.getD j 0 < 0)) ++
    (List.range v.length).flatMap fun j => List.replicate (v.getD j 0).num.toNat j

/-- an `EC` row: the columns holding `1`, `2`, `3` -/
def readEc (cs : List Cell) : List ℕ :=
  let v := (xCells cs).map Cell.toRat
  ((List.range v.length).filter fun j => decide (v.getD j 0 = 1)) ++
  ((List.range v.length).filter fun j => decide (v.getD j 0 = 2)) ++
  ((List.range v.length).filter fun j => decide (v.getD j 0 = 3))

/-- what a table says about the program -/
structure ShowData where
  /-- objective coefficients, one per column (`none`: no `Obj` row) -/
  obj : Option (List ℚ)
  /-- per linear row: the dense coefficients, `true` for `==`, the right-hand side -/
  rows : List (List ℚ × Bool × ℚ)
  /-- second-order cones, head first -/
  qcones : List (List ℕ)
  /-- exponential cones -/
  xcones : List (List ℕ)
  ub : Option (List (Option ℚ))
  lb : Option (List (Option ℚ))
  vtype : Option (List String)
deriving DecidableEq, Repr, Inhabited

/-- **`readTable`**: the rows are classified by their labels and read class by class -/
def readTable (T : Table) : ShowData where
  obj := (rowsOf ['O', 'b'] T).head?.map fun cs => (xCells cs).map Cell.toRat
  rows := (rowsOf ['L', 'C'] T).map readLc
  qcones := (rowsOf ['Q', 'C'] T).map readQc
  xcones := (rowsOf ['E', 'C'] T).map readEc
  ub := (rowsOf ['U', 'B'] T).head?.map fun cs => (xCells cs).map Cell.toBound
  lb := (rowsOf ['L', 'B'] T).head?.map fun cs => (xCells cs).map Cell.toBound
  vtype := (rowsOf ['T', 'y'] T).head?.map fun cs => (xCells cs).map Cell.toStr

/-! ## the program "restricted to its stored data" -/

/-- counting sort of the members `< nc`: column `j` as often as it occurs in `t`, columns ascending -/
def countSort (nc : ℕ) (t : List ℕ) : List ℕ :=
  (List.range nc).flatMap fun j => List.replicate (t.count j) j

/-- a second-order cone as the table shows it: the head, then the other members in ascending order
(`‖x_tail‖ ≤ x_head` does not depend on the order of the tail) -/
def normCone (nc : ℕ) (q : List ℕ) : List ℕ := q.take 1 ++ countSort nc q.tail

/-- the data of the formula object that its table determines: the linear rows, objective, bounds and types;
for the conic classes also the cones (`LinProg` has none, `SOCProg` has no `xmat`). The CSR
*pattern* `P.st` (explicit zeros versus missing entries) is not part of it. -/
def toData (k : Kind) (vt : List String) : ShowData where
  obj := some ((List.range P.lp.nc).map P.lp.c)
  rows := (List.range P.lp.nr).map fun i => ((List.range P.lp.nc).map (P.lp.a i), P.lp.eq i, P.lp.b i)
  qcones := if k = .lin then [] else P.qmat.map (normCone P.lp.nc)
  xcones := if k = .gcp then P.xmat else []
  ub := some ((List.range P.lp.nc).map P.lp.ub)
  lb := some ((List.range P.lp.nc).map P.lp.lb)
  vtype := some vt

/-! ## hypotheses -/

/-- what `show()` needs in order not to raise: one type letter per column; no empty second-order
cone; exactly three members per exponential cone; every member a column of the program. -/
structure NoRaise (vt : List String) : Prop where
  len_vt : vt.length = P.lp.nc
  q_ne : ∀ q ∈ P.qmat, q ≠ []
  q_lt : ∀ q ∈ P.qmat, ∀ j ∈ q, j < P.lp.nc
  x_len : ∀ x ∈ P.xmat, x.length = 3
  x_lt : ∀ x ∈ P.xmat, ∀ j ∈ x, j < P.lp.nc

/-- no cone mentions a column twice in a way that makes entries of its row add up ambiguously:
the head of a second-order cone is not among its other members, the three members of an exponential
cone are distinct.  (Every cone rsome's own pipeline builds is like that.) -/
structure Distinct : Prop where
  q_head : ∀ q ∈ P.qmat, ∀ h ∈ q.head?, h ∉ q.tail
  x_nodup : ∀ x ∈ P.xmat, x.Nodup

instance (vt : List String) : Decidable (NoRaise P vt) :=
  decidable_of_iff (vt.length = P.lp.nc ∧ (∀ q ∈ P.qmat, q ≠ []) ∧ (∀ q ∈ P.qmat, ∀ j ∈ q, j < P.lp.nc) ∧
      (∀ x ∈ P.xmat, x.length = 3) ∧ (∀ x ∈ P.xmat, ∀ j ∈ x, j < P.lp.nc))
    ⟨fun h => ⟨h.1, h.2.1, h.2.2.1, h.2.2.2.1, h.2.2.2.2⟩, fun h => ⟨h.1, h.2, h.3, h.4, h.5⟩⟩

instance : Decidable (Distinct P) :=
  decidable_of_iff ((∀ q ∈ P.qmat, ∀ h ∈ q.head?, h ∉ q.tail) ∧ (∀ x ∈ P.xmat, x.Nodup))
    ⟨fun h => ⟨h.1, h.2⟩, fun h => ⟨h.1, h.2⟩⟩

end RsomeV.ShowTable
