import RsomeV.M.ConeDual
import RsomeV.M.NdArray

/-! Order-faithful model of the exponential-cone atom encodings of `gcp.Model.do_math(primal=True)`
(rsome/gcp.py l.139-256): the convex constraints of xtypes `X` (exp), `L` (log), `P` (entropy),
`F` (softplus), the perspective constraints `X` (pexp) / `L` (plog) and `KLConstr` (kldiv).

`do_math` walks `other_constr` in `st` order.  Every atom appends plain rows to `aux_constr`,
creates auxiliary columns (`P`: one per entry, `F`: two per broadcast pair, `K`: one per scenario)
and appends `ExpConstr(expr1, expr2, expr3)` objects (`expr3 * exp(expr1/expr3) ≤ expr2`) either to
`self.exp_constr` (`X`, `L`, `F`, perspective) or to the local list `more_exp` (`P`, `K`).  The
common last step then creates three columns per cone of `exp_constr + more_exp` and the rows
`aux0 - expr1 == 0`, `aux1 - expr2 <= 0`, `aux2 - expr3 == 0`.

Executable over `ℚ`; theorems (over `ℝ`) in `RsomeV/L/AtomsExp.lean`, `RsomeV/Props/AtomsExp.lean`. -/

namespace RsomeV.AExp
open Finset

variable {K : Type} [Field K] [LinearOrder K] [IsStrictOrderedRing K]

/-! ### affine expressions over the model's columns -/

/-- one scalar affine expression `Σ_j lin j * x_j + const` (an entry of an rsome `Affine`) -/
structure Aff (K : Type) where
  lin : ℕ → K
  const : K

namespace Aff

instance : Inhabited (Aff K) := ⟨⟨fun _ => 0, 0⟩⟩

/-- value at the assignment `v`, reading the first `n` columns -/
def eval (n : ℕ) (e : Aff K) (v : ℕ → K) : K := ∑ j ∈ range n, e.lin j * v j + e.const

/-- an expression over the first `n` (user) columns: row `f` of the request, constant `c` -/
def ofRow (n : ℕ) (f : ℕ → K) (c : K) : Aff K := ⟨fun j => if j < n then f j else 0, c⟩

/-- the single column `j` (an entry of a `Vars` object) -/
def var (j : ℕ) : Aff K := ⟨fun i => if i = j then 1 else 0, 0⟩

/-- a numeric constant -/
def cst (c : K) : Aff K := ⟨fun _ => 0, c⟩

/-- `vars.sum()` of the `n` consecutive columns starting at `base` -/
def sumVars (base n : ℕ) : Aff K := ⟨fun i => if base ≤ i ∧ i < base + n then 1 else 0, 0⟩

def add (e f : Aff K) : Aff K := ⟨fun j => e.lin j + f.lin j, e.const + f.const⟩
def neg (e : Aff K) : Aff K := ⟨fun j => - e.lin j, - e.const⟩
def sub (e f : Aff K) : Aff K := ⟨fun j => e.lin j - f.lin j, e.const - f.const⟩
/-- `e * t` for a number `t` -/
def smul (e : Aff K) (t : K) : Aff K := ⟨fun j => e.lin j * t, e.const * t⟩

/-- no coefficient on the columns `≥ n` -/
def SuppLt (n : ℕ) (e : Aff K) : Prop := ∀ j, n ≤ j → e.lin j = 0

end Aff

/-- one row of `aux_constr` (`LinConstr` with a single row): `lin · x (= | ≤) rhs` -/
structure ERow (K : Type) where
  lin : ℕ → K
  rhs : K
  eq  : Bool

namespace ERow

instance : Inhabited (ERow K) := ⟨⟨fun _ => 0, 0, false⟩⟩

/-- the row of the constraint `e <= 0` -/
def le0 (e : Aff K) : ERow K := ⟨e.lin, - e.const, false⟩
/-- the row of the constraint `e == 0` -/
def eq0 (e : Aff K) : ERow K := ⟨e.lin, - e.const, true⟩

/-- the row holds at `v` (columns `< n`) -/
def Holds (n : ℕ) (r : ERow K) (v : ℕ → K) : Prop :=
  if r.eq then ∑ j ∈ range n, r.lin j * v j = r.rhs else ∑ j ∈ range n, r.lin j * v j ≤ r.rhs

end ERow

/-- `ExpConstr(model, expr1, expr2, expr3)` : `expr3 * exp(expr1 / expr3) ≤ expr2` -/
structure ExpC (K : Type) where
  e1 : Aff K
  e2 : Aff K
  e3 : Aff K

/-! ### the common last step -/

/-- what `do_math` holds just before the `for constr in self.exp_constr + more_exp` loop:
`base` columns exist, `rows` are in `aux_constr`, `cones = exp_constr + more_exp` -/
structure ExpEnc (K : Type) where
  base  : ℕ
  rows  : List (ERow K)
  cones : List (ExpC K)

namespace ExpEnc

/-- the three rows of cone number `k` : `aux0 - expr1 == 0`, `aux1 - expr2 <= 0`, `aux2 - expr3 == 0`
with `aux = dvar(3, aux=True)` at columns `base + 3k ..` -/
def coneRows3 (base : ℕ) (c : ExpC K) (k : ℕ) : List (ERow K) :=
  [ERow.eq0 ((Aff.var (base + 3 * k)).sub c.e1),
   ERow.le0 ((Aff.var (base + 3 * k + 1)).sub c.e2),
   ERow.eq0 ((Aff.var (base + 3 * k + 2)).sub c.e3)]

def coneRows (E : ExpEnc K) : List (ERow K) :=
  (List.range E.cones.length).flatMap fun k => coneRows3 E.base (E.cones.getD k ⟨default, default, default⟩) k

def allRows (E : ExpEnc K) : List (ERow K) := E.rows ++ E.coneRows

/-- the `GCProg` returned by `do_math()` (no objective: cost `e_0`, all bounds infinite) -/
def prog (E : ExpEnc K) : ConeProg K :=
  let R := E.allRows
  let lp : LinProg K :=
    { nr := R.length
      nc := E.base + 3 * E.cones.length
      a := fun i j => (R.getD i default).lin j
      b := fun i => (R.getD i default).rhs
      eq := fun i => (R.getD i default).eq
      ub := fun _ => none
      lb := fun _ => none
      c := fun j => if j = 0 then 1 else 0 }
  { lp := lp
    st := fun i j => decide (lp.a i j ≠ 0)
    qmat := []
    xmat := (List.range E.cones.length).map fun k => [E.base + 3 * k, E.base + 3 * k + 1, E.base + 3 * k + 2] }

end ExpEnc

/-! ### `rso_broadcast` -/

/-- `np.broadcast(*indices)` of index arrays of the given shapes: for every position of the
broadcast shape (C order) the flat index read in each array (`[]` when NumPy raises) -/
def bcastIdx (shapes : List (List ℕ)) : List (List ℕ) :=
  match shapes.foldl (fun acc s => acc.bind fun a => Nd.broadcastShapes a s) (some []) with
  | none => []
  | some out => (List.range (Nd.size out)).map fun k => shapes.map fun s => Nd.bcastFlat s out k

/-! ### the atoms -/

/-- a `CvxConstr` `mult * f(affine_in) + affine_out <= 0` : flattened entries and array shapes -/
structure CvxReq (K : Type) where
  mult : K
  ain  : List (Aff K)
  aout : List (Aff K)
  inShape  : List ℕ
  outShape : List ℕ

/-- a `PCvxConstr` : additionally `affine_scale` -/
structure PCvxReq (K : Type) extends CvxReq K where
  ascale  : List (Aff K)
  scShape : List ℕ

/-- a `KLConstr(p, phat, r)` with numeric `phat`, `r` -/
structure KLReq (K : Type) where
  p    : List (Aff K)
  phat : List K
  r    : K

inductive Atom (K : Type) where
  | exp (R : CvxReq K)
  | log (R : CvxReq K)
  | entropy (R : CvxReq K)
  | softplus (R : CvxReq K)
  | pexp (R : PCvxReq K)
  | plog (R : PCvxReq K)
  | kl (R : KLReq K)

namespace CvxReq
/-- `affine_out * (1/multiplier)`, entry `i` -/
def outDiv (R : CvxReq K) (i : ℕ) : Aff K := (R.aout.getD i default).smul (1 / R.mult)
def inAt (R : CvxReq K) (i : ℕ) : Aff K := R.ain.getD i default
/-- `rso_broadcast(affine_in, affine_out)` as index pairs -/
def pairs (R : CvxReq K) : List (List ℕ) := bcastIdx [R.inShape, R.outShape]
end CvxReq

namespace PCvxReq
def scAt (R : PCvxReq K) (i : ℕ) : Aff K := R.ascale.getD i default
/-- `rso_broadcast(affine_in, affine_scale, affine_out)` as index triples -/
def triples (R : PCvxReq K) : List (List ℕ) := bcastIdx [R.inShape, R.scShape, R.outShape]
end PCvxReq

/-- the mutable state of `do_math` while it walks `other_constr` -/
structure EncSt (K : Type) where
  last : ℕ
  rows : List (ERow K)
  expC : List (ExpC K)   -- `self.exp_constr`
  more : List (ExpC K)   -- `more_exp`

/-- one iteration of `for constr in self.other_constr + more_others` -/
def EncSt.step (s : EncSt K) : Atom K → EncSt K
  | .exp R =>
    { s with expC := s.expC ++ R.pairs.map fun p =>
        ⟨R.inAt (p.getD 0 0), (R.outDiv (p.getD 1 0)).neg, Aff.cst 1⟩ }
  | .log R =>
    { s with expC := s.expC ++ R.pairs.map fun p =>
        ⟨R.outDiv (p.getD 1 0), R.inAt (p.getD 0 0), Aff.cst 1⟩ }
  | .entropy R =>
    let ns := R.ain.length
    { last := s.last + ns
      rows := s.rows ++ (List.range R.aout.length).map fun i =>
        ERow.le0 ((R.outDiv i).sub (Aff.sumVars s.last ns))       -- `aux_var.sum() >= affine_out`
      expC := s.expC
      more := s.more ++ (List.range ns).map fun t =>
        ⟨Aff.var (s.last + t), Aff.cst 1, R.inAt t⟩ }
  | .softplus R =>
    let ps := R.pairs
    let ns := ps.length
    { last := s.last + 2 * ns
      rows := s.rows ++ (List.range ns).map fun t =>
        ERow.le0 (((Aff.var (s.last + 2 * t)).add (Aff.var (s.last + 2 * t + 1))).sub (Aff.cst 1))
      expC := s.expC ++ (List.range ns).flatMap fun t =>
        let p := ps.getD t []
        [⟨(R.inAt (p.getD 0 0)).add (R.outDiv (p.getD 1 0)), Aff.var (s.last + 2 * t), Aff.cst 1⟩,
         ⟨R.outDiv (p.getD 1 0), Aff.var (s.last + 2 * t + 1), Aff.cst 1⟩]
      more := s.more }
  | .pexp R =>
    { s with expC := s.expC ++ R.triples.map fun p =>
        ⟨R.inAt (p.getD 0 0), (R.outDiv (p.getD 2 0)).neg, R.scAt (p.getD 1 0)⟩ }
  | .plog R =>
    { s with expC := s.expC ++ R.triples.map fun p =>
        ⟨R.outDiv (p.getD 2 0), R.inAt (p.getD 0 0), R.scAt (p.getD 1 0)⟩ }
  | .kl R =>
    let ns := R.p.length
    { last := s.last + ns
      rows := s.rows ++ [ERow.le0 ((Aff.sumVars s.last ns).sub (Aff.cst R.r))]   -- `aux_var.sum() <= r`
      expC := s.expC
      more := s.more ++ (List.range ns).map fun t =>
        let q := 1 / R.phat.getD t 0
        -- `aux[s]*(1/ps) >= -(p*(1/ps)).entropy()` : affine_out = -aux[s]*(1/ps), affine_in = p*(1/ps)
        ⟨((Aff.var (s.last + t)).smul q).neg, Aff.cst 1, (R.p.getD t default).smul q⟩ }

/-- state at the end of the walk, ready for the common step -/
def EncSt.finish (s : EncSt K) : ExpEnc K := ⟨s.last, s.rows, s.expC ++ s.more⟩

/-- `do_math` of a model with `ncols` columns (epigraph column + user columns) whose
`other_constr` is `atoms` -/
def encodeAtoms (ncols : ℕ) (atoms : List (Atom K)) : ExpEnc K :=
  (atoms.foldl EncSt.step ⟨ncols, [], [], []⟩).finish

/-- a single atom constraint -/
def encodeAtom (ncols : ℕ) (a : Atom K) : ExpEnc K := encodeAtoms ncols [a]

end RsomeV.AExp
