import RsomeV.M.IPCone
import Mathlib.Tactic.Linarith
import Mathlib.Tactic.Ring
import Mathlib.Tactic.Positivity
import Mathlib.Algebra.Order.Field.Basic
import Mathlib.Algebra.Order.Ring.Abs
import Mathlib.Data.List.GetD
import Mathlib.Algebra.BigOperators.Group.Finset.Basic

/-! Lemmas for the `IPCone` tower model: list arithmetic of the branch parameters, well-formedness
preservation, fuel, semantics (soundness / completeness). -/

set_option linter.unusedSectionVars false
set_option linter.unusedSimpArgs false
set_option linter.unusedVariables false

namespace RsomeV.IPC

/-! ### `maxL`, `argmax` -/

lemma le_maxL {β : List ℕ} {b : ℕ} (h : b ∈ β) : b ≤ maxL β := by
  induction β with
  | nil => simp at h
  | cons a t ih =>
    simp only [maxL, List.foldr_cons]
    rcases List.mem_cons.mp h with rfl | h
    · exact le_max_left _ _
    · exact le_trans (ih h) (le_max_right _ _)

lemma maxL_mem {β : List ℕ} (h : β ≠ []) : maxL β ∈ β := by
  induction β with
  | nil => exact absurd rfl h
  | cons a t ih =>
    simp only [maxL, List.foldr_cons]
    by_cases ht : t = []
    · subst ht; simp
    · have := ih ht
      rcases max_cases a (List.foldr max 0 t) with ⟨h1, _⟩ | ⟨h1, _⟩
      · rw [h1]; exact List.mem_cons_self
      · rw [h1]; exact List.mem_cons_of_mem _ this

lemma argmax_lt {β : List ℕ} (h : β ≠ []) : argmax β < β.length :=
  List.idxOf_lt_length_of_mem (maxL_mem h)

lemma getD_argmax {β : List ℕ} (h : β ≠ []) : β.getD (argmax β) 0 = maxL β := by
  have hl := argmax_lt h
  rw [List.getD_eq_getElem _ _ hl]
  exact List.getElem_idxOf hl

/-! ### sums of `take` / `drop` -/

lemma sum_take_add_drop (β : List ℕ) (i : ℕ) : (β.take i).sum + (β.drop i).sum = β.sum := by
  rw [← List.sum_append, List.take_append_drop]

lemma sum_split_at {β : List ℕ} {i : ℕ} (h : i < β.length) :
    β.sum = (β.take i).sum + (β.getD i 0 + (β.drop (i + 1)).sum) := by
  rw [← sum_take_add_drop β i, List.drop_eq_getElem_cons h, List.sum_cons,
    List.getD_eq_getElem _ _ h]

lemma mem_split_at {α : Type} {R : List α} {i : ℕ} (h : i < R.length) (d : α) :
    R = R.take i ++ R.getD i d :: R.drop (i + 1) := by
  rw [List.getD_eq_getElem _ _ h, ← List.drop_eq_getElem_cons h, List.take_append_drop]

/-! ### `cumIdx` -/

lemma cumIdx_spec (D : ℕ) : ∀ (β : List ℕ) (acc : ℕ), 2 * acc < D → D ≤ 2 * (acc + β.sum) →
    cumIdx D β acc < β.length ∧
    2 * (acc + (β.take (cumIdx D β acc)).sum) < D ∧
    D ≤ 2 * (acc + (β.take (cumIdx D β acc)).sum + β.getD (cumIdx D β acc) 0) := by
  intro β
  induction β with
  | nil => intro acc h1 h2; simp at h2; omega
  | cons b t ih =>
    intro acc h1 h2
    simp only [cumIdx]
    split_ifs with hc
    · simp; omega
    · have h3 : 2 * (acc + b) < D := by omega
      have h4 : D ≤ 2 * (acc + b + t.sum) := by simp at h2; omega
      obtain ⟨i1, i2, i3⟩ := ih (acc + b) h3 h4
      refine ⟨by simp; omega, ?_, ?_⟩
      · simp only [List.take_succ_cons, List.sum_cons]; omega
      · simp only [List.take_succ_cons, List.sum_cons, List.getD_cons_succ]; omega

/-! ### well-formed weight vectors and the parameters of the recursive calls -/

/-- at least two weights, all `≥ 1` (what `to_soc` hands to `split`) -/
structure WF (β : List ℕ) : Prop where
  len : 2 ≤ β.length
  pos : ∀ b ∈ β, 1 ≤ b

lemma WF.ne_nil {β : List ℕ} (h : WF β) : β ≠ [] := by
  intro e; have := h.len; simp [e] at this

lemma WF.two_le_sum {β : List ℕ} (h : WF β) : 2 ≤ β.sum :=
  le_trans h.len (List.length_le_sum_of_one_le β h.pos)

lemma two_pow_succ_div (m : ℕ) : 2 ^ (m + 1) / 2 = 2 ^ m := by
  rw [pow_succ]; exact Nat.mul_div_cancel _ (by norm_num)

/-- facts about the branch `max(beta) >= degree/2` -/
lemma case2_facts {β : List ℕ} {m : ℕ} (hw : WF β) (hs : β.sum = 2 ^ (m + 1))
    (hp : ¬ isPair β) (hc : β.sum ≤ 2 * maxL β) :
    argmax β < β.length ∧ β.getD (argmax β) 0 = mid2 β + 2 ^ m ∧
    WF (beta2 β) ∧ (beta2 β).sum = 2 ^ m ∧
    ∀ R : List Var, R.length = β.length → (right2 β R).length = (beta2 β).length := by
  have hi := argmax_lt hw.ne_nil
  have hb := getD_argmax hw.ne_nil
  have hsplit := sum_split_at hi
  have hD : β.sum / 2 = 2 ^ m := by rw [hs]; exact two_pow_succ_div m
  have hD2 : β.sum = 2 * 2 ^ m := by rw [hs, pow_succ]; ring
  have hge : 2 ^ m ≤ β.getD (argmax β) 0 := by rw [hb]; omega
  have hmid : mid2 β = β.getD (argmax β) 0 - 2 ^ m := by simp [mid2, hD]
  have hlen3 : mid2 β = 0 → 3 ≤ β.length := by
    intro h0
    by_contra hlt
    have h2 : β.length = 2 := by have := hw.len; omega
    obtain ⟨a, b, rfl⟩ := List.length_eq_two.mp h2
    have ha : a ≤ maxL [a, b] := le_maxL (by simp)
    have hb' : b ≤ maxL [a, b] := le_maxL (by simp)
    apply hp
    refine ⟨rfl, ?_⟩
    simp at hD2 ⊢
    omega
  have hlt : (β.take (argmax β)).length = argmax β := by simp; omega
  have hld : (β.drop (argmax β + 1)).length = β.length - (argmax β + 1) := by simp
  refine ⟨hi, by omega, ⟨?_, ?_⟩, ?_, ?_⟩
  · simp only [beta2, List.length_append, hlt, hld]
    split_ifs with h0
    · have := hlen3 h0; simp; omega
    · have := hw.len; simp; omega
  · intro b hb
    simp only [beta2, List.mem_append] at hb
    rcases hb with hb | hb | hb
    · exact hw.pos b (List.mem_of_mem_take hb)
    · split_ifs at hb with h0
      · simp at hb
      · simp at hb; omega
    · exact hw.pos b (List.mem_of_mem_drop hb)
  · simp only [beta2, List.sum_append]
    split_ifs with h0
    · simp; omega
    · simp; omega
  · intro R hR
    simp only [right2, beta2, List.length_append, hlt, hld]
    split_ifs with h1 h2 h2
    · omega
    · simp; omega
    · simp; omega
    · omega

/-- facts about the cumulative branch -/
lemma case3_facts {β : List ℕ} {m : ℕ} (hw : WF β) (hs : β.sum = 2 ^ (m + 1))
    (hc : ¬ β.sum ≤ 2 * maxL β) :
    idx3 β < β.length ∧ mid3 β ≤ β.getD (idx3 β) 0 ∧ 1 ≤ mid3 β ∧
    WF (beta3a β) ∧ (beta3a β).sum = 2 ^ m ∧ WF (beta3b β) ∧ (beta3b β).sum = 2 ^ m ∧
    ∀ R : List Var, R.length = β.length →
      (right3a β R).length = (beta3a β).length ∧ (right3b β R).length = (beta3b β).length := by
  have hD : β.sum / 2 = 2 ^ m := by rw [hs]; exact two_pow_succ_div m
  have hD2 : β.sum = 2 * 2 ^ m := by rw [hs, pow_succ]; ring
  have hpos : 0 < 2 ^ m := Nat.pos_of_ne_zero (by positivity)
  obtain ⟨hi, h1, h2⟩ := cumIdx_spec β.sum β 0 (by omega) (by omega)
  change idx3 β < β.length at hi
  change 2 * (0 + (β.take (idx3 β)).sum) < β.sum at h1
  change β.sum ≤ 2 * (0 + (β.take (idx3 β)).sum + β.getD (idx3 β) 0) at h2
  have hsplit := sum_split_at hi
  have hbi : β.getD (idx3 β) 0 ≤ maxL β := by
    rw [List.getD_eq_getElem _ _ hi]; exact le_maxL (List.getElem_mem hi)
  have hmid : mid3 β = 2 ^ m - (β.take (idx3 β)).sum := by simp [mid3, hD]
  have hi1 : 1 ≤ idx3 β := by
    by_contra h0
    have : idx3 β = 0 := by omega
    rw [this] at h2 hbi; simp only [List.take_zero, List.sum_nil] at h2; omega
  have hlt : (β.take (idx3 β)).length = idx3 β := by simp; omega
  have hld : (β.drop (idx3 β + 1)).length = β.length - (idx3 β + 1) := by simp
  have hdropM : ∀ b ∈ β.drop (idx3 β + 1), b ≤ maxL β := fun b hb => le_maxL (List.mem_of_mem_drop hb)
  have hdsum := List.sum_le_card_nsmul (β.drop (idx3 β + 1)) (maxL β) hdropM
  simp only [nsmul_eq_mul, Nat.cast_id] at hdsum
  refine ⟨hi, by omega, by omega, ⟨?_, ?_⟩, ?_, ⟨?_, ?_⟩, ?_, ?_⟩
  · simp [beta3a, hlt]; omega
  · intro b hb
    simp only [beta3a, List.mem_append, List.mem_singleton] at hb
    rcases hb with hb | hb
    · exact hw.pos b (List.mem_of_mem_take hb)
    · omega
  · simp [beta3a]; omega
  · simp only [beta3b]
    split_ifs with he
    · by_contra hlt2
      have : (β.drop (idx3 β + 1)).length ≤ 1 := by omega
      have : (β.drop (idx3 β + 1)).length * maxL β ≤ maxL β := by
        calc _ ≤ 1 * maxL β := Nat.mul_le_mul_right _ this
          _ = maxL β := one_mul _
      omega
    · by_contra hlt2
      have h0 : (β.drop (idx3 β + 1)).length = 0 := by simp at hlt2 ⊢; omega
      rw [h0] at hdsum
      omega
  · intro b hb
    simp only [beta3b] at hb
    split_ifs at hb with he
    · exact hw.pos b (List.mem_of_mem_drop hb)
    · rcases List.mem_cons.mp hb with rfl | hb
      · omega
      · exact hw.pos b (List.mem_of_mem_drop hb)
  · simp only [beta3b]
    split_ifs with he
    · omega
    · simp only [List.sum_cons]; omega
  · intro R hR
    simp only [right3a, right3b, beta3a, beta3b]
    constructor
    · simp [hlt]; omega
    · split_ifs with he
      · simp; omega
      · simp; omega

/-! ### unfolding `splitF` -/

lemma splitF_zero (l : Var) (R : List Var) (β : List ℕ) (n : ℕ) : splitF 0 l R β n = none := rfl

lemma splitF_pair {f : ℕ} {l : Var} {R : List Var} {β : List ℕ} {n : ℕ} (hp : isPair β) :
    splitF (f + 1) l R β n = some ⟨[⟨l, R.getD 0 .x, R.getD 1 .x⟩], [], n, [β]⟩ := by
  have hne : β ≠ [] := by intro e; have := hp.1; simp [e] at this
  rw [splitF]; simp [hne, hp]

lemma splitF_case2 {f : ℕ} {l : Var} {R : List Var} {β : List ℕ} {n : ℕ} (hne : β ≠ [])
    (hp : ¬ isPair β) (hc : β.sum ≤ 2 * maxL β) :
    splitF (f + 1) l R β n =
      match splitF f (.aux n) (right2 β R) (beta2 β) (n + 1) with
      | none => none
      | some r1 => some ⟨⟨l, .aux n, R.getD (argmax β) .x⟩ :: r1.cones, true :: r1.flags, r1.next,
          β :: r1.calls⟩ := by
  rw [splitF]; simp only [if_neg hne, if_neg hp, if_pos hc]
  cases splitF f (.aux n) (right2 β R) (beta2 β) (n + 1) <;> rfl

lemma splitF_case3 {f : ℕ} {l : Var} {R : List Var} {β : List ℕ} {n : ℕ} (hne : β ≠ [])
    (hp : ¬ isPair β) (hc : ¬ β.sum ≤ 2 * maxL β) :
    splitF (f + 1) l R β n =
      match splitF f (.aux n) (right3a β R) (beta3a β) (n + 2) with
      | none => none
      | some r1 =>
        match splitF f (.aux (n + 1)) (right3b β R) (beta3b β) r1.next with
        | none => none
        | some r2 => some ⟨⟨l, .aux n, .aux (n + 1)⟩ :: (r1.cones ++ r2.cones),
            true :: true :: (r1.flags ++ r2.flags), r2.next, β :: (r1.calls ++ r2.calls)⟩ := by
  rw [splitF]; simp only [if_neg hne, if_neg hp, if_neg hc]
  cases splitF f (.aux n) (right3a β R) (beta3a β) (n + 2) with
  | none => rfl
  | some r1 =>
    simp only []
    cases splitF f (.aux (n + 1)) (right3b β R) (beta3b β) r1.next <;> rfl

/-- inversion of a successful `splitF` call -/
lemma splitF_inv {f : ℕ} {l : Var} {R : List Var} {β : List ℕ} {n : ℕ} {res : SplitRes}
    (h : splitF (f + 1) l R β n = some res) :
    (isPair β ∧ res = ⟨[⟨l, R.getD 0 .x, R.getD 1 .x⟩], [], n, [β]⟩) ∨
    (β ≠ [] ∧ ¬ isPair β ∧ β.sum ≤ 2 * maxL β ∧ ∃ r1,
      splitF f (.aux n) (right2 β R) (beta2 β) (n + 1) = some r1 ∧
      res = ⟨⟨l, .aux n, R.getD (argmax β) .x⟩ :: r1.cones, true :: r1.flags, r1.next,
        β :: r1.calls⟩) ∨
    (β ≠ [] ∧ ¬ isPair β ∧ ¬ β.sum ≤ 2 * maxL β ∧ ∃ r1 r2,
      splitF f (.aux n) (right3a β R) (beta3a β) (n + 2) = some r1 ∧
      splitF f (.aux (n + 1)) (right3b β R) (beta3b β) r1.next = some r2 ∧
      res = ⟨⟨l, .aux n, .aux (n + 1)⟩ :: (r1.cones ++ r2.cones),
        true :: true :: (r1.flags ++ r2.flags), r2.next, β :: (r1.calls ++ r2.calls)⟩) := by
  by_cases hne : β = []
  · rw [splitF] at h; simp [hne] at h
  by_cases hp : isPair β
  · left; rw [splitF_pair hp] at h; exact ⟨hp, (Option.some.inj h).symm⟩
  by_cases hc : β.sum ≤ 2 * maxL β
  · right; left
    rw [splitF_case2 hne hp hc] at h
    cases h1 : splitF f (.aux n) (right2 β R) (beta2 β) (n + 1) with
    | none => rw [h1] at h; simp at h
    | some r1 => rw [h1] at h; exact ⟨hne, hp, hc, r1, rfl, (Option.some.inj h).symm⟩
  · right; right
    rw [splitF_case3 hne hp hc] at h
    cases h1 : splitF f (.aux n) (right3a β R) (beta3a β) (n + 2) with
    | none => rw [h1] at h; simp at h
    | some r1 =>
      rw [h1] at h
      cases h2 : splitF f (.aux (n + 1)) (right3b β R) (beta3b β) r1.next with
      | none => simp only [h2] at h; simp at h
      | some r2 =>
        simp only [h2] at h
        exact ⟨hne, hp, hc, r1, r2, rfl, h2, (Option.some.inj h).symm⟩

/-! ### fuel -/

/-- more fuel does not change a result -/
lemma splitF_mono_succ : ∀ (f : ℕ) (l : Var) (R : List Var) (β : List ℕ) (n : ℕ) (res : SplitRes),
    splitF f l R β n = some res → splitF (f + 1) l R β n = some res := by
  intro f
  induction f with
  | zero => intro l R β n res h; simp [splitF_zero] at h
  | succ f ih =>
    intro l R β n res h
    rcases splitF_inv h with ⟨hp, rfl⟩ | ⟨hne, hp, hc, r1, h1, rfl⟩ | ⟨hne, hp, hc, r1, r2, h1, h2, rfl⟩
    · exact splitF_pair hp
    · rw [splitF_case2 hne hp hc, ih _ _ _ _ _ h1]
    · rw [splitF_case3 hne hp hc, ih _ _ _ _ _ h1]; simp only [ih _ _ _ _ _ h2]

lemma splitF_mono {f f' : ℕ} (hf : f ≤ f') {l : Var} {R : List Var} {β : List ℕ} {n : ℕ}
    {res : SplitRes} (h : splitF f l R β n = some res) : splitF f' l R β n = some res := by
  induction hf with
  | refl => exact h
  | step _ ih => exact splitF_mono_succ _ _ _ _ _ _ ih

lemma two_le_two_pow {m : ℕ} (h : 2 ≤ 2 ^ m) : ∃ m', m = m' + 1 := by
  cases m with
  | zero => simp at h
  | succ m' => exact ⟨m', rfl⟩

/-- on a well-formed weight vector of total `2^(m+1)` fuel `m+1` suffices -/
lemma splitF_isSome : ∀ (f m : ℕ) (l : Var) (R : List Var) (β : List ℕ) (n : ℕ),
    WF β → β.sum = 2 ^ (m + 1) → m + 1 ≤ f → ∃ res, splitF f l R β n = some res := by
  intro f
  induction f with
  | zero => intro m l R β n _ _ h; omega
  | succ f ih =>
    intro m l R β n hw hs hf
    by_cases hp : isPair β
    · exact ⟨_, splitF_pair hp⟩
    by_cases hc : β.sum ≤ 2 * maxL β
    · obtain ⟨_, _, hw1, hs1, _⟩ := case2_facts hw hs hp hc
      obtain ⟨m', rfl⟩ := two_le_two_pow (hs1 ▸ hw1.two_le_sum)
      obtain ⟨r1, h1⟩ := ih m' (.aux n) (right2 β R) (beta2 β) (n + 1) hw1 hs1 (by omega)
      rw [splitF_case2 hw.ne_nil hp hc, h1]; exact ⟨_, rfl⟩
    · obtain ⟨_, _, _, hw1, hs1, hw2, hs2, _⟩ := case3_facts hw hs hc
      obtain ⟨m', rfl⟩ := two_le_two_pow (hs1 ▸ hw1.two_le_sum)
      obtain ⟨r1, h1⟩ := ih m' (.aux n) (right3a β R) (beta3a β) (n + 2) hw1 hs1 (by omega)
      obtain ⟨r2, h2⟩ := ih m' (.aux (n + 1)) (right3b β R) (beta3b β) r1.next hw2 hs2 (by omega)
      rw [splitF_case3 hw.ne_nil hp hc, h1]; simp only [h2]; exact ⟨_, rfl⟩

/-- `split` does not return on a singleton weight vector, whatever the fuel: the recursion
`[b] → [b - b//2] → …` never reaches a pair (for `b = 0` it reaches `[]`, where `max([])` raises) -/
lemma splitF_singleton : ∀ (f : ℕ) (l r : Var) (b n : ℕ), splitF f l [r] [b] n = none := by
  intro f
  induction f with
  | zero => intros; rfl
  | succ f ih =>
    intro l r b n
    have hne : [b] ≠ [] := by simp
    have hp : ¬ isPair [b] := by intro h; have := h.1; simp at this
    have hm : maxL [b] = b := by simp [maxL]
    have hc : [b].sum ≤ 2 * maxL [b] := by rw [hm]; simp; omega
    have ha : argmax [b] = 0 := by simp [argmax, hm]
    rw [splitF_case2 hne hp hc]
    by_cases h0 : mid2 [b] = 0
    · have hb : beta2 [b] = [] := by simp [beta2, ha, h0]
      rw [hb]
      cases f with
      | zero => rfl
      | succ f => rw [splitF]; simp
    · have hb : beta2 [b] = [mid2 [b]] := by simp [beta2, ha, h0]
      have hr : right2 [b] [r] = [r] := by simp [right2, Nat.pos_of_ne_zero h0]
      rw [hb, hr, ih]

/-! ### `prodPow` -/

section Sem
variable {K : Type} [Field K] [LinearOrder K] [IsStrictOrderedRing K]

lemma prodPow_nonneg (ρ : Var → K) : ∀ (R : List Var) (B : List ℕ), (∀ v ∈ R, 0 ≤ ρ v) →
    0 ≤ prodPow ρ R B
  | [], _, _ => by simp [prodPow]
  | _ :: _, [], _ => by simp [prodPow]
  | v :: vs, b :: bs, h => by
    simp only [prodPow]
    exact mul_nonneg (pow_nonneg (h v List.mem_cons_self) _)
      (prodPow_nonneg ρ vs bs fun w hw => h w (List.mem_cons_of_mem _ hw))

lemma prodPow_congr {ρ ρ' : Var → K} : ∀ (R : List Var) (B : List ℕ), (∀ v ∈ R, ρ v = ρ' v) →
    prodPow ρ R B = prodPow ρ' R B
  | [], _, _ => by simp [prodPow]
  | _ :: _, [], _ => by simp [prodPow]
  | v :: vs, b :: bs, h => by
    simp only [prodPow]
    rw [h v List.mem_cons_self, prodPow_congr vs bs fun w hw => h w (List.mem_cons_of_mem _ hw)]

lemma prodPow_append (ρ : Var → K) : ∀ (R1 : List Var) (B1 : List ℕ) (R2 : List Var) (B2 : List ℕ),
    R1.length = B1.length → prodPow ρ (R1 ++ R2) (B1 ++ B2) = prodPow ρ R1 B1 * prodPow ρ R2 B2
  | [], [], _, _, _ => by simp [prodPow]
  | [], _ :: _, _, _, h => by simp at h
  | _ :: _, [], _, _, h => by simp at h
  | v :: vs, b :: bs, R2, B2, h => by
    simp only [List.cons_append, prodPow]
    rw [prodPow_append ρ vs bs R2 B2 (by simpa using h)]; ring

lemma prodPow_split_at (ρ : Var → K) {R : List Var} {B : List ℕ} {i : ℕ} (hl : R.length = B.length)
    (hi : i < B.length) :
    prodPow ρ R B = prodPow ρ (R.take i) (B.take i) *
      (ρ (R.getD i .x) ^ (B.getD i 0) * prodPow ρ (R.drop (i + 1)) (B.drop (i + 1))) := by
  have hR : i < R.length := by omega
  conv_lhs => rw [mem_split_at hR .x, mem_split_at hi 0]
  rw [prodPow_append ρ _ _ _ _ (by simp; omega)]
  simp only [prodPow]

lemma prodPow_case2 (ρ : Var → K) {β : List ℕ} {m : ℕ} {R : List Var} (hw : WF β)
    (hs : β.sum = 2 ^ (m + 1)) (hp : ¬ isPair β) (hc : β.sum ≤ 2 * maxL β)
    (hl : R.length = β.length) :
    prodPow ρ R β = prodPow ρ (right2 β R) (beta2 β) * ρ (R.getD (argmax β) .x) ^ (2 ^ m) := by
  obtain ⟨hi, hb, _, _, _⟩ := case2_facts hw hs hp hc
  have hlt : (R.take (argmax β)).length = (β.take (argmax β)).length := by simp; omega
  rw [prodPow_split_at ρ hl hi, hb]
  by_cases h0 : mid2 β = 0
  · simp only [right2, beta2, h0, lt_irrefl, if_false, if_true, List.nil_append, zero_add]
    rw [prodPow_append ρ _ _ _ _ hlt]; ring
  · have hpos : 0 < mid2 β := Nat.pos_of_ne_zero h0
    simp only [right2, beta2, h0, hpos, if_false, if_true, List.singleton_append]
    have hR : argmax β < R.length := by omega
    have key : prodPow ρ R (β.take (argmax β) ++ mid2 β :: β.drop (argmax β + 1)) =
        prodPow ρ (R.take (argmax β)) (β.take (argmax β)) *
          (ρ (R.getD (argmax β) .x) ^ mid2 β *
            prodPow ρ (R.drop (argmax β + 1)) (β.drop (argmax β + 1))) := by
      conv_lhs => rw [mem_split_at hR .x]
      rw [prodPow_append ρ _ _ _ _ hlt]
      simp only [prodPow]
    rw [key, pow_add]; ring

lemma prodPow_case3 (ρ : Var → K) {β : List ℕ} {m : ℕ} {R : List Var} (hw : WF β)
    (hs : β.sum = 2 ^ (m + 1)) (hc : ¬ β.sum ≤ 2 * maxL β) (hl : R.length = β.length) :
    prodPow ρ R β = prodPow ρ (right3a β R) (beta3a β) * prodPow ρ (right3b β R) (beta3b β) := by
  obtain ⟨hi, hle, _, _, _, _, _, _⟩ := case3_facts hw hs hc
  have hR : idx3 β < R.length := by omega
  have hlt : (R.take (idx3 β)).length = (β.take (idx3 β)).length := by simp; omega
  have h3a : right3a β R = R.take (idx3 β) ++ [R.getD (idx3 β) .x] := by
    rw [right3a, List.take_succ_eq_append_getElem hR, List.getD_eq_getElem _ _ hR]
  rw [prodPow_split_at ρ hl hi, h3a, beta3a, prodPow_append ρ _ _ _ _ hlt]
  simp only [prodPow, mul_one]
  by_cases he : mid3 β = β.getD (idx3 β) 0
  · simp only [right3b, beta3b, he, if_true]; ring
  · simp only [right3b, beta3b, he, if_false]
    rw [List.drop_eq_getElem_cons hR, ← List.getD_eq_getElem _ .x hR]
    simp only [prodPow]
    have : β.getD (idx3 β) 0 = mid3 β + (β.getD (idx3 β) 0 - mid3 β) := by omega
    conv_lhs => rw [this, pow_add]
    ring

/-! ### membership in the sub-lists of the recursive calls -/

lemma mem_right2 {β : List ℕ} {R : List Var} {v : Var} (h : v ∈ right2 β R) : v ∈ R := by
  simp only [right2] at h
  split_ifs at h
  · exact h
  · rcases List.mem_append.mp h with h | h
    · exact List.mem_of_mem_take h
    · exact List.mem_of_mem_drop h

lemma mem_right3a {β : List ℕ} {R : List Var} {v : Var} (h : v ∈ right3a β R) : v ∈ R :=
  List.mem_of_mem_take h

lemma mem_right3b {β : List ℕ} {R : List Var} {v : Var} (h : v ∈ right3b β R) : v ∈ R := by
  simp only [right3b] at h
  split_ifs at h <;> exact List.mem_of_mem_drop h

lemma mem_cases2 {β : List ℕ} {R : List Var} {v : Var} (hi : argmax β < R.length) (h : v ∈ R) :
    v ∈ right2 β R ∨ v = R.getD (argmax β) .x := by
  simp only [right2]
  split_ifs
  · exact Or.inl h
  · rw [mem_split_at hi .x] at h
    rcases List.mem_append.mp h with h | h
    · exact Or.inl (List.mem_append_left _ h)
    · rcases List.mem_cons.mp h with h | h
      · exact Or.inr h
      · exact Or.inl (List.mem_append_right _ h)

lemma mem_cases3 {β : List ℕ} {R : List Var} {v : Var} (h : v ∈ R) :
    v ∈ right3a β R ∨ v ∈ right3b β R := by
  rw [← List.take_append_drop (idx3 β + 1) R] at h
  rcases List.mem_append.mp h with h | h
  · exact Or.inl h
  · right
    simp only [right3b]
    split_ifs
    · exact h
    · exact List.mem_of_mem_drop (i := 1) (by rwa [List.drop_drop])

lemma getD_mem_or {R : List Var} {i : ℕ} (hi : i < R.length) : R.getD i .x ∈ R := by
  rw [List.getD_eq_getElem _ _ hi]; exact List.getElem_mem hi

/-! ### soundness of `split` -/

lemma pow_step {x u v P Q : K} {h : ℕ} (hc : x ^ 2 ≤ u * v) (hu : 0 ≤ u) (hv : 0 ≤ v)
    (hP : u ^ h ≤ P) (hQ : v ^ h ≤ Q) : |x| ^ (2 * h) ≤ P * Q := by
  calc |x| ^ (2 * h) = (x ^ 2) ^ h := by rw [pow_mul, sq_abs]
    _ ≤ (u * v) ^ h := pow_le_pow_left₀ (sq_nonneg x) hc h
    _ = u ^ h * v ^ h := mul_pow u v h
    _ ≤ P * Q := mul_le_mul hP hQ (pow_nonneg hv h) (le_trans (pow_nonneg hu h) hP)

theorem split_sound (ρ : Var → K) : ∀ (f m : ℕ) (l : Var) (R : List Var) (β : List ℕ) (n : ℕ)
    (res : SplitRes), splitF f l R β n = some res → WF β → β.sum = 2 ^ (m + 1) →
    R.length = β.length → (∀ c ∈ res.cones, c.holds ρ) →
    (∀ v ∈ R, 0 ≤ ρ v) ∧ |ρ l| ^ (2 ^ (m + 1)) ≤ prodPow ρ R β := by
  intro f
  induction f with
  | zero => intro m l R β n res h; simp [splitF_zero] at h
  | succ f ih =>
    intro m l R β n res h hw hs hl hcones
    have h2m : (2 : ℕ) ^ (m + 1) = 2 * 2 ^ m := by rw [pow_succ]; ring
    rcases splitF_inv h with ⟨hp, rfl⟩ | ⟨hne, hp, hc, r1, h1, rfl⟩ | ⟨hne, hp, hc, r1, r2, h1, h2, rfl⟩
    · -- pair
      obtain ⟨a, b, rfl⟩ := List.length_eq_two.mp hp.1
      obtain ⟨r0, r1, rfl⟩ := List.length_eq_two.mp (show R.length = 2 by rw [hl]; rfl)
      have hab : a = b := by simpa using hp.2
      subst hab
      have ha : a = 2 ^ m := by simp at hs; omega
      have hc := hcones _ List.mem_cons_self
      simp only [RCone.holds, List.getD_cons_zero, List.getD_cons_succ] at hc
      obtain ⟨hc1, hc2, hc3⟩ := hc
      refine ⟨?_, ?_⟩
      · intro v hv
        simp only [List.mem_cons, List.not_mem_nil, or_false] at hv
        rcases hv with rfl | rfl <;> assumption
      · simp only [prodPow, mul_one]
        rw [h2m, ← ha]
        exact pow_step hc1 hc2 hc3 le_rfl le_rfl
    · -- max branch
      obtain ⟨hi, hb, hw1, hs1, hl1⟩ := case2_facts hw hs hp hc
      obtain ⟨m', rfl⟩ := two_le_two_pow (hs1 ▸ hw1.two_le_sum)
      have htop := hcones _ List.mem_cons_self
      obtain ⟨hc1, hc2, hc3⟩ := htop
      simp only at hc1 hc2 hc3
      obtain ⟨hnn, hpw⟩ := ih m' (.aux n) _ _ _ r1 h1 hw1 hs1 (hl1 R hl)
        (fun c hc => hcones c (List.mem_cons_of_mem _ hc))
      rw [abs_of_nonneg hc2] at hpw
      refine ⟨?_, ?_⟩
      · intro v hv
        rcases mem_cases2 (β := β) (by omega) hv with hv | rfl
        · exact hnn v hv
        · exact hc3
      · rw [prodPow_case2 ρ hw hs hp hc hl, h2m]
        exact pow_step hc1 hc2 hc3 hpw le_rfl
    · -- cumulative branch
      obtain ⟨hi, hle, hmid, hw1, hs1, hw2, hs2, hl12⟩ := case3_facts hw hs hc
      obtain ⟨hl1, hl2⟩ := hl12 R hl
      obtain ⟨m', rfl⟩ := two_le_two_pow (hs1 ▸ hw1.two_le_sum)
      have htop := hcones _ List.mem_cons_self
      obtain ⟨hc1, hc2, hc3⟩ := htop
      simp only at hc1 hc2 hc3
      obtain ⟨hnn1, hpw1⟩ := ih m' (.aux n) _ _ _ r1 h1 hw1 hs1 hl1
        (fun c hc => hcones c (List.mem_cons_of_mem _ (List.mem_append_left _ hc)))
      obtain ⟨hnn2, hpw2⟩ := ih m' (.aux (n + 1)) _ _ _ r2 h2 hw2 hs2 hl2
        (fun c hc => hcones c (List.mem_cons_of_mem _ (List.mem_append_right _ hc)))
      rw [abs_of_nonneg hc2] at hpw1
      rw [abs_of_nonneg hc3] at hpw2
      refine ⟨?_, ?_⟩
      · intro v hv
        rcases mem_cases3 (β := β) hv with hv | hv
        · exact hnn1 v hv
        · exact hnn2 v hv
      · rw [prodPow_case3 ρ hw hs hc hl, h2m]
        exact pow_step hc1 hc2 hc3 hpw1 hpw2

/-! ### freshness bookkeeping -/

lemma Var.lt_mono {v : Var} {n n' : ℕ} (h : v.lt n) (hn : n ≤ n') : v.lt n' := by
  cases v <;> simp only [Var.lt] at h ⊢; omega

lemma Var.lt_ne_aux {v : Var} {n k : ℕ} (h : v.lt n) (hn : n ≤ k) : v ≠ .aux k := by
  rintro rfl; simp only [Var.lt] at h; omega

lemma Var.lt_aux {k n : ℕ} (h : k < n) : (Var.aux k).lt n := h

/-- all three variables of the cone exist before creation index `n` -/
def RCone.lt (n : ℕ) (c : RCone) : Prop := c.left.lt n ∧ c.u.lt n ∧ c.v.lt n

lemma RCone.lt_mono {c : RCone} {n n' : ℕ} (h : c.lt n) (hn : n ≤ n') : c.lt n' :=
  ⟨Var.lt_mono h.1 hn, Var.lt_mono h.2.1 hn, Var.lt_mono h.2.2 hn⟩

lemma RCone.holds_congr {ρ ρ' : Var → K} {c : RCone} {n : ℕ} (hc : c.lt n)
    (h : ∀ v, v.lt n → ρ' v = ρ v) (hh : c.holds ρ) : c.holds ρ' := by
  unfold RCone.holds at *
  rw [h _ hc.1, h _ hc.2.1, h _ hc.2.2]; exact hh

lemma getD_lt {R : List Var} {n : ℕ} (h : ∀ v ∈ R, v.lt n) (i : ℕ) : (R.getD i .x).lt n := by
  by_cases hi : i < R.length
  · exact h _ (getD_mem_or hi)
  · rw [List.getD_eq_default _ _ (by omega)]; trivial

/-- the created indices grow, and every cone only mentions variables created so far -/
theorem split_vars : ∀ (f : ℕ) (l : Var) (R : List Var) (β : List ℕ) (n : ℕ) (res : SplitRes),
    splitF f l R β n = some res → l.lt n → (∀ v ∈ R, v.lt n) →
    n ≤ res.next ∧ ∀ c ∈ res.cones, c.lt res.next := by
  intro f
  induction f with
  | zero => intro l R β n res h; simp [splitF_zero] at h
  | succ f ih =>
    intro l R β n res h hl hR
    rcases splitF_inv h with ⟨hp, rfl⟩ | ⟨hne, hp, hc, r1, h1, rfl⟩ | ⟨hne, hp, hc, r1, r2, h1, h2, rfl⟩
    · refine ⟨le_rfl, ?_⟩
      intro c hc
      simp only [List.mem_cons, List.not_mem_nil, or_false] at hc
      subst hc
      exact ⟨hl, getD_lt hR 0, getD_lt hR 1⟩
    · obtain ⟨hn1, hc1⟩ := ih (.aux n) _ _ _ r1 h1 (Var.lt_aux (by omega))
        (fun v hv => Var.lt_mono (hR v (mem_right2 hv)) (by omega))
      refine ⟨by dsimp only; omega, ?_⟩
      intro c hc
      dsimp only at hc ⊢
      rcases List.mem_cons.mp hc with rfl | hc
      · exact ⟨Var.lt_mono hl (by omega), Var.lt_aux (by omega),
          Var.lt_mono (getD_lt hR _) (by omega)⟩
      · exact hc1 c hc
    · obtain ⟨hn1, hc1⟩ := ih (.aux n) _ _ _ r1 h1 (Var.lt_aux (by omega))
        (fun v hv => Var.lt_mono (hR v (mem_right3a hv)) (by omega))
      obtain ⟨hn2, hc2⟩ := ih (.aux (n + 1)) _ _ _ r2 h2 (Var.lt_aux (by omega))
        (fun v hv => Var.lt_mono (hR v (mem_right3b hv)) (by omega))
      refine ⟨by dsimp only; omega, ?_⟩
      intro c hc
      dsimp only at hc ⊢
      rcases List.mem_cons.mp hc with rfl | hc
      · exact ⟨Var.lt_mono hl (by omega), Var.lt_aux (by omega), Var.lt_aux (by omega)⟩
      · rcases List.mem_append.mp hc with hc | hc
        · exact RCone.lt_mono (hc1 c hc) hn2
        · exact hc2 c hc

/-! ### completeness of `split` -/

/-- the field has `k`-th roots of non-negative elements (true of `ℝ`) -/
def HasRoots (K : Type) [Field K] [LinearOrder K] : Prop :=
  ∀ (y : K) (k : ℕ), 0 ≤ y → 1 ≤ k → ∃ z : K, 0 ≤ z ∧ z ^ k = y

/-- overwrite the value of the created variable `k` -/
def upd (ρ : Var → K) (k : ℕ) (z : K) : Var → K := fun v => if v = .aux k then z else ρ v

lemma upd_same (ρ : Var → K) (k : ℕ) (z : K) : upd ρ k z (.aux k) = z := by simp [upd]

lemma upd_of_lt (ρ : Var → K) {k n : ℕ} (z : K) {v : Var} (h : v.lt n) (hn : n ≤ k) :
    upd ρ k z v = ρ v := by
  simp [upd, Var.lt_ne_aux h hn]

lemma pow_step_inv {x u v : K} {h : ℕ} (hh : h ≠ 0) (hu : 0 ≤ u) (hv : 0 ≤ v)
    (H : |x| ^ (2 * h) ≤ u ^ h * v ^ h) : x ^ 2 ≤ u * v := by
  rw [pow_mul, sq_abs, ← mul_pow] at H
  exact (pow_le_pow_iff_left₀ (sq_nonneg x) (mul_nonneg hu hv) hh).mp H

theorem split_complete (hr : HasRoots K) : ∀ (f m : ℕ) (l : Var) (R : List Var) (β : List ℕ)
    (n : ℕ) (res : SplitRes) (ρ : Var → K), splitF f l R β n = some res → WF β →
    β.sum = 2 ^ (m + 1) → R.length = β.length → l.lt n → (∀ v ∈ R, v.lt n) →
    (∀ v ∈ R, 0 ≤ ρ v) → |ρ l| ^ (2 ^ (m + 1)) ≤ prodPow ρ R β →
    ∃ ρ' : Var → K, (∀ v, v.lt n → ρ' v = ρ v) ∧ ∀ c ∈ res.cones, c.holds ρ' := by
  intro f
  induction f with
  | zero => intro m l R β n res ρ h; simp [splitF_zero] at h
  | succ f ih =>
    intro m l R β n res ρ h hw hs hl hlt hRlt hnn hpw
    have h2m : (2 : ℕ) ^ (m + 1) = 2 * 2 ^ m := by rw [pow_succ]; ring
    have h2ne : (2 : ℕ) ^ m ≠ 0 := by positivity
    rcases splitF_inv h with ⟨hp, rfl⟩ | ⟨hne, hp, hc, r1, h1, rfl⟩ | ⟨hne, hp, hc, r1, r2, h1, h2, rfl⟩
    · -- pair
      obtain ⟨a, b, rfl⟩ := List.length_eq_two.mp hp.1
      obtain ⟨r0, r1, rfl⟩ := List.length_eq_two.mp (show R.length = 2 by rw [hl]; rfl)
      have hab : a = b := by simpa using hp.2
      subst hab
      have ha : a = 2 ^ m := by simp at hs; omega
      refine ⟨ρ, fun _ _ => rfl, ?_⟩
      intro c hc
      simp only [List.mem_cons, List.not_mem_nil, or_false] at hc
      subst hc
      have h0 : 0 ≤ ρ r0 := hnn r0 (by simp)
      have h1 : 0 ≤ ρ r1 := hnn r1 (by simp)
      simp only [prodPow, mul_one] at hpw
      rw [h2m, ← ha] at hpw
      exact ⟨pow_step_inv (by omega) h0 h1 hpw, h0, h1⟩
    · -- max branch
      obtain ⟨hi, hb, hw1, hs1, hl1⟩ := case2_facts hw hs hp hc
      obtain ⟨m', rfl⟩ := two_le_two_pow (hs1 ▸ hw1.two_le_sum)
      have hP1 : 0 ≤ prodPow ρ (right2 β R) (beta2 β) :=
        prodPow_nonneg ρ _ _ fun v hv => hnn v (mem_right2 hv)
      obtain ⟨z, hz0, hz⟩ := hr _ (2 ^ (m' + 1)) hP1 (Nat.one_le_two_pow)
      have hri : 0 ≤ ρ (R.getD (argmax β) .x) := hnn _ (getD_mem_or (by omega))
      have hcongr : prodPow (upd ρ n z) (right2 β R) (beta2 β) = prodPow ρ (right2 β R) (beta2 β) :=
        prodPow_congr _ _ fun v hv => upd_of_lt ρ z (hRlt v (mem_right2 hv)) le_rfl
      obtain ⟨ρ', hag, hco⟩ := ih m' (.aux n) _ _ (n + 1) r1 (upd ρ n z) h1 hw1 hs1 (hl1 R hl)
        (Var.lt_aux (by omega)) (fun v hv => Var.lt_mono (hRlt v (mem_right2 hv)) (by omega))
        (fun v hv => by rw [upd_of_lt ρ z (hRlt v (mem_right2 hv)) le_rfl]; exact hnn v (mem_right2 hv))
        (by rw [upd_same, abs_of_nonneg hz0, hz, hcongr])
      have hag' : ∀ v, v.lt n → ρ' v = ρ v := fun v hv => by
        rw [hag v (Var.lt_mono hv (by omega)), upd_of_lt ρ z hv le_rfl]
      refine ⟨ρ', hag', ?_⟩
      intro c hmem
      rcases List.mem_cons.mp hmem with rfl | hmem
      · have e1 : ρ' (.aux n) = z := by rw [hag _ (Var.lt_aux (by omega)), upd_same]
        have e2 := hag' _ hlt
        have e3 := hag' _ (getD_lt hRlt (argmax β))
        simp only [RCone.holds, e1, e2, e3]
        refine ⟨pow_step_inv h2ne hz0 hri ?_, hz0, hri⟩
        rw [← h2m, hz, ← prodPow_case2 ρ hw hs hp hc hl]; exact hpw
      · exact hco c hmem
    · -- cumulative branch
      obtain ⟨hi, hle, hmid, hw1, hs1, hw2, hs2, hl12⟩ := case3_facts hw hs hc
      obtain ⟨hl1, hl2⟩ := hl12 R hl
      obtain ⟨m', rfl⟩ := two_le_two_pow (hs1 ▸ hw1.two_le_sum)
      have hP1 : 0 ≤ prodPow ρ (right3a β R) (beta3a β) :=
        prodPow_nonneg ρ _ _ fun v hv => hnn v (mem_right3a hv)
      have hP2 : 0 ≤ prodPow ρ (right3b β R) (beta3b β) :=
        prodPow_nonneg ρ _ _ fun v hv => hnn v (mem_right3b hv)
      obtain ⟨z1, hz10, hz1⟩ := hr _ (2 ^ (m' + 1)) hP1 (Nat.one_le_two_pow)
      obtain ⟨z2, hz20, hz2⟩ := hr _ (2 ^ (m' + 1)) hP2 (Nat.one_le_two_pow)
      set ρ0 : Var → K := upd (upd ρ n z1) (n + 1) z2 with hρ0
      have hρ0lt : ∀ v, v.lt n → ρ0 v = ρ v := fun v hv => by
        rw [hρ0, upd_of_lt _ z2 hv (by omega), upd_of_lt _ z1 hv le_rfl]
      have hρ0u : ρ0 (.aux n) = z1 := by
        rw [hρ0, upd_of_lt _ z2 (Var.lt_aux (Nat.lt_succ_self n)) le_rfl, upd_same]
      have hρ0v : ρ0 (.aux (n + 1)) = z2 := by rw [hρ0, upd_same]
      -- first sub-call
      obtain ⟨hn1, hv1⟩ := split_vars f (.aux n) _ _ (n + 2) r1 h1 (Var.lt_aux (by omega))
        (fun v hv => Var.lt_mono (hRlt v (mem_right3a hv)) (by omega))
      obtain ⟨ρ1, hag1, hco1⟩ := ih m' (.aux n) _ _ (n + 2) r1 ρ0 h1 hw1 hs1 hl1
        (Var.lt_aux (by omega)) (fun v hv => Var.lt_mono (hRlt v (mem_right3a hv)) (by omega))
        (fun v hv => by rw [hρ0lt v (hRlt v (mem_right3a hv))]; exact hnn v (mem_right3a hv))
        (by rw [hρ0u, abs_of_nonneg hz10, hz1]
            exact le_of_eq (prodPow_congr _ _ fun v hv => (hρ0lt v (hRlt v (mem_right3a hv))).symm))
      have hρ1lt : ∀ v, v.lt n → ρ1 v = ρ v := fun v hv => by
        rw [hag1 v (Var.lt_mono hv (by omega)), hρ0lt v hv]
      -- second sub-call
      obtain ⟨ρ2, hag2, hco2⟩ := ih m' (.aux (n + 1)) _ _ r1.next r2 ρ1 h2 hw2 hs2 hl2
        (Var.lt_aux (by omega)) (fun v hv => Var.lt_mono (hRlt v (mem_right3b hv)) (by omega))
        (fun v hv => by rw [hρ1lt v (hRlt v (mem_right3b hv))]; exact hnn v (mem_right3b hv))
        (by rw [hag1 _ (Var.lt_aux (by omega)), hρ0v, abs_of_nonneg hz20, hz2]
            exact le_of_eq (prodPow_congr _ _ fun v hv => (hρ1lt v (hRlt v (mem_right3b hv))).symm))
      have hag' : ∀ v, v.lt n → ρ2 v = ρ v := fun v hv => by
        rw [hag2 v (Var.lt_mono hv (by omega)), hρ1lt v hv]
      refine ⟨ρ2, hag', ?_⟩
      intro c hmem
      rcases List.mem_cons.mp hmem with rfl | hmem
      · have e1 : ρ2 (.aux n) = z1 := by
          rw [hag2 _ (Var.lt_aux (by omega)), hag1 _ (Var.lt_aux (by omega)), hρ0u]
        have e2 : ρ2 (.aux (n + 1)) = z2 := by
          rw [hag2 _ (Var.lt_aux (by omega)), hag1 _ (Var.lt_aux (by omega)), hρ0v]
        have e3 := hag' _ hlt
        simp only [RCone.holds, e1, e2, e3]
        refine ⟨pow_step_inv h2ne hz10 hz20 ?_, hz10, hz20⟩
        rw [← h2m, hz1, hz2, ← prodPow_case3 ρ hw hs hc hl]; exact hpw
      · rcases List.mem_append.mp hmem with hmem | hmem
        · exact RCone.holds_congr (hv1 c hmem) hag2 (hco1 c hmem)
        · exact hco2 c hmem

end Sem

/-! ### the trace of `split` calls -/

theorem split_calls : ∀ (f m : ℕ) (l : Var) (R : List Var) (β : List ℕ) (n : ℕ) (res : SplitRes),
    splitF f l R β n = some res → WF β → β.sum = 2 ^ (m + 1) →
    ∀ c ∈ res.calls, WF c ∧ ∃ k, c.sum = 2 ^ (k + 1) := by
  intro f
  induction f with
  | zero => intro m l R β n res h; simp [splitF_zero] at h
  | succ f ih =>
    intro m l R β n res h hw hs
    rcases splitF_inv h with ⟨hp, rfl⟩ | ⟨hne, hp, hc, r1, h1, rfl⟩ | ⟨hne, hp, hc, r1, r2, h1, h2, rfl⟩
    · intro c hmem
      simp only [List.mem_cons, List.not_mem_nil, or_false] at hmem
      subst hmem; exact ⟨hw, m, hs⟩
    · obtain ⟨_, _, hw1, hs1, _⟩ := case2_facts hw hs hp hc
      obtain ⟨m', rfl⟩ := two_le_two_pow (hs1 ▸ hw1.two_le_sum)
      intro c hmem
      rcases List.mem_cons.mp hmem with rfl | hmem
      · exact ⟨hw, _, hs⟩
      · exact ih m' _ _ _ _ r1 h1 hw1 hs1 c hmem
    · obtain ⟨_, _, _, hw1, hs1, hw2, hs2, _⟩ := case3_facts hw hs hc
      obtain ⟨m', rfl⟩ := two_le_two_pow (hs1 ▸ hw1.two_le_sum)
      intro c hmem
      rcases List.mem_cons.mp hmem with rfl | hmem
      · exact ⟨hw, _, hs⟩
      · rcases List.mem_append.mp hmem with hmem | hmem
        · exact ih m' _ _ _ _ r1 h1 hw1 hs1 c hmem
        · exact ih m' _ _ _ _ r2 h2 hw2 hs2 c hmem

/-! ### `to_pot` / `to_soc` -/

lemma le_pot (d : ℕ) : d ≤ pot d := Nat.le_pow_clog (by norm_num) d

lemma rvars_length (n : ℕ) : (rvars n).length = n := by simp [rvars]

lemma mem_rvars {n i : ℕ} (h : i < n) : Var.r i ∈ rvars n := by
  simp only [rvars, List.mem_map, List.mem_range]; exact ⟨i, h, rfl⟩

lemma rvars_lt {n k : ℕ} : ∀ v ∈ rvars n, v.lt k := by
  intro v hv
  simp only [rvars, List.mem_map] at hv
  obtain ⟨i, _, rfl⟩ := hv; trivial

lemma of_mem_rvars {n : ℕ} {v : Var} (hv : v ∈ rvars n) : ∃ i < n, v = .r i := by
  simp only [rvars, List.mem_map, List.mem_range] at hv
  obtain ⟨i, hi, rfl⟩ := hv; exact ⟨i, hi, rfl⟩

/-- a non-singleton, non-empty vector of positive weights is well formed -/
lemma wf_of {β : List ℕ} (hne : β ≠ []) (hpos : ∀ b ∈ β, 1 ≤ b) (h1 : β.length ≠ 1) : WF β := by
  refine ⟨?_, hpos⟩
  have : β.length ≠ 0 := by simpa using hne
  omega

/-- the padded weight vector of `to_pot` -/
lemma wf_pad {β : List ℕ} (hw : WF β) (hx : 0 < pot β.sum - β.sum) :
    WF (β ++ [pot β.sum - β.sum]) ∧ (β ++ [pot β.sum - β.sum]).sum = pot β.sum := by
  refine ⟨⟨by have := hw.len; simp; omega, ?_⟩, ?_⟩
  · intro b hb
    rcases List.mem_append.mp hb with hb | hb
    · exact hw.pos b hb
    · simp at hb; omega
  · have := le_pot β.sum; simp; omega

lemma pot_eq_succ {d : ℕ} (h : 2 ≤ d) : ∃ m, pot d = 2 ^ (m + 1) := by
  obtain ⟨m, hm⟩ := two_le_two_pow (le_trans h (le_pot d))
  exact ⟨m, by rw [pot, hm]⟩

/-- description of `toSoc` on a well-formed (non-singleton) weight vector -/
lemma toSoc_eq {β : List ℕ} (hw : WF β) :
    ∃ m, pot β.sum = 2 ^ (m + 1) ∧
    ((0 < pot β.sum - β.sum ∧ ∃ r, splitF (pot β.sum) (.aux 0) (rvars β.length ++ [.aux 0])
        (β ++ [pot β.sum - β.sum]) 1 = some r ∧
        toSoc β = some ⟨true, [(.x, .aux 0)], r.cones, true :: r.flags, r.calls⟩) ∨
     (β.sum = pot β.sum ∧ ∃ r, splitF (pot β.sum) .x (rvars β.length) β 0 = some r ∧
        toSoc β = some ⟨false, [], r.cones, r.flags, r.calls⟩)) := by
  obtain ⟨m, hm⟩ := pot_eq_succ hw.two_le_sum
  refine ⟨m, hm, ?_⟩
  have h1 : β.length ≠ 1 := by have := hw.len; omega
  have hfuel : m + 1 ≤ pot β.sum := by rw [hm]; exact le_of_lt Nat.lt_two_pow_self
  by_cases hx : 0 < pot β.sum - β.sum
  · left
    obtain ⟨hw', hs'⟩ := wf_pad hw hx
    obtain ⟨r, hr⟩ := splitF_isSome (pot β.sum) m (.aux 0) (rvars β.length ++ [.aux 0]) _ 1 hw'
      (hs'.trans hm) hfuel
    refine ⟨hx, r, hr, ?_⟩
    simp only [toSoc, h1, if_false, hx, if_true, hr]
  · right
    have he : β.sum = pot β.sum := by have := le_pot β.sum; omega
    obtain ⟨r, hr⟩ := splitF_isSome (pot β.sum) m .x (rvars β.length) β 0 hw (he.trans hm) hfuel
    refine ⟨he, r, hr, ?_⟩
    simp only [toSoc, h1, if_false, hx, hr]

lemma toSoc_singleton (b : ℕ) : toSoc [b] = some ⟨false, [(.x, .r 0)], [], [], []⟩ := by
  simp [toSoc]

section Sem2
variable {K : Type} [Field K] [LinearOrder K] [IsStrictOrderedRing K]

/-- `prodPow` over `r 0, …, r (n-1)` as a product over `range n` -/
lemma prodPow_range' (ρ : Var → K) : ∀ (β : List ℕ) (s : ℕ),
    prodPow ρ ((List.range' s β.length).map Var.r) β =
      ∏ i ∈ Finset.range β.length, ρ (.r (s + i)) ^ β.getD i 0
  | [], _ => by simp [prodPow]
  | b :: t, s => by
    rw [List.length_cons, List.range'_succ, List.map_cons, prodPow, prodPow_range' ρ t (s + 1),
      Finset.prod_range_succ']
    simp only [List.getD_cons_succ, List.getD_cons_zero, add_zero]
    rw [mul_comm]
    congr 1
    apply Finset.prod_congr rfl
    intro i _
    rw [show s + 1 + i = s + (i + 1) by ring]

lemma prodPow_rvars (ρ : Var → K) (β : List ℕ) :
    prodPow ρ (rvars β.length) β = ∏ i ∈ Finset.range β.length, ρ (.r i) ^ β.getD i 0 := by
  have := prodPow_range' ρ β 0
  simpa [rvars, List.range_eq_range'] using this

lemma prodPow_rvars_single (ρ : Var → K) (b : ℕ) :
    prodPow ρ (rvars [b].length) [b] = ρ (.r 0) ^ b := by
  simp [rvars, List.range_succ, prodPow]

/-- soundness of `to_soc` -/
theorem toSoc_sound (ρ : Var → K) {β : List ℕ} {out : SocOut} (hne : β ≠ [])
    (hpos : ∀ b ∈ β, 1 ≤ b) (h : toSoc β = some out) (hh : out.holds ρ) :
    (∀ i < β.length, 0 ≤ ρ (.r i)) ∧ |ρ .x| ^ β.sum ≤ prodPow ρ (rvars β.length) β := by
  by_cases h1 : β.length = 1
  · obtain ⟨b, rfl⟩ := List.length_eq_one_iff.mp h1
    rw [toSoc_singleton] at h
    obtain rfl := Option.some.inj h
    have hab : |ρ .x| ≤ ρ (.r 0) := hh.1 (.x, .r 0) (by simp)
    have h0 : 0 ≤ ρ (.r 0) := le_trans (abs_nonneg _) hab
    refine ⟨?_, ?_⟩
    · intro i hi
      have : i = 0 := by simpa using hi
      subst this; exact h0
    · rw [prodPow_rvars_single]
      simp only [List.sum_cons, List.sum_nil, add_zero]
      exact pow_le_pow_left₀ (abs_nonneg _) hab b
  · have hw := wf_of hne hpos h1
    obtain ⟨m, hm, hcase⟩ := toSoc_eq hw
    rcases hcase with ⟨hx, r, hr, ht⟩ | ⟨he, r, hr, ht⟩
    · -- padded
      rw [ht] at h
      obtain rfl := Option.some.inj h
      obtain ⟨hw', hs'⟩ := wf_pad hw hx
      obtain ⟨hnn, hpw⟩ := split_sound ρ _ m _ _ _ _ r hr hw' (hs'.trans hm)
        (by simp [rvars_length]) hh.2
      have hab : |ρ .x| ≤ ρ (.aux 0) := hh.1 (.x, .aux 0) (by simp)
      have hs0 : 0 ≤ ρ (.aux 0) := le_trans (abs_nonneg _) hab
      have hnn' : ∀ v ∈ rvars β.length, 0 ≤ ρ v := fun v hv => hnn v (List.mem_append_left _ hv)
      refine ⟨fun i hi => hnn' _ (mem_rvars hi), ?_⟩
      rw [prodPow_append ρ _ _ _ _ (rvars_length _), abs_of_nonneg hs0] at hpw
      simp only [prodPow, mul_one] at hpw
      have hP := prodPow_nonneg ρ _ β hnn'
      have hd : β.sum ≠ 0 := by have := hw.two_le_sum; omega
      rcases eq_or_lt_of_le hs0 with hs | hs
      · have hx0 : |ρ .x| = 0 := le_antisymm (by rw [hs]; exact hab) (abs_nonneg _)
        rw [hx0, zero_pow hd]; exact hP
      · have hsplit : ρ (.aux 0) ^ 2 ^ (m + 1) =
            ρ (.aux 0) ^ β.sum * ρ (.aux 0) ^ (pot β.sum - β.sum) := by
          rw [← pow_add, ← hm]; congr 1; have := le_pot β.sum; omega
        rw [hsplit] at hpw
        have := le_of_mul_le_mul_right hpw (pow_pos hs _)
        exact le_trans (pow_le_pow_left₀ (abs_nonneg _) hab _) this
    · -- already a power of two
      rw [ht] at h
      obtain rfl := Option.some.inj h
      obtain ⟨hnn, hpw⟩ := split_sound ρ _ m _ _ _ _ r hr hw (he.trans hm) (rvars_length _) hh.2
      refine ⟨fun i hi => hnn _ (mem_rvars hi), ?_⟩
      rw [he, hm]; exact hpw

/-- completeness of `to_soc` in a field with roots -/
theorem toSoc_complete (hroot : HasRoots K) (ρ : Var → K) {β : List ℕ} {out : SocOut} (hne : β ≠ [])
    (hpos : ∀ b ∈ β, 1 ≤ b) (h : toSoc β = some out) (hnn : ∀ i < β.length, 0 ≤ ρ (.r i))
    (hpw : |ρ .x| ^ β.sum ≤ prodPow ρ (rvars β.length) β) :
    ∃ ρ' : Var → K, ρ' .x = ρ .x ∧ (∀ i, ρ' (.r i) = ρ (.r i)) ∧ out.holds ρ' := by
  have hnn' : ∀ v ∈ rvars β.length, 0 ≤ ρ v := by
    intro v hv; obtain ⟨i, hi, rfl⟩ := of_mem_rvars hv; exact hnn i hi
  by_cases h1 : β.length = 1
  · obtain ⟨b, rfl⟩ := List.length_eq_one_iff.mp h1
    rw [toSoc_singleton] at h
    obtain rfl := Option.some.inj h
    refine ⟨ρ, rfl, fun _ => rfl, ?_, by simp⟩
    intro p hp
    simp only [List.mem_cons, List.not_mem_nil, or_false] at hp
    subst hp
    have hb : b ≠ 0 := by have := hpos b (by simp); omega
    rw [prodPow_rvars_single] at hpw
    simp only [List.sum_cons, List.sum_nil, add_zero] at hpw
    exact (pow_le_pow_iff_left₀ (abs_nonneg _) (hnn 0 (by simp)) hb).mp hpw
  · have hw := wf_of hne hpos h1
    obtain ⟨m, hm, hcase⟩ := toSoc_eq hw
    rcases hcase with ⟨hx, r, hr, ht⟩ | ⟨he, r, hr, ht⟩
    · -- padded
      rw [ht] at h
      obtain rfl := Option.some.inj h
      obtain ⟨hw', hs'⟩ := wf_pad hw hx
      have hP := prodPow_nonneg ρ _ β hnn'
      have hd : β.sum ≠ 0 := by have := hw.two_le_sum; omega
      obtain ⟨z, hz0, hz⟩ := hroot _ β.sum hP (by omega)
      have hxz : |ρ .x| ≤ z := by
        rw [← hz] at hpw
        exact (pow_le_pow_iff_left₀ (abs_nonneg _) hz0 hd).mp hpw
      have hcongr : prodPow (upd ρ 0 z) (rvars β.length) β = prodPow ρ (rvars β.length) β :=
        prodPow_congr _ _ fun v hv => upd_of_lt ρ z (rvars_lt (k := 0) v hv) le_rfl
      obtain ⟨ρ', hag, hco⟩ := split_complete hroot _ m (.aux 0) _ _ 1 r (upd ρ 0 z) hr hw'
        (hs'.trans hm) (by simp [rvars_length]) (Var.lt_aux (by omega))
        (by
          intro v hv
          rcases List.mem_append.mp hv with hv | hv
          · exact rvars_lt v hv
          · simp only [List.mem_cons, List.not_mem_nil, or_false] at hv
            subst hv; exact Var.lt_aux (by omega))
        (by
          intro v hv
          rcases List.mem_append.mp hv with hv | hv
          · rw [upd_of_lt ρ z (rvars_lt (k := 0) v hv) le_rfl]; exact hnn' v hv
          · simp only [List.mem_cons, List.not_mem_nil, or_false] at hv
            subst hv; rw [upd_same]; exact hz0)
        (by
          rw [prodPow_append _ _ _ _ _ (rvars_length _), hcongr, upd_same, abs_of_nonneg hz0]
          simp only [prodPow, mul_one, upd_same]
          rw [← hz, ← pow_add, ← hm]
          apply le_of_eq; congr 1; have := le_pot β.sum; omega)
      refine ⟨ρ', ?_, ?_, ?_, hco⟩
      · rw [hag _ (by trivial), upd_of_lt ρ z (n := 0) (by trivial) le_rfl]
      · intro i; rw [hag _ (by trivial), upd_of_lt ρ z (n := 0) (by trivial) le_rfl]
      · intro p hp
        simp only [List.mem_cons, List.not_mem_nil, or_false] at hp
        subst hp
        show |ρ' .x| ≤ ρ' (.aux 0)
        rw [hag _ (by trivial), hag _ (Var.lt_aux (by omega)), upd_same,
          upd_of_lt ρ z (n := 0) (by trivial) le_rfl]
        exact hxz
    · rw [ht] at h
      obtain rfl := Option.some.inj h
      obtain ⟨ρ', hag, hco⟩ := split_complete hroot _ m .x _ _ 0 r ρ hr hw (he.trans hm)
        (rvars_length _) (by trivial) (fun v hv => rvars_lt v hv) hnn' (by rw [← hm, ← he]; exact hpw)
      exact ⟨ρ', hag _ (by trivial), fun i => hag _ (by trivial), by simp, hco⟩

end Sem2

end RsomeV.IPC
