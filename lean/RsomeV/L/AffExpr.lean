import RsomeV.M.AffExpr
import RsomeV.Props.C05
import Mathlib.Tactic.Ring

/-! Lemmas for `RsomeV/Props/C05Expr.lean`: bounds of the index maps used by the array-expression language
(every selected source position lies inside the operand), linearity of `AffArr.eval`, and the per-operator
correspondence between the operators on affine arrays and on value arrays. -/

namespace RsomeV.AffE
open List RsomeV.Nd

/-! ## shapes -/

theorem nonEmpty_some {s t : List ℕ} (h : nonEmpty s = some t) : t = s ∧ size s ≠ 0 := by
  unfold nonEmpty at h
  split at h
  · simp at h
  · simp only [Option.some.injEq] at h
    exact ⟨h.symm, by assumption⟩

theorem mulShape_some {s cs t : List ℕ} (h : mulShape s cs = some t) : broadcastShapes s cs = some t := by
  unfold mulShape at h
  obtain ⟨t', h1, h2⟩ := Option.bind_eq_some_iff.1 h
  rw [h1, (nonEmpty_some h2).1]

theorem matmulShapeNE_some {a b t : List ℕ} (h : matmulShapeNE a b = some t) : matmulShape a b = some t := by
  unfold matmulShapeNE at h
  obtain ⟨t', h1, h2⟩ := Option.bind_eq_some_iff.1 h
  rw [h1, (nonEmpty_some h2).1]

theorem bcastRev_self (a : List ℕ) : bcastRev a a = some a := by
  induction a with
  | nil => simp [bcastRev]
  | cons x a ih => simp [bcastRev, ih]

theorem broadcastShapes_self (a : List ℕ) : broadcastShapes a a = some a := by
  simp [broadcastShapes, bcastRev_self]

theorem reshapeShape_size {sz : ℕ} {l : List Int} {s : List ℕ} (h : reshapeShape sz l = some s) : size s = sz := by
  unfold reshapeShape at h
  simp only at h
  split at h
  · simp only [Option.some.injEq] at h
    subst h
    rename_i hc
    exact hc.2
  · simp at h

theorem size_replicate_one (r : ℕ) : size (List.replicate r 1) = 1 := by
  induction r with
  | zero => rfl
  | succ r ih => simp [List.replicate_succ, ih]

theorem size_promote0 (r : ℕ) (s : List ℕ) : size (promote0 r s) = size s := by
  unfold promote0
  split
  · subst s; simp [size_replicate_one]
  · rfl

/-! ## basic indexing -/

/-- what `getitemSels` guarantees per axis: the selected positions exist, a removed axis has one position -/
def SelOK (d : ℕ) (p : List ℕ × Bool) : Prop := (∀ y ∈ p.1, y < d) ∧ (p.2 = false → p.1.length = 1)

theorem sel_ok {d : ℕ} {it : Ix} {s : List ℕ} (h : it.sel d = some s) : SelOK d (s, it.keep) := by
  cases it with
  | int i =>
    simp only [Ix.sel, Option.map_eq_some_iff] at h
    obtain ⟨j, hj, rfl⟩ := h
    have := (C05.normAxis_spec d i j).1 hj
    exact ⟨by simpa using this.1, fun _ => rfl⟩
  | slice a b c =>
    simp only [Ix.sel] at h
    split at h
    · simp at h
    · simp only [Option.some.injEq] at h
      subst h
      exact ⟨C05.sliceIdx_lt d a b c, by simp [Ix.keep]⟩

theorem getitemSels_ok {shape : List ℕ} {items : List Ix} {sels : List (List ℕ × Bool)}
    (h : getitemSels shape items = some sels) : Forall₂ SelOK shape sels := by
  induction shape generalizing items sels with
  | nil =>
    cases items with
    | nil => simp only [getitemSels, Option.some.injEq] at h; subst h; exact Forall₂.nil
    | cons it its => simp [getitemSels] at h
  | cons d ds ih =>
    cases items with
    | nil =>
      simp only [getitemSels, Option.map_eq_some_iff] at h
      obtain ⟨r, hr, rfl⟩ := h
      exact Forall₂.cons ⟨C05.sliceIdx_lt d none none none, by simp⟩ (ih hr)
    | cons it its =>
      simp only [getitemSels] at h
      obtain ⟨s, hs, h⟩ := Option.bind_eq_some_iff.1 h
      obtain ⟨r, hr, rfl⟩ := Option.map_eq_some_iff.1 h
      exact Forall₂.cons (sel_ok hs) (ih hr)

theorem validIdx_sel {shape : List ℕ} {sels : List (List ℕ × Bool)} (h : Forall₂ SelOK shape sels)
    {idx : List ℕ} (hv : ValidIdx (selFull sels) idx) :
    ValidIdx shape (zipWith (fun (p : List ℕ × Bool) j => p.1.getD j 0) sels idx) := by
  induction h generalizing idx with
  | nil => cases idx <;> simp_all [selFull]
  | @cons d p ds ps hp _ ih =>
    cases idx with
    | nil => simp [selFull] at hv
    | cons j js =>
      simp only [selFull, map_cons, validIdx_cons] at hv
      simp only [zipWith_cons_cons, validIdx_cons]
      refine ⟨?_, ih hv.2⟩
      apply hp.1
      rw [List.getD_eq_getElem?_getD, List.getElem?_eq_getElem hv.1]
      simp

/-- the source position of an element of `a[items]` lies inside `a` -/
theorem selSrc_lt {shape : List ℕ} {sels : List (List ℕ × Bool)} (h : Forall₂ SelOK shape sels) {k : ℕ}
    (hk : k < size (selFull sels)) : selSrc shape sels k < size shape :=
  Nd.ravel_lt (validIdx_sel h (validIdx_unravel hk))

/-- removing the axes of length 1 that integers leave behind does not change the number of elements -/
theorem size_selShape {shape : List ℕ} {sels : List (List ℕ × Bool)} (h : Forall₂ SelOK shape sels) :
    size (selShape sels) = size (selFull sels) := by
  induction h with
  | nil => rfl
  | @cons d p ds ps hp _ ih =>
    simp only [selShape, selFull] at ih ⊢
    cases hb : p.2 with
    | true => simp [hb, ih]
    | false => simp [hb, ih, hp.2 hb]

/-! ## sums, diagonals -/

theorem getD_mem_or_nil {α : Type} (l : List (List α)) (o : ℕ) : l.getD o [] ∈ l ∨ l.getD o [] = [] := by
  rw [List.getD_eq_getElem?_getD]
  cases h : l[o]? with
  | none => right; rfl
  | some g => left; simpa using List.mem_of_getElem? h

/-- the positions a group of `a.sum(axis)` adds up lie inside `a` -/
theorem sumAxisGroups_lt {shape : List ℕ} {ax : ℕ} (h : ax < shape.length) (o j : ℕ)
    (hj : j ∈ (sumAxisGroups shape ax).getD o []) : j < size shape := by
  rcases getD_mem_or_nil (sumAxisGroups shape ax) o with hg | hg
  · have hp := (C05.sumAxisGroups_partition shape ax h).2.1
    have : j ∈ (sumAxisGroups shape ax).flatten := mem_flatten.2 ⟨_, hg, hj⟩
    simpa using (hp.mem_iff).1 this
  · rw [hg] at hj; simp at hj

theorem normAxis_lt {rank : ℕ} {axis : Int} {ax : ℕ} (h : normAxis rank axis = some ax) : ax < rank :=
  ((C05.normAxis_spec rank axis ax).1 h).1

/-- the positions `np.diag` reads lie inside the matrix -/
theorem diagIdx_getD_lt (r c : ℕ) (k : Int) {i : ℕ} (hi : i < (diagIdx r c k).length) :
    (diagIdx r c k).getD i 0 < size [r, c] := by
  have hm : (diagIdx r c k).getD i 0 ∈ diagIdx r c k := by
    rw [List.getD_eq_getElem?_getD, List.getElem?_eq_getElem hi]; simp
  obtain ⟨i', j', hi', hj', _, hx⟩ := (C05.diagIdx_spec r c k _).1 hm
  rw [hx]
  simpa using mul_add_lt hi' hj'

/-! ## three-level flat positions -/

theorem decomp3 {P M Q o : ℕ} (h : o < P * (M * Q)) :
    ∃ β r c, β < P ∧ r < M ∧ c < Q ∧ o = β * (M * Q) + r * Q + c := by
  have hMQ : 0 < M * Q := by
    rcases Nat.eq_zero_or_pos (M * Q) with h0 | h0
    · rw [h0] at h; omega
    · exact h0
  have hQ : 0 < Q := Nat.pos_of_ne_zero (fun h0 => by simp [h0] at hMQ)
  refine ⟨o / (M * Q), o % (M * Q) / Q, o % (M * Q) % Q, ?_, ?_, Nat.mod_lt _ hQ, ?_⟩
  · exact Nat.div_lt_of_lt_mul (by rwa [Nat.mul_comm])
  · exact Nat.div_lt_of_lt_mul (Nat.lt_of_lt_of_eq (Nat.mod_lt _ hMQ) (Nat.mul_comm _ _))
  · have h1 := Nat.div_add_mod o (M * Q)
    have h2 := Nat.div_add_mod (o % (M * Q)) Q
    rw [Nat.mul_comm] at h1 h2
    omega

/-! ## concatenation -/

theorem concatShape_split {sa sb t : List ℕ} {ax : ℕ} (h : concatShape sa sb ax = some t) :
    ∃ pre post da db, sa = pre ++ da :: post ∧ sb = pre ++ db :: post ∧ pre.length = ax ∧
      t = pre ++ (da + db) :: post := by
  unfold concatShape at h
  split at h
  · rename_i hc
    obtain ⟨hl, hax, he⟩ := hc
    simp only [Option.some.injEq] at h
    obtain ⟨hsa, hpa⟩ := shape_split hax
    obtain ⟨hsb, hpb⟩ := shape_split (shape := sb) (axis := ax) (by omega)
    rw [eraseIdx_eq_take_drop_succ, eraseIdx_eq_take_drop_succ] at he
    obtain ⟨e1, e2⟩ := append_inj he (by rw [hpa, hpb])
    refine ⟨sa.take ax, sa.drop (ax + 1), sa.getD ax 0, sb.getD ax 0, hsa, ?_, hpa, ?_⟩
    · rw [e1, e2]; exact hsb
    · have key : ∀ (pre post : List ℕ) (d v : ℕ), sa = pre ++ d :: post → pre.length = ax →
          sa.set ax v = pre ++ v :: post := by
        rintro pre post d v rfl rfl; simp
      rw [← h]; exact key _ _ _ _ hsa hpa
  · simp at h

/-- every element of a concatenation comes from a position inside its operand -/
theorem concatSrc_bounds {sa sb t : List ℕ} {ax : ℕ} (h : concatShape sa sb ax = some t) {k : ℕ}
    (hk : k < size t) :
    (((concatSrc sa sb ax).getD k (false, 0)).1 = false → ((concatSrc sa sb ax).getD k (false, 0)).2 < size sa) ∧
    (((concatSrc sa sb ax).getD k (false, 0)).1 = true → ((concatSrc sa sb ax).getD k (false, 0)).2 < size sb) := by
  obtain ⟨pre, post, da, db, rfl, rfl, rfl, rfl⟩ := concatShape_split h
  rw [size_append, size_cons] at hk
  obtain ⟨p, i, q, hp, hi, hq, rfl⟩ := decomp3 hk
  rw [List.getD_eq_getElem?_getD, concatSrc_getElem? hp hi hq]
  simp only [Option.getD_some, size_append, size_cons]
  split
  · rename_i hlt
    refine ⟨fun _ => ?_, fun hc => by simp at hc⟩
    have := mul_add_lt hp (mul_add_lt hlt hq)
    simpa [Nat.add_assoc] using this
  · rename_i hge
    refine ⟨fun hc => by simp at hc, fun _ => ?_⟩
    have := mul_add_lt hp (mul_add_lt (show i - da < db by omega) hq)
    simpa [Nat.add_assoc] using this

/-! ## matmul -/

theorem two_split (l : List ℕ) (h : 2 ≤ l.length) : l = batchOf l ++ [rowsOf l, colsOf l] := by
  have h1 : l.length - 2 < l.length := by omega
  have h2 : l.length - 2 + 1 < l.length := by omega
  have e : l.drop (l.length - 2) = [rowsOf l, colsOf l] := by
    have e3 : l.length - 2 + 1 + 1 = l.length := by omega
    have e4 : l.length - 2 + 1 = l.length - 1 := by omega
    rw [drop_eq_getElem_cons h1, drop_eq_getElem_cons h2, e3, drop_length]
    simp [rowsOf, colsOf, List.getD_eq_getElem?_getD, h1, e4, show l.length - 1 < l.length by omega]
  conv => lhs; rw [← take_append_drop (l.length - 2) l, e]
  rfl

theorem size_promoteL (a : List ℕ) : size (promoteL a) = size a := by
  unfold promoteL; split <;> simp

theorem size_promoteR (b : List ℕ) : size (promoteR b) = size b := by
  unfold promoteR; split <;> simp [size_append]

theorem length_promoteL {a : List ℕ} (h : a ≠ []) : 2 ≤ (promoteL a).length := by
  match a, h with
  | [x], _ => simp [promoteL]
  | x :: y :: a, _ => simp [promoteL]

theorem length_promoteR {b : List ℕ} (h : b ≠ []) : 2 ≤ (promoteR b).length := by
  match b, h with
  | [x], _ => simp [promoteR]
  | x :: y :: b, _ => simp [promoteR]

theorem rowsOf_promoteL_one {a : List ℕ} (h : a.length = 1) : rowsOf (promoteL a) = 1 := by
  match a, h with
  | [x], _ => simp [promoteL, rowsOf]

theorem colsOf_promoteR_one {b : List ℕ} (h : b.length = 1) : colsOf (promoteR b) = 1 := by
  match b, h with
  | [x], _ => simp [promoteR, colsOf]

/-- every pair of `a @ b` refers to positions inside `a` and inside `b` -/
theorem matmulPairs_bounds {a b t : List ℕ} (h : matmulShape a b = some t) {o : ℕ} (ho : o < size t) :
    ∀ pr ∈ (matmulPairs a b).getD o [], pr.1 < size a ∧ pr.2 < size b := by
  unfold matmulShape at h
  split at h
  · simp at h
  rename_i hne
  simp only [not_or] at hne
  simp only at h
  split at h
  · simp at h
  rename_i hcr
  simp only [ne_eq, Decidable.not_not] at hcr
  have hA := two_split (promoteL a) (length_promoteL hne.1)
  have hB := two_split (promoteR b) (length_promoteR hne.2)
  cases hbt : broadcastShapes (batchOf (promoteL a)) (batchOf (promoteR b)) with
  | none => simp [hbt] at h
  | some bt =>
    simp only [hbt, Option.some.injEq] at h
    have hP : matmulPairs a b = matmulCore (batchOf (promoteL a)) (batchOf (promoteR b)) bt
        (rowsOf (promoteL a)) (colsOf (promoteL a)) (colsOf (promoteR b)) := by
      simp [matmulPairs, hne.1, hne.2, hcr, hbt]
    have hsz : size t = size bt * (rowsOf (promoteL a) * colsOf (promoteR b)) := by
      rw [← h]
      by_cases h1 : a.length = 1 <;> by_cases h2 : b.length = 1 <;>
        simp [h1, h2, size_append, rowsOf_promoteL_one, colsOf_promoteR_one]
    rw [hsz] at ho
    obtain ⟨β, r, c, hβ, hr, hc, rfl⟩ := decomp3 ho
    intro pr hpr
    rw [hP, List.getD_eq_getElem?_getD, matmulCore_getElem? hbt hβ hr hc] at hpr
    simp only [Option.getD_some, mem_map, mem_range] at hpr
    obtain ⟨i, hi, rfl⟩ := hpr
    have b1 := (C05.bcastFlat_spec hbt hβ).2
    have b2 := (C05.bcastFlat_spec_right hbt hβ).2
    constructor
    · rw [← size_promoteL a, hA, size_append]
      have := mul_add_lt b1 (mul_add_lt hr hi)
      simpa [Nat.add_assoc] using this
    · rw [← size_promoteR b, hB, size_append, ← hcr]
      have := mul_add_lt b2 (mul_add_lt hi hc)
      simpa [Nat.add_assoc] using this

/-! ## evaluation is linear in the rows -/

section Rep
variable {K : Type} [CommRing K]

/-- a linear combination of rows evaluates to the same combination of the values -/
theorem eval_comb {ι : Type} (a : AffArr K) (x : ℕ → K) (l : List ι) (w : ι → K) (j : ι → ℕ) :
    (∑ c ∈ Finset.range a.ncols, (l.map fun t => w t * a.coef (j t) c).sum * x c) +
        (l.map fun t => a.cst (j t) * w t).sum = (l.map fun t => a.eval x (j t) * w t).sum := by
  induction l with
  | nil => simp
  | cons t l ih =>
    simp only [map_cons, sum_cons, add_mul, Finset.sum_add_distrib]
    rw [← ih]
    simp only [AffArr.eval, add_mul, Finset.sum_mul]
    have e : ∀ c, w t * a.coef (j t) c * x c = a.coef (j t) c * x c * w t := fun c => by ring
    simp only [e]
    ring

/-- the same with the weights on the left -/
theorem eval_comb' {ι : Type} (a : AffArr K) (x : ℕ → K) (l : List ι) (w : ι → K) (j : ι → ℕ) :
    (∑ c ∈ Finset.range a.ncols, (l.map fun t => w t * a.coef (j t) c).sum * x c) +
        (l.map fun t => w t * a.cst (j t)).sum = (l.map fun t => w t * a.eval x (j t)).sum := by
  have := eval_comb a x l w j
  simpa only [mul_comm] using this

/-- a sum of rows evaluates to the sum of the values -/
theorem eval_sum (a : AffArr K) (x : ℕ → K) (l : List ℕ) :
    (∑ c ∈ Finset.range a.ncols, (l.map fun j => a.coef j c).sum * x c) + (l.map a.cst).sum =
      (l.map (a.eval x)).sum := by
  have := eval_comb a x l (fun _ => 1) id
  simpa using this

/-- the value array `v` is the evaluation at `x` of the affine array `a` (which has `n` columns): same shape,
same value at every position inside the array -/
def Rep (x : ℕ → K) (n : ℕ) (a : AffArr K) (v : Val K) : Prop :=
  a.ncols = n ∧ v.1 = a.shape ∧ ∀ k, k < size a.shape → v.2 k = a.eval x k

variable {x : ℕ → K} {n : ℕ}

theorem rep_var {first : ℕ} {s : List ℕ} {a : AffArr K} (h : AffArr.var n first s = some a) :
    ∃ v, (nonEmpty s).map (fun s' => ((s', fun k => x (first + k)) : Val K)) = some v ∧ Rep x n a v := by
  unfold AffArr.var at h
  split at h
  · rename_i hle
    obtain ⟨s', hs', rfl⟩ := Option.map_eq_some_iff.1 h
    obtain ⟨rfl, _⟩ := nonEmpty_some hs'
    refine ⟨_, by rw [hs']; rfl, rfl, rfl, fun k hk => ?_⟩
    have hm : first + k < n := by simp only at hk; omega
    simp [AffArr.eval, Finset.sum_ite_eq', hm]
  · simp at h

theorem rep_const {s : List ℕ} {data : ℕ → K} {a : AffArr K} (h : AffArr.const n s data = some a) :
    ∃ v, (nonEmpty s).map (fun s' => ((s', data) : Val K)) = some v ∧ Rep x n a v := by
  unfold AffArr.const at h
  obtain ⟨s', hs', rfl⟩ := Option.map_eq_some_iff.1 h
  exact ⟨_, by rw [hs']; rfl, rfl, rfl, fun k _ => by simp [AffArr.eval]⟩

theorem rep_neg {a : AffArr K} {v : Val K} (h : Rep x n a v) : Rep x n a.neg (Val.neg v) := by
  obtain ⟨hn, hs, hv⟩ := h
  refine ⟨hn, hs, fun k hk => ?_⟩
  simp only [Val.neg, AffArr.neg, AffArr.eval, hv k hk, neg_mul, Finset.sum_neg_distrib]
  ring

theorem rep_scale (c : K) {a : AffArr K} {v : Val K} (h : Rep x n a v) :
    Rep x n (AffArr.scale c a) (Val.scale c v) := by
  obtain ⟨hn, hs, hv⟩ := h
  refine ⟨hn, hs, fun k hk => ?_⟩
  simp only [Val.scale, AffArr.scale, AffArr.eval, hv k hk, mul_add, Finset.mul_sum]
  congr 1
  · exact Finset.sum_congr rfl fun c _ => by ring
  · ring

/-- selecting rows: the new array has, at `k`, the value the old one has at `src k` -/
theorem rep_gather {a : AffArr K} {v : Val K} (h : Rep x n a v) (t : List ℕ) (src : ℕ → ℕ)
    (hsrc : ∀ k, k < size t → src k < size a.shape) :
    Rep x n (a.gather t src) (t, fun k => v.2 (src k)) := by
  obtain ⟨hn, _, hv⟩ := h
  exact ⟨hn, rfl, fun k hk => hv _ (hsrc k hk)⟩

theorem rep_add {a b r : AffArr K} {va vb : Val K} (ha : Rep x n a va) (hb : Rep x n b vb)
    (h : a.add b = some r) : ∃ v, Val.add va vb = some v ∧ Rep x n r v := by
  obtain ⟨hna, hsa, hva⟩ := ha
  obtain ⟨hnb, hsb, hvb⟩ := hb
  unfold AffArr.add at h
  obtain ⟨t, ht, rfl⟩ := Option.map_eq_some_iff.1 h
  refine ⟨_, by simp only [Val.add, hsa, hsb, ht]; rfl, hna, rfl, fun k hk => ?_⟩
  have b1 := (C05.bcastFlat_spec ht hk).2
  have b2 := (C05.bcastFlat_spec_right ht hk).2
  simp only [hva _ b1, hvb _ b2, AffArr.eval, hna, hnb]
  by_cases he : a.shape = b.shape
  · have e1 : t = a.shape := by
      rw [← he, broadcastShapes_self] at ht; exact (Option.some.inj ht).symm
    have e2 : bcastFlat a.shape t k = k := by rw [e1]; exact bcastFlat_self (by rwa [e1] at hk)
    have e3 : bcastFlat b.shape t k = k := by
      rw [← he, e1]; exact bcastFlat_self (by rwa [e1] at hk)
    rw [if_pos he, e2, e3]
    simp only [add_mul, Finset.sum_add_distrib]
    ring
  · rw [if_neg he]
    simp only [add_mul, Finset.sum_add_distrib]
    ring

theorem val_sub_eq (va vb : Val K) : Val.sub va vb = Val.add va (Val.neg vb) := by
  simp [Val.sub, Val.add, Val.neg, sub_eq_add_neg]

theorem rep_sub {a b r : AffArr K} {va vb : Val K} (ha : Rep x n a va) (hb : Rep x n b vb)
    (h : a.sub b = some r) : ∃ v, Val.sub va vb = some v ∧ Rep x n r v := by
  rw [val_sub_eq]
  exact rep_add ha (rep_neg hb) h

theorem rep_mulc {a r : AffArr K} {v : Val K} (ha : Rep x n a v) {cs : List ℕ} {c : ℕ → K}
    (h : a.mulc cs c = some r) :
    (∃ w, Val.mulc v cs c = some w ∧ Rep x n r w) ∧ (∃ w, Val.rmulc cs c v = some w ∧ Rep x n r w) := by
  obtain ⟨hna, hsa, hva⟩ := ha
  unfold AffArr.mulc at h
  obtain ⟨t, ht, rfl⟩ := Option.map_eq_some_iff.1 h
  have hb := mulShape_some ht
  have key : ∀ k, k < size t →
      v.2 (bcastFlat a.shape t k) * c (bcastFlat cs t k) =
        (∑ col ∈ Finset.range a.ncols, c (bcastFlat cs t k) * a.coef (bcastFlat a.shape t k) col * x col) +
          a.cst (bcastFlat a.shape t k) * c (bcastFlat cs t k) := by
    intro k hk
    rw [hva _ (C05.bcastFlat_spec hb hk).2]
    simp only [AffArr.eval, add_mul, Finset.sum_mul]
    congr 1
    exact Finset.sum_congr rfl fun c _ => by ring
  constructor
  · refine ⟨_, by simp only [Val.mulc, hsa, ht]; rfl, hna, rfl, fun k hk => ?_⟩
    simpa only [hsa, AffArr.eval] using key k hk
  · refine ⟨_, by simp only [Val.rmulc, hsa, ht]; rfl, hna, rfl, fun k hk => ?_⟩
    simp only [AffArr.eval]
    rw [mul_comm]
    exact key k hk

theorem rep_matmulc {a r : AffArr K} {v : Val K} (ha : Rep x n a v) {cs : List ℕ} {c : ℕ → K}
    (h : a.matmulc cs c = some r) : ∃ w, Val.matmulc v cs c = some w ∧ Rep x n r w := by
  obtain ⟨hna, hsa, hva⟩ := ha
  unfold AffArr.matmulc at h
  obtain ⟨t, ht, rfl⟩ := Option.map_eq_some_iff.1 h
  refine ⟨_, by simp only [Val.matmulc, hsa, ht]; rfl, hna, rfl, fun o ho => ?_⟩
  have hb := matmulPairs_bounds (matmulShapeNE_some ht) ho
  refine Eq.trans ?_ (eval_comb a x ((matmulPairs a.shape cs).getD o []) (fun p => c p.2) (fun p => p.1)).symm
  exact congrArg List.sum (map_congr_left fun p hp => by rw [hva _ (hb p hp).1])

theorem rep_rmatmulc {a r : AffArr K} {v : Val K} (ha : Rep x n a v) {cs : List ℕ} {c : ℕ → K}
    (h : AffArr.rmatmulc cs c a = some r) : ∃ w, Val.rmatmulc cs c v = some w ∧ Rep x n r w := by
  obtain ⟨hna, hsa, hva⟩ := ha
  unfold AffArr.rmatmulc at h
  obtain ⟨t, ht, rfl⟩ := Option.map_eq_some_iff.1 h
  refine ⟨_, by simp only [Val.rmatmulc, hsa, ht]; rfl, hna, rfl, fun o ho => ?_⟩
  have hb := matmulPairs_bounds (matmulShapeNE_some ht) ho
  refine Eq.trans ?_ (eval_comb' a x ((matmulPairs cs a.shape).getD o []) (fun p => c p.1) (fun p => p.2)).symm
  exact congrArg List.sum (map_congr_left fun p hp => by rw [hva _ (hb p hp).2])

theorem rep_getitem {a r : AffArr K} {v : Val K} (ha : Rep x n a v) {items : List Ix}
    (h : a.getitem items = some r) : ∃ w, Val.getitem v items = some w ∧ Rep x n r w := by
  unfold AffArr.getitem at h
  obtain ⟨sels, hsels, h⟩ := Option.bind_eq_some_iff.1 h
  obtain ⟨t, ht, rfl⟩ := Option.map_eq_some_iff.1 h
  have hok := getitemSels_ok hsels
  obtain ⟨rfl, _⟩ := nonEmpty_some ht
  refine ⟨_, by simp only [Val.getitem, ha.2.1, hsels, Option.bind_some, ht]; rfl, ?_⟩
  exact rep_gather ha (selShape sels) (selSrc a.shape sels) fun k hk => selSrc_lt hok (by rwa [← size_selShape hok])

theorem rep_reshape {a r : AffArr K} {v : Val K} (ha : Rep x n a v) {l : List Int}
    (h : a.reshape l = some r) : ∃ w, Val.reshape v l = some w ∧ Rep x n r w := by
  obtain ⟨hna, hsa, hva⟩ := ha
  unfold AffArr.reshape at h
  obtain ⟨t, ht, rfl⟩ := Option.map_eq_some_iff.1 h
  refine ⟨_, by simp only [Val.reshape, hsa, ht]; rfl, hna, rfl, fun k hk => ?_⟩
  exact hva k (by rw [← reshapeShape_size ht]; exact hk)

theorem rep_transpose {a : AffArr K} {v : Val K} (ha : Rep x n a v) : Rep x n a.transpose (Val.transpose v) := by
  have := rep_gather ha a.shape.reverse (transposeSrc a.shape) fun k hk =>
    C05.transposeSrc_lt a.shape k (by rwa [size_reverse] at hk)
  simpa only [Val.transpose, AffArr.transpose, ha.2.1] using this

theorem rep_sumAll {a : AffArr K} {v : Val K} (ha : Rep x n a v) : Rep x n a.sumAll (Val.sumAll v) := by
  obtain ⟨hna, hsa, hva⟩ := ha
  refine ⟨hna, rfl, fun k _ => ?_⟩
  simp only [Val.sumAll, AffArr.sumAll, AffArr.eval, hsa]
  rw [eval_sum a x]
  congr 1
  exact map_congr_left fun j hj => hva j (by simpa using hj)

theorem rep_sumAxis {a r : AffArr K} {v : Val K} (ha : Rep x n a v) {axis : Int}
    (h : a.sumAxis axis = some r) : ∃ w, Val.sumAxis v axis = some w ∧ Rep x n r w := by
  unfold AffArr.sumAxis at h
  obtain ⟨oax, hax, rfl⟩ := Option.map_eq_some_iff.1 h
  cases oax with
  | none => exact ⟨v, by simp only [Val.sumAxis, ha.2.1, hax]; rfl, ha⟩
  | some ax =>
    obtain ⟨hna, hsa, hva⟩ := ha
    have hlt : ax < a.shape.length := by
      unfold sumAxisOf at hax
      split at hax
      · split at hax <;> simp at hax
      · obtain ⟨j, hj, hj'⟩ := Option.map_eq_some_iff.1 hax
        cases hj'
        exact normAxis_lt hj
    refine ⟨_, by simp only [Val.sumAxis, hsa, hax]; rfl, hna, rfl, fun o _ => ?_⟩
    simp only [AffArr.eval]
    rw [eval_sum a x]
    congr 1
    exact map_congr_left fun j hj => hva j (sumAxisGroups_lt hlt o j hj)

theorem rep_diag {a r : AffArr K} {v : Val K} (ha : Rep x n a v) {k : Int}
    (h : a.diag k = some r) : ∃ w, Val.diag v k = some w ∧ Rep x n r w := by
  unfold AffArr.diag at h
  split at h
  · rename_i rr cc hshape
    obtain ⟨t, ht, rfl⟩ := Option.map_eq_some_iff.1 h
    obtain ⟨rfl, _⟩ := nonEmpty_some ht
    refine ⟨_, by simp only [Val.diag, ha.2.1, hshape, ht]; rfl, ?_⟩
    exact rep_gather ha _ _ fun i hi => by
      rw [hshape]; exact diagIdx_getD_lt rr cc k (by simpa using hi)
  · simp at h

theorem rep_concat2 {a b r : AffArr K} {va vb : Val K} (ha : Rep x n a va) (hb : Rep x n b vb) {ax : ℕ}
    (h : AffArr.concat2 ax a b = some r) : ∃ v, Val.concat2 ax va vb = some v ∧ Rep x n r v := by
  obtain ⟨hna, hsa, hva⟩ := ha
  obtain ⟨hnb, hsb, hvb⟩ := hb
  unfold AffArr.concat2 at h
  obtain ⟨t, ht, rfl⟩ := Option.map_eq_some_iff.1 h
  refine ⟨_, by simp only [Val.concat2, hsa, hsb, ht]; rfl, hna, rfl, fun k hk => ?_⟩
  obtain ⟨b1, b2⟩ := concatSrc_bounds ht hk
  simp only [AffArr.eval]
  cases hc : ((concatSrc a.shape b.shape ax).getD k (false, 0)).1 with
  | false =>
    simp only [Bool.false_eq_true, if_false]
    rw [hva _ (b1 hc)]; rfl
  | true =>
    simp only [if_true]
    rw [hvb _ (b2 hc), AffArr.eval, hnb, hna]

theorem rep_promote (r : ℕ) {a : AffArr K} {v : Val K} (ha : Rep x n a v) :
    Rep x n (AffArr.promote r a) (Val.promote r v) := by
  obtain ⟨hna, hsa, hva⟩ := ha
  refine ⟨hna, by simp [Val.promote, AffArr.promote, hsa], fun k hk => ?_⟩
  exact hva k (by simpa [AffArr.promote, size_promote0] using hk)

theorem rep_foldl {ax : ℕ} {rest : List (AffArr K)} {vrest : List (Val K)} (h : Forall₂ (Rep x n) rest vrest)
    {a r : AffArr K} {va : Val K} (ha : Rep x n a va) (hr : rest.foldlM (AffArr.concat2 ax) a = some r) :
    ∃ v, vrest.foldlM (Val.concat2 ax) va = some v ∧ Rep x n r v := by
  induction h generalizing a va with
  | nil =>
    simp only [foldlM_nil, Option.pure_def, Option.some.injEq] at hr
    subst hr
    exact ⟨va, rfl, ha⟩
  | @cons b vb bs vbs hb _ ih =>
    simp only [foldlM_cons, Option.bind_eq_bind] at hr ⊢
    obtain ⟨a', ha', hr⟩ := Option.bind_eq_some_iff.1 hr
    obtain ⟨va', hva', hrep⟩ := rep_concat2 ha hb ha'
    rw [hva']
    exact ih hrep hr

theorem forall₂_shapes {arrs : List (AffArr K)} {vs : List (Val K)} (h : Forall₂ (Rep x n) arrs vs) :
    vs.map Prod.fst = arrs.map AffArr.shape := by
  induction h with
  | nil => rfl
  | cons h _ ih => simp [ih, h.2.1]

theorem forall₂_promote (r : ℕ) {arrs : List (AffArr K)} {vs : List (Val K)} (h : Forall₂ (Rep x n) arrs vs) :
    Forall₂ (Rep x n) (arrs.map (AffArr.promote r)) (vs.map (Val.promote r)) := by
  induction h with
  | nil => exact Forall₂.nil
  | cons h _ ih => exact Forall₂.cons (rep_promote r h) ih

theorem rep_concatN {arrs : List (AffArr K)} {vs : List (Val K)} (h : Forall₂ (Rep x n) arrs vs) {axis : Int}
    {r : AffArr K} (hr : AffArr.concatN axis arrs = some r) :
    ∃ v, Val.concatN axis vs = some v ∧ Rep x n r v := by
  unfold AffArr.concatN at hr
  unfold Val.concatN
  rw [forall₂_shapes h]
  have hp := forall₂_promote (maxRank (arrs.map AffArr.shape)) h
  revert hr hp
  generalize arrs.map (AffArr.promote (maxRank (arrs.map AffArr.shape))) = pa
  generalize vs.map (Val.promote (maxRank (arrs.map AffArr.shape))) = pv
  intro hr hp
  cases hp with
  | nil => simp at hr
  | cons h0 hrest =>
    simp only at hr ⊢
    obtain ⟨ax, hax, hr⟩ := Option.bind_eq_some_iff.1 hr
    rw [hax]
    exact rep_foldl hrest h0 hr

end Rep

/-! ## the shape of the result of every operator is the shape function of the language -/

section Shapes
variable {K : Type} [CommRing K]

omit [CommRing K] in
theorem map_shape_map {α : Type} (o : Option α) (f : α → AffArr K) (g : α → List ℕ)
    (h : ∀ t, (f t).shape = g t) : (o.map f).map AffArr.shape = o.map g := by
  cases o <;> simp [h]

omit [CommRing K] in
theorem map_fst_map {α : Type} (o : Option α) (f : α → Val K) (g : α → List ℕ)
    (h : ∀ t, (f t).1 = g t) : (o.map f).map Prod.fst = o.map g := by
  cases o <;> simp [h]

namespace AffArr

theorem var_shape (n first : ℕ) (s : List ℕ) :
    (AffArr.var n first s : Option (AffArr K)).map AffArr.shape = if first + size s ≤ n then nonEmpty s else none := by
  unfold AffArr.var
  split
  · rw [map_shape_map _ _ id fun _ => rfl]; simp
  · rfl

theorem const_shape (n : ℕ) (s : List ℕ) (d : ℕ → K) : (AffArr.const n s d).map AffArr.shape = nonEmpty s := by
  unfold AffArr.const
  rw [map_shape_map _ _ id fun _ => rfl]; simp

theorem add_shape (a b : AffArr K) : (a.add b).map AffArr.shape = broadcastShapes a.shape b.shape := by
  unfold AffArr.add
  rw [map_shape_map _ _ id fun _ => rfl]; simp

theorem sub_shape (a b : AffArr K) : (a.sub b).map AffArr.shape = broadcastShapes a.shape b.shape :=
  add_shape a b.neg

theorem mulc_shape (a : AffArr K) (cs : List ℕ) (c : ℕ → K) : (a.mulc cs c).map AffArr.shape = mulShape a.shape cs := by
  unfold AffArr.mulc
  rw [map_shape_map _ _ id fun _ => rfl]; simp

theorem matmulc_shape (a : AffArr K) (cs : List ℕ) (c : ℕ → K) :
    (a.matmulc cs c).map AffArr.shape = matmulShapeNE a.shape cs := by
  unfold AffArr.matmulc
  rw [map_shape_map _ _ id fun _ => rfl]; simp

theorem rmatmulc_shape (a : AffArr K) (cs : List ℕ) (c : ℕ → K) :
    (AffArr.rmatmulc cs c a).map AffArr.shape = matmulShapeNE cs a.shape := by
  unfold AffArr.rmatmulc
  rw [map_shape_map _ _ id fun _ => rfl]; simp

omit [CommRing K] in
theorem getitem_shape (a : AffArr K) (items : List Ix) : (a.getitem items).map AffArr.shape = getitemShape a.shape items := by
  unfold AffArr.getitem getitemShape
  cases getitemSels a.shape items with
  | none => rfl
  | some sels =>
    simp only [Option.bind_some]
    rw [map_shape_map _ _ id fun _ => rfl]; simp

omit [CommRing K] in
theorem reshape_shape (a : AffArr K) (l : List Int) : (a.reshape l).map AffArr.shape = reshapeShape (size a.shape) l := by
  unfold AffArr.reshape
  rw [map_shape_map _ _ id fun _ => rfl]; simp

theorem sumAxis_shape (a : AffArr K) (axis : Int) : (a.sumAxis axis).map AffArr.shape = sumAxisShape a.shape axis := by
  unfold AffArr.sumAxis sumAxisShape
  apply map_shape_map
  intro t
  cases t <;> rfl

omit [CommRing K] in
theorem diag_shape (a : AffArr K) (k : Int) : (a.diag k).map AffArr.shape = diagShape a.shape k := by
  unfold AffArr.diag diagShape
  split
  · rw [map_shape_map _ _ id fun _ => rfl]; simp
  · rfl

omit [CommRing K] in
theorem concat2_shape (ax : ℕ) (a b : AffArr K) :
    (AffArr.concat2 ax a b).map AffArr.shape = concatShape a.shape b.shape ax := by
  unfold AffArr.concat2
  rw [map_shape_map _ _ id fun _ => rfl]; simp

omit [CommRing K] in
theorem foldl_shape (ax : ℕ) (rest : List (AffArr K)) (a : AffArr K) :
    (rest.foldlM (AffArr.concat2 ax) a).map AffArr.shape =
      (rest.map AffArr.shape).foldlM (fun acc t => concatShape acc t ax) a.shape := by
  induction rest generalizing a with
  | nil => simp
  | cons b rest ih =>
    simp only [foldlM_cons, map_cons, Option.bind_eq_bind, ← concat2_shape]
    cases AffArr.concat2 ax a b with
    | none => rfl
    | some r => simpa using ih r

omit [CommRing K] in
theorem concatN_shape (axis : Int) (arrs : List (AffArr K)) :
    (AffArr.concatN axis arrs).map AffArr.shape = concatNShape axis (arrs.map AffArr.shape) := by
  unfold AffArr.concatN concatNShape
  have e : (arrs.map AffArr.shape).map (promote0 (maxRank (arrs.map AffArr.shape))) =
      (arrs.map (AffArr.promote (maxRank (arrs.map AffArr.shape)))).map AffArr.shape := by
    simp [AffArr.promote, Function.comp_def]
  rw [e]
  cases arrs.map (AffArr.promote (maxRank (arrs.map AffArr.shape))) with
  | nil => rfl
  | cons a rest =>
    simp only [map_cons]
    cases normAxis (maxRank (arrs.map AffArr.shape)) axis with
    | none => rfl
    | some ax => simpa using foldl_shape ax rest a

end AffArr

namespace Val

theorem add_shape (a b : Val K) : (Val.add a b).map Prod.fst = broadcastShapes a.1 b.1 := by
  unfold Val.add
  rw [map_fst_map _ _ id fun _ => rfl]; simp

theorem sub_shape (a b : Val K) : (Val.sub a b).map Prod.fst = broadcastShapes a.1 b.1 := by
  unfold Val.sub
  rw [map_fst_map _ _ id fun _ => rfl]; simp

theorem mulc_shape (a : Val K) (cs : List ℕ) (c : ℕ → K) : (Val.mulc a cs c).map Prod.fst = mulShape a.1 cs := by
  unfold Val.mulc
  rw [map_fst_map _ _ id fun _ => rfl]; simp

theorem rmulc_shape (a : Val K) (cs : List ℕ) (c : ℕ → K) : (Val.rmulc cs c a).map Prod.fst = mulShape a.1 cs := by
  unfold Val.rmulc
  rw [map_fst_map _ _ id fun _ => rfl]; simp

theorem matmulc_shape (a : Val K) (cs : List ℕ) (c : ℕ → K) :
    (Val.matmulc a cs c).map Prod.fst = matmulShapeNE a.1 cs := by
  unfold Val.matmulc
  rw [map_fst_map _ _ id fun _ => rfl]; simp

theorem rmatmulc_shape (a : Val K) (cs : List ℕ) (c : ℕ → K) :
    (Val.rmatmulc cs c a).map Prod.fst = matmulShapeNE cs a.1 := by
  unfold Val.rmatmulc
  rw [map_fst_map _ _ id fun _ => rfl]; simp

omit [CommRing K] in
theorem getitem_shape (a : Val K) (items : List Ix) : (Val.getitem a items).map Prod.fst = getitemShape a.1 items := by
  unfold Val.getitem getitemShape
  cases getitemSels a.1 items with
  | none => rfl
  | some sels =>
    simp only [Option.bind_some]
    rw [map_fst_map _ _ id fun _ => rfl]; simp

omit [CommRing K] in
theorem reshape_shape (a : Val K) (l : List Int) : (Val.reshape a l).map Prod.fst = reshapeShape (size a.1) l := by
  unfold Val.reshape
  rw [map_fst_map _ _ id fun _ => rfl]; simp

theorem sumAxis_shape (a : Val K) (axis : Int) : (Val.sumAxis a axis).map Prod.fst = sumAxisShape a.1 axis := by
  unfold Val.sumAxis sumAxisShape
  apply map_fst_map
  intro t
  cases t <;> rfl

omit [CommRing K] in
theorem diag_shape (a : Val K) (k : Int) : (Val.diag a k).map Prod.fst = diagShape a.1 k := by
  unfold Val.diag diagShape
  split
  · rw [map_fst_map _ _ id fun _ => rfl]; simp
  · rfl

omit [CommRing K] in
theorem concat2_shape (ax : ℕ) (a b : Val K) : (Val.concat2 ax a b).map Prod.fst = concatShape a.1 b.1 ax := by
  unfold Val.concat2
  rw [map_fst_map _ _ id fun _ => rfl]; simp

omit [CommRing K] in
theorem foldl_shape (ax : ℕ) (rest : List (Val K)) (a : Val K) :
    (rest.foldlM (Val.concat2 ax) a).map Prod.fst =
      (rest.map Prod.fst).foldlM (fun acc t => concatShape acc t ax) a.1 := by
  induction rest generalizing a with
  | nil => simp
  | cons b rest ih =>
    simp only [foldlM_cons, map_cons, Option.bind_eq_bind, ← concat2_shape]
    cases Val.concat2 ax a b with
    | none => rfl
    | some r => simpa using ih r

omit [CommRing K] in
theorem concatN_shape (axis : Int) (vs : List (Val K)) :
    (Val.concatN axis vs).map Prod.fst = concatNShape axis (vs.map Prod.fst) := by
  unfold Val.concatN concatNShape
  have e : (vs.map Prod.fst).map (promote0 (maxRank (vs.map Prod.fst))) =
      (vs.map (Val.promote (maxRank (vs.map Prod.fst)))).map Prod.fst := by
    simp [Val.promote, Function.comp_def]
  rw [e]
  cases vs.map (Val.promote (maxRank (vs.map Prod.fst))) with
  | nil => rfl
  | cons a rest =>
    simp only [map_cons]
    cases normAxis (maxRank (vs.map Prod.fst)) axis with
    | none => rfl
    | some ax => simpa using foldl_shape ax rest a

end Val

end Shapes

end RsomeV.AffE
