import RsomeV.M.DetModel
import RsomeV.L.AtomsSoc
import RsomeV.L.AtomsExpList
import RsomeV.L.IPConeEncSound
import RsomeV.L.IPConeEncComplete

/-! Helper lemmas for `RsomeV/Props/C06Model.lean` (whole deterministic formulation, model
`RsomeV/M/DetModel.lean`): rows embedded at an offset, the builder state (`St.WF`, `St.Sat`), one
A/M/I/E/S/Q constraint at an offset is its stand-alone program, support bookkeeping of the first loop
of `socp.do_math` (`IPC.branch`), the tower constraints of the second loop, the gcp layer as the
stand-alone program of `AExp.encodeAtoms`, and feasibility of the assembled program. -/

set_option linter.unusedSectionVars false
set_option linter.unusedSimpArgs false
set_option linter.unusedVariables false

namespace RsomeV.Det
open Finset RsomeV

variable {K : Type} [Field K] [LinearOrder K] [IsStrictOrderedRing K]

/-! ### rows over all columns -/

lemma embedRow_supp (b m : ℕ) (ρ : Row K) (j : ℕ) (hj : b + m ≤ j) : (embedRow b m ρ).lin j = 0 := by
  simp only [embedRow]
  rw [if_neg (by omega), if_neg (by omega)]

lemma embedRow_sum (b m N : ℕ) (hN : b + m ≤ N) (ρ : Row K) (v : ℕ → K) :
    ∑ j ∈ range N, (embedRow b m ρ).lin j * v j = ρ.val b m v := by
  have h1 : ∑ j ∈ range N, (embedRow b m ρ).lin j * v j =
      ∑ j ∈ range (b + m), (embedRow b m ρ).lin j * v j := by
    symm
    apply Finset.sum_subset (Finset.range_mono hN)
    intro j _ hj
    have : b + m ≤ j := by simpa using hj
    rw [embedRow_supp b m ρ j this, zero_mul]
  rw [h1, Finset.sum_range_add, Row.val]
  congr 1
  · apply Finset.sum_congr rfl
    intro j hj
    simp only [embedRow]
    rw [if_pos (Finset.mem_range.mp hj)]
  · apply Finset.sum_congr rfl
    intro t ht
    have ht' := Finset.mem_range.mp ht
    simp only [embedRow]
    rw [if_neg (by omega), if_pos (by omega), Nat.add_sub_cancel_left]

/-- a row of a stand-alone encoding holds in the whole model iff it holds stand-alone -/
lemma embedRow_holds (b m N : ℕ) (hN : b + m ≤ N) (ρ : Row K) (v : ℕ → K) :
    (embedRow b m ρ).Holds N v ↔ ρ.ok b m v := by
  simp only [AExp.ERow.Holds, Row.ok, embedRow_sum b m N hN]
  rfl

lemma ofIpcRow_holds (r : IPC.Row K) (N : ℕ) (v : ℕ → K) :
    (ofIpcRow r).Holds N v ↔ r.holds N v := Iff.rfl

/-! ### the builder state -/

/-- everything recorded so far only mentions columns created so far; bounds are consistent -/
structure St.WF (s : St K) : Prop where
  rows : ∀ r ∈ s.rows, ∀ j, s.last ≤ j → r.lin j = 0
  bcons : ∀ b ∈ s.bounds, b.Consistent
  bidx : ∀ b ∈ s.bounds, ∀ p ∈ b.entries, p.1 < s.last
  qmat : ∀ q ∈ s.qmat, ∀ j ∈ q, j < s.last

/-- the point `v` (a program with `N` columns) satisfies everything recorded so far -/
structure St.Sat (N : ℕ) (s : St K) (v : ℕ → K) : Prop where
  rows : ∀ r ∈ s.rows, r.Holds N v
  bnd : ∀ b ∈ s.bounds, ∀ p ∈ b.entries, if b.upper then v p.1 ≤ p.2 else p.2 ≤ v p.1
  soc : ∀ q ∈ s.qmat, socMem v q

lemma St.Sat.congr {N : ℕ} {s : St K} {v v' : ℕ → K} (hwf : s.WF) (hl : s.last ≤ N)
    (hv : ∀ j < s.last, v' j = v j) (h : s.Sat N v) : s.Sat N v' := by
  refine ⟨fun r hr => ?_, fun b hb p hp => ?_, fun q hq => ?_⟩
  · exact (AExp.ERow.holds_congr (hwf.rows r hr) hl hl hv).2 (h.rows r hr)
  · rw [hv p.1 (hwf.bidx b hb p hp)]; exact h.bnd b hb p hp
  · exact IPC.socMem_congr (hwf.qmat q hq) hv (h.soc q hq)

lemma St.WF.mono_rows {s : St K} (h : s.WF) {n : ℕ} (hn : s.last ≤ n) :
    ∀ r ∈ s.rows, ∀ j, n ≤ j → r.lin j = 0 := fun r hr j hj => h.rows r hr j (le_trans hn hj)

/-! ### one A / M / I / E / S / Q constraint at an offset -/

@[simp] lemma encodeAtom_n (xt : XType) (A : AtomIn K) : (encodeAtom xt A).n = A.n := by
  cases xt <;> rfl

@[simp] lemma at_n (A : AtomIn K) (b : ℕ) : (A.at b).n = b := rfl
@[simp] lemma at_k (A : AtomIn K) (b : ℕ) : (A.at b).k = A.k := rfl
@[simp] lemma at_r (A : AtomIn K) (b : ℕ) : (A.at b).r = A.r := rfl

lemma sum_trunc (n b : ℕ) (h : n ≤ b) (f : ℕ → K) (v : ℕ → K) :
    ∑ j ∈ range b, (if j < n then f j else 0) * v j = ∑ j ∈ range n, f j * v j := by
  symm
  rw [← Finset.sum_subset (Finset.range_mono h)]
  · apply Finset.sum_congr rfl
    intro j hj
    rw [if_pos (Finset.mem_range.mp hj)]
  · intro j _ hj
    have : ¬ j < n := by simpa using hj
    rw [if_neg this, zero_mul]

lemma at_inv (A : AtomIn K) (b : ℕ) (h : A.n ≤ b) (v : ℕ → K) (i : ℕ) :
    (A.at b).inv v i = A.inv v i := by
  simp only [AtomIn.inv, AtomIn.at]
  rw [sum_trunc A.n b h]

lemma at_outv (A : AtomIn K) (b : ℕ) (h : A.n ≤ b) (v : ℕ → K) (i : ℕ) :
    (A.at b).outv v i = A.outv v i := by
  simp only [AtomIn.outv, AtomIn.at]
  rw [sum_trunc A.n b h]

/-- bounds and cones of a stand-alone encoding: consistent, on the auxiliary block -/
lemma encodeAtom_aux_ok (xt : XType) (A : AtomIn K) :
    (∀ b ∈ (encodeAtom xt A).bounds, b.Consistent) ∧
    (∀ b ∈ (encodeAtom xt A).bounds, ∀ p ∈ b.entries, p.1 < A.n + (encodeAtom xt A).naux) ∧
    (∀ q ∈ (encodeAtom xt A).qmat, ∀ j ∈ q, j < A.n + (encodeAtom xt A).naux) := by
  cases xt
  · simp [encodeAtom, encA]
  · simp [encodeAtom, encM]
  · simp [encodeAtom, encI]
  · refine ⟨?_, ?_, ?_⟩
    · simp only [encodeAtom, encE, List.forall_mem_singleton]
      exact consistent_const _ 0 (by simp)
    · simp only [encodeAtom, encE, AtomEnc.naux, List.forall_mem_singleton, List.sum_cons, List.sum_nil]
      omega
    · simp only [encodeAtom, encE, AtomEnc.naux, List.sum_cons, List.sum_nil]
      intro q hq j hj
      simp only [List.mem_singleton] at hq
      subst hq
      simp only [List.mem_cons, List.mem_map, List.mem_range] at hj
      rcases hj with rfl | ⟨i, hi, rfl⟩ <;> omega
  · refine ⟨?_, ?_, ?_⟩
    · simp only [encodeAtom, encS, List.forall_mem_singleton]
      exact consistent_const _ 0 (by simp)
    · simp only [encodeAtom, encS, AtomEnc.naux, List.forall_mem_singleton, List.sum_cons, List.sum_nil,
        List.forall_mem_map, List.mem_range]
      intro i hi; omega
    · simp only [encodeAtom, encS, AtomEnc.naux, List.sum_cons, List.sum_nil, List.forall_mem_map,
        List.mem_range, List.mem_cons, List.not_mem_nil, or_false]
      rintro i hi j (rfl | rfl | rfl) <;> omega
  · refine ⟨?_, ?_, ?_⟩
    · simp only [encodeAtom, encQ, List.forall_mem_singleton]
      exact consistent_const _ 0 (by simp)
    · simp only [encodeAtom, encQ, AtomEnc.naux, List.forall_mem_singleton, List.sum_cons, List.sum_nil]
      omega
    · simp only [encodeAtom, encQ, AtomEnc.naux, List.sum_cons, List.sum_nil]
      intro q hq j hj
      simp only [List.mem_singleton] at hq
      subst hq
      simp only [List.mem_cons, List.mem_map, List.mem_range] at hj
      rcases hj with rfl | rfl | ⟨i, hi, rfl⟩ <;> omega

lemma addSoc_last (s : St K) (p : XType × AtomIn K) :
    (s.addSoc p).last = s.last + (encodeAtom p.1 (p.2.at s.last)).naux := rfl

lemma addSoc_last_le (s : St K) (p : XType × AtomIn K) : s.last ≤ (s.addSoc p).last := by
  rw [addSoc_last]; omega

lemma foldl_addSoc_last_le (l : List (XType × AtomIn K)) : ∀ s : St K, s.last ≤ (l.foldl St.addSoc s).last := by
  induction l with
  | nil => intro s; exact le_rfl
  | cons p l ih => intro s; exact le_trans (addSoc_last_le s p) (ih _)

lemma addSoc_wf (s : St K) (p : XType × AtomIn K) (h : s.WF) : (s.addSoc p).WF := by
  obtain ⟨c1, c2, c3⟩ := encodeAtom_aux_ok p.1 (p.2.at s.last)
  have hle := addSoc_last_le s p
  simp only [at_n] at c2 c3
  refine ⟨?_, ?_, ?_, ?_⟩
  · intro r hr j hj
    rcases List.mem_append.mp hr with hr | hr
    · exact h.rows r hr j (le_trans hle hj)
    · obtain ⟨ρ, _, rfl⟩ := List.mem_map.mp hr
      exact embedRow_supp _ _ ρ j hj
  · intro b hb
    rcases List.mem_append.mp hb with hb | hb
    · exact h.bcons b hb
    · exact c1 b hb
  · intro b hb q hq
    rcases List.mem_append.mp hb with hb | hb
    · exact lt_of_lt_of_le (h.bidx b hb q hq) hle
    · exact c2 b hb q hq
  · intro q hq j hj
    rcases List.mem_append.mp hq with hq | hq
    · exact lt_of_lt_of_le (h.qmat q hq j hj) hle
    · exact c3 q hq j hj

lemma foldl_addSoc_wf (l : List (XType × AtomIn K)) : ∀ s : St K, s.WF → (l.foldl St.addSoc s).WF := by
  induction l with
  | nil => intro s h; exact h
  | cons p l ih => intro s h; exact ih _ (addSoc_wf s p h)

/-- **one constraint at an offset is its stand-alone program**: the point satisfies the state after
the constraint iff it satisfies the state before and is feasible for the stand-alone standard form of
the constraint re-read over the columns that exist at that moment -/
theorem addSoc_sat_iff (s : St K) (p : XType × AtomIn K) (N : ℕ) (v : ℕ → K) (Ex : K → K → K → Prop)
    (hN : (s.addSoc p).last ≤ N) :
    (s.addSoc p).Sat N v ↔ s.Sat N v ∧ (encodeAtom p.1 (p.2.at s.last)).prog.Feas Ex v := by
  obtain ⟨c1, c2, c3⟩ := encodeAtom_aux_ok p.1 (p.2.at s.last)
  set E := encodeAtom p.1 (p.2.at s.last) with hE
  have hn : E.n = s.last := by rw [hE, encodeAtom_n, at_n]
  rw [addSoc_last] at hN
  rw [AtomEnc.feas_iff E Ex v c1 (by rw [hn]; simpa using c2)]
  rw [hn]
  constructor
  · intro h
    refine ⟨⟨fun r hr => h.rows r (List.mem_append_left _ hr),
      fun b hb => h.bnd b (List.mem_append_left _ hb),
      fun q hq => h.soc q (List.mem_append_left _ hq)⟩, ?_, ?_, ?_⟩
    · intro ρ hρ
      exact (embedRow_holds _ _ N hN ρ v).1
        (h.rows _ (List.mem_append_right _ (List.mem_map.mpr ⟨ρ, hρ, rfl⟩)))
    · exact fun b hb => h.bnd b (List.mem_append_right _ hb)
    · exact fun q hq => h.soc q (List.mem_append_right _ hq)
  · rintro ⟨h0, h1, h2, h3⟩
    refine ⟨?_, ?_, ?_⟩
    · intro r hr
      rcases List.mem_append.mp hr with hr | hr
      · exact h0.rows r hr
      · obtain ⟨ρ, hρ, rfl⟩ := List.mem_map.mp hr
        exact (embedRow_holds _ _ N hN ρ v).2 (h1 ρ hρ)
    · intro b hb
      rcases List.mem_append.mp hb with hb | hb
      · exact h0.bnd b hb
      · exact h2 b hb
    · intro q hq
      rcases List.mem_append.mp hq with hq | hq
      · exact h0.soc q hq
      · exact h3 q hq

/-! ### a list of A / M / I / E / S / Q constraints -/

/-- a point that satisfies the state after a list of constraints satisfies the state before and is
feasible for the stand-alone program of every constraint, read at the offset `b` where it was placed -/
theorem foldl_addSoc_sound (Ex : K → K → K → Prop) (N : ℕ) (v : ℕ → K) (l : List (XType × AtomIn K)) :
    ∀ s : St K, (l.foldl St.addSoc s).last ≤ N → (l.foldl St.addSoc s).Sat N v →
      s.Sat N v ∧ ∀ p ∈ l, ∃ b, s.last ≤ b ∧ (encodeAtom p.1 (p.2.at b)).prog.Feas Ex v := by
  induction l with
  | nil => intro s _ h; exact ⟨h, by simp⟩
  | cons p l ih =>
    intro s hN h
    rw [List.foldl_cons] at hN h
    obtain ⟨h1, h2⟩ := ih (s.addSoc p) hN h
    have hN1 : (s.addSoc p).last ≤ N := le_trans (foldl_addSoc_last_le l _) hN
    obtain ⟨h3, h4⟩ := (addSoc_sat_iff s p N v Ex hN1).1 h1
    refine ⟨h3, ?_⟩
    intro q hq
    rcases List.mem_cons.mp hq with rfl | hq
    · exact ⟨s.last, le_rfl, h4⟩
    · obtain ⟨b, hb, hf⟩ := h2 q hq
      exact ⟨b, le_trans (addSoc_last_le s _) hb, hf⟩

/-- if every constraint of the list can be completed at every offset (whatever the columns created
before it hold), the state after the list can be satisfied without touching the columns that exist -/
theorem foldl_addSoc_complete (Ex : K → K → K → Prop) (N n : ℕ) (x : ℕ → K)
    (l : List (XType × AtomIn K))
    (hstep : ∀ p ∈ l, ∀ b, n ≤ b → ∀ w0 : ℕ → K, (∀ j < n, w0 j = x j) →
      ∃ w', (∀ j < b, w' j = w0 j) ∧ (encodeAtom p.1 (p.2.at b)).prog.Feas Ex w') :
    ∀ (s : St K) (w : ℕ → K), s.WF → n ≤ s.last → (l.foldl St.addSoc s).last ≤ N →
      (∀ j < n, w j = x j) → s.Sat N w →
      ∃ w', (∀ j < s.last, w' j = w j) ∧ (l.foldl St.addSoc s).Sat N w' := by
  induction l with
  | nil => intro s w _ _ _ _ h; exact ⟨w, fun _ _ => rfl, h⟩
  | cons p l ih =>
    intro s w hwf hn hN hw hs
    rw [List.foldl_cons] at hN ⊢
    have hN1 : (s.addSoc p).last ≤ N := le_trans (foldl_addSoc_last_le l _) hN
    have hle := addSoc_last_le s p
    obtain ⟨w1, hw1, hf1⟩ := hstep p List.mem_cons_self s.last hn w hw
    have hs1 : (s.addSoc p).Sat N w1 :=
      (addSoc_sat_iff s p N w1 Ex hN1).2 ⟨hs.congr hwf (le_trans hle hN1) hw1, hf1⟩
    obtain ⟨w2, hw2, hs2⟩ := ih (fun q hq => hstep q (List.mem_cons_of_mem _ hq)) (s.addSoc p) w1
      (addSoc_wf s p hwf) (le_trans hn hle) hN (fun j hj => by rw [hw1 j (by omega), hw j hj]) hs1
    exact ⟨w2, fun j hj => by rw [hw2 j (by omega), hw1 j hj], hs2⟩

end RsomeV.Det

/-! ### support bookkeeping of the socp layer -/

namespace RsomeV.IPC
open Finset
variable {K : Type} [Field K] [LinearOrder K] [IsStrictOrderedRing K]

/-- the second loop keeps the invariant (pure version of `process_complete`) -/
lemma process_inv (st : Bld K) (p : Pend K) (hinv : Inv st) (hps : p.Supp st.last) :
    Inv (process st p) := by
  cases p with
  | abs L S =>
    refine ⟨?_, hinv.qmat, hinv.lb0⟩
    intro r hr
    simp only [process] at hr ⊢
    rcases List.mem_append.mp hr with hr | hr
    · exact hinv.rows r hr
    · simp only [List.mem_cons, List.not_mem_nil, or_false] at hr
      rcases hr with rfl | rfl
      · exact leRow_supp (userOnly_add hps.1 (userOnly_neg hps.2))
      · exact leRow_supp (userOnly_add (userOnly_neg hps.1) (userOnly_neg hps.2))
  | cone L U V =>
    obtain ⟨hL, hU, hV⟩ := hps
    refine ⟨?_, ?_, ?_⟩
    · intro r hr
      simp only [process] at hr ⊢
      rcases List.mem_append.mp hr with hr | hr
      · exact fun j hj => hinv.rows r hr j (by omega)
      · simp only [List.mem_cons, List.not_mem_nil, or_false] at hr
        rcases hr with rfl | rfl | rfl
        · exact eqRow_supp (userOnly_sub (userOnly_smul _ (userOnly_sub
            (userOnly_mono hU (by omega)) (userOnly_mono hV (by omega)))) (userOnly_col (by omega)))
        · exact eqRow_supp (userOnly_sub (userOnly_mono hL (by omega)) (userOnly_col (by omega)))
        · exact leRow_supp (userOnly_add (userOnly_neg (userOnly_smul _ (userOnly_add
            (userOnly_mono hU (by omega)) (userOnly_mono hV (by omega))))) (userOnly_col (by omega)))
    · intro q hq j hj
      simp only [process] at hq ⊢
      rcases List.mem_append.mp hq with hq | hq
      · have := hinv.qmat q hq j hj; omega
      · simp only [List.mem_cons, List.not_mem_nil, or_false] at hq
        subst hq
        simp only [List.mem_cons, List.not_mem_nil, or_false] at hj
        omega
    · intro j hj
      simp only [process] at hj ⊢
      rcases List.mem_append.mp hj with hj | hj
      · have := hinv.lb0 j hj; omega
      · simp only [List.mem_cons, List.not_mem_nil, or_false] at hj
        omega

lemma foldl_process_inv : ∀ (pend : List (Pend K)) (st : Bld K), Inv st →
    (∀ p ∈ pend, p.Supp st.last) → Inv (pend.foldl process st)
  | [], st, h, _ => h
  | p :: ps, st, h, hs => by
    rw [List.foldl_cons]
    exact foldl_process_inv ps _ (process_inv st p h (hs p List.mem_cons_self))
      (fun q hq => Pend.supp_mono (hs q (List.mem_cons_of_mem _ hq)) (process_last_le st p))

/-- the constraints a tower returns only mention the columns that exist after it
(pure version of `tower_complete`) -/
lemma tower_supp {st st1 : Bld K} {left : Aff K} {right : List (Aff K)} {β : List ℕ}
    {pend : List (Pend K)} (hne : β ≠ []) (hpos : ∀ b ∈ β, 1 ≤ b)
    (h : tower st left right β = some (st1, pend))
    (hl : left.UserOnly st.last) (hr : ∀ a ∈ right, a.UserOnly st.last) :
    ∀ p ∈ pend, p.Supp st1.last := by
  unfold tower at h
  cases ho : toSoc β with
  | none => rw [ho] at h; simp at h
  | some out =>
    rw [ho] at h
    simp only [Option.some.injEq, Prod.mk.injEq] at h
    obtain ⟨rfl, rfl⟩ := h
    obtain ⟨hva, hvc⟩ := toSoc_vars hne hpos ho
    intro p hp
    rcases List.mem_append.mp hp with hp | hp
    · obtain ⟨q, hq, rfl⟩ := List.mem_map.mp hp
      obtain ⟨o1, o2⟩ := hva q hq
      exact ⟨towerVal_supp hl hr o1, towerVal_supp hl hr o2⟩
    · obtain ⟨c, hc, rfl⟩ := List.mem_map.mp hp
      obtain ⟨o1, o2, o3⟩ := hvc c hc
      exact ⟨towerVal_supp hl hr o1, towerVal_supp hl hr o2, towerVal_supp hl hr o3⟩

/-- a tower job is well formed on a model with `n` columns -/
def JobOK (n : ℕ) (job : Aff K × List (Aff K) × List ℕ) : Prop :=
  job.2.2 ≠ [] ∧ (∀ b ∈ job.2.2, 1 ≤ b) ∧ job.1.UserOnly n ∧ ∀ a ∈ job.2.1, a.UserOnly n

lemma towers_supp : ∀ (jobs : List (Aff K × List (Aff K) × List ℕ)) (st st' : Bld K)
    (pend : List (Pend K)), towers st jobs = some (st', pend) →
    (∀ job ∈ jobs, JobOK st.last job) → ∀ p ∈ pend, p.Supp st'.last
  | [], st, st', pend, h, _ => by
    simp only [towers, Option.some.injEq, Prod.mk.injEq] at h
    obtain ⟨rfl, rfl⟩ := h
    simp
  | (l, r, β) :: rest, st, st', pend, h, hj => by
    simp only [towers] at h
    cases h1 : tower st l r β with
    | none => rw [h1] at h; simp at h
    | some res1 =>
      obtain ⟨st1, p1⟩ := res1
      rw [h1] at h
      simp only at h
      cases h2 : towers st1 rest with
      | none => rw [h2] at h; simp at h
      | some res2 =>
        obtain ⟨st2, p2⟩ := res2
        rw [h2] at h
        simp only [Option.some.injEq, Prod.mk.injEq] at h
        obtain ⟨rfl, rfl⟩ := h
        obtain ⟨_, _, hle1, _⟩ := tower_spec h1
        obtain ⟨_, _, hle2, _⟩ := towers_spec rest st1 st2 p2 h2
        obtain ⟨hne, hpos, hl, hr⟩ := hj (l, r, β) List.mem_cons_self
        have hs1 := tower_supp hne hpos h1 hl hr
        have hs2 := towers_supp rest st1 st2 p2 h2 (fun job hjob => by
          obtain ⟨a, b, c, d⟩ := hj job (List.mem_cons_of_mem _ hjob)
          exact ⟨a, b, userOnly_mono c hle1, fun x hx => userOnly_mono (d x hx) hle1⟩)
        intro p hp
        rcases List.mem_append.mp hp with hp | hp
        · exact Pend.supp_mono (hs1 p hp) hle2
        · exact hs2 p hp

/-- parameters `do_math` can build towers for: weights `≥ 1` ('G': `[b, a-b]`, 'C'), exponents
`p/q ≥ 1` with `q ≥ 1` ('T') -/
def Params.OK : Params → Prop
  | .g β => β ≠ [] ∧ ∀ b ∈ β, 1 ≤ b
  | .t items => ∀ it ∈ items, 1 ≤ it.2.2 ∧ it.2.2 ≤ it.2.1
  | .c β => β ≠ [] ∧ ∀ b ∈ β, 1 ≤ b

/-- **the first loop at an offset**: the state a G / T / C constraint leaves only mentions columns
that exist, records no cone or bound, and its tower constraints only mention existing columns -/
theorem branch_inv {b : ℕ} {k : K} {ain aout : List (Aff K)} {pr : Params} {st0 : Bld K}
    {pend : List (Pend K)} (h : branch b k ain aout pr = some (st0, pend))
    (hin : ∀ a ∈ ain, a.UserOnly b) (hout : ∀ a ∈ aout, a.UserOnly b) (hpr : pr.OK) :
    b ≤ st0.last ∧ Inv st0 ∧ st0.qmat = [] ∧ st0.lb0 = [] ∧ ∀ p ∈ pend, p.Supp st0.last := by
  cases pr with
  | g β =>
    obtain ⟨hne, hpos⟩ := hpr
    simp only [branch] at h
    obtain ⟨est, hle⟩ := towers_state _ _ _ _ h
    set n := ain.length with hn
    have hlastG : (gInit b ain aout).last = b + n + 1 := rfl
    have hle' : b + n + 1 ≤ st0.last := hle
    have hsumS : (Aff.sum ((List.range n).map fun j => (Aff.col (b + j) : Aff K))).UserOnly
        (b + n + 1) := by
      apply userOnly_sum
      intro a ha
      obtain ⟨j, hj, rfl⟩ := List.mem_map.mp ha
      exact userOnly_col (by have := List.mem_range.mp hj; omega)
    have hinvG : Inv (gInit b ain aout) := by
      refine ⟨?_, by simp [gInit], by simp [gInit]⟩
      intro r hr
      simp only [gInit, List.mem_cons, List.not_mem_nil, or_false] at hr
      rcases hr with rfl | rfl
      · exact leRow_supp (userOnly_add (userOnly_col (by omega))
          (userOnly_mono (getD_userOnly hout 0) (by omega)))
      · exact leRow_supp (userOnly_sub hsumS (userOnly_col (by omega)))
    have hs := towers_supp _ _ _ _ h (by
      intro job hjob
      obtain ⟨j, hj, rfl⟩ := List.mem_map.mp hjob
      have hj' := List.mem_range.mp hj
      refine ⟨hne, hpos, ?_, ?_⟩
      · exact userOnly_smul _ (userOnly_mono (getD_userOnly hin j) (by rw [hlastG]; omega))
      · intro a ha
        simp only [List.mem_cons, List.not_mem_nil, or_false] at ha
        rcases ha with rfl | rfl
        · exact userOnly_col (by rw [hlastG]; omega)
        · exact userOnly_col (by rw [hlastG]; omega))
    refine ⟨by omega, by rw [est]; exact hinvG.setLast hle, by rw [est]; rfl, by rw [est]; rfl, hs⟩
  | c β =>
    obtain ⟨hne, hpos⟩ := hpr
    simp only [branch] at h
    obtain ⟨est, hle⟩ := tower_state h
    have hle' : b + 1 ≤ st0.last := hle
    have hinvC : Inv (cInit b k aout) := by
      refine ⟨?_, by simp [cInit], by simp [cInit]⟩
      intro r hr
      simp only [cInit, List.mem_cons, List.not_mem_nil, or_false] at hr
      subst hr
      exact leRow_supp (userOnly_add (userOnly_smul _ (userOnly_col (by simp [cInit])))
        (userOnly_mono (getD_userOnly hout 0) (by simp [cInit])))
    have hs := tower_supp hne hpos h (userOnly_col (by simp [cInit]))
      (fun x hx => userOnly_mono (hin x hx) (by simp [cInit]))
    refine ⟨by omega, by rw [est]; exact hinvC.setLast hle, by rw [est]; rfl, by rw [est]; rfl, hs⟩
  | t items =>
    simp only [branch] at h
    cases ht : towers (tInit b ain items) (tJobs b ain items) with
    | none => rw [ht] at h; simp at h
    | some res1 =>
      obtain ⟨st1, pend1⟩ := res1
      rw [ht] at h
      simp only [Option.some.injEq, Prod.mk.injEq] at h
      obtain ⟨rfl, rfl⟩ := h
      obtain ⟨est, hle⟩ := towers_state _ _ _ _ ht
      set s := items.length with hs
      have hlastT : (tInit b ain items).last = b + 2 * s := rfl
      have hle' : b + 2 * s ≤ st1.last := hle
      have hinvT : Inv (tInit b ain items) := by
        refine ⟨?_, by simp [tInit], by simp [tInit]⟩
        intro r hr
        simp only [tInit] at hr
        obtain ⟨⟨i, it⟩, hmem, hr⟩ := List.mem_flatMap.mp hr
        obtain ⟨hi, rfl⟩ := of_mem_zip_range hmem
        simp only [tAbsRows] at hr
        split_ifs at hr with he
        · simp only [List.mem_cons, List.not_mem_nil, or_false] at hr
          rcases hr with rfl | rfl
          · exact leRow_supp (userOnly_sub (userOnly_mono (getD_userOnly hin _) (by rw [hlastT]; omega))
              (userOnly_col (by rw [hlastT]; omega)))
          · exact leRow_supp (userOnly_sub (userOnly_neg (userOnly_col (by rw [hlastT]; omega)))
              (userOnly_mono (getD_userOnly hin _) (by rw [hlastT]; omega)))
        · simp at hr
      have hs2 := towers_supp _ _ _ _ ht (by
        intro job hjob
        obtain ⟨⟨i, it⟩, hmem, hj⟩ := List.mem_filterMap.mp hjob
        obtain ⟨hi, rfl⟩ := of_mem_zip_range hmem
        simp only [tJob] at hj
        split_ifs at hj with he
        obtain rfl := Option.some.inj hj
        obtain ⟨q1, q2⟩ := hpr _ (List.getElem_mem hi)
        refine ⟨by simp, pos_two q1 (by omega), ?_, ?_⟩
        · exact userOnly_mono (getD_userOnly hin _) (by rw [hlastT]; omega)
        · intro a ha
          simp only [List.mem_cons, List.not_mem_nil, or_false] at ha
          rcases ha with rfl | rfl
          · exact userOnly_col (by rw [hlastT]; omega)
          · exact userOnly_col (by rw [hlastT]; omega))
      have hinv1 : Inv st1 := by rw [est]; exact hinvT.setLast hle
      refine ⟨by show b ≤ st1.last; omega, ⟨?_, hinv1.qmat, hinv1.lb0⟩,
        by show st1.qmat = []; rw [est]; rfl, by show st1.lb0 = []; rw [est]; rfl, hs2⟩
      intro r hr
      rcases List.mem_append.mp hr with hr | hr
      · exact hinv1.rows r hr
      · simp only [tTail] at hr
        rcases List.mem_append.mp hr with hr | hr
        · obtain ⟨i, hi, rfl⟩ := List.mem_map.mp hr
          have hi' := List.mem_range.mp hi
          exact eqRow_supp (userOnly_sub (userOnly_col (by show _ < st1.last; omega))
            (userOnly_const _ _))
        · obtain ⟨i, hi, rfl⟩ := List.mem_map.mp hr
          have hi' := List.mem_range.mp hi
          exact leRow_supp (userOnly_add (userOnly_col (by show _ < st1.last; omega))
            (userOnly_smul _ (userOnly_mono (getD_userOnly hout i) (by show _ ≤ st1.last; omega))))

end RsomeV.IPC

/-! ### a G / T / C constraint at an offset and its stand-alone program -/

namespace RsomeV.IPC
open Finset
variable {K : Type} [Field K] [LinearOrder K] [IsStrictOrderedRing K]

lemma Row.holds_N {r : Row K} {n N N' : ℕ} (hs : r.Supp n) (hN : n ≤ N) (hN' : n ≤ N') {v v' : ℕ → K}
    (hv : ∀ j < n, v' j = v j) : r.holds N v ↔ r.holds N' v' := by
  simp only [Row.holds]
  rw [AExp.sum_supp_congr r.lin hs hN hN' (fun j hj => (hv j hj).symm)]

lemma ev_N {a : Aff K} {n N N' : ℕ} (hs : a.UserOnly n) (hN : n ≤ N) (hN' : n ≤ N') {v v' : ℕ → K}
    (hv : ∀ j < n, v' j = v j) : a.ev N v = a.ev N' v' := by
  simp only [Aff.ev]
  rw [AExp.sum_supp_congr a.lin hs hN hN' (fun j hj => (hv j hj).symm)]

lemma Pend.holds_N {p : Pend K} {n N N' : ℕ} (hs : p.Supp n) (hN : n ≤ N) (hN' : n ≤ N')
    {v v' : ℕ → K} (hv : ∀ j < n, v' j = v j) : p.holds N v ↔ p.holds N' v' := by
  cases p with
  | abs L S =>
    simp only [Pend.holds]
    rw [ev_N hs.1 hN hN' hv, ev_N hs.2 hN hN' hv]
  | cone L U V =>
    simp only [Pend.holds]
    rw [ev_N hs.1 hN hN' hv, ev_N hs.2.1 hN hN' hv, ev_N hs.2.2 hN hN' hv]

lemma atomEncode_of_branch [DecidableEq K] {b : ℕ} {k : K} {ain aout : List (Aff K)} {pr : Params}
    {st0 : Bld K} {pend : List (Pend K)} (h : branch b k ain aout pr = some (st0, pend)) :
    atomEncode b k ain aout pr = some (assemble (pend.foldl process st0)) := by
  simp [atomEncode, finalState, h]

/-- **whole model → stand-alone program**: if the rows of the first loop and the tower constraints of
a G / T / C constraint placed at offset `b` hold at `v`, the stand-alone standard form of the constraint
on a model with `b` columns has a feasible point that agrees with `v` on those `b` columns (and on
the columns of the first loop) -/
theorem std_feas_of_whole {b : ℕ} {k : K} {ain aout : List (Aff K)} {pr : Params} {st0 : Bld K}
    {pend : List (Pend K)} (h : branch b k ain aout pr = some (st0, pend))
    (hin : ∀ a ∈ ain, a.UserOnly b) (hout : ∀ a ∈ aout, a.UserOnly b) (hpr : pr.OK)
    (E : K → K → K → Prop) (N : ℕ) (v : ℕ → K) (hN : st0.last ≤ N)
    (hrows : ∀ r ∈ st0.rows, r.holds N v) (hp : ∀ p ∈ pend, p.holds N v) :
    ∃ v' : ℕ → K, (∀ j < st0.last, v' j = v j) ∧ (assemble (pend.foldl process st0)).Feas E v' := by
  obtain ⟨hb, hinv, hq, hl, hs⟩ := branch_inv h hin hout hpr
  have hN' : st0.last ≤ (pend.foldl process st0).last := foldl_process_last_le pend st0
  apply finish_complete E v hinv hs
  · intro p hp'
    exact (Pend.holds_N (hs p hp') hN hN' (fun _ _ => rfl)).1 (hp p hp')
  · refine ⟨fun r hr => ?_, by rw [hq]; simp, by rw [hl]; simp⟩
    exact (Row.holds_N (hinv.rows r hr) hN hN' (fun _ _ => rfl)).1 (hrows r hr)

/-- **stand-alone program → whole model**: a feasible point of the stand-alone standard form satisfies
the rows of the first loop and the tower constraints, read in a program with `N` columns -/
theorem whole_of_std_feas {b : ℕ} {k : K} {ain aout : List (Aff K)} {pr : Params} {st0 : Bld K}
    {pend : List (Pend K)} (h : branch b k ain aout pr = some (st0, pend))
    (hin : ∀ a ∈ ain, a.UserOnly b) (hout : ∀ a ∈ aout, a.UserOnly b) (hpr : pr.OK)
    (E : K → K → K → Prop) (u : ℕ → K) (hf : (assemble (pend.foldl process st0)).Feas E u)
    (N : ℕ) (hN : st0.last ≤ N) :
    (∀ r ∈ st0.rows, r.holds N u) ∧ ∀ p ∈ pend, p.holds N u := by
  obtain ⟨hb, hinv, hq, hl, hs⟩ := branch_inv h hin hout hpr
  have hN' : st0.last ≤ (pend.foldl process st0).last := foldl_process_last_le pend st0
  obtain ⟨g1, g2⟩ := foldl_process_good _ u pend st0 (good_of_feas _ E u hf)
  refine ⟨fun r hr => ?_, fun p hp => ?_⟩
  · exact (Row.holds_N (hinv.rows r hr) hN' hN (fun _ _ => rfl)).1 (g1.rows r hr)
  · exact (Pend.holds_N (hs p hp) hN' hN (fun _ _ => rfl)).1 (g2 p hp)

end RsomeV.IPC

namespace RsomeV.Det
open Finset RsomeV
variable {K : Type} [Field K] [LinearOrder K] [IsStrictOrderedRing K]

/-! ### the first loop of the socp layer -/

/-- a G / T / C constraint of the description -/
abbrev IpcAtom (K : Type) := K × List (IPC.Aff K) × List (IPC.Aff K) × IPC.Params

/-- the data only mention the `n` user columns; the parameters are valid -/
def IpcOK (n : ℕ) (a : IpcAtom K) : Prop :=
  (∀ e ∈ a.2.1, e.UserOnly n) ∧ (∀ e ∈ a.2.2.1, e.UserOnly n) ∧ a.2.2.2.OK

lemma IpcOK.mono {n b : ℕ} {a : IpcAtom K} (h : IpcOK n a) (hb : n ≤ b) :
    (∀ e ∈ a.2.1, e.UserOnly b) ∧ (∀ e ∈ a.2.2.1, e.UserOnly b) ∧ a.2.2.2.OK :=
  ⟨fun e he => IPC.userOnly_mono (h.1 e he) hb, fun e he => IPC.userOnly_mono (h.2.1 e he) hb, h.2.2⟩

/-- **first loop, soundness**: if all rows of the first loop and all tower constraints hold at `v`,
every G / T / C constraint has — at the offset `b'` where it was placed — a feasible stand-alone
standard form, at a point that agrees with `v` on the `b'` columns that existed -/
theorem ipcLoop_sound (E : K → K → K → Prop) (N n : ℕ) (v : ℕ → K) :
    ∀ (atoms : List (IpcAtom K)) (b l : ℕ) (rows : List (IPC.Row K)) (pend : List (IPC.Pend K)),
    n ≤ b → (∀ a ∈ atoms, IpcOK n a) → ipcLoop b atoms = some (l, rows, pend) → l ≤ N →
    (∀ r ∈ rows, r.holds N v) → (∀ p ∈ pend, p.holds N v) →
    b ≤ l ∧ ∀ a ∈ atoms, ∃ (b' : ℕ) (P : ConeProg K) (v' : ℕ → K), n ≤ b' ∧
      IPC.atomEncode b' a.1 a.2.1 a.2.2.1 a.2.2.2 = some P ∧ (∀ j < b', v' j = v j) ∧ P.Feas E v'
  | [], b, l, rows, pend, _, _, h, _, _, _ => by
    simp only [ipcLoop, Option.some.injEq, Prod.mk.injEq] at h
    exact ⟨by omega, by simp⟩
  | (k, ain, aout, pr) :: rest, b, l, rows, pend, hb, hok, h, hl, hr, hp => by
    simp only [ipcLoop] at h
    cases h1 : IPC.branch b k ain aout pr with
    | none => rw [h1] at h; simp at h
    | some res1 =>
      obtain ⟨st0, pend0⟩ := res1
      rw [h1] at h
      simp only at h
      cases h2 : ipcLoop st0.last rest with
      | none => rw [h2] at h; simp at h
      | some res2 =>
        obtain ⟨l2, rows2, pend2⟩ := res2
        rw [h2] at h
        simp only [Option.some.injEq, Prod.mk.injEq] at h
        obtain ⟨rfl, rfl, rfl⟩ := h
        obtain ⟨hin, hout, hpr⟩ := (hok _ List.mem_cons_self).mono hb
        obtain ⟨hb0, hinv, _, _, hs⟩ := IPC.branch_inv h1 hin hout hpr
        obtain ⟨i1, i2⟩ := ipcLoop_sound E N n v rest st0.last l2 rows2 pend2 (le_trans hb hb0)
          (fun a ha => hok a (List.mem_cons_of_mem _ ha)) h2 hl
          (fun r hr' => hr r (List.mem_append_right _ hr'))
          (fun p hp' => hp p (List.mem_append_right _ hp'))
        refine ⟨le_trans hb0 i1, ?_⟩
        intro a ha
        rcases List.mem_cons.mp ha with rfl | ha
        · obtain ⟨v', hv', hf⟩ := IPC.std_feas_of_whole h1 hin hout hpr E N v (le_trans i1 hl)
            (fun r hr' => hr r (List.mem_append_left _ hr'))
            (fun p hp' => hp p (List.mem_append_left _ hp'))
          exact ⟨b, _, v', hb, IPC.atomEncode_of_branch h1, fun j hj => hv' j (by omega), hf⟩
        · exact i2 a ha

/-- **first loop, completeness**: if every G / T / C constraint can be completed stand-alone at every
offset, the rows of the first loop and all tower constraints can be satisfied without touching the
columns that existed before the loop; they only mention columns created by the loop -/
theorem ipcLoop_complete (E : K → K → K → Prop) (N n : ℕ) (x : ℕ → K) :
    ∀ (atoms : List (IpcAtom K)),
    (∀ a ∈ atoms, ∀ b, n ≤ b → ∀ P, IPC.atomEncode b a.1 a.2.1 a.2.2.1 a.2.2.2 = some P →
      ∀ w0 : ℕ → K, (∀ j < n, w0 j = x j) → ∃ u : ℕ → K, (∀ j < b, u j = w0 j) ∧ P.Feas E u) →
    ∀ (b l : ℕ) (rows : List (IPC.Row K)) (pend : List (IPC.Pend K)) (w : ℕ → K),
    n ≤ b → (∀ a ∈ atoms, IpcOK n a) → ipcLoop b atoms = some (l, rows, pend) → l ≤ N →
    (∀ j < n, w j = x j) →
    b ≤ l ∧ (∀ r ∈ rows, r.Supp l) ∧ (∀ p ∈ pend, p.Supp l) ∧
    ∃ w' : ℕ → K, (∀ j < b, w' j = w j) ∧ (∀ r ∈ rows, r.holds N w') ∧ ∀ p ∈ pend, p.holds N w'
  | [], _, b, l, rows, pend, w, _, _, h, _, _ => by
    simp only [ipcLoop, Option.some.injEq, Prod.mk.injEq] at h
    obtain ⟨rfl, rfl, rfl⟩ := h
    exact ⟨le_rfl, by simp, by simp, w, fun _ _ => rfl, by simp, by simp⟩
  | (k, ain, aout, pr) :: rest, hstep, b, l, rows, pend, w, hb, hok, h, hl, hw => by
    simp only [ipcLoop] at h
    cases h1 : IPC.branch b k ain aout pr with
    | none => rw [h1] at h; simp at h
    | some res1 =>
      obtain ⟨st0, pend0⟩ := res1
      rw [h1] at h
      simp only at h
      cases h2 : ipcLoop st0.last rest with
      | none => rw [h2] at h; simp at h
      | some res2 =>
        obtain ⟨l2, rows2, pend2⟩ := res2
        rw [h2] at h
        simp only [Option.some.injEq, Prod.mk.injEq] at h
        obtain ⟨rfl, rfl, rfl⟩ := h
        obtain ⟨hin, hout, hpr⟩ := (hok _ List.mem_cons_self).mono hb
        obtain ⟨hb0, hinv, _, _, hs⟩ := IPC.branch_inv h1 hin hout hpr
        obtain ⟨u, hu, hf⟩ := hstep _ List.mem_cons_self b hb _ (IPC.atomEncode_of_branch h1) w hw
        obtain ⟨i1, i2, i3, w', hw', i4, i5⟩ := ipcLoop_complete E N n x rest
          (fun a ha => hstep a (List.mem_cons_of_mem _ ha)) st0.last l2 rows2 pend2 u
          (le_trans hb hb0) (fun a ha => hok a (List.mem_cons_of_mem _ ha)) h2 hl
          (fun j hj => by rw [hu j (by omega), hw j hj])
        obtain ⟨g1, g2⟩ := IPC.whole_of_std_feas h1 hin hout hpr E u hf N (le_trans i1 hl)
        refine ⟨le_trans hb0 i1, ?_, ?_, w', fun j hj => by rw [hw' j (by omega), hu j hj], ?_, ?_⟩
        · intro r hr
          rcases List.mem_append.mp hr with hr | hr
          · exact fun j hj => hinv.rows r hr j (le_trans i1 hj)
          · exact i2 r hr
        · intro p hp
          rcases List.mem_append.mp hp with hp | hp
          · exact IPC.Pend.supp_mono (hs p hp) i1
          · exact i3 p hp
        · intro r hr
          rcases List.mem_append.mp hr with hr | hr
          · exact IPC.Row.holds_congr (hinv.rows r hr) N hw' (g1 r hr)
          · exact i4 r hr
        · intro p hp
          rcases List.mem_append.mp hp with hp | hp
          · exact IPC.Pend.holds_congr (hs p hp) N hw' (g2 p hp)
          · exact i5 p hp

/-! ### the tower constraints in the second loop -/

lemma addPend_last_le (s : St K) (pend : List (IPC.Pend K)) : s.last ≤ (s.addPend pend).last :=
  IPC.foldl_process_last_le pend ⟨s.last, [], [], []⟩

theorem addPend_sound (N : ℕ) (v : ℕ → K) (s : St K) (pend : List (IPC.Pend K))
    (hN : (s.addPend pend).last ≤ N) (h : (s.addPend pend).Sat N v) :
    s.Sat N v ∧ ∀ p ∈ pend, p.holds N v := by
  refine ⟨⟨fun r hr => h.rows r (List.mem_append_left _ hr),
    fun b hb => h.bnd b (List.mem_append_left _ hb),
    fun q hq => h.soc q (List.mem_append_left _ hq)⟩, ?_⟩
  have hg : IPC.Good N v (pend.foldl IPC.process ⟨s.last, [], [], []⟩) := by
    refine ⟨hN, fun r hr => ?_, fun q hq => h.soc q (List.mem_append_right _ hq)⟩
    exact h.rows (ofIpcRow r) (List.mem_append_right _ (List.mem_map.mpr ⟨r, hr, rfl⟩))
  exact (IPC.foldl_process_good N v pend _ hg).2

theorem addPend_complete (N : ℕ) (s : St K) (pend : List (IPC.Pend K)) (w : ℕ → K) (hwf : s.WF)
    (hsupp : ∀ p ∈ pend, p.Supp s.last) (hN : (s.addPend pend).last ≤ N) (hs : s.Sat N w)
    (hp : ∀ p ∈ pend, p.holds N w) :
    ∃ w' : ℕ → K, (∀ j < s.last, w' j = w j) ∧ (s.addPend pend).Sat N w' ∧ (s.addPend pend).WF := by
  have hinv0 : IPC.Inv (⟨s.last, [], [], []⟩ : IPC.Bld K) := ⟨by simp, by simp, by simp⟩
  have hinvB := IPC.foldl_process_inv pend _ hinv0 hsupp
  obtain ⟨w', hw', hg⟩ := IPC.fold_complete N pend ⟨s.last, [], [], []⟩ w hinv0 hN hsupp hp
    ⟨by simp, by simp, by simp⟩
  have hle := addPend_last_le s pend
  have hs' := hs.congr hwf (le_trans hle hN) hw'
  refine ⟨w', hw', ⟨?_, ?_, ?_⟩, ⟨?_, ?_, ?_, ?_⟩⟩
  · intro r hr
    rcases List.mem_append.mp hr with hr | hr
    · exact hs'.rows r hr
    · obtain ⟨ρ, hρ, rfl⟩ := List.mem_map.mp hr
      exact hg.rows ρ hρ
  · intro b hb p hp'
    rcases List.mem_append.mp hb with hb | hb
    · exact hs'.bnd b hb p hp'
    · obtain ⟨j, hj, rfl⟩ := List.mem_map.mp hb
      simp only [lb0Bound, List.mem_cons, List.not_mem_nil, or_false] at hp'
      subst hp'
      have hu : (lb0Bound j : Bound K).upper = false := rfl
      rw [hu]
      exact hg.lbs j hj
  · intro q hq
    rcases List.mem_append.mp hq with hq | hq
    · exact hs'.soc q hq
    · exact hg.soc q hq
  · intro r hr j hj
    rcases List.mem_append.mp hr with hr | hr
    · exact hwf.rows r hr j (le_trans hle hj)
    · obtain ⟨ρ, hρ, rfl⟩ := List.mem_map.mp hr
      exact hinvB.rows ρ hρ j hj
  · intro b hb
    rcases List.mem_append.mp hb with hb | hb
    · exact hwf.bcons b hb
    · obtain ⟨j, hj, rfl⟩ := List.mem_map.mp hb
      exact consistent_const _ 0 (by simp [lb0Bound])
  · intro b hb p hp'
    rcases List.mem_append.mp hb with hb | hb
    · exact lt_of_lt_of_le (hwf.bidx b hb p hp') hle
    · obtain ⟨j, hj, rfl⟩ := List.mem_map.mp hb
      simp only [lb0Bound, List.mem_cons, List.not_mem_nil, or_false] at hp'
      subst hp'
      exact hinvB.lb0 j hj
  · intro q hq j hj
    rcases List.mem_append.mp hq with hq | hq
    · exact lt_of_lt_of_le (hwf.qmat q hq j hj) hle
    · exact hinvB.qmat q hq j hj

end RsomeV.Det

/-! ### the gcp layer as the stand-alone program of `AExp.encodeAtoms` -/

namespace RsomeV.AExp.ExpEnc
open Finset
variable {K : Type} [Field K] [LinearOrder K] [IsStrictOrderedRing K]

/-- feasibility of the emitted program: its rows (the plain rows and the three rows per cone) hold and
every cone triple is a member -/
theorem feas_iff_rows (E : ExpEnc K) (Ec : K → K → K → Prop) (v : ℕ → K) :
    E.prog.Feas Ec v ↔ (∀ r ∈ E.allRows, r.Holds E.nc v) ∧
      ∀ e ∈ E.prog.xmat, Ec (v (e.getD 0 0)) (v (e.getD 1 0)) (v (e.getD 2 0)) := by
  have hrows : (∀ i < E.prog.lp.nr, if E.prog.lp.eq i then E.prog.lp.row i v = E.prog.lp.b i
      else E.prog.lp.row i v ≤ E.prog.lp.b i) ↔ ∀ r ∈ E.allRows, r.Holds E.nc v := by
    rw [forall_mem_iff_getD E.allRows default]
    rfl
  constructor
  · intro hf
    exact ⟨hrows.1 hf.lin.rows, hf.exp⟩
  · rintro ⟨h1, h2⟩
    refine ⟨⟨hrows.2 h1, fun j _ => trivial, fun j _ => trivial⟩, ?_, h2⟩
    intro q hq; simp [prog] at hq

/-- all rows of the gcp layer only mention its own columns -/
lemma allRows_supp (E : ExpEnc K) (hwf : E.WF) : ∀ r ∈ E.allRows, ∀ j, E.nc ≤ j → r.lin j = 0 := by
  intro r hr j hj
  rcases List.mem_append.mp hr with hr | hr
  · exact hwf.rows r hr j (le_trans E.base_le_nc hj)
  · simp only [coneRows, List.mem_flatMap, List.mem_range] at hr
    obtain ⟨k, hk, hr⟩ := hr
    have hc := E.coneAt_mem hk
    obtain ⟨s1, s2, s3⟩ := hwf.cones _ hc
    have hnc : E.nc = E.base + 3 * E.cones.length := rfl
    have v0 : (Aff.var (E.base + 3 * k) : Aff K).SuppLt E.nc := Aff.suppLt_var (by omega)
    have v1 : (Aff.var (E.base + 3 * k + 1) : Aff K).SuppLt E.nc := Aff.suppLt_var (by omega)
    have v2 : (Aff.var (E.base + 3 * k + 2) : Aff K).SuppLt E.nc := Aff.suppLt_var (by omega)
    simp only [coneRows3, List.mem_cons, List.not_mem_nil, or_false] at hr
    rcases hr with rfl | rfl | rfl
    · exact (v0.sub (s1.mono E.base_le_nc)) j hj
    · exact (v1.sub (s2.mono E.base_le_nc)) j hj
    · exact (v2.sub (s3.mono E.base_le_nc)) j hj

lemma xmat_lt (E : ExpEnc K) : ∀ e ∈ E.prog.xmat, e.getD 0 0 < E.nc ∧ e.getD 1 0 < E.nc ∧ e.getD 2 0 < E.nc := by
  intro e he
  simp only [prog, List.mem_map, List.mem_range] at he
  obtain ⟨k, hk, rfl⟩ := he
  have hnc : E.nc = E.base + 3 * E.cones.length := rfl
  simp only [List.getD_cons_zero, List.getD_cons_succ]
  omega

end RsomeV.AExp.ExpEnc

/-! ### the assembled program -/

namespace RsomeV.Det
open Finset RsomeV
variable {K : Type} [Field K] [LinearOrder K] [IsStrictOrderedRing K]

/-- feasibility of the assembled program, component by component -/
theorem Asm.feas_iff (A : Asm K) (Ec : K → K → K → Prop) (v : ℕ → K)
    (hc : ∀ b ∈ A.bounds, b.Consistent) (hN : ∀ b ∈ A.bounds, ∀ p ∈ b.entries, p.1 < A.nc) :
    A.prog.Feas Ec v ↔
      (∀ r ∈ A.rows, r.Holds A.nc v) ∧
      (∀ b ∈ A.bounds, ∀ p ∈ b.entries, if b.upper then v p.1 ≤ p.2 else p.2 ≤ v p.1) ∧
      (∀ q ∈ A.qmat, socMem v q) ∧
      (∀ e ∈ A.xmat, Ec (v (e.getD 0 0)) (v (e.getD 1 0)) (v (e.getD 2 0))) := by
  have hrows : (∀ i < A.prog.lp.nr, if A.prog.lp.eq i then A.prog.lp.row i v = A.prog.lp.b i
      else A.prog.lp.row i v ≤ A.prog.lp.b i) ↔ ∀ r ∈ A.rows', r.Holds A.nc v := by
    rw [AExp.forall_mem_iff_getD A.rows' default]
    rfl
  have hrows' : (∀ r ∈ A.rows', r.Holds A.nc v) ↔ ∀ r ∈ A.rows, r.Holds A.nc v := by
    unfold Asm.rows'
    by_cases he : A.rows.isEmpty = true
    · rw [if_pos he]
      have : A.rows = [] := List.isEmpty_iff.mp he
      simp [this, AExp.ERow.Holds]
    · rw [if_neg he]
  have hb := foldBounds_feas_iff A.bounds hc A.nc hN v
  constructor
  · intro hf
    exact ⟨hrows'.1 (hrows.1 hf.lin.rows), hb.1 ⟨hf.lin.ubs, hf.lin.lbs⟩, hf.soc, hf.exp⟩
  · rintro ⟨h1, h2, h3, h4⟩
    obtain ⟨hu, hl⟩ := hb.2 h2
    exact ⟨⟨hrows.2 (hrows'.2 h1), hu, hl⟩, h3, h4⟩

/-- the cost of the assembled program is the epigraph column -/
lemma Asm.obj_eq (A : Asm K) (h : 0 < A.nc) (v : ℕ → K) : A.prog.lp.obj v = v 0 := by
  show ∑ j ∈ range A.nc, (if j = 0 then (1 : K) else 0) * v j = v 0
  simp only [ite_mul, one_mul, zero_mul]
  rw [Finset.sum_ite_eq' (range A.nc) 0]
  simp [h]

end RsomeV.Det

/-! ### pure support facts of the socp layer -/

namespace RsomeV.Det
open Finset RsomeV
variable {K : Type} [Field K] [LinearOrder K] [IsStrictOrderedRing K]

/-- the rows of the first loop and the tower constraints only mention columns the loop has created -/
theorem ipcLoop_supp (n : ℕ) :
    ∀ (atoms : List (IpcAtom K)) (b l : ℕ) (rows : List (IPC.Row K)) (pend : List (IPC.Pend K)),
    n ≤ b → (∀ a ∈ atoms, IpcOK n a) → ipcLoop b atoms = some (l, rows, pend) →
    b ≤ l ∧ (∀ r ∈ rows, r.Supp l) ∧ ∀ p ∈ pend, p.Supp l
  | [], b, l, rows, pend, _, _, h => by
    simp only [ipcLoop, Option.some.injEq, Prod.mk.injEq] at h
    obtain ⟨rfl, rfl, rfl⟩ := h
    exact ⟨le_rfl, by simp, by simp⟩
  | (k, ain, aout, pr) :: rest, b, l, rows, pend, hb, hok, h => by
    simp only [ipcLoop] at h
    cases h1 : IPC.branch b k ain aout pr with
    | none => rw [h1] at h; simp at h
    | some res1 =>
      obtain ⟨st0, pend0⟩ := res1
      rw [h1] at h
      simp only at h
      cases h2 : ipcLoop st0.last rest with
      | none => rw [h2] at h; simp at h
      | some res2 =>
        obtain ⟨l2, rows2, pend2⟩ := res2
        rw [h2] at h
        simp only [Option.some.injEq, Prod.mk.injEq] at h
        obtain ⟨rfl, rfl, rfl⟩ := h
        obtain ⟨hin, hout, hpr⟩ := (hok _ List.mem_cons_self).mono hb
        obtain ⟨hb0, hinv, _, _, hs⟩ := IPC.branch_inv h1 hin hout hpr
        obtain ⟨i1, i2, i3⟩ := ipcLoop_supp n rest st0.last l2 rows2 pend2 (le_trans hb hb0)
          (fun a ha => hok a (List.mem_cons_of_mem _ ha)) h2
        refine ⟨le_trans hb0 i1, ?_, ?_⟩
        · intro r hr
          rcases List.mem_append.mp hr with hr | hr
          · exact fun j hj => hinv.rows r hr j (le_trans i1 hj)
          · exact i2 r hr
        · intro p hp
          rcases List.mem_append.mp hp with hp | hp
          · exact IPC.Pend.supp_mono (hs p hp) i1
          · exact i3 p hp

theorem addPend_wf (s : St K) (pend : List (IPC.Pend K)) (hwf : s.WF)
    (hsupp : ∀ p ∈ pend, p.Supp s.last) : (s.addPend pend).WF := by
  have hinv0 : IPC.Inv (⟨s.last, [], [], []⟩ : IPC.Bld K) := ⟨by simp, by simp, by simp⟩
  have hinvB := IPC.foldl_process_inv pend _ hinv0 hsupp
  have hle := addPend_last_le s pend
  refine ⟨?_, ?_, ?_, ?_⟩
  · intro r hr j hj
    rcases List.mem_append.mp hr with hr | hr
    · exact hwf.rows r hr j (le_trans hle hj)
    · obtain ⟨ρ, hρ, rfl⟩ := List.mem_map.mp hr
      exact hinvB.rows ρ hρ j hj
  · intro b hb
    rcases List.mem_append.mp hb with hb | hb
    · exact hwf.bcons b hb
    · obtain ⟨j, hj, rfl⟩ := List.mem_map.mp hb
      exact consistent_const _ 0 (by simp [lb0Bound])
  · intro b hb p hp'
    rcases List.mem_append.mp hb with hb | hb
    · exact lt_of_lt_of_le (hwf.bidx b hb p hp') hle
    · obtain ⟨j, hj, rfl⟩ := List.mem_map.mp hb
      simp only [lb0Bound, List.mem_cons, List.not_mem_nil, or_false] at hp'
      subst hp'
      exact hinvB.lb0 j hj
  · intro q hq j hj
    rcases List.mem_append.mp hq with hq | hq
    · exact lt_of_lt_of_le (hwf.qmat q hq j hj) hle
    · exact hinvB.qmat q hq j hj

end RsomeV.Det

/-! ### the model returns a program on valid parameters -/

namespace RsomeV.IPC
variable {K : Type} [Field K] [LinearOrder K] [IsStrictOrderedRing K]

lemma branch_isSome (b : ℕ) (k : K) (ain aout : List (Aff K)) {pr : Params} (h : pr.OK) :
    ∃ r, branch b k ain aout pr = some r := by
  cases pr with
  | g β =>
    obtain ⟨hne, hpos⟩ := h
    obtain ⟨r, hr⟩ := towers_isSome (gJobs b k ain β) (gInit b ain aout) (by
      intro job hj
      obtain ⟨j, _, rfl⟩ := List.mem_map.mp hj
      exact ⟨hne, hpos⟩)
    exact ⟨r, by simp only [branch, hr]⟩
  | t items =>
    obtain ⟨⟨st, pend⟩, hr⟩ := towers_isSome (tJobs b ain items) (tInit b ain items) (by
      intro job hjob
      obtain ⟨⟨i, it⟩, hmem, hj⟩ := List.mem_filterMap.mp hjob
      obtain ⟨hi, rfl⟩ := of_mem_zip_range hmem
      simp only [tJob] at hj
      split_ifs at hj with he
      obtain rfl := Option.some.inj hj
      obtain ⟨q1, q2⟩ := h _ (List.getElem_mem hi)
      exact ⟨by simp, pos_two q1 (by omega)⟩)
    exact ⟨({ st with rows := st.rows ++ tTail b k aout items.length }, pend),
      by simp only [branch, hr]⟩
  | c β =>
    obtain ⟨hne, hpos⟩ := h
    obtain ⟨r, hr⟩ := tower_isSome (cInit b k aout) (Aff.col b) ain hne hpos
    exact ⟨r, by simp only [branch, hr]⟩

end RsomeV.IPC

namespace RsomeV.Det
variable {K : Type} [Field K] [LinearOrder K] [IsStrictOrderedRing K]

lemma ipcLoop_isSome : ∀ (atoms : List (IpcAtom K)) (b : ℕ), (∀ a ∈ atoms, a.2.2.2.OK) →
    ∃ r, ipcLoop b atoms = some r
  | [], b, _ => ⟨_, rfl⟩
  | (k, ain, aout, pr) :: rest, b, h => by
    obtain ⟨⟨st0, pend⟩, h1⟩ := IPC.branch_isSome b k ain aout (h _ List.mem_cons_self)
    obtain ⟨⟨l, rows, pend'⟩, h2⟩ := ipcLoop_isSome rest st0.last
      (fun a ha => h a (List.mem_cons_of_mem _ ha))
    have h1' : IPC.branch b k ain aout pr = some (st0, pend) := h1
    exact ⟨(l, st0.rows ++ rows, pend ++ pend'), by simp only [ipcLoop, h1', h2]⟩

/-- the `vtype` string of a model: the user's letters followed by one `C` per auxiliary column -/
lemma vtypeVector_aux (vars : List (String × ℕ)) (m : ℕ) :
    vtypeVector (vars ++ [("C", m)]) = vtypeVector vars ++ List.replicate m 'C' := by
  have h1 : ("C" : String).length = 1 := by decide
  have h2 : ("C" : String).toList.headD 'C' = 'C' := by decide
  simp only [vtypeVector, List.flatMap_append, List.flatMap_cons, List.flatMap_nil, List.append_nil,
    h1, if_true, h2]

end RsomeV.Det
