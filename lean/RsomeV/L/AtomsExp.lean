import RsomeV.M.AtomsExp
import RsomeV.L.ExpCone
import Mathlib.Analysis.SpecialFunctions.Log.Basic
import Mathlib.Algebra.BigOperators.Intervals
import Mathlib.Tactic.Linarith
import Mathlib.Tactic.Ring
import Mathlib.Tactic.FieldSimp

/-! Helper lemmas for `RsomeV/Props/AtomsExp.lean`:
* evaluation calculus of `Aff` / `ERow`;
* the generic characterisation of feasibility of `ExpEnc.prog` (`ExpEnc.feas_iff`) and the
  generic soundness / completeness of the common last step of `gcp.Model.do_math`
  (`ExpEnc.prog_sound`, `ExpEnc.prog_complete`);
* the real-analysis facts about the closed exponential cone needed per atom. -/

set_option linter.unusedSectionVars false
set_option linter.unusedSimpArgs false
set_option linter.unusedVariables false

namespace RsomeV.AExp
open Finset

section generic
variable {K : Type} [Field K] [LinearOrder K] [IsStrictOrderedRing K]

/-! ### sums over columns -/

lemma sum_supp_congr (lin : ℕ → K) {n m m' : ℕ} (hs : ∀ j, n ≤ j → lin j = 0) (hm : n ≤ m)
    (hm' : n ≤ m') {v w : ℕ → K} (h : ∀ j < n, v j = w j) :
    ∑ j ∈ range m, lin j * v j = ∑ j ∈ range m', lin j * w j := by
  have h1 : ∀ (M : ℕ) (u : ℕ → K), n ≤ M →
      ∑ j ∈ range M, lin j * u j = ∑ j ∈ range n, lin j * u j := by
    intro M u hM
    symm
    apply Finset.sum_subset (Finset.range_mono hM)
    intro j _ hj
    have : n ≤ j := by simpa using hj
    simp [hs j this]
  rw [h1 m v hm, h1 m' w hm']
  apply Finset.sum_congr rfl
  intro j hj
  rw [h j (by simpa using hj)]

namespace Aff

lemma eval_congr {n m m' : ℕ} {e : Aff K} (he : e.SuppLt n) (hm : n ≤ m) (hm' : n ≤ m')
    {v w : ℕ → K} (h : ∀ j < n, v j = w j) : e.eval m v = e.eval m' w := by
  unfold eval
  rw [sum_supp_congr e.lin he hm hm' h]

lemma eval_add (n : ℕ) (e f : Aff K) (v : ℕ → K) : (e.add f).eval n v = e.eval n v + f.eval n v := by
  simp only [eval, add, add_mul, Finset.sum_add_distrib]; ring

lemma eval_sub (n : ℕ) (e f : Aff K) (v : ℕ → K) : (e.sub f).eval n v = e.eval n v - f.eval n v := by
  simp only [eval, sub, sub_mul, Finset.sum_sub_distrib]; ring

lemma eval_neg (n : ℕ) (e : Aff K) (v : ℕ → K) : (e.neg).eval n v = - e.eval n v := by
  simp only [eval, neg, neg_mul, Finset.sum_neg_distrib]; ring

lemma eval_smul (n : ℕ) (e : Aff K) (t : K) (v : ℕ → K) : (e.smul t).eval n v = e.eval n v * t := by
  simp only [eval, smul, add_mul, Finset.sum_mul]
  congr 1
  apply Finset.sum_congr rfl
  intro j _; ring

lemma eval_cst (n : ℕ) (c : K) (v : ℕ → K) : (cst c).eval n v = c := by
  simp [eval, cst]

lemma eval_default (n : ℕ) (v : ℕ → K) : (default : Aff K).eval n v = 0 := by
  simp [eval, default]

lemma eval_var {n j : ℕ} (hj : j < n) (v : ℕ → K) : (var j).eval n v = v j := by
  simp [eval, var, ite_mul, Finset.sum_ite_eq', hj]

lemma eval_sumVars {n base k : ℕ} (h : base + k ≤ n) (v : ℕ → K) :
    (sumVars base k).eval n v = ∑ t ∈ range k, v (base + t) := by
  simp only [eval, sumVars, ite_mul, one_mul, zero_mul, add_zero]
  rw [← Finset.sum_filter]
  have : (range n).filter (fun i => base ≤ i ∧ i < base + k) = Ico base (base + k) := by
    ext i
    simp only [mem_filter, mem_range, mem_Ico]
    omega
  rw [this, Finset.sum_Ico_eq_sum_range]
  simp

lemma suppLt_var {n j : ℕ} (hj : j < n) : (var j : Aff K).SuppLt n := by
  intro i hi; simp only [var]; rw [if_neg]; omega

lemma suppLt_cst (n : ℕ) (c : K) : (cst c).SuppLt n := fun _ _ => rfl

lemma suppLt_default (n : ℕ) : (default : Aff K).SuppLt n := fun _ _ => rfl

lemma suppLt_sumVars {n base k : ℕ} (h : base + k ≤ n) : (sumVars base k : Aff K).SuppLt n := by
  intro i hi; simp only [sumVars]; rw [if_neg]; omega

lemma SuppLt.add {n : ℕ} {e f : Aff K} (he : e.SuppLt n) (hf : f.SuppLt n) : (e.add f).SuppLt n := by
  intro j hj; simp [Aff.add, he j hj, hf j hj]

lemma SuppLt.sub {n : ℕ} {e f : Aff K} (he : e.SuppLt n) (hf : f.SuppLt n) : (e.sub f).SuppLt n := by
  intro j hj; simp [Aff.sub, he j hj, hf j hj]

lemma SuppLt.neg {n : ℕ} {e : Aff K} (he : e.SuppLt n) : (e.neg).SuppLt n := by
  intro j hj; simp [Aff.neg, he j hj]

lemma SuppLt.smul {n : ℕ} {e : Aff K} (he : e.SuppLt n) (t : K) : (e.smul t).SuppLt n := by
  intro j hj; simp [Aff.smul, he j hj]

lemma SuppLt.mono {n m : ℕ} {e : Aff K} (he : e.SuppLt n) (h : n ≤ m) : e.SuppLt m :=
  fun j hj => he j (le_trans h hj)

lemma suppLt_ofRow (n : ℕ) (f : ℕ → K) (c : K) : (ofRow n f c).SuppLt n := by
  intro j hj; simp only [ofRow]; rw [if_neg]; omega

lemma suppLt_getD {n : ℕ} {l : List (Aff K)} (h : ∀ e ∈ l, e.SuppLt n) (i : ℕ) :
    (l.getD i default).SuppLt n := by
  by_cases hi : i < l.length
  · rw [List.getD_eq_getElem _ _ hi]; exact h _ (List.getElem_mem hi)
  · rw [List.getD_eq_default _ _ (by omega)]; exact suppLt_default n

end Aff

namespace ERow

lemma holds_le0 (n : ℕ) (e : Aff K) (v : ℕ → K) : (le0 e).Holds n v ↔ e.eval n v ≤ 0 := by
  simp only [Holds, le0, Aff.eval, Bool.false_eq_true, if_false]
  constructor <;> intro h <;> linarith

lemma holds_eq0 (n : ℕ) (e : Aff K) (v : ℕ → K) : (eq0 e).Holds n v ↔ e.eval n v = 0 := by
  simp only [Holds, eq0, Aff.eval, if_true]
  constructor <;> intro h <;> linarith

lemma holds_congr {n m m' : ℕ} {r : ERow K} (hs : ∀ j, n ≤ j → r.lin j = 0) (hm : n ≤ m)
    (hm' : n ≤ m') {v w : ℕ → K} (h : ∀ j < n, v j = w j) : r.Holds m v ↔ r.Holds m' w := by
  unfold Holds
  rw [sum_supp_congr r.lin hs hm hm' h]

end ERow

lemma forall_mem_iff_getD {α : Type} (l : List α) (d : α) (P : α → Prop) :
    (∀ r ∈ l, P r) ↔ ∀ i < l.length, P (l.getD i d) := by
  constructor
  · intro h i hi
    rw [List.getD_eq_getElem _ _ hi]; exact h _ (List.getElem_mem hi)
  · intro h r hr
    obtain ⟨i, hi, rfl⟩ := List.getElem_of_mem hr
    have := h i hi
    rwa [List.getD_eq_getElem _ _ hi] at this

/-! ### the common last step -/

namespace ExpEnc

/-- number of columns of the emitted program -/
def nc (E : ExpEnc K) : ℕ := E.base + 3 * E.cones.length

def coneAt (E : ExpEnc K) (k : ℕ) : ExpC K := E.cones.getD k ⟨default, default, default⟩

/-- supports: rows and cone expressions only mention the columns created before the common step -/
structure WF (E : ExpEnc K) : Prop where
  rows : ∀ r ∈ E.rows, ∀ j, E.base ≤ j → r.lin j = 0
  cones : ∀ c ∈ E.cones, c.e1.SuppLt E.base ∧ c.e2.SuppLt E.base ∧ c.e3.SuppLt E.base

/-- the "mathematical content" of the state before the common step: plain rows hold and every
`ExpConstr(e1,e2,e3)` is a member of the cone -/
def Sat (E : ExpEnc K) (Ec : K → K → K → Prop) (v : ℕ → K) : Prop :=
  (∀ r ∈ E.rows, r.Holds E.base v) ∧
  ∀ c ∈ E.cones, Ec (c.e1.eval E.base v) (c.e2.eval E.base v) (c.e3.eval E.base v)

lemma coneRows_holds (E : ExpEnc K) (v : ℕ → K) :
    (∀ r ∈ E.coneRows, r.Holds E.nc v) ↔ ∀ k < E.cones.length,
      v (E.base + 3 * k) = (E.coneAt k).e1.eval E.nc v ∧
      v (E.base + 3 * k + 1) ≤ (E.coneAt k).e2.eval E.nc v ∧
      v (E.base + 3 * k + 2) = (E.coneAt k).e3.eval E.nc v := by
  have key : ∀ k < E.cones.length, (∀ r ∈ coneRows3 E.base (E.coneAt k) k, r.Holds E.nc v) ↔
      (v (E.base + 3 * k) = (E.coneAt k).e1.eval E.nc v ∧
      v (E.base + 3 * k + 1) ≤ (E.coneAt k).e2.eval E.nc v ∧
      v (E.base + 3 * k + 2) = (E.coneAt k).e3.eval E.nc v) := by
    intro k hk
    have h0 : E.base + 3 * k < E.nc := by unfold nc; omega
    have h1 : E.base + 3 * k + 1 < E.nc := by unfold nc; omega
    have h2 : E.base + 3 * k + 2 < E.nc := by unfold nc; omega
    simp only [coneRows3, List.mem_cons, List.not_mem_nil, or_false, forall_eq_or_imp, forall_eq,
      ERow.holds_eq0, ERow.holds_le0, Aff.eval_sub, Aff.eval_var h0, Aff.eval_var h1, Aff.eval_var h2,
      sub_eq_zero, sub_nonpos]
  constructor
  · intro h k hk
    apply (key k hk).1
    intro r hr
    apply h
    simp only [coneRows, List.mem_flatMap, List.mem_range]
    exact ⟨k, hk, hr⟩
  · intro h r hr
    simp only [coneRows, List.mem_flatMap, List.mem_range] at hr
    obtain ⟨k, hk, hr⟩ := hr
    exact (key k hk).2 (h k hk) r hr

/-- feasibility of the emitted program, spelled out -/
theorem feas_iff (E : ExpEnc K) (Ec : K → K → K → Prop) (v : ℕ → K) :
    E.prog.Feas Ec v ↔
      (∀ r ∈ E.rows, r.Holds E.nc v) ∧ ∀ k < E.cones.length,
        v (E.base + 3 * k) = (E.coneAt k).e1.eval E.nc v ∧
        v (E.base + 3 * k + 1) ≤ (E.coneAt k).e2.eval E.nc v ∧
        v (E.base + 3 * k + 2) = (E.coneAt k).e3.eval E.nc v ∧
        Ec (v (E.base + 3 * k)) (v (E.base + 3 * k + 1)) (v (E.base + 3 * k + 2)) := by
  have hrows : (∀ i < E.prog.lp.nr, if E.prog.lp.eq i then E.prog.lp.row i v = E.prog.lp.b i
      else E.prog.lp.row i v ≤ E.prog.lp.b i) ↔ ∀ r ∈ E.allRows, r.Holds E.nc v := by
    rw [forall_mem_iff_getD E.allRows default]
    rfl
  have hall : (∀ r ∈ E.allRows, r.Holds E.nc v) ↔
      (∀ r ∈ E.rows, r.Holds E.nc v) ∧ ∀ r ∈ E.coneRows, r.Holds E.nc v := by
    simp only [allRows, List.mem_append]
    constructor
    · intro h; exact ⟨fun r hr => h r (Or.inl hr), fun r hr => h r (Or.inr hr)⟩
    · rintro ⟨h1, h2⟩ r (hr | hr)
      · exact h1 r hr
      · exact h2 r hr
  have hexp : (∀ e ∈ E.prog.xmat, Ec (v (e.getD 0 0)) (v (e.getD 1 0)) (v (e.getD 2 0))) ↔
      ∀ k < E.cones.length, Ec (v (E.base + 3 * k)) (v (E.base + 3 * k + 1)) (v (E.base + 3 * k + 2)) := by
    simp only [prog, List.mem_map, List.mem_range]
    constructor
    · intro h k hk
      have := h _ ⟨k, hk, rfl⟩
      simpa using this
    · rintro h e ⟨k, hk, rfl⟩
      simpa using h k hk
  constructor
  · intro hf
    have h1 := (hall.1 (hrows.1 hf.lin.rows))
    have h2 := (E.coneRows_holds v).1 h1.2
    have h3 := hexp.1 hf.exp
    exact ⟨h1.1, fun k hk => ⟨(h2 k hk).1, (h2 k hk).2.1, (h2 k hk).2.2, h3 k hk⟩⟩
  · rintro ⟨h1, h2⟩
    refine ⟨⟨?_, ?_, ?_⟩, ?_, ?_⟩
    · apply hrows.2
      apply hall.2
      refine ⟨h1, (E.coneRows_holds v).2 fun k hk => ⟨(h2 k hk).1, (h2 k hk).2.1, (h2 k hk).2.2.1⟩⟩
    · intro j _; exact trivial
    · intro j _; exact trivial
    · intro q hq; simp [prog] at hq
    · exact hexp.2 fun k hk => (h2 k hk).2.2.2

lemma coneAt_mem (E : ExpEnc K) {k : ℕ} (hk : k < E.cones.length) : E.coneAt k ∈ E.cones := by
  unfold coneAt
  rw [List.getD_eq_getElem _ _ hk]; exact List.getElem_mem hk

lemma base_le_nc (E : ExpEnc K) : E.base ≤ E.nc := by unfold nc; omega

/-- **soundness of the common step**: a feasible point of the emitted program satisfies the plain
rows and puts every `ExpConstr` triple into the cone (the cone must be upward closed in its
second argument because of the row `aux1 - expr2 <= 0`) -/
theorem prog_sound (E : ExpEnc K) (hwf : E.WF) (Ec : K → K → K → Prop)
    (hmono : ∀ a b b' c, Ec a b c → b ≤ b' → Ec a b' c) (v : ℕ → K)
    (hf : E.prog.Feas Ec v) : E.Sat Ec v := by
  obtain ⟨h1, h2⟩ := (E.feas_iff Ec v).1 hf
  refine ⟨fun r hr => ?_, fun c hc => ?_⟩
  · exact (ERow.holds_congr (hwf.rows r hr) E.base_le_nc le_rfl (fun _ _ => rfl)).1 (h1 r hr)
  · obtain ⟨k, hk, rfl⟩ := List.getElem_of_mem hc
    have hck : E.coneAt k = E.cones[k] := by unfold coneAt; rw [List.getD_eq_getElem _ _ hk]
    obtain ⟨e1, e2, e3, hE⟩ := h2 k hk
    rw [hck] at e1 e2 e3
    obtain ⟨s1, s2, s3⟩ := hwf.cones _ hc
    rw [Aff.eval_congr s1 E.base_le_nc le_rfl (fun _ _ => rfl)] at e1
    rw [Aff.eval_congr s2 E.base_le_nc le_rfl (fun _ _ => rfl)] at e2
    rw [Aff.eval_congr s3 E.base_le_nc le_rfl (fun _ _ => rfl)] at e3
    rw [e1, e3] at hE
    exact hmono _ _ _ _ hE e2

/-- the completion of an assignment of the first `base` columns by the cone columns -/
def extend (E : ExpEnc K) (v : ℕ → K) (j : ℕ) : K :=
  if j < E.base then v j
  else
    let c := E.coneAt ((j - E.base) / 3)
    if (j - E.base) % 3 = 0 then c.e1.eval E.base v
    else if (j - E.base) % 3 = 1 then c.e2.eval E.base v
    else c.e3.eval E.base v

/-- **completeness of the common step** -/
theorem prog_complete (E : ExpEnc K) (hwf : E.WF) (Ec : K → K → K → Prop) (v : ℕ → K)
    (hs : E.Sat Ec v) : ∃ w, (∀ j < E.base, w j = v j) ∧ E.prog.Feas Ec w := by
  refine ⟨E.extend v, fun j hj => by simp [extend, hj], ?_⟩
  have hagree : ∀ j < E.base, E.extend v j = v j := fun j hj => by simp [extend, hj]
  rw [feas_iff]
  refine ⟨fun r hr => ?_, fun k hk => ?_⟩
  · exact (ERow.holds_congr (hwf.rows r hr) E.base_le_nc le_rfl hagree).2 (hs.1 r hr)
  · have hc := E.coneAt_mem hk
    obtain ⟨s1, s2, s3⟩ := hwf.cones _ hc
    have d0 : (E.base + 3 * k - E.base) / 3 = k := by omega
    have d1 : (E.base + 3 * k + 1 - E.base) / 3 = k := by omega
    have d2 : (E.base + 3 * k + 2 - E.base) / 3 = k := by omega
    have m0 : (E.base + 3 * k - E.base) % 3 = 0 := by omega
    have m1 : (E.base + 3 * k + 1 - E.base) % 3 = 1 := by omega
    have m2 : (E.base + 3 * k + 2 - E.base) % 3 = 2 := by omega
    have w0 : E.extend v (E.base + 3 * k) = (E.coneAt k).e1.eval E.base v := by
      simp [extend, d0, m0]
    have w1 : E.extend v (E.base + 3 * k + 1) = (E.coneAt k).e2.eval E.base v := by
      have : ¬ (E.base + 3 * k + 1 < E.base) := by omega
      simp only [extend, if_neg this, d1, m1]; simp
    have w2 : E.extend v (E.base + 3 * k + 2) = (E.coneAt k).e3.eval E.base v := by
      have : ¬ (E.base + 3 * k + 2 < E.base) := by omega
      simp only [extend, if_neg this, d2, m2]; simp
    rw [w0, w1, w2, Aff.eval_congr s1 E.base_le_nc le_rfl hagree,
      Aff.eval_congr s2 E.base_le_nc le_rfl hagree, Aff.eval_congr s3 E.base_le_nc le_rfl hagree]
    exact ⟨rfl, le_rfl, rfl, hs.2 _ hc⟩

end ExpEnc

end generic


/-! ### real-analysis facts about the closed exponential cone -/

section real
open Real

/-- the cone is upward closed in its second argument -/
lemma realExpCone_mono (a b b' c : ℝ) (h : realExpCone a b c) (hb : b ≤ b') : realExpCone a b' c := by
  rcases h with ⟨hc, h⟩ | ⟨hc, ha, h⟩
  · exact Or.inl ⟨hc, le_trans h hb⟩
  · exact Or.inr ⟨hc, ha, le_trans h hb⟩

/-- third argument `1` : the plain epigraph of `exp` -/
lemma realExpCone_one (a b : ℝ) : realExpCone a b 1 ↔ exp a ≤ b := by
  simp [realExpCone]

/-- `X` : `exp(in) ≤ -(out·(1/k))` is the user's inequality -/
lemma exp_atom_iff (k i o : ℝ) (hk : 0 < k) : exp i ≤ -(o * (1 / k)) ↔ k * exp i + o ≤ 0 := by
  have : -(o * (1 / k)) = (-o) / k := by field_simp
  rw [this, le_div_iff₀ hk]
  constructor <;> intro h <;> linarith

/-- `L` : `exp(out·(1/k)) ≤ in` is the user's inequality *and* forces `in > 0` -/
lemma log_atom_iff (k i o : ℝ) (hk : 0 < k) :
    exp (o * (1 / k)) ≤ i ↔ 0 < i ∧ -k * log i + o ≤ 0 := by
  constructor
  · intro h
    have hi : 0 < i := lt_of_lt_of_le (exp_pos _) h
    have := (le_log_iff_exp_le hi).2 h
    have h2 : o * (1 / k) = o / k := by ring
    rw [h2, div_le_iff₀ hk] at this
    exact ⟨hi, by linarith⟩
  · rintro ⟨hi, h⟩
    apply (le_log_iff_exp_le hi).1
    have h2 : o * (1 / k) = o / k := by ring
    rw [h2, div_le_iff₀ hk]
    linarith

/-- `P` / `K` : `ExpConstr(u, 1, z)` is `u ≤ -z log z` on `z ≥ 0`, including the boundary point
`z = 0` (where `0 * log 0 = 0` also in Mathlib's convention) -/
lemma entropy_cone_iff (u z : ℝ) : realExpCone u 1 z ↔ 0 ≤ z ∧ u ≤ -(z * log z) := by
  constructor
  · rintro (⟨hz, h⟩ | ⟨hz, hu, _⟩)
    · refine ⟨le_of_lt hz, ?_⟩
      have h1 : exp (u / z) ≤ 1 / z := by rw [le_div_iff₀ hz]; linarith
      have h2 := (le_log_iff_exp_le (by positivity)).2 h1
      rw [one_div, log_inv, div_le_iff₀ hz] at h2
      linarith
    · subst hz; simp [hu]
  · rintro ⟨hz, h⟩
    rcases eq_or_lt_of_le hz with hz0 | hz0
    · right; subst hz0; simp at h; exact ⟨rfl, h, zero_le_one⟩
    · left
      refine ⟨hz0, ?_⟩
      have h2 : u / z ≤ log (1 / z) := by
        rw [one_div, log_inv, div_le_iff₀ hz0]; linarith
      have h1 := (le_log_iff_exp_le (by positivity)).1 h2
      rw [le_div_iff₀ hz0] at h1
      linarith

/-- `F` : the two cones and the row `u + w ≤ 1` of one softplus entry -/
lemma softplus_iff (i o : ℝ) :
    (∃ u w : ℝ, exp (i + o) ≤ u ∧ exp o ≤ w ∧ u + w ≤ 1) ↔ o + log (1 + exp i) ≤ 0 := by
  have hpos : 0 < 1 + exp i := by positivity
  have key : exp (o + log (1 + exp i)) = exp (i + o) + exp o := by
    rw [exp_add, exp_log hpos, exp_add]; ring
  rw [← exp_le_one_iff, key]
  constructor
  · rintro ⟨u, w, h1, h2, h3⟩; linarith
  · intro h; exact ⟨exp (i + o), exp o, le_rfl, le_rfl, h⟩

lemma softplus_scale (k i o : ℝ) (hk : 0 < k) :
    o * (1 / k) + log (1 + exp i) ≤ 0 ↔ k * log (1 + exp i) + o ≤ 0 := by
  have h2 : o * (1 / k) = o / k := by ring
  rw [h2, ← le_neg_iff_add_nonpos_right, div_le_iff₀ hk]
  constructor <;> intro h <;> linarith

/-- `P` : the row `out·(1/k) - Σ aux ≤ 0` with `Σ aux = -S` -/
lemma scale_le_iff (k o S : ℝ) (hk : 0 < k) : o * (1 / k) - (-S) ≤ 0 ↔ k * S + o ≤ 0 := by
  have h2 : o * (1 / k) = o / k := by ring
  rw [h2, sub_nonpos, div_le_iff₀ hk]
  constructor <;> intro h <;> linarith

/-- perspective `X` : `ExpConstr(in, -(out·(1/k)), s)` -/
lemma pexp_cone_iff (k i o s : ℝ) (hk : 0 < k) :
    realExpCone i (-(o * (1 / k))) s ↔
      (0 < s ∧ k * (s * exp (i / s)) + o ≤ 0) ∨ (s = 0 ∧ i ≤ 0 ∧ o ≤ 0) := by
  have e : -(o * (1 / k)) = (-o) / k := by field_simp
  unfold realExpCone
  rw [e, le_div_iff₀ hk, le_div_iff₀ hk]
  constructor
  · rintro (⟨hs, h⟩ | ⟨hs, hi, h⟩)
    · left; exact ⟨hs, by linarith⟩
    · right; exact ⟨hs, hi, by linarith⟩
  · rintro (⟨hs, h⟩ | ⟨hs, hi, h⟩)
    · left; exact ⟨hs, by linarith⟩
    · right; exact ⟨hs, hi, by linarith⟩

/-- perspective `L` : `ExpConstr(out·(1/k), in, s)` -/
lemma plog_cone_iff (k i o s : ℝ) (hk : 0 < k) :
    realExpCone (o * (1 / k)) i s ↔
      (0 < s ∧ 0 < i ∧ -k * (s * log (i / s)) + o ≤ 0) ∨ (s = 0 ∧ o ≤ 0 ∧ 0 ≤ i) := by
  have e : o * (1 / k) = o / k := by ring
  unfold realExpCone
  rw [e]
  constructor
  · rintro (⟨hs, h⟩ | ⟨hs, ho, hi⟩)
    · left
      have hi : 0 < i := lt_of_lt_of_le (mul_pos hs (exp_pos _)) h
      refine ⟨hs, hi, ?_⟩
      have h1 : exp (o / k / s) ≤ i / s := by rw [le_div_iff₀ hs]; linarith
      have h2 := (le_log_iff_exp_le (div_pos hi hs)).2 h1
      rw [div_le_iff₀ hs, div_le_iff₀ hk] at h2
      linarith
    · right
      refine ⟨hs, ?_, hi⟩
      have := mul_nonpos_of_nonpos_of_nonneg ho (le_of_lt hk)
      rwa [div_mul_cancel₀ _ (ne_of_gt hk)] at this
  · rintro (⟨hs, hi, h⟩ | ⟨hs, ho, hi⟩)
    · left
      refine ⟨hs, ?_⟩
      have h2 : o / k / s ≤ log (i / s) := by
        rw [div_le_iff₀ hs, div_le_iff₀ hk]; linarith
      have h1 := (le_log_iff_exp_le (div_pos hi hs)).1 h2
      rw [le_div_iff₀ hs] at h1
      linarith
    · right
      exact ⟨hs, div_nonpos_of_nonpos_of_nonneg ho (le_of_lt hk), hi⟩

/-- `K` : `ExpConstr(-(u·q), 1, p·q)` with `q = 1/phat > 0` -/
lemma kl_cone_iff (u p q : ℝ) (hq : 0 < q) :
    realExpCone (-(u * q)) 1 (p * q) ↔ 0 ≤ p ∧ p * log (p * q) ≤ u := by
  rw [entropy_cone_iff]
  constructor
  · rintro ⟨h1, h2⟩
    have hp : 0 ≤ p := by
      by_contra hneg
      have : p * q < 0 := mul_neg_of_neg_of_pos (lt_of_not_ge hneg) hq
      linarith
    refine ⟨hp, ?_⟩
    have : (p * log (p * q)) * q ≤ u * q := by linarith
    exact le_of_mul_le_mul_right this hq
  · rintro ⟨h1, h2⟩
    refine ⟨mul_nonneg h1 (le_of_lt hq), ?_⟩
    have : (p * log (p * q)) * q ≤ u * q := mul_le_mul_of_nonneg_right h2 (le_of_lt hq)
    linarith

end real


/-! ### requests: well-formedness, values -/

section requests
variable {K : Type} [Field K] [LinearOrder K] [IsStrictOrderedRing K]

namespace CvxReq

/-- the entries of `affine_in`, `affine_out` only mention the `n` columns of the model -/
def WF (R : CvxReq K) (n : ℕ) : Prop := (∀ e ∈ R.ain, e.SuppLt n) ∧ ∀ e ∈ R.aout, e.SuppLt n

/-- value of entry `i` of `affine_in` at `v` (columns `< n`) -/
def inVal (R : CvxReq K) (n : ℕ) (v : ℕ → K) (i : ℕ) : K := (R.inAt i).eval n v
/-- value of entry `i` of `affine_out` at `v` (columns `< n`) -/
def outVal (R : CvxReq K) (n : ℕ) (v : ℕ → K) (i : ℕ) : K := (R.aout.getD i default).eval n v

lemma suppLt_inAt {R : CvxReq K} {n : ℕ} (h : R.WF n) (i : ℕ) : (R.inAt i).SuppLt n :=
  Aff.suppLt_getD h.1 i

lemma suppLt_outDiv {R : CvxReq K} {n : ℕ} (h : R.WF n) (i : ℕ) : (R.outDiv i).SuppLt n :=
  (Aff.suppLt_getD h.2 i).smul _

lemma eval_outDiv (R : CvxReq K) (n : ℕ) (v : ℕ → K) (i : ℕ) :
    (R.outDiv i).eval n v = R.outVal n v i * (1 / R.mult) := by
  simp [outDiv, outVal, Aff.eval_smul]

end CvxReq

namespace PCvxReq

def WF (R : PCvxReq K) (n : ℕ) : Prop := R.toCvxReq.WF n ∧ ∀ e ∈ R.ascale, e.SuppLt n

/-- value of entry `i` of `affine_scale` at `v` (columns `< n`) -/
def scVal (R : PCvxReq K) (n : ℕ) (v : ℕ → K) (i : ℕ) : K := (R.scAt i).eval n v

lemma suppLt_scAt {R : PCvxReq K} {n : ℕ} (h : R.WF n) (i : ℕ) : (R.scAt i).SuppLt n :=
  Aff.suppLt_getD h.2 i

end PCvxReq

namespace KLReq

def WF (R : KLReq K) (n : ℕ) : Prop := ∀ e ∈ R.p, e.SuppLt n

/-- value of `p[t]` at `v` (columns `< n`) -/
def pVal (R : KLReq K) (n : ℕ) (v : ℕ → K) (t : ℕ) : K := (R.p.getD t default).eval n v

end KLReq

/-- rows built by `ERow.le0` inherit the support of the expression -/
lemma ERow.le0_supp {n : ℕ} {e : Aff K} (he : e.SuppLt n) : ∀ j, n ≤ j → (ERow.le0 e).lin j = 0 := he

/-- every member of a list is the `getD` at some position -/
lemma exists_getD_of_mem {α : Type} {l : List α} {a : α} (h : a ∈ l) (d : α) :
    ∃ t, t < l.length ∧ l.getD t d = a := by
  obtain ⟨i, hi, rfl⟩ := List.getElem_of_mem h
  exact ⟨i, hi, List.getD_eq_getElem _ _ hi⟩

lemma getD_mem {α : Type} {l : List α} {t : ℕ} (h : t < l.length) (d : α) : l.getD t d ∈ l := by
  rw [List.getD_eq_getElem _ _ h]; exact List.getElem_mem h

end requests

end RsomeV.AExp
