import RsomeV.M.AtomsSum
import RsomeV.L.AtomsExp
import Mathlib.Algebra.Order.BigOperators.Group.List

/-! Helper lemmas for `RsomeV/Props/AtomsSum.lean` (summed atoms `exp(e).sum(axis)`, `log(e).sum(axis)`):
evaluation of `sumIdx`, supports of the state `encodeSumAtom` builds, and the equivalence of that
state's content (`ExpEnc.Sat`) with the user's inequalities.  The common last step of `do_math` is
taken from `RsomeV/L/AtomsExp.lean` (`ExpEnc.prog_sound`, `ExpEnc.prog_complete`). -/

set_option linter.unusedSectionVars false
set_option linter.unusedSimpArgs false
set_option linter.unusedVariables false

namespace RsomeV.ASum
open RsomeV.AExp Finset

section generic
variable {K : Type} [Field K] [LinearOrder K] [IsStrictOrderedRing K]

/-! ### `sumIdx` -/

lemma sumIdx_nil (base : ℕ) : (sumIdx base [] : Aff K) = Aff.cst 0 := rfl

lemma sumIdx_cons (base s : ℕ) (g : List ℕ) :
    (sumIdx base (s :: g) : Aff K) = (Aff.var (base + s)).add (sumIdx base g) := rfl

/-- value of `aux[g].sum()` : the sum of the auxiliary columns of the group -/
lemma eval_sumIdx {n base : ℕ} {g : List ℕ} (hg : ∀ s ∈ g, base + s < n) (v : ℕ → K) :
    (sumIdx base g).eval n v = (g.map fun s => v (base + s)).sum := by
  induction g with
  | nil => simp [sumIdx_nil, Aff.eval_cst]
  | cons s g ih =>
    rw [sumIdx_cons, Aff.eval_add, Aff.eval_var (hg s List.mem_cons_self),
      ih (fun t ht => hg t (List.mem_cons_of_mem _ ht))]
    simp

lemma suppLt_sumIdx {n base : ℕ} {g : List ℕ} (hg : ∀ s ∈ g, base + s < n) :
    (sumIdx base g : Aff K).SuppLt n := by
  induction g with
  | nil => exact Aff.suppLt_cst _ _
  | cons s g ih =>
    rw [sumIdx_cons]
    exact (Aff.suppLt_var (hg s List.mem_cons_self)).add
      (ih (fun t ht => hg t (List.mem_cons_of_mem _ ht)))

/-! ### requests -/

namespace SumReq

/-- the entries of `affine_in`, `affine_out` only mention the `n` columns of the model -/
def WF (R : SumReq K) (n : ℕ) : Prop := (∀ e ∈ R.ain, e.SuppLt n) ∧ ∀ e ∈ R.aout, e.SuppLt n

/-- every group only lists entries of `affine_in` (flat indices `< ns`) -/
def GroupsOk (R : SumReq K) : Prop := ∀ g ∈ R.groups, ∀ s ∈ g, s < R.ns

/-- value of entry `s` of `affine_in` at `v` (columns `< n`) -/
def inVal (R : SumReq K) (n : ℕ) (v : ℕ → K) (s : ℕ) : K := (R.inAt s).eval n v
/-- value of entry `i` of `affine_out` at `v` (columns `< n`) -/
def outVal (R : SumReq K) (n : ℕ) (v : ℕ → K) (i : ℕ) : K := (R.aout.getD i default).eval n v

lemma suppLt_inAt {R : SumReq K} {n : ℕ} (h : R.WF n) (i : ℕ) : (R.inAt i).SuppLt n :=
  Aff.suppLt_getD h.1 i

lemma suppLt_outDiv {R : SumReq K} {n : ℕ} (h : R.WF n) (i : ℕ) : (R.outDiv i).SuppLt n :=
  (Aff.suppLt_getD h.2 i).smul _

lemma groupAt_lt {R : SumReq K} (h : R.GroupsOk) (g : ℕ) : ∀ s ∈ R.groupAt g, s < R.ns := by
  unfold groupAt
  by_cases hg : g < R.groups.length
  · rw [List.getD_eq_getElem _ _ hg]; exact h _ (List.getElem_mem hg)
  · rw [List.getD_eq_default _ _ (by omega)]; intro s hs; simp at hs

lemma eval_inAt_congr {R : SumReq K} {n m : ℕ} (h : R.WF n) (hm : n ≤ m) {v' v : ℕ → K}
    (hv : ∀ j < n, v' j = v j) (i : ℕ) : (R.inAt i).eval m v' = R.inVal n v i :=
  Aff.eval_congr (suppLt_inAt h i) hm le_rfl hv

lemma eval_outDiv_congr {R : SumReq K} {n m : ℕ} (h : R.WF n) (hm : n ≤ m) {v' v : ℕ → K}
    (hv : ∀ j < n, v' j = v j) (i : ℕ) :
    (R.outDiv i).eval m v' = R.outVal n v i * (1 / R.mult) := by
  rw [Aff.eval_congr (suppLt_outDiv h i) hm le_rfl hv]
  simp [outDiv, outVal, Aff.eval_smul]

end SumReq

/-! ### the state built by `encodeSumAtom` -/

lemma enc_exp (n : ℕ) (R : SumReq K) (hX : R.isLog = false) :
    encodeSumAtom n R = ⟨n + R.ns,
      R.pairs.map (fun p =>
        ERow.le0 ((sumIdx n (R.groupAt (p.getD 0 0))).add (R.outDiv (p.getD 1 0)))),
      (List.range R.ns).map fun s => ⟨R.inAt s, Aff.var (n + s), Aff.cst 1⟩⟩ := by
  simp [encodeSumAtom, hX]

lemma enc_log (n : ℕ) (R : SumReq K) (hL : R.isLog = true) :
    encodeSumAtom n R = ⟨n + R.ns,
      R.pairs.map (fun p =>
        ERow.le0 ((R.outDiv (p.getD 1 0)).sub (sumIdx n (R.groupAt (p.getD 0 0))))),
      (List.range R.ns).map fun s => ⟨Aff.var (n + s), R.inAt s, Aff.cst 1⟩⟩ := by
  simp [encodeSumAtom, hL]

lemma enc_base (n : ℕ) (R : SumReq K) : (encodeSumAtom n R).base = n + R.ns := rfl

/-- rows and cones only mention the model's columns and the `ns` auxiliary columns -/
lemma enc_wf (n : ℕ) (R : SumReq K) (hwf : R.WF n) (hg : R.GroupsOk) : (encodeSumAtom n R).WF := by
  have hle : n ≤ n + R.ns := Nat.le_add_right _ _
  have hgs : ∀ g, ∀ s ∈ R.groupAt g, n + s < n + R.ns := fun g s hs => by
    have := SumReq.groupAt_lt hg g s hs; omega
  cases hb : R.isLog with
  | false =>
    rw [enc_exp n R hb]
    constructor
    · intro r hr
      obtain ⟨p, _, rfl⟩ := List.mem_map.1 hr
      exact ERow.le0_supp ((suppLt_sumIdx (hgs _)).add ((SumReq.suppLt_outDiv hwf _).mono hle))
    · intro c hc
      obtain ⟨s, hs, rfl⟩ := List.mem_map.1 hc
      have hs' : s < R.ns := List.mem_range.1 hs
      exact ⟨(SumReq.suppLt_inAt hwf s).mono hle, Aff.suppLt_var (by simp only; omega),
        Aff.suppLt_cst _ _⟩
  | true =>
    rw [enc_log n R hb]
    constructor
    · intro r hr
      obtain ⟨p, _, rfl⟩ := List.mem_map.1 hr
      exact ERow.le0_supp (((SumReq.suppLt_outDiv hwf _).mono hle).sub (suppLt_sumIdx (hgs _)))
    · intro c hc
      obtain ⟨s, hs, rfl⟩ := List.mem_map.1 hc
      have hs' : s < R.ns := List.mem_range.1 hs
      exact ⟨Aff.suppLt_var (by simp only; omega), (SumReq.suppLt_inAt hwf s).mono hle,
        Aff.suppLt_cst _ _⟩

end generic

/-! ### over `ℝ` -/

section real
open Real

/-- the linear row of the exp form: `S + out·(1/k) ≤ 0` is `k·S + out ≤ 0` -/
lemma scale_add_iff (k o S : ℝ) (hk : 0 < k) : S + o * (1 / k) ≤ 0 ↔ k * S + o ≤ 0 := by
  have h2 : o * (1 / k) = o / k := by ring
  rw [h2, ← le_neg_iff_add_nonpos_right, ← neg_div, le_div_iff₀ hk]
  constructor <;> intro h <;> linarith

/-- the linear row of the log form: `out·(1/k) - S ≤ 0` is `-k·S + out ≤ 0` -/
lemma scale_sub_iff (k o S : ℝ) (hk : 0 < k) : o * (1 / k) - S ≤ 0 ↔ -k * S + o ≤ 0 := by
  have h2 : o * (1 / k) = o / k := by ring
  rw [h2, sub_nonpos, div_le_iff₀ hk]
  constructor <;> intro h <;> linarith

/-- the user's inequalities of the summed exp constraint at `v` (columns `< n`) -/
def ExpSumSem (n : ℕ) (R : SumReq ℝ) (v : ℕ → ℝ) : Prop :=
  ∀ p ∈ R.pairs,
    R.mult * ((R.groupAt (p.getD 0 0)).map fun s => exp (R.inVal n v s)).sum
      + R.outVal n v (p.getD 1 0) ≤ 0

/-- the user's inequalities of the summed log constraint at `v`, with the domain of `log` -/
def LogSumSem (n : ℕ) (R : SumReq ℝ) (v : ℕ → ℝ) : Prop :=
  (∀ s < R.ns, 0 < R.inVal n v s) ∧
  ∀ p ∈ R.pairs,
    -R.mult * ((R.groupAt (p.getD 0 0)).map fun s => log (R.inVal n v s)).sum
      + R.outVal n v (p.getD 1 0) ≤ 0

/-- exp form: content of the state ⟹ user's inequalities -/
lemma expsum_sat_sound (n : ℕ) (R : SumReq ℝ) (hX : R.isLog = false) (hwf : R.WF n)
    (hg : R.GroupsOk) (hk : 0 < R.mult) (v : ℕ → ℝ)
    (hs : (encodeSumAtom n R).Sat realExpCone v) : ExpSumSem n R v := by
  rw [enc_exp n R hX] at hs
  obtain ⟨hrows, hcones⟩ := hs
  have hle : n ≤ n + R.ns := Nat.le_add_right _ _
  have hc : ∀ s < R.ns, exp (R.inVal n v s) ≤ v (n + s) := by
    intro s hs
    have := hcones _ (List.mem_map.2 ⟨s, List.mem_range.2 hs, rfl⟩)
    simp only [Aff.eval_cst, Aff.eval_var (show n + s < n + R.ns by omega),
      SumReq.eval_inAt_congr hwf hle (fun _ _ => rfl), realExpCone_one] at this
    exact this
  intro p hp
  have hgl := SumReq.groupAt_lt hg (p.getD 0 0)
  have hrow := hrows _ (List.mem_map.2 ⟨p, hp, rfl⟩)
  rw [ERow.holds_le0, Aff.eval_add, eval_sumIdx (n := n + R.ns) (fun s hs => by have := hgl s hs; omega),
    SumReq.eval_outDiv_congr hwf hle (fun _ _ => rfl)] at hrow
  have hsum : ((R.groupAt (p.getD 0 0)).map fun s => exp (R.inVal n v s)).sum ≤
      ((R.groupAt (p.getD 0 0)).map fun s => v (n + s)).sum :=
    List.sum_le_sum fun s hs => hc s (hgl s hs)
  apply (scale_add_iff _ _ _ hk).1
  linarith

/-- exp form: user's inequalities ⟹ content of the state, the auxiliary column of entry `s`
holding `exp(e_s)` -/
lemma expsum_sat_complete (n : ℕ) (R : SumReq ℝ) (hX : R.isLog = false) (hwf : R.WF n)
    (hg : R.GroupsOk) (hk : 0 < R.mult) (v v' : ℕ → ℝ) (hv : ∀ j < n, v' j = v j)
    (haux : ∀ s < R.ns, v' (n + s) = exp (R.inVal n v s)) (h : ExpSumSem n R v) :
    (encodeSumAtom n R).Sat realExpCone v' := by
  rw [enc_exp n R hX]
  have hle : n ≤ n + R.ns := Nat.le_add_right _ _
  constructor
  · intro r hr
    obtain ⟨p, hp, rfl⟩ := List.mem_map.1 hr
    have hgl := SumReq.groupAt_lt hg (p.getD 0 0)
    rw [ERow.holds_le0, Aff.eval_add, eval_sumIdx (n := n + R.ns) (fun s hs => by have := hgl s hs; omega),
      SumReq.eval_outDiv_congr hwf hle hv]
    have e : ((R.groupAt (p.getD 0 0)).map fun s => v' (n + s)) =
        (R.groupAt (p.getD 0 0)).map fun s => exp (R.inVal n v s) :=
      List.map_congr_left fun s hs => haux s (hgl s hs)
    rw [e]
    exact (scale_add_iff _ _ _ hk).2 (h p hp)
  · intro c hc
    obtain ⟨s, hs, rfl⟩ := List.mem_map.1 hc
    have hs' : s < R.ns := List.mem_range.1 hs
    simp only [Aff.eval_cst, Aff.eval_var (show n + s < n + R.ns by omega),
      SumReq.eval_inAt_congr hwf hle hv, realExpCone_one, haux s hs']
    exact le_rfl

/-- log form: content of the state ⟹ user's inequalities and positivity of every `e_s` -/
lemma logsum_sat_sound (n : ℕ) (R : SumReq ℝ) (hL : R.isLog = true) (hwf : R.WF n)
    (hg : R.GroupsOk) (hk : 0 < R.mult) (v : ℕ → ℝ)
    (hs : (encodeSumAtom n R).Sat realExpCone v) : LogSumSem n R v := by
  rw [enc_log n R hL] at hs
  obtain ⟨hrows, hcones⟩ := hs
  have hle : n ≤ n + R.ns := Nat.le_add_right _ _
  have hc : ∀ s < R.ns, 0 < R.inVal n v s ∧ v (n + s) ≤ log (R.inVal n v s) := by
    intro s hs
    have := hcones _ (List.mem_map.2 ⟨s, List.mem_range.2 hs, rfl⟩)
    simp only [Aff.eval_cst, Aff.eval_var (show n + s < n + R.ns by omega),
      SumReq.eval_inAt_congr hwf hle (fun _ _ => rfl), realExpCone_one] at this
    have hpos : 0 < R.inVal n v s := lt_of_lt_of_le (exp_pos _) this
    exact ⟨hpos, (le_log_iff_exp_le hpos).2 this⟩
  refine ⟨fun s hs => (hc s hs).1, ?_⟩
  intro p hp
  have hgl := SumReq.groupAt_lt hg (p.getD 0 0)
  have hrow := hrows _ (List.mem_map.2 ⟨p, hp, rfl⟩)
  rw [ERow.holds_le0, Aff.eval_sub, eval_sumIdx (n := n + R.ns) (fun s hs => by have := hgl s hs; omega),
    SumReq.eval_outDiv_congr hwf hle (fun _ _ => rfl)] at hrow
  have hsum : ((R.groupAt (p.getD 0 0)).map fun s => v (n + s)).sum ≤
      ((R.groupAt (p.getD 0 0)).map fun s => log (R.inVal n v s)).sum :=
    List.sum_le_sum fun s hs => (hc s (hgl s hs)).2
  apply (scale_sub_iff _ _ _ hk).1
  linarith

/-- log form: user's inequalities ⟹ content of the state, the auxiliary column of entry `s`
holding `log(e_s)` -/
lemma logsum_sat_complete (n : ℕ) (R : SumReq ℝ) (hL : R.isLog = true) (hwf : R.WF n)
    (hg : R.GroupsOk) (hk : 0 < R.mult) (v v' : ℕ → ℝ) (hv : ∀ j < n, v' j = v j)
    (haux : ∀ s < R.ns, v' (n + s) = log (R.inVal n v s)) (h : LogSumSem n R v) :
    (encodeSumAtom n R).Sat realExpCone v' := by
  rw [enc_log n R hL]
  have hle : n ≤ n + R.ns := Nat.le_add_right _ _
  constructor
  · intro r hr
    obtain ⟨p, hp, rfl⟩ := List.mem_map.1 hr
    have hgl := SumReq.groupAt_lt hg (p.getD 0 0)
    rw [ERow.holds_le0, Aff.eval_sub, eval_sumIdx (n := n + R.ns) (fun s hs => by have := hgl s hs; omega),
      SumReq.eval_outDiv_congr hwf hle hv]
    have e : ((R.groupAt (p.getD 0 0)).map fun s => v' (n + s)) =
        (R.groupAt (p.getD 0 0)).map fun s => log (R.inVal n v s) :=
      List.map_congr_left fun s hs => haux s (hgl s hs)
    rw [e]
    exact (scale_sub_iff _ _ _ hk).2 (h.2 p hp)
  · intro c hc
    obtain ⟨s, hs, rfl⟩ := List.mem_map.1 hc
    have hs' : s < R.ns := List.mem_range.1 hs
    simp only [Aff.eval_cst, Aff.eval_var (show n + s < n + R.ns by omega),
      SumReq.eval_inAt_congr hwf hle hv, realExpCone_one, haux s hs']
    rw [exp_log (h.1 s hs')]

/-- from the content of the state to a feasible point of the emitted program (same user columns) -/
lemma enc_feasible_of_sat (n : ℕ) (R : SumReq ℝ) (hwf : R.WF n) (hg : R.GroupsOk) (v : ℕ → ℝ)
    (u : ℕ → ℝ)
    (h : ∀ v' : ℕ → ℝ, (∀ j < n, v' j = v j) → (∀ s < R.ns, v' (n + s) = u s) →
      (encodeSumAtom n R).Sat realExpCone v') :
    ∃ w, (∀ j < n, w j = v j) ∧ (∀ s < R.ns, w (n + s) = u s) ∧
      (encodeSumAtom n R).prog.Feas realExpCone w := by
  let v1 : ℕ → ℝ := fun j => if j < n then v j else u (j - n)
  have h1 : ∀ j < n, v1 j = v j := fun j hj => by simp [v1, hj]
  have h2 : ∀ s < R.ns, v1 (n + s) = u s := fun s _ => by simp [v1]
  obtain ⟨w, hw, hf⟩ := (encodeSumAtom n R).prog_complete (enc_wf n R hwf hg) realExpCone v1
    (h v1 h1 h2)
  rw [enc_base] at hw
  exact ⟨w, fun j hj => by rw [hw j (by omega), h1 j hj],
    fun s hs => by rw [hw (n + s) (by omega), h2 s hs], hf⟩

end real

end RsomeV.ASum
