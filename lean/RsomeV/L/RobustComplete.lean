import RsomeV.M.Robust
import RsomeV.L.ConeDualWeak
import RsomeV.L.RobustSound
import RsomeV.L.LpDualStrong
import Mathlib.Tactic.Linarith
import Mathlib.Tactic.Ring

/-! Helper lemmas for the completeness (exactness) of the robust counterpart model
`RoRows.leToRc` (`RsomeV/Props/C02.lean`): the converse of `RoRows.leToRc_extract`. -/

set_option linter.unusedSectionVars false
set_option linter.unusedSimpArgs false
set_option linter.unusedVariables false

namespace RsomeV
open Finset

variable {K : Type} [Field K] [LinearOrder K] [IsStrictOrderedRing K]

/-! ### Generic lemmas -/

/-- decoding of a position inside an `m × w` row-major block -/
lemma block_decomp (k m w : ℕ) (hk : k < m * w) :
    k / w < m ∧ k % w < w ∧ k = (k / w) * w + k % w := by
  have hw : 0 < w := by
    rcases Nat.eq_zero_or_pos w with h | h
    · subst h; simp at hk
    · exact h
  refine ⟨?_, Nat.mod_lt _ hw, (Nat.div_add_mod' k w).symm⟩
  apply Nat.div_lt_of_lt_mul
  rw [Nat.mul_comm]; exact hk

lemma socMem_congr (u w : ℕ → K) (q : List ℕ) (h : ∀ i ∈ q, u i = w i) :
    socMem u q ↔ socMem w q := by
  cases q with
  | nil => exact Iff.rfl
  | cons a t =>
    have ha : u a = w a := h a (List.mem_cons_self)
    have ht : (t.map fun j => u j ^ 2) = (t.map fun j => w j ^ 2) := by
      apply List.map_congr_left
      intro j hj
      rw [h j (List.mem_cons_of_mem _ hj)]
    simp only [socMem, ha, ht]

namespace ConeProg

/-- without cones the conic dual is the LP dual -/
lemma coneDual_nocone (P : ConeProg K) (hq : P.qmat = []) (hx : P.xmat = []) :
    P.coneDual = { lp := P.lp.dual, st := fun j i => P.augSt i j, qmat := [], xmat := [] } := by
  unfold coneDual socDual
  simp only [hq, hx, List.isEmpty_nil, if_true]

/-! ### The cone index lists of `coneDual` address columns of `coneDual` -/

lemma qBlocks_lt : ∀ (qs : List (List ℕ)) (off : ℕ),
    ∀ b ∈ qBlocks qs off, ∀ i ∈ b, i < off + qs.flatten.length
  | [], _ => by intro b hb; simp [qBlocks] at hb
  | q :: qs, off => by
    intro b hb i hi
    simp only [qBlocks, List.mem_cons] at hb
    simp only [List.flatten_cons, List.length_append]
    rcases hb with rfl | hb
    · simp only [List.mem_map, List.mem_range] at hi
      obtain ⟨a, ha, rfl⟩ := hi
      omega
    · have := qBlocks_lt qs (off + q.length) b hb i hi
      omega

lemma socDual_qlt (P : ConeProg K) : ∀ q ∈ P.socDual.qmat, ∀ i ∈ q, i < P.socDual.lp.nc := by
  rcases socDual_cases P with h | h | h <;> rw [h]
  · intro q hq; simp at hq
  · intro q hq i hi
    show i < P.lp.augNr
    simp only [socDual1, List.mem_map] at hq
    obtain ⟨q0, _, rfl⟩ := hq
    simp only [List.mem_flatMap, rowStored, List.mem_filter, List.mem_range] at hi
    obtain ⟨_, _, h1, _⟩ := hi
    exact h1
  · intro q hq i hi
    show i < P.lp.dual.nc + P.eye.length
    exact qBlocks_lt P.qmat P.lp.dual.nc q hq i hi

lemma coneDual_qlt (P : ConeProg K) : ∀ q ∈ P.coneDual.qmat, ∀ i ∈ q, i < P.coneDual.lp.nc := by
  by_cases hx : P.xmat.isEmpty = true
  · have : P.coneDual = P.socDual := by unfold coneDual; rw [if_pos hx]
    rw [this]; exact socDual_qlt P
  · rw [coneDual_of_xmat P hx]
    intro q hq i hi
    have := socDual_qlt P q hq i hi
    show i < P.socDual.lp.nc + 3 * P.xmat.length
    omega

lemma coneDual_xlt (P : ConeProg K) : ∀ e ∈ P.coneDual.xmat, ∀ i ∈ e, i < P.coneDual.lp.nc := by
  by_cases hx : P.xmat.isEmpty = true
  · have : P.coneDual = P.socDual := by unfold coneDual; rw [if_pos hx]
    rw [this, socDual_xmat]
    intro e he; simp at he
  · rw [coneDual_of_xmat P hx]
    intro e he i hi
    show i < P.socDual.lp.nc + 3 * P.xmat.length
    simp only [List.mem_map, List.mem_range] at he
    obtain ⟨k, hk, rfl⟩ := he
    simp only [List.mem_cons, List.not_mem_nil, or_false] at hi
    omega

end ConeProg

namespace RoRows

variable (R : RoRows K) (S : ConeProg K)

/-! ### The cost vector that turns the support program into the inner problem of row `n` -/

/-- cost of the support program whose objective is minus the uncertain part of row `n` -/
def rowCost (n : ℕ) (v : ℕ → K) : ℕ → K := fun j => if j < R.nz then - R.coef n j v else 0

/-- deterministic part of row `n` -/
def detPart (n : ℕ) (v : ℕ → K) : K := (∑ d ∈ range R.nd, R.al n d * v d) + R.ac n

lemma eval_eq (n : ℕ) (v z : ℕ → K) :
    R.eval n v z = (∑ j ∈ range R.nz, R.coef n j v * z j) + R.detPart n v := rfl

/-- `eval` reads the assignment on the decision columns only -/
lemma eval_congr (n : ℕ) (v v' z : ℕ → K) (h : ∀ d < R.nd, v d = v' d) :
    R.eval n v z = R.eval n v' z := by
  unfold eval
  have h1 : ∀ j, ∑ d ∈ range R.nd, R.Rl n j d * v d = ∑ d ∈ range R.nd, R.Rl n j d * v' d := by
    intro j; apply Finset.sum_congr rfl; intro d hd; rw [h d (Finset.mem_range.mp hd)]
  have h2 : ∑ d ∈ range R.nd, R.al n d * v d = ∑ d ∈ range R.nd, R.al n d * v' d := by
    apply Finset.sum_congr rfl; intro d hd; rw [h d (Finset.mem_range.mp hd)]
  rw [h2]
  congr 1
  apply Finset.sum_congr rfl; intro j _; rw [h1 j]

/-- objective of the re-costed support program = minus the uncertain part of the row -/
lemma obj_rowCost (Pz : ConeProg K) (hnz : R.nz ≤ Pz.lp.nc) (n : ℕ) (v ζ : ℕ → K) :
    (Pz.withCost (R.rowCost n v)).lp.obj ζ = - ∑ j ∈ range R.nz, R.coef n j v * ζ j := by
  show ∑ j ∈ range Pz.lp.nc, R.rowCost n v j * ζ j = _
  obtain ⟨k, hk⟩ := Nat.exists_eq_add_of_le hnz
  rw [hk, Finset.sum_range_add, ← Finset.sum_neg_distrib]
  have h0 : ∑ x ∈ range k, R.rowCost n v (R.nz + x) * ζ (R.nz + x) = 0 := by
    apply Finset.sum_eq_zero; intro x _
    simp only [rowCost, show ¬ R.nz + x < R.nz by omega, if_false, zero_mul]
  rw [h0, add_zero]
  apply Finset.sum_congr rfl; intro j hj
  simp only [rowCost, Finset.mem_range.mp hj, if_true]; ring

/-- right-hand side of the conic dual for the cost `rowCost n v`: the substituted right-hand
side of rows (2) and (3) of the counterpart -/
lemma dualRhs_rowCost (Pz : ConeProg K) (hones : ∀ j, Pz.lp.c j = 1) (hnz : R.nz ≤ Pz.lp.nc)
    (hq : ∀ q ∈ Pz.qmat, ∀ j ∈ q, R.nz ≤ j) (n : ℕ) (v : ℕ → K)
    (j : ℕ) (hj : j < Pz.coneDual.lp.nr) :
    Pz.dualRhs (R.rowCost n v) j
      = if j < R.numRand Pz.coneDual then - R.coef n j v * Pz.coneDual.lp.b j else 0 := by
  have hnr : R.nz ≤ Pz.coneDual.lp.nr := ConeProg.le_coneDual_nr Pz R.nz hnz hq
  have hnum : R.numRand Pz.coneDual = R.nz := by unfold numRand; exact Nat.min_eq_left hnr
  rw [hnum, ConeProg.coneDual_b]
  unfold ConeProg.dualRhs
  by_cases h : j < R.nz
  · rw [if_pos h, ConeProg.rowIdx_lt Pz R.nz hnz hq j h, hones]
    simp only [rowCost, h, if_true]
    split_ifs <;> ring
  · have := ConeProg.rowIdx_ge Pz R.nz hnz hq j (by omega) hj
    rw [if_neg h]
    simp only [rowCost, show ¬ Pz.rowIdx j < R.nz by omega, if_false]
    split_ifs <;> simp

/-! ### Truncation to the random components the support program knows -/

/-- the rows with the random components `j ≥ k` dropped -/
def trunc (k : ℕ) : RoRows K := { R with nz := k }

lemma trunc_coef (k n j : ℕ) (v : ℕ → K) : (R.trunc k).coef n j v = R.coef n j v := rfl
lemma trunc_detPart (k n : ℕ) (v : ℕ → K) : (R.trunc k).detPart n v = R.detPart n v := rfl

/-- adding `t` to component `j` of the realisation adds `t` times the coefficient of `z_j` -/
lemma eval_bump (n : ℕ) (v z : ℕ → K) (j : ℕ) (hj : j < R.nz) (t : K) :
    R.eval n v (fun i => if i = j then z i + t else z i) = R.eval n v z + R.coef n j v * t := by
  rw [eval_eq, eval_eq]
  have e : ∀ i ∈ range R.nz, R.coef n i v * (if i = j then z i + t else z i)
      = R.coef n i v * z i + (if i = j then R.coef n j v * t else 0) := by
    intro i _
    by_cases h : i = j
    · subst h; rw [if_pos rfl, if_pos rfl]; ring
    · rw [if_neg h, if_neg h, add_zero]
  rw [Finset.sum_congr rfl e, Finset.sum_add_distrib, Finset.sum_ite_eq' (range R.nz) j,
    if_pos (Finset.mem_range.mpr hj)]
  ring

/-! ### Assembling an assignment of the fragment's columns -/

/-- decisions `v` on `[0, nd)`, multipliers `y n i` on column `ycol n i` -/
def assemble (v : ℕ → K) (y : ℕ → ℕ → K) : ℕ → K :=
  fun c => if c < R.nd then v c else y ((c - R.nd) / S.lp.nc) ((c - R.nd) % S.lp.nc)

lemma assemble_dec (v : ℕ → K) (y : ℕ → ℕ → K) (d : ℕ) (hd : d < R.nd) :
    R.assemble S v y d = v d := by
  unfold assemble; rw [if_pos hd]

lemma assemble_ycol (v : ℕ → K) (y : ℕ → ℕ → K) (n i : ℕ) (hi : i < S.lp.nc) :
    R.assemble S v y (R.ycol S n i) = y n i := by
  unfold assemble ycol
  rw [if_neg (by omega)]
  have e : R.nd + n * S.lp.nc + i - R.nd = i + n * S.lp.nc := by omega
  rw [e, Nat.add_mul_div_right _ _ (by omega), Nat.div_eq_of_lt hi, Nat.add_mul_mod_self_right,
    Nat.mod_eq_of_lt hi, Nat.zero_add]

lemma sum_assemble_dec (v : ℕ → K) (y : ℕ → ℕ → K) (f : ℕ → K) :
    ∑ d ∈ range R.nd, f d * R.assemble S v y d = ∑ d ∈ range R.nd, f d * v d := by
  apply Finset.sum_congr rfl; intro d hd
  rw [R.assemble_dec S v y d (Finset.mem_range.mp hd)]

lemma sum_assemble_ycol (v : ℕ → K) (y : ℕ → ℕ → K) (n : ℕ) (g : ℕ → K) :
    ∑ i ∈ range S.lp.nc, g i * R.assemble S v y (R.ycol S n i)
      = ∑ i ∈ range S.lp.nc, g i * y n i := by
  apply Finset.sum_congr rfl; intro i hi
  rw [R.assemble_ycol S v y n i (Finset.mem_range.mp hi)]

/-- every multiplier column is some `ycol n i` -/
lemma col_decomp (c : ℕ) (h1 : R.nd ≤ c) (h2 : c < R.nd + R.m * S.lp.nc) :
    ∃ n i, n < R.m ∧ i < S.lp.nc ∧ c = R.ycol S n i := by
  obtain ⟨ha, hb, hc⟩ := block_decomp (c - R.nd) R.m S.lp.nc (by omega)
  refine ⟨_, _, ha, hb, ?_⟩
  unfold ycol
  omega

/-- **Converse of `leToRc_extract`**: multiplier vectors `y n` that are feasible for the support
with the substituted right-hand side, and that satisfy row (1), assemble to a feasible point of
the counterpart fragment. -/
theorem leToRc_build (E : K → K → K → Prop)
    (hqlt : ∀ q ∈ S.qmat, ∀ i ∈ q, i < S.lp.nc)
    (hxlt : ∀ e ∈ S.xmat, ∀ i ∈ e, i < S.lp.nc)
    (hxlen : ∀ e ∈ S.xmat, e.length = 3)
    (v : ℕ → K) (y : ℕ → ℕ → K) (b' : ℕ → ℕ → K)
    (hb' : ∀ n < R.m, ∀ j < S.lp.nr,
      b' n j = if j < R.numRand S then - R.coef n j v * S.lp.b j else 0)
    (hy : ∀ n < R.m, ConeProg.Feas { S with lp := { S.lp with b := b' n } } E (y n))
    (h1 : ∀ n < R.m, ∑ d ∈ range R.nd, R.al n d * v d + ∑ i ∈ range S.lp.nc, S.lp.c i * y n i
      ≤ - R.ac n)
    -- block (4): the coefficients of the random components the support does not know vanish
    (h4 : ∀ n < R.m, ∀ j, R.numRand S ≤ j → j < R.nz → R.coef n j v = 0) :
    (R.leToRc S).prog.Feas E (R.assemble S v y) := by
  have hrowS : ∀ n < R.m, ∀ j < S.lp.nr,
      if S.lp.eq j then ∑ i ∈ range S.lp.nc, S.lp.a j i * y n i = b' n j
      else ∑ i ∈ range S.lp.nc, S.lp.a j i * y n i ≤ b' n j := by
    intro n hn j hj
    exact (hy n hn).lin.rows j hj
  refine ⟨⟨?_, ?_, ?_⟩, ?_, ?_⟩
  · intro r hr
    rw [leToRc_nr] at hr
    by_cases c1 : r < R.m
    · -- row (1)
      rw [leToRc_row1 R S r c1, leToRc_b1 R S r c1, leToRc_eq1 R S r c1,
        sum_assemble_dec, sum_assemble_ycol]
      simp only [Bool.false_eq_true, if_false]
      exact h1 r c1
    · by_cases c2 : r < R.m + R.m * R.numRand S
      · -- rows (2)
        obtain ⟨hn, hj, hdec⟩ := block_decomp (r - R.m) R.m (R.numRand S) (by omega)
        set n := (r - R.m) / R.numRand S
        set j := (r - R.m) % R.numRand S
        have hr' : r = R.m + (n * R.numRand S + j) := by omega
        have hjS : j < S.lp.nr := lt_of_lt_of_le hj (Nat.min_le_right _ _)
        rw [hr', leToRc_row2 R S n hn j hj, leToRc_b2 R S n hn j hj, leToRc_eq2 R S n hn j hj,
          sum_assemble_dec, sum_assemble_ycol]
        have hdist : ∑ d ∈ range R.nd, R.Rl n j d * S.lp.b j * v d
            = (∑ d ∈ range R.nd, R.Rl n j d * v d) * S.lp.b j := by
          rw [Finset.sum_mul]; apply Finset.sum_congr rfl; intro d _; ring
        have h := hrowS n hn j hjS
        rw [hb' n hn j hjS, if_pos hj] at h
        unfold coef at h
        rw [hdist]
        split_ifs at h ⊢ <;> linarith
      · by_cases c3 : r < R.m + R.m * R.numRand S + R.m * (S.lp.nr - R.numRand S)
        · -- rows (3)
          obtain ⟨hn, hk, hdec⟩ := block_decomp (r - R.m - R.m * R.numRand S) R.m
            (S.lp.nr - R.numRand S) (by omega)
          set n := (r - R.m - R.m * R.numRand S) / (S.lp.nr - R.numRand S)
          set k := (r - R.m - R.m * R.numRand S) % (S.lp.nr - R.numRand S)
          have hr' : r = R.m + R.m * R.numRand S + (n * (S.lp.nr - R.numRand S) + k) := by omega
          have hjS : R.numRand S + k < S.lp.nr := by omega
          rw [hr', leToRc_row3 R S n hn k hk, leToRc_b3 R S n hn k hk, leToRc_eq3 R S n hn k hk,
            sum_assemble_ycol]
          have h := hrowS n hn _ hjS
          rw [hb' n hn _ hjS, if_neg (show ¬ R.numRand S + k < R.numRand S by omega)] at h
          exact h
        · -- rows (4)
          have hp : R.latePresent S = true := by
            by_contra hp
            have : R.n4 S = 0 := by unfold n4; rw [if_neg hp]
            omega
          rw [n4_present R S hp] at hr
          obtain ⟨hn, hk, hdec⟩ := block_decomp
            (r - R.m - R.m * R.numRand S - R.m * (S.lp.nr - R.numRand S)) R.m
            (R.nz - R.numRand S) (by omega)
          set n := (r - R.m - R.m * R.numRand S - R.m * (S.lp.nr - R.numRand S)) / (R.nz - R.numRand S)
          set k := (r - R.m - R.m * R.numRand S - R.m * (S.lp.nr - R.numRand S)) % (R.nz - R.numRand S)
          have hr' : r = R.m + R.m * R.numRand S + R.m * (S.lp.nr - R.numRand S)
              + (n * (R.nz - R.numRand S) + k) := by omega
          rw [hr', leToRc_row4 R S n hn k hk, leToRc_b4 R S n hn k hk, leToRc_eq4 R S n hn k hk,
            sum_assemble_dec]
          have h := h4 n hn (R.numRand S + k) (by omega) (by omega)
          unfold coef at h
          simp only [if_true]
          linarith
  · intro c hc
    rw [leToRc_nc] at hc
    by_cases c1 : c < R.nd
    · have : (R.leToRc S).prog.lp.ub c = none := by
        show (if decide (R.nd ≤ c ∧ c < R.nd + R.m * S.lp.nc) = true ∧
          S.lp.ub ((c - R.nd) % S.lp.nc) = some 0 then some (0 : K) else none) = none
        rw [if_neg]
        intro h
        have := of_decide_eq_true h.1
        omega
      rw [this]; trivial
    · obtain ⟨n, i, hn, hi, rfl⟩ := R.col_decomp S c (by omega) hc
      rw [leToRc_ub R S n hn i hi, assemble_ycol R S v y n i hi]
      have h := (hy n hn).lin.ubs i hi
      change LinProg.leUb (y n i) (S.lp.ub i) at h
      by_cases h0 : S.lp.ub i = some 0
      · rw [if_pos h0]; rw [h0] at h; exact h
      · rw [if_neg h0]; trivial
  · intro c hc
    rw [leToRc_nc] at hc
    by_cases c1 : c < R.nd
    · have : (R.leToRc S).prog.lp.lb c = none := by
        show (if decide (R.nd ≤ c ∧ c < R.nd + R.m * S.lp.nc) = true ∧
          S.lp.lb ((c - R.nd) % S.lp.nc) = some 0 then some (0 : K) else none) = none
        rw [if_neg]
        intro h
        have := of_decide_eq_true h.1
        omega
      rw [this]; trivial
    · obtain ⟨n, i, hn, hi, rfl⟩ := R.col_decomp S c (by omega) hc
      rw [leToRc_lb R S n hn i hi, assemble_ycol R S v y n i hi]
      have h := (hy n hn).lin.lbs i hi
      change LinProg.geLb (y n i) (S.lp.lb i) at h
      by_cases h0 : S.lp.lb i = some 0
      · rw [if_pos h0]; rw [h0] at h; exact h
      · rw [if_neg h0]; trivial
  · intro q' hq'
    simp only [leToRc, List.mem_flatMap, List.mem_range, List.mem_map] at hq'
    obtain ⟨n, hn, q, hq, rfl⟩ := hq'
    rw [socMem_map]
    have hs : socMem (y n) q := (hy n hn).soc q hq
    refine (socMem_congr _ _ q ?_).mpr hs
    intro i hi
    exact assemble_ycol R S v y n i (hqlt q hq i hi)
  · intro e' he'
    simp only [leToRc, List.mem_flatMap, List.mem_range, List.mem_map] at he'
    obtain ⟨n, hn, e, he, rfl⟩ := he'
    have hl := hxlen e he
    have hg : ∀ p < 3, (e.map (fun i => R.ycol S n i)).getD p 0 = R.ycol S n (e.getD p 0) := by
      intro p hp
      rw [List.getD_eq_getElem _ _ (by simp; omega), List.getD_eq_getElem _ _ (by omega)]
      simp
    have hlt : ∀ p < 3, e.getD p 0 < S.lp.nc := by
      intro p hp
      exact hxlt e he _ (ConeProg.getD_mem' e p (by omega) 0)
    have h := (hy n hn).exp e he
    rw [hg 0 (by omega), hg 1 (by omega), hg 2 (by omega),
      assemble_ycol R S v y n _ (hlt 0 (by omega)), assemble_ycol R S v y n _ (hlt 1 (by omega)),
      assemble_ycol R S v y n _ (hlt 2 (by omega))]
    exact h

end RoRows
end RsomeV
