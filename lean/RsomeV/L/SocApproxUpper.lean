import RsomeV.L.SocApprox
import Mathlib.Tactic.Choose

/-! Helper lemmas for `RsomeV/Props/C18Upper.lean` (completeness of the blocks of the model of
`GCProg.to_socp`):

* `BlockCore` / `extend`: the relations of one block on its first `numVars L = 8 + L` columns
  (`t, x0, x1, α0, α1, f, g, h, v_0..v_{L-1}`) and the canonical values of the `3·(3+L)` cone columns;
  `blockRel_of_core` / `blockCore_of_rel`: `BlockRel` holds for some values of the cone columns iff
  `BlockCore` holds.
* `corePt`: the squaring-chain values `f = u²/α1`, `g = (u+α1)²/α1`, `h = g²/α1`,
  `v_d = α1·(v_0/α1)^(2^d)`; `blockCore_corePt_pos` / `blockCore_corePt_zero`.
* `blockRel_row`, `toSocp_feas_of_blocks`: a point of the source program together with one feasible
  block point per exponential cone is a feasible point of `toSocp`. -/

set_option linter.unusedSectionVars false
set_option linter.unusedSimpArgs false
set_option linter.unusedVariables false

namespace RsomeV
namespace SocApprox
open Finset

variable {K : Type} [Field K] [LinearOrder K] [IsStrictOrderedRing K]

/-! ### cone columns -/

/-- converse of `rot_prod`: with `c0 = (a - w)/2`, `c1 = y`, `c2 = (a + w)/2` the rows, the bound and
the cone of one rotated cone hold as soon as `y² ≤ a·w`, `a, w ≥ 0` -/
lemma rot_complete (a w yv : K) (ha : 0 ≤ a) (hw : 0 ≤ w) (h : yv ^ 2 ≤ a * w) :
    0 ≤ (a + w) / 2 ∧ yv ^ 2 + ((a - w) / 2) ^ 2 ≤ ((a + w) / 2) ^ 2 := by
  constructor
  · linarith
  · have e : ((a + w) / 2) ^ 2 - ((a - w) / 2) ^ 2 = a * w := by ring
    linarith

/-- The relations of one block on its first `numVars L` columns (the cone triples eliminated):
as `BlockRel`, with `rot` replaced by `y_q² ≤ α1·w_q` and `0 ≤ t`. -/
structure BlockCore (L : ℕ) (lo hi elo a0 a1 a2 : K) (y : ℕ → K) : Prop where
  epi : y 0 + elo * y 3 ≤ a1
  splitx : y 1 + y 2 = a0
  splita : y 3 + y 4 = a2
  taylor : 20 / 2 ^ L / 24 * y 2 + 23 / 24 * y 4 + 1 / 4 * y 5 + 1 / 24 * y 7 ≤ y 8
  cutLo0 : y 1 ≤ lo * y 3
  cutHi : y 2 ≤ hi * y 4
  cutLo1 : lo * y 4 ≤ y 2
  nonneg : ∀ c, 3 ≤ c → c < numVars L → 0 ≤ y c
  tnonneg : 0 ≤ y 0
  prod : ∀ q < 3 + L, yVal L q y ^ 2 ≤ y 4 * y (wCol L q)

/-- the canonical values of the cone columns: `(α1 - w_q)/2`, `y_q`, `(α1 + w_q)/2` -/
def extend (L : ℕ) (y : ℕ → K) (c : ℕ) : K :=
  if c < numVars L then y c
  else if (c - numVars L) % 3 = 0 then (y 4 - y (wCol L ((c - numVars L) / 3))) / 2
  else if (c - numVars L) % 3 = 1 then yVal L ((c - numVars L) / 3) y
  else (y 4 + y (wCol L ((c - numVars L) / 3))) / 2

lemma extend_lt (L : ℕ) (y : ℕ → K) (c : ℕ) (hc : c < numVars L) : extend L y c = y c := by
  simp [extend, hc]

lemma extend_rot0 (L : ℕ) (y : ℕ → K) (q : ℕ) :
    extend L y (numVars L + 3 * q) = (y 4 - y (wCol L q)) / 2 := by
  have h1 : ¬ (numVars L + 3 * q < numVars L) := by omega
  have h2 : (numVars L + 3 * q - numVars L) % 3 = 0 := by omega
  have h3 : (numVars L + 3 * q - numVars L) / 3 = q := by omega
  simp [extend, h1, h2, h3]

lemma extend_rot1 (L : ℕ) (y : ℕ → K) (q : ℕ) :
    extend L y (numVars L + 3 * q + 1) = yVal L q y := by
  have h1 : ¬ (numVars L + 3 * q + 1 < numVars L) := by omega
  have h2 : (numVars L + 3 * q + 1 - numVars L) % 3 = 1 := by omega
  have h3 : (numVars L + 3 * q + 1 - numVars L) / 3 = q := by omega
  simp [extend, h1, h2, h3]

lemma extend_rot2 (L : ℕ) (y : ℕ → K) (q : ℕ) :
    extend L y (numVars L + 3 * q + 2) = (y 4 + y (wCol L q)) / 2 := by
  have h1 : ¬ (numVars L + 3 * q + 2 < numVars L) := by omega
  have h2 : (numVars L + 3 * q + 2 - numVars L) % 3 = 2 := by omega
  have h3 : (numVars L + 3 * q + 2 - numVars L) / 3 = q := by omega
  simp [extend, h1, h2, h3]

lemma yVal_congr (L q : ℕ) (hq : q < 3 + L) (y z : ℕ → K) (h : ∀ c < numVars L, y c = z c) :
    yVal L q y = yVal L q z := by
  have hV : numVars L = 8 + L := by unfold numVars; omega
  unfold yVal
  rw [h 2 (by omega), h 4 (by omega), h 6 (by omega), h (5 + q) (by omega)]

/-- `BlockCore` on the first `numVars L` columns gives `BlockRel` with the canonical cone columns -/
lemma blockRel_of_core (L : ℕ) (hL : 1 ≤ L) (lo hi elo a0 a1 a2 : K) (y : ℕ → K)
    (h : BlockCore L lo hi elo a0 a1 a2 y) : BlockRel L lo hi elo a0 a1 a2 (extend L y) := by
  have hV : numVars L = 8 + L := by unfold numVars; omega
  have e : ∀ c < numVars L, extend L y c = y c := extend_lt L y
  refine ⟨?_, ?_, ?_, ?_, ?_, ?_, ?_, ?_, ?_⟩
  · rw [e 0 (by omega), e 3 (by omega)]; exact h.epi
  · rw [e 1 (by omega), e 2 (by omega)]; exact h.splitx
  · rw [e 3 (by omega), e 4 (by omega)]; exact h.splita
  · rw [e 2 (by omega), e 4 (by omega), e 5 (by omega), e 7 (by omega), e 8 (by omega)]; exact h.taylor
  · rw [e 1 (by omega), e 3 (by omega)]; exact h.cutLo0
  · rw [e 2 (by omega), e 4 (by omega)]; exact h.cutHi
  · rw [e 2 (by omega), e 4 (by omega)]; exact h.cutLo1
  · intro c h3 hc
    rw [e c hc]; exact h.nonneg c h3 hc
  · intro q hq
    have hw := wCol_lt L q hq
    have ha : 0 ≤ y 4 := h.nonneg 4 (by omega) (by omega)
    have hwn : 0 ≤ y (wCol L q) := by
      unfold wCol
      split_ifs with h1 h2
      · exact h.nonneg _ (by omega) (by omega)
      · exact h.nonneg _ (by omega) (by omega)
      · exact h.tnonneg
    obtain ⟨c2, hc⟩ := rot_complete (y 4) (y (wCol L q)) (yVal L q y) ha hwn (h.prod q hq)
    rw [extend_rot0, extend_rot1, extend_rot2, e 4 (by omega), e _ hw,
      yVal_congr L q hq (extend L y) y e]
    exact ⟨rfl, rfl, le_rfl, c2, hc⟩

/-- the converse: the first `numVars L` columns of a feasible block point satisfy `BlockCore` -/
lemma blockCore_of_rel (L : ℕ) (hL : 1 ≤ L) (lo hi elo a0 a1 a2 : K) (y : ℕ → K)
    (h : BlockRel L lo hi elo a0 a1 a2 y) : BlockCore L lo hi elo a0 a1 a2 y := by
  refine ⟨h.epi, h.splitx, h.splita, h.taylor, h.cutLo0, h.cutHi, h.cutLo1, h.nonneg, ?_, ?_⟩
  · obtain ⟨h0, h1, h2, h3, h4⟩ := h.rot (2 + L) (by omega)
    have e2 : wCol L (2 + L) = 0 := by
      unfold wCol
      rw [if_neg (by omega), if_neg (by omega)]
    rw [e2] at h0 h2
    exact rot_w_nonneg _ _ _ _ _ h0 h2 h3 h4
  · intro q hq
    obtain ⟨h0, h1, h2, h3, h4⟩ := h.rot q hq
    exact rot_prod _ _ _ _ _ _ h0 h1 h2 h3 h4

/-! ### the squaring chain -/

/-- the value of the Taylor row at `f = u²/α1`, `h = ((u+α1)²/α1)²/α1`, `u = x1/2^L` -/
def v0 (L : ℕ) (x1 α1 : K) : K :=
  20 / 2 ^ L / 24 * x1 + 23 / 24 * α1 + 1 / 4 * ((x1 / 2 ^ L) ^ 2 / α1) +
    1 / 24 * (((x1 / 2 ^ L + α1) ^ 2 / α1) ^ 2 / α1)

lemma v0_eq (L : ℕ) (x1 α1 : K) (h : α1 ≠ 0) : v0 L x1 α1 = Q4 (x1 / 2 ^ L) α1 / α1 ^ 3 := by
  have hp : (2 : K) ^ L ≠ 0 := pow_ne_zero _ two_ne_zero
  unfold v0 Q4
  field_simp
  ring

/-- the block-local point built from `t, x0, x1, α0, α1`: `f, g, h` and the chain `v_d` take their
least values -/
def corePt (L : ℕ) (t x0 x1 α0 α1 : K) : ℕ → K := fun c =>
  match c with
  | 0 => t
  | 1 => x0
  | 2 => x1
  | 3 => α0
  | 4 => α1
  | 5 => (x1 / 2 ^ L) ^ 2 / α1
  | 6 => (x1 / 2 ^ L + α1) ^ 2 / α1
  | 7 => ((x1 / 2 ^ L + α1) ^ 2 / α1) ^ 2 / α1
  | d + 8 => α1 * (v0 L x1 α1 / α1) ^ 2 ^ d

lemma corePt_v (L : ℕ) (t x0 x1 α0 α1 : K) (d : ℕ) :
    corePt L t x0 x1 α0 α1 (8 + d) = α1 * (v0 L x1 α1 / α1) ^ 2 ^ d := by
  rw [Nat.add_comm]
  rfl

/-- `BlockCore` at the chain point, case `α1 > 0`: all that is needed is
`α1·(v_0/α1)^(2^L) ≤ t ≤ x_{i1}` (and the splits and cuts) -/
lemma blockCore_corePt_pos (L : ℕ) (hL : 1 ≤ L) (lo hi elo a0 a1 a2 t x0 x1 α0 α1 : K)
    (h1 : t + elo * α0 ≤ a1) (h2 : x0 + x1 = a0) (h3 : α0 + α1 = a2) (h4 : 0 ≤ α0) (h5 : 0 < α1)
    (h6 : x0 ≤ lo * α0) (h7 : lo * α1 ≤ x1) (h8 : x1 ≤ hi * α1)
    (h9 : α1 * (v0 L x1 α1 / α1) ^ 2 ^ L ≤ t) :
    BlockCore L lo hi elo a0 a1 a2 (corePt L t x0 x1 α0 α1) := by
  have hV : numVars L = 8 + L := by unfold numVars; omega
  have hne : α1 ≠ 0 := ne_of_gt h5
  have hv0 : 0 ≤ v0 L x1 α1 := by
    rw [v0_eq L x1 α1 hne]
    exact div_nonneg (Q4_nonneg _ _) (pow_nonneg h5.le 3)
  have hr : 0 ≤ v0 L x1 α1 / α1 := div_nonneg hv0 h5.le
  have ht : 0 ≤ t := le_trans (mul_nonneg h5.le (pow_nonneg hr _)) h9
  refine ⟨h1, h2, h3, ?_, h6, h8, h7, ?_, ht, ?_⟩
  · show _ ≤ α1 * (v0 L x1 α1 / α1) ^ 2 ^ 0
    have : α1 * (v0 L x1 α1 / α1) ^ 2 ^ 0 = v0 L x1 α1 := by
      rw [pow_zero, pow_one]; field_simp
    rw [this]
    exact le_of_eq rfl
  · intro c hc3 hcV
    obtain ⟨d, rfl⟩ | hc8 : (∃ d, c = 8 + d) ∨ c < 8 := by
      by_cases h : c < 8
      · exact Or.inr h
      · exact Or.inl ⟨c - 8, by omega⟩
    · rw [corePt_v]
      exact mul_nonneg h5.le (pow_nonneg hr _)
    · interval_cases c
      · exact h4
      · exact h5.le
      · exact div_nonneg (sq_nonneg _) h5.le
      · exact div_nonneg (sq_nonneg _) h5.le
      · exact div_nonneg (sq_nonneg _) h5.le
  · intro q hq
    by_cases hq3 : q < 3
    · interval_cases q
      · show (x1 / 2 ^ L) ^ 2 ≤ α1 * ((x1 / 2 ^ L) ^ 2 / α1)
        rw [mul_div_cancel₀ _ hne]
      · show (x1 / 2 ^ L + α1) ^ 2 ≤ α1 * ((x1 / 2 ^ L + α1) ^ 2 / α1)
        rw [mul_div_cancel₀ _ hne]
      · show ((x1 / 2 ^ L + α1) ^ 2 / α1) ^ 2 ≤ α1 * (((x1 / 2 ^ L + α1) ^ 2 / α1) ^ 2 / α1)
        rw [mul_div_cancel₀ _ hne]
    · obtain ⟨d, rfl⟩ : ∃ d, q = 3 + d := ⟨q - 3, by omega⟩
      have e1 : yVal L (3 + d) (corePt L t x0 x1 α0 α1) = α1 * (v0 L x1 α1 / α1) ^ 2 ^ d := by
        unfold yVal
        rw [if_neg (by omega), if_neg (by omega), if_neg (by omega)]
        have : 5 + (3 + d) = 8 + d := by omega
        rw [this, corePt_v]
      rw [e1]
      have e3 : (α1 * (v0 L x1 α1 / α1) ^ 2 ^ d) ^ 2 = α1 * (α1 * (v0 L x1 α1 / α1) ^ 2 ^ (d + 1)) := by
        rw [pow_succ 2 d, pow_mul]; ring
      by_cases hd : d + 1 < L
      · have e2 : wCol L (3 + d) = 8 + (d + 1) := by
          unfold wCol
          rw [if_neg (by omega), if_pos (by omega)]; omega
        rw [e2, corePt_v, e3]
        exact le_rfl
      · have hdL : d + 1 = L := by omega
        have e2 : wCol L (3 + d) = 0 := by
          unfold wCol
          rw [if_neg (by omega), if_neg (by omega)]
        rw [e2, e3, hdL]
        exact mul_le_mul_of_nonneg_left h9 h5.le

/-- `BlockCore` at the chain point, case `α1 = 0`: then `x1 = 0` is forced, `f = g = h = v_d = 0` and
`t ≥ 0` is free -/
lemma blockCore_corePt_zero (L : ℕ) (hL : 1 ≤ L) (lo hi elo a0 a1 a2 t x0 α0 : K)
    (h0 : 0 ≤ t) (h1 : t + elo * α0 ≤ a1) (h2 : x0 = a0) (h3 : α0 = a2) (h4 : 0 ≤ α0) (h6 : x0 ≤ lo * α0) :
    BlockCore L lo hi elo a0 a1 a2 (corePt L t x0 0 α0 0) := by
  have hV : numVars L = 8 + L := by unfold numVars; omega
  have hv : ∀ d, corePt L t x0 0 α0 (0 : K) (8 + d) = 0 := by
    intro d; rw [corePt_v, zero_mul]
  refine ⟨h1, ?_, ?_, ?_, h6, ?_, ?_, ?_, h0, ?_⟩
  · show x0 + 0 = a0
    rw [add_zero, h2]
  · show α0 + 0 = a2
    rw [add_zero, h3]
  · have := hv 0
    rw [Nat.add_zero] at this
    rw [this]
    show 20 / 2 ^ L / 24 * (0 : K) + 23 / 24 * 0 + 1 / 4 * ((0 / 2 ^ L) ^ 2 / 0) +
      1 / 24 * (((0 / 2 ^ L + 0) ^ 2 / 0) ^ 2 / 0) ≤ 0
    simp
  · show (0 : K) ≤ hi * 0
    simp
  · show lo * (0 : K) ≤ 0
    simp
  · intro c hc3 hcV
    obtain ⟨d, rfl⟩ | hc8 : (∃ d, c = 8 + d) ∨ c < 8 := by
      by_cases h : c < 8
      · exact Or.inr h
      · exact Or.inl ⟨c - 8, by omega⟩
    · rw [hv]
    · interval_cases c
      · exact h4
      · exact le_rfl
      · show (0 : K) ≤ (0 / 2 ^ L) ^ 2 / 0
        simp
      · show (0 : K) ≤ (0 / 2 ^ L + 0) ^ 2 / 0
        simp
      · show (0 : K) ≤ ((0 / 2 ^ L + 0) ^ 2 / 0) ^ 2 / 0
        simp
  · intro q hq
    have hy : yVal L q (corePt L t x0 0 α0 (0 : K)) = 0 := by
      unfold yVal
      split_ifs with q0 q1 q2
      · show (0 : K) / 2 ^ L = 0
        simp
      · show (0 : K) / 2 ^ L + 0 = 0
        simp
      · show ((0 : K) / 2 ^ L + 0) ^ 2 / 0 = 0
        simp
      · have : 5 + q = 8 + (q - 3) := by omega
        rw [this, hv]
    rw [hy]
    show (0 : K) ^ 2 ≤ 0 * _
    simp

/-! ### from block points to a point of the result -/

/-- the rows of one block hold at a point whose block-local part satisfies `BlockRel`
(converse of the row part of `feas_blockRel`) -/
lemma blockRel_row (L : ℕ) (hL : 1 ≤ L) (lo hi elo : K) (xm : List ℕ) (x y : ℕ → K)
    (h : BlockRel L lo hi elo (x (xm.getD 0 0)) (x (xm.getD 1 0)) (x (xm.getD 2 0)) y) (r : ℕ)
    (hr : r < rowCount L) :
    if blockEq r then
      ((leftRow xm r).map fun e => e.2 * x e.1).sum +
        ((blockRow L lo hi elo r).map fun e => e.2 * y e.1).sum = (0 : K)
    else
      ((leftRow xm r).map fun e => e.2 * x e.1).sum +
        ((blockRow L lo hi elo r).map fun e => e.2 * y e.1).sum ≤ (0 : K) := by
  rcases row_cases L r hr with h7 | ⟨q, s, hq, hs, rfl⟩
  · have t0 := h.epi
    have t1 := h.splitx
    have t2 := h.splita
    have t3 := h.taylor
    have t4 := h.cutLo0
    have t5 := h.cutHi
    have t6 := h.cutLo1
    interval_cases r <;>
      simp [blockEq, leftRow, blockRow, -List.getD_eq_getElem?_getD] <;> linarith
  · obtain ⟨r0, r1, r2, -, -⟩ := h.rot q hq
    have hy := yRow_sum L q y
    interval_cases s
    · have e0 : blockEq (7 + 3 * q) = true := by
        unfold blockEq; simp
      rw [Nat.add_zero, e0, leftRow_ge _ _ (by omega), blockRow_rot0]
      simp
      linarith
    · have e1 : blockEq (7 + 3 * q + 1) = true := by
        unfold blockEq; simp; omega
      rw [e1, leftRow_ge _ _ (by omega), blockRow_rot1]
      simp only [List.map_append, List.sum_append, List.map_map, Function.comp_def, hy]
      simp
      linarith
    · have e2 : blockEq (7 + 3 * q + 2) = false := by
        unfold blockEq; simp; omega
      rw [e2, leftRow_ge _ _ (by omega), blockRow_rot2]
      simp
      linarith

/-- the point of the result assembled from a point `x` of the source and block points `Y k` -/
def glue (P : ConeProg K) (L : ℕ) (x : ℕ → K) (Y : ℕ → ℕ → K) (j : ℕ) : K :=
  if j < P.lp.nc then x j else Y ((j - P.lp.nc) / numCols L) ((j - P.lp.nc) % numCols L)

lemma glue_lt (P : ConeProg K) (L : ℕ) (x : ℕ → K) (Y : ℕ → ℕ → K) (j : ℕ) (hj : j < P.lp.nc) :
    glue P L x Y j = x j := by simp [glue, hj]

lemma glue_off (P : ConeProg K) (L : ℕ) (x : ℕ → K) (Y : ℕ → ℕ → K) (k c : ℕ) (hc : c < numCols L) :
    glue P L x Y (off P L k + c) = Y k c := by
  obtain ⟨h1, h2, h3⟩ := block_index P.lp.nc (numCols L) k c hc
  simp only [glue, off, h1, h2, h3, if_false]

lemma row_congr (P : LinProg K) (i : ℕ) (x z : ℕ → K) (h : ∀ j < P.nc, x j = z j) :
    P.row i x = P.row i z := by
  unfold LinProg.row
  apply Finset.sum_congr rfl
  intro j hj
  rw [h j (Finset.mem_range.mp hj)]

lemma socMem_congr (x z : ℕ → K) (q : List ℕ) (h : ∀ j ∈ q, x j = z j) (hs : socMem z q) :
    socMem x q := by
  cases q with
  | nil => trivial
  | cons a T =>
    obtain ⟨h0, h1⟩ := hs
    have e : (T.map fun j => x j ^ 2) = T.map fun j => z j ^ 2 := by
      apply List.map_congr_left
      intro j hj
      rw [h j (by simp [hj])]
    refine ⟨?_, ?_⟩
    · rw [h a (by simp)]; exact h0
    · rw [e, h a (by simp)]; exact h1

/-- an old row of the result only reads the old columns -/
lemma toSocp_row_old (P : ConeProg K) (L : ℕ) (lo hi elo : K) (x : ℕ → K) (i : ℕ) (hi' : i < P.lp.nr) :
    (toSocp P L lo hi elo).lp.row i x = P.lp.row i x := by
  unfold LinProg.row
  simp only [toSocp, hi', if_true]
  rw [Finset.sum_range_add]
  have h2 : ∑ j ∈ range (P.xmat.length * numCols L),
      (if P.lp.nc + j < P.lp.nc then P.lp.a i (P.lp.nc + j) else 0) * x (P.lp.nc + j) = 0 := by
    apply Finset.sum_eq_zero
    intro j _
    have : ¬ P.lp.nc + j < P.lp.nc := by omega
    simp [this]
  rw [h2, add_zero]
  apply Finset.sum_congr rfl
  intro j hj
  simp [Finset.mem_range.mp hj]

/-- **Gluing.** If `x` satisfies the rows, bounds and second-order cones of the source `P` and, for
every exponential cone `k` of `P`, `Y k` is a block-local point with `BlockRel` for the values
`x` gives to the three columns of that cone, then `glue P L x Y` is feasible for `toSocp P L lo hi elo`. -/
lemma toSocp_feas_of_blocks (P : ConeProg K) (L : ℕ) (hL : 1 ≤ L) (lo hi elo : K) (hx : XOk P)
    (hq : ∀ q ∈ P.qmat, ∀ j ∈ q, j < P.lp.nc) (x : ℕ → K) (hlin : P.lp.Feas x)
    (hsoc : ∀ q ∈ P.qmat, socMem x q) (Y : ℕ → ℕ → K)
    (hY : ∀ k < P.xmat.length, BlockRel L lo hi elo (x ((P.xmat.getD k []).getD 0 0))
      (x ((P.xmat.getD k []).getD 1 0)) (x ((P.xmat.getD k []).getD 2 0)) (Y k))
    (E : K → K → K → Prop) : (toSocp P L lo hi elo).Feas E (glue P L x Y) := by
  set z := glue P L x Y with hz
  have hzlt : ∀ j < P.lp.nc, z j = x j := glue_lt P L x Y
  have hV : numVars L = 8 + L := by unfold numVars; omega
  have hW : numCols L = numVars L + (3 + L) * 3 := rfl
  have hWpos : 0 < numCols L := by omega
  have hRpos : 0 < rowCount L := by unfold rowCount; omega
  -- decomposition of a new row / column index
  have dec : ∀ (n m W : ℕ), 0 < W → ¬ n < m → ∃ k c, c < W ∧ n = m + k * W + c := by
    intro n m W hW' hn
    refine ⟨(n - m) / W, (n - m) % W, Nat.mod_lt _ hW', ?_⟩
    have := Nat.div_add_mod (n - m) W
    rw [Nat.mul_comm] at this
    omega
  refine ⟨⟨?_, ?_, ?_⟩, ?_, ?_⟩
  · intro i hin
    by_cases hi' : i < P.lp.nr
    · have e1 : (toSocp P L lo hi elo).lp.row i z = P.lp.row i x := by
        rw [toSocp_row_old P L lo hi elo z i hi']
        exact row_congr P.lp i z x hzlt
      have e2 : (toSocp P L lo hi elo).lp.b i = P.lp.b i := by simp [toSocp, hi']
      have e3 : (toSocp P L lo hi elo).lp.eq i = P.lp.eq i := by simp [toSocp, hi']
      rw [e1, e2, e3]
      exact hlin.rows i hi'
    · obtain ⟨k, r, hr, rfl⟩ := dec i P.lp.nr (rowCount L) hRpos hi'
      have hk : k < P.xmat.length := by
        by_contra hk
        have : P.xmat.length * rowCount L ≤ k * rowCount L :=
          Nat.mul_le_mul_right _ (by omega)
        simp only [toSocp] at hin
        omega
      rw [toSocp_eq_block P L lo hi elo k r hr, toSocp_row_block P L hL lo hi elo hx k hk r hr,
        toSocp_b_block P L lo hi elo k r hr]
      have eL : ((leftRow (P.xmat.getD k []) r).map fun e => e.2 * z e.1) =
          (leftRow (P.xmat.getD k []) r).map fun e => e.2 * x e.1 := by
        apply List.map_congr_left
        intro e he
        rw [hzlt _ (leftRow_lt hx hk r e he)]
      have eB : ((blockRow L lo hi elo r).map fun e => e.2 * z (off P L k + e.1)) =
          (blockRow L lo hi elo r).map fun e => e.2 * Y k e.1 := by
        apply List.map_congr_left
        intro e he
        rw [hz, glue_off P L x Y k _ (blockRow_lt L hL lo hi elo r hr e he)]
      rw [eL, eB]
      exact blockRel_row L hL lo hi elo _ x (Y k) (hY k hk) r hr
  · intro j hj
    by_cases hj' : j < P.lp.nc
    · have : (toSocp P L lo hi elo).lp.ub j = P.lp.ub j := by simp [toSocp, hj']
      rw [this, hzlt j hj']
      exact hlin.ubs j hj'
    · have : (toSocp P L lo hi elo).lp.ub j = none := by simp [toSocp, hj']
      rw [this]
      trivial
  · intro j hj
    by_cases hj' : j < P.lp.nc
    · have : (toSocp P L lo hi elo).lp.lb j = P.lp.lb j := by simp [toSocp, hj']
      rw [this, hzlt j hj']
      exact hlin.lbs j hj'
    · obtain ⟨k, c, hc, rfl⟩ := dec j P.lp.nc (numCols L) hWpos hj'
      have hk : k < P.xmat.length := by
        by_contra hk
        have : P.xmat.length * numCols L ≤ k * numCols L :=
          Nat.mul_le_mul_right _ (by omega)
        simp only [toSocp] at hj
        omega
      have e1 := toSocp_lb_block P L lo hi elo k c hc
      have e2 := glue_off P L x Y k c hc
      simp only [off] at e1 e2
      rw [e1, hz, e2]
      unfold blockLb
      split_ifs with c1 c2
      · exact (hY k hk).nonneg c c1.1 c1.2
      · obtain ⟨q, rfl⟩ : ∃ q, c = numVars L + 3 * q + 2 := ⟨(c - numVars L) / 3, by omega⟩
        have hq3 : q < 3 + L := by omega
        exact ((hY k hk).rot q hq3).2.2.2.1
      · trivial
  · intro q hq'
    simp only [toSocp, List.mem_append, List.mem_flatMap, List.mem_range] at hq'
    rcases hq' with hq' | ⟨k, hk, hq'⟩
    · exact socMem_congr z x q (fun j hj => hzlt j (hq q hq' j hj)) (hsoc q hq')
    · simp only [blockCones, List.mem_map, List.mem_range] at hq'
      obtain ⟨p, hp, rfl⟩ := hq'
      obtain ⟨-, -, -, r3, r4⟩ := (hY k hk).rot p hp
      have c2 : numVars L + 3 * p + 2 < numCols L := by omega
      have c1 : numVars L + 3 * p + 1 < numCols L := by omega
      have c0 : numVars L + 3 * p < numCols L := by omega
      have e2 : off P L k + numVars L + 2 + p * 3 = off P L k + (numVars L + 3 * p + 2) := by omega
      have e1 : off P L k + numVars L + 1 + p * 3 = off P L k + (numVars L + 3 * p + 1) := by omega
      have e0 : off P L k + numVars L + 0 + p * 3 = off P L k + (numVars L + 3 * p) := by omega
      rw [e2, e1, e0]
      simp only [socMem, List.map_cons, List.map_nil, List.sum_cons, List.sum_nil, hz,
        glue_off P L x Y k _ c2, glue_off P L x Y k _ c1, glue_off P L x Y k _ c0]
      exact ⟨r3, by linarith⟩
  · intro e he
    simp [toSocp] at he

end SocApprox
end RsomeV
