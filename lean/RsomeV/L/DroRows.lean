import RsomeV.M.DroRows
import RsomeV.L.DroSound

/-! Helper lemmas for `Props/C03Rows.lean`: the rows of `Dro.droToRoc` (model of the list
`dro.Model.dro_to_roc` returns) — membership in the second-stage list, column bounds of the
multipliers `alpha` / `beta`, and the value of a second-stage row. -/

set_option linter.unusedSectionVars false
set_option linter.unusedSimpArgs false
set_option linter.unusedVariables false

namespace RsomeV
open Finset

variable {K : Type} [Field K] [LinearOrder K] [IsStrictOrderedRing K]

namespace RoRows

/-- a block of rows reads only the first `nz` components of the realisation -/
lemma eval_congr (R : RoRows K) (n : ℕ) (v z z' : ℕ → K) (h : ∀ j < R.nz, z j = z' j) :
    R.eval n v z = R.eval n v z' := by
  unfold eval
  congr 1
  apply Finset.sum_congr rfl
  intro j hj
  rw [h j (Finset.mem_range.mp hj)]

end RoRows

namespace Dro

variable (pro : ConeProg K) (exps : List (ConeProg K × List ℕ)) (I : DroIn K)

/-- the points of a (lifted) support program, seen through their first `n` components: the set the
scenario's random vector lives in -/
def suppOf (P : ConeProg K) (E : K → K → K → Prop) (n : ℕ) (z : ℕ → K) : Prop :=
  ∃ ζ, P.Feas E ζ ∧ ∀ j < n, ζ j = z j

lemma acol_lt (s : ℕ) (hs : s < I.S) (nE : ℕ) : I.acol s < I.firstNd nE := by
  unfold DroIn.acol DroIn.firstNd; omega

lemma bcol_lt (nE k j : ℕ) (hk : k < nE) (hj : j < I.nrand) : I.bcol nE k j < I.firstNd nE := by
  unfold DroIn.bcol DroIn.firstNd
  have h1 : j * nE + nE ≤ I.nrand * nE := by
    have : (j + 1) * nE ≤ I.nrand * nE := Nat.mul_le_mul_right nE hj
    rw [Nat.add_mul, Nat.one_mul] at this
    exact this
  omega

/-- the first-stage row only reads `acol` on the scenarios and `bcol` on (event, component) pairs -/
lemma droCol_congr (S nz : ℕ) (acol acol' : ℕ → ℕ) (bcol bcol' : ℕ → ℕ → ℕ)
    (ha : ∀ s < S, acol s = acol' s) (hb : ∀ k < exps.length, ∀ o < nz, bcol k o = bcol' k o)
    (j : ℕ) : droCol pro exps S nz acol bcol j = droCol pro exps S nz acol' bcol' j := by
  unfold droCol
  by_cases hj : j < pro.lp.nc
  · rw [if_pos hj, if_pos hj]
    by_cases hs : j < S
    · rw [if_pos hs, if_pos hs, ha j hs]
    · rw [if_neg hs, if_neg hs]
  · rw [if_neg hj, if_neg hj]
    by_cases hlt : j - pro.lp.nc < (colW exps).sum
    · obtain ⟨k, o, h1, h2, _, _⟩ := locate_some (colW exps) (j - pro.lp.nc) hlt
      rw [colW_length] at h2
      rw [h1]
      by_cases ho : o < nz
      · simp only [ho, if_true, hb k h2 o ho]
      · simp only [ho, if_false]
    · rw [locate_none (colW exps) (j - pro.lp.nc) (by omega)]

lemma droRow_congr (S nz nd : ℕ) (acol acol' : ℕ → ℕ) (bcol bcol' : ℕ → ℕ → ℕ)
    (ha : ∀ s < S, acol s = acol' s) (hb : ∀ k < exps.length, ∀ o < nz, bcol k o = bcol' k o) :
    droRow pro exps S nz nd acol bcol = droRow pro exps S nz nd acol' bcol' := by
  unfold droRow
  congr 1
  funext _ j d
  rw [droCol_congr pro exps S nz acol acol' bcol bcol' ha hb j]

/-- the first-stage row of the model is the row `droRow` of `M/Dro.lean` -/
lemma droToRoc_first (nd2 : ℕ → ℕ → ℕ) :
    (droToRoc pro exps I nd2).first
      = droRow pro exps I.S I.nrand (I.firstNd exps.length) I.acol (I.bcol exps.length) := rfl

/-- the second-stage list contains item `(s, l)` for every scenario and piece -/
lemma mem_second (nd2 : ℕ → ℕ → ℕ) (s l : ℕ) (hs : s < I.S) (hl : l < I.np) :
    ({ s := s, l := l, lin := isLin exps I s l, row := row2 exps I (nd2 s l) s l } : Row2 K)
      ∈ (droToRoc pro exps I nd2).second := by
  show _ ∈ (List.range I.S).flatMap _
  rw [List.mem_flatMap]
  refine ⟨s, List.mem_range.mpr hs, ?_⟩
  rw [List.mem_map]
  exact ⟨l, List.mem_range.mpr hl, rfl⟩

/-- length and order of the second-stage list: scenario-major, pieces inner -/
lemma second_length (nd2 : ℕ → ℕ → ℕ) : (droToRoc pro exps I nd2).second.length = I.S * I.np := by
  show ((List.range I.S).flatMap _).length = _
  rw [List.length_flatMap]
  simp

lemma hasEvent_false (s : ℕ) (h : hasEvent exps s = false) (k : ℕ) (hk : k < exps.length) :
    s ∉ idx exps k := by
  unfold hasEvent at h
  intro hmem
  have : (List.range exps.length).any (fun k => decide (s ∈ idx exps k)) = true := by
    rw [List.any_eq_true]
    exact ⟨k, List.mem_range.mpr hk, by simpa using hmem⟩
  rw [h] at this
  cases this

/-- what `beta` contributes to the coefficient of `z_j` -/
lemma betaCoef_sum (s j : ℕ) (hj : j < I.nrand) (nd : ℕ) (hnd : I.firstNd exps.length ≤ nd)
    (v : ℕ → K) :
    ∑ d ∈ range nd, betaCoef exps I s j d * v d
      = ∑ k ∈ range exps.length, if s ∈ idx exps k then v (I.bcol exps.length k j) else 0 := by
  unfold betaCoef
  have e : ∀ d ∈ range nd,
      (∑ k ∈ range exps.length, if s ∈ idx exps k ∧ d = I.bcol exps.length k j then (1:K) else 0) * v d
      = ∑ k ∈ range exps.length,
          (if s ∈ idx exps k ∧ d = I.bcol exps.length k j then (1:K) else 0) * v d := by
    intro d _; rw [Finset.sum_mul]
  rw [Finset.sum_congr rfl e, Finset.sum_comm]
  apply Finset.sum_congr rfl
  intro k hk
  have hk' := Finset.mem_range.mp hk
  have hb : I.bcol exps.length k j < nd :=
    lt_of_lt_of_le (bcol_lt I exps.length k j hk' hj) hnd
  by_cases hs : s ∈ idx exps k
  · rw [if_pos hs]
    have e2 : ∀ d ∈ range nd,
        (if s ∈ idx exps k ∧ d = I.bcol exps.length k j then (1:K) else 0) * v d
          = if d = I.bcol exps.length k j then v d else 0 := by
      intro d _
      by_cases a : d = I.bcol exps.length k j
      · simp [hs, a]
      · simp [a]
    rw [Finset.sum_congr rfl e2, Finset.sum_ite_eq', if_pos (Finset.mem_range.mpr hb)]
  · rw [if_neg hs]
    apply Finset.sum_eq_zero
    intro d _
    simp [hs]

/-- the deterministic part of a second-stage row -/
lemma al_sum (s l : ℕ) (hs : s < I.S) (nd : ℕ) (hnd : I.firstNd exps.length ≤ nd)
    (hal : ∀ d, I.acol0 ≤ d → I.al s l d = 0) (v : ℕ → K) :
    ∑ d ∈ range nd, (I.al s l d - (if d = I.acol s then 1 else 0)) * v d
      = ∑ d ∈ range I.acol0, I.al s l d * v d - v (I.acol s) := by
  have ha : I.acol s < nd := lt_of_lt_of_le (acol_lt I s hs exps.length) hnd
  have h0 : I.acol0 ≤ nd := by unfold DroIn.firstNd at hnd; omega
  have e : ∀ d ∈ range nd, (I.al s l d - (if d = I.acol s then 1 else 0)) * v d
      = I.al s l d * v d - (if d = I.acol s then v d else 0) := by
    intro d _
    by_cases a : d = I.acol s
    · simp [a]; ring
    · simp [a]
  rw [Finset.sum_congr rfl e, Finset.sum_sub_distrib, Finset.sum_ite_eq',
    if_pos (Finset.mem_range.mpr ha)]
  congr 1
  apply sum_prefix nd I.acol0 h0
  intro d _ hd
  rw [hal d hd, zero_mul]

/-- **value of a second-stage row that is stored as an `RoConstr`**: the piece minus
`alpha[s]` minus the `beta` terms of the events that contain `s` -/
lemma row2_eval_ro (s l : ℕ) (hs : s < I.S) (nd : ℕ) (hnd : I.firstNd exps.length ≤ nd)
    (hlin : isLin exps I s l = false)
    (hRl : ∀ j d, I.acol0 ≤ d → I.Rl s l j d = 0) (hal : ∀ d, I.acol0 ≤ d → I.al s l d = 0)
    (v z : ℕ → K) :
    (row2 exps I nd s l).eval 0 v z
      = I.pieceVal s l v z - v (I.acol s)
        - ∑ k ∈ range exps.length,
            if s ∈ idx exps k then ∑ j ∈ range I.nrand, v (I.bcol exps.length k j) * z j else 0 := by
  have h0 : I.acol0 ≤ nd := by unfold DroIn.firstNd at hnd; omega
  unfold row2
  rw [hlin]
  simp only [Bool.false_eq_true, if_false]
  unfold RoRows.eval DroIn.pieceVal
  simp only
  rw [al_sum exps I s l hs nd hnd hal v]
  -- the random part
  have hR : ∀ j ∈ range I.nrand,
      ((∑ d ∈ range nd, (I.Rl s l j d - betaCoef exps I s j d) * v d) + I.Rc s l j) * z j
      = ((∑ d ∈ range I.acol0, I.Rl s l j d * v d) + I.Rc s l j) * z j
        - ∑ k ∈ range exps.length,
            if s ∈ idx exps k then v (I.bcol exps.length k j) * z j else 0 := by
    intro j hj
    have hj' := Finset.mem_range.mp hj
    have e : ∀ d ∈ range nd, (I.Rl s l j d - betaCoef exps I s j d) * v d
        = I.Rl s l j d * v d - betaCoef exps I s j d * v d := by intro d _; ring
    rw [Finset.sum_congr rfl e, Finset.sum_sub_distrib, betaCoef_sum exps I s j hj' nd hnd v]
    have e1 : ∑ d ∈ range nd, I.Rl s l j d * v d = ∑ d ∈ range I.acol0, I.Rl s l j d * v d := by
      apply sum_prefix nd I.acol0 h0
      intro d _ hd
      rw [hRl j d hd, zero_mul]
    rw [e1]
    have e2 : (∑ k ∈ range exps.length, if s ∈ idx exps k then v (I.bcol exps.length k j) else 0) * z j
        = ∑ k ∈ range exps.length,
            if s ∈ idx exps k then v (I.bcol exps.length k j) * z j else 0 := by
      rw [Finset.sum_mul]
      apply Finset.sum_congr rfl
      intro k _
      by_cases a : s ∈ idx exps k
      · simp [a]
      · simp [a]
    rw [← e2]
    ring
  rw [Finset.sum_congr rfl hR, Finset.sum_sub_distrib, Finset.sum_comm]
  have e3 : ∑ k ∈ range exps.length, ∑ j ∈ range I.nrand,
        (if s ∈ idx exps k then v (I.bcol exps.length k j) * z j else 0)
      = ∑ k ∈ range exps.length,
          if s ∈ idx exps k then ∑ j ∈ range I.nrand, v (I.bcol exps.length k j) * z j else 0 := by
    apply Finset.sum_congr rfl
    intro k _
    by_cases a : s ∈ idx exps k
    · simp [a]
    · simp [a]
  rw [e3]
  ring

/-- **value of a second-stage row that is stored as a `LinConstr`** (whatever the realisation) -/
lemma row2_eval_lin (s l : ℕ) (hs : s < I.S) (nd : ℕ) (hnd : I.firstNd exps.length ≤ nd)
    (hlin : isLin exps I s l = true)
    (hzero : ∀ j, (∀ d, I.Rl s l j d = 0) ∧ I.Rc s l j = 0)
    (hal : ∀ d, I.acol0 ≤ d → I.al s l d = 0)
    (v z z' : ℕ → K) :
    (row2 exps I nd s l).eval 0 v z'
      = I.pieceVal s l v z - v (I.acol s)
        - ∑ k ∈ range exps.length,
            if s ∈ idx exps k then ∑ j ∈ range I.nrand, v (I.bcol exps.length k j) * z j else 0 := by
  have hev : hasEvent exps s = false := by
    unfold isLin at hlin
    cases h : hasEvent exps s
    · rfl
    · rw [h] at hlin; simp at hlin
  unfold row2
  rw [hlin]
  simp only [if_true]
  unfold RoRows.eval DroIn.pieceVal
  simp only
  rw [al_sum exps I s l hs nd hnd hal v]
  have e1 : ∑ k ∈ range exps.length,
      (if s ∈ idx exps k then ∑ j ∈ range I.nrand, v (I.bcol exps.length k j) * z j else 0) = 0 := by
    apply Finset.sum_eq_zero
    intro k hk
    rw [if_neg (hasEvent_false exps s hev k (Finset.mem_range.mp hk))]
  have e2 : ∑ j ∈ range I.nrand,
      ((∑ d ∈ range I.acol0, I.Rl s l j d * v d) + I.Rc s l j) * z j = 0 := by
    apply Finset.sum_eq_zero
    intro j _
    have h1 : ∑ d ∈ range I.acol0, I.Rl s l j d * v d = 0 := by
      apply Finset.sum_eq_zero
      intro d _
      rw [(hzero j).1 d, zero_mul]
    rw [h1, (hzero j).2]
    ring
  have e3 : ∑ j ∈ range I.nrand, ((∑ d ∈ range nd, (0:K) * v d) + 0) * z' j = 0 := by
    apply Finset.sum_eq_zero
    intro j _
    simp
  rw [e1, e2, e3]
  ring

end Dro
end RsomeV
