import RsomeV.M.Export

/-! Helper lemmas for C16 (LP-format export round trip). Core Lean only. -/

namespace RsomeV.Export

/-! ### labels -/

theorem toList_xLabel (j : Nat) : (xLabel j).toList = 'x' :: Nat.toDigits 10 (j + 1) := by
  simp [xLabel]

theorem parseX_xLabel (j : Nat) : parseX (xLabel j) = some j := by
  have hd : (Nat.toDigits 10 (j + 1)).all Char.isDigit = true := by
    rw [List.all_eq_true]
    intro c hc
    exact Nat.isDigit_of_mem_toDigits (by decide) (by decide) hc
  have hne : (Nat.toDigits 10 (j + 1)).isEmpty = false := by
    cases h : Nat.toDigits 10 (j + 1) with
    | nil => exact absurd h Nat.toDigits_ne_nil
    | cons a l => rfl
  simp [parseX, toList_xLabel, hd, hne]

theorem xLabel_ne_empty (j : Nat) : xLabel j ≠ "" := by
  intro h
  have := congrArg String.toList h
  simp [toList_xLabel] at this

theorem qLabel_ne_cLabel (i k : Nat) : qLabel i ≠ cLabel k := by
  intro h
  have := String.ofList_injective h
  simp at this

theorem cLabel_ne_qLabel (i k : Nat) : cLabel i ≠ qLabel k := fun h => qLabel_ne_cLabel k i h.symm

/-! ### terms and left-hand sides -/

theorem parseTerms_flatten (ts : List Term) : parseTerms (ts.map termWords).flatten = some ts := by
  induction ts with
  | nil => simp [parseTerms]
  | cons t ts ih =>
    obtain ⟨neg, tok, col⟩ := t
    cases neg <;> simp [termWords, parseTerms, parseX_xLabel, ih]

/-- the first term, when positive, must not have the token `-` (its `+` is stripped) -/
def FirstOk (ts : List Term) : Prop := ∀ t ∈ ts.head?, t.neg = false → t.tok ≠ "-"

theorem parseLhs_lhsWords (ts : List Term) (h : FirstOk ts) : parseLhs (lhsWords ts) = some ts := by
  cases ts with
  | nil => simp [lhsWords, spaceJoin, stripPlus, parseLhs]
  | cons t ts =>
    have ih := parseTerms_flatten (t :: ts)
    cases hn : t.neg
    · have htok : t.tok ≠ "-" := h t (by simp) hn
      simp only [List.map_cons, List.flatten_cons, termWords, hn] at ih
      simp [lhsWords, spaceJoin, stripPlus, parseLhs, termWords, hn, htok]
      simpa using ih
    · simp only [List.map_cons, List.flatten_cons, termWords, hn] at ih
      simp [lhsWords, spaceJoin, stripPlus, parseLhs, termWords, hn]
      simpa using ih

theorem splitLast2_append (l : List String) (s r : String) :
    splitLast2 (l ++ [s, r]) = some (l, s, r) := by
  induction l with
  | nil => simp [splitLast2]
  | cons a l ih =>
    cases l with
    | nil => simp [splitLast2]
    | cons b l =>
      cases l with
      | nil => simp [splitLast2]
      | cons c l =>
        simp only [List.cons_append] at ih ⊢
        simp [splitLast2, ih]

theorem parseRowBody_row (r : PRow) (h : FirstOk r.terms) :
    parseRowBody (lhsWords r.terms ++ [if r.eq then "=" else "<=", r.rhs]) = some r := by
  cases r with
  | mk ts eq rhs =>
    cases eq <;> simp [parseRowBody, splitLast2_append, parseLhs_lhsWords ts h]

/-! ### blocks of lines -/

theorem parseRows_block (rs : List PRow) (i : Nat) (tail : List (List String))
    (hok : ∀ r ∈ rs, FirstOk r.terms) (hstop : ∀ k, parseRows k tail = some ([], tail)) :
    parseRows i (rowLinesFrom i rs ++ tail) = some (rs, tail) := by
  induction rs generalizing i with
  | nil => simpa [rowLinesFrom] using hstop i
  | cons r rs ih =>
    have h1 := parseRowBody_row r (hok r (by simp))
    have h2 := ih (i + 1) (fun r' hr' => hok r' (by simp [hr']))
    simp [rowLinesFrom, rowLine, parseRows, h1, h2]

theorem parseConeEnd_ok (h : Nat) : parseConeEnd [xLabel h, "^2", "]", "<=", "0"] = some h := by
  simp [parseConeEnd, parseX_xLabel]

theorem parseConeTail_ok (j : Nat) (js : List Nat) (h : Nat) :
    parseConeTail (plusJoin ((j :: js).map fun k => [xLabel k, "^2"]) ++
      ["-", xLabel h, "^2", "]", "<=", "0"]) = some (j :: js, h) := by
  induction js generalizing j with
  | nil => simp [plusJoin, parseConeTail, parseX_xLabel, parseConeEnd_ok]
  | cons j' js ih =>
    have := ih j'
    simp only [List.map_cons] at this
    simp [plusJoin, parseConeTail, parseX_xLabel, this]

theorem parseConeBody_ok (q : List Nat) (hq : q ≠ []) :
    parseConeBody (coneBody q) = some q := by
  unfold coneBody
  cases q with
  | nil => exact absurd rfl hq
  | cons h tl =>
    cases tl with
    | nil => simp [plusJoin, parseConeBody, parseConeEnd_ok]
    | cons j js =>
      have h1 := parseConeTail_ok j js h
      cases js with
      | nil =>
        simp only [List.map_cons, List.map_nil, plusJoin] at h1
        simp at h1
        simp [plusJoin, parseConeBody, xLabel_ne_empty, h1]
      | cons j' js =>
        simp only [List.map_cons, plusJoin] at h1
        simp at h1
        simp [plusJoin, parseConeBody, xLabel_ne_empty, h1]

theorem parseCones_block (qs : List (List Nat)) (i : Nat) (tail : List (List String))
    (hok : ∀ q ∈ qs, q ≠ []) (hstop : ∀ k, parseCones k tail = some ([], tail)) :
    parseCones i (coneLinesFrom i qs ++ tail) = some (qs, tail) := by
  induction qs generalizing i with
  | nil => simpa [coneLinesFrom] using hstop i
  | cons q qs ih =>
    have h1 := parseConeBody_ok q (hok q (by simp))
    have h2 := ih (i + 1) (fun r' hr' => hok r' (by simp [hr']))
    simp [coneLinesFrom, coneLine, parseCones, h1, h2]

theorem parseBounds_block (bs : List (String × String)) (i : Nat) (tail : List (List String))
    (hstop : ∀ k, parseBounds k tail = ([], tail)) :
    parseBounds i (boundLinesFrom i bs ++ tail) = (bs, tail) := by
  induction bs generalizing i with
  | nil => simpa [boundLinesFrom] using hstop i
  | cons b bs ih => simp [boundLinesFrom, boundLine, parseBounds, ih (i + 1)]

theorem parseNames_block (js : List Nat) (tail : List (List String))
    (hstop : parseNames tail = ([], tail)) :
    parseNames (js.map (fun k => [xLabel k]) ++ tail) = (js, tail) := by
  induction js with
  | nil => simpa using hstop
  | cons j js ih => simp [parseNames, parseX_xLabel, ih]

theorem parseSection_block (kw : String) (idx : List Nat) (tail : List (List String))
    (hkw : parseSection kw tail = some ([], tail)) (hstop : parseNames tail = ([], tail)) :
    parseSection kw (typeSection kw idx ++ tail) = some (idx, tail) := by
  cases idx with
  | nil => simpa [typeSection] using hkw
  | cons j js => simp [typeSection, parseSection, parseX_xLabel, parseNames_block js tail hstop]

/-! ### the whole file -/

theorem parseX_Binary : parseX "Binary" = none := by decide
theorem parseX_End : parseX "End" = none := by decide

theorem parseLines_parsedLines (q : Parsed) (hobj : FirstOk q.obj)
    (hrows : ∀ r ∈ q.rows, FirstOk r.terms) (hcones : ∀ c ∈ q.cones, c ≠ []) :
    parseLines (parsedLines q) = some q := by
  obtain ⟨obj, cones, rows, bounds, ints, bins⟩ := q
  simp only at hobj hrows hcones
  -- stop facts, from the last section backwards
  have sBinKw : parseSection "Binary" [["End"]] = some ([], [["End"]]) := by
    simp [parseSection]
  have sBinNames : parseNames [["End"]] = ([], [["End"]]) := by
    simp [parseNames, parseX_End]
  have hBin := parseSection_block "Binary" bins [["End"]] sBinKw sBinNames
  have sGenKw : parseSection "General" (typeSection "Binary" bins ++ [["End"]]) =
      some ([], typeSection "Binary" bins ++ [["End"]]) := by
    cases bins <;> simp [typeSection, parseSection]
  have sGenNames : parseNames (typeSection "Binary" bins ++ [["End"]]) =
      ([], typeSection "Binary" bins ++ [["End"]]) := by
    cases bins <;> simp [typeSection, parseNames, parseX_End, parseX_Binary]
  have hGen := parseSection_block "General" ints _ sGenKw sGenNames
  have sBounds : ∀ k, parseBounds k (typeSection "General" ints ++
      (typeSection "Binary" bins ++ [["End"]])) =
      ([], typeSection "General" ints ++ (typeSection "Binary" bins ++ [["End"]])) := by
    intro k
    cases ints <;> cases bins <;> simp [typeSection, parseBounds]
  have hBounds := parseBounds_block bounds 0 _ sBounds
  have sRows : ∀ (X : List (List String)) (k : Nat),
      parseRows k (["Bounds"] :: X) = some ([], ["Bounds"] :: X) := by
    intro X k; simp [parseRows]
  have hRows := fun X => parseRows_block rows 0 (["Bounds"] :: X) hrows (sRows X)
  have sCones : ∀ (X : List (List String)) (k : Nat),
      parseCones k (rowLinesFrom 0 rows ++ ["Bounds"] :: X) =
        some ([], rowLinesFrom 0 rows ++ ["Bounds"] :: X) := by
    intro X k
    cases rows <;> simp [rowLinesFrom, rowLine, parseCones, cLabel_ne_qLabel]
  have hCones := fun X => parseCones_block cones 0 _ hcones (sCones X)
  simp [parseLines, parsedLines, objLine, parseLhs_lhsWords obj hobj, hCones, hRows, hBounds,
    hGen, hBin]

/-! ### text level -/

theorem splitChars_ne_nil (sep : Char) (l : List Char) : splitChars sep l ≠ [] := by
  induction l with
  | nil => simp [splitChars]
  | cons c cs ih =>
    unfold splitChars
    split
    · simp
    · split <;> simp

theorem splitChars_noSep (sep : Char) (w : List Char) (hw : sep ∉ w) : splitChars sep w = [w] := by
  induction w with
  | nil => simp [splitChars]
  | cons c cs ih =>
    have hc : c ≠ sep := fun h => hw (by simp [h])
    have := ih (fun h => hw (by simp [h]))
    simp [splitChars, hc, this]

theorem splitChars_append_sep (sep : Char) (w rest : List Char) (hw : sep ∉ w) :
    splitChars sep (w ++ sep :: rest) = w :: splitChars sep rest := by
  induction w with
  | nil => simp [splitChars]
  | cons c cs ih =>
    have hc : c ≠ sep := fun h => hw (by simp [h])
    have := ih (fun h => hw (by simp [h]))
    simp [splitChars, hc, this]

theorem splitChars_intercalate (sep : Char) (ws : List (List Char)) (hne : ws ≠ [])
    (h : ∀ w ∈ ws, sep ∉ w) : splitChars sep ([sep].intercalate ws) = ws := by
  induction ws with
  | nil => exact absurd rfl hne
  | cons w ws ih =>
    cases ws with
    | nil => simpa using splitChars_noSep sep w (h w (by simp))
    | cons w' ws =>
      have h2 := ih (by simp) (fun v hv => h v (by simp [hv]))
      rw [List.intercalate_cons_cons, List.append_assoc, List.singleton_append,
        splitChars_append_sep sep w _ (h w (by simp)), h2]

theorem mem_intercalate {c : Char} {sep : List Char} {ws : List (List Char)}
    (h : c ∈ sep.intercalate ws) : c ∈ sep ∨ ∃ w ∈ ws, c ∈ w := by
  induction ws with
  | nil => simp at h
  | cons w ws ih =>
    cases ws with
    | nil => right; exact ⟨w, by simp, by simpa using h⟩
    | cons w' ws =>
      rw [List.intercalate_cons_cons, List.mem_append, List.mem_append] at h
      rcases h with (h | h) | h
      · right; exact ⟨w, by simp, h⟩
      · left; exact h
      · rcases ih h with h | ⟨v, hv, hc⟩
        · left; exact h
        · right; exact ⟨v, by simp [hv], hc⟩

/-- a word that survives the splitting: no blank, no newline -/
def CleanWord (w : String) : Prop := ' ' ∉ w.toList ∧ '\n' ∉ w.toList

/-- a line that survives the splitting: at least one word, all of them clean -/
def CleanLine (l : List String) : Prop := l ≠ [] ∧ ∀ w ∈ l, CleanWord w

theorem splitText_unlinesWords (ls : List (List String)) (hne : ls ≠ [])
    (h : ∀ l ∈ ls, CleanLine l) : splitText (unlinesWords ls) = ls := by
  have hsp : " ".toList = [' '] := by decide
  have hnl : "\n".toList = ['\n'] := by decide
  unfold splitText unlinesWords
  rw [String.toList_intercalate, hnl, List.map_map, splitChars_intercalate]
  · rw [List.map_map]
    conv => rhs; rw [← List.map_id ls]
    apply List.map_congr_left
    intro l hl
    obtain ⟨hl1, hl2⟩ := h l hl
    simp only [Function.comp, String.toList_intercalate, hsp, id]
    rw [splitChars_intercalate, List.map_map]
    · conv => rhs; rw [← List.map_id l]
      apply List.map_congr_left
      intro w _
      simp [String.ofList_toList]
    · simpa using hl1
    · intro w hw
      obtain ⟨v, hv, rfl⟩ := List.mem_map.1 hw
      exact (hl2 v hv).1
  · simpa using hne
  · intro cs hcs
    obtain ⟨l, hl, rfl⟩ := List.mem_map.1 hcs
    obtain ⟨_, hl2⟩ := h l hl
    simp only [Function.comp, String.toList_intercalate, hsp]
    intro hmem
    rcases mem_intercalate hmem with hc | ⟨w, hw, hc⟩
    · simp at hc
    · obtain ⟨v, hv, rfl⟩ := List.mem_map.1 hw
      exact (hl2 v hv).2 hc

/-! ### every emitted word is clean -/

theorem GoodTok.clean {s : String} (h : GoodTok s) : CleanWord s := ⟨h.noBlank, h.noNewline⟩

theorem not_mem_toDigits_of_not_isDigit {c : Char} (hc : c.isDigit = false) (n : Nat) :
    c ∉ Nat.toDigits 10 n := by
  intro h
  have := Nat.isDigit_of_mem_toDigits (b := 10) (by decide) (by decide) h
  simp [hc] at this

theorem cleanWord_xLabel (j : Nat) : CleanWord (xLabel j) := by
  constructor <;>
  · rw [toList_xLabel]
    simp only [List.mem_cons, not_or]
    exact ⟨by decide, not_mem_toDigits_of_not_isDigit (by decide) _⟩

theorem cleanWord_cLabel (j : Nat) : CleanWord (cLabel j) := by
  constructor <;>
  · simp only [cLabel, String.toList_ofList, List.mem_cons, List.mem_append, not_or]
    exact ⟨by decide, not_mem_toDigits_of_not_isDigit (by decide) _, by decide, by simp⟩

theorem cleanWord_qLabel (j : Nat) : CleanWord (qLabel j) := by
  constructor <;>
  · simp only [qLabel, String.toList_ofList, List.mem_cons, List.mem_append, not_or]
    exact ⟨by decide, not_mem_toDigits_of_not_isDigit (by decide) _, by decide, by simp⟩

theorem mem_stripPlus {w : String} {ws : List String} (h : w ∈ stripPlus ws) : w ∈ ws := by
  unfold stripPlus at h
  split at h
  · split at h
    · simp [h]
    · exact h
  · exact h

theorem mem_spaceJoin {w : String} {parts : List (List String)} (h : w ∈ spaceJoin parts) :
    w = "" ∨ ∃ p ∈ parts, w ∈ p := by
  unfold spaceJoin at h
  split at h
  · left; simpa using h
  · right; simpa using h

theorem mem_plusJoin {w : String} {parts : List (List String)} (h : w ∈ plusJoin parts) :
    w = "" ∨ w = "+" ∨ ∃ p ∈ parts, w ∈ p := by
  induction parts with
  | nil => left; simpa [plusJoin] using h
  | cons a parts ih =>
    cases parts with
    | nil => right; right; exact ⟨a, by simp, by simpa [plusJoin] using h⟩
    | cons b parts =>
      simp only [plusJoin, List.mem_append, List.mem_cons] at h
      rcases h with h | h | h
      · right; right; exact ⟨a, by simp, h⟩
      · right; left; exact h
      · rcases ih h with h | h | ⟨p, hp, hw⟩
        · left; exact h
        · right; left; exact h
        · right; right; exact ⟨p, by simp [hp], hw⟩

theorem cleanWord_empty : CleanWord "" := by constructor <;> decide

theorem clean_lhsWords (ts : List Term) (h : ∀ t ∈ ts, CleanWord t.tok) :
    ∀ w ∈ lhsWords ts, CleanWord w := by
  intro w hw
  rcases mem_spaceJoin (mem_stripPlus hw) with rfl | ⟨p, hp, hwp⟩
  · exact cleanWord_empty
  · obtain ⟨t, ht, rfl⟩ := List.mem_map.1 hp
    simp only [termWords, List.mem_cons, List.not_mem_nil, or_false] at hwp
    rcases hwp with rfl | rfl | rfl
    · cases t.neg <;> constructor <;> decide
    · exact h t ht
    · exact cleanWord_xLabel _

/-- the tokens of a `Parsed` are printable and its cones non-empty -/
structure Parsed.Ok (q : Parsed) : Prop where
  obj : ∀ t ∈ q.obj, GoodTok t.tok
  rows : ∀ r ∈ q.rows, (∀ t ∈ r.terms, GoodTok t.tok) ∧ GoodTok r.rhs
  bounds : ∀ b ∈ q.bounds, GoodTok b.1 ∧ GoodTok b.2
  cones : ∀ c ∈ q.cones, c ≠ []

theorem clean_rowLines (rs : List PRow) (i : Nat)
    (h : ∀ r ∈ rs, (∀ t ∈ r.terms, GoodTok t.tok) ∧ GoodTok r.rhs) :
    ∀ l ∈ rowLinesFrom i rs, CleanLine l := by
  induction rs generalizing i with
  | nil => simp [rowLinesFrom]
  | cons r rs ih =>
    intro l hl
    simp only [rowLinesFrom, List.mem_cons] at hl
    rcases hl with rfl | hl
    · obtain ⟨h1, h2⟩ := h r (by simp)
      refine ⟨by simp [rowLine], ?_⟩
      intro w hw
      simp only [rowLine, List.mem_cons, List.mem_append, List.not_mem_nil, or_false] at hw
      rcases hw with rfl | rfl | hw | rfl | rfl
      · exact cleanWord_empty
      · exact cleanWord_cLabel _
      · exact clean_lhsWords _ (fun t ht => (h1 t ht).clean) w hw
      · cases r.eq <;> constructor <;> decide
      · exact h2.clean
    · exact ih (i + 1) (fun r' hr' => h r' (by simp [hr'])) l hl

theorem clean_coneLines (qs : List (List Nat)) (i : Nat) :
    ∀ l ∈ coneLinesFrom i qs, CleanLine l := by
  induction qs generalizing i with
  | nil => simp [coneLinesFrom]
  | cons q qs ih =>
    intro l hl
    simp only [coneLinesFrom, List.mem_cons] at hl
    rcases hl with rfl | hl
    · refine ⟨by simp [coneLine], ?_⟩
      intro w hw
      simp only [coneLine, coneBody, List.mem_cons, List.mem_append, List.not_mem_nil,
        or_false] at hw
      rcases hw with rfl | rfl | rfl | hw | rfl | rfl | rfl | rfl | rfl | rfl
      · exact cleanWord_empty
      · exact cleanWord_qLabel _
      · constructor <;> decide
      · rcases mem_plusJoin hw with rfl | rfl | ⟨p, hp, hwp⟩
        · exact cleanWord_empty
        · constructor <;> decide
        · obtain ⟨j, _, rfl⟩ := List.mem_map.1 hp
          simp only [List.mem_cons, List.not_mem_nil, or_false] at hwp
          rcases hwp with rfl | rfl
          · exact cleanWord_xLabel _
          · constructor <;> decide
      · constructor <;> decide
      · exact cleanWord_xLabel _
      · constructor <;> decide
      · constructor <;> decide
      · constructor <;> decide
      · constructor <;> decide
    · exact ih (i + 1) l hl

theorem clean_boundLines (bs : List (String × String)) (i : Nat)
    (h : ∀ b ∈ bs, GoodTok b.1 ∧ GoodTok b.2) :
    ∀ l ∈ boundLinesFrom i bs, CleanLine l := by
  induction bs generalizing i with
  | nil => simp [boundLinesFrom]
  | cons b bs ih =>
    intro l hl
    simp only [boundLinesFrom, List.mem_cons] at hl
    rcases hl with rfl | hl
    · obtain ⟨h1, h2⟩ := h b (by simp)
      refine ⟨by simp [boundLine], ?_⟩
      intro w hw
      simp only [boundLine, List.mem_cons, List.not_mem_nil, or_false] at hw
      rcases hw with rfl | rfl | rfl | rfl | rfl
      · exact h1.clean
      · constructor <;> decide
      · exact cleanWord_xLabel _
      · constructor <;> decide
      · exact h2.clean
    · exact ih (i + 1) (fun r' hr' => h r' (by simp [hr'])) l hl

theorem clean_typeSection (kw : String) (hkw : CleanWord kw) (idx : List Nat) :
    ∀ l ∈ typeSection kw idx, CleanLine l := by
  cases idx with
  | nil => simp [typeSection]
  | cons j js =>
    intro l hl
    simp only [typeSection, List.mem_cons, List.mem_map] at hl
    rcases hl with rfl | rfl | ⟨k, _, rfl⟩
    · exact ⟨by simp, by simpa using hkw⟩
    · refine ⟨by simp, ?_⟩
      intro w hw
      simp only [List.mem_cons, List.not_mem_nil, or_false] at hw
      rcases hw with rfl | rfl
      · exact cleanWord_empty
      · exact cleanWord_xLabel _
    · exact ⟨by simp, by simpa using cleanWord_xLabel k⟩

theorem clean_parsedLines (q : Parsed) (h : q.Ok) : ∀ l ∈ parsedLines q, CleanLine l := by
  intro l hl
  simp only [parsedLines, List.mem_cons, List.mem_append, List.not_mem_nil, or_false] at hl
  rcases hl with rfl | rfl | rfl | hl | hl | rfl | hl | hl | hl | rfl
  · exact ⟨by simp, by simp; constructor <;> decide⟩
  · refine ⟨by simp [objLine], ?_⟩
    intro w hw
    simp only [objLine, List.mem_cons] at hw
    rcases hw with rfl | rfl | hw
    · exact cleanWord_empty
    · constructor <;> decide
    · exact clean_lhsWords _ (fun t ht => (h.obj t ht).clean) w hw
  · refine ⟨by simp, ?_⟩
    intro w hw
    simp only [List.mem_cons, List.not_mem_nil, or_false] at hw
    rcases hw with rfl | rfl <;> constructor <;> decide
  · exact clean_coneLines _ _ l hl
  · exact clean_rowLines _ _ h.rows l hl
  · exact ⟨by simp, by simp; constructor <;> decide⟩
  · exact clean_boundLines _ _ h.bounds l hl
  · exact clean_typeSection _ (by constructor <;> decide) _ l hl
  · exact clean_typeSection _ (by constructor <;> decide) _ l hl
  · exact ⟨by simp, by simp; constructor <;> decide⟩

theorem parsedLines_ne_nil (q : Parsed) : parsedLines q ≠ [] := by simp [parsedLines]

/-! ### from `WF` to `Parsed.Ok` -/

theorem mem_objTermsFrom {t : Term} {cs : List Coef} {i : Nat} (h : t ∈ objTermsFrom i cs) :
    ∃ c ∈ cs, t.tok = c.absTok := by
  induction cs generalizing i with
  | nil => simp [objTermsFrom] at h
  | cons c cs ih =>
    unfold objTermsFrom at h
    split at h
    · obtain ⟨c', hc', e⟩ := ih h
      exact ⟨c', by simp [hc'], e⟩
    · rcases List.mem_cons.1 h with rfl | h
      · exact ⟨c, by simp, rfl⟩
      · obtain ⟨c', hc', e⟩ := ih h
        exact ⟨c', by simp [hc'], e⟩

theorem mem_zipRows {r : PRow} {rs : List (List (Coef × Nat))} {ss : List Bool} {cs : List String}
    (h : r ∈ zipRows rs ss cs) : (∃ row ∈ rs, r.terms = rowTerms row) ∧ r.rhs ∈ cs := by
  induction rs generalizing ss cs with
  | nil => simp [zipRows] at h
  | cons row rs ih =>
    cases ss with
    | nil => simp [zipRows] at h
    | cons s ss =>
      cases cs with
      | nil => simp [zipRows] at h
      | cons c cs =>
        simp only [zipRows, List.mem_cons] at h
        rcases h with rfl | h
        · exact ⟨⟨row, by simp, rfl⟩, by simp⟩
        · obtain ⟨⟨row', hr', e⟩, hc⟩ := ih h
          exact ⟨⟨row', by simp [hr'], e⟩, by simp [hc]⟩

theorem toParsed_ok {p : ExProg} (h : p.WF) : (toParsed p).Ok where
  obj := by
    intro t ht
    obtain ⟨c, hc, e⟩ := mem_objTermsFrom ht
    rw [e]; exact h.tok_obj c hc
  rows := by
    intro r hr
    obtain ⟨⟨row, hrow, e⟩, hc⟩ := mem_zipRows hr
    refine ⟨?_, h.tok_const _ hc⟩
    intro t ht
    rw [e] at ht
    obtain ⟨en, hen, rfl⟩ := List.mem_map.1 ht
    exact h.tok_rows row hrow en hen
  bounds := by
    intro b hb
    obtain ⟨h1, h2⟩ := List.of_mem_zip (show (b.1, b.2) ∈ p.lb.zip p.ub from hb)
    exact ⟨h.tok_lb _ h1, h.tok_ub _ h2⟩
  cones := h.cones_ne

theorem GoodTok.ne_minus {s : String} (h : GoodTok s) : s ≠ "-" := by
  intro e
  exact h.notKw (by rw [e]; decide)

theorem Parsed.Ok.firstOk_obj {q : Parsed} (h : q.Ok) : FirstOk q.obj := by
  intro t ht _
  exact (h.obj t (List.mem_of_mem_head? ht)).ne_minus

theorem Parsed.Ok.firstOk_rows {q : Parsed} (h : q.Ok) : ∀ r ∈ q.rows, FirstOk r.terms := by
  intro r hr t ht _
  exact ((h.rows r hr).1 t (List.mem_of_mem_head? ht)).ne_minus

/-! ### `toParsed` loses nothing but objective zeros and the zero flags of row entries -/

theorem zipRows_inj {rs rs' : List (List (Coef × Nat))} {ss ss' : List Bool} {cs cs' : List String}
    (h1 : ss.length = rs.length) (h2 : cs.length = rs.length)
    (h1' : ss'.length = rs'.length) (h2' : cs'.length = rs'.length)
    (h : zipRows rs ss cs = zipRows rs' ss' cs') :
    rs.map rowTerms = rs'.map rowTerms ∧ ss = ss' ∧ cs = cs' := by
  induction rs generalizing rs' ss ss' cs cs' with
  | nil =>
    cases ss <;> cases cs <;> simp at h1 h2
    cases rs' with
    | nil => cases ss' <;> cases cs' <;> simp at h1' h2'; simp
    | cons r' rs' =>
      cases ss' <;> cases cs' <;> simp at h1' h2'
      simp [zipRows] at h
  | cons r rs ih =>
    cases ss <;> cases cs <;> simp at h1 h2
    cases rs' with
    | nil =>
      cases ss' <;> cases cs' <;> simp at h1' h2'
      simp [zipRows] at h
    | cons r' rs' =>
      cases ss' <;> cases cs' <;> simp at h1' h2'
      simp only [zipRows, List.cons.injEq, PRow.mk.injEq] at h
      obtain ⟨⟨e1, e2, e3⟩, e4⟩ := h
      obtain ⟨i1, i2, i3⟩ := ih h1 h2 h1' h2' e4
      simp [e1, e2, e3, i1, i2, i3]

theorem zip_inj {α β : Type} {l1 l1' : List α} {l2 l2' : List β}
    (h : l1.length = l2.length) (h' : l1'.length = l2'.length)
    (e : l1.zip l2 = l1'.zip l2') : l1 = l1' ∧ l2 = l2' := by
  have a := List.unzip_zip h
  have b := List.unzip_zip h'
  rw [e, b] at a
  simpa using a.symm

theorem le_of_mem_idxWhereFrom {ch : Char} {i k : Nat} {v : List Char}
    (h : k ∈ idxWhereFrom ch i v) : i ≤ k := by
  induction v generalizing i with
  | nil => simp [idxWhereFrom] at h
  | cons c v ih =>
    unfold idxWhereFrom at h
    split at h
    · rcases List.mem_cons.1 h with rfl | h
      · exact Nat.le_refl _
      · exact Nat.le_of_succ_le (ih h)
    · exact Nat.le_of_succ_le (ih h)

theorem idxWhere_head_absurd {ch : Char} {i : Nat} {v : List Char} {rest : List Nat}
    (h : i :: rest = idxWhereFrom ch (i + 1) v) : False := by
  have : i ∈ idxWhereFrom ch (i + 1) v := by rw [← h]; simp
  exact Nat.not_succ_le_self i (le_of_mem_idxWhereFrom this)

theorem vtype_determined (v v' : List Char) (i : Nat) (hl : v.length = v'.length)
    (hv : ∀ c ∈ v, c = 'C' ∨ c = 'B' ∨ c = 'I') (hv' : ∀ c ∈ v', c = 'C' ∨ c = 'B' ∨ c = 'I')
    (hI : idxWhereFrom 'I' i v = idxWhereFrom 'I' i v')
    (hB : idxWhereFrom 'B' i v = idxWhereFrom 'B' i v') : v = v' := by
  induction v generalizing v' i with
  | nil => cases v' <;> simp_all
  | cons c v ih =>
    cases v' with
    | nil => simp at hl
    | cons c' v' =>
      have hc := hv c (by simp)
      have hc' := hv' c' (by simp)
      have hv2 : ∀ c ∈ v, c = 'C' ∨ c = 'B' ∨ c = 'I' := fun d hd => hv d (by simp [hd])
      have hv2' : ∀ c ∈ v', c = 'C' ∨ c = 'B' ∨ c = 'I' := fun d hd => hv' d (by simp [hd])
      have hl2 : v.length = v'.length := by simpa using hl
      rcases hc with rfl | rfl | rfl <;> rcases hc' with rfl | rfl | rfl <;>
        simp [idxWhereFrom] at hI hB <;>
        first
        | exact absurd hI.symm (fun h => idxWhere_head_absurd h.symm)
        | (rw [ih v' (i + 1) hl2 hv2 hv2' (by first | exact hI | exact hI.2) (by first | exact hB | exact hB.2)])
        | exact (idxWhere_head_absurd hI).elim
        | exact (idxWhere_head_absurd hI.symm).elim
        | exact (idxWhere_head_absurd hB).elim
        | exact (idxWhere_head_absurd hB.symm).elim

/-! ### `WF` is decidable (used by the driver and by the examples) -/

theorem goodTok_iff (s : String) :
    GoodTok s ↔ (s ≠ "" ∧ ' ' ∉ s.toList ∧ '\n' ∉ s.toList ∧ s ∉ keywords) :=
  ⟨fun h => ⟨h.ne, h.noBlank, h.noNewline, h.notKw⟩, fun h => ⟨h.1, h.2.1, h.2.2.1, h.2.2.2⟩⟩

instance (s : String) : Decidable (GoodTok s) := decidable_of_iff _ (goodTok_iff s).symm

theorem wf_iff (p : ExProg) :
    p.WF ↔ (p.sense.length = p.rows.length ∧ p.const.length = p.rows.length ∧
      p.lb.length = p.vtype.length ∧ p.ub.length = p.vtype.length ∧
      p.obj.length = p.vtype.length ∧
      (∀ c ∈ p.obj, GoodTok c.absTok) ∧ (∀ r ∈ p.rows, ∀ e ∈ r, GoodTok e.1.absTok) ∧
      (∀ s ∈ p.const, GoodTok s) ∧ (∀ s ∈ p.lb, GoodTok s) ∧ (∀ s ∈ p.ub, GoodTok s) ∧
      (∀ c ∈ p.vtype, c = 'C' ∨ c = 'B' ∨ c = 'I') ∧ (∀ q ∈ p.qmat, q ≠ [])) :=
  ⟨fun h => ⟨h.1, h.2, h.3, h.4, h.5, h.6, h.7, h.8, h.9, h.10, h.11, h.12⟩,
   fun h => ⟨h.1, h.2.1, h.2.2.1, h.2.2.2.1, h.2.2.2.2.1, h.2.2.2.2.2.1, h.2.2.2.2.2.2.1,
     h.2.2.2.2.2.2.2.1, h.2.2.2.2.2.2.2.2.1, h.2.2.2.2.2.2.2.2.2.1, h.2.2.2.2.2.2.2.2.2.2.1,
     h.2.2.2.2.2.2.2.2.2.2.2⟩⟩

instance (p : ExProg) : Decidable p.WF := decidable_of_iff _ (wf_iff p).symm

end RsomeV.Export
