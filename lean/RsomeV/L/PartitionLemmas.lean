import RsomeV.M.Partition

/-! Helper lemmas for `RsomeV/Props/C13.lean` (partition / non-anticipativity bookkeeping).
Core `List` lemmas only, no Mathlib. -/

namespace RsomeV.Partition

/-! ### `removeAll` -/

/-- whatever `removeAll` removes, it removes exactly the multiset `ev` -/
theorem removeAll_perm {hd ev hd' : List Nat} (h : removeAll hd ev = some hd') :
    hd.Perm (hd' ++ ev) := by
  induction ev generalizing hd with
  | nil => simp [removeAll] at h; subst h; simp
  | cons s ss ih =>
    simp only [removeAll] at h
    split at h
    · rename_i hc
      have hmem : s ∈ hd := by simpa using hc
      have h1 := List.perm_cons_erase hmem
      have h2 := ih h
      refine h1.trans ?_
      refine (List.Perm.cons s h2).trans ?_
      exact (List.perm_middle (a := s) (l₁ := hd') (l₂ := ss)).symm
    · cases h

/-- on a duplicate-free head, `removeAll` succeeds exactly for duplicate-free `ev ⊆ hd`, and then
returns `hd` with the members of `ev` filtered out (order kept) -/
theorem removeAll_eq_some_iff {hd ev hd' : List Nat} (hn : hd.Nodup) :
    removeAll hd ev = some hd' ↔
      ev.Nodup ∧ (∀ s ∈ ev, s ∈ hd) ∧ hd' = hd.filter (fun s => !ev.contains s) := by
  induction ev generalizing hd with
  | nil =>
    have : List.filter (fun _ => true) hd = hd := List.filter_eq_self.2 (by simp)
    simp [removeAll, eq_comm, this]
  | cons s ss ih =>
    simp only [removeAll]
    split
    · rename_i hc
      have hmem : s ∈ hd := by simpa using hc
      rw [ih (hn.erase s)]
      have hfil : (hd.erase s).filter (fun x => !ss.contains x)
          = hd.filter (fun x => !(s :: ss).contains x) := by
        rw [hn.erase_eq_filter, List.filter_filter]
        apply List.filter_congr
        intro x _
        rw [List.contains_cons]
        simp only [bne]
        cases ss.contains x <;> cases (x == s) <;> rfl
      rw [hfil]
      constructor
      · rintro ⟨h1, h2, h3⟩
        refine ⟨?_, ?_, h3⟩
        · rw [List.nodup_cons]
          refine ⟨fun hs => ?_, h1⟩
          have := (hn.mem_erase_iff).1 (h2 s hs)
          exact this.1 rfl
        · intro x hx
          rcases List.mem_cons.1 hx with rfl | hx
          · exact hmem
          · exact ((hn.mem_erase_iff).1 (h2 x hx)).2
      · rintro ⟨h1, h2, h3⟩
        rw [List.nodup_cons] at h1
        refine ⟨h1.2, ?_, h3⟩
        intro x hx
        rw [hn.mem_erase_iff]
        refine ⟨?_, h2 x (List.mem_cons_of_mem _ hx)⟩
        rintro rfl
        exact h1.1 hx
    · rename_i hc
      have hmem : s ∉ hd := by simpa using hc
      constructor
      · intro h; cases h
      · rintro ⟨_, h2, _⟩
        exact absurd (h2 s (List.mem_cons_self)) hmem

/-! ### sequences of `evtadapt` calls -/

/-- one step of a run: apply `evtadapt` unless an earlier call already failed -/
def runStep (acc : Except Err EvState) (ev : List Nat) : Except Err EvState :=
  match acc with
  | .error e => .error e
  | .ok st => evtadapt st ev

theorem foldl_runStep_error (e : Err) (calls : List (List Nat)) :
    calls.foldl runStep (.error e) = .error e := by
  induction calls with
  | nil => rfl
  | cons c cs ih => simpa [List.foldl_cons, runStep] using ih

/-- scenarios `< S` not declared by any of the calls `cs`, in increasing order -/
def remainder (S : Nat) (cs : List (List Nat)) : List Nat :=
  (List.range S).filter (fun s => !(cs.flatten.contains s))

theorem remainder_nodup (S : Nat) (cs : List (List Nat)) : (remainder S cs).Nodup :=
  List.Nodup.sublist List.filter_sublist List.nodup_range

theorem mem_remainder {S : Nat} {cs : List (List Nat)} {s : Nat} :
    s ∈ remainder S cs ↔ s < S ∧ s ∉ cs.flatten := by
  simp [remainder]

theorem remainder_snoc (S : Nat) (cs : List (List Nat)) (ev : List Nat) :
    remainder S (cs ++ [ev]) = (remainder S cs).filter (fun s => !ev.contains s) := by
  unfold remainder
  rw [List.filter_filter]
  apply List.filter_congr
  intro x _
  simp only [List.flatten_append, List.flatten_cons, List.flatten_nil, List.append_nil,
    List.contains_eq_mem, List.mem_append]
  by_cases h1 : x ∈ cs.flatten <;> by_cases h2 : x ∈ ev <;> simp [h1, h2]

/-- invariant of a run: state reached after the (non-empty, successful) calls `cs` -/
structure RunInv (S : Nat) (cs : List (List Nat)) (st : EvState) : Prop where
  nodup : cs.flatten.Nodup
  lt : ∀ s ∈ cs.flatten, s < S
  shape : if st.rest then st.events = remainder S cs :: cs ∧ (cs = [] ∨ remainder S cs ≠ [])
          else st.events = cs ∧ remainder S cs = [] ∧ cs ≠ []

theorem runInv_init (S : Nat) : RunInv S [] (EvState.init S) := by
  refine ⟨by simp, by simp, ?_⟩
  have : remainder S [] = List.range S := by
    unfold remainder
    exact List.filter_eq_self.2 (by simp)
  simp [EvState.init, this]

theorem runInv_step {S : Nat} {cs : List (List Nat)} {st st' : EvState} {ev : List Nat}
    (inv : RunInv S cs st) (hne : ev ≠ []) (h : evtadapt st ev = .ok st') :
    RunInv S (cs ++ [ev]) st' := by
  obtain ⟨hnd, hlt, hshape⟩ := inv
  cases hr : st.rest with
  | false =>
    rw [hr] at hshape
    obtain ⟨hev, _, hcs⟩ := hshape
    exfalso
    rw [evtadapt_eq_core hne] at h
    unfold evtadaptCore at h
    rw [hev] at h
    cases cs with
    | nil => exact hcs rfl
    | cons c cs' =>
      have : ev.isEmpty = false := by cases ev <;> simp_all
      simp [hr, this] at h
  | true =>
    rw [hr] at hshape
    simp only [if_true] at hshape
    obtain ⟨hev, hcs⟩ := hshape
    rw [evtadapt_eq_core hne] at h
    unfold evtadaptCore at h
    rw [hev] at h
    simp only [hr, Bool.not_true, Bool.false_and, Bool.false_eq_true, if_false] at h
    cases hrm : removeAll (remainder S cs) ev with
    | none => rw [hrm] at h; cases h
    | some hd' =>
      rw [hrm] at h
      obtain ⟨hevn, hsub, hhd'⟩ := (removeAll_eq_some_iff (remainder_nodup S cs)).1 hrm
      rw [← remainder_snoc] at hhd'
      have hnd' : (cs ++ [ev]).flatten.Nodup := by
        simp only [List.flatten_append, List.flatten_cons, List.flatten_nil, List.append_nil]
        rw [List.nodup_append]
        refine ⟨hnd, hevn, ?_⟩
        intro a ha b hb hab
        subst hab
        exact (mem_remainder.1 (hsub a hb)).2 ha
      have hlt' : ∀ s ∈ (cs ++ [ev]).flatten, s < S := by
        intro s hs
        simp only [List.flatten_append, List.flatten_cons, List.flatten_nil, List.append_nil,
          List.mem_append] at hs
        rcases hs with hs | hs
        · exact hlt s hs
        · exact (mem_remainder.1 (hsub s hs)).1
      by_cases hemp : hd'.isEmpty
      · simp only [hemp, if_true] at h
        cases h
        refine ⟨hnd', hlt', ?_⟩
        have : hd' = [] := by simpa using hemp
        simp [← hhd', this]
      · simp only [hemp] at h
        cases h
        refine ⟨hnd', hlt', ?_⟩
        have : hd' ≠ [] := by simpa using hemp
        simp [← hhd', this]

/-- the invariant holds along any successful run of non-empty calls -/
theorem runInv_foldl {S : Nat} {pre calls : List (List Nat)} {st st' : EvState}
    (inv : RunInv S pre st) (hne : ∀ c ∈ calls, c ≠ [])
    (h : calls.foldl runStep (.ok st) = .ok st') : RunInv S (pre ++ calls) st' := by
  induction calls generalizing pre st with
  | nil => simp at h; subst h; simpa using inv
  | cons c cs ih =>
    rw [List.foldl_cons] at h
    cases hc : evtadapt st c with
    | error e =>
      simp only [runStep, hc] at h
      rw [foldl_runStep_error] at h
      cases h
    | ok st1 =>
      simp only [runStep, hc] at h
      have := ih (runInv_step inv (hne c (List.mem_cons_self)) hc)
        (fun c' hc' => hne c' (List.mem_cons_of_mem _ hc')) h
      simpa using this

/-- under the invariant, a call that re-declares a scenario, names an unknown scenario
(`≥ S`) or lists a scenario twice is a `KeyError` -/
theorem runInv_rejects {S : Nat} {cs : List (List Nat)} {st : EvState} {ev : List Nat}
    (inv : RunInv S cs st)
    (hbad : (∃ s ∈ ev, s ∈ cs.flatten ∨ S ≤ s) ∨ ¬ ev.Nodup) :
    evtadapt st ev = .error .keyError := by
  obtain ⟨hnd, hlt, hshape⟩ := inv
  have hne : ev.isEmpty = false := by
    cases ev with
    | nil => simp at hbad
    | cons a l => rfl
  cases hr : st.rest with
  | false =>
    rw [hr] at hshape
    obtain ⟨hev, _, hcs⟩ := hshape
    rw [evtadapt_eq_core (by intro h0; subst h0; simp at hne)]
    unfold evtadaptCore
    rw [hev]
    cases cs with
    | nil => exact absurd rfl hcs
    | cons c cs' => simp [hr, hne]
  | true =>
    rw [hr] at hshape
    simp only [if_true] at hshape
    obtain ⟨hev, _⟩ := hshape
    rw [evtadapt_eq_core (by intro h0; subst h0; simp at hne)]
    unfold evtadaptCore
    rw [hev]
    simp only [hr, Bool.not_true, Bool.false_and, Bool.false_eq_true, if_false]
    cases hrm : removeAll (remainder S cs) ev with
    | none => rfl
    | some hd' =>
      exfalso
      obtain ⟨hevn, hsub, _⟩ := (removeAll_eq_some_iff (remainder_nodup S cs)).1 hrm
      rcases hbad with ⟨s, hs, hs'⟩ | hdup
      · have := mem_remainder.1 (hsub s hs)
        rcases hs' with hs' | hs'
        · exact this.2 hs'
        · omega
      · exact hdup hevn

/-! ### the grouping fold of `combSet` -/

section GroupInv
variable {K : Type}

/-- invariant of the grouping fold after the scenarios `l` have been processed -/
structure GInv (key : Nat → K) (l : List Nat) (acc : List (K × List Nat)) : Prop where
  keys : (acc.map (·.1)).Nodup
  mem : ∀ g ∈ acc, ∀ x ∈ g.2, key x = g.1
  perm : (acc.map (·.2)).flatten.Perm l

theorem gInv_nil (key : Nat → K) : GInv key [] [] := ⟨by simp, by simp, by simp⟩

theorem eq_of_nodup_map {α β : Type} (f : α → β) {l : List α} (h : (l.map f).Nodup) {a b : α}
    (ha : a ∈ l) (hb : b ∈ l) (hab : f a = f b) : a = b := by
  induction l with
  | nil => cases ha
  | cons c l ih =>
    rw [List.map_cons, List.nodup_cons] at h
    rcases List.mem_cons.1 ha with h1 | h1 <;> rcases List.mem_cons.1 hb with h2 | h2
    · rw [h1, h2]
    · subst h1
      exact absurd (by rw [hab]; exact List.mem_map_of_mem h2) h.1
    · subst h2
      exact absurd (by rw [← hab]; exact List.mem_map_of_mem h1) h.1
    · exact ih h.2 h1 h2

/-- two processed scenarios end up in the same group iff they have the same key -/
theorem gInv_same {key : Nat → K} {l : List Nat} {acc : List (K × List Nat)}
    (inv : GInv key l acc) {s t : Nat} (hs : s ∈ l) (ht : t ∈ l) :
    (∃ e ∈ acc.map (·.2), s ∈ e ∧ t ∈ e) ↔ key s = key t := by
  constructor
  · rintro ⟨e, he, hse, hte⟩
    obtain ⟨g, hg, rfl⟩ := List.mem_map.1 he
    rw [inv.mem g hg s hse, inv.mem g hg t hte]
  · intro hk
    have hs' := (inv.perm.mem_iff).2 hs
    have ht' := (inv.perm.mem_iff).2 ht
    obtain ⟨e1, he1, hse1⟩ := List.mem_flatten.1 hs'
    obtain ⟨e2, he2, hte2⟩ := List.mem_flatten.1 ht'
    obtain ⟨g1, hg1, rfl⟩ := List.mem_map.1 he1
    obtain ⟨g2, hg2, rfl⟩ := List.mem_map.1 he2
    have : g1 = g2 := eq_of_nodup_map (·.1) inv.keys hg1 hg2
      (by rw [← inv.mem g1 hg1 s hse1, ← inv.mem g2 hg2 t hte2, hk])
    subst this
    exact ⟨g1.2, he1, hse1, hte2⟩

end GroupInv

section Group
variable {K : Type} [BEq K] [LawfulBEq K]

/-- the body of the `foldl` in `combSet` -/
def groupStep (key : Nat → K) (acc : List (K × List Nat)) (s : Nat) : List (K × List Nat) :=
  match acc.findIdx? (fun g => g.1 == key s) with
  | some i => acc.modify i (fun g => (g.1, g.2 ++ [s]))
  | none => acc ++ [(key s, [s])]

/-- structurally recursive version of `groupStep`: append `s` to the first group with key `k`,
or open a new group at the end -/
def insertG (k : K) (s : Nat) : List (K × List Nat) → List (K × List Nat)
  | [] => [(k, [s])]
  | g :: gs => if g.1 == k then (g.1, g.2 ++ [s]) :: gs else g :: insertG k s gs

omit [LawfulBEq K] in
theorem groupStep_eq_insertG (key : Nat → K) (acc : List (K × List Nat)) (s : Nat) :
    groupStep key acc s = insertG (key s) s acc := by
  unfold groupStep
  induction acc with
  | nil => simp [insertG]
  | cons g gs ih =>
    rw [List.findIdx?_cons]
    by_cases hg : g.1 == key s
    · simp [hg, insertG]
    · simp only [hg, Bool.false_eq_true, if_false, insertG]
      cases hf : gs.findIdx? (fun g => g.1 == key s) with
      | none => rw [hf] at ih; simpa using ih
      | some i => rw [hf] at ih; simpa using ih

theorem insertG_keys (k : K) (s : Nat) (acc : List (K × List Nat)) :
    (insertG k s acc).map (·.1) =
      if k ∈ acc.map (·.1) then acc.map (·.1) else acc.map (·.1) ++ [k] := by
  induction acc with
  | nil => simp [insertG]
  | cons g gs ih =>
    simp only [insertG]
    by_cases hg : g.1 == k
    · have : g.1 = k := by simpa using hg
      simp [this]
    · have hne : ¬ g.1 = k := by simpa using hg
      have hne' : ¬ k = g.1 := fun h => hne h.symm
      simp only [hg, Bool.false_eq_true, if_false, List.map_cons, ih, List.mem_cons, hne',
        false_or]
      split <;> simp

theorem insertG_mem_key (key : Nat → K) (s : Nat) (acc : List (K × List Nat))
    (h : ∀ g ∈ acc, ∀ x ∈ g.2, key x = g.1) :
    ∀ g ∈ insertG (key s) s acc, ∀ x ∈ g.2, key x = g.1 := by
  induction acc with
  | nil =>
    intro g hg x hx
    simp only [insertG, List.mem_singleton] at hg
    subst hg
    simp only [List.mem_singleton] at hx
    subst hx
    rfl
  | cons g0 gs ih =>
    intro g hg x hx
    simp only [insertG] at hg
    by_cases hg0 : g0.1 == key s
    · simp only [hg0, if_true, List.mem_cons] at hg
      rcases hg with rfl | hg
      · simp only [List.mem_append, List.mem_singleton] at hx
        rcases hx with hx | rfl
        · exact h g0 (List.mem_cons_self) x hx
        · exact (by simpa using hg0 : g0.1 = key x).symm
      · exact h g (List.mem_cons_of_mem _ hg) x hx
    · simp only [hg0, Bool.false_eq_true, if_false, List.mem_cons] at hg
      rcases hg with rfl | hg
      · exact h g (List.mem_cons_self) x hx
      · exact ih (fun g' hg' => h g' (List.mem_cons_of_mem _ hg')) g hg x hx

omit [LawfulBEq K] in
theorem insertG_perm (k : K) (s : Nat) (acc : List (K × List Nat)) :
    ((insertG k s acc).map (·.2)).flatten.Perm ((acc.map (·.2)).flatten ++ [s]) := by
  induction acc with
  | nil => simp [insertG]
  | cons g gs ih =>
    simp only [insertG]
    by_cases hg : g.1 == k
    · simp only [hg, if_true, List.map_cons, List.flatten_cons]
      rw [List.append_assoc, List.append_assoc]
      exact List.Perm.append_left _ List.perm_append_comm
    · simp only [hg, Bool.false_eq_true, if_false, List.map_cons, List.flatten_cons,
        List.append_assoc]
      exact List.Perm.append_left _ ih

theorem gInv_step {key : Nat → K} {l : List Nat} {acc : List (K × List Nat)}
    (inv : GInv key l acc) (s : Nat) : GInv key (l ++ [s]) (groupStep key acc s) := by
  rw [groupStep_eq_insertG]
  refine ⟨?_, insertG_mem_key key s acc inv.mem, ?_⟩
  · rw [insertG_keys]
    split
    · exact inv.keys
    · rename_i hk
      rw [List.nodup_append]
      refine ⟨inv.keys, by simp, ?_⟩
      intro a ha b hb hab
      simp only [List.mem_singleton] at hb
      subst hb; subst hab
      exact hk ha
  · exact (insertG_perm _ s acc).trans (List.Perm.append_right _ inv.perm)

theorem gInv_foldl {key : Nat → K} {pre l : List Nat} {acc : List (K × List Nat)}
    (inv : GInv key pre acc) : GInv key (pre ++ l) (l.foldl (groupStep key) acc) := by
  induction l generalizing pre acc with
  | nil => simpa using inv
  | cons s l ih =>
    rw [List.foldl_cons]
    have := ih (gInv_step inv s)
    simpa using this

end Group

/-! ### `eventOf` on duplicate-free event lists -/

theorem getElem_unique_of_nodup_flatten {es : Events} (hn : es.flatten.Nodup) {i j s : Nat}
    (hi : i < es.length) (hj : j < es.length) (hsi : s ∈ es[i]) (hsj : s ∈ es[j]) : i = j := by
  have hp := (List.pairwise_flatten.1 hn).2
  rw [List.pairwise_iff_getElem] at hp
  rcases Nat.lt_trichotomy i j with h | h | h
  · exact absurd rfl (hp i j hi hj h s hsi s hsj)
  · exact h
  · exact absurd rfl (hp j i hj hi h s hsj s hsi)

theorem eventOf_lt {es : Events} {s i : Nat} (h : eventOf es s = some i) : i < es.length := by
  unfold eventOf at h
  rw [List.findIdx?_eq_some_iff_getElem] at h
  exact h.1

theorem eventOf_eq_some_iff {es : Events} (hn : es.flatten.Nodup) {s i : Nat} :
    eventOf es s = some i ↔ ∃ h : i < es.length, s ∈ es[i] := by
  unfold eventOf
  rw [List.findIdx?_eq_some_iff_getElem]
  constructor
  · rintro ⟨h, h1, _⟩
    exact ⟨h, by simpa using h1⟩
  · rintro ⟨h, h1⟩
    refine ⟨h, by simpa using h1, ?_⟩
    intro j hji hc
    have hsj : s ∈ es[j] := by simpa using hc
    have := getElem_unique_of_nodup_flatten hn (Nat.lt_trans hji h) h hsj h1
    omega

theorem eventOf_of_mem_flatten {es : Events} (hn : es.flatten.Nodup) {s : Nat}
    (hs : s ∈ es.flatten) : ∃ i, ∃ h : i < es.length, s ∈ es[i] ∧ eventOf es s = some i := by
  obtain ⟨e, he, hse⟩ := List.mem_flatten.1 hs
  obtain ⟨i, hi, rfl⟩ := List.getElem_of_mem he
  exact ⟨i, hi, hse, (eventOf_eq_some_iff hn).2 ⟨hi, hse⟩⟩

/-- on duplicate-free events, two covered scenarios have the same event index iff some event
contains both -/
theorem eventOf_eq_iff_same {es : Events} (hn : es.flatten.Nodup) {s t : Nat}
    (hs : s ∈ es.flatten) (ht : t ∈ es.flatten) :
    eventOf es s = eventOf es t ↔ ∃ e ∈ es, s ∈ e ∧ t ∈ e := by
  obtain ⟨i, hi, hsi, hei⟩ := eventOf_of_mem_flatten hn hs
  obtain ⟨j, hj, htj, hej⟩ := eventOf_of_mem_flatten hn ht
  rw [hei, hej]
  constructor
  · intro h
    have hij : i = j := by simpa using h
    subst hij
    exact ⟨es[i], List.getElem_mem hi, hsi, htj⟩
  · rintro ⟨e, he, hse, hte⟩
    obtain ⟨k, hk, rfl⟩ := List.getElem_of_mem he
    have h1 := getElem_unique_of_nodup_flatten hn hi hk hsi hse
    have h2 := getElem_unique_of_nodup_flatten hn hj hk htj hte
    rw [h1, h2]

/-- `getD 0` of the event index decides `sameEvent` as well (used by the column formulas) -/
theorem eventOf_getD_eq_iff_same {es : Events} (hn : es.flatten.Nodup) {s t : Nat}
    (hs : s ∈ es.flatten) (ht : t ∈ es.flatten) :
    (eventOf es s).getD 0 = (eventOf es t).getD 0 ↔ ∃ e ∈ es, s ∈ e ∧ t ∈ e := by
  rw [← eventOf_eq_iff_same hn hs ht]
  obtain ⟨i, _, _, hei⟩ := eventOf_of_mem_flatten hn hs
  obtain ⟨j, _, _, hej⟩ := eventOf_of_mem_flatten hn ht
  rw [hei, hej]
  simp

/-! ### `roFirst`, `constCols` -/

theorem roFirst_zero (ds : List Dec) : roFirst ds 0 = 0 := by
  cases ds <;> rfl

theorem roFirst_succ {ds : List Dec} {k : Nat} (h : k < ds.length) :
    roFirst ds (k + 1) = roFirst ds k + ds[k].size * ds[k].events.length := by
  induction ds generalizing k with
  | nil => simp at h
  | cons d ds ih =>
    cases k with
    | zero => simp [roFirst, roFirst_zero]
    | succ k =>
      have hk : k < ds.length := by simpa using h
      simp only [roFirst, ih hk, List.getElem_cons_succ]
      omega

theorem roFirst_le_succ (ds : List Dec) (k : Nat) : roFirst ds k ≤ roFirst ds (k + 1) := by
  induction ds generalizing k with
  | nil => simp [roFirst]
  | cons d ds ih =>
    cases k with
    | zero => simp [roFirst]
    | succ k =>
      simp only [roFirst]
      have := ih k
      omega

theorem roFirst_mono (ds : List Dec) {k k' : Nat} (h : k ≤ k') : roFirst ds k ≤ roFirst ds k' := by
  induction h with
  | refl => exact Nat.le_refl _
  | step _ ih => exact Nat.le_trans ih (roFirst_le_succ ds _)

/-- the columns of decision `k` lie in its own block `[roFirst k, roFirst (k+1))` -/
theorem constCols_bounds {ds : List Dec} {k s x : Nat} (hk : k < ds.length)
    (he : (eventOf ds[k].events s).isSome) (hx : x ∈ constCols ds k s) :
    roFirst ds k ≤ x ∧ x < roFirst ds (k + 1) := by
  unfold constCols at hx
  rw [List.getElem?_eq_getElem hk] at hx
  simp only [List.mem_map, List.mem_range] at hx
  obtain ⟨i, hi, rfl⟩ := hx
  obtain ⟨e, hee⟩ := Option.isSome_iff_exists.1 he
  have hlt := eventOf_lt hee
  rw [hee, roFirst_succ hk]
  simp only [Option.getD_some]
  have h1 : ds[k].size * (e + 1) ≤ ds[k].size * ds[k].events.length :=
    Nat.mul_le_mul_left _ hlt
  rw [Nat.mul_succ] at h1
  omega

/-! ### masks -/

theorem flatten_getElem?_rect {m : Mask} {nrand : Nat} (hrect : ∀ row ∈ m, row.length = nrand)
    (i : Nat) {j : Nat} (hj : j < nrand) :
    m.flatten[i * nrand + j]? = (m[i]?).bind (·[j]?) := by
  induction m generalizing i with
  | nil => simp
  | cons row rest ih =>
    have hrow : row.length = nrand := hrect row (List.mem_cons_self)
    have hrest : ∀ r ∈ rest, r.length = nrand := fun r hr => hrect r (List.mem_cons_of_mem _ hr)
    cases i with
    | zero =>
      simp only [List.flatten_cons, Nat.zero_mul, Nat.zero_add, List.getElem?_cons_zero,
        Option.bind_some]
      exact List.getElem?_append_left (by omega)
    | succ i =>
      simp only [List.flatten_cons, List.getElem?_cons_succ]
      rw [List.getElem?_append_right (by rw [Nat.succ_mul]; omega), ← ih hrest i]
      congr 1
      rw [Nat.succ_mul]
      omega

theorem flatten_getD_rect {m : Mask} {nrand : Nat} (hrect : ∀ row ∈ m, row.length = nrand)
    (i : Nat) {j : Nat} (hj : j < nrand) :
    m.flatten.getD (i * nrand + j) false = (m.getD i []).getD j false := by
  rw [List.getD_eq_getElem?_getD, flatten_getElem?_rect hrect i hj, List.getD_eq_getElem?_getD,
    List.getD_eq_getElem?_getD]
  cases m[i]? <;> simp

theorem mem_nzRows {m : Mask} {k : Nat} : k ∈ nzRows m ↔ m.flatten.getD k false = true := by
  unfold nzRows
  simp only [List.mem_filter, List.mem_range, and_iff_right_iff_imp]
  intro h
  rw [List.getD_eq_getElem?_getD] at h
  by_cases hk : k < m.flatten.length
  · exact hk
  · rw [List.getElem?_eq_none (by omega)] at h
    simp at h

theorem mul_add_inj {n i j i' j' : Nat} (hj : j < n) (hj' : j' < n)
    (h : i * n + j = i' * n + j') : i = i' ∧ j = j' := by
  rcases Nat.lt_trichotomy i i' with hi | hi | hi
  · have := Nat.mul_le_mul_right n (Nat.succ_le_of_lt hi)
    rw [Nat.succ_mul] at this
    omega
  · subst hi
    exact ⟨rfl, by omega⟩
  · have := Nat.mul_le_mul_right n (Nat.succ_le_of_lt hi)
    rw [Nat.succ_mul] at this
    omega

/-! ### `affadapt` -/

/-- the mask update of a successful `affadapt` -/
def setMask (m : Mask) (di ri : List Nat) : Mask :=
  m.mapIdx fun i row => row.mapIdx fun j b => b || (di.contains i && ri.contains j)

theorem affadapt_eq (isInt : Bool) (m : Mask) (di ri : List Nat) :
    affadapt isInt m di ri =
      if isInt then .error .valueError
      else if ∃ i ∈ di, ∃ j ∈ ri, (m.getD i []).getD j false = true then .error .runtimeError
      else .ok (setMask m di ri) := by
  unfold affadapt setMask
  cases isInt
  · simp only [Bool.false_eq_true, if_false]
    by_cases h : ∃ i ∈ di, ∃ j ∈ ri, (m.getD i []).getD j false = true
    · have : (di.any fun i => ri.any fun j => (m.getD i []).getD j false) = true := by
        simpa using h
      rw [if_pos this, if_pos h]
    · have : ¬ (di.any fun i => ri.any fun j => (m.getD i []).getD j false) = true := by
        simpa using h
      rw [if_neg this, if_neg h]
  · simp

theorem setMask_length (m : Mask) (di ri : List Nat) : (setMask m di ri).length = m.length := by
  simp [setMask]

theorem setMask_row_length (m : Mask) (di ri : List Nat) (i : Nat) :
    ((setMask m di ri).getD i []).length = (m.getD i []).length := by
  simp only [setMask, List.getD_eq_getElem?_getD, List.getElem?_mapIdx]
  cases m[i]? <;> simp

theorem setMask_entry (m : Mask) (di ri : List Nat) {i j : Nat} (hi : i < m.length)
    (hj : j < (m.getD i []).length) :
    ((setMask m di ri).getD i []).getD j false =
      ((m.getD i []).getD j false || (di.contains i && ri.contains j)) := by
  simp only [setMask, List.getD_eq_getElem?_getD, List.getElem?_mapIdx] at hj ⊢
  rw [List.getElem?_eq_getElem hi] at hj ⊢
  simp only [Option.map_some, Option.getD_some, List.getElem?_mapIdx] at hj ⊢
  rw [List.getElem?_eq_getElem hj]
  simp

end RsomeV.Partition
