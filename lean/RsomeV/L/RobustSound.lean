import RsomeV.M.Robust
import RsomeV.L.ConeDualWeak
import Mathlib.Tactic.Linarith
import Mathlib.Tactic.Ring

/-! Helper lemmas for the soundness of the robust counterpart model `RoRows.leToRc`
(`RsomeV/Props/C01.lean`). -/

set_option linter.unusedSectionVars false
set_option linter.unusedSimpArgs false

namespace RsomeV
open Finset

variable {K : Type} [Field K] [LinearOrder K] [IsStrictOrderedRing K]

/-! ### Filtering an initial segment -/

lemma filter_range_split (n k : ℕ) (hk : k ≤ n) (p : ℕ → Bool) (hp : ∀ j < k, p j = true) :
    (List.range n).filter p = List.range k ++ ((List.range (n - k)).map (k + ·)).filter p := by
  have : n = k + (n - k) := by omega
  conv_lhs => rw [this, List.range_add, List.filter_append]
  congr 1
  rw [List.filter_eq_self]
  intro j hj
  exact hp j (List.mem_range.mp hj)

lemma filter_range_getD_lt (n k : ℕ) (hk : k ≤ n) (p : ℕ → Bool) (hp : ∀ j < k, p j = true)
    (j : ℕ) (hj : j < k) : ((List.range n).filter p).getD j 0 = j := by
  rw [filter_range_split n k hk p hp, List.getD_append _ _ _ _ (by simpa using hj),
    List.getD_eq_getElem _ _ (by simpa using hj)]
  simp

lemma filter_range_length_ge (n k : ℕ) (hk : k ≤ n) (p : ℕ → Bool) (hp : ∀ j < k, p j = true) :
    k ≤ ((List.range n).filter p).length := by
  rw [filter_range_split n k hk p hp]
  simp

lemma filter_range_getD_ge (n k : ℕ) (hk : k ≤ n) (p : ℕ → Bool) (hp : ∀ j < k, p j = true)
    (r : ℕ) (hr : k ≤ r) (hr' : r < ((List.range n).filter p).length) :
    k ≤ ((List.range n).filter p).getD r 0 := by
  rw [filter_range_split n k hk p hp] at hr' ⊢
  rw [List.getD_append_right _ _ _ _ (by simpa using hr)]
  have hlen : r - (List.range k).length < (((List.range (n - k)).map (k + ·)).filter p).length := by
    simp only [List.length_append, List.length_range] at hr' ⊢
    omega
  have hm := ConeProg.getD_mem' _ _ hlen 0
  simp only [List.mem_filter, List.mem_map, List.mem_range] at hm
  obtain ⟨⟨a, _, ha⟩, _⟩ := hm
  omega

/-- a sum whose terms vanish beyond `a` -/
lemma sum_range_tail_zero (a b : ℕ) (hab : a ≤ b) (f g : ℕ → K) (h1 : ∀ j < a, f j = g j)
    (h2 : ∀ j, a ≤ j → j < b → f j = 0) : ∑ j ∈ range b, f j = ∑ j ∈ range a, g j := by
  obtain ⟨t, rfl⟩ := Nat.exists_eq_add_of_le hab
  rw [Finset.sum_range_add]
  have h0 : ∑ x ∈ range t, f (a + x) = 0 := by
    apply Finset.sum_eq_zero; intro x hx
    exact h2 _ (by omega) (by have := Finset.mem_range.mp hx; omega)
  rw [h0, add_zero]
  apply Finset.sum_congr rfl; intro j hj
  exact h1 j (Finset.mem_range.mp hj)

/-! ### Block sums over the multiplier columns -/

lemma sum_div_block (ss n : ℕ) (g : ℕ → K) : ∀ m,
    ∑ k ∈ range (m * ss), (if k / ss = n then g k else 0)
      = if n < m then ∑ i ∈ range ss, g (n * ss + i) else 0 := by
  intro m
  induction m with
  | zero => simp
  | succ m ih =>
    rw [Nat.succ_mul, Finset.sum_range_add, ih]
    by_cases h1 : n < m
    · have h2 : n < m + 1 := by omega
      rw [if_pos h1, if_pos h2]
      have : ∑ x ∈ range ss, (if (m * ss + x) / ss = n then g (m * ss + x) else 0) = 0 := by
        apply Finset.sum_eq_zero; intro i hi
        have hi' : i < ss := Finset.mem_range.mp hi
        have : (m * ss + i) / ss = m := by
          rw [Nat.add_comm, Nat.add_mul_div_right _ _ (by omega), Nat.div_eq_of_lt hi']; simp
        rw [this, if_neg (by omega)]
      rw [this, add_zero]
    · rw [if_neg h1]
      by_cases h2 : n = m
      · subst h2
        rw [if_pos (by omega), zero_add]
        apply Finset.sum_congr rfl; intro i hi
        have hi' : i < ss := Finset.mem_range.mp hi
        have : (n * ss + i) / ss = n := by
          rw [Nat.add_comm, Nat.add_mul_div_right _ _ (by omega), Nat.div_eq_of_lt hi']; simp
        rw [if_pos this]
      · rw [if_neg (by omega), zero_add]
        apply Finset.sum_eq_zero; intro i hi
        have hi' : i < ss := Finset.mem_range.mp hi
        have : (m * ss + i) / ss = m := by
          rw [Nat.add_comm, Nat.add_mul_div_right _ _ (by omega), Nat.div_eq_of_lt hi']; simp
        rw [this, if_neg (by omega)]

/-- a row of the fragment: decision part plus the multiplier block of row `n` -/
lemma sum_frag (nd m ss n : ℕ) (hn : n < m) (f g v : ℕ → K) :
    ∑ c ∈ range (nd + m * ss),
      (if c < nd then f c
       else if decide (nd ≤ c ∧ c < nd + m * ss) = true ∧ (c - nd) / ss = n then g ((c - nd) % ss)
       else 0) * v c
    = ∑ d ∈ range nd, f d * v d + ∑ i ∈ range ss, g i * v (nd + n * ss + i) := by
  rw [Finset.sum_range_add]
  congr 1
  · apply Finset.sum_congr rfl; intro d hd
    rw [if_pos (Finset.mem_range.mp hd)]
  · have h := sum_div_block ss n (fun k => g (k % ss) * v (nd + k)) m
    rw [if_pos hn] at h
    have e : ∀ k ∈ range (m * ss),
        (if nd + k < nd then f (nd + k)
          else if decide (nd ≤ nd + k ∧ nd + k < nd + m * ss) = true ∧ (nd + k - nd) / ss = n
            then g ((nd + k - nd) % ss) else 0) * v (nd + k)
        = (if k / ss = n then g (k % ss) * v (nd + k) else 0) := by
      intro k hk
      have hk' : k < m * ss := Finset.mem_range.mp hk
      rw [if_neg (by omega), Nat.add_sub_cancel_left]
      have : decide (nd ≤ nd + k ∧ nd + k < nd + m * ss) = true := by
        apply decide_eq_true; omega
      by_cases h2 : k / ss = n
      · rw [if_pos ⟨this, h2⟩, if_pos h2]
      · rw [if_neg (fun hh => h2 hh.2), if_neg h2, zero_mul]
    rw [Finset.sum_congr rfl e, h]
    apply Finset.sum_congr rfl; intro i hi
    have hi' : i < ss := Finset.mem_range.mp hi
    have : (n * ss + i) % ss = i := by
      rw [Nat.add_comm, Nat.add_mul_mod_self_right, Nat.mod_eq_of_lt hi']
    simp only [this, add_assoc]

namespace ConeProg

/-! ### Dependence of `coneDual` on the cost vector -/

/-- the same conic program with another cost vector -/
def withCost (P : ConeProg K) (c' : ℕ → K) : ConeProg K :=
  { P with lp := { P.lp with c := c' } }

/-- primal column carried by row `r` of the dual -/
def rowIdx (P : ConeProg K) (r : ℕ) : ℕ := if P.rowsRemoved then P.linIdx.getD r 0 else r

/-- right-hand side of the conic dual for the cost `c'` -/
def dualRhs (P : ConeProg K) (c' : ℕ → K) (r : ℕ) : K :=
  if P.lp.isNeg (P.rowIdx r) then - c' (P.rowIdx r) else c' (P.rowIdx r)

lemma withCost_compactOk (P : ConeProg K) (c' : ℕ → K) : (P.withCost c').compactOk = P.compactOk := rfl
lemma withCost_rowsRemoved (P : ConeProg K) (c' : ℕ → K) : (P.withCost c').rowsRemoved = P.rowsRemoved := rfl
lemma withCost_eye (P : ConeProg K) (c' : ℕ → K) : (P.withCost c').eye = P.eye := rfl

/-- `coneDual` depends on the cost only through the right-hand side `lp.b` -/
theorem coneDual_withCost (P : ConeProg K) (c' : ℕ → K) :
    (P.withCost c').coneDual =
      { P.coneDual with lp := { P.coneDual.lp with b := P.dualRhs c' } } := by
  have hc : (P.withCost c').compactOk = P.compactOk := rfl
  have hqm : (P.withCost c').qmat = P.qmat := rfl
  have hxm : (P.withCost c').xmat = P.xmat := rfl
  by_cases hx : P.xmat.isEmpty = true <;> by_cases hq : P.qmat.isEmpty = true <;>
    by_cases hok : P.compactOk = true <;>
    · unfold coneDual socDual
      simp only [hxm, hqm, hc, hx, hq, hok, if_true, if_false]
      unfold dualRhs rowIdx rowsRemoved
      simp only [hq, hok]
      rfl


lemma coneDual_b (P : ConeProg K) : P.coneDual.lp.b = P.dualRhs P.lp.c := by
  have h := congrArg (fun S : ConeProg K => S.lp.b) (coneDual_withCost P P.lp.c)
  exact h

lemma coneDual_nr (P : ConeProg K) :
    P.coneDual.lp.nr = if P.rowsRemoved then P.linIdx.length else P.lp.nc := by
  rw [← socDual_nr]
  unfold coneDual
  split_ifs <;> rfl

lemma coneDual_nr_le (P : ConeProg K) : P.coneDual.lp.nr ≤ P.lp.nc := by
  rw [coneDual_nr]
  split_ifs
  · unfold linIdx
    calc ((List.range P.lp.nc).filter fun j => !(P.eye.contains j)).length
        ≤ (List.range P.lp.nc).length := List.length_filter_le _ _
      _ = P.lp.nc := List.length_range
  · exact le_refl _

lemma coneDual_xlen (P : ConeProg K) : ∀ e ∈ P.coneDual.xmat, e.length = 3 := by
  intro e he
  by_cases hx : P.xmat.isEmpty = true
  · have : P.coneDual = P.socDual := by unfold coneDual; rw [if_pos hx]
    rw [this, socDual_xmat] at he
    simp at he
  · rw [coneDual_of_xmat P hx] at he
    simp only [List.mem_map] at he
    obtain ⟨k, _, rfl⟩ := he
    rfl

lemma lpDual_ub (P : LinProg K) (i : ℕ) : P.dual.ub i = none ∨ P.dual.ub i = some 0 := by
  show (if P.augEq i then none else some 0) = none ∨ (if P.augEq i then none else some (0:K)) = some 0
  by_cases h : P.augEq i = true
  · left; rw [if_pos h]
  · right; rw [if_neg h]

lemma socDual_cases (P : ConeProg K) :
    P.socDual = { lp := P.lp.dual, st := fun j i => P.augSt i j, qmat := [], xmat := [] } ∨
    P.socDual = P.socDual1 ∨ P.socDual = P.socDual2 := by
  unfold socDual
  split_ifs
  · exact Or.inl rfl
  · exact Or.inr (Or.inl rfl)
  · exact Or.inr (Or.inr rfl)

lemma socDual_ub (P : ConeProg K) (i : ℕ) :
    P.socDual.lp.ub i = none ∨ P.socDual.lp.ub i = some 0 := by
  rcases socDual_cases P with h | h | h <;> rw [h]
  · exact lpDual_ub P.lp i
  · show (if P.headCols.contains i then (match P.lp.dual.lb i with | none => none | some l => some (-l))
        else P.lp.dual.ub i) = none ∨ (if P.headCols.contains i then
          (match P.lp.dual.lb i with | none => none | some l => some (-l)) else P.lp.dual.ub i) = some 0
    split_ifs
    · left; rfl
    · exact lpDual_ub P.lp i
  · show (if i < P.lp.dual.nc then P.lp.dual.ub i else none) = none ∨
      (if i < P.lp.dual.nc then P.lp.dual.ub i else none) = some 0
    split_ifs
    · exact lpDual_ub P.lp i
    · left; rfl

lemma socDual_lb (P : ConeProg K) (i : ℕ) :
    P.socDual.lp.lb i = none ∨ P.socDual.lp.lb i = some 0 := by
  rcases socDual_cases P with h | h | h <;> rw [h]
  · left; rfl
  · show (if P.headCols.contains i then some 0 else P.lp.dual.lb i) = none ∨
      (if P.headCols.contains i then some (0:K) else P.lp.dual.lb i) = some 0
    split_ifs
    · right; rfl
    · left; rfl
  · show (if i < P.lp.dual.nc then P.lp.dual.lb i else P.extraLb (i - P.lp.dual.nc)) = none ∨
      (if i < P.lp.dual.nc then P.lp.dual.lb i else P.extraLb (i - P.lp.dual.nc)) = some 0
    split_ifs
    · left; rfl
    · unfold extraLb; split_ifs
      · right; rfl
      · left; rfl

lemma coneDual_ub (P : ConeProg K) (i : ℕ) :
    P.coneDual.lp.ub i = none ∨ P.coneDual.lp.ub i = some 0 := by
  have := socDual_ub P i
  unfold coneDual
  split_ifs
  · exact this
  · show (if i < P.socDual.lp.nc then P.socDual.lp.ub i else none) = none ∨
      (if i < P.socDual.lp.nc then P.socDual.lp.ub i else none) = some 0
    split_ifs
    · exact this
    · simp

lemma coneDual_lb (P : ConeProg K) (i : ℕ) :
    P.coneDual.lp.lb i = none ∨ P.coneDual.lp.lb i = some 0 := by
  have := socDual_lb P i
  unfold coneDual
  split_ifs
  · exact this
  · show (if i < P.socDual.lp.nc then P.socDual.lp.lb i else none) = none ∨
      (if i < P.socDual.lp.nc then P.socDual.lp.lb i else none) = some 0
    split_ifs
    · exact this
    · simp


/-! ### Row layout of the dual when the cones sit behind the first `k` columns -/

section layout
variable (P : ConeProg K) (k : ℕ) (hk : k ≤ P.lp.nc) (hq : ∀ q ∈ P.qmat, ∀ j ∈ q, k ≤ j)
include hk hq

lemma linIdx_pred : ∀ j < k, (!(P.eye.contains j)) = true := by
  intro j hj
  simp only [Bool.not_eq_true', List.contains_eq_mem, decide_eq_false_iff_not, eye, List.mem_flatten]
  rintro ⟨q, hq', hjq⟩
  have := hq q hq' j hjq
  omega

lemma rowIdx_lt (j : ℕ) (hj : j < k) : P.rowIdx j = j := by
  unfold rowIdx
  split_ifs
  · exact filter_range_getD_lt P.lp.nc k hk _ (linIdx_pred P k hk hq) j hj
  · rfl

lemma le_coneDual_nr : k ≤ P.coneDual.lp.nr := by
  rw [coneDual_nr]
  split_ifs
  · exact filter_range_length_ge P.lp.nc k hk _ (linIdx_pred P k hk hq)
  · exact hk

lemma rowIdx_ge (r : ℕ) (hr : k ≤ r) (hr' : r < P.coneDual.lp.nr) : k ≤ P.rowIdx r := by
  rw [coneDual_nr] at hr'
  unfold rowIdx
  split_ifs with h
  · rw [if_pos h] at hr'
    exact filter_range_getD_ge P.lp.nc k hk _ (linIdx_pred P k hk hq) r hr hr'
  · exact hr

end layout

end ConeProg
lemma socMem_map (v : ℕ → K) (f : ℕ → ℕ) (q : List ℕ) :
    socMem v (q.map f) ↔ socMem (fun i => v (f i)) q := by
  cases q with
  | nil => exact Iff.rfl
  | cons h t =>
    simp only [List.map_cons, socMem, List.map_map]
    exact Iff.rfl

/-! ### Decoding the rows of `leToRc` -/

namespace RoRows

variable (R : RoRows K) (S : ConeProg K)

lemma leToRc_nc : (R.leToRc S).prog.lp.nc = R.nd + R.m * S.lp.nc := rfl
lemma leToRc_nr : (R.leToRc S).prog.lp.nr
    = R.m + R.m * R.numRand S + R.m * (S.lp.nr - R.numRand S) + R.n4 S := rfl

/-- row (1) of the counterpart -/
lemma leToRc_row1 (n : ℕ) (hn : n < R.m) (v : ℕ → K) :
    (R.leToRc S).prog.lp.row n v
      = ∑ d ∈ range R.nd, R.al n d * v d + ∑ i ∈ range S.lp.nc, S.lp.c i * v (R.ycol S n i) := by
  simp only [leToRc, LinProg.row, hn, if_true, ycol]
  exact sum_frag R.nd R.m S.lp.nc n hn _ _ v

lemma leToRc_b1 (n : ℕ) (hn : n < R.m) : (R.leToRc S).prog.lp.b n = - R.ac n := by
  simp only [leToRc, hn, if_true]

lemma leToRc_eq1 (n : ℕ) (hn : n < R.m) : (R.leToRc S).prog.lp.eq n = false := by
  simp only [leToRc, hn, if_true]

lemma idx2 (m nr n j : ℕ) (hn : n < m) (hj : j < nr) :
    ¬ (m + (n * nr + j) < m) ∧ m + (n * nr + j) < m + m * nr ∧
    (m + (n * nr + j) - m) / nr = n ∧ (m + (n * nr + j) - m) % nr = j := by
  have h1 : n * nr + j < m * nr := by
    have : (n + 1) * nr ≤ m * nr := Nat.mul_le_mul_right _ hn
    rw [Nat.succ_mul] at this
    omega
  refine ⟨by omega, by omega, ?_, ?_⟩
  · rw [Nat.add_sub_cancel_left, Nat.add_comm, Nat.add_mul_div_right _ _ (by omega),
      Nat.div_eq_of_lt hj]; simp
  · rw [Nat.add_sub_cancel_left, Nat.add_comm, Nat.add_mul_mod_self_right, Nat.mod_eq_of_lt hj]

/-- row (2) of the counterpart -/
lemma leToRc_row2 (n : ℕ) (hn : n < R.m) (j : ℕ) (hj : j < R.numRand S) (v : ℕ → K) :
    (R.leToRc S).prog.lp.row (R.m + (n * R.numRand S + j)) v
      = ∑ d ∈ range R.nd, R.Rl n j d * S.lp.b j * v d
        + ∑ i ∈ range S.lp.nc, S.lp.a j i * v (R.ycol S n i) := by
  obtain ⟨h1, h2, h3, h4⟩ := idx2 R.m (R.numRand S) n j hn hj
  simp only [leToRc, LinProg.row, h1, h2, h3, h4, if_true, if_false, ycol]
  exact sum_frag R.nd R.m S.lp.nc n hn _ _ v

lemma leToRc_b2 (n : ℕ) (hn : n < R.m) (j : ℕ) (hj : j < R.numRand S) :
    (R.leToRc S).prog.lp.b (R.m + (n * R.numRand S + j)) = - (R.Rc n j * S.lp.b j) := by
  obtain ⟨h1, h2, h3, h4⟩ := idx2 R.m (R.numRand S) n j hn hj
  simp only [leToRc, h1, h2, h3, h4, if_true, if_false]

lemma leToRc_eq2 (n : ℕ) (hn : n < R.m) (j : ℕ) (hj : j < R.numRand S) :
    (R.leToRc S).prog.lp.eq (R.m + (n * R.numRand S + j)) = S.lp.eq j := by
  obtain ⟨h1, h2, h3, h4⟩ := idx2 R.m (R.numRand S) n j hn hj
  simp only [leToRc, h1, h2, h3, h4, if_true, if_false]

lemma idx3 (m n2 w n k : ℕ) (hn : n < m) (hk : k < w) :
    ¬ (m + n2 + (n * w + k) < m) ∧ ¬ (m + n2 + (n * w + k) < m + n2) ∧
    m + n2 + (n * w + k) < m + n2 + m * w ∧
    (m + n2 + (n * w + k) - m - n2) / w = n ∧ (m + n2 + (n * w + k) - m - n2) % w = k := by
  have h1 : n * w + k < m * w := by
    have : (n + 1) * w ≤ m * w := Nat.mul_le_mul_right _ hn
    rw [Nat.succ_mul] at this
    omega
  have e : m + n2 + (n * w + k) - m - n2 = n * w + k := by omega
  refine ⟨by omega, by omega, by omega, ?_, ?_⟩
  · rw [e, Nat.add_comm, Nat.add_mul_div_right _ _ (by omega), Nat.div_eq_of_lt hk]; simp
  · rw [e, Nat.add_comm, Nat.add_mul_mod_self_right, Nat.mod_eq_of_lt hk]

/-- row (3) of the counterpart -/
lemma leToRc_row3 (n : ℕ) (hn : n < R.m) (k : ℕ) (hk : k < S.lp.nr - R.numRand S) (v : ℕ → K) :
    (R.leToRc S).prog.lp.row (R.m + R.m * R.numRand S + (n * (S.lp.nr - R.numRand S) + k)) v
      = ∑ i ∈ range S.lp.nc, S.lp.a (R.numRand S + k) i * v (R.ycol S n i) := by
  obtain ⟨h1, h2, h5, h3, h4⟩ := idx3 R.m (R.m * R.numRand S) (S.lp.nr - R.numRand S) n k hn hk
  simp only [leToRc, LinProg.row, h1, h2, h3, h4, h5, if_true, if_false, ycol]
  rw [sum_frag R.nd R.m S.lp.nc n hn (fun _ => 0) _ v]
  simp

lemma leToRc_b3 (n : ℕ) (hn : n < R.m) (k : ℕ) (hk : k < S.lp.nr - R.numRand S) :
    (R.leToRc S).prog.lp.b (R.m + R.m * R.numRand S + (n * (S.lp.nr - R.numRand S) + k)) = 0 := by
  obtain ⟨h1, h2, h5, h3, h4⟩ := idx3 R.m (R.m * R.numRand S) (S.lp.nr - R.numRand S) n k hn hk
  simp only [leToRc, h1, h2, h3, h4, h5, if_true, if_false]

lemma leToRc_eq3 (n : ℕ) (hn : n < R.m) (k : ℕ) (hk : k < S.lp.nr - R.numRand S) :
    (R.leToRc S).prog.lp.eq (R.m + R.m * R.numRand S + (n * (S.lp.nr - R.numRand S) + k))
      = S.lp.eq (R.numRand S + k) := by
  obtain ⟨h1, h2, h5, h3, h4⟩ := idx3 R.m (R.m * R.numRand S) (S.lp.nr - R.numRand S) n k hn hk
  simp only [leToRc, h1, h2, h3, h4, h5, if_true, if_false]

/-! ### Block (4): `raffine[:, num_rand:] == 0` -/

/-- the coefficient of `z_j` in row `n` at the decision `v` -/
def coef (n j : ℕ) (v : ℕ → K) : K := (∑ d ∈ range R.nd, R.Rl n j d * v d) + R.Rc n j

/-- when every random component of the rows is a row of the support's dual form, block (4) is
absent -/
lemma n4_eq_zero_of_le (h : R.nz ≤ S.lp.nr) : R.n4 S = 0 := by
  have h0 : R.nz - R.numRand S = 0 := by unfold numRand; omega
  unfold n4
  rw [h0]
  split_ifs <;> simp

lemma latePresent_iff : R.latePresent S = true ↔
    ∃ n < R.m, ∃ j, R.numRand S ≤ j ∧ j < R.nz ∧
      (R.Rc n j ≠ 0 ∨ ∃ d < R.nd, R.Rl n j d ≠ 0) := by
  unfold latePresent
  simp only [List.any_eq_true, List.mem_range, Bool.or_eq_true, decide_eq_true_eq]
  constructor
  · rintro ⟨n, hn, jj, hjj, h⟩
    exact ⟨n, hn, R.numRand S + jj, by omega, by omega, h⟩
  · rintro ⟨n, hn, j, h1, h2, h⟩
    refine ⟨n, hn, j - R.numRand S, by omega, ?_⟩
    rw [show R.numRand S + (j - R.numRand S) = j by omega]
    exact h

/-- block (4) is absent although `nz > num_rand` only if the late coefficients are structurally
zero -/
lemma late_struct_zero (h : R.latePresent S = false) (n : ℕ) (hn : n < R.m) (j : ℕ)
    (h1 : R.numRand S ≤ j) (h2 : j < R.nz) :
    R.Rc n j = 0 ∧ ∀ d < R.nd, R.Rl n j d = 0 := by
  have h' : ¬ (R.latePresent S = true) := by rw [h]; simp
  rw [latePresent_iff] at h'
  refine ⟨?_, ?_⟩
  · by_contra hc
    exact h' ⟨n, hn, j, h1, h2, Or.inl hc⟩
  · intro d hd
    by_contra hc
    exact h' ⟨n, hn, j, h1, h2, Or.inr ⟨d, hd, hc⟩⟩

lemma n4_present (h : R.latePresent S = true) : R.n4 S = R.m * (R.nz - R.numRand S) := by
  unfold n4; rw [if_pos h]

lemma idx4 (m n2 n3 w n k : ℕ) (hn : n < m) (hk : k < w) :
    ¬ (m + n2 + n3 + (n * w + k) < m) ∧ ¬ (m + n2 + n3 + (n * w + k) < m + n2) ∧
    ¬ (m + n2 + n3 + (n * w + k) < m + n2 + n3) ∧
    m + n2 + n3 + (n * w + k) < m + n2 + n3 + m * w ∧
    (m + n2 + n3 + (n * w + k) - m - n2 - n3) / w = n ∧
    (m + n2 + n3 + (n * w + k) - m - n2 - n3) % w = k := by
  have h1 : n * w + k < m * w := by
    have : (n + 1) * w ≤ m * w := Nat.mul_le_mul_right _ hn
    rw [Nat.succ_mul] at this
    omega
  have e : m + n2 + n3 + (n * w + k) - m - n2 - n3 = n * w + k := by omega
  refine ⟨by omega, by omega, by omega, by omega, ?_, ?_⟩
  · rw [e, Nat.add_comm, Nat.add_mul_div_right _ _ (by omega), Nat.div_eq_of_lt hk]; simp
  · rw [e, Nat.add_comm, Nat.add_mul_mod_self_right, Nat.mod_eq_of_lt hk]

/-- row (4) of the counterpart (position `(n, k)` of the flattened block, random component
`num_rand + k`) -/
lemma leToRc_row4 (n : ℕ) (hn : n < R.m) (k : ℕ) (hk : k < R.nz - R.numRand S) (v : ℕ → K) :
    (R.leToRc S).prog.lp.row
        (R.m + R.m * R.numRand S + R.m * (S.lp.nr - R.numRand S) + (n * (R.nz - R.numRand S) + k)) v
      = ∑ d ∈ range R.nd, R.Rl n (R.numRand S + k) d * v d := by
  obtain ⟨h1, h2, h3, _, h4, h5⟩ := idx4 R.m (R.m * R.numRand S) (R.m * (S.lp.nr - R.numRand S))
    (R.nz - R.numRand S) n k hn hk
  simp only [leToRc, LinProg.row, h1, h2, h3, h4, h5, if_true, if_false]
  rw [Finset.sum_range_add]
  have hz : ∑ x ∈ range (R.m * S.lp.nc),
      (if R.nd + x < R.nd then R.Rl n (R.numRand S + k) (R.nd + x) else 0) * v (R.nd + x) = 0 := by
    apply Finset.sum_eq_zero; intro x _
    rw [if_neg (by omega), zero_mul]
  rw [hz, add_zero]
  apply Finset.sum_congr rfl; intro d hd
  rw [if_pos (Finset.mem_range.mp hd)]

lemma leToRc_b4 (n : ℕ) (hn : n < R.m) (k : ℕ) (hk : k < R.nz - R.numRand S) :
    (R.leToRc S).prog.lp.b
        (R.m + R.m * R.numRand S + R.m * (S.lp.nr - R.numRand S) + (n * (R.nz - R.numRand S) + k))
      = - R.Rc n (R.numRand S + k) := by
  obtain ⟨h1, h2, h3, _, h4, h5⟩ := idx4 R.m (R.m * R.numRand S) (R.m * (S.lp.nr - R.numRand S))
    (R.nz - R.numRand S) n k hn hk
  simp only [leToRc, h1, h2, h3, h4, h5, if_true, if_false]

lemma leToRc_eq4 (n : ℕ) (hn : n < R.m) (k : ℕ) (hk : k < R.nz - R.numRand S) :
    (R.leToRc S).prog.lp.eq
        (R.m + R.m * R.numRand S + R.m * (S.lp.nr - R.numRand S) + (n * (R.nz - R.numRand S) + k))
      = true := by
  obtain ⟨h1, h2, h3, _, h4, h5⟩ := idx4 R.m (R.m * R.numRand S) (R.m * (S.lp.nr - R.numRand S))
    (R.nz - R.numRand S) n k hn hk
  simp only [leToRc, h1, h2, h3, h4, h5, if_true, if_false]

/-- **Block (4) forces the late coefficients to vanish**: at a point of the fragment the
coefficient of every random component `num_rand ≤ j < nz` of every row is zero — by the equality
rows of block (4) when the block is present, and structurally when it is absent. -/
theorem leToRc_late_zero (E : K → K → K → Prop) (v : ℕ → K) (hv : (R.leToRc S).prog.Feas E v)
    (n : ℕ) (hn : n < R.m) (j : ℕ) (h1 : R.numRand S ≤ j) (h2 : j < R.nz) :
    R.coef n j v = 0 := by
  unfold coef
  by_cases hp : R.latePresent S = true
  · have hk : j - R.numRand S < R.nz - R.numRand S := by omega
    obtain ⟨_, _, _, hlt, _, _⟩ := idx4 R.m (R.m * R.numRand S) (R.m * (S.lp.nr - R.numRand S))
      (R.nz - R.numRand S) n _ hn hk
    have hr := hv.lin.rows _ (by rw [leToRc_nr, n4_present R S hp]; exact hlt)
    rw [leToRc_row4 R S n hn _ hk, leToRc_b4 R S n hn _ hk, leToRc_eq4 R S n hn _ hk,
      show R.numRand S + (j - R.numRand S) = j by omega] at hr
    simp only [if_true] at hr
    rw [hr]; ring
  · have hp' : R.latePresent S = false := by simpa using hp
    obtain ⟨hc, hl⟩ := R.late_struct_zero S hp' n hn j h1 h2
    rw [hc, add_zero]
    apply Finset.sum_eq_zero; intro d hd
    rw [hl d (Finset.mem_range.mp hd), zero_mul]

/-! ### Bounds, cones, and the extraction of a dual-feasible point -/

lemma ycol_lt (n : ℕ) (hn : n < R.m) (i : ℕ) (hi : i < S.lp.nc) :
    R.ycol S n i < (R.leToRc S).prog.lp.nc := by
  show R.nd + n * S.lp.nc + i < R.nd + R.m * S.lp.nc
  have : (n + 1) * S.lp.nc ≤ R.m * S.lp.nc := Nat.mul_le_mul_right _ hn
  rw [Nat.succ_mul] at this
  omega

lemma ycol_dec (n : ℕ) (hn : n < R.m) (i : ℕ) (hi : i < S.lp.nc) :
    decide (R.nd ≤ R.ycol S n i ∧ R.ycol S n i < R.nd + R.m * S.lp.nc) = true ∧
    (R.ycol S n i - R.nd) % S.lp.nc = i := by
  have h := R.ycol_lt S n hn i hi
  refine ⟨decide_eq_true ⟨by unfold ycol; omega, h⟩, ?_⟩
  have : R.ycol S n i - R.nd = i + n * S.lp.nc := by unfold ycol; omega
  rw [this, Nat.add_mul_mod_self_right, Nat.mod_eq_of_lt hi]

lemma leToRc_ub (n : ℕ) (hn : n < R.m) (i : ℕ) (hi : i < S.lp.nc) :
    (R.leToRc S).prog.lp.ub (R.ycol S n i) = if S.lp.ub i = some 0 then some 0 else none := by
  obtain ⟨h1, h2⟩ := R.ycol_dec S n hn i hi
  simp only [leToRc, h1, h2, true_and]

lemma leToRc_lb (n : ℕ) (hn : n < R.m) (i : ℕ) (hi : i < S.lp.nc) :
    (R.leToRc S).prog.lp.lb (R.ycol S n i) = if S.lp.lb i = some 0 then some 0 else none := by
  obtain ⟨h1, h2⟩ := R.ycol_dec S n hn i hi
  simp only [leToRc, h1, h2, true_and]

lemma leToRc_qmem (n : ℕ) (hn : n < R.m) (q : List ℕ) (hq : q ∈ S.qmat) :
    q.map (fun i => R.ycol S n i) ∈ (R.leToRc S).prog.qmat := by
  simp only [leToRc, List.mem_flatMap, List.mem_range, List.mem_map]
  exact ⟨n, hn, q, hq, rfl⟩

lemma leToRc_xmem (n : ℕ) (hn : n < R.m) (e : List ℕ) (he : e ∈ S.xmat) :
    e.map (fun i => R.ycol S n i) ∈ (R.leToRc S).prog.xmat := by
  simp only [leToRc, List.mem_flatMap, List.mem_range, List.mem_map]
  exact ⟨n, hn, e, he, rfl⟩

/-- the multipliers of row `n` are feasible for the support with the right-hand side of the
first `numRand` rows replaced by `-(coefficient of z_j)·b_j` and of the other rows by `0` -/
theorem leToRc_extract (E : K → K → K → Prop)
    (hub : ∀ i, S.lp.ub i = none ∨ S.lp.ub i = some 0)
    (hlb : ∀ i, S.lp.lb i = none ∨ S.lp.lb i = some 0)
    (hxlen : ∀ e ∈ S.xmat, e.length = 3)
    (v : ℕ → K) (hv : (R.leToRc S).prog.Feas E v) (n : ℕ) (hn : n < R.m)
    (b' : ℕ → K)
    (hb' : ∀ j < S.lp.nr, b' j = if j < R.numRand S then - R.coef n j v * S.lp.b j else 0) :
    ConeProg.Feas { S with lp := { S.lp with b := b' } } E (fun i => v (R.ycol S n i)) := by
  refine ⟨⟨?_, ?_, ?_⟩, ?_, ?_⟩
  · intro j hj
    have hj' : j < S.lp.nr := hj
    show if S.lp.eq j then S.lp.row j (fun i => v (R.ycol S n i)) = b' j
      else S.lp.row j (fun i => v (R.ycol S n i)) ≤ b' j
    rw [hb' j hj']
    have hdist : ∑ d ∈ range R.nd, R.Rl n j d * S.lp.b j * v d
        = (∑ d ∈ range R.nd, R.Rl n j d * v d) * S.lp.b j := by
      rw [Finset.sum_mul]; apply Finset.sum_congr rfl; intro d _; ring
    by_cases h2 : j < R.numRand S
    · rw [if_pos h2]
      obtain ⟨_, hlt, _, _⟩ := idx2 R.m (R.numRand S) n j hn h2
      have hr := hv.lin.rows (R.m + (n * R.numRand S + j)) (by rw [leToRc_nr]; omega)
      rw [leToRc_row2 R S n hn j h2, leToRc_b2 R S n hn j h2, leToRc_eq2 R S n hn j h2, hdist] at hr
      unfold coef
      show if S.lp.eq j then (∑ i ∈ range S.lp.nc, S.lp.a j i * v (R.ycol S n i)) = _ else
        (∑ i ∈ range S.lp.nc, S.lp.a j i * v (R.ycol S n i)) ≤ _
      split_ifs at hr ⊢ <;> linarith
    · rw [if_neg h2]
      have hk : j - R.numRand S < S.lp.nr - R.numRand S := by omega
      obtain ⟨_, _, hlt, _, _⟩ := idx3 R.m (R.m * R.numRand S) (S.lp.nr - R.numRand S) n _ hn hk
      have hr := hv.lin.rows _ (by rw [leToRc_nr]; exact Nat.lt_add_right _ hlt)
      rw [leToRc_row3 R S n hn _ hk, leToRc_b3 R S n hn _ hk, leToRc_eq3 R S n hn _ hk,
        show R.numRand S + (j - R.numRand S) = j by omega] at hr
      exact hr
  · intro i hi
    have hi' : i < S.lp.nc := hi
    have h := hv.lin.ubs _ (R.ycol_lt S n hn i hi')
    rw [leToRc_ub R S n hn i hi'] at h
    show LinProg.leUb (v (R.ycol S n i)) (S.lp.ub i)
    rcases hub i with h0 | h0
    · rw [h0]; trivial
    · rw [h0] at h ⊢; simpa using h
  · intro i hi
    have hi' : i < S.lp.nc := hi
    have h := hv.lin.lbs _ (R.ycol_lt S n hn i hi')
    rw [leToRc_lb R S n hn i hi'] at h
    show LinProg.geLb (v (R.ycol S n i)) (S.lp.lb i)
    rcases hlb i with h0 | h0
    · rw [h0]; trivial
    · rw [h0] at h ⊢; simpa using h
  · intro q hq
    have hq' : q ∈ S.qmat := hq
    exact (socMem_map v _ q).mp (hv.soc _ (R.leToRc_qmem S n hn q hq'))
  · intro e he
    have he' : e ∈ S.xmat := he
    have h := hv.exp _ (R.leToRc_xmem S n hn e he')
    have hl := hxlen e he'
    have hg : ∀ p < 3, (e.map (fun i => R.ycol S n i)).getD p 0 = R.ycol S n (e.getD p 0) := by
      intro p hp
      rw [List.getD_eq_getElem _ _ (by simp; omega), List.getD_eq_getElem _ _ (by omega)]
      simp
    rw [hg 0 (by omega), hg 1 (by omega), hg 2 (by omega)] at h
    exact h

end RoRows
end RsomeV
