import RsomeV.M.LpDual
import Mathlib.Tactic.Linarith
import Mathlib.Tactic.Ring

/-! Weak duality for the model of `lp.Model.do_math(primal=False)`: every bound pattern. -/

namespace RsomeV
open Finset
variable {K : Type} [Field K] [LinearOrder K] [IsStrictOrderedRing K]


namespace LinProg

def augRow (P : LinProg K) (i : ℕ) (x : ℕ → K) : K := ∑ j ∈ range P.nc, P.augA i j * x j

lemma getD_filter_range {n : ℕ} (p : ℕ → Bool) (t : ℕ)
    (ht : t < ((List.range n).filter p).length) :
    ((List.range n).filter p).getD t 0 < n ∧ p (((List.range n).filter p).getD t 0) = true := by
  have hmem : ((List.range n).filter p).getD t 0 ∈ (List.range n).filter p := by
    rw [← List.getElem_eq_getD (h := ht) 0]; exact List.getElem_mem ht
  rw [List.mem_filter, List.mem_range] at hmem
  exact hmem

lemma sum_single_mul (n j0 : ℕ) (h : j0 < n) (s : K) (x : ℕ → K) :
    ∑ j ∈ range n, (if j = j0 then s else 0) * x j = s * x j0 := by
  rw [Finset.sum_eq_single j0]
  · simp
  · intro j _ hj; simp [hj]
  · intro hn; exact absurd (Finset.mem_range.mpr h) hn

/-- every augmented row is a valid constraint of the primal feasible set, with its sense -/
theorem augRow_valid (P : LinProg K) (x : ℕ → K) (hx : P.Feas x) (i : ℕ) (hi : i < P.augNr) :
    if P.augEq i then P.augRow i x = P.augB i else P.augRow i x ≤ P.augB i := by
  unfold augNr at hi
  by_cases h1 : i < P.nr
  · have := hx.rows i h1
    simpa [augEq, augRow, augA, augB, h1, row] using this
  by_cases h2 : i < P.nr + P.idxUb.length
  · have ht : i - P.nr < P.idxUb.length := by omega
    obtain ⟨hj, hp⟩ := getD_filter_range _ _ ht
    set j0 := P.idxUb.getD (i - P.nr) 0 with hj0
    have hj' : j0 < P.nc := hj
    have hsum : P.augRow i x = x j0 := by
      simp only [augRow, augA, h1, h2, if_true, if_false]
      rw [sum_single_mul _ _ hj']; ring
    have hub := hx.ubs j0 hj'
    have hlt : i < P.nr + P.idxUb.length + P.idxLb.length := by omega
    simp only [augEq, h1, hlt, if_true, if_false, hsum, augB, h2]
    change (match P.ub j0 with | some u => decide (u ≠ 0) | none => false) = true at hp
    cases hu : P.ub j0 with
    | none => simp [hu] at hp
    | some u => simpa [leUb, hu] using hub
  by_cases h3 : i < P.nr + P.idxUb.length + P.idxLb.length
  · have ht : i - P.nr - P.idxUb.length < P.idxLb.length := by omega
    obtain ⟨hj, hp⟩ := getD_filter_range _ _ ht
    set j0 := P.idxLb.getD (i - P.nr - P.idxUb.length) 0 with hj0
    have hj' : j0 < P.nc := hj
    have hsum : P.augRow i x = - x j0 := by
      simp only [augRow, augA, h1, h2, h3, if_true, if_false]
      rw [sum_single_mul _ _ hj']; ring
    have hlb := hx.lbs j0 hj'
    simp only [augEq, h1, h3, if_true, if_false, hsum, augB, h2]
    change (match P.lb j0 with | some l => decide (l ≠ 0) | none => false) = true at hp
    cases hl : P.lb j0 with
    | none => simp [hl] at hp
    | some l =>
      have : l ≤ x j0 := by simpa [geLb, hl] using hlb
      simpa using this
  · have ht : i - P.nr - P.idxUb.length - P.idxLb.length < P.idxFx.length := by omega
    obtain ⟨hj, hp⟩ := getD_filter_range _ _ ht
    set j0 := P.idxFx.getD (i - P.nr - P.idxUb.length - P.idxLb.length) 0 with hj0
    have hj' : j0 < P.nc := hj
    have hsum : P.augRow i x = - x j0 := by
      simp only [augRow, augA, h1, h2, h3, if_true, if_false]
      rw [sum_single_mul _ _ hj']; ring
    have hlb := hx.lbs j0 hj'
    have hub := hx.ubs j0 hj'
    simp only [augEq, h1, h3, if_true, if_false, hsum, augB, h2]
    change (match P.lb j0, P.ub j0 with
      | some l, some u => decide (l = u) | _, _ => false) = true at hp
    cases hl : P.lb j0 with
    | none => simp [hl] at hp
    | some l =>
      cases hu : P.ub j0 with
      | none => simp [hl, hu] at hp
      | some u =>
        have hlu : l = u := by simpa [hl, hu] using hp
        have h1' : l ≤ x j0 := by simpa [geLb, hl] using hlb
        have h2' : x j0 ≤ u := by simpa [leUb, hu] using hub
        have : x j0 = l := le_antisymm (hlu ▸ h2') h1'
        simp [this]

/-- Weak duality for the model of `do_math(primal=False)`: every bound pattern. -/
theorem dual_weak (P : LinProg K) (x y : ℕ → K) (hx : P.Feas x) (hy : P.dual.Feas y) :
    ∑ i ∈ range P.augNr, P.augB i * y i ≤ P.obj x := by
  -- (a) multipliers against rows
  have ha : ∑ i ∈ range P.augNr, P.augB i * y i ≤ ∑ i ∈ range P.augNr, y i * P.augRow i x := by
    apply Finset.sum_le_sum
    intro i hi
    have hi' : i < P.augNr := Finset.mem_range.mp hi
    have hv := augRow_valid P x hx i hi'
    by_cases he : P.augEq i
    · simp only [he, if_true] at hv
      rw [hv, mul_comm]
    · simp only [he] at hv
      have hyub := hy.ubs i (by simpa [dual] using hi')
      have hyi : y i ≤ 0 := by simpa [dual, he, leUb] using hyub
      have hv' : P.augRow i x ≤ P.augB i := by simpa using hv
      calc P.augB i * y i = y i * P.augB i := mul_comm _ _
        _ ≤ y i * P.augRow i x := mul_le_mul_of_nonpos_left hv' hyi
  -- (b) exchange the sums
  have hb : ∑ i ∈ range P.augNr, y i * P.augRow i x =
      ∑ j ∈ range P.nc, (∑ i ∈ range P.augNr, P.augA i j * y i) * x j := by
    simp only [augRow, Finset.mul_sum, Finset.sum_mul]
    rw [Finset.sum_comm]
    apply Finset.sum_congr rfl; intro j _
    apply Finset.sum_congr rfl; intro i _; ring
  -- (c) columns against the cost
  have hc : ∑ j ∈ range P.nc, (∑ i ∈ range P.augNr, P.augA i j * y i) * x j ≤ P.obj x := by
    unfold obj
    apply Finset.sum_le_sum
    intro j hj
    have hj' : j < P.nc := Finset.mem_range.mp hj
    have hrow := hy.rows j (by simpa [dual] using hj')
    have hub := hx.ubs j hj'
    have hlb := hx.lbs j hj'
    simp only [dual, row] at hrow
    by_cases hf : P.isFree j
    · by_cases hn : P.isNeg j
      · -- free and neg cannot both hold
        exfalso
        simp only [isFree, isNeg] at hf hn
        cases hu : P.ub j with
        | none => simp [hu] at hn
        | some u => simp [hu] at hf hn; exact hf.2 hn
      · simp only [hf, hn, if_true] at hrow
        have : ∑ i ∈ range P.augNr, P.augA i j * y i = P.c j := by simpa using hrow
        rw [this]
    · by_cases hn : P.isNeg j
      · simp only [hf, hn, if_true] at hrow
        have hge : P.c j ≤ ∑ i ∈ range P.augNr, P.augA i j * y i := by
          have : ∑ i ∈ range P.augNr, -P.augA i j * y i = - ∑ i ∈ range P.augNr, P.augA i j * y i := by
            rw [← Finset.sum_neg_distrib]; apply Finset.sum_congr rfl; intro i _; ring
          have h' : ∑ i ∈ range P.augNr, -P.augA i j * y i ≤ -P.c j := by simpa using hrow
          rw [this] at h'; linarith
        have hxj : x j ≤ 0 := by
          simp only [isNeg] at hn
          cases hu : P.ub j with
          | none => simp [hu] at hn
          | some u =>
            have hu0 : u = 0 := by simpa [hu] using hn
            have : x j ≤ u := by simpa [leUb, hu] using hub
            linarith
        exact mul_le_mul_of_nonpos_right hge hxj
      · simp only [hf, hn] at hrow
        have hle : ∑ i ∈ range P.augNr, P.augA i j * y i ≤ P.c j := by simpa using hrow
        have hxj : 0 ≤ x j := by
          simp only [isFree, isNeg] at hf hn
          cases hl : P.lb j with
          | none =>
            cases hu : P.ub j with
            | none => simp [hl, hu] at hf
            | some u => simp [hl, hu] at hf hn; exact absurd hf hn
          | some l =>
            have hlx : l ≤ x j := by simpa [geLb, hl] using hlb
            cases hu : P.ub j with
            | none =>
              simp [hl, hu] at hf; rw [hf] at hlx; exact hlx
            | some u =>
              simp [hl, hu] at hf hn
              by_cases hl0 : l = 0
              · rw [hl0] at hlx; exact hlx
              · exact absurd (hf hl0) hn
        exact mul_le_mul_of_nonneg_right hle hxj
  calc ∑ i ∈ range P.augNr, P.augB i * y i ≤ ∑ i ∈ range P.augNr, y i * P.augRow i x := ha
    _ = _ := hb
    _ ≤ P.obj x := hc

end LinProg



end RsomeV
