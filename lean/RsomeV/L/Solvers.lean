import RsomeV.M.Solvers
import RsomeV.L.ConeDualWeak
import Mathlib.Tactic.Linarith
import Mathlib.Tactic.Ring
import Mathlib.Tactic.NormNum
import Mathlib.Data.List.Forall2
import Mathlib.Data.Int.Cast.Lemmas
import Mathlib.Algebra.Order.Ring.Cast

/-! Helper lemmas for `RsomeV/Props/C11.lean`: the data each solver interface builds says the
same thing as `ConeProg.Feas` + the `vtype` requirements. -/

set_option linter.unusedSectionVars false
set_option linter.unusedSimpArgs false

namespace RsomeV.Solvers
open Finset RsomeV

variable {K : Type} [Field K] [LinearOrder K] [IsStrictOrderedRing K]

/-! ### rows -/

lemma dot_row (P : LinProg K) (i : ℕ) (x : ℕ → K) : dot P.nc (P.a i) x = P.row i x := rfl

lemma dot_unitRow (n k : ℕ) (s : K) (x : ℕ → K) (hk : k < n) : dot n (unitRow s k) x = s * x k := by
  unfold dot unitRow
  rw [Finset.sum_eq_single k]
  · simp
  · intro j _ hj; simp [hj]
  · intro h; exact absurd (Finset.mem_range.mpr hk) h

lemma forall₂_map_map {α β γ : Type} (R : β → γ → Prop) (f : α → β) (g : α → γ) (l : List α) :
    List.Forall₂ R (l.map f) (l.map g) ↔ ∀ i ∈ l, R (f i) (g i) := by
  induction l with
  | nil => simp
  | cons a l ih => simp [ih]

lemma rowsLe_map (P : LinProg K) (l : List ℕ) (x : ℕ → K) :
    RowsLe P.nc (l.map P.a) (l.map P.b) x ↔ ∀ i ∈ l, P.row i x ≤ P.b i := by
  unfold RowsLe; rw [forall₂_map_map]; rfl

lemma rowsEq_map (P : LinProg K) (l : List ℕ) (x : ℕ → K) :
    RowsEq P.nc (l.map P.a) (l.map P.b) x ↔ ∀ i ∈ l, P.row i x = P.b i := by
  unfold RowsEq; rw [forall₂_map_map]; rfl

lemma mem_ineqIdx (P : LinProg K) (i : ℕ) : i ∈ ineqIdx P ↔ i < P.nr ∧ P.eq i = false := by
  simp [ineqIdx]

lemma mem_eqIdx (P : LinProg K) (i : ℕ) : i ∈ eqIdx P ↔ i < P.nr ∧ P.eq i = true := by
  simp [eqIdx]

/-- the rows of the program, split by sense as every interface does -/
lemma rows_split (P : LinProg K) (x : ℕ → K) :
    (∀ i < P.nr, if P.eq i then P.row i x = P.b i else P.row i x ≤ P.b i) ↔
    (∀ i ∈ ineqIdx P, P.row i x ≤ P.b i) ∧ (∀ i ∈ eqIdx P, P.row i x = P.b i) := by
  constructor
  · intro h
    refine ⟨fun i hi => ?_, fun i hi => ?_⟩
    · obtain ⟨h1, h2⟩ := (mem_ineqIdx P i).mp hi
      have := h i h1; simpa [h2] using this
    · obtain ⟨h1, h2⟩ := (mem_eqIdx P i).mp hi
      have := h i h1; simpa [h2] using this
  · rintro ⟨hle, heq⟩ i hi
    cases he : P.eq i with
    | true => simpa using heq i ((mem_eqIdx P i).mpr ⟨hi, he⟩)
    | false => simpa using hle i ((mem_ineqIdx P i).mpr ⟨hi, he⟩)

/-- `LinProg.Feas` with the bound conditions paired per column -/
lemma linFeas_iff (P : LinProg K) (x : ℕ → K) :
    P.Feas x ↔ ((∀ i ∈ ineqIdx P, P.row i x ≤ P.b i) ∧ (∀ i ∈ eqIdx P, P.row i x = P.b i)) ∧
      ∀ j < P.nc, LinProg.geLb (x j) (P.lb j) ∧ LinProg.leUb (x j) (P.ub j) := by
  rw [← rows_split]
  constructor
  · intro h; exact ⟨h.rows, fun j hj => ⟨h.lbs j hj, h.ubs j hj⟩⟩
  · rintro ⟨h1, h2⟩; exact ⟨h1, fun j hj => (h2 j hj).2, fun j hj => (h2 j hj).1⟩

/-! ### `vtype` -/

lemma allCont_iff (vt : ℕ → Char) (n : ℕ) : allCont vt n = true ↔ ∀ j < n, vt j = 'C' := by
  simp [allCont]

lemma vtOk_of_allCont (vt : ℕ → Char) (n : ℕ) (x : ℕ → K) (h : allCont vt n = true) :
    VtOk vt n x := by
  intro j hj
  have := (allCont_iff vt n).mp h j hj
  constructor <;> intro hb <;> rw [this] at hb <;> exact absurd hb (by decide)

lemma isInt_of_isBin {v : K} (h : IsBin v) : IsInt v := by
  rcases h with h | h
  · exact ⟨0, by simp [h]⟩
  · exact ⟨1, by simp [h]⟩

/-- an integer between `max(lb,0)` and `min(ub,1)` is a 0/1 value between `lb` and `ub`:
the clipped bounds `def_sol` and OR-Tools pass for a `'B'` column say exactly "binary" -/
lemma bin_clip_iff (v : K) (l u : Option K) :
    (IsInt v ∧ LinProg.geLb v (lbBin l) ∧ LinProg.leUb v (ubBin u)) ↔
    (IsBin v ∧ LinProg.geLb v l ∧ LinProg.leUb v u) := by
  constructor
  · rintro ⟨⟨z, hz⟩, hl, hu⟩
    have h0 : (0 : K) ≤ v := by
      cases l with
      | none => simpa [lbBin, LinProg.geLb] using hl
      | some l => exact le_trans (le_max_right l 0) (by simpa [lbBin, LinProg.geLb] using hl)
    have h1 : v ≤ 1 := by
      cases u with
      | none => simpa [ubBin, LinProg.leUb] using hu
      | some u => exact le_trans (by simpa [ubBin, LinProg.leUb] using hu) (min_le_right u 1)
    have hz0 : (0 : ℤ) ≤ z := by rw [hz] at h0; exact_mod_cast h0
    have hz1 : z ≤ 1 := by rw [hz] at h1; exact_mod_cast h1
    have hb : IsBin v := by
      have : z = 0 ∨ z = 1 := by omega
      rcases this with h | h
      · left; rw [hz, h]; simp
      · right; rw [hz, h]; simp
    refine ⟨hb, ?_, ?_⟩
    · cases l with
      | none => trivial
      | some l => exact le_trans (le_max_left l 0) (by simpa [lbBin, LinProg.geLb] using hl)
    · cases u with
      | none => trivial
      | some u => exact le_trans (by simpa [ubBin, LinProg.leUb] using hu) (min_le_left u 1)
  · rintro ⟨hb, hl, hu⟩
    have h0 : (0 : K) ≤ v := by rcases hb with h | h <;> simp [h]
    have h1 : v ≤ 1 := by rcases hb with h | h <;> simp [h]
    refine ⟨isInt_of_isBin hb, ?_, ?_⟩
    · cases l with
      | none => simpa [lbBin, LinProg.geLb] using h0
      | some l =>
        have : l ≤ v := hl
        simpa [lbBin, LinProg.geLb] using ⟨this, h0⟩
    · cases u with
      | none => simpa [ubBin, LinProg.leUb] using h1
      | some u =>
        have : v ≤ u := hu
        simpa [ubBin, LinProg.leUb] using ⟨this, h1⟩

/-- bounds + integrality as `def_sol` (MILP branch) and OR-Tools set them, column by column -/
lemma col_clip_iff (c : Char) (hc : c = 'C' ∨ c = 'B' ∨ c = 'I') (v : K) (l u : Option K) :
    ((LinProg.geLb v (if c = 'B' then lbBin l else l) ∧ LinProg.leUb v (if c = 'B' then ubBin u else u)) ∧
      ((c != 'C') = true → IsInt v)) ↔
    ((LinProg.geLb v l ∧ LinProg.leUb v u) ∧ ((c = 'B' → IsBin v) ∧ (c = 'I' → IsInt v))) := by
  rcases hc with h | h | h <;> subst h
  · simp
  · have := bin_clip_iff v l u
    rw [if_pos rfl, if_pos rfl]
    constructor
    · rintro ⟨⟨a, b⟩, c⟩
      obtain ⟨p, q, r⟩ := this.mp ⟨c (by decide), a, b⟩
      exact ⟨⟨q, r⟩, fun _ => p, fun h => absurd h (by decide)⟩
    · rintro ⟨⟨q, r⟩, p, _⟩
      obtain ⟨a, b, c⟩ := this.mpr ⟨p rfl, q, r⟩
      exact ⟨⟨b, c⟩, fun _ => a⟩
  · rw [if_neg (by decide), if_neg (by decide)]
    constructor
    · rintro ⟨ab, c⟩
      exact ⟨ab, fun h => absurd h (by decide), fun _ => c (by decide)⟩
    · rintro ⟨ab, _, c⟩
      exact ⟨ab, fun _ => c rfl⟩

/-- bounds + integrality as `eco_solver.solve` sets them, column by column: the bound rows come from
the clipped bounds, `int_vars_idx` holds the `'B'` and `'I'` columns.  No hypothesis on the alphabet:
ECOS asks nothing of a column with another letter. -/
lemma col_ecos_iff (c : Char) (v : K) (l u : Option K) :
    ((LinProg.geLb v (if c = 'B' then lbBin l else l) ∧ LinProg.leUb v (if c = 'B' then ubBin u else u)) ∧
      ((c == 'B' || c == 'I') = true → IsInt v)) ↔
    ((LinProg.geLb v l ∧ LinProg.leUb v u) ∧ ((c = 'B' → IsBin v) ∧ (c = 'I' → IsInt v))) := by
  by_cases hB : c = 'B'
  · subst hB
    have := bin_clip_iff v l u
    rw [if_pos rfl, if_pos rfl]
    constructor
    · rintro ⟨⟨a, b⟩, c⟩
      obtain ⟨p, q, r⟩ := this.mp ⟨c (by decide), a, b⟩
      exact ⟨⟨q, r⟩, fun _ => p, fun h => absurd h (by decide)⟩
    · rintro ⟨⟨q, r⟩, p, _⟩
      obtain ⟨a, b, c⟩ := this.mpr ⟨p rfl, q, r⟩
      exact ⟨⟨b, c⟩, fun _ => a⟩
  · rw [if_neg hB, if_neg hB]
    by_cases hI : c = 'I'
    · subst hI
      constructor
      · rintro ⟨ab, c⟩
        exact ⟨ab, fun h => absurd h (by decide), fun _ => c (by decide)⟩
      · rintro ⟨ab, _, c⟩
        exact ⟨ab, fun _ => c rfl⟩
    · constructor
      · rintro ⟨ab, _⟩
        exact ⟨ab, fun h => absurd h hB, fun h => absurd h hI⟩
      · rintro ⟨ab, _⟩
        refine ⟨ab, fun h => ?_⟩
        simp [hB, hI] at h

/-! ### ECOS: the slack vector -/

lemma slack_rows (n : ℕ) (x : ℕ → K) (l : List ℕ) (f : ℕ → ℕ → K) (g : ℕ → K) :
    List.zipWith (fun r h => h - dot n r x) (l.map f) (l.map g) = l.map fun i => g i - dot n (f i) x := by
  induction l with
  | nil => rfl
  | cons a l ih => simp [ih]

lemma slack_unit (n : ℕ) (x : ℕ → K) (l : List ℕ) (hl : ∀ j ∈ l, j < n) :
    List.zipWith (fun r h => h - dot n r x) (l.map (unitRow (-1))) (List.replicate l.length 0) =
      l.map x := by
  induction l with
  | nil => rfl
  | cons a l ih =>
    have ha : a < n := hl a (by simp)
    have := ih (fun j hj => hl j (by simp [hj]))
    simp [List.replicate_succ, this, dot_unitRow n a (-1) x ha]

lemma zipWith_append' {α β γ : Type} (f : α → β → γ) (a a' : List α) (b b' : List β)
    (h : a.length = b.length) :
    List.zipWith f (a ++ a') (b ++ b') = List.zipWith f a b ++ List.zipWith f a' b' :=
  List.zipWith_append h

lemma flatMap_map_eq {α β : Type} (L : List (List α)) (f : α → β) :
    L.flatMap (fun q => q.map f) = L.flatten.map f := by
  induction L with
  | nil => rfl
  | cons a L ih => simp [ih]

lemma length_flatten_three {α : Type} (L : List (List α)) (h : ∀ e ∈ L, e.length = 3) :
    L.flatten.length = L.length * 3 := by
  induction L with
  | nil => rfl
  | cons a L ih =>
    have h1 := h a (by simp)
    have h2 := ih (fun e he => h e (by simp [he]))
    simp [h1, h2]; ring

/-- what the ECOS/Gurobi interfaces need of the index lists (otherwise the Python code raises while
building the sparse blocks): cone indices are columns, exponential cones are triples -/
structure IdxOk (P : ConeProg K) : Prop where
  qlt : ∀ q ∈ P.qmat, ∀ j ∈ q, j < P.lp.nc
  xlen : ∀ e ∈ P.xmat, e.length = 3
  xlt : ∀ e ∈ P.xmat, ∀ j ∈ e, j < P.lp.nc

lemma IdxOk.of_wf {P : ConeProg K} (h : P.WF) : IdxOk P := ⟨h.qlt, h.xlen, h.xlt⟩

/-- the slack vector of the ECOS data, block by block -/
lemma ecos_slack (P : ConeProg K) (vt : ℕ → Char) (x : ℕ → K) (hw : IdxOk P) :
    (ecos P vt).slack x =
      ((ineqIdx P.lp).map (fun i => P.lp.b i - P.lp.row i x) ++
       (zlbIdx (clipBin P.lp vt)).map (fun j => x j - ((clipBin P.lp vt).lb j).getD 0) ++
       (zubIdx (clipBin P.lp vt)).map (fun j => ((clipBin P.lp vt).ub j).getD 0 - x j)) ++
      (P.qmat.flatten.map x ++ P.xmat.flatten.map x) := by
  have hq : ∀ j ∈ P.qmat.flatten, j < P.lp.nc := by
    intro j hj; obtain ⟨q, hq, hjq⟩ := List.mem_flatten.mp hj; exact hw.qlt q hq j hjq
  have hx : ∀ j ∈ P.xmat.flatten, j < P.lp.nc := by
    intro j hj; obtain ⟨q, hq, hjq⟩ := List.mem_flatten.mp hj; exact hw.xlt q hq j hjq
  have hlb : ∀ j ∈ zlbIdx (clipBin P.lp vt), j < P.lp.nc := by
    intro j hj; simp [zlbIdx] at hj; exact hj.1
  have hub : ∀ j ∈ zubIdx (clipBin P.lp vt), j < P.lp.nc := by
    intro j hj; simp [zubIdx] at hj; exact hj.1
  have e1 : (P.qmat.map List.length).sum = P.qmat.flatten.length := by
    rw [List.length_flatten]
  have e2 : P.xmat.length * 3 = P.xmat.flatten.length := (length_flatten_three _ hw.xlen).symm
  unfold EcosArgs.slack ecos
  simp only [flatMap_map_eq, e1, e2]
  rw [zipWith_append' _ _ _ _ _ (by simp [Function.comp_def]), zipWith_append' _ _ _ _ _ (by simp [Function.comp_def]),
    zipWith_append' _ _ _ _ _ (by simp [Function.comp_def]), zipWith_append' _ _ _ _ _ (by simp [Function.comp_def]),
    slack_rows, slack_rows, slack_rows, slack_unit _ _ _ hq, slack_unit _ _ _ hx]
  have m1 : (zlbIdx (clipBin P.lp vt)).map
        (fun j => - ((clipBin P.lp vt).lb j).getD 0 - dot P.lp.nc (unitRow (-1) j) x) =
      (zlbIdx (clipBin P.lp vt)).map (fun j => x j - ((clipBin P.lp vt).lb j).getD 0) := by
    apply List.map_congr_left; intro j hj; rw [dot_unitRow _ _ _ _ (hlb j hj)]; ring
  have m2 : (zubIdx (clipBin P.lp vt)).map
        (fun j => ((clipBin P.lp vt).ub j).getD 0 - dot P.lp.nc (unitRow 1 j) x) =
      (zubIdx (clipBin P.lp vt)).map (fun j => ((clipBin P.lp vt).ub j).getD 0 - x j) := by
    apply List.map_congr_left; intro j hj; rw [dot_unitRow _ _ _ _ (hub j hj)]; ring
  rw [m1, m2]
  simp [dot_row, List.append_assoc]

/-! ### ECOS: the cone blocks -/

lemma socVec_map (x : ℕ → K) (q : List ℕ) : socVec (q.map x) ↔ socMem x q := by
  cases q with
  | nil => simp [socVec, socMem]
  | cons h t => simp [socVec, socMem, List.map_map, Function.comp_def]

lemma expFeas_iff (E : K → K → K → Prop) (x : ℕ → K) (X : List (List ℕ))
    (hlen : ∀ e ∈ X, e.length = 3) :
    expFeas E X.length (X.flatten.map x) ↔
      ∀ e ∈ X, E (x (e.getD 0 0)) (x (e.getD 1 0)) (x (e.getD 2 0)) := by
  induction X with
  | nil => simp [expFeas]
  | cons e X ih =>
    have he := hlen e (by simp)
    have ih' := ih (fun e' he' => hlen e' (by simp [he']))
    match e, he with
    | [a, b, c], _ =>
      simp only [List.length_cons, expFeas, List.flatten_cons, List.map_append, List.map_cons,
        List.map_nil, List.cons_append, List.nil_append, List.getD_cons_zero, List.getD_cons_succ,
        List.drop_succ_cons, List.drop_zero, List.forall_mem_cons, ih']

lemma coneFeas_iff (E : K → K → K → Prop) (x : ℕ → K) (Q X : List (List ℕ))
    (hlen : ∀ e ∈ X, e.length = 3) :
    coneFeas E (Q.map List.length) X.length (Q.flatten.map x ++ X.flatten.map x) ↔
      (∀ q ∈ Q, socMem x q) ∧ ∀ e ∈ X, E (x (e.getD 0 0)) (x (e.getD 1 0)) (x (e.getD 2 0)) := by
  induction Q with
  | nil => simpa [coneFeas] using expFeas_iff E x X hlen
  | cons q Q ih =>
    have t : List.take q.length ((q ++ Q.flatten).map x ++ X.flatten.map x) = q.map x := by
      rw [List.map_append, List.append_assoc]
      exact List.take_left' (by simp)
    have d : List.drop q.length ((q ++ Q.flatten).map x ++ X.flatten.map x) =
        Q.flatten.map x ++ X.flatten.map x := by
      rw [List.map_append, List.append_assoc]
      exact List.drop_left' (by simp)
    simp only [List.map_cons, coneFeas, List.flatten_cons, t, d, ih, socVec_map,
      List.forall_mem_cons, and_assoc]

/-! ### structures as conjunctions, optional blocks, bounds -/

lemma linprogFeas_iff (d : LinprogArgs K) (x : ℕ → K) :
    d.Feas x ↔ optRowsLe d.n d.aUb d.bUb x ∧ optRowsEq d.n d.aEq d.bEq x ∧
      ∀ j < d.n, LinProg.geLb (x j) (d.lb j) ∧ LinProg.leUb (x j) (d.ub j) :=
  ⟨fun h => ⟨h.ub, h.eq, h.bnd⟩, fun ⟨a, b, c⟩ => ⟨a, b, c⟩⟩

lemma milpFeas_iff (d : MilpArgs K) (x : ℕ → K) :
    d.Feas x ↔ (∀ i < d.m, LinProg.geLb (dot d.n (d.a i) x) (d.bl i) ∧ dot d.n (d.a i) x ≤ d.bu i) ∧
      (∀ j < d.n, LinProg.geLb (x j) (d.lb j) ∧ LinProg.leUb (x j) (d.ub j)) ∧
      ∀ j < d.n, d.integrality j = true → IsInt (x j) :=
  ⟨fun h => ⟨h.rows, h.bnd, h.int⟩, fun ⟨a, b, c⟩ => ⟨a, b, c⟩⟩

lemma optRowsLe_norows (P : LinProg K) (x : ℕ → K) :
    optRowsLe P.nc (if P.nr = 0 then none else some ((ineqIdx P).map P.a))
      (if P.nr = 0 then none else some ((ineqIdx P).map P.b)) x ↔
    ∀ i ∈ ineqIdx P, P.row i x ≤ P.b i := by
  by_cases h : P.nr = 0
  · simp [h, optRowsLe, ineqIdx]
  · simp only [h, if_false, optRowsLe, rowsLe_map]

lemma optRowsEq_norows (P : LinProg K) (x : ℕ → K) :
    optRowsEq P.nc (if P.nr = 0 then none else some ((eqIdx P).map P.a))
      (if P.nr = 0 then none else some ((eqIdx P).map P.b)) x ↔
    ∀ i ∈ eqIdx P, P.row i x = P.b i := by
  by_cases h : P.nr = 0
  · simp [h, optRowsEq, eqIdx]
  · simp only [h, if_false, optRowsEq, rowsEq_map]

lemma optRowsEq_noeq (P : LinProg K) (x : ℕ → K) :
    optRowsEq P.nc (if (eqIdx P).length > 0 then some ((eqIdx P).map P.a) else none)
      (if (eqIdx P).length > 0 then some ((eqIdx P).map P.b) else none) x ↔
    ∀ i ∈ eqIdx P, P.row i x = P.b i := by
  by_cases h : (eqIdx P).length > 0
  · simp only [h, if_true, optRowsEq, rowsEq_map]
  · have : eqIdx P = [] := List.length_eq_zero_iff.mp (by omega)
    simp [this, optRowsEq]

lemma milp_row_iff (r b : K) (e : Bool) :
    (LinProg.geLb r (if e then some b else none) ∧ r ≤ b) ↔ (if e then r = b else r ≤ b) := by
  cases e with
  | true =>
    simp only [if_true, LinProg.geLb]
    exact ⟨fun ⟨h1, h2⟩ => le_antisymm h2 h1, fun h => ⟨h.ge, h.le⟩⟩
  | false => simp [LinProg.geLb]

/-- bounds + integrality as `def_sol` (MILP branch) and OR-Tools set them -/
lemma cols_clip_iff (vt : ℕ → Char) (n : ℕ) (hvt : VtWF vt n) (lb ub : ℕ → Option K) (x : ℕ → K) :
    ((∀ j < n, LinProg.geLb (x j) (if vt j = 'B' then lbBin (lb j) else lb j) ∧
        LinProg.leUb (x j) (if vt j = 'B' then ubBin (ub j) else ub j)) ∧
      ∀ j < n, (vt j != 'C') = true → IsInt (x j)) ↔
    ((∀ j < n, LinProg.geLb (x j) (lb j) ∧ LinProg.leUb (x j) (ub j)) ∧ VtOk vt n x) := by
  constructor
  · rintro ⟨h1, h2⟩
    have := fun j hj => (col_clip_iff (vt j) (hvt j hj) (x j) (lb j) (ub j)).mp ⟨h1 j hj, h2 j hj⟩
    exact ⟨fun j hj => (this j hj).1, fun j hj => (this j hj).2⟩
  · rintro ⟨h1, h2⟩
    have := fun j hj => (col_clip_iff (vt j) (hvt j hj) (x j) (lb j) (ub j)).mpr ⟨h1 j hj, h2 j hj⟩
    exact ⟨fun j hj => (this j hj).1, fun j hj => (this j hj).2⟩

/-! ### `def_sol`: the bounds of the non-continuous columns are rounded inward (tolerance `ε = 1e-9`) -/

lemma intEps_pos : (0 : K) < intEps := by
  unfold intEps; exact div_pos one_pos (pow_pos (by norm_num) 9)

lemma intEps_lt_one : (intEps : K) < 1 := by
  unfold intEps; rw [div_lt_one (pow_pos (by norm_num) 9)]; norm_num

/-- the lower bound holds up to the tolerance: `l - ε ≤ v` -/
def geLbTol (v : K) : Option K → Prop
  | none => True
  | some l => l - intEps ≤ v
/-- the upper bound holds up to the tolerance: `v ≤ u + ε` -/
def leUbTol (v : K) : Option K → Prop
  | none => True
  | some u => v ≤ u + intEps

/-- no integer lies in `[l - ε, l)` -/
def LbFar : Option K → Prop
  | none => True
  | some l => ∀ z : ℤ, ¬ (l - intEps ≤ (z : K) ∧ (z : K) < l)
/-- no integer lies in `(u, u + ε]` -/
def UbFar : Option K → Prop
  | none => True
  | some u => ∀ z : ℤ, ¬ (u < (z : K) ∧ (z : K) ≤ u + intEps)

/-- the bounds of the non-continuous columns are not within `ε` *outside* of an integer: rounding
them inward with the tolerance then loses and gains no integer point -/
def BoundsNotNearInt (vt : ℕ → Char) (n : ℕ) (lb ub : ℕ → Option K) : Prop :=
  ∀ j < n, vt j ≠ 'C' → LbFar (lb j) ∧ UbFar (ub j)

lemma geLb_of_tol_far {v : K} {l : Option K} (hi : IsInt v) (hf : LbFar l) (h : geLbTol v l) :
    LinProg.geLb v l := by
  cases l with
  | none => trivial
  | some l =>
    obtain ⟨z, rfl⟩ := hi
    by_contra hc
    exact hf z ⟨h, not_le.mp hc⟩

lemma leUb_of_tol_far {v : K} {u : Option K} (hi : IsInt v) (hf : UbFar u) (h : leUbTol v u) :
    LinProg.leUb v u := by
  cases u with
  | none => trivial
  | some u =>
    obtain ⟨z, rfl⟩ := hi
    by_contra hc
    exact hf z ⟨not_le.mp hc, h⟩

lemma geLbTol_lbBin {v : K} {l : Option K} (h : geLbTol v (lbBin l)) : geLbTol v l ∧ -intEps ≤ v := by
  cases l with
  | none =>
    have h' : (0 : K) - intEps ≤ v := h
    exact ⟨trivial, by linarith⟩
  | some l =>
    have h' : max l 0 - intEps ≤ v := h
    exact ⟨show l - intEps ≤ v by linarith [le_max_left l 0], by linarith [le_max_right l 0]⟩

lemma leUbTol_ubBin {v : K} {u : Option K} (h : leUbTol v (ubBin u)) : leUbTol v u ∧ v ≤ 1 + intEps := by
  cases u with
  | none =>
    have h' : v ≤ (1 : K) + intEps := h
    exact ⟨trivial, h'⟩
  | some u =>
    have h' : v ≤ min u 1 + intEps := h
    exact ⟨show v ≤ u + intEps by linarith [min_le_left u 1], by linarith [min_le_right u 1]⟩

/-- an integer within `ε` of `[0,1]` is `0` or `1` -/
lemma isBin_of_int_tol {v : K} (hi : IsInt v) (h0 : -intEps ≤ v) (h1 : v ≤ 1 + intEps) : IsBin v := by
  obtain ⟨z, rfl⟩ := hi
  have e := intEps_lt_one (K := K)
  have a : ((-1 : ℤ) : K) < (z : K) := by push_cast; linarith
  have b : (z : K) < ((2 : ℤ) : K) := by push_cast; linarith
  have a' : (-1 : ℤ) < z := by exact_mod_cast a
  have b' : z < 2 := by exact_mod_cast b
  have : z = 0 ∨ z = 1 := by omega
  rcases this with h | h
  · left; rw [h]; simp
  · right; rw [h]; simp

section Round
variable [FloorRing K]

/-- an integer `≥ l` is `≥ ceil(l - ε)`: rounding the lower bound cuts off no integer point -/
lemma geLb_lbRound {v : K} {l : Option K} (hi : IsInt v) (h : LinProg.geLb v l) :
    LinProg.geLb v (lbRound l) := by
  cases l with
  | none => trivial
  | some l =>
    obtain ⟨z, rfl⟩ := hi
    have h' : l ≤ (z : K) := h
    have : ⌈l - intEps⌉ ≤ z := Int.ceil_le.mpr (by linarith [intEps_pos (K := K)])
    show ((⌈l - intEps⌉ : ℤ) : K) ≤ (z : K)
    exact_mod_cast this

/-- an integer `≤ u` is `≤ floor(u + ε)` -/
lemma leUb_ubRound {v : K} {u : Option K} (hi : IsInt v) (h : LinProg.leUb v u) :
    LinProg.leUb v (ubRound u) := by
  cases u with
  | none => trivial
  | some u =>
    obtain ⟨z, rfl⟩ := hi
    have h' : (z : K) ≤ u := h
    have : z ≤ ⌊u + intEps⌋ := Int.le_floor.mpr (by linarith [intEps_pos (K := K)])
    show (z : K) ≤ ((⌊u + intEps⌋ : ℤ) : K)
    exact_mod_cast this

lemma geLbTol_of_lbRound {v : K} {l : Option K} (h : LinProg.geLb v (lbRound l)) : geLbTol v l := by
  cases l with
  | none => trivial
  | some l =>
    have h' : ((⌈l - intEps⌉ : ℤ) : K) ≤ v := h
    exact le_trans (Int.le_ceil _) h'

lemma leUbTol_of_ubRound {v : K} {u : Option K} (h : LinProg.leUb v (ubRound u)) : leUbTol v u := by
  cases u with
  | none => trivial
  | some u =>
    have h' : v ≤ ((⌊u + intEps⌋ : ℤ) : K) := h
    exact le_trans h' (Int.floor_le _)

lemma milpLb_cont (l : Option K) : milpLb 'C' l = l := by simp [milpLb]
lemma milpUb_cont (u : Option K) : milpUb 'C' u = u := by simp [milpUb]
lemma milpLb_of_ne {c : Char} (h : c ≠ 'C') (l : Option K) :
    milpLb c l = lbRound (if c = 'B' then lbBin l else l) := by simp [milpLb, h]
lemma milpUb_of_ne {c : Char} (h : c ≠ 'C') (u : Option K) :
    milpUb c u = ubRound (if c = 'B' then ubBin u else u) := by simp [milpUb, h]

/-- column by column, `def_sol`'s MILP data (binary clipping, inward rounding, integrality) accept
every point of the program that is binary / integral where `vtype` says so -/
lemma col_milp_sound (c : Char) (hc : c = 'C' ∨ c = 'B' ∨ c = 'I') (v : K) (l u : Option K)
    (hb : LinProg.geLb v l ∧ LinProg.leUb v u) (hv : (c = 'B' → IsBin v) ∧ (c = 'I' → IsInt v)) :
    (LinProg.geLb v (milpLb c l) ∧ LinProg.leUb v (milpUb c u)) ∧ ((c != 'C') = true → IsInt v) := by
  obtain ⟨⟨a, b⟩, i⟩ := (col_clip_iff c hc v l u).mpr ⟨hb, hv⟩
  by_cases h : c = 'C'
  · subst h
    rw [milpLb_cont, milpUb_cont]
    exact ⟨hb, fun h => absurd h (by decide)⟩
  · have hi : IsInt v := i (by simpa using h)
    rw [milpLb_of_ne h, milpUb_of_ne h]
    exact ⟨⟨geLb_lbRound hi a, leUb_ubRound hi b⟩, fun _ => hi⟩

/-- column by column, a point accepted by `def_sol`'s MILP data is binary / integral where `vtype`
says so and within the bounds: exactly on a `'C'` column, up to `ε` on the others (no hypothesis on
the alphabet: every non-`'C'` column is integral) -/
lemma col_milp_tol (c : Char) (v : K) (l u : Option K)
    (h : (LinProg.geLb v (milpLb c l) ∧ LinProg.leUb v (milpUb c u)) ∧ ((c != 'C') = true → IsInt v)) :
    ((c = 'B' → IsBin v) ∧ (c = 'I' → IsInt v)) ∧
    (c = 'C' → LinProg.geLb v l ∧ LinProg.leUb v u) ∧ (c ≠ 'C' → geLbTol v l ∧ leUbTol v u) := by
  obtain ⟨⟨a, b⟩, i⟩ := h
  by_cases hC : c = 'C'
  · subst hC
    rw [milpLb_cont] at a
    rw [milpUb_cont] at b
    exact ⟨⟨fun h => absurd h (by decide), fun h => absurd h (by decide)⟩, fun _ => ⟨a, b⟩,
      fun h => absurd rfl h⟩
  · have hi : IsInt v := i (by simpa using hC)
    rw [milpLb_of_ne hC] at a
    rw [milpUb_of_ne hC] at b
    have a' := geLbTol_of_lbRound a
    have b' := leUbTol_of_ubRound b
    by_cases hB : c = 'B'
    · rw [if_pos hB] at a' b'
      obtain ⟨a1, a2⟩ := geLbTol_lbBin a'
      obtain ⟨b1, b2⟩ := leUbTol_ubBin b'
      exact ⟨⟨fun _ => isBin_of_int_tol hi a2 b2, fun _ => hi⟩, fun h => absurd h hC, fun _ => ⟨a1, b1⟩⟩
    · rw [if_neg hB] at a' b'
      exact ⟨⟨fun h => absurd h hB, fun _ => hi⟩, fun h => absurd h hC, fun _ => ⟨a', b'⟩⟩

/-- column by column: when the bounds of a non-continuous column are not within `ε` outside of an
integer, `def_sol`'s MILP data say exactly "within the bounds, binary / integral" -/
lemma col_milp_iff (c : Char) (hc : c = 'C' ∨ c = 'B' ∨ c = 'I') (v : K) (l u : Option K)
    (hf : c ≠ 'C' → LbFar l ∧ UbFar u) :
    ((LinProg.geLb v (milpLb c l) ∧ LinProg.leUb v (milpUb c u)) ∧ ((c != 'C') = true → IsInt v)) ↔
    ((LinProg.geLb v l ∧ LinProg.leUb v u) ∧ ((c = 'B' → IsBin v) ∧ (c = 'I' → IsInt v))) := by
  constructor
  · intro h
    obtain ⟨hv, h1, h2⟩ := col_milp_tol c v l u h
    refine ⟨?_, hv⟩
    by_cases hC : c = 'C'
    · exact h1 hC
    · have hi : IsInt v := h.2 (by simpa using hC)
      exact ⟨geLb_of_tol_far hi (hf hC).1 (h2 hC).1, leUb_of_tol_far hi (hf hC).2 (h2 hC).2⟩
  · rintro ⟨hb, hv⟩
    exact col_milp_sound c hc v l u hb hv

end Round

lemma zlb_iff (P : LinProg K) (x : ℕ → K) :
    (∀ j ∈ zlbIdx P, 0 ≤ x j - (P.lb j).getD 0) ↔ ∀ j < P.nc, LinProg.geLb (x j) (P.lb j) := by
  simp only [zlbIdx, List.mem_filter, List.mem_range]
  constructor
  · intro h j hj
    cases hl : P.lb j with
    | none => trivial
    | some l =>
      have := h j ⟨hj, by simp [hl]⟩
      simp only [hl, Option.getD_some, sub_nonneg] at this
      exact this
  · rintro h j ⟨hj, hs⟩
    have := h j hj
    cases hl : P.lb j with
    | none => simp [hl] at hs
    | some l =>
      rw [hl] at this
      simp only [Option.getD_some, sub_nonneg]
      exact this

lemma zub_iff (P : LinProg K) (x : ℕ → K) :
    (∀ j ∈ zubIdx P, 0 ≤ (P.ub j).getD 0 - x j) ↔ ∀ j < P.nc, LinProg.leUb (x j) (P.ub j) := by
  simp only [zubIdx, List.mem_filter, List.mem_range]
  constructor
  · intro h j hj
    cases hl : P.ub j with
    | none => trivial
    | some l =>
      have := h j ⟨hj, by simp [hl]⟩
      simp only [hl, Option.getD_some, sub_nonneg] at this
      exact this
  · rintro h j ⟨hj, hs⟩
    have := h j hj
    cases hl : P.ub j with
    | none => simp [hl] at hs
    | some l =>
      rw [hl] at this
      simp only [Option.getD_some, sub_nonneg]
      exact this

lemma coneFeas_nocone (P : ConeProg K) (E : K → K → K → Prop) (x : ℕ → K)
    (hq : P.qmat = []) (hx : P.xmat = []) : P.Feas E x ↔ P.lp.Feas x :=
  ⟨fun h => h.lin, fun h => ⟨h, by simp [hq], by simp [hx]⟩⟩

end RsomeV.Solvers
