import RsomeV.L.LpDualStrong
import Mathlib.Algebra.BigOperators.Fin
import Mathlib.Data.Fintype.BigOperators
import Mathlib.Data.Fintype.Sum
import Mathlib.Order.Interval.Finset.Nat
import Mathlib.Tactic.Linarith
import Mathlib.Tactic.Ring
import Mathlib.Tactic.NormNum

/-! Helper lemmas for C04: the *converse* of the event-wise DRO argument (`dro_sound_core`) for
polytope supports given by their vertices and a polyhedral lifted ambiguity set, by finite LP
duality (`affine_farkas_cols`).

Two forms: the lifted set as rows in `(p, μ)` (`Adm`, `dro_complete_vertex_core`) and as rows over all
columns of the lifted support, lifting columns included (`AdmL`, `dro_complete_vertex_lift_core`, via
`farkas_eq_pairing`).  This file does not import `RsomeV/L/DroSound.lean`, so that it can be used
together with C02 (see `RsomeV/Props/C04Compiled.lean`).

Everything is stated over an ordered field `K`; all index sets are initial segments of `ℕ`
(`s < S` scenarios, `i < nV` vertices per scenario, `k < nE` events, `j < nz` random components),
the rows of the lifted set are indexed by a `Fintype`. -/

set_option linter.unusedSectionVars false
set_option linter.unusedSimpArgs false
set_option linter.unusedVariables false

namespace RsomeV.C04
open Finset RsomeV

variable {K : Type} [Field K] [LinearOrder K] [IsStrictOrderedRing K]

/-! ### Flattening `(s, i) ↦ s * nV + i` -/

lemma flat_div_mod (nV s i : ℕ) (hi : i < nV) :
    (s * nV + i) / nV = s ∧ (s * nV + i) % nV = i := by
  have hpos : 0 < nV := by omega
  constructor
  · rw [Nat.mul_comm, Nat.mul_add_div hpos, Nat.div_eq_of_lt hi, add_zero]
  · rw [Nat.mul_comm, Nat.mul_add_mod, Nat.mod_eq_of_lt hi]

lemma flat_lt (S nV s i : ℕ) (hs : s < S) (hi : i < nV) : s * nV + i < S * nV := by
  calc s * nV + i < s * nV + nV := by omega
    _ = (s + 1) * nV := by ring
    _ ≤ S * nV := Nat.mul_le_mul_right _ hs

lemma unflat_lt (S nV c : ℕ) (hc : c < S * nV) : c / nV < S ∧ c % nV < nV := by
  have hpos : 0 < nV := by
    rcases Nat.eq_zero_or_pos nV with h | h
    · subst h; simp at hc
    · exact h
  exact ⟨Nat.div_lt_of_lt_mul (by rw [Nat.mul_comm]; exact hc), Nat.mod_lt _ hpos⟩

lemma sum_flat (S nV : ℕ) (F : ℕ → K) :
    ∑ c ∈ range (S * nV), F c = ∑ s ∈ range S, ∑ i ∈ range nV, F (s * nV + i) := by
  induction S with
  | zero => simp
  | succ S ih => rw [Nat.succ_mul, Finset.sum_range_add, ih, Finset.sum_range_succ]

/-! ### The lifted set, vertex distributions and the quantities they induce -/

/-- **Admissible `(p, μ)`**: the lifted ambiguity set (model of `Ambiguity.mix_support` projected
on the scenario probabilities `p s` and the scaled means `μ k j`), given by finitely many rows
`Σ_s gp r s · p s + Σ_k Σ_j gm r k j · μ k j ≤ h r`. -/
def Adm {ι : Type} [Fintype ι] (gp : ι → ℕ → K) (gm : ι → ℕ → ℕ → K) (h : ι → K)
    (S nE nz : ℕ) (p : ℕ → K) (μ : ℕ → ℕ → K) : Prop :=
  ∀ r, ∑ s ∈ range S, gp r s * p s + ∑ k ∈ range nE, ∑ j ∈ range nz, gm r k j * μ k j ≤ h r

/-- scenario probability induced by a vertex distribution: `p s = Σ_i w s i` -/
def pOf (nV : ℕ) (w : ℕ → ℕ → K) (s : ℕ) : K := ∑ i ∈ range nV, w s i

/-- scaled mean induced by a vertex distribution:
`μ k j = Σ_{s ∈ E_k} Σ_i w s i · vtx s i j  (= Σ_{s ∈ E_k} p s · E_s[z_j])` -/
def muOf (S nV : ℕ) (vtx : ℕ → ℕ → ℕ → K) (Ev : ℕ → ℕ → Prop) [∀ k s, Decidable (Ev k s)]
    (w : ℕ → ℕ → K) (k j : ℕ) : K :=
  ∑ s ∈ range S, if Ev k s then ∑ i ∈ range nV, w s i * vtx s i j else 0

/-- the right-hand side of the scenario row (H2) at vertex `i` of scenario `s`:
`a s + Σ_{k : Ev k s} Σ_j b k j · vtx s i j` -/
def coefW (nE nz : ℕ) (vtx : ℕ → ℕ → ℕ → K) (Ev : ℕ → ℕ → Prop) [∀ k s, Decidable (Ev k s)]
    (a : ℕ → K) (b : ℕ → ℕ → K) (s i : ℕ) : K :=
  a s + ∑ k ∈ range nE, if Ev k s then ∑ j ∈ range nz, b k j * vtx s i j else 0

section
variable (S nE nz nV : ℕ) (vtx : ℕ → ℕ → ℕ → K) (Ev : ℕ → ℕ → Prop) [∀ k s, Decidable (Ev k s)]

/-- a linear form in `(p, μ)` at the pair induced by `w` is the `w`-weighted sum of `coefW` -/
lemma lin_w_eq (a : ℕ → K) (b : ℕ → ℕ → K) (w : ℕ → ℕ → K) :
    ∑ s ∈ range S, a s * pOf nV w s
        + ∑ k ∈ range nE, ∑ j ∈ range nz, b k j * muOf S nV vtx Ev w k j
      = ∑ s ∈ range S, ∑ i ∈ range nV, coefW nE nz vtx Ev a b s i * w s i := by
  unfold pOf muOf coefW
  have e1 : ∀ s ∈ range S, ∑ i ∈ range nV,
        (a s + ∑ k ∈ range nE, if Ev k s then ∑ j ∈ range nz, b k j * vtx s i j else 0) * w s i
      = a s * ∑ i ∈ range nV, w s i + ∑ k ∈ range nE, ∑ j ∈ range nz,
          b k j * (if Ev k s then ∑ i ∈ range nV, w s i * vtx s i j else 0) := by
    intro s _
    have e0 : ∀ i ∈ range nV,
        (a s + ∑ k ∈ range nE, if Ev k s then ∑ j ∈ range nz, b k j * vtx s i j else 0) * w s i
        = a s * w s i + ∑ k ∈ range nE, ∑ j ∈ range nz,
            (if Ev k s then b k j * (w s i * vtx s i j) else 0) := by
      intro i _
      rw [add_mul, Finset.sum_mul]
      congr 1
      apply Finset.sum_congr rfl; intro k _
      by_cases hk : Ev k s
      · simp only [if_pos hk]
        rw [Finset.sum_mul]
        apply Finset.sum_congr rfl; intro j _; ring
      · simp only [if_neg hk]; simp
    rw [Finset.sum_congr rfl e0, Finset.sum_add_distrib, ← Finset.mul_sum]
    congr 1
    rw [Finset.sum_comm]
    apply Finset.sum_congr rfl; intro k _
    rw [Finset.sum_comm]
    apply Finset.sum_congr rfl; intro j _
    by_cases hk : Ev k s
    · simp only [if_pos hk]; rw [Finset.mul_sum]
    · simp only [if_neg hk]; simp
  rw [Finset.sum_congr rfl e1, Finset.sum_add_distrib]
  congr 1
  symm
  rw [Finset.sum_comm]
  apply Finset.sum_congr rfl; intro k _
  rw [Finset.sum_comm]
  apply Finset.sum_congr rfl; intro j _
  rw [Finset.mul_sum]

/-- `coefW` is linear in the pair `(a, b)` -/
lemma coefW_sum {ι : Type} [Fintype ι] (y : ι → K) (gp : ι → ℕ → K) (gm : ι → ℕ → ℕ → K)
    (s i : ℕ) :
    ∑ r, y r * coefW nE nz vtx Ev (gp r) (gm r) s i
      = coefW nE nz vtx Ev (fun s => ∑ r, y r * gp r s) (fun k j => ∑ r, y r * gm r k j) s i := by
  unfold coefW
  simp only [mul_add, Finset.sum_add_distrib]
  congr 1
  simp only [Finset.mul_sum]
  rw [Finset.sum_comm]
  apply Finset.sum_congr rfl; intro k _
  by_cases hk : Ev k s
  · simp only [if_pos hk]
    simp only [Finset.mul_sum]
    rw [Finset.sum_comm]
    apply Finset.sum_congr rfl; intro j _
    rw [Finset.sum_mul]
    apply Finset.sum_congr rfl; intro r _; ring
  · simp only [if_neg hk]; simp

/-- the left-hand side of a row of the lifted set is linear in the row -/
lemma adm_lhs_sum {ι : Type} [Fintype ι] (y : ι → K) (gp : ι → ℕ → K) (gm : ι → ℕ → ℕ → K)
    (p : ℕ → K) (μ : ℕ → ℕ → K) :
    ∑ s ∈ range S, (∑ r, y r * gp r s) * p s
        + ∑ k ∈ range nE, ∑ j ∈ range nz, (∑ r, y r * gm r k j) * μ k j
      = ∑ r, y r * (∑ s ∈ range S, gp r s * p s
          + ∑ k ∈ range nE, ∑ j ∈ range nz, gm r k j * μ k j) := by
  simp only [mul_add, Finset.sum_add_distrib]
  congr 1
  · simp only [Finset.mul_sum, Finset.sum_mul]
    rw [Finset.sum_comm]
    apply Finset.sum_congr rfl; intro r _
    apply Finset.sum_congr rfl; intro s _; ring
  · simp only [Finset.mul_sum, Finset.sum_mul]
    symm
    rw [Finset.sum_comm]
    apply Finset.sum_congr rfl; intro k _
    rw [Finset.sum_comm]
    apply Finset.sum_congr rfl; intro j _
    apply Finset.sum_congr rfl; intro r _; ring

/-! ### The inequality system in the vertex weights -/

/-- coefficient matrix: the rows of the lifted set composed with `w ↦ (pOf w, muOf w)`, and one
row `-w_c ≤ 0` per flattened vertex `c = s·nV + i` -/
def vA {ι : Type} (gp : ι → ℕ → K) (gm : ι → ℕ → ℕ → K) :
    ι ⊕ Fin (S * nV) → ℕ → K
  | .inl r => fun c => coefW nE nz vtx Ev (gp r) (gm r) (c / nV) (c % nV)
  | .inr t => fun c => if c = t.val then -1 else 0

def vB {ι : Type} (h : ι → K) : ι ⊕ Fin (S * nV) → K
  | .inl r => h r
  | .inr _ => 0

lemma vA_inl {ι : Type} (gp : ι → ℕ → K) (gm : ι → ℕ → ℕ → K) (r : ι) (x : ℕ → K) :
    ∑ c ∈ range (S * nV), vA S nE nz nV vtx Ev gp gm (.inl r) c * x c
      = ∑ s ∈ range S, ∑ i ∈ range nV, coefW nE nz vtx Ev (gp r) (gm r) s i * x (s * nV + i) := by
  rw [sum_flat]
  apply Finset.sum_congr rfl; intro s _
  apply Finset.sum_congr rfl; intro i hi
  obtain ⟨e1, e2⟩ := flat_div_mod nV s i (Finset.mem_range.mp hi)
  show coefW nE nz vtx Ev (gp r) (gm r) ((s * nV + i) / nV) ((s * nV + i) % nV) * _ = _
  rw [e1, e2]

lemma vA_inr {ι : Type} (gp : ι → ℕ → K) (gm : ι → ℕ → ℕ → K) (t : Fin (S * nV)) (x : ℕ → K) :
    ∑ c ∈ range (S * nV), vA S nE nz nV vtx Ev gp gm (.inr t) c * x c = - x t.val := by
  show ∑ c ∈ range (S * nV), (if c = t.val then (-1:K) else 0) * x c = _
  rw [Finset.sum_eq_single t.val]
  · simp
  · intro c _ hc; simp [hc]
  · intro hn; exact absurd (Finset.mem_range.mpr t.isLt) hn

/-- **Completeness of the event-wise reformulation on vertices** (core form; see
`C04.dro_complete_vertex`). -/
theorem dro_complete_vertex_core {ι : Type} [Fintype ι]
    (gp : ι → ℕ → K) (gm : ι → ℕ → ℕ → K) (h : ι → K) (fv : ℕ → ℕ → K)
    (hfeas : ∃ w : ℕ → ℕ → K, (∀ s < S, ∀ i < nV, 0 ≤ w s i) ∧
      Adm gp gm h S nE nz (pOf nV w) (muOf S nV vtx Ev w))
    (hworst : ∀ w : ℕ → ℕ → K, (∀ s < S, ∀ i < nV, 0 ≤ w s i) →
      Adm gp gm h S nE nz (pOf nV w) (muOf S nV vtx Ev w) →
      ∑ s ∈ range S, ∑ i ∈ range nV, w s i * fv s i ≤ 0) :
    ∃ (α : ℕ → K) (β : ℕ → ℕ → K),
      (∀ s < S, ∀ i < nV, fv s i ≤ α s + ∑ k ∈ range nE,
        if Ev k s then ∑ j ∈ range nz, β k j * vtx s i j else 0) ∧
      (∀ p μ, Adm gp gm h S nE nz p μ →
        ∑ s ∈ range S, α s * p s + ∑ k ∈ range nE, ∑ j ∈ range nz, β k j * μ k j ≤ 0) := by
  obtain ⟨y, hy0, hyA, hyB⟩ := affine_farkas_cols (S * nV) (ι ⊕ Fin (S * nV))
    (vA S nE nz nV vtx Ev gp gm) (vB S nV h) (fun c => fv (c / nV) (c % nV)) 0
    (by
      obtain ⟨w, hw, hadm⟩ := hfeas
      refine ⟨fun c => w (c / nV) (c % nV), fun r => ?_⟩
      rcases r with r | t
      · rw [vA_inl]
        have e : ∑ s ∈ range S, ∑ i ∈ range nV, coefW nE nz vtx Ev (gp r) (gm r) s i
              * w ((s * nV + i) / nV) ((s * nV + i) % nV)
            = ∑ s ∈ range S, ∑ i ∈ range nV, coefW nE nz vtx Ev (gp r) (gm r) s i * w s i := by
          apply Finset.sum_congr rfl; intro s _
          apply Finset.sum_congr rfl; intro i hi
          obtain ⟨e1, e2⟩ := flat_div_mod nV s i (Finset.mem_range.mp hi)
          rw [e1, e2]
        rw [e, ← lin_w_eq]
        exact hadm r
      · rw [vA_inr]
        obtain ⟨h1, h2⟩ := unflat_lt S nV t.val t.isLt
        have := hw _ h1 _ h2
        show - w (t.val / nV) (t.val % nV) ≤ 0
        linarith)
    (by
      intro x hx
      have hw : ∀ s < S, ∀ i < nV, 0 ≤ x (s * nV + i) := by
        intro s hs i hi
        have := hx (.inr ⟨s * nV + i, flat_lt S nV s i hs hi⟩)
        rw [vA_inr] at this
        have h0 : vB S nV h (.inr ⟨s * nV + i, flat_lt S nV s i hs hi⟩) = 0 := rfl
        rw [h0] at this
        simpa using this
      have hadm : Adm gp gm h S nE nz (pOf nV fun s i => x (s * nV + i))
          (muOf S nV vtx Ev fun s i => x (s * nV + i)) := by
        intro r
        have := hx (.inl r)
        rw [vA_inl] at this
        rw [lin_w_eq]
        exact this
      have := hworst (fun s i => x (s * nV + i)) hw hadm
      rw [sum_flat]
      have e : ∑ s ∈ range S, ∑ i ∈ range nV,
            fv ((s * nV + i) / nV) ((s * nV + i) % nV) * x (s * nV + i)
          = ∑ s ∈ range S, ∑ i ∈ range nV, x (s * nV + i) * fv s i := by
        apply Finset.sum_congr rfl; intro s _
        apply Finset.sum_congr rfl; intro i hi
        obtain ⟨e1, e2⟩ := flat_div_mod nV s i (Finset.mem_range.mp hi)
        rw [e1, e2, mul_comm]
      rw [e]
      exact this)
  refine ⟨fun s => ∑ r, y (.inl r) * gp r s, fun k j => ∑ r, y (.inl r) * gm r k j, ?_, ?_⟩
  · intro s hs i hi
    have hc := hyA (s * nV + i) (flat_lt S nV s i hs hi)
    obtain ⟨e1, e2⟩ := flat_div_mod nV s i hi
    rw [Fintype.sum_sum_type] at hc
    simp only [e1, e2] at hc
    have hL : ∑ r, y (.inl r) * vA S nE nz nV vtx Ev gp gm (.inl r) (s * nV + i)
        = coefW nE nz vtx Ev (fun s => ∑ r, y (.inl r) * gp r s)
            (fun k j => ∑ r, y (.inl r) * gm r k j) s i := by
      rw [← coefW_sum]
      apply Finset.sum_congr rfl; intro r _
      show y (.inl r) * coefW nE nz vtx Ev (gp r) (gm r) ((s * nV + i) / nV) ((s * nV + i) % nV) = _
      rw [e1, e2]
    have hR : ∑ t, y (.inr t) * vA S nE nz nV vtx Ev gp gm (.inr t) (s * nV + i) ≤ 0 := by
      apply Finset.sum_nonpos
      intro t _
      apply mul_nonpos_of_nonneg_of_nonpos (hy0 _)
      show (if s * nV + i = t.val then (-1:K) else 0) ≤ 0
      split_ifs <;> norm_num
    rw [hL] at hc
    unfold coefW at hc
    linarith
  · intro p μ hadm
    rw [adm_lhs_sum]
    rw [Fintype.sum_sum_type] at hyB
    have h1 : ∑ r, y (.inl r) * (∑ s ∈ range S, gp r s * p s
          + ∑ k ∈ range nE, ∑ j ∈ range nz, gm r k j * μ k j)
        ≤ ∑ r, y (.inl r) * h r := by
      apply Finset.sum_le_sum
      intro r _
      exact mul_le_mul_of_nonneg_left (hadm r) (hy0 _)
    have h2 : ∑ t : Fin (S * nV), y (.inr t) * vB S nV h (.inr t) = 0 := by
      apply Finset.sum_eq_zero
      intro t _
      show y (.inr t) * 0 = 0
      ring
    have h3 : ∑ r, y (.inl r) * vB S nV h (.inl r) = ∑ r, y (.inl r) * h r := rfl
    linarith

/-- the direct computation behind the easy direction: multipliers satisfying the scenario rows at
the vertices and the first-stage row at the induced `(p, μ)` bound the expected integrand of the
vertex distribution -/
lemma vertex_sound (fv : ℕ → ℕ → K) (α : ℕ → K) (β : ℕ → ℕ → K) (w : ℕ → ℕ → K)
    (hw : ∀ s < S, ∀ i < nV, 0 ≤ w s i)
    (H2v : ∀ s < S, ∀ i < nV, fv s i ≤ α s + ∑ k ∈ range nE,
        if Ev k s then ∑ j ∈ range nz, β k j * vtx s i j else 0)
    (H1 : ∑ s ∈ range S, α s * pOf nV w s
        + ∑ k ∈ range nE, ∑ j ∈ range nz, β k j * muOf S nV vtx Ev w k j ≤ 0) :
    ∑ s ∈ range S, ∑ i ∈ range nV, w s i * fv s i ≤ 0 := by
  rw [lin_w_eq] at H1
  have : ∑ s ∈ range S, ∑ i ∈ range nV, w s i * fv s i
      ≤ ∑ s ∈ range S, ∑ i ∈ range nV, coefW nE nz vtx Ev α β s i * w s i := by
    apply Finset.sum_le_sum; intro s hs
    apply Finset.sum_le_sum; intro i hi
    have hs' := Finset.mem_range.mp hs
    have hi' := Finset.mem_range.mp hi
    rw [mul_comm]
    exact mul_le_mul_of_nonneg_right (H2v s hs' i hi') (hw s hs' i hi')
  linarith

end

/-! ### Hulls of vertices and vertex-convex integrands -/

/-- the polytope spanned by the vertices `vtx i` (`i < nV`), described on the components `j < nz`
(the other components of `z` are not constrained — they are not random components) -/
def Hull (nz nV : ℕ) (vtx : ℕ → ℕ → K) (z : ℕ → K) : Prop :=
  ∃ lam : ℕ → K, (∀ i < nV, 0 ≤ lam i) ∧ ∑ i ∈ range nV, lam i = 1 ∧
    ∀ j < nz, z j = ∑ i ∈ range nV, lam i * vtx i j

/-- `f` lies below its chords over the vertices: at every point whose components `j < nz` are the
convex combination `Σ_i λ_i·vtx i` the value is at most `Σ_i λ_i·f(vtx i)` -/
def VtxConvex (nz nV : ℕ) (vtx : ℕ → ℕ → K) (f : (ℕ → K) → K) : Prop :=
  ∀ lam : ℕ → K, (∀ i < nV, 0 ≤ lam i) → ∑ i ∈ range nV, lam i = 1 →
    ∀ z : ℕ → K, (∀ j < nz, z j = ∑ i ∈ range nV, lam i * vtx i j) →
      f z ≤ ∑ i ∈ range nV, lam i * f (vtx i)

lemma vtx_mem_hull (nz nV : ℕ) (vtx : ℕ → ℕ → K) (i0 : ℕ) (h0 : i0 < nV) :
    Hull nz nV vtx (vtx i0) := by
  refine ⟨fun i => if i = i0 then 1 else 0, ?_, ?_, ?_⟩
  · intro i _; beta_reduce; split_ifs <;> norm_num
  · rw [Finset.sum_ite_eq', if_pos (Finset.mem_range.mpr h0)]
  · intro j _
    have : ∀ i ∈ range nV, (if i = i0 then (1:K) else 0) * vtx i j
        = if i = i0 then vtx i j else 0 := by
      intro i _; split_ifs <;> simp
    rw [Finset.sum_congr rfl this, Finset.sum_ite_eq', if_pos (Finset.mem_range.mpr h0)]

/-- the hypothesis in the form "convex along vertex combinations + depends on the components
`j < nz` only" gives `VtxConvex` -/
lemma vtxConvex_of_convex_local (nz nV : ℕ) (vtx : ℕ → ℕ → K) (f : (ℕ → K) → K)
    (hconv : ∀ lam : ℕ → K, (∀ i < nV, 0 ≤ lam i) → ∑ i ∈ range nV, lam i = 1 →
      f (fun j => ∑ i ∈ range nV, lam i * vtx i j) ≤ ∑ i ∈ range nV, lam i * f (vtx i))
    (hloc : ∀ z z' : ℕ → K, (∀ j < nz, z j = z' j) → f z = f z') :
    VtxConvex nz nV vtx f := by
  intro lam h0 h1 z hz
  rw [hloc z (fun j => ∑ i ∈ range nV, lam i * vtx i j) hz]
  exact hconv lam h0 h1

/-- affine functions of the components `j < nz` are vertex-convex (with equality) -/
lemma vtxConvex_affine (nz nV : ℕ) (vtx : ℕ → ℕ → K) (a : K) (b : ℕ → K) :
    VtxConvex nz nV vtx (fun z => a + ∑ j ∈ range nz, b j * z j) := by
  intro lam h0 h1 z hz
  have e : ∑ i ∈ range nV, lam i * (a + ∑ j ∈ range nz, b j * vtx i j)
      = a + ∑ j ∈ range nz, b j * z j := by
    simp only [mul_add, Finset.sum_add_distrib, ← Finset.sum_mul, h1, one_mul]
    congr 1
    simp only [Finset.mul_sum]
    rw [Finset.sum_comm]
    apply Finset.sum_congr rfl; intro j hj
    rw [hz j (Finset.mem_range.mp hj), Finset.mul_sum]
    apply Finset.sum_congr rfl; intro i _; ring
  exact le_of_eq e.symm

/-- the pointwise maximum of two vertex-convex functions is vertex-convex -/
lemma vtxConvex_max (nz nV : ℕ) (vtx : ℕ → ℕ → K) (f g : (ℕ → K) → K)
    (hf : VtxConvex nz nV vtx f) (hg : VtxConvex nz nV vtx g) :
    VtxConvex nz nV vtx (fun z => max (f z) (g z)) := by
  intro lam h0 h1 z hz
  apply max_le
  · refine le_trans (hf lam h0 h1 z hz) ?_
    apply Finset.sum_le_sum; intro i hi
    exact mul_le_mul_of_nonneg_left (le_max_left _ _) (h0 i (Finset.mem_range.mp hi))
  · refine le_trans (hg lam h0 h1 z hz) ?_
    apply Finset.sum_le_sum; intro i hi
    exact mul_le_mul_of_nonneg_left (le_max_right _ _) (h0 i (Finset.mem_range.mp hi))

/-- the pointwise maximum of a non-empty finite family of vertex-convex functions -/
lemma vtxConvex_sup' (nz nV : ℕ) (vtx : ℕ → ℕ → K) {κ : Type} (T : Finset κ) (hT : T.Nonempty)
    (g : κ → (ℕ → K) → K) (hg : ∀ l ∈ T, VtxConvex nz nV vtx (g l)) :
    VtxConvex nz nV vtx (fun z => T.sup' hT (fun l => g l z)) := by
  intro lam h0 h1 z hz
  apply Finset.sup'_le
  intro l hl
  refine le_trans (hg l hl lam h0 h1 z hz) ?_
  apply Finset.sum_le_sum; intro i hi
  exact mul_le_mul_of_nonneg_left (Finset.le_sup' (fun l => g l (vtx i)) hl)
    (h0 i (Finset.mem_range.mp hi))

/-- scenario row at the vertices ⇒ scenario row on the hull, for a vertex-convex integrand -/
lemma hull_row (nE nz nV : ℕ) (vtx : ℕ → ℕ → K) (f : (ℕ → K) → K)
    (hconv : VtxConvex nz nV vtx f) (a : K) (c : ℕ → Prop) [DecidablePred c] (β : ℕ → ℕ → K)
    (H2v : ∀ i < nV, f (vtx i) ≤ a + ∑ k ∈ range nE,
        if c k then ∑ j ∈ range nz, β k j * vtx i j else 0)
    (z : ℕ → K) (hz : Hull nz nV vtx z) :
    f z ≤ a + ∑ k ∈ range nE, if c k then ∑ j ∈ range nz, β k j * z j else 0 := by
  obtain ⟨lam, h0, h1, hzj⟩ := hz
  have s1 := hconv lam h0 h1 z hzj
  have s2 : ∑ i ∈ range nV, lam i * f (vtx i)
      ≤ ∑ i ∈ range nV, lam i * (a + ∑ k ∈ range nE,
          if c k then ∑ j ∈ range nz, β k j * vtx i j else 0) := by
    apply Finset.sum_le_sum; intro i hi
    have hi' := Finset.mem_range.mp hi
    exact mul_le_mul_of_nonneg_left (H2v i hi') (h0 i hi')
  have e : ∑ i ∈ range nV, lam i * (a + ∑ k ∈ range nE,
          if c k then ∑ j ∈ range nz, β k j * vtx i j else 0)
      = a + ∑ k ∈ range nE, if c k then ∑ j ∈ range nz, β k j * z j else 0 := by
    simp only [mul_add, Finset.sum_add_distrib, ← Finset.sum_mul, h1, one_mul]
    congr 1
    simp only [Finset.mul_sum]
    rw [Finset.sum_comm]
    apply Finset.sum_congr rfl; intro k _
    by_cases hk : c k
    · simp only [if_pos hk]
      simp only [Finset.mul_sum]
      rw [Finset.sum_comm]
      apply Finset.sum_congr rfl; intro j hj
      rw [hzj j (Finset.mem_range.mp hj), Finset.mul_sum]
      apply Finset.sum_congr rfl; intro i _; ring
    · simp only [if_neg hk]; simp
  linarith

/-! ### Farkas with equality rows, in pairing form -/

/-- affine Farkas lemma for a system with inequality rows `a r · x ≤ b r` (`r : ι`) and equality
rows `e l · x = d l` (`l < m`), stated as a *pairing identity*: the multipliers `y ≥ 0`, `lam`
(free) reproduce the cost on every `x`. -/
theorem farkas_eq_pairing (n m : ℕ) (ι : Type) [Fintype ι] (a : ι → ℕ → K) (b : ι → K)
    (e : ℕ → ℕ → K) (d : ℕ → K) (c : ℕ → K) (γ : K)
    (hfeas : ∃ x : ℕ → K, (∀ r, ∑ j ∈ range n, a r j * x j ≤ b r) ∧
      (∀ l < m, ∑ j ∈ range n, e l j * x j = d l))
    (himp : ∀ x : ℕ → K, (∀ r, ∑ j ∈ range n, a r j * x j ≤ b r) →
      (∀ l < m, ∑ j ∈ range n, e l j * x j = d l) → ∑ j ∈ range n, c j * x j ≤ γ) :
    ∃ (y : ι → K) (lam : ℕ → K), (∀ r, 0 ≤ y r) ∧
      (∀ x : ℕ → K, ∑ r, y r * (∑ j ∈ range n, a r j * x j)
          + ∑ l ∈ range m, lam l * (∑ j ∈ range n, e l j * x j) = ∑ j ∈ range n, c j * x j) ∧
      ∑ r, y r * b r + ∑ l ∈ range m, lam l * d l ≤ γ := by
  let A : ι ⊕ Fin m ⊕ Fin m → ℕ → K := fun r =>
    match r with
    | .inl r => a r
    | .inr (.inl l) => e l.val
    | .inr (.inr l) => fun j => - e l.val j
  let B : ι ⊕ Fin m ⊕ Fin m → K := fun r =>
    match r with
    | .inl r => b r
    | .inr (.inl l) => d l.val
    | .inr (.inr l) => - d l.val
  have hneg : ∀ (l : ℕ) (x : ℕ → K),
      ∑ j ∈ range n, - e l j * x j = - ∑ j ∈ range n, e l j * x j := by
    intro l x
    rw [← Finset.sum_neg_distrib]; apply Finset.sum_congr rfl; intro j _; ring
  have hrows : ∀ x : ℕ → K, (∀ r, ∑ j ∈ range n, A r j * x j ≤ B r) ↔
      ((∀ r, ∑ j ∈ range n, a r j * x j ≤ b r) ∧
        (∀ l < m, ∑ j ∈ range n, e l j * x j = d l)) := by
    intro x
    constructor
    · intro hx
      refine ⟨fun r => hx (.inl r), fun l hl => ?_⟩
      have h1 := hx (.inr (.inl ⟨l, hl⟩))
      have h2 := hx (.inr (.inr ⟨l, hl⟩))
      have h1' : ∑ j ∈ range n, e l j * x j ≤ d l := h1
      have h2' : ∑ j ∈ range n, - e l j * x j ≤ - d l := h2
      rw [hneg] at h2'
      linarith
    · rintro ⟨h1, h2⟩ r
      rcases r with r | l | l
      · exact h1 r
      · exact le_of_eq (h2 l.val l.isLt)
      · show ∑ j ∈ range n, - e l.val j * x j ≤ - d l.val
        rw [hneg, h2 l.val l.isLt]
  obtain ⟨y, hy0, hyA, hyB⟩ := affine_farkas_cols n (ι ⊕ Fin m ⊕ Fin m) A B c γ
    (by obtain ⟨x, hx⟩ := hfeas; exact ⟨x, (hrows x).mpr hx⟩)
    (by intro x hx; obtain ⟨h1, h2⟩ := (hrows x).mp hx; exact himp x h1 h2)
  refine ⟨fun r => y (.inl r), extF (fun l : Fin m => y (.inr (.inl l)) - y (.inr (.inr l))),
    fun r => hy0 _, ?_, ?_⟩
  · intro x
    have h1 : ∑ j ∈ range n, c j * x j = ∑ r, y r * ∑ j ∈ range n, A r j * x j := by
      have : ∀ j ∈ range n, c j * x j = ∑ r, y r * (A r j * x j) := by
        intro j hj
        rw [← hyA j (Finset.mem_range.mp hj), Finset.sum_mul]
        apply Finset.sum_congr rfl; intro r _; ring
      rw [Finset.sum_congr rfl this, Finset.sum_comm]
      apply Finset.sum_congr rfl; intro r _
      rw [Finset.mul_sum]
    rw [h1, Fintype.sum_sum_type, Fintype.sum_sum_type]
    congr 1
    rw [← sum_fin_extF' (fun l : Fin m => y (.inr (.inl l)) - y (.inr (.inr l)))
      (fun l => ∑ j ∈ range n, e l j * x j), ← Finset.sum_add_distrib]
    apply Finset.sum_congr rfl; intro l _
    show _ = y (.inr (.inl l)) * (∑ j ∈ range n, e l.val j * x j)
      + y (.inr (.inr l)) * (∑ j ∈ range n, - e l.val j * x j)
    rw [hneg]; ring
  · rw [Fintype.sum_sum_type, Fintype.sum_sum_type] at hyB
    rw [← sum_fin_extF' (fun l : Fin m => y (.inr (.inl l)) - y (.inr (.inr l))) d]
    have : ∑ l : Fin m, (y (.inr (.inl l)) - y (.inr (.inr l))) * d l.val
        = ∑ l : Fin m, y (.inr (.inl l)) * B (.inr (.inl l))
          + ∑ l : Fin m, y (.inr (.inr l)) * B (.inr (.inr l)) := by
      rw [← Finset.sum_add_distrib]
      apply Finset.sum_congr rfl; intro l _
      show _ = y (.inr (.inl l)) * d l.val + y (.inr (.inr l)) * (- d l.val)
      ring
    rw [this]
    exact hyB

/-! ### Lifted sets with lifting columns -/

/-- **Admissible lifted point**: the lifted ambiguity set as finitely many rows over `N` columns
`ζ` (model: `(mixSupport pro exps).Feas`, whose columns are the probabilities, the scaled means and
the lifting columns of the probability / expectation programs). -/
def AdmL {ι : Type} [Fintype ι] (g : ι → ℕ → K) (h : ι → K) (N : ℕ) (ζ : ℕ → K) : Prop :=
  ∀ r, ∑ c ∈ range N, g r c * ζ c ≤ h r

/-- the lifted point `ζ` carries the probabilities (at the columns `pc s`) and the scaled means (at
the columns `mc k j`) induced by the vertex distribution `w` -/
def Induces (S nE nz nV : ℕ) (vtx : ℕ → ℕ → ℕ → K) (Ev : ℕ → ℕ → Prop)
    [∀ k s, Decidable (Ev k s)] (pc : ℕ → ℕ) (mc : ℕ → ℕ → ℕ) (w : ℕ → ℕ → K) (ζ : ℕ → K) : Prop :=
  (∀ s < S, ζ (pc s) = pOf nV w s) ∧ (∀ k < nE, ∀ j < nz, ζ (mc k j) = muOf S nV vtx Ev w k j)

lemma pOf_congr (nV : ℕ) (w w' : ℕ → ℕ → K) (s : ℕ) (h : ∀ i < nV, w s i = w' s i) :
    pOf nV w s = pOf nV w' s := by
  unfold pOf
  apply Finset.sum_congr rfl; intro i hi; exact h i (Finset.mem_range.mp hi)

lemma muOf_congr (S nV : ℕ) (vtx : ℕ → ℕ → ℕ → K) (Ev : ℕ → ℕ → Prop) [∀ k s, Decidable (Ev k s)]
    (w w' : ℕ → ℕ → K) (k j : ℕ) (h : ∀ s < S, ∀ i < nV, w s i = w' s i) :
    muOf S nV vtx Ev w k j = muOf S nV vtx Ev w' k j := by
  unfold muOf
  apply Finset.sum_congr rfl; intro s hs
  by_cases hk : Ev k s
  · rw [if_pos hk, if_pos hk]
    apply Finset.sum_congr rfl; intro i hi
    rw [h s (Finset.mem_range.mp hs) i (Finset.mem_range.mp hi)]
  · rw [if_neg hk, if_neg hk]

lemma coefW_neg (nE nz : ℕ) (vtx : ℕ → ℕ → ℕ → K) (Ev : ℕ → ℕ → Prop) [∀ k s, Decidable (Ev k s)]
    (a : ℕ → K) (b : ℕ → ℕ → K) (s i : ℕ) :
    coefW nE nz vtx Ev (fun s => - a s) (fun k j => - b k j) s i = - coefW nE nz vtx Ev a b s i := by
  unfold coefW
  rw [neg_add, ← Finset.sum_neg_distrib]
  congr 1
  apply Finset.sum_congr rfl; intro k _
  by_cases hk : Ev k s
  · simp only [if_pos hk]
    rw [← Finset.sum_neg_distrib]
    apply Finset.sum_congr rfl; intro j _; ring
  · simp only [if_neg hk]; simp

/-- a double sum against the indicator of one pair -/
lemma sum_indicator2 (S nV s0 i0 : ℕ) (hs : s0 < S) (hi : i0 < nV) (F : ℕ → ℕ → K) :
    ∑ s ∈ range S, ∑ i ∈ range nV, F s i * (if s = s0 ∧ i = i0 then 1 else 0) = F s0 i0 := by
  rw [Finset.sum_eq_single s0]
  · rw [Finset.sum_eq_single i0]
    · simp
    · intro i _ hne; simp [hne]
    · intro hn; exact absurd (Finset.mem_range.mpr hi) hn
  · intro s _ hne
    apply Finset.sum_eq_zero; intro i _; simp [hne]
  · intro hn; exact absurd (Finset.mem_range.mpr hs) hn

section
variable (S nE nz nV N : ℕ) (vtx : ℕ → ℕ → ℕ → K) (Ev : ℕ → ℕ → Prop) [∀ k s, Decidable (Ev k s)]
  (pc : ℕ → ℕ) (mc : ℕ → ℕ → ℕ)

/-- the weights carried by the first `S·nV` columns -/
def wOf (x : ℕ → K) : ℕ → ℕ → K := fun s i => x (s * nV + i)
/-- the lifted point carried by the columns behind them -/
def zOf (x : ℕ → K) : ℕ → K := fun c => x (S * nV + c)

/-- the assignment `[w | ζ]` -/
def xOf (w : ℕ → ℕ → K) (ζ : ℕ → K) : ℕ → K :=
  fun c => if c < S * nV then w (c / nV) (c % nV) else ζ (c - S * nV)

lemma wOf_xOf (w : ℕ → ℕ → K) (ζ : ℕ → K) (s i : ℕ) (hs : s < S) (hi : i < nV) :
    wOf nV (xOf S nV w ζ) s i = w s i := by
  unfold wOf xOf
  obtain ⟨e1, e2⟩ := flat_div_mod nV s i hi
  rw [if_pos (flat_lt S nV s i hs hi), e1, e2]

lemma zOf_xOf (w : ℕ → ℕ → K) (ζ : ℕ → K) : zOf S nV (xOf S nV w ζ) = ζ := by
  funext c
  unfold zOf xOf
  rw [if_neg (by omega), Nat.add_sub_cancel_left]

/-- split a sum over the columns `[w | ζ]` -/
lemma sum_split (F x : ℕ → K) :
    ∑ c ∈ range (S * nV + N), F c * x c
      = ∑ s ∈ range S, ∑ i ∈ range nV, F (s * nV + i) * wOf nV x s i
        + ∑ c ∈ range N, F (S * nV + c) * zOf S nV x c := by
  rw [Finset.sum_range_add, sum_flat]
  rfl

/-- coefficients of the link row `ζ(pc s) - Σ_i w s i = 0` -/
def rowP (s : ℕ) : ℕ → K := fun c =>
  if c < S * nV then (if c / nV = s then -1 else 0) else (if c - S * nV = pc s then 1 else 0)

/-- coefficients of the link row `ζ(mc k j) - Σ_{s ∈ E_k} Σ_i w s i·vtx s i j = 0` -/
def rowM (k j : ℕ) : ℕ → K := fun c =>
  if c < S * nV then (if Ev k (c / nV) then - vtx (c / nV) (c % nV) j else 0)
  else (if c - S * nV = mc k j then 1 else 0)

/-- coefficients of a row of the lifted set -/
def rowG {ι : Type} (g : ι → ℕ → K) (r : ι) : ℕ → K := fun c =>
  if c < S * nV then 0 else g r (c - S * nV)

lemma eval_rowG {ι : Type} (g : ι → ℕ → K) (r : ι) (x : ℕ → K) :
    ∑ c ∈ range (S * nV + N), rowG S nV g r c * x c = ∑ c ∈ range N, g r c * zOf S nV x c := by
  rw [sum_split]
  have h1 : ∑ s ∈ range S, ∑ i ∈ range nV, rowG S nV g r (s * nV + i) * wOf nV x s i = 0 := by
    apply Finset.sum_eq_zero; intro s hs
    apply Finset.sum_eq_zero; intro i hi
    unfold rowG
    rw [if_pos (flat_lt S nV s i (Finset.mem_range.mp hs) (Finset.mem_range.mp hi)), zero_mul]
  rw [h1, zero_add]
  apply Finset.sum_congr rfl; intro c _
  unfold rowG
  rw [if_neg (by omega), Nat.add_sub_cancel_left]

lemma eval_rowP (s0 : ℕ) (hs0 : s0 < S) (hpc : pc s0 < N) (x : ℕ → K) :
    ∑ c ∈ range (S * nV + N), rowP S nV pc s0 c * x c
      = zOf S nV x (pc s0) - pOf nV (wOf nV x) s0 := by
  rw [sum_split]
  have h1 : ∑ s ∈ range S, ∑ i ∈ range nV, rowP S nV pc s0 (s * nV + i) * wOf nV x s i
      = - pOf nV (wOf nV x) s0 := by
    have e : ∀ s ∈ range S, ∑ i ∈ range nV, rowP S nV pc s0 (s * nV + i) * wOf nV x s i
        = if s = s0 then - pOf nV (wOf nV x) s else 0 := by
      intro s hs
      by_cases hss : s = s0
      · rw [if_pos hss]
        unfold pOf
        rw [← Finset.sum_neg_distrib]
        apply Finset.sum_congr rfl; intro i hi
        obtain ⟨e1, _⟩ := flat_div_mod nV s i (Finset.mem_range.mp hi)
        unfold rowP
        rw [if_pos (flat_lt S nV s i (Finset.mem_range.mp hs) (Finset.mem_range.mp hi)), e1,
          if_pos hss]
        ring
      · rw [if_neg hss]
        apply Finset.sum_eq_zero; intro i hi
        obtain ⟨e1, _⟩ := flat_div_mod nV s i (Finset.mem_range.mp hi)
        unfold rowP
        rw [if_pos (flat_lt S nV s i (Finset.mem_range.mp hs) (Finset.mem_range.mp hi)), e1,
          if_neg hss, zero_mul]
    rw [Finset.sum_congr rfl e, Finset.sum_ite_eq', if_pos (Finset.mem_range.mpr hs0)]
  have h2 : ∑ c ∈ range N, rowP S nV pc s0 (S * nV + c) * zOf S nV x c = zOf S nV x (pc s0) := by
    have e : ∀ c ∈ range N, rowP S nV pc s0 (S * nV + c) * zOf S nV x c
        = if c = pc s0 then zOf S nV x c else 0 := by
      intro c _
      unfold rowP
      rw [if_neg (by omega), Nat.add_sub_cancel_left]
      split_ifs <;> simp
    rw [Finset.sum_congr rfl e, Finset.sum_ite_eq', if_pos (Finset.mem_range.mpr hpc)]
  rw [h1, h2]; ring

lemma eval_rowM (k j : ℕ) (hmc : mc k j < N) (x : ℕ → K) :
    ∑ c ∈ range (S * nV + N), rowM S nV vtx Ev mc k j c * x c
      = zOf S nV x (mc k j) - muOf S nV vtx Ev (wOf nV x) k j := by
  rw [sum_split]
  have h1 : ∑ s ∈ range S, ∑ i ∈ range nV, rowM S nV vtx Ev mc k j (s * nV + i) * wOf nV x s i
      = - muOf S nV vtx Ev (wOf nV x) k j := by
    unfold muOf
    rw [← Finset.sum_neg_distrib]
    apply Finset.sum_congr rfl; intro s hs
    have e : ∀ i ∈ range nV, rowM S nV vtx Ev mc k j (s * nV + i) * wOf nV x s i
        = if Ev k s then - (wOf nV x s i * vtx s i j) else 0 := by
      intro i hi
      obtain ⟨e1, e2⟩ := flat_div_mod nV s i (Finset.mem_range.mp hi)
      unfold rowM
      rw [if_pos (flat_lt S nV s i (Finset.mem_range.mp hs) (Finset.mem_range.mp hi)), e1, e2]
      split_ifs <;> ring
    rw [Finset.sum_congr rfl e]
    by_cases hk : Ev k s
    · simp only [if_pos hk]; rw [Finset.sum_neg_distrib]
    · simp only [if_neg hk]; simp
  have h2 : ∑ c ∈ range N, rowM S nV vtx Ev mc k j (S * nV + c) * zOf S nV x c
      = zOf S nV x (mc k j) := by
    have e : ∀ c ∈ range N, rowM S nV vtx Ev mc k j (S * nV + c) * zOf S nV x c
        = if c = mc k j then zOf S nV x c else 0 := by
      intro c _
      unfold rowM
      rw [if_neg (by omega), Nat.add_sub_cancel_left]
      split_ifs <;> simp
    rw [Finset.sum_congr rfl e, Finset.sum_ite_eq', if_pos (Finset.mem_range.mpr hmc)]
  rw [h1, h2]; ring

/-- inequality rows of the system in `[w | ζ]`: the rows of the lifted set and `-w_t ≤ 0` -/
def lA {ι : Type} (g : ι → ℕ → K) : ι ⊕ Fin (S * nV) → ℕ → K
  | .inl r => rowG S nV g r
  | .inr t => fun c => if c = t.val then -1 else 0

/-- equality rows: `S` link rows for the probabilities, then `nE·nz` for the scaled means -/
def lE (l : ℕ) : ℕ → K :=
  if l < S then rowP S nV pc l else rowM S nV vtx Ev mc ((l - S) / nz) ((l - S) % nz)

lemma eval_nn {ι : Type} (g : ι → ℕ → K) (t : Fin (S * nV)) (x : ℕ → K) :
    ∑ c ∈ range (S * nV + N), lA S nV g (.inr t) c * x c = - x t.val := by
  show ∑ c ∈ range (S * nV + N), (if c = t.val then (-1:K) else 0) * x c = _
  rw [Finset.sum_eq_single t.val]
  · simp
  · intro c _ hc; simp [hc]
  · intro hn
    have := t.isLt
    exact absurd (Finset.mem_range.mpr (by omega)) hn

/-- a sum over the equality rows -/
lemma sum_lE (lam : ℕ → K) (G : ℕ → K) (GP : ℕ → K) (GM : ℕ → ℕ → K)
    (hP : ∀ s < S, G s = GP s) (hM : ∀ k < nE, ∀ j < nz, G (S + (k * nz + j)) = GM k j) :
    ∑ l ∈ range (S + nE * nz), lam l * G l
      = ∑ s ∈ range S, lam s * GP s
        + ∑ k ∈ range nE, ∑ j ∈ range nz, lam (S + (k * nz + j)) * GM k j := by
  rw [Finset.sum_range_add, sum_flat]
  congr 1
  · apply Finset.sum_congr rfl; intro s hs; rw [hP s (Finset.mem_range.mp hs)]
  · apply Finset.sum_congr rfl; intro k hk
    apply Finset.sum_congr rfl; intro j hj
    rw [hM k (Finset.mem_range.mp hk) j (Finset.mem_range.mp hj)]

lemma lE_P (s : ℕ) (hs : s < S) : lE S nz nV vtx Ev pc mc s = rowP S nV pc s := by
  unfold lE; rw [if_pos hs]

lemma lE_M (k j : ℕ) (hj : j < nz) :
    lE S nz nV vtx Ev pc mc (S + (k * nz + j)) = rowM S nV vtx Ev mc k j := by
  unfold lE
  obtain ⟨e1, e2⟩ := flat_div_mod nz k j hj
  rw [if_neg (by omega), Nat.add_sub_cancel_left, e1, e2]

/-- **Completeness on vertices for a lifted set with lifting columns** (core form; see
`C04.dro_complete_vertex_lift`). -/
theorem dro_complete_vertex_lift_core {ι : Type} [Fintype ι] (g : ι → ℕ → K) (h : ι → K)
    (hpc : ∀ s < S, pc s < N) (hmc : ∀ k < nE, ∀ j < nz, mc k j < N)
    (fv : ℕ → ℕ → K)
    (hfeas : ∃ (w : ℕ → ℕ → K) (ζ : ℕ → K), (∀ s < S, ∀ i < nV, 0 ≤ w s i) ∧ AdmL g h N ζ ∧
      Induces S nE nz nV vtx Ev pc mc w ζ)
    (hworst : ∀ (w : ℕ → ℕ → K) (ζ : ℕ → K), (∀ s < S, ∀ i < nV, 0 ≤ w s i) → AdmL g h N ζ →
      Induces S nE nz nV vtx Ev pc mc w ζ →
      ∑ s ∈ range S, ∑ i ∈ range nV, w s i * fv s i ≤ 0) :
    ∃ (α : ℕ → K) (β : ℕ → ℕ → K),
      (∀ s < S, ∀ i < nV, fv s i ≤ α s + ∑ k ∈ range nE,
        if Ev k s then ∑ j ∈ range nz, β k j * vtx s i j else 0) ∧
      (∀ ζ, AdmL g h N ζ →
        ∑ s ∈ range S, α s * ζ (pc s)
          + ∑ k ∈ range nE, ∑ j ∈ range nz, β k j * ζ (mc k j) ≤ 0) := by
  -- what the rows say about `x = [w | ζ]`
  have hineq : ∀ x : ℕ → K,
      (∀ r, ∑ c ∈ range (S * nV + N), lA S nV g r c * x c
          ≤ vB S nV h r) ↔
        (AdmL g h N (zOf S nV x) ∧ ∀ s < S, ∀ i < nV, 0 ≤ wOf nV x s i) := by
    intro x
    constructor
    · intro hx
      refine ⟨fun r => ?_, fun s hs i hi => ?_⟩
      · have := hx (.inl r)
        rw [show lA S nV g (.inl r) = rowG S nV g r from rfl, eval_rowG] at this
        exact this
      · have := hx (.inr ⟨s * nV + i, flat_lt S nV s i hs hi⟩)
        rw [eval_nn] at this
        have h0 : vB S nV h (.inr ⟨s * nV + i, flat_lt S nV s i hs hi⟩) = 0 := rfl
        rw [h0] at this
        show 0 ≤ x (s * nV + i)
        simpa using this
    · rintro ⟨h1, h2⟩ r
      rcases r with r | t
      · rw [show lA S nV g (.inl r) = rowG S nV g r from rfl, eval_rowG]
        exact h1 r
      · rw [eval_nn]
        obtain ⟨a1, a2⟩ := unflat_lt S nV t.val t.isLt
        have := h2 _ a1 _ a2
        unfold wOf at this
        rw [Nat.div_add_mod' t.val nV] at this
        show - x t.val ≤ 0
        linarith
  have heq : ∀ x : ℕ → K,
      (∀ l < S + nE * nz, ∑ c ∈ range (S * nV + N), lE S nz nV vtx Ev pc mc l c * x c
          = (fun _ => (0:K)) l) ↔
        Induces S nE nz nV vtx Ev pc mc (wOf nV x) (zOf S nV x) := by
    intro x
    constructor
    · intro hx
      refine ⟨fun s hs => ?_, fun k hk j hj => ?_⟩
      · have := hx s (by omega)
        rw [lE_P S nz nV vtx Ev pc mc s hs, eval_rowP S nV N pc s hs (hpc s hs)] at this
        linarith
      · have hl : S + (k * nz + j) < S + nE * nz := by
          have := flat_lt nE nz k j hk hj; omega
        have := hx _ hl
        rw [lE_M S nz nV vtx Ev pc mc k j hj, eval_rowM S nV N vtx Ev mc k j (hmc k hk j hj)] at this
        linarith
    · rintro ⟨h1, h2⟩ l hl
      by_cases hls : l < S
      · rw [lE_P S nz nV vtx Ev pc mc l hls, eval_rowP S nV N pc l hls (hpc l hls), h1 l hls]
        ring
      · obtain ⟨a1, a2⟩ := unflat_lt nE nz (l - S) (by omega)
        have hl' : l = S + ((l - S) / nz * nz + (l - S) % nz) := by
          rw [Nat.div_add_mod' (l - S) nz]; omega
        rw [hl', lE_M S nz nV vtx Ev pc mc _ _ a2, eval_rowM S nV N vtx Ev mc _ _ (hmc _ a1 _ a2),
          h2 _ a1 _ a2]
        ring
  have hcost : ∀ x : ℕ → K,
      ∑ c ∈ range (S * nV + N), (fun c => if c < S * nV then fv (c / nV) (c % nV) else 0) c * x c
        = ∑ s ∈ range S, ∑ i ∈ range nV, wOf nV x s i * fv s i := by
    intro x
    rw [sum_split]
    have h2 : ∑ c ∈ range N, (fun c => if c < S * nV then fv (c / nV) (c % nV) else 0)
        (S * nV + c) * zOf S nV x c = 0 := by
      apply Finset.sum_eq_zero; intro c _
      show (if S * nV + c < S * nV then fv ((S * nV + c) / nV) ((S * nV + c) % nV) else 0)
        * zOf S nV x c = 0
      rw [if_neg (by omega), zero_mul]
    rw [h2, add_zero]
    apply Finset.sum_congr rfl; intro s hs
    apply Finset.sum_congr rfl; intro i hi
    obtain ⟨e1, e2⟩ := flat_div_mod nV s i (Finset.mem_range.mp hi)
    show (if s * nV + i < S * nV then fv ((s * nV + i) / nV) ((s * nV + i) % nV) else 0) * _ = _
    rw [if_pos (flat_lt S nV s i (Finset.mem_range.mp hs) (Finset.mem_range.mp hi)), e1, e2, mul_comm]
  obtain ⟨y, lam, hy0, hpair, hval⟩ := farkas_eq_pairing (S * nV + N) (S + nE * nz)
    (ι ⊕ Fin (S * nV)) (lA S nV g) (vB S nV h) (lE S nz nV vtx Ev pc mc) (fun _ => 0)
    (fun c => if c < S * nV then fv (c / nV) (c % nV) else 0) 0
    (by
      obtain ⟨w, ζ, hw, hadm, hind⟩ := hfeas
      refine ⟨xOf S nV w ζ, (hineq _).mpr ⟨?_, ?_⟩, (heq _).mpr ?_⟩
      · rw [zOf_xOf]; exact hadm
      · intro s hs i hi; rw [wOf_xOf S nV w ζ s i hs hi]; exact hw s hs i hi
      · rw [zOf_xOf]
        refine ⟨fun s hs => ?_, fun k hk j hj => ?_⟩
        · rw [hind.1 s hs]
          exact (pOf_congr nV _ _ s (fun i hi => wOf_xOf S nV w ζ s i hs hi)).symm
        · rw [hind.2 k hk j hj]
          exact (muOf_congr S nV vtx Ev _ _ k j
            (fun s hs i hi => wOf_xOf S nV w ζ s i hs hi)).symm)
    (by
      intro x hx1 hx2
      obtain ⟨hadm, hw⟩ := (hineq x).mp hx1
      have hind := (heq x).mp hx2
      rw [hcost]
      exact hworst _ _ hw hadm hind)
  -- the pairing identity in terms of `w`, `ζ`
  have hpair' : ∀ x : ℕ → K,
      ∑ r, y (.inl r) * (∑ c ∈ range N, g r c * zOf S nV x c)
        + ∑ t : Fin (S * nV), y (.inr t) * (- x t.val)
        + (∑ s ∈ range S, lam s * (zOf S nV x (pc s) - pOf nV (wOf nV x) s)
          + ∑ k ∈ range nE, ∑ j ∈ range nz, lam (S + (k * nz + j))
              * (zOf S nV x (mc k j) - muOf S nV vtx Ev (wOf nV x) k j))
      = ∑ s ∈ range S, ∑ i ∈ range nV, wOf nV x s i * fv s i := by
    intro x
    have := hpair x
    rw [hcost, Fintype.sum_sum_type,
      sum_lE S nE nz lam _ (fun s => zOf S nV x (pc s) - pOf nV (wOf nV x) s)
        (fun k j => zOf S nV x (mc k j) - muOf S nV vtx Ev (wOf nV x) k j)
        (fun s hs => by
          rw [lE_P S nz nV vtx Ev pc mc s hs, eval_rowP S nV N pc s hs (hpc s hs)])
        (fun k hk j hj => by
          rw [lE_M S nz nV vtx Ev pc mc k j hj, eval_rowM S nV N vtx Ev mc k j (hmc k hk j hj)])]
      at this
    rw [← this]
    congr 1
    congr 1
    · apply Finset.sum_congr rfl; intro r _
      rw [show lA S nV g (.inl r) = rowG S nV g r from rfl, eval_rowG]
    · apply Finset.sum_congr rfl; intro t _
      rw [eval_nn]
  refine ⟨fun s => - lam s, fun k j => - lam (S + (k * nz + j)), ?_, ?_⟩
  · -- scenario rows at the vertices: the unit weight on vertex `(s0, i0)`
    intro s0 hs0 i0 hi0
    set w0 : ℕ → ℕ → K := fun s i => if s = s0 ∧ i = i0 then 1 else 0 with hw0
    have hx := hpair' (xOf S nV w0 (fun _ => 0))
    rw [zOf_xOf] at hx
    have ew : ∀ s < S, ∀ i < nV, wOf nV (xOf S nV w0 fun _ => 0) s i = w0 s i :=
      fun s hs i hi => wOf_xOf S nV w0 _ s i hs hi
    have e1 : ∑ s ∈ range S, ∑ i ∈ range nV, wOf nV (xOf S nV w0 fun _ => 0) s i * fv s i
        = fv s0 i0 := by
      have : ∀ s ∈ range S, ∀ i ∈ range nV, wOf nV (xOf S nV w0 fun _ => 0) s i * fv s i
          = fv s i * (if s = s0 ∧ i = i0 then 1 else 0) := by
        intro s hs i hi
        rw [ew s (Finset.mem_range.mp hs) i (Finset.mem_range.mp hi), mul_comm]
      rw [Finset.sum_congr rfl (fun s hs => Finset.sum_congr rfl (this s hs))]
      exact sum_indicator2 S nV s0 i0 hs0 hi0 fv
    have e2 : ∑ s ∈ range S, lam s * ((fun _ => (0:K)) (pc s)
            - pOf nV (wOf nV (xOf S nV w0 fun _ => 0)) s)
          + ∑ k ∈ range nE, ∑ j ∈ range nz, lam (S + (k * nz + j))
              * ((fun _ => (0:K)) (mc k j)
                - muOf S nV vtx Ev (wOf nV (xOf S nV w0 fun _ => 0)) k j)
        = - coefW nE nz vtx Ev lam (fun k j => lam (S + (k * nz + j))) s0 i0 := by
      have e3 := lin_w_eq S nE nz nV vtx Ev lam (fun k j => lam (S + (k * nz + j))) w0
      rw [sum_indicator2 S nV s0 i0 hs0 hi0
        (coefW nE nz vtx Ev lam (fun k j => lam (S + (k * nz + j))))] at e3
      rw [← e3, neg_add, ← Finset.sum_neg_distrib, ← Finset.sum_neg_distrib]
      congr 1
      · apply Finset.sum_congr rfl; intro s hs
        rw [pOf_congr nV _ w0 s (fun i hi => ew s (Finset.mem_range.mp hs) i hi)]
        ring
      · apply Finset.sum_congr rfl; intro k _
        rw [← Finset.sum_neg_distrib]
        apply Finset.sum_congr rfl; intro j _
        rw [muOf_congr S nV vtx Ev _ w0 k j ew]
        ring
    have e4 : ∑ r, y (.inl r) * (∑ c ∈ range N, g r c * (fun _ => (0:K)) c) = 0 := by
      apply Finset.sum_eq_zero; intro r _
      simp
    have e5 : ∑ t : Fin (S * nV), y (.inr t) * (- xOf S nV w0 (fun _ => 0) t.val) ≤ 0 := by
      apply Finset.sum_nonpos; intro t _
      apply mul_nonpos_of_nonneg_of_nonpos (hy0 _)
      unfold xOf
      rw [if_pos t.isLt]
      show - (if t.val / nV = s0 ∧ t.val % nV = i0 then (1:K) else 0) ≤ 0
      split_ifs <;> norm_num
    rw [e1, e2, e4] at hx
    have e6 := coefW_neg nE nz vtx Ev lam (fun k j => lam (S + (k * nz + j))) s0 i0
    unfold coefW at e6
    unfold coefW at hx
    linarith
  · -- the first-stage row: zero weights, the lifted point `ζ`
    intro ζ hadm
    have hx := hpair' (xOf S nV (fun _ _ => 0) ζ)
    rw [zOf_xOf] at hx
    have ew : ∀ s < S, ∀ i < nV, wOf nV (xOf S nV (fun _ _ => (0:K)) ζ) s i = 0 :=
      fun s hs i hi => wOf_xOf S nV _ ζ s i hs hi
    have e1 : ∑ s ∈ range S, ∑ i ∈ range nV, wOf nV (xOf S nV (fun _ _ => (0:K)) ζ) s i * fv s i
        = 0 := by
      apply Finset.sum_eq_zero; intro s hs
      apply Finset.sum_eq_zero; intro i hi
      rw [ew s (Finset.mem_range.mp hs) i (Finset.mem_range.mp hi), zero_mul]
    have e2 : ∑ t : Fin (S * nV), y (.inr t) * (- xOf S nV (fun _ _ => (0:K)) ζ t.val) = 0 := by
      apply Finset.sum_eq_zero; intro t _
      unfold xOf
      rw [if_pos t.isLt]; ring
    have e3 : ∀ s ∈ range S, lam s * (ζ (pc s) - pOf nV (wOf nV (xOf S nV (fun _ _ => (0:K)) ζ)) s)
        = lam s * ζ (pc s) := by
      intro s hs
      have : pOf nV (wOf nV (xOf S nV (fun _ _ => (0:K)) ζ)) s = 0 := by
        unfold pOf
        apply Finset.sum_eq_zero; intro i hi
        exact ew s (Finset.mem_range.mp hs) i (Finset.mem_range.mp hi)
      rw [this, sub_zero]
    have e4 : ∀ k ∈ range nE, ∀ j ∈ range nz, lam (S + (k * nz + j))
          * (ζ (mc k j) - muOf S nV vtx Ev (wOf nV (xOf S nV (fun _ _ => (0:K)) ζ)) k j)
        = lam (S + (k * nz + j)) * ζ (mc k j) := by
      intro k _ j _
      have : muOf S nV vtx Ev (wOf nV (xOf S nV (fun _ _ => (0:K)) ζ)) k j = 0 := by
        unfold muOf
        apply Finset.sum_eq_zero; intro s hs
        split_ifs
        · apply Finset.sum_eq_zero; intro i hi
          rw [ew s (Finset.mem_range.mp hs) i (Finset.mem_range.mp hi), zero_mul]
        · rfl
      rw [this, sub_zero]
    rw [e1, e2, Finset.sum_congr rfl e3,
      Finset.sum_congr rfl (fun k hk => Finset.sum_congr rfl (e4 k hk))] at hx
    have h1 : ∑ r, y (.inl r) * (∑ c ∈ range N, g r c * ζ c) ≤ ∑ r, y (.inl r) * h r := by
      apply Finset.sum_le_sum; intro r _
      exact mul_le_mul_of_nonneg_left (hadm r) (hy0 _)
    rw [Fintype.sum_sum_type] at hval
    have h2 : ∑ t : Fin (S * nV), y (.inr t) * vB S nV h (.inr t) = 0 := by
      apply Finset.sum_eq_zero; intro t _
      show y (.inr t) * 0 = 0
      ring
    have h3 : ∑ r, y (.inl r) * vB S nV h (.inl r) = ∑ r, y (.inl r) * h r := rfl
    have h4 : ∑ l ∈ range (S + nE * nz), lam l * (fun _ => (0:K)) l = 0 := by
      apply Finset.sum_eq_zero; intro l _; simp
    have h5 : ∑ s ∈ range S, - lam s * ζ (pc s)
          + ∑ k ∈ range nE, ∑ j ∈ range nz, - lam (S + (k * nz + j)) * ζ (mc k j)
        = - (∑ s ∈ range S, lam s * ζ (pc s)
          + ∑ k ∈ range nE, ∑ j ∈ range nz, lam (S + (k * nz + j)) * ζ (mc k j)) := by
      rw [neg_add, ← Finset.sum_neg_distrib, ← Finset.sum_neg_distrib]
      congr 1
      · apply Finset.sum_congr rfl; intro s _; ring
      · apply Finset.sum_congr rfl; intro k _
        rw [← Finset.sum_neg_distrib]
        apply Finset.sum_congr rfl; intro j _; ring
    rw [h5]
    linarith

end

/-! ### Example data shared by `RsomeV/Props/C04.lean` and `RsomeV/Props/C04Compiled.lean`

One scenario, one random component with support `[-1, 1]` (vertices `-1` and `1`), integrand
`f(z) = |z| + z - c = max(z, -z) + z - c`. -/

def exVtx : ℕ → ℕ → ℕ → ℚ := fun _ i _ => if i = 0 then -1 else 1

def exF (c : ℚ) : ℕ → (ℕ → ℚ) → ℚ := fun _ z => max (z 0) (-(z 0)) + z 0 - c

/-- the worst-case vertex distribution: `1/4` on `-1`, `3/4` on `1` -/
def exW : ℕ → ℕ → ℚ := fun _ i => if i = 0 then 1/4 else 3/4

lemma exF_v0 (c : ℚ) (s : ℕ) : exF c s (exVtx s 0) = -c := by
  simp only [exF, exVtx, if_true]
  rw [max_eq_right (by norm_num)]; ring

lemma exF_v1 (c : ℚ) (s : ℕ) : exF c s (exVtx s 1) = 2 - c := by
  simp only [exF, exVtx, one_ne_zero, if_false]
  rw [max_eq_left (by norm_num)]; ring

/-- `|z| + z - c` is vertex-convex on `[-1, 1]` -/
lemma exF_convex (c : ℚ) : ∀ s < 1, VtxConvex 1 2 (exVtx s) (exF c s) := by
  intro s _ lam h0 h1 z hz
  have hz0 := hz 0 (by norm_num)
  simp only [Finset.sum_range_succ, Finset.sum_range_zero, zero_add] at h1 hz0 ⊢
  rw [exF_v0, exF_v1]
  have e0 : exVtx s 0 0 = -1 := by simp [exVtx]
  have e1 : exVtx s 1 0 = 1 := by simp [exVtx]
  rw [e0, e1] at hz0
  have p0 := h0 0 (by norm_num)
  have p1 := h0 1 (by norm_num)
  have hm : max (z 0) (-(z 0)) ≤ lam 0 + lam 1 := max_le (by linarith) (by linarith)
  have hc : lam 0 * c + lam 1 * c = c := by rw [← add_mul, h1, one_mul]
  show max (z 0) (-(z 0)) + z 0 - c ≤ _
  linarith

end RsomeV.C04
