import RsomeV.M.DualCert
import RsomeV.L.AtomsSoc
import Mathlib.Tactic.Linarith
import Mathlib.Tactic.Ring
import Mathlib.Data.List.GetD
import Mathlib.Algebra.BigOperators.Group.Finset.Basic
import Mathlib.Algebra.Order.BigOperators.Group.Finset
import Mathlib.Algebra.Order.BigOperators.Group.LocallyFinite

/-! Helper lemmas for `RsomeV/M/DualCert.lean`: the positions `ciarray == index` selects, the
split of a sum over the compiled rows into block sums and the epigraph row, the bound fold under
the side condition "at most one upper and one lower bound per entry", and weak duality for KKT
multipliers. -/

set_option linter.unusedSectionVars false
set_option linter.unusedSimpArgs false
set_option linter.unusedVariables false

namespace RsomeV.DualCert
open Finset

variable {K : Type} [Field K] [LinearOrder K] [IsStrictOrderedRing K]

/-! ### `ciarray == index` -/

/-- the `ciarray` entries of the rows `blockRows i Bs` -/
def ciBlocks : ℕ → List (LinBlock K) → List (Option ℕ)
  | _, [] => []
  | i, B :: Bs => List.replicate B.m (some i) ++ ciBlocks (i + 1) Bs

/-- first row of block `k` in the list `Bs` -/
def offs (Bs : List (LinBlock K)) (k : ℕ) : ℕ := ((Bs.take k).map (·.m)).sum

@[simp] lemma offs_zero (Bs : List (LinBlock K)) : offs Bs 0 = 0 := by simp [offs]
@[simp] lemma offs_cons_succ (B : LinBlock K) (Bs : List (LinBlock K)) (k : ℕ) :
    offs (B :: Bs) (k + 1) = B.m + offs Bs k := by simp [offs]

lemma rows_map_ci (B : LinBlock K) (i : ℕ) : (B.rows i).map (·.ci) = List.replicate B.m (some i) := by
  simp [LinBlock.rows, List.map_map, Function.comp_def, List.map_const']

@[simp] lemma rows_length (B : LinBlock K) (i : ℕ) : (B.rows i).length = B.m := by simp [LinBlock.rows]

lemma blockRows_map_ci (i : ℕ) (Bs : List (LinBlock K)) : (blockRows i Bs).map (·.ci) = ciBlocks i Bs := by
  induction Bs generalizing i with
  | nil => rfl
  | cons B Bs ih => simp [blockRows, ciBlocks, rows_map_ci, ih]

lemma blockRows_length (i : ℕ) (Bs : List (LinBlock K)) : (blockRows i Bs).length = offs Bs Bs.length := by
  induction Bs generalizing i with
  | nil => simp [blockRows]
  | cons B Bs ih => simp [blockRows, ih]

lemma posOf_append (l₁ l₂ : List (Option ℕ)) (idx off : ℕ) :
    posOf (l₁ ++ l₂) idx off = posOf l₁ idx off ++ posOf l₂ idx (off + l₁.length) := by
  simp [posOf, List.zipIdx_append, List.filterMap_append]

lemma posOf_replicate (m i idx off : ℕ) :
    posOf (List.replicate m (some i)) idx off = if i = idx then List.range' off m else [] := by
  induction m generalizing off with
  | zero => simp [posOf]
  | succ m ih =>
    have h := ih (off + 1)
    unfold posOf at h ⊢
    rw [List.replicate_succ, List.zipIdx_cons, List.filterMap_cons, h]
    by_cases hi : i = idx
    · simp [hi, List.range'_succ]
    · simp [hi]

lemma posOf_ciBlocks_lt (i : ℕ) (Bs : List (LinBlock K)) (idx off : ℕ) (h : idx < i) :
    posOf (ciBlocks i Bs) idx off = [] := by
  induction Bs generalizing i off with
  | nil => simp [ciBlocks, posOf]
  | cons B Bs ih =>
    rw [ciBlocks, posOf_append, posOf_replicate, ih (i + 1) _ (by omega)]
    simp [show i ≠ idx by omega]

/-- the rows with `ciarray == i + k` are exactly the rows of block `k` -/
lemma posOf_ciBlocks (i : ℕ) (Bs : List (LinBlock K)) (k off : ℕ) (hk : k < Bs.length) :
    posOf (ciBlocks i Bs) (i + k) off = List.range' (off + offs Bs k) (Bs.getD k default).m := by
  induction Bs generalizing i k off with
  | nil => simp at hk
  | cons B Bs ih =>
    rw [ciBlocks, posOf_append, posOf_replicate]
    cases k with
    | zero =>
      rw [posOf_ciBlocks_lt (i + 1) Bs _ _ (by omega)]
      simp
    | succ k =>
      have hk' : k < Bs.length := by simpa using hk
      have := ih (i + 1) k (off + (List.replicate B.m (some i)).length) hk'
      rw [show i + 1 + k = i + (k + 1) by omega] at this
      rw [this]
      simp [show i ≠ i + (k + 1) by omega, Nat.add_assoc]

lemma posOf_none (idx off : ℕ) : posOf [none] idx off = [] := by simp [posOf]

namespace UserLP

lemma ciarray_eq (U : UserLP K) : U.ciarray = ciBlocks U.base U.blocks ++ [none] := by
  simp [ciarray, rows, blockRows_map_ci, epiRow]

lemma offset_eq (U : UserLP K) (k : ℕ) : U.offset k = offs U.blocks k := rfl

lemma rows_length (U : UserLP K) : U.rows.length = offs U.blocks U.blocks.length + 1 := by
  simp [rows, blockRows_length]

end UserLP

/-- **read-back of a linear constraint**: `dual()` of block `k` returns `sign * π` on exactly the
rows of block `k`, in row order -/
theorem dualLin_block (U : UserLP K) (pi : ℕ → K) (k : ℕ) (hk : k < U.blocks.length) :
    dualLin U.sign U.ciarray pi (U.indexOf k) =
      (List.range (U.blocks.getD k default).m).map fun r => U.sign * pi (U.offset k + r) := by
  unfold dualLin
  rw [U.ciarray_eq, posOf_append, posOf_none, List.append_nil, UserLP.indexOf,
    posOf_ciBlocks _ _ _ _ hk, List.range'_eq_map_range, List.map_map]
  apply List.map_congr_left
  intro r _
  simp [UserLP.offset_eq, mul_comm]


/-! ### Sums over the compiled rows -/

/-- `∑ᵢ π(off+i) · g(rowᵢ)` over a list of rows -/
def rowSum (rows : List (CRow K)) (pi : ℕ → K) (off : ℕ) (g : CRow K → K) : K :=
  ∑ i ∈ range rows.length, pi (off + i) * g (rows.getD i default)

lemma rowSum_append (l₁ l₂ : List (CRow K)) (pi : ℕ → K) (off : ℕ) (g : CRow K → K) :
    rowSum (l₁ ++ l₂) pi off g = rowSum l₁ pi off g + rowSum l₂ pi (off + l₁.length) g := by
  unfold rowSum
  rw [List.length_append, Finset.sum_range_add]
  congr 1
  · apply Finset.sum_congr rfl
    intro i hi
    rw [List.getD_append _ _ _ _ (Finset.mem_range.mp hi)]
  · apply Finset.sum_congr rfl
    intro i _
    rw [List.getD_append_right _ _ _ _ (Nat.le_add_right _ _), Nat.add_sub_cancel_left, Nat.add_assoc]

lemma rowSum_rows (B : LinBlock K) (idx : ℕ) (pi : ℕ → K) (off : ℕ) (g : CRow K → K) :
    rowSum (B.rows idx) pi off g =
      ∑ r ∈ range B.m, pi (off + r) * g ⟨B.a r, B.b r, B.eq, some idx⟩ := by
  unfold rowSum
  rw [rows_length]
  apply Finset.sum_congr rfl
  intro r hr
  have hr' : r < B.m := Finset.mem_range.mp hr
  simp [LinBlock.rows, List.getD_eq_getElem?_getD, hr']

lemma rowSum_blockRows (i : ℕ) (Bs : List (LinBlock K)) (pi : ℕ → K) (off : ℕ) (g : CRow K → K) :
    rowSum (blockRows i Bs) pi off g =
      ∑ k ∈ range Bs.length, ∑ r ∈ range (Bs.getD k default).m,
        pi (off + offs Bs k + r) *
          g ⟨(Bs.getD k default).a r, (Bs.getD k default).b r, (Bs.getD k default).eq, some (i + k)⟩ := by
  induction Bs generalizing i off with
  | nil => simp [blockRows, rowSum]
  | cons B Bs ih =>
    rw [blockRows, rowSum_append, rowSum_rows, ih, List.length_cons, Finset.sum_range_succ', add_comm]
    congr 1
    · apply Finset.sum_congr rfl
      intro k _
      simp only [List.getD_cons_succ, offs_cons_succ, rows_length]
      apply Finset.sum_congr rfl
      intro r _
      rw [show off + B.m + offs Bs k + r = off + (B.m + offs Bs k) + r by omega,
        show i + 1 + k = i + (k + 1) by omega]

lemma rowSum_singleton (R : CRow K) (pi : ℕ → K) (off : ℕ) (g : CRow K → K) :
    rowSum [R] pi off g = pi off * g R := by
  simp [rowSum]

namespace UserLP

/-- number of user rows = index of the epigraph row -/
def epiIdx (U : UserLP K) : ℕ := offs U.blocks U.blocks.length

lemma compile_nr (U : UserLP K) : U.compile.nr = U.epiIdx + 1 := U.rows_length

/-- a sum over all compiled rows = the block sums + the epigraph row -/
lemma sum_rows (U : UserLP K) (pi : ℕ → K) (g : CRow K → K) :
    ∑ i ∈ range U.compile.nr, pi i * g (U.rows.getD i default) =
      ∑ k ∈ range U.blocks.length, ∑ r ∈ range (U.blocks.getD k default).m,
        pi (U.offset k + r) * g ⟨(U.blocks.getD k default).a r, (U.blocks.getD k default).b r,
          (U.blocks.getD k default).eq, some (U.base + k)⟩
      + pi U.epiIdx * g U.epiRow := by
  have h := rowSum_append (blockRows U.base U.blocks) [U.epiRow] pi 0 g
  rw [rowSum_blockRows, rowSum_singleton] at h
  simp only [Nat.zero_add] at h
  rw [blockRows_length] at h
  have h2 : ∑ i ∈ range U.compile.nr, pi i * g (U.rows.getD i default) =
      rowSum (blockRows U.base U.blocks ++ [U.epiRow]) pi 0 g := by
    unfold rowSum
    simp only [Nat.zero_add]
    rfl
  rw [h2, h]
  rfl

end UserLP


/-- the row at position `offs k + r` is row `r` of block `k` -/
lemma blockRows_getD (i : ℕ) (Bs : List (LinBlock K)) (k r : ℕ) (hk : k < Bs.length)
    (hr : r < (Bs.getD k default).m) :
    (blockRows i Bs).getD (offs Bs k + r) default =
      ⟨(Bs.getD k default).a r, (Bs.getD k default).b r, (Bs.getD k default).eq, some (i + k)⟩ := by
  induction Bs generalizing i k with
  | nil => simp at hk
  | cons B Bs ih =>
    cases k with
    | zero =>
      simp only [List.getD_cons_zero] at hr
      rw [blockRows, offs_zero, Nat.zero_add, List.getD_append _ _ _ _ (by simpa using hr)]
      simp [LinBlock.rows, List.getD_eq_getElem?_getD, hr]
    | succ k =>
      have hk' : k < Bs.length := by simpa using hk
      simp only [List.getD_cons_succ] at hr ⊢
      rw [blockRows, offs_cons_succ,
        List.getD_append_right _ _ _ _ (by rw [rows_length]; omega), rows_length,
        show B.m + offs Bs k + r - B.m = offs Bs k + r by omega, ih (i + 1) k hk' hr,
        show i + 1 + k = i + (k + 1) by omega]

lemma offs_add_lt (Bs : List (LinBlock K)) (k r : ℕ) (hk : k < Bs.length)
    (hr : r < (Bs.getD k default).m) : offs Bs k + r < offs Bs Bs.length := by
  induction Bs generalizing k with
  | nil => simp at hk
  | cons B Bs ih =>
    cases k with
    | zero =>
      simp only [List.getD_cons_zero] at hr
      simp only [offs_zero, List.length_cons, offs_cons_succ]; omega
    | succ k =>
      have hk' : k < Bs.length := by simpa using hk
      simp only [List.getD_cons_succ] at hr
      have := ih k hk' hr
      simp only [List.length_cons, offs_cons_succ]; omega

namespace UserLP

lemma rows_getD_block (U : UserLP K) (k r : ℕ) (hk : k < U.blocks.length)
    (hr : r < (U.blocks.getD k default).m) :
    U.rows.getD (U.offset k + r) default =
      ⟨(U.blocks.getD k default).a r, (U.blocks.getD k default).b r, (U.blocks.getD k default).eq,
        some (U.base + k)⟩ := by
  have hlt := offs_add_lt U.blocks k r hk hr
  rw [rows, List.getD_append _ _ _ _ (by rw [blockRows_length]; exact hlt)]
  exact blockRows_getD U.base U.blocks k r hk hr

lemma rows_getD_epi (U : UserLP K) : U.rows.getD U.epiIdx default = U.epiRow := by
  rw [rows, List.getD_append_right _ _ _ _ (by rw [blockRows_length]; exact le_refl _), blockRows_length]
  simp [epiIdx]

lemma offset_lt_nr (U : UserLP K) (k r : ℕ) (hk : k < U.blocks.length)
    (hr : r < (U.blocks.getD k default).m) : U.offset k + r < U.compile.nr := by
  have := offs_add_lt U.blocks k r hk hr
  rw [U.compile_nr]; unfold epiIdx; rw [offset_eq]; omega

end UserLP

/-! ### Bounds under the side condition -/

lemma eq_of_mem_of_length_le_one {L : List K} (h : L.length ≤ 1) {v w : K} (hv : v ∈ L) (hw : w ∈ L) :
    v = w := by
  match L, h with
  | [], _ => simp at hv
  | [a], _ => simp at hv hw; rw [hv, hw]

lemma OneBound.consistent {bs : List (Bound K)} (h : OneBound bs) : ∀ b ∈ bs, b.Consistent := by
  intro b hb p hp q hq hpq
  by_cases hu : b.upper = true
  · apply eq_of_mem_of_length_le_one (h p.1).1
    · exact (mem_upVals bs p.1 p.2).mpr ⟨b, hb, hu, hp⟩
    · exact (mem_upVals bs p.1 q.2).mpr ⟨b, hb, hu, by rw [hpq]; exact hq⟩
  · have hu' : b.upper = false := by simpa using hu
    apply eq_of_mem_of_length_le_one (h p.1).2
    · exact (mem_loVals bs p.1 p.2).mpr ⟨b, hb, hu', hp⟩
    · exact (mem_loVals bs p.1 q.2).mpr ⟨b, hb, hu', by rw [hpq]; exact hq⟩

lemma listOp_of_length_le_one (f : K → K → K) {L : List K} (h : L.length ≤ 1) : listOp f L = L.head? := by
  match L, h with
  | [], _ => rfl
  | [a], _ => simp [optOp]

/-- under the side condition folding is the identity: the compiled bound of entry `j` is the one
value the user gave (or infinite) -/
lemma OneBound.fold_ub {bs : List (Bound K)} (h : OneBound bs) (j : ℕ) :
    (foldBounds bs).1 j = (upVals bs j).head? := by
  rw [(foldBounds_eq bs h.consistent j).1, listOp_of_length_le_one min (h j).1]

lemma OneBound.fold_lb {bs : List (Bound K)} (h : OneBound bs) (j : ℕ) :
    (foldBounds bs).2 j = (loVals bs j).head? := by
  rw [(foldBounds_eq bs h.consistent j).2, listOp_of_length_le_one max (h j).2]

lemma head?_of_mem_of_length_le_one {L : List K} (h : L.length ≤ 1) {v : K} (hv : v ∈ L) :
    L.head? = some v := by
  match L, h with
  | [], _ => simp at hv
  | [a], _ => simp at hv; simp [hv]

lemma OneBound.fold_ub_entry {bs : List (Bound K)} (h : OneBound bs) {b : Bound K} (hb : b ∈ bs)
    (hu : b.upper = true) {p : ℕ × K} (hp : p ∈ b.entries) : (foldBounds bs).1 p.1 = some p.2 := by
  rw [h.fold_ub]
  exact head?_of_mem_of_length_le_one (h p.1).1 ((mem_upVals bs p.1 p.2).mpr ⟨b, hb, hu, hp⟩)

lemma OneBound.fold_lb_entry {bs : List (Bound K)} (h : OneBound bs) {b : Bound K} (hb : b ∈ bs)
    (hu : b.upper = false) {p : ℕ × K} (hp : p ∈ b.entries) : (foldBounds bs).2 p.1 = some p.2 := by
  rw [h.fold_lb]
  exact head?_of_mem_of_length_le_one (h p.1).2 ((mem_loVals bs p.1 p.2).mpr ⟨b, hb, hu, hp⟩)

/-- **read-back of a bound constraint** under the side condition: nothing is zeroed, `dual()`
returns `sign * λ` of the addressed entries -/
theorem dualBound_oneBound {bs : List (Bound K)} (h : OneBound bs) (sign : K) (upi lpi : ℕ → K)
    {b : Bound K} (hb : b ∈ bs) :
    dualBound sign (foldBounds bs).1 (foldBounds bs).2 upi lpi b =
      b.entries.map fun p => sign * (if b.upper then upi p.1 else lpi p.1) := by
  unfold dualBound
  apply List.map_congr_left
  intro p hp
  by_cases hu : b.upper = true
  · simp [hu, h.fold_ub_entry hb hu hp, ubLt, mul_comm]
  · have hu' : b.upper = false := by simpa using hu
    simp [hu', h.fold_lb_entry hb hu' hp, lbGt, mul_comm]

/-- what the zeroing rule does in general (repeated bounds allowed): the entry of an upper-bound
object is zeroed iff some upper bound given for the same entry is *strictly* tighter -/
theorem ubLt_fold_iff {bs : List (Bound K)} (hc : ∀ b ∈ bs, b.Consistent) (j : ℕ) (v : K) :
    ubLt ((foldBounds bs).1 j) v = true ↔ ∃ w ∈ upVals bs j, w < v := by
  rw [(foldBounds_eq bs hc j).1]
  cases hL : listOp min (upVals bs j) with
  | none =>
    have : upVals bs j = [] := (listOp_eq_none_iff _).mp hL
    simp [ubLt, this]
  | some m =>
    obtain ⟨hm, hle⟩ := listOp_min_spec _ m hL
    simp only [ubLt, decide_eq_true_eq]
    constructor
    · intro h; exact ⟨m, hm, h⟩
    · rintro ⟨w, hw, hwv⟩; exact lt_of_le_of_lt (hle w hw) hwv

theorem lbGt_fold_iff {bs : List (Bound K)} (hc : ∀ b ∈ bs, b.Consistent) (j : ℕ) (v : K) :
    lbGt ((foldBounds bs).2 j) v = true ↔ ∃ w ∈ loVals bs j, v < w := by
  rw [(foldBounds_eq bs hc j).2]
  cases hL : listOp max (loVals bs j) with
  | none =>
    have : loVals bs j = [] := (listOp_eq_none_iff _).mp hL
    simp [lbGt, this]
  | some m =>
    obtain ⟨hm, hle⟩ := listOp_max_spec _ m hL
    simp only [lbGt, decide_eq_true_eq, gt_iff_lt]
    constructor
    · intro h; exact ⟨m, hm, h⟩
    · rintro ⟨w, hw, hwv⟩; exact lt_of_lt_of_le hwv (hle w hw)


/-! ### The epigraph row -/

lemma upVals_eq_nil {bs : List (Bound K)} {j : ℕ} (h : ∀ b ∈ bs, ∀ p ∈ b.entries, p.1 ≠ j) :
    upVals bs j = [] := by
  rw [List.eq_nil_iff_forall_not_mem]
  intro v hv
  obtain ⟨b, hb, _, hm⟩ := (mem_upVals bs j v).mp hv
  exact h b hb _ hm rfl

lemma loVals_eq_nil {bs : List (Bound K)} {j : ℕ} (h : ∀ b ∈ bs, ∀ p ∈ b.entries, p.1 ≠ j) :
    loVals bs j = [] := by
  rw [List.eq_nil_iff_forall_not_mem]
  intro v hv
  obtain ⟨b, hb, _, hm⟩ := (mem_loVals bs j v).mp hv
  exact h b hb _ hm rfl

lemma sum_range_succ_Ico (f : ℕ → K) (n : ℕ) :
    ∑ j ∈ range (n + 1), f j = f 0 + ∑ j ∈ Finset.Ico 1 (n + 1), f j := by
  rw [Finset.range_eq_Ico, Finset.sum_eq_sum_Ico_succ_bot (Nat.succ_pos n)]

namespace UserLP

lemma compile_ub (U : UserLP K) (hone : OneBound U.bounds) (j : ℕ) : U.compile.ub j = U.ubOf j :=
  hone.fold_ub j

lemma compile_lb (U : UserLP K) (hone : OneBound U.bounds) (j : ℕ) : U.compile.lb j = U.lbOf j :=
  hone.fold_lb j

lemma compile_ub0 (U : UserLP K) (hwf : U.WF) (hone : OneBound U.bounds) : U.compile.ub 0 = none := by
  rw [U.compile_ub hone, ubOf, upVals_eq_nil]; · rfl
  intro b hb p hp h0; have := (hwf.bnd b hb p hp).1; omega

lemma compile_lb0 (U : UserLP K) (hwf : U.WF) (hone : OneBound U.bounds) : U.compile.lb 0 = none := by
  rw [U.compile_lb hone, lbOf, loVals_eq_nil]; · rfl
  intro b hb p hp h0; have := (hwf.bnd b hb p hp).1; omega

/-- the sums over the compiled rows in terms of the user's blocks -/
lemma sum_coef (U : UserLP K) (pi : ℕ → K) (j : ℕ) :
    ∑ i ∈ range U.compile.nr, pi i * U.compile.a i j =
      ∑ k ∈ range U.blocks.length, ∑ r ∈ range (U.blk k).m, pi (U.offset k + r) * (U.blk k).a r j
      + pi U.epiIdx * U.epiRow.coef j :=
  U.sum_rows pi (fun R => R.coef j)

lemma sum_rhs (U : UserLP K) (pi : ℕ → K) :
    ∑ i ∈ range U.compile.nr, pi i * U.compile.b i =
      ∑ k ∈ range U.blocks.length, ∑ r ∈ range (U.blk k).m, pi (U.offset k + r) * (U.blk k).b r
      + pi U.epiIdx * U.epiRow.rhs :=
  U.sum_rows pi (fun R => R.rhs)

/-- **key step**: stationarity in the epigraph column forces the multiplier of the epigraph row
to be `-1` -/
theorem epi_multiplier (U : UserLP K) (hwf : U.WF) (hone : OneBound U.bounds)
    {pi lamU lamL : ℕ → K} {v : K} (hk : KKT U.compile pi lamU lamL v) : pi U.epiIdx = -1 := by
  have h0 := hk.stat 0 (by simp [compile])
  have hU := hk.ubInf 0 (by simp [compile]) (U.compile_ub0 hwf hone)
  have hL := hk.lbInf 0 (by simp [compile]) (U.compile_lb0 hwf hone)
  rw [U.sum_coef, hU, hL] at h0
  have hz : ∑ k ∈ range U.blocks.length, ∑ r ∈ range (U.blk k).m,
      pi (U.offset k + r) * (U.blk k).a r 0 = 0 := by
    apply Finset.sum_eq_zero; intro k hk'
    apply Finset.sum_eq_zero; intro r hr
    rw [hwf.col0 k (Finset.mem_range.mp hk') r (Finset.mem_range.mp hr), mul_zero]
  rw [hz] at h0
  simp [compile, epiRow] at h0
  linarith

lemma sign_mul_self (U : UserLP K) : U.sign * U.sign = 1 := by
  unfold sign; split <;> simp

end UserLP


/-! ### Aggregating the returned bound duals per entry -/

lemma sum_ite_entries (l : List (ℕ × K)) (f : ℕ → K) (j : ℕ) :
    (l.map fun e => if e.1 = j then f e.1 else 0).sum = ((valsFor l j).length : K) * f j := by
  induction l with
  | nil => simp [valsFor]
  | cons e l ih =>
    rw [List.map_cons, List.sum_cons, ih]
    by_cases h : e.1 = j
    · have : valsFor (e :: l) j = e.2 :: valsFor l j := by simp [valsFor, List.filter_cons, h]
      rw [this, if_pos h, h]; push_cast [List.length_cons]; ring
    · have : valsFor (e :: l) j = valsFor l j := by simp [valsFor, List.filter_cons, h]
      rw [this, if_neg h, zero_add]

lemma zip_map_self {α β : Type} (l : List α) (g : α → β) : l.zip (l.map g) = l.map fun a => (a, g a) := by
  induction l with
  | nil => rfl
  | cons a l ih => simp [ih]

namespace UserLP

lemma retBnd_upper (U : UserLP K) (hone : OneBound U.bounds) (upi lpi : ℕ → K) (j : ℕ) :
    U.retBnd upi lpi true j = ((upVals U.bounds j).length : K) * (U.sign * upi j) := by
  unfold retBnd
  have h1 : ∀ B ∈ U.bounds.filter (fun B => B.upper == true),
      ((B.entries.zip (U.readBnd upi lpi B)).map fun q => if q.1.1 = j then q.2 else 0).sum =
      ((valsFor B.entries j).length : K) * (U.sign * upi j) := by
    intro B hB
    obtain ⟨hB1, hB2⟩ := List.mem_filter.mp hB
    have hu : B.upper = true := by simpa using hB2
    rw [readBnd, compile, dualBound_oneBound hone U.sign upi lpi hB1, zip_map_self, List.map_map,
      ← sum_ite_entries B.entries (fun i => U.sign * upi i) j]
    congr 1
    apply List.map_congr_left
    intro e _
    simp [hu]
  rw [List.map_congr_left h1, List.sum_map_mul_right, upVals, List.length_flatMap]
  congr 1
  simp only [beq_true]
  induction (List.filter (fun B => B.upper) U.bounds) with
  | nil => simp
  | cons b l ih => simp [ih]

lemma retBnd_lower (U : UserLP K) (hone : OneBound U.bounds) (upi lpi : ℕ → K) (j : ℕ) :
    U.retBnd upi lpi false j = ((loVals U.bounds j).length : K) * (U.sign * lpi j) := by
  unfold retBnd
  have h1 : ∀ B ∈ U.bounds.filter (fun B => B.upper == false),
      ((B.entries.zip (U.readBnd upi lpi B)).map fun q => if q.1.1 = j then q.2 else 0).sum =
      ((valsFor B.entries j).length : K) * (U.sign * lpi j) := by
    intro B hB
    obtain ⟨hB1, hB2⟩ := List.mem_filter.mp hB
    have hu : B.upper = false := by simpa using hB2
    rw [readBnd, compile, dualBound_oneBound hone U.sign upi lpi hB1, zip_map_self, List.map_map,
      ← sum_ite_entries B.entries (fun i => U.sign * lpi i) j]
    congr 1
    apply List.map_congr_left
    intro e _
    simp [hu]
  rw [List.map_congr_left h1, List.sum_map_mul_right, loVals, List.length_flatMap]
  congr 1
  have : (fun B : Bound K => B.upper == false) = fun B => !B.upper := by
    funext B; cases B.upper <;> rfl
  rw [this]
  induction (List.filter (fun B => !B.upper) U.bounds) with
  | nil => simp
  | cons b l ih => simp [ih]

end UserLP


/-! ### A certificate bounds the objective of every feasible point -/

namespace UserLP

lemma le_ubOf (U : UserLP K) {x : ℕ → K} (hx : U.Feas x) (j : ℕ) (u : K) (h : U.ubOf j = some u) :
    x j ≤ u := by
  have hm : u ∈ upVals U.bounds j := List.mem_of_mem_head? h
  obtain ⟨b, hb, hu, hp⟩ := (mem_upVals _ _ _).mp hm
  have := hx.bnds b hb _ hp
  rwa [if_pos hu] at this

lemma lbOf_le (U : UserLP K) {x : ℕ → K} (hx : U.Feas x) (j : ℕ) (l : K) (h : U.lbOf j = some l) :
    l ≤ x j := by
  have hm : l ∈ loVals U.bounds j := List.mem_of_mem_head? h
  obtain ⟨b, hb, hu, hp⟩ := (mem_loVals _ _ _).mp hm
  have := hx.bnds b hb _ hp
  rwa [if_neg (by simp [hu])] at this

/-- weak duality at the level of the user's model, for the `min` orientation of the signs and an
arbitrary objective `(c, c0)` -/
lemma cert_bound_core (U : UserLP K) {x : ℕ → K} (hx : U.Feas x) (c : ℕ → K) (c0 val : K)
    (d : ℕ → ℕ → K) (dU dL : ℕ → K)
    (grad : ∀ j ∈ Finset.Ico 1 (U.n + 1), c j =
      ∑ k ∈ range U.blocks.length, ∑ r ∈ range (U.blk k).m, d k r * (U.blk k).a r j + dU j + dL j)
    (value : ∑ k ∈ range U.blocks.length, ∑ r ∈ range (U.blk k).m, d k r * (U.blk k).b r
      + ∑ j ∈ Finset.Ico 1 (U.n + 1), dU j * (U.ubOf j).getD 0
      + ∑ j ∈ Finset.Ico 1 (U.n + 1), dL j * (U.lbOf j).getD 0 + c0 = val)
    (hd : ∀ k < U.blocks.length, (U.blk k).eq = false → ∀ r < (U.blk k).m, d k r ≤ 0)
    (hU : ∀ j ∈ Finset.Ico 1 (U.n + 1), dU j ≤ 0) (hL : ∀ j ∈ Finset.Ico 1 (U.n + 1), 0 ≤ dL j)
    (ubFree : ∀ j ∈ Finset.Ico 1 (U.n + 1), U.ubOf j = none → dU j = 0)
    (lbFree : ∀ j ∈ Finset.Ico 1 (U.n + 1), U.lbOf j = none → dL j = 0) :
    val ≤ ∑ j ∈ Finset.Ico 1 (U.n + 1), c j * x j + c0 := by
  have h1 : ∑ j ∈ Finset.Ico 1 (U.n + 1), c j * x j =
      ∑ k ∈ range U.blocks.length, ∑ r ∈ range (U.blk k).m, d k r * U.rowVal x k r
      + ∑ j ∈ Finset.Ico 1 (U.n + 1), dU j * x j + ∑ j ∈ Finset.Ico 1 (U.n + 1), dL j * x j := by
    have : ∀ j ∈ Finset.Ico 1 (U.n + 1), c j * x j =
        (∑ k ∈ range U.blocks.length, ∑ r ∈ range (U.blk k).m, d k r * (U.blk k).a r j * x j)
        + dU j * x j + dL j * x j := by
      intro j hj
      rw [grad j hj, add_mul, add_mul, Finset.sum_mul]
      congr 2
      apply Finset.sum_congr rfl; intro k _
      rw [Finset.sum_mul]
    rw [Finset.sum_congr rfl this, Finset.sum_add_distrib, Finset.sum_add_distrib, Finset.sum_comm]
    congr 2
    apply Finset.sum_congr rfl; intro k _
    rw [Finset.sum_comm]
    apply Finset.sum_congr rfl; intro r _
    rw [rowVal, Finset.mul_sum]
    apply Finset.sum_congr rfl; intro j _
    ring
  rw [h1, ← value]
  have hA : ∑ k ∈ range U.blocks.length, ∑ r ∈ range (U.blk k).m, d k r * (U.blk k).b r ≤
      ∑ k ∈ range U.blocks.length, ∑ r ∈ range (U.blk k).m, d k r * U.rowVal x k r := by
    apply Finset.sum_le_sum; intro k hk
    apply Finset.sum_le_sum; intro r hr
    have hk' := Finset.mem_range.mp hk
    have hr' := Finset.mem_range.mp hr
    have hrow := hx.rows k hk' r hr'
    by_cases he : (U.blk k).eq = true
    · rw [if_pos he] at hrow; rw [hrow]
    · rw [if_neg he] at hrow
      exact mul_le_mul_of_nonpos_left hrow (hd k hk' (by simpa using he) r hr')
  have hB : ∑ j ∈ Finset.Ico 1 (U.n + 1), dU j * (U.ubOf j).getD 0 ≤
      ∑ j ∈ Finset.Ico 1 (U.n + 1), dU j * x j := by
    apply Finset.sum_le_sum; intro j hj
    cases h : U.ubOf j with
    | none => rw [ubFree j hj h]; simp
    | some u => exact mul_le_mul_of_nonpos_left (U.le_ubOf hx j u h) (hU j hj)
  have hC : ∑ j ∈ Finset.Ico 1 (U.n + 1), dL j * (U.lbOf j).getD 0 ≤
      ∑ j ∈ Finset.Ico 1 (U.n + 1), dL j * x j := by
    apply Finset.sum_le_sum; intro j hj
    cases h : U.lbOf j with
    | none => rw [lbFree j hj h]; simp
    | some l => exact mul_le_mul_of_nonneg_left (U.lbOf_le hx j l h) (hL j hj)
  linarith

end UserLP


/-! ### KKT multipliers certify optimality of the compiled program -/

/-- weak duality: a KKT multiplier with value `v` bounds the cost of every feasible point of the
standard-form program from below -/
theorem kkt_lower_bound (P : LinProg K) {pi lamU lamL : ℕ → K} {v : K} (hk : KKT P pi lamU lamL v)
    {x : ℕ → K} (hx : P.Feas x) : v ≤ P.obj x := by
  have h1 : P.obj x = ∑ i ∈ range P.nr, pi i * P.row i x + ∑ j ∈ range P.nc, lamU j * x j
      + ∑ j ∈ range P.nc, lamL j * x j := by
    unfold LinProg.obj
    have : ∀ j ∈ range P.nc, P.c j * x j =
        (∑ i ∈ range P.nr, pi i * P.a i j * x j) + lamU j * x j + lamL j * x j := by
      intro j hj
      rw [hk.stat j (Finset.mem_range.mp hj), add_mul, add_mul, Finset.sum_mul]
    rw [Finset.sum_congr rfl this, Finset.sum_add_distrib, Finset.sum_add_distrib, Finset.sum_comm]
    congr 2
    apply Finset.sum_congr rfl; intro i _
    rw [LinProg.row, Finset.mul_sum]
    apply Finset.sum_congr rfl; intro j _
    ring
  rw [h1, ← hk.value]
  have hA : ∑ i ∈ range P.nr, pi i * P.b i ≤ ∑ i ∈ range P.nr, pi i * P.row i x := by
    apply Finset.sum_le_sum; intro i hi
    have hi' := Finset.mem_range.mp hi
    have hrow := hx.rows i hi'
    by_cases he : P.eq i = true
    · rw [if_pos he] at hrow; rw [hrow]
    · rw [if_neg he] at hrow
      exact mul_le_mul_of_nonpos_left hrow (hk.rowSign i hi' (by simpa using he))
  have hB : ∑ j ∈ range P.nc, lamU j * (P.ub j).getD 0 ≤ ∑ j ∈ range P.nc, lamU j * x j := by
    apply Finset.sum_le_sum; intro j hj
    have hj' := Finset.mem_range.mp hj
    have hb := hx.ubs j hj'
    cases h : P.ub j with
    | none => rw [hk.ubInf j hj' h]; simp
    | some u =>
      rw [h] at hb
      exact mul_le_mul_of_nonpos_left hb (hk.ubSign j hj')
  have hC : ∑ j ∈ range P.nc, lamL j * (P.lb j).getD 0 ≤ ∑ j ∈ range P.nc, lamL j * x j := by
    apply Finset.sum_le_sum; intro j hj
    have hj' := Finset.mem_range.mp hj
    have hb := hx.lbs j hj'
    cases h : P.lb j with
    | none => rw [hk.lbInf j hj' h]; simp
    | some l =>
      rw [h] at hb
      exact mul_le_mul_of_nonneg_left hb (hk.lbSign j hj')
  linarith

end RsomeV.DualCert
