import RsomeV.L.ExpCone
import Mathlib.Tactic.Linarith
import Mathlib.Tactic.FieldSimp

/-! The closed exponential cone `realExpCone` (`L/ExpCone.lean`) is a cone: it is closed under
scaling by every `t ≥ 0`, **including `t = 0`** — the origin `(0, 0, 0)` belongs to its boundary
face `a2 = 0 ∧ a0 ≤ 0 ∧ 0 ≤ a1`.  This is the hypothesis `hEs` of `C03.mixSupport_lift`: the
exponential cones of an expectation program are forwarded to the lifted support of
`Ambiguity.mix_support` on the perspective variables `μ_k = t_k·ν_k`, `t_k ≥ 0` the probability of
the event. -/

namespace RsomeV

/-- the origin is a point of the closed exponential cone -/
theorem realExpCone_zero : realExpCone 0 0 0 := Or.inr ⟨rfl, le_refl _, le_refl _⟩

/-- scaling by `t > 0` maps the interior part to the interior part and the boundary face to the
boundary face -/
theorem realExpCone_scale_pos (t a0 a1 a2 : ℝ) (ht : 0 < t) (h : realExpCone a0 a1 a2) :
    realExpCone (t * a0) (t * a1) (t * a2) := by
  rcases h with ⟨h2, h⟩ | ⟨h2, h0, h1⟩
  · left
    refine ⟨mul_pos ht h2, ?_⟩
    have e : t * a0 / (t * a2) = a0 / a2 := by
      field_simp
    rw [e, mul_assoc]
    exact mul_le_mul_of_nonneg_left h (le_of_lt ht)
  · right
    subst h2
    exact ⟨mul_zero t, mul_nonpos_of_nonneg_of_nonpos (le_of_lt ht) h0, mul_nonneg (le_of_lt ht) h1⟩

/-- **the closed exponential cone is closed under scaling by `t ≥ 0`** (for `t = 0` the image is
the origin, a point of the boundary face) -/
theorem realExpCone_scale (t a0 a1 a2 : ℝ) (ht : 0 ≤ t) (h : realExpCone a0 a1 a2) :
    realExpCone (t * a0) (t * a1) (t * a2) := by
  rcases lt_or_eq_of_le ht with hpos | h0
  · exact realExpCone_scale_pos t a0 a1 a2 hpos h
  · subst h0
    rw [zero_mul, zero_mul, zero_mul]
    exact realExpCone_zero

/-- the scaling hypothesis of `C03.mixSupport_lift` / `C03.dro_sound_compiled` for the real cone -/
theorem realExpCone_scaleClosed :
    ∀ t a b c : ℝ, 0 ≤ t → realExpCone a b c → realExpCone (t * a) (t * b) (t * c) :=
  fun t a b c ht h => realExpCone_scale t a b c ht h

end RsomeV
