import RsomeV.L.DroSound
import RsomeV.L.DroExact
import Mathlib.Tactic.Linarith
import Mathlib.Tactic.Ring
import Mathlib.Tactic.FieldSimp

/-! Helper lemmas for C04: a vertex distribution is a family of conditional expectation operators
(`CondExp`, `RsomeV/L/DroSound.lean`) on the hulls of the vertices. -/

set_option linter.unusedSectionVars false
set_option linter.unusedSimpArgs false
set_option linter.unusedVariables false

namespace RsomeV.C04
open Finset RsomeV

variable {K : Type} [Field K] [LinearOrder K] [IsStrictOrderedRing K]

/-! ### Vertex distributions are distributions -/

/-- the conditional distribution of scenario `s` under the vertex distribution `w`: weights
`w s i / p s` on the vertices (a point mass on vertex `0` if `p s = 0`) -/
noncomputable def vtxEs (nV : ℕ) (vtx : ℕ → ℕ → ℕ → K) (w : ℕ → ℕ → K) (s : ℕ) :
    ((ℕ → K) → K) → K :=
  if pOf nV w s = 0 then finExp nV (fun i => if i = 0 then 1 else 0) (vtx s)
  else finExp nV (fun i => w s i / pOf nV w s) (vtx s)

lemma pOf_nonneg (nV : ℕ) (w : ℕ → ℕ → K) (s : ℕ) (hw : ∀ i < nV, 0 ≤ w s i) :
    0 ≤ pOf nV w s :=
  Finset.sum_nonneg fun i hi => hw i (Finset.mem_range.mp hi)

lemma vtxEs_condExp (nz nV : ℕ) (hV : 0 < nV) (vtx : ℕ → ℕ → ℕ → K) (w : ℕ → ℕ → K) (s : ℕ)
    (hw : ∀ i < nV, 0 ≤ w s i) :
    CondExp (Hull nz nV (vtx s)) (vtxEs nV vtx w s) := by
  unfold vtxEs
  by_cases hp : pOf nV w s = 0
  · rw [if_pos hp]
    apply finExp_condExp
    · intro i _; split_ifs <;> norm_num
    · rw [Finset.sum_ite_eq', if_pos (Finset.mem_range.mpr hV)]
    · intro i hi; exact vtx_mem_hull nz nV (vtx s) i hi
  · rw [if_neg hp]
    apply finExp_condExp
    · intro i hi; exact div_nonneg (hw i hi) (pOf_nonneg nV w s hw)
    · rw [← Finset.sum_div]
      exact div_self hp
    · intro i hi; exact vtx_mem_hull nz nV (vtx s) i hi

lemma vtxEs_eval (nV : ℕ) (vtx : ℕ → ℕ → ℕ → K) (w : ℕ → ℕ → K) (s : ℕ)
    (hw : ∀ i < nV, 0 ≤ w s i) (g : (ℕ → K) → K) :
    pOf nV w s * vtxEs nV vtx w s g = ∑ i ∈ range nV, w s i * g (vtx s i) := by
  unfold vtxEs
  by_cases hp : pOf nV w s = 0
  · rw [if_pos hp, hp, zero_mul]
    have h0 : ∀ i ∈ range nV, w s i = 0 :=
      (Finset.sum_eq_zero_iff_of_nonneg (fun i hi => hw i (Finset.mem_range.mp hi))).mp hp
    symm
    apply Finset.sum_eq_zero
    intro i hi; rw [h0 i hi, zero_mul]
  · rw [if_neg hp]
    unfold finExp
    rw [Finset.mul_sum]
    apply Finset.sum_congr rfl; intro i _
    field_simp

end RsomeV.C04
