import RsomeV.M.DroModel
import RsomeV.L.RobustSound
import RsomeV.L.AtomsSoc
import RsomeV.L.RoToRoc
import RsomeV.L.DroRows
import Mathlib.Tactic.Linarith
import Mathlib.Tactic.Ring

/-! Lemmas for the whole-program model `DroModel.droModel` (`RsomeV/M/DroModel.lean`):

1. `RoRows.leToRc_feas_congr`  the fragment `le_to_rc` returns reads the coefficient arrays of a block of rows
   only at rows `n < m`, random components `j < nz` and decision columns `d < nd`;
2. placement with ready-made fragments (`dplace`): membership lemmas, and `dplace_ro` — without ready-made
   fragments `dplace` is `place` (so `compile` is `roModel`);
3. a point of the compiled program is a point of every fragment (`compile_pre_feas`, `compile_rob_feas`),
   satisfies every `LinConstr` row (`compile_det`) and the epigraph row (`compile_obj`);
4. the loop over the constraints (`go_mem`) and the items of one constraint;
5. re-padding the items of `ro_to_roc` / `dro_to_roc` to the width they are compiled at. -/

set_option linter.unusedSectionVars false
set_option linter.unusedSimpArgs false
set_option linter.unusedVariables false

namespace RsomeV
open Finset

variable {K : Type} [Field K] [LinearOrder K] [IsStrictOrderedRing K]

/-! ### 1. `le_to_rc` reads the rows only inside their shape -/

namespace RoRows

/-- the same block with other coefficient arrays -/
def withCoef (R : RoRows K) (Rl' : ℕ → ℕ → ℕ → K) (al' : ℕ → ℕ → K) : RoRows K :=
  { R with Rl := Rl', al := al' }

section congr
variable (R : RoRows K) (S : ConeProg K) (Rl' : ℕ → ℕ → ℕ → K) (al' : ℕ → ℕ → K)
  (hRl : ∀ n < R.m, ∀ j < R.nz, ∀ d < R.nd, Rl' n j d = R.Rl n j d)
  (hal : ∀ n < R.m, ∀ d < R.nd, al' n d = R.al n d)

include hRl in
lemma latePresent_congr : (R.withCoef Rl' al').latePresent S = R.latePresent S := by
  have key : (R.withCoef Rl' al').latePresent S = true ↔ R.latePresent S = true := by
    rw [latePresent_iff, latePresent_iff]
    constructor
    · rintro ⟨n, hn, j, h1, h2, h⟩
      refine ⟨n, hn, j, h1, h2, ?_⟩
      rcases h with h | ⟨d, hd, h⟩
      · exact Or.inl h
      · exact Or.inr ⟨d, hd, by rw [← hRl n hn j h2 d hd]; exact h⟩
    · rintro ⟨n, hn, j, h1, h2, h⟩
      refine ⟨n, hn, j, h1, h2, ?_⟩
      rcases h with h | ⟨d, hd, h⟩
      · exact Or.inl h
      · exact Or.inr ⟨d, hd, by
          show Rl' n j d ≠ 0
          rw [hRl n hn j h2 d hd]; exact h⟩
  cases h1 : (R.withCoef Rl' al').latePresent S <;> cases h2 : R.latePresent S
  · rfl
  · rw [h1, h2] at key; exact absurd (key.mpr rfl) (by simp)
  · rw [h1, h2] at key; exact absurd (key.mp rfl) (by simp)
  · rfl

include hRl in
lemma n4_congr : (R.withCoef Rl' al').n4 S = R.n4 S := by
  unfold n4
  rw [latePresent_congr R S Rl' al' hRl]
  rfl

include hRl in
lemma leToRc_nr_congr : ((R.withCoef Rl' al').leToRc S).prog.lp.nr = (R.leToRc S).prog.lp.nr := by
  rw [leToRc_nr, leToRc_nr, n4_congr R S Rl' al' hRl]
  rfl

include hRl hal in
lemma leToRc_a_congr (i c : ℕ) (hi : i < (R.leToRc S).prog.lp.nr) :
    ((R.withCoef Rl' al').leToRc S).prog.lp.a i c = (R.leToRc S).prog.lp.a i c := by
  rw [leToRc_nr] at hi
  by_cases hc : c < R.nd
  · have hc' : c < (R.withCoef Rl' al').nd := hc
    by_cases h1 : i < R.m
    · have h1' : i < (R.withCoef Rl' al').m := h1
      simp only [leToRc, h1, h1', hc, hc', if_true]
      exact hal i h1 c hc
    · by_cases h2 : i < R.m + R.m * R.numRand S
      · have hlt : i - R.m < R.m * R.numRand S := by omega
        have hpos : 0 < R.numRand S := by
          rcases Nat.eq_zero_or_pos (R.numRand S) with h0 | h0
          · rw [h0] at hlt; omega
          · exact h0
        have hn : (i - R.m) / R.numRand S < R.m := by
          apply Nat.div_lt_of_lt_mul; rw [Nat.mul_comm]; exact hlt
        have hj : (i - R.m) % R.numRand S < R.nz :=
          lt_of_lt_of_le (Nat.mod_lt _ hpos) (min_le_left _ _)
        have e := hRl _ hn _ hj c hc
        have h1' : ¬ i < (R.withCoef Rl' al').m := h1
        have h2' : i < (R.withCoef Rl' al').m + (R.withCoef Rl' al').m * (R.withCoef Rl' al').numRand S := h2
        simp only [leToRc, h1, h1', h2, h2', hc, hc', if_true, if_false]
        show Rl' ((i - R.m) / R.numRand S) ((i - R.m) % R.numRand S) c * _ = _
        rw [e]
        rfl
      · by_cases h3 : i < R.m + R.m * R.numRand S + R.m * (S.lp.nr - R.numRand S)
        · have h1' : ¬ i < (R.withCoef Rl' al').m := h1
          have h2' : ¬ i < (R.withCoef Rl' al').m + (R.withCoef Rl' al').m * (R.withCoef Rl' al').numRand S := h2
          have h3' : i < (R.withCoef Rl' al').m + (R.withCoef Rl' al').m * (R.withCoef Rl' al').numRand S
              + (R.withCoef Rl' al').m * (S.lp.nr - (R.withCoef Rl' al').numRand S) := h3
          simp only [leToRc, h1, h1', h2, h2', h3, h3', hc, hc', if_true, if_false]
        · have hn4 : R.n4 S = R.m * (R.nz - R.numRand S) := by
            unfold n4 at hi ⊢
            split_ifs at hi ⊢ with hl
            · rfl
            · omega
          rw [hn4] at hi
          set t := i - R.m - R.m * R.numRand S - R.m * (S.lp.nr - R.numRand S) with ht
          have hlt : t < R.m * (R.nz - R.numRand S) := by omega
          have hpos : 0 < R.nz - R.numRand S := by
            rcases Nat.eq_zero_or_pos (R.nz - R.numRand S) with h0 | h0
            · rw [h0] at hlt; omega
            · exact h0
          have hn : t / (R.nz - R.numRand S) < R.m := by
            apply Nat.div_lt_of_lt_mul; rw [Nat.mul_comm]; exact hlt
          have hj : R.numRand S + t % (R.nz - R.numRand S) < R.nz := by
            have := Nat.mod_lt t hpos
            omega
          have e := hRl _ hn _ hj c hc
          have h1' : ¬ i < (R.withCoef Rl' al').m := h1
          have h2' : ¬ i < (R.withCoef Rl' al').m + (R.withCoef Rl' al').m * (R.withCoef Rl' al').numRand S := h2
          have h3' : ¬ i < (R.withCoef Rl' al').m + (R.withCoef Rl' al').m * (R.withCoef Rl' al').numRand S
              + (R.withCoef Rl' al').m * (S.lp.nr - (R.withCoef Rl' al').numRand S) := h3
          simp only [leToRc, h1, h1', h2, h2', h3, h3', hc, hc', if_true, if_false]
          exact e
  · have hc' : ¬ c < (R.withCoef Rl' al').nd := hc
    simp only [leToRc, hc, hc', if_false]
    rfl

include hRl hal in
/-- **`le_to_rc` reads the rows only inside their shape**: two blocks of the same shape whose coefficient
arrays agree on the rows `n < m`, random components `j < nz` and decision columns `d < nd` have the same
robust counterpart (as constraint systems). -/
theorem leToRc_feas_congr (E : K → K → K → Prop) (x : ℕ → K) (h : (R.leToRc S).prog.Feas E x) :
    ((R.withCoef Rl' al').leToRc S).prog.Feas E x := by
  refine ⟨⟨?_, h.lin.ubs, h.lin.lbs⟩, h.soc, h.exp⟩
  intro i hi
  rw [leToRc_nr_congr R S Rl' al' hRl] at hi
  have hr : ((R.withCoef Rl' al').leToRc S).prog.lp.row i x = (R.leToRc S).prog.lp.row i x := by
    unfold LinProg.row
    apply Finset.sum_congr rfl
    intro c _
    rw [leToRc_a_congr R S Rl' al' hRl hal i c hi]
  have hb : ((R.withCoef Rl' al').leToRc S).prog.lp.b i = (R.leToRc S).prog.lp.b i := rfl
  have he : ((R.withCoef Rl' al').leToRc S).prog.lp.eq i = (R.leToRc S).prog.lp.eq i := rfl
  rw [hr, hb, he]
  exact h.lin.rows i hi

end congr

/-- the block re-padded to `w` columns (coefficient arrays untouched) -/
def setNd (R : RoRows K) (w : ℕ) : RoRows K := { R with nd := w }

/-- **zero-padding a block whose coefficients vanish beyond its columns is re-padding it** (as far as
`le_to_rc` can tell) -/
theorem leToRc_rebase_feas (R : RoRows K) (S : ConeProg K) (cur : ℕ) (hle : R.nd ≤ cur)
    (hRl : ∀ n < R.m, ∀ j < R.nz, ∀ d, R.nd ≤ d → d < cur → R.Rl n j d = 0)
    (hal : ∀ n < R.m, ∀ d, R.nd ≤ d → d < cur → R.al n d = 0)
    (E : K → K → K → Prop) (x : ℕ → K) (h : ((R.rebase cur).leToRc S).prog.Feas E x) :
    ((R.setNd cur).leToRc S).prog.Feas E x := by
  have := leToRc_feas_congr (R.rebase cur) S R.Rl R.al
    (by
      intro n hn j hj d hd
      show R.Rl n j d = if d < R.nd then R.Rl n j d else 0
      by_cases h0 : d < R.nd
      · rw [if_pos h0]
      · rw [if_neg h0]; exact hRl n hn j hj d (by omega) hd)
    (by
      intro n hn d hd
      show R.al n d = if d < R.nd then R.al n d else 0
      by_cases h0 : d < R.nd
      · rw [if_pos h0]
      · rw [if_neg h0]; exact hal n hn d (by omega) hd)
    E x h
  exact this

end RoRows


namespace DroModel
open RoToRoc Dro

/-! ### 2a. The stacked program (`assemble`, `place`)

`RsomeV/L/RoModel.lean` proves these facts for `roModel`; that file cannot be imported next to
`RsomeV/L/DroRows.lean` (both declare `RoRows.eval_congr`), so the lemmas about `assemble` and `place`
that are needed here are restated in this namespace. -/

/-- the exponential cone is upward closed in its second argument (what the auxiliary row
`aux[1] - expr2 <= 0` of `gcp.Model.do_math` needs) -/
def ExpMono (E : K → K → K → Prop) : Prop :=
  ∀ a0 a1 a1' a2 : K, E a0 a1 a2 → a1 ≤ a1' → E a0 a1' a2

/-- zero-padding does not change the value of a row -/
lemma eval_rebase (R : RoRows K) (cur : ℕ) (h : R.nd ≤ cur) (n : ℕ) (v ζ : ℕ → K) :
    (R.rebase cur).eval n v ζ = R.eval n v ζ := by
  have h1 : ∀ j, ∑ d ∈ range cur, (if d < R.nd then R.Rl n j d else 0) * v d
      = ∑ d ∈ range R.nd, R.Rl n j d * v d := fun j =>
    sum_range_tail_zero R.nd cur h _ (fun d => R.Rl n j d * v d)
      (fun d hd => by rw [if_pos hd]) (fun d hd _ => by rw [if_neg (by omega), zero_mul])
  have h2 : ∑ d ∈ range cur, (if d < R.nd then R.al n d else 0) * v d
      = ∑ d ∈ range R.nd, R.al n d * v d :=
    sum_range_tail_zero R.nd cur h _ (fun d => R.al n d * v d)
      (fun d hd => by rw [if_pos hd]) (fun d hd _ => by rw [if_neg (by omega), zero_mul])
  show (∑ j ∈ range R.nz, ((∑ d ∈ range cur, (if d < R.nd then R.Rl n j d else 0) * v d) + R.Rc n j) * ζ j) +
      ((∑ d ∈ range cur, (if d < R.nd then R.al n d else 0) * v d) + R.ac n) = _
  rw [h2, Finset.sum_congr rfl (fun j _ => by rw [h1 j])]
  rfl

lemma sum_unit_mul (N : ℕ) (p : ℕ) (hp : p < N) (c : K) (x : ℕ → K) :
    ∑ d ∈ range N, (if d = p then c else 0) * x d = c * x p := by
  rw [Finset.sum_eq_single p]
  · rw [if_pos rfl]
  · intro d _ hd; rw [if_neg hd, zero_mul]
  · intro h; exact absurd (Finset.mem_range.mpr hp) h

lemma leToRc_a_zero (R : RoRows K) (S : ConeProg K) (i c : ℕ) (hc : R.nd + R.m * S.lp.nc ≤ c) :
    (R.leToRc S).prog.lp.a i c = 0 := by
  have h1 : ¬ c < R.nd := by omega
  have h2 : ¬ (R.nd ≤ c ∧ c < R.nd + R.m * S.lp.nc) := by omega
  simp only [RoRows.leToRc, h1, h2, if_false, decide_false, Bool.false_eq_true, false_and, ite_self]

lemma leToRc_row_wide (R : RoRows K) (S : ConeProg K) (i N : ℕ) (hN : R.nd + R.m * S.lp.nc ≤ N)
    (x : ℕ → K) :
    ∑ j ∈ range N, (R.leToRc S).prog.lp.a i j * x j = (R.leToRc S).prog.lp.row i x :=
  sum_range_tail_zero (R.nd + R.m * S.lp.nc) N hN _ (fun j => (R.leToRc S).prog.lp.a i j * x j)
    (fun _ _ => rfl) (fun j hj _ => by rw [leToRc_a_zero R S i j hj, zero_mul])

lemma le_endCol (cur : ℕ) (items : List (CItem K)) : cur ≤ endCol cur items := by
  induction items generalizing cur with
  | nil => exact le_refl _
  | cons it t ih =>
    cases it with
    | det nr a b eq => exact ih cur
    | bnd b => exact ih cur
    | rob R S => exact le_trans (Nat.le_add_right _ _) (ih _)

lemma mem_place_rob (nd0 : ℕ) (R : RoRows K) (S : ConeProg K) (items : List (CItem K))
    (h : CItem.rob R S ∈ items) (cur : ℕ) :
    ∃ c, cur ≤ c ∧ c + R.m * S.lp.nc ≤ endCol cur items ∧
      PItem.frag (R.rebase c) S ∈ place nd0 cur items := by
  induction items generalizing cur with
  | nil => simp at h
  | cons it t ih =>
    rcases List.mem_cons.mp h with rfl | h'
    · exact ⟨cur, le_refl _, le_endCol _ t, List.mem_cons_self⟩
    · cases it with
      | det nr a b eq =>
        obtain ⟨c, h1, h2, h3⟩ := ih h' cur
        exact ⟨c, h1, h2, List.mem_cons_of_mem _ h3⟩
      | bnd b =>
        obtain ⟨c, h1, h2, h3⟩ := ih h' cur
        exact ⟨c, h1, h2, List.mem_cons_of_mem _ h3⟩
      | rob R' S' =>
        obtain ⟨c, h1, h2, h3⟩ := ih h' (cur + R'.m * S'.lp.nc)
        exact ⟨c, le_trans (Nat.le_add_right _ _) h1, h2, List.mem_cons_of_mem _ h3⟩

lemma mem_place_det (nd0 : ℕ) (nr : ℕ) (a : ℕ → ℕ → K) (b : ℕ → K) (eq : ℕ → Bool)
    (items : List (CItem K)) (h : CItem.det nr a b eq ∈ items) (cur : ℕ) :
    PItem.det nr (fun i c => if c < nd0 then a i c else 0) b eq ∈ place nd0 cur items := by
  induction items generalizing cur with
  | nil => simp at h
  | cons it t ih =>
    rcases List.mem_cons.mp h with rfl | h'
    · exact List.mem_cons_self
    · cases it with
      | det nr' a' b' eq' => exact List.mem_cons_of_mem _ (ih h' cur)
      | bnd b' => exact List.mem_cons_of_mem _ (ih h' cur)
      | rob R' S' => exact List.mem_cons_of_mem _ (ih h' _)

lemma mem_place_bnd (nd0 : ℕ) (bd : Bound K) (items : List (CItem K)) (cur : ℕ) :
    PItem.bnd bd ∈ place nd0 cur items ↔ CItem.bnd bd ∈ items := by
  induction items generalizing cur with
  | nil => simp [place]
  | cons it t ih =>
    cases it with
    | det nr' a' b' eq' => simp [place, ih cur]
    | bnd b' => simp [place, ih cur]
    | rob R' S' => simp [place, ih (cur + R'.m * S'.lp.nc)]

lemma placed_frag (nd0 : ℕ) (R' : RoRows K) (S : ConeProg K) (items : List (CItem K)) (cur : ℕ)
    (h : PItem.frag R' S ∈ place nd0 cur items) :
    cur ≤ R'.nd ∧ R'.nd + R'.m * S.lp.nc ≤ endCol cur items := by
  induction items generalizing cur with
  | nil => simp [place] at h
  | cons it t ih =>
    cases it with
    | det nr' a' b' eq' =>
      simp only [place, List.mem_cons, reduceCtorEq, false_or] at h
      exact ih cur h
    | bnd b' =>
      simp only [place, List.mem_cons, reduceCtorEq, false_or] at h
      exact ih cur h
    | rob R₀ S₀ =>
      simp only [place, List.mem_cons] at h
      rcases h with h | h
      · injection h with hR hS
        subst hR; subst hS
        exact ⟨le_refl _, le_endCol _ t⟩
      · obtain ⟨h1, h2⟩ := ih _ h
        exact ⟨le_trans (Nat.le_add_right _ _) h1, h2⟩

/-- a stacked row holds at `x` (over `N` columns) -/
def rowOk (r : PRow K) (N : ℕ) (x : ℕ → K) : Prop :=
  if r.eq then ∑ j ∈ range N, r.a j * x j = r.b else ∑ j ∈ range N, r.a j * x j ≤ r.b

section assemble
variable (base : ℕ) (P : List (PItem K)) (objRow : List (PRow K)) (E : K → K → K → Prop) (x : ℕ → K)

lemma assemble_rows (hx : (assemble base P objRow).Feas E x) (r : PRow K)
    (hr : r ∈ asmRows0 base P objRow) : rowOk r (base + 3 * (asmX P).length) x := by
  have hne : (asmRows0 base P objRow).isEmpty = false := by
    cases h : asmRows0 base P objRow with
    | nil => rw [h] at hr; simp at hr
    | cons _ _ => rfl
  have hrows : asmRows base P objRow = asmRows0 base P objRow := by
    unfold asmRows; rw [hne]; rfl
  obtain ⟨i, hi, rfl⟩ := List.getElem_of_mem hr
  have h := hx.lin.rows i (by show i < (asmRows base P objRow).length; rw [hrows]; exact hi)
  have e : (asmRows base P objRow).getD i default = (asmRows0 base P objRow)[i] := by
    rw [hrows, List.getD_eq_getElem _ _ hi]
  show if ((asmRows0 base P objRow)[i]).eq then _ else _
  rw [← e]
  exact h

lemma assemble_bounds (hx : (assemble base P objRow).Feas E x)
    (hc : ∀ b ∈ asmBounds P, b.Consistent)
    (hN : ∀ b ∈ asmBounds P, ∀ p ∈ b.entries, p.1 < base + 3 * (asmX P).length) :
    ∀ b ∈ asmBounds P, ∀ p ∈ b.entries, if b.upper then x p.1 ≤ p.2 else p.2 ≤ x p.1 :=
  (foldBounds_feas_iff (asmBounds P) hc _ hN x).mp ⟨hx.lin.ubs, hx.lin.lbs⟩

lemma sum_unit_sub (N p q : ℕ) (hp : p < N) (hq : q < N) (x : ℕ → K) :
    ∑ j ∈ range N, ((if j = p then (1 : K) else 0) - (if j = q then 1 else 0)) * x j = x p - x q := by
  have e : ∀ j, ((if j = p then (1 : K) else 0) - (if j = q then 1 else 0)) * x j
      = (if j = p then (1 : K) else 0) * x j - (if j = q then (1 : K) else 0) * x j := fun j => by ring
  rw [Finset.sum_congr rfl (fun j _ => e j), Finset.sum_sub_distrib,
    sum_unit_mul N p hp 1 x, sum_unit_mul N q hq 1 x]
  ring

lemma assemble_exp (hmono : ExpMono E) (hx : (assemble base P objRow).Feas E x)
    (k : ℕ) (hk : k < (asmX P).length)
    (hlt : ∀ t < 3, ((asmX P)[k]).getD t 0 < base + 3 * (asmX P).length) :
    E (x (((asmX P)[k]).getD 0 0)) (x (((asmX P)[k]).getD 1 0)) (x (((asmX P)[k]).getD 2 0)) := by
  set N := base + 3 * (asmX P).length with hN
  have hX : (asmX P).getD k [] = (asmX P)[k] := List.getD_eq_getElem _ _ hk
  have hcone := hx.exp [base + 3 * k, base + 3 * k + 1, base + 3 * k + 2]
    (List.mem_map.mpr ⟨k, List.mem_range.mpr hk, rfl⟩)
  simp only [List.getD_cons_zero, List.getD_cons_succ] at hcone
  have hmem : ∀ r ∈ [ (⟨fun j => (if j = base + 3 * k then 1 else 0) - (if j = ((asmX P).getD k []).getD 0 0 then 1 else 0), 0, true⟩ : PRow K),
      ⟨fun j => (if j = base + 3 * k + 1 then 1 else 0) - (if j = ((asmX P).getD k []).getD 1 0 then 1 else 0), 0, false⟩,
      ⟨fun j => (if j = base + 3 * k + 2 then 1 else 0) - (if j = ((asmX P).getD k []).getD 2 0 then 1 else 0), 0, true⟩ ],
      r ∈ asmRows0 base P objRow := by
    intro r hr
    unfold asmRows0
    apply List.mem_append_left
    apply List.mem_append_right
    unfold expRows
    exact List.mem_flatMap.mpr ⟨k, List.mem_range.mpr hk, hr⟩
  have h0 := assemble_rows base P objRow E x hx _ (hmem _ List.mem_cons_self)
  have h1 := assemble_rows base P objRow E x hx _ (hmem _ (List.mem_cons_of_mem _ List.mem_cons_self))
  have h2 := assemble_rows base P objRow E x hx _
    (hmem _ (List.mem_cons_of_mem _ (List.mem_cons_of_mem _ List.mem_cons_self)))
  simp only [rowOk, if_true, Bool.false_eq_true, if_false, hX] at h0 h1 h2
  rw [sum_unit_sub N _ _ (by omega) (hlt 0 (by omega)) x] at h0
  rw [sum_unit_sub N _ _ (by omega) (hlt 1 (by omega)) x] at h1
  rw [sum_unit_sub N _ _ (by omega) (hlt 2 (by omega)) x] at h2
  have e0 : x (base + 3 * k) = x (((asmX P)[k]).getD 0 0) := by linarith
  have e2 : x (base + 3 * k + 2) = x (((asmX P)[k]).getD 2 0) := by linarith
  rw [e0, e2] at hcone
  exact hmono _ _ _ _ hcone (by linarith)

/-- **a point of the stacked program is a point of every fragment** -/
theorem frag_feas (hmono : ExpMono E) (hx : (assemble base P objRow).Feas E x)
    (hc : ∀ b ∈ asmBounds P, b.Consistent)
    (hN : ∀ b ∈ asmBounds P, ∀ p ∈ b.entries, p.1 < base + 3 * (asmX P).length)
    (R : RoRows K) (S : ConeProg K) (hmem : PItem.frag R S ∈ P)
    (hle : R.nd + R.m * S.lp.nc ≤ base)
    (hSx : ∀ e ∈ S.xmat, e.length = 3 ∧ ∀ i ∈ e, i < S.lp.nc) :
    (R.leToRc S).prog.Feas E x := by
  set N := base + 3 * (asmX P).length with hNdef
  have hleN : R.nd + R.m * S.lp.nc ≤ N := by omega
  refine ⟨⟨?_, ?_, ?_⟩, ?_, ?_⟩
  · intro i hi
    have hr : (⟨(R.leToRc S).prog.lp.a i, (R.leToRc S).prog.lp.b i, (R.leToRc S).prog.lp.eq i⟩ : PRow K)
        ∈ asmRows0 base P objRow := by
      unfold asmRows0
      apply List.mem_append_left
      apply List.mem_append_left
      refine List.mem_flatMap.mpr ⟨_, hmem, ?_⟩
      exact List.mem_map.mpr ⟨i, List.mem_range.mpr hi, rfl⟩
    have h := assemble_rows base P objRow E x hx _ hr
    simp only [rowOk] at h
    rw [leToRc_row_wide R S i N hleN x] at h
    exact h
  · intro c hc'
    have hc'' : c < R.nd + R.m * S.lp.nc := hc'
    show LinProg.leUb (x c) (if decide (R.nd ≤ c ∧ c < R.nd + R.m * S.lp.nc) = true ∧
      S.lp.ub ((c - R.nd) % S.lp.nc) = some 0 then some 0 else none)
    split_ifs with hcond
    · obtain ⟨hy, hub⟩ := hcond
      have hy' : R.nd ≤ c ∧ c < R.nd + R.m * S.lp.nc := of_decide_eq_true hy
      have hss : 0 < S.lp.nc := by
        rcases Nat.eq_zero_or_pos S.lp.nc with h0 | h0
        · rw [h0] at hy'; omega
        · exact h0
      have hb := assemble_bounds base P objRow E x hx hc hN
        { upper := true
          entries := (List.range R.m).flatMap fun n =>
            ((List.range S.lp.nc).filter fun i => decide (S.lp.ub i = some 0)).map fun i => (R.ycol S n i, 0) }
        (List.mem_flatMap.mpr ⟨_, hmem, by simp [PItem.bounds, RoRows.rcBounds]⟩) (c, 0)
        (by
          refine List.mem_flatMap.mpr ⟨(c - R.nd) / S.lp.nc, List.mem_range.mpr ?_, ?_⟩
          · apply Nat.div_lt_of_lt_mul
            rw [Nat.mul_comm]; omega
          · refine List.mem_map.mpr ⟨(c - R.nd) % S.lp.nc, List.mem_filter.mpr
              ⟨List.mem_range.mpr (Nat.mod_lt _ hss), decide_eq_true hub⟩, ?_⟩
            have := Nat.div_add_mod' (c - R.nd) S.lp.nc
            simp only [RoRows.ycol, Prod.mk.injEq, and_true]
            omega)
      simpa [LinProg.leUb] using hb
    · trivial
  · intro c hc'
    have hc'' : c < R.nd + R.m * S.lp.nc := hc'
    show LinProg.geLb (x c) (if decide (R.nd ≤ c ∧ c < R.nd + R.m * S.lp.nc) = true ∧
      S.lp.lb ((c - R.nd) % S.lp.nc) = some 0 then some 0 else none)
    split_ifs with hcond
    · obtain ⟨hy, hlb⟩ := hcond
      have hy' : R.nd ≤ c ∧ c < R.nd + R.m * S.lp.nc := of_decide_eq_true hy
      have hss : 0 < S.lp.nc := by
        rcases Nat.eq_zero_or_pos S.lp.nc with h0 | h0
        · rw [h0] at hy'; omega
        · exact h0
      have hb := assemble_bounds base P objRow E x hx hc hN
        { upper := false
          entries := (List.range R.m).flatMap fun n =>
            ((List.range S.lp.nc).filter fun i => decide (S.lp.lb i = some 0)).map fun i => (R.ycol S n i, 0) }
        (List.mem_flatMap.mpr ⟨_, hmem, by simp [PItem.bounds, RoRows.rcBounds]⟩) (c, 0)
        (by
          refine List.mem_flatMap.mpr ⟨(c - R.nd) / S.lp.nc, List.mem_range.mpr ?_, ?_⟩
          · apply Nat.div_lt_of_lt_mul
            rw [Nat.mul_comm]; omega
          · refine List.mem_map.mpr ⟨(c - R.nd) % S.lp.nc, List.mem_filter.mpr
              ⟨List.mem_range.mpr (Nat.mod_lt _ hss), decide_eq_true hlb⟩, ?_⟩
            have := Nat.div_add_mod' (c - R.nd) S.lp.nc
            simp only [RoRows.ycol, Prod.mk.injEq, and_true]
            omega)
      simpa [LinProg.geLb] using hb
    · trivial
  · intro q hq
    exact hx.soc q (List.mem_flatMap.mpr ⟨_, hmem, hq⟩)
  · intro e he
    have heX : e ∈ asmX P := List.mem_flatMap.mpr ⟨_, hmem, he⟩
    obtain ⟨k, hk, rfl⟩ := List.getElem_of_mem heX
    apply assemble_exp base P objRow E x hmono hx k hk
    intro t ht
    have he' : (asmX P)[k] ∈ (List.range R.m).flatMap fun n =>
        S.xmat.map fun e => e.map fun i => R.ycol S n i := he
    obtain ⟨n, hn, he''⟩ := List.mem_flatMap.mp he'
    obtain ⟨e0, he0, heq⟩ := List.mem_map.mp he''
    obtain ⟨hlen, hlt⟩ := hSx e0 he0
    rw [← heq]
    have ht' : t < (e0.map fun i => R.ycol S n i).length := by rw [List.length_map]; omega
    rw [List.getD_eq_getElem _ _ ht', List.getElem_map]
    have := RoRows.ycol_lt R S n (List.mem_range.mp hn) (e0[t]'(by omega)) (hlt _ (List.getElem_mem _))
    rw [RoRows.leToRc_nc] at this
    omega

end assemble

lemma coneDual_xmat_wf (P : ConeProg K) :
    ∀ e ∈ P.coneDual.xmat, e.length = 3 ∧ ∀ i ∈ e, i < P.coneDual.lp.nc := by
  intro e he
  by_cases hx : P.xmat.isEmpty = true
  · have : P.coneDual = P.socDual := by unfold ConeProg.coneDual; rw [if_pos hx]
    rw [this, ConeProg.socDual_xmat] at he
    simp at he
  · rw [ConeProg.coneDual_of_xmat P hx] at he ⊢
    simp only [List.mem_map, List.mem_range] at he
    obtain ⟨k, hk, rfl⟩ := he
    refine ⟨rfl, ?_⟩
    intro i hi
    simp only [List.mem_cons, List.not_mem_nil, or_false] at hi
    show i < P.socDual.lp.nc + 3 * P.xmat.length
    omega

lemma rcBounds_entries (R : RoRows K) (S : ConeProg K) :
    ∀ b ∈ R.rcBounds S, ∀ p ∈ b.entries, p.2 = 0 ∧ p.1 < R.nd + R.m * S.lp.nc := by
  intro b hb p hp
  simp only [RoRows.rcBounds, List.mem_cons, List.not_mem_nil, or_false] at hb
  rcases hb with rfl | rfl
  all_goals
    simp only [List.mem_flatMap, List.mem_map, List.mem_filter, List.mem_range] at hp
    obtain ⟨n, hn, i, ⟨hi, _⟩, rfl⟩ := hp
    exact ⟨rfl, RoRows.ycol_lt R S n hn i hi⟩

lemma rcBounds_consistent (R : RoRows K) (S : ConeProg K) :
    ∀ b ∈ R.rcBounds S, b.Consistent := by
  intro b hb p hp q hq _
  rw [(rcBounds_entries R S b hb p hp).1, (rcBounds_entries R S b hb q hq).1]


/-! ### 2b. Placement with ready-made fragments -/

lemma le_dend (cur : ℕ) (items : List (DItem K)) : cur ≤ dend cur items := by
  induction items generalizing cur with
  | nil => exact le_refl _
  | cons it t ih =>
    cases it with
    | ro i => exact le_trans (le_endCol _ _) (ih _)
    | pre R S => exact ih cur

lemma mem_dplace_pre (nd0 : ℕ) (R : RoRows K) (S : ConeProg K) (items : List (DItem K))
    (h : DItem.pre R S ∈ items) (cur : ℕ) : PItem.frag R S ∈ dplace nd0 cur items := by
  induction items generalizing cur with
  | nil => simp at h
  | cons it t ih =>
    rcases List.mem_cons.mp h with rfl | h'
    · exact List.mem_cons_self
    · cases it with
      | ro i => exact List.mem_append_right _ (ih h' _)
      | pre R' S' => exact List.mem_cons_of_mem _ (ih h' cur)

/-- every robust block of an `RoConstr` item is compiled at some column `c ≥ cur`, its multipliers before
the final column -/
lemma mem_dplace_rob (nd0 : ℕ) (it : RoItem K) (R : RoRows K) (S : ConeProg K) (items : List (DItem K))
    (h : DItem.ro it ∈ items) (hb : CItem.rob R S ∈ blocksOf it) (cur : ℕ) :
    ∃ c, cur ≤ c ∧ c + R.m * S.lp.nc ≤ dend cur items ∧
      PItem.frag (R.rebase c) S ∈ dplace nd0 cur items := by
  induction items generalizing cur with
  | nil => simp at h
  | cons it' t ih =>
    rcases List.mem_cons.mp h with rfl | h'
    · obtain ⟨c, h1, h2, h3⟩ := mem_place_rob nd0 R S (blocksOf it) hb cur
      exact ⟨c, h1, le_trans h2 (le_dend _ t), List.mem_append_left _ h3⟩
    · cases it' with
      | ro i =>
        obtain ⟨c, h1, h2, h3⟩ := ih h' (endCol cur (blocksOf i))
        exact ⟨c, le_trans (le_endCol _ _) h1, h2, List.mem_append_right _ h3⟩
      | pre R' S' =>
        obtain ⟨c, h1, h2, h3⟩ := ih h' cur
        exact ⟨c, h1, h2, List.mem_cons_of_mem _ h3⟩

lemma mem_dplace_det (nd0 : ℕ) (it : RoItem K) (nr : ℕ) (a : ℕ → ℕ → K) (b : ℕ → K) (eq : ℕ → Bool)
    (items : List (DItem K)) (h : DItem.ro it ∈ items) (hb : CItem.det nr a b eq ∈ blocksOf it) (cur : ℕ) :
    PItem.det nr (fun i c => if c < nd0 then a i c else 0) b eq ∈ dplace nd0 cur items := by
  induction items generalizing cur with
  | nil => simp at h
  | cons it' t ih =>
    rcases List.mem_cons.mp h with rfl | h'
    · exact List.mem_append_left _ (mem_place_det nd0 nr a b eq (blocksOf it) hb cur)
    · cases it' with
      | ro i => exact List.mem_append_right _ (ih h' _)
      | pre R' S' => exact List.mem_cons_of_mem _ (ih h' cur)

/-- every placed fragment is a ready-made one or lies between `cur` and the final column -/
lemma dplaced_frag (nd0 : ℕ) (R' : RoRows K) (S : ConeProg K) (items : List (DItem K)) (cur : ℕ)
    (h : PItem.frag R' S ∈ dplace nd0 cur items) :
    DItem.pre R' S ∈ items ∨ (cur ≤ R'.nd ∧ R'.nd + R'.m * S.lp.nc ≤ dend cur items) := by
  induction items generalizing cur with
  | nil => simp [dplace] at h
  | cons it t ih =>
    cases it with
    | pre R₀ S₀ =>
      have h' : PItem.frag R' S = PItem.frag R₀ S₀ ∨ PItem.frag R' S ∈ dplace nd0 cur t :=
        List.mem_cons.mp h
      rcases h' with h' | h'
      · injection h' with hR hS
        subst hR; subst hS
        exact Or.inl List.mem_cons_self
      · rcases ih cur h' with h1 | h1
        · exact Or.inl (List.mem_cons_of_mem _ h1)
        · exact Or.inr h1
    | ro i =>
      have h' : PItem.frag R' S ∈ place nd0 cur (blocksOf i) ∨
          PItem.frag R' S ∈ dplace nd0 (endCol cur (blocksOf i)) t := List.mem_append.mp h
      rcases h' with h' | h'
      · obtain ⟨h1, h2⟩ := placed_frag nd0 R' S (blocksOf i) cur h'
        exact Or.inr ⟨h1, le_trans h2 (le_dend _ t)⟩
      · rcases ih _ h' with h1 | ⟨h1, h2⟩
        · exact Or.inl (List.mem_cons_of_mem _ h1)
        · exact Or.inr ⟨le_trans (le_endCol _ _) h1, h2⟩

lemma dplaced_bnd (nd0 : ℕ) (bd : Bound K) (items : List (DItem K)) (cur : ℕ)
    (h : PItem.bnd bd ∈ dplace nd0 cur items) : DItem.ro (RoItem.bnd bd) ∈ items := by
  induction items generalizing cur with
  | nil => simp [dplace] at h
  | cons it t ih =>
    cases it with
    | pre R₀ S₀ =>
      have h' : PItem.bnd bd = PItem.frag R₀ S₀ ∨ PItem.bnd bd ∈ dplace nd0 cur t := List.mem_cons.mp h
      rcases h' with h' | h'
      · cases h'
      · exact List.mem_cons_of_mem _ (ih cur h')
    | ro i =>
      have h' : PItem.bnd bd ∈ place nd0 cur (blocksOf i) ∨
          PItem.bnd bd ∈ dplace nd0 (endCol cur (blocksOf i)) t := List.mem_append.mp h
      rcases h' with h' | h'
      · have hm := (mem_place_bnd nd0 bd (blocksOf i) cur).mp h'
        cases i with
        | det nr a b eq => simp [blocksOf, RoItem.resolve] at hm
        | bnd b =>
          simp only [blocksOf, RoItem.resolve, List.mem_cons, CItem.bnd.injEq, List.not_mem_nil, or_false] at hm
          subst hm
          exact List.mem_cons_self
        | rob R S => simp [blocksOf, RoItem.resolve] at hm
        | robEq R S => simp [blocksOf, RoItem.resolve] at hm
      · exact List.mem_cons_of_mem _ (ih _ h')

/-! #### without ready-made fragments the program is `roModel` of the item list -/

lemma place_append (nd0 : ℕ) (A B : List (CItem K)) (cur : ℕ) :
    place nd0 cur (A ++ B) = place nd0 cur A ++ place nd0 (endCol cur A) B := by
  induction A generalizing cur with
  | nil => rfl
  | cons it t ih =>
    cases it with
    | det nr a b eq => simp only [List.cons_append, place, endCol, ih cur]
    | bnd b => simp only [List.cons_append, place, endCol, ih cur]
    | rob R S => simp only [List.cons_append, place, endCol, ih (cur + R.m * S.lp.nc)]

lemma endCol_append (A B : List (CItem K)) (cur : ℕ) :
    endCol cur (A ++ B) = endCol (endCol cur A) B := by
  induction A generalizing cur with
  | nil => rfl
  | cons it t ih =>
    cases it with
    | det nr a b eq => simp only [List.cons_append, endCol, ih cur]
    | bnd b => simp only [List.cons_append, endCol, ih cur]
    | rob R S => simp only [List.cons_append, endCol, ih (cur + R.m * S.lp.nc)]

lemma dplace_ro (nd0 : ℕ) (its : List (RoItem K)) (cur : ℕ) :
    dplace nd0 cur (its.map DItem.ro) = place nd0 cur (its.flatMap blocksOf) ∧
    dend cur (its.map DItem.ro) = endCol cur (its.flatMap blocksOf) := by
  induction its generalizing cur with
  | nil => exact ⟨rfl, rfl⟩
  | cons it t ih =>
    obtain ⟨h1, h2⟩ := ih (endCol cur (blocksOf it))
    constructor
    · show place nd0 cur (blocksOf it) ++ dplace nd0 (endCol cur (blocksOf it)) (t.map DItem.ro) = _
      rw [h1, List.flatMap_cons, place_append]
    · show dend (endCol cur (blocksOf it)) (t.map DItem.ro) = _
      rw [h2, List.flatMap_cons, endCol_append]

/-- **Without expectation constraints `dro.Model.do_math()` is `ro.Model.do_math()` of the items of
`ro_to_roc`**: the compiled program of a list of `RoConstr` / `LinConstr` items is `roModel` of the ro_model
with these items, the objective `min var_const[0]` and no default support. -/
theorem compile_eq_roModel (its : List (RoItem K)) (nd : ℕ) :
    compile (its.map DItem.ro) nd = roModel { (roSpecOf nd : RoSpec K) with items := its } := by
  obtain ⟨h1, h2⟩ := dplace_ro nd its nd
  have hb : ({ (roSpecOf nd : RoSpec K) with items := its } : RoSpec K).blocks = its.flatMap blocksOf := by
    show (its ++ []).flatMap _ = _
    rw [List.append_nil]
    rfl
  unfold compile roModel RoSpec.placed
  rw [h1, h2, hb]
  rfl

/-! ### 3. A point of the compiled program -/

/-- what `droItems` guarantees about its output: the ready-made fragments lie inside the decision columns,
and no `Bounds` object is emitted -/
structure ItemsWF (items : List (DItem K)) (nd : ℕ) : Prop where
  pre : ∀ R S, DItem.pre R S ∈ items → R.nd + R.m * S.lp.nc ≤ nd
  nobnd : ∀ b, DItem.ro (RoItem.bnd b) ∉ items

lemma bounds_wf (items : List (DItem K)) (nd : ℕ) (hwf : ItemsWF items nd) :
    (∀ b ∈ asmBounds (dplace nd nd items), b.Consistent) ∧
    (∀ b ∈ asmBounds (dplace nd nd items), ∀ p ∈ b.entries,
      p.1 < dend nd items + 3 * (asmX (dplace nd nd items)).length) := by
  have key : ∀ b ∈ asmBounds (dplace nd nd items),
      b.Consistent ∧ ∀ p ∈ b.entries, p.1 < dend nd items := by
    intro b hb
    obtain ⟨it, hit, hbit⟩ := List.mem_flatMap.mp hb
    cases it with
    | det nr a b' eq => simp [PItem.bounds] at hbit
    | bnd b' => exact absurd (dplaced_bnd nd b' items nd hit) (hwf.nobnd b')
    | frag R' S' =>
      have hle : R'.nd + R'.m * S'.lp.nc ≤ dend nd items := by
        rcases dplaced_frag nd R' S' items nd hit with h | ⟨_, h⟩
        · exact le_trans (hwf.pre R' S' h) (le_dend _ _)
        · exact h
      exact ⟨rcBounds_consistent R' S' b hbit,
        fun p hp => lt_of_lt_of_le (rcBounds_entries R' S' b hbit p hp).2 hle⟩
  exact ⟨fun b hb => (key b hb).1, fun b hb p hp => lt_of_lt_of_le ((key b hb).2 p hp) (Nat.le_add_right _ _)⟩

section compile
variable (items : List (DItem K)) (nd : ℕ) (hwf : ItemsWF items nd)
  (E : K → K → K → Prop) (hmono : ExpMono E) (x : ℕ → K) (hx : (compile items nd).Feas E x)

include hwf hmono hx in
/-- a point of the whole program is a point of every ready-made first-stage fragment -/
theorem compile_pre_feas (R : RoRows K) (S : ConeProg K) (h : DItem.pre R S ∈ items)
    (hSx : ∀ e ∈ S.xmat, e.length = 3 ∧ ∀ i ∈ e, i < S.lp.nc) :
    (R.leToRc S).prog.Feas E x := by
  obtain ⟨hc, hN⟩ := bounds_wf items nd hwf
  exact frag_feas (dend nd items) (dplace nd nd items) (roSpecOf nd).objRow E x hmono hx hc hN R S
    (mem_dplace_pre nd R S items h nd) (le_trans (hwf.pre R S h) (le_dend _ _)) hSx

include hwf hmono hx in
/-- a point of the whole program is a point of the fragment `le_to_rc` returns for every robust block, compiled
when the model had `c ≥ nd` columns -/
theorem compile_rob_feas (it : RoItem K) (R : RoRows K) (S : ConeProg K) (h : DItem.ro it ∈ items)
    (hb : CItem.rob R S ∈ blocksOf it)
    (hSx : ∀ e ∈ S.xmat, e.length = 3 ∧ ∀ i ∈ e, i < S.lp.nc) :
    ∃ c, nd ≤ c ∧ ((R.rebase c).leToRc S).prog.Feas E x := by
  obtain ⟨hc, hN⟩ := bounds_wf items nd hwf
  obtain ⟨c, h1, h2, h3⟩ := mem_dplace_rob nd it R S items h hb nd
  exact ⟨c, h1, frag_feas (dend nd items) (dplace nd nd items) (roSpecOf nd).objRow E x hmono hx hc hN
    (R.rebase c) S h3 h2 hSx⟩

include hx in
/-- every `LinConstr` row holds at the decision columns -/
theorem compile_det (it : RoItem K) (nr : ℕ) (a : ℕ → ℕ → K) (b : ℕ → K) (eq : ℕ → Bool)
    (h : DItem.ro it ∈ items) (hb : CItem.det nr a b eq ∈ blocksOf it) (i : ℕ) (hi : i < nr) :
    if eq i then ∑ d ∈ range nd, a i d * x d = b i else ∑ d ∈ range nd, a i d * x d ≤ b i := by
  have hp := mem_dplace_det nd it nr a b eq items h hb nd
  have hr : (⟨fun c => if c < nd then a i c else 0, b i, eq i⟩ : PRow K)
      ∈ asmRows0 (dend nd items) (dplace nd nd items) (roSpecOf nd).objRow := by
    unfold asmRows0
    apply List.mem_append_left
    apply List.mem_append_left
    refine List.mem_flatMap.mpr ⟨_, hp, ?_⟩
    exact List.mem_map.mpr ⟨i, List.mem_range.mpr hi, rfl⟩
  have h' := assemble_rows _ _ _ E x hx _ hr
  simp only [rowOk] at h'
  have hs : ∑ j ∈ range (dend nd items + 3 * (asmX (dplace nd nd items)).length),
      (if j < nd then a i j else 0) * x j = ∑ d ∈ range nd, a i d * x d :=
    sum_range_tail_zero nd _ (le_trans (le_dend nd items) (Nat.le_add_right _ _))
      (fun j => (if j < nd then a i j else 0) * x j)
      (fun d => a i d * x d) (fun d hd => by simp only [if_pos hd])
      (fun d hd _ => by simp only [if_neg (show ¬ d < nd by omega), zero_mul])
  rw [hs] at h'
  exact h'

include hx in
/-- the epigraph row of the ro_model's objective `min var_const[0]`: `x_1 ≤ x_0` -/
theorem compile_obj (h1 : 1 < nd) : x 1 ≤ x 0 := by
  have hr : (⟨fun d => if d < nd then (1 : K) * (if d = 1 then 1 else 0) + (if d = 0 then -1 else 0) else 0,
      - ((1 : K) * 0), false⟩ : PRow K)
      ∈ asmRows0 (dend nd items) (dplace nd nd items) (roSpecOf nd).objRow := by
    unfold asmRows0
    apply List.mem_append_right
    have e0 : (roSpecOf nd : RoSpec K).objRow
        = [⟨fun d => if d < nd then (1 : K) * (if d = 1 then 1 else 0) + (if d = 0 then -1 else 0) else 0,
            - ((1 : K) * 0), false⟩] := rfl
    rw [e0]
    exact List.mem_cons_self
  have h' := assemble_rows _ _ _ E x hx _ hr
  simp only [rowOk, Bool.false_eq_true, if_false] at h'
  set N := dend nd items + 3 * (asmX (dplace nd nd items)).length with hN
  have hle : nd ≤ N := le_trans (le_dend nd items) (Nat.le_add_right _ _)
  have e : ∀ j, (if j < nd then (1 : K) * (if j = 1 then 1 else 0) + (if j = 0 then -1 else 0) else 0)
      = (if j = 1 then (1 : K) else 0) - (if j = 0 then 1 else 0) := by
    intro j
    by_cases hj : j < nd
    · rw [if_pos hj]
      by_cases h0 : j = 0
      · subst h0; simp
      · by_cases h1' : j = 1
        · subst h1'; simp
        · simp [h0, h1']
    · rw [if_neg hj, if_neg (by omega), if_neg (by omega)]; simp
  rw [Finset.sum_congr rfl (fun j _ => by rw [e j]), sum_unit_sub N 1 0 (by omega) (by omega) x] at h'
  linarith

end compile


/-! ### 4. The loop over the constraints -/

lemma conItems_R (D : DroDesc K) (cur : ℕ) (C : Constr K) (sel : Sel K) (L : List (DItem K)) (c1 : ℕ)
    (h : conItems D cur (.R C sel) = .ok (L, c1)) :
    ∃ its, roToRoc C D.rule D.S (D.selAmb sel) (fun _ _ => cur) = .ok its ∧
      L = its.map (ofItem (D.selPz sel)) ∧ c1 = cur := by
  simp only [conItems] at h
  cases hr : roToRoc C D.rule D.S (D.selAmb sel) (fun _ _ => cur) with
  | error e => rw [hr] at h; cases h
  | ok its =>
    rw [hr] at h
    injection h with h
    injection h with h1 h2
    exact ⟨its, rfl, h1.symm, h2.symm⟩

lemma conItems_E (D : DroDesc K) (cur : ℕ) (ps : List (Constr K)) (eq : Bool) (a : Option ℕ)
    (pat : ℕ → ℕ → ℕ → Bool)
    (L : List (DItem K)) (c1 : ℕ) (h : conItems D cur (.E ps eq a pat) = .ok (L, c1)) :
    ∃ ai, eAmb D a = some ai ∧ rejectsE D.rule D.nrand ps pat (eRowsOf ps) = false ∧
      L = (List.range ((if eq then 2 else 1) * eRowsOf ps)).flatMap (fun k =>
            eRow D (D.amb ai) ps (decide (eRowsOf ps ≤ k)) (cur + k * eW D (D.amb ai)) (k % eRowsOf ps)) ∧
      c1 = cur + (if eq then 2 else 1) * eRowsOf ps * eW D (D.amb ai) := by
  simp only [conItems] at h
  cases ha : eAmb D a with
  | none =>
    rw [ha] at h; cases h
  | some ai =>
    rw [ha] at h
    simp only at h
    cases hrej : rejectsE D.rule D.nrand ps pat (eRowsOf ps) with
    | true => rw [hrej] at h; simp at h
    | false =>
      rw [hrej] at h
      simp only [Bool.false_eq_true, if_false] at h
      injection h with h
      injection h with h1 h2
      exact ⟨ai, rfl, rfl, h1.symm, h2.symm⟩

lemma conItems_le (D : DroDesc K) (cur : ℕ) (c : DCon K) (L : List (DItem K)) (c1 : ℕ)
    (h : conItems D cur c = .ok (L, c1)) : cur ≤ c1 := by
  cases c with
  | R C sel =>
    obtain ⟨_, _, _, h3⟩ := conItems_R D cur C sel L c1 h
    omega
  | E ps eq a pat =>
    obtain ⟨_, _, _, _, h3⟩ := conItems_E D cur ps eq a pat L c1 h
    rw [h3]; exact Nat.le_add_right _ _

lemma go_cons (D : DroDesc K) (cur : ℕ) (c : DCon K) (t : List (DCon K)) (L : List (DItem K)) (n : ℕ)
    (h : go D cur (c :: t) = .ok (L, n)) :
    ∃ L1 c1 L2, conItems D cur c = .ok (L1, c1) ∧ go D c1 t = .ok (L2, n) ∧ L = L1 ++ L2 := by
  unfold go at h
  cases h1 : conItems D cur c with
  | error e => rw [h1] at h; cases h
  | ok p =>
    obtain ⟨L1, c1⟩ := p
    rw [h1] at h
    simp only at h
    cases h2 : go D c1 t with
    | error e => rw [h2] at h; cases h
    | ok q =>
      obtain ⟨L2, c2⟩ := q
      rw [h2] at h
      simp only at h
      injection h with h
      injection h with h3 h4
      subst h4
      exact ⟨L1, c1, L2, rfl, h2, h3.symm⟩

lemma go_le (D : DroDesc K) : ∀ (cons : List (DCon K)) (cur : ℕ) (L : List (DItem K)) (n : ℕ),
    go D cur cons = .ok (L, n) → cur ≤ n := by
  intro cons
  induction cons with
  | nil =>
    intro cur L n h
    unfold go at h
    injection h with h; injection h with _ h2
    omega
  | cons c t ih =>
    intro cur L n h
    obtain ⟨L1, c1, L2, h1, h2, _⟩ := go_cons D cur c t L n h
    exact le_trans (conItems_le D cur c L1 c1 h1) (ih c1 L2 n h2)

/-- every constraint was processed at some width `cur' ≥ cur`; its items are items of the ro_model, and the
columns it allocated are decision columns -/
lemma go_mem (D : DroDesc K) : ∀ (cons : List (DCon K)) (cur : ℕ) (L : List (DItem K)) (n : ℕ),
    go D cur cons = .ok (L, n) → ∀ c ∈ cons, ∃ cur' L' c1, cur ≤ cur' ∧
      conItems D cur' c = .ok (L', c1) ∧ (∀ it ∈ L', it ∈ L) ∧ c1 ≤ n := by
  intro cons
  induction cons with
  | nil => intro cur L n _ c hc; cases hc
  | cons c0 t ih =>
    intro cur L n h c hc
    obtain ⟨L1, c1, L2, h1, h2, h3⟩ := go_cons D cur c0 t L n h
    rcases List.mem_cons.mp hc with rfl | hc'
    · exact ⟨cur, L1, c1, le_refl _, h1, fun it hit => by rw [h3]; exact List.mem_append_left _ hit,
        go_le D t c1 L2 n h2⟩
    · obtain ⟨cur', L', c1', a1, a2, a3, a4⟩ := ih c1 L2 n h2 c hc'
      exact ⟨cur', L', c1', le_trans (conItems_le D cur c0 L1 c1 h1) a1, a2,
        fun it hit => by rw [h3]; exact List.mem_append_right _ (a3 it hit), a4⟩

/-- every item stems from a constraint -/
lemma go_items (D : DroDesc K) : ∀ (cons : List (DCon K)) (cur : ℕ) (L : List (DItem K)) (n : ℕ),
    go D cur cons = .ok (L, n) → ∀ it ∈ L, ∃ c ∈ cons, ∃ cur' L' c1,
      conItems D cur' c = .ok (L', c1) ∧ it ∈ L' ∧ c1 ≤ n := by
  intro cons
  induction cons with
  | nil =>
    intro cur L n h it hit
    unfold go at h
    injection h with h; injection h with h1 _
    rw [← h1] at hit; cases hit
  | cons c0 t ih =>
    intro cur L n h it hit
    obtain ⟨L1, c1, L2, h1, h2, h3⟩ := go_cons D cur c0 t L n h
    rw [h3] at hit
    rcases List.mem_append.mp hit with hit | hit
    · exact ⟨c0, List.mem_cons_self, cur, L1, c1, h1, hit, go_le D t c1 L2 n h2⟩
    · obtain ⟨c, hc, cur', L', c1', a1, a2, a3⟩ := ih c1 L2 n h2 it hit
      exact ⟨c, List.mem_cons_of_mem _ hc, cur', L', c1', a1, a2, a3⟩

lemma ofItem_cases (Pz : Tag → ConeProg K) (it : Item K) :
    (it.tag = none ∧ ofItem Pz it = .ro (.det it.row.m it.row.al (fun n => - it.row.ac n) (fun _ => it.eq))) ∨
    (∃ t, it.tag = some t ∧ (ofItem Pz it = .ro (.rob it.row (some (Pz t).coneDual)) ∨
      ofItem Pz it = .ro (.robEq it.row (some (Pz t).coneDual)))) := by
  unfold ofItem
  cases ht : it.tag with
  | none => exact Or.inl ⟨rfl, rfl⟩
  | some t =>
    right
    refine ⟨t, rfl, ?_⟩
    by_cases he : it.eq = true
    · right; simp [he]
    · left; simp [he]

/-- an `RoConstr` item of `ro_to_roc` contributes the block (its rows, the dual form of its support) -/
lemma ofItem_rob (Pz : Tag → ConeProg K) (it : Item K) (t : Tag) (ht : it.tag = some t) :
    ∃ ri, ofItem Pz it = .ro ri ∧ CItem.rob it.row (Pz t).coneDual ∈ blocksOf ri := by
  unfold ofItem
  rw [ht]
  by_cases he : it.eq = true
  · exact ⟨.robEq it.row (some (Pz t).coneDual), by simp [he], by simp [blocksOf, RoItem.resolve]⟩
  · exact ⟨.rob it.row (some (Pz t).coneDual), by simp [he], by simp [blocksOf, RoItem.resolve]⟩

lemma ofItem_det (Pz : Tag → ConeProg K) (it : Item K) (ht : it.tag = none) :
    ofItem Pz it = .ro (.det it.row.m it.row.al (fun n => - it.row.ac n) (fun _ => it.eq)) ∧
    CItem.det it.row.m it.row.al (fun n => - it.row.ac n) (fun _ => it.eq)
      ∈ blocksOf (.det it.row.m it.row.al (fun n => - it.row.ac n) (fun _ => it.eq)) := by
  unfold ofItem
  rw [ht]
  exact ⟨rfl, by simp [blocksOf, RoItem.resolve]⟩

lemma ofItem_not_pre (Pz : Tag → ConeProg K) (it : Item K) (R : RoRows K) (S : ConeProg K) :
    ofItem Pz it ≠ .pre R S := by
  rcases ofItem_cases Pz it with ⟨_, h⟩ | ⟨t, _, h | h⟩ <;> rw [h] <;> intro hh <;> cases hh

lemma ofItem_not_bnd (Pz : Tag → ConeProg K) (it : Item K) (b : Bound K) :
    ofItem Pz it ≠ .ro (.bnd b) := by
  rcases ofItem_cases Pz it with ⟨_, h⟩ | ⟨t, _, h | h⟩ <;> rw [h] <;> intro hh <;> cases hh

lemma ofRow2_not_pre (A : Amb K) (r : Row2 K) (R : RoRows K) (S : ConeProg K) : ofRow2 A r ≠ .pre R S := by
  unfold ofRow2; split_ifs <;> intro hh <;> cases hh

lemma ofRow2_not_bnd (A : Amb K) (r : Row2 K) (b : Bound K) : ofRow2 A r ≠ .ro (.bnd b) := by
  unfold ofRow2; split_ifs <;> intro hh <;> cases hh

/-- width arithmetic of the runs of an expectation constraint -/
lemma run_le (cur k N w : ℕ) (hk : k < N) : cur + k * w + w ≤ cur + N * w := by
  have : (k + 1) * w ≤ N * w := Nat.mul_le_mul_right w hk
  rw [Nat.add_mul, Nat.one_mul] at this
  omega

/-- **the items `dro.Model.do_math` hands to the ro_model are well-formed** -/
theorem droItems_wf (D : DroDesc K) (items : List (DItem K)) (nd : ℕ) (h : droItems D = .ok (items, nd)) :
    ItemsWF items nd ∧ D.n0 ≤ nd := by
  unfold droItems at h
  refine ⟨⟨?_, ?_⟩, go_le D _ _ _ _ h⟩
  · intro R S hmem
    obtain ⟨c, _, cur', L', c1, h1, h2, h3⟩ := go_items D _ _ _ _ h _ hmem
    cases c with
    | R C sel =>
      obtain ⟨its, _, hL, _⟩ := conItems_R D cur' C sel L' c1 h1
      rw [hL] at h2
      obtain ⟨it, _, hit⟩ := List.mem_map.mp h2
      exact absurd hit (ofItem_not_pre _ it R S)
    | E ps eq a pat =>
      obtain ⟨ai, _, _, hL, hc1⟩ := conItems_E D cur' ps eq a pat L' c1 h1
      rw [hL] at h2
      obtain ⟨k, hk, hit⟩ := List.mem_flatMap.mp h2
      have hk' := List.mem_range.mp hk
      unfold eRow at hit
      rcases List.mem_cons.mp hit with hit | hit
      · injection hit with hR hS
        subst hR; subst hS
        have := run_le cur' k _ (eW D (D.amb ai)) hk'
        have hw : eW D (D.amb ai) = D.S + D.nrand * (D.amb ai).exps.length + (D.amb ai).mixDual.lp.nc := rfl
        show (cur' + k * eW D (D.amb ai)) + D.S + D.nrand * (D.amb ai).exps.length
          + 1 * (D.amb ai).mixDual.lp.nc ≤ nd
        rw [hc1] at h3
        omega
      · obtain ⟨r, _, hr⟩ := List.mem_map.mp hit
        exact absurd hr (ofRow2_not_pre _ r R S)
  · intro b hmem
    obtain ⟨c, _, cur', L', c1, h1, h2, h3⟩ := go_items D _ _ _ _ h _ hmem
    cases c with
    | R C sel =>
      obtain ⟨its, _, hL, _⟩ := conItems_R D cur' C sel L' c1 h1
      rw [hL] at h2
      obtain ⟨it, _, hit⟩ := List.mem_map.mp h2
      exact absurd hit (ofItem_not_bnd _ it b)
    | E ps eq a pat =>
      obtain ⟨ai, _, _, hL, hc1⟩ := conItems_E D cur' ps eq a pat L' c1 h1
      rw [hL] at h2
      obtain ⟨k, hk, hit⟩ := List.mem_flatMap.mp h2
      unfold eRow at hit
      rcases List.mem_cons.mp hit with hit | hit
      · cases hit
      · obtain ⟨r, _, hr⟩ := List.mem_map.mp hit
        exact absurd hr (ofRow2_not_bnd _ r b)


/-! ### 5. Re-padding the items of `ro_to_roc` to the width they are compiled at

`ro.Model.do_math` compiles an `RoConstr` when `rc_model` has `c` columns: `le_to_rc` zero-pads the rows to
`c` columns.  The item re-padded to `c` columns is the item `ro_to_roc` would have produced had `rc_model` had
`c` columns when it was called: `roToRoc` depends on the padding width only through the `nd` field of the
rows (all rule columns exist already). -/

section repad
variable (r : Rule) (s w0 : ℕ) (R : RoRows K)
  (hcc : ∀ d < r.nv, r.cc s d < w0)
  (hlc : ∀ d < r.nv, ∀ j < R.nz, r.mask d j = true → r.lcol s d j < w0)

include hcc hlc in
/-- the substituted row has no coefficient beyond the rule's columns -/
lemma substRow_Rl_zero (w n j c : ℕ) (hj : j < R.nz) (hc : w0 ≤ c) : (substRow r s w R).Rl n j c = 0 := by
  show (∑ d ∈ range r.nv, if r.cc s d = c then R.Rl n j d else 0) +
    (∑ d ∈ range r.nv, if r.mask d j ∧ r.lcol s d j = c then R.al n d else 0) = 0
  have h1 : (∑ d ∈ range r.nv, if r.cc s d = c then R.Rl n j d else 0) = 0 := by
    apply Finset.sum_eq_zero
    intro d hd
    have := hcc d (Finset.mem_range.mp hd)
    rw [if_neg (by omega)]
  have h2 : (∑ d ∈ range r.nv, if r.mask d j ∧ r.lcol s d j = c then R.al n d else 0) = 0 := by
    apply Finset.sum_eq_zero
    intro d hd
    by_cases hm : r.mask d j = true
    · have := hlc d (Finset.mem_range.mp hd) j hj hm
      rw [if_neg (by intro h; omega)]
    · rw [if_neg (by intro h; exact hm h.1)]
  rw [h1, h2, add_zero]

include hcc in
lemma substRow_al_zero (w n c : ℕ) (hc : w0 ≤ c) : (substRow r s w R).al n c = 0 := by
  show (∑ d ∈ range r.nv, if r.cc s d = c then R.al n d else 0) = 0
  apply Finset.sum_eq_zero
  intro d hd
  have := hcc d (Finset.mem_range.mp hd)
  rw [if_neg (by omega)]

include hcc hlc in
/-- "no random part left" does not depend on the padding width -/
lemma substRow_randZero_eq (w w' : ℕ) (hw : w0 ≤ w) (hw' : w0 ≤ w') :
    (substRow r s w' R).randZero = (substRow r s w R).randZero := by
  have key : ∀ a b : ℕ, w0 ≤ a → w0 ≤ b → (substRow r s a R).randZero = true →
      (substRow r s b R).randZero = true := by
    intro a b ha hb h
    rw [RoRows.randZero_iff] at h ⊢
    intro n hn j hj
    obtain ⟨h1, h2⟩ := h n hn j hj
    refine ⟨h1, ?_⟩
    intro d hd
    by_cases hda : d < a
    · exact h2 d hda
    · exact substRow_Rl_zero r s w0 R hcc hlc b n j d hj (by omega)
  cases h1 : (substRow r s w' R).randZero <;> cases h2 : (substRow r s w R).randZero
  · rfl
  · rw [key w w' hw hw' h2] at h1; cases h1
  · rw [key w' w hw' hw h1] at h2; cases h2
  · rfl

end repad

/-- an item re-padded to `w` columns -/
def Item.setNd (it : Item K) (w : ℕ) : Item K := { it with row := it.row.setNd w }

lemma itemOf_hs (C : Constr K) (r : Rule) (amb : AmbSel) (nd h : ℕ) (eq : Bool) (R : RoRows K) (s : ℕ)
    (it : Item K) (hit : itemOf C r amb nd h eq R s = .ok it) : it.h = h ∧ it.s = s := by
  unfold itemOf at hit
  by_cases hrej : rejects C r = true
  · rw [if_pos hrej] at hit; cases hit
  · rw [if_neg hrej] at hit
    simp only at hit
    by_cases hz : (substRow r s nd R).randZero = true
    · rw [if_pos hz] at hit
      injection hit with hit
      subst hit
      exact ⟨rfl, rfl⟩
    · rw [if_neg hz] at hit
      cases ht : tagFor amb s with
      | none => rw [ht] at hit; cases hit
      | some t =>
        rw [ht] at hit
        injection hit with hit
        subst hit
        exact ⟨rfl, rfl⟩

/-- **the loop body of `ro_to_roc` at another padding width** produces the re-padded item -/
lemma itemOf_repad (C : Constr K) (r : Rule) (amb : AmbSel) (w0 h : ℕ) (eq : Bool) (R : RoRows K) (s : ℕ)
    (hcc : ∀ d < r.nv, r.cc s d < w0)
    (hlc : ∀ d < r.nv, ∀ j < R.nz, r.mask d j = true → r.lcol s d j < w0)
    (it : Item K) (hit : itemOf C r amb w0 h eq R s = .ok it) (w : ℕ) (hw : w0 ≤ w) :
    itemOf C r amb w h eq R s = .ok (Item.setNd it w) := by
  have hz := substRow_randZero_eq r s w0 R hcc hlc w0 w (le_refl _) hw
  unfold itemOf at hit ⊢
  by_cases hrej : rejects C r = true
  · rw [if_pos hrej] at hit; cases hit
  · rw [if_neg hrej] at hit ⊢
    simp only at hit ⊢
    rw [hz]
    by_cases hz0 : (substRow r s w0 R).randZero = true
    · rw [if_pos hz0] at hit ⊢
      injection hit with hit
      subst hit
      rfl
    · rw [if_neg hz0] at hit ⊢
      cases ht : tagFor amb s with
      | none => rw [ht] at hit; cases hit
      | some t =>
        rw [ht] at hit
        injection hit with hit
        subst hit
        rfl

lemma collect_ok_map {α β : Type} (f f' : α → Except Err β) (g : β → β) :
    ∀ (L : List α) (bs : List β), collect (L.map f) = .ok bs →
      (∀ x ∈ L, ∀ b, f x = .ok b → f' x = .ok (g b)) → collect (L.map f') = .ok (bs.map g) := by
  intro L
  induction L with
  | nil =>
    intro bs h _
    simp only [List.map_nil, collect] at h ⊢
    injection h with h
    subst h
    rfl
  | cons y L ih =>
    intro bs h hf
    simp only [List.map_cons] at h ⊢
    cases hy : f y with
    | error e => rw [hy] at h; simp [collect] at h
    | ok b =>
      rw [hy] at h
      cases hL : collect (L.map f) with
      | error e => simp [collect, hL] at h
      | ok bs' =>
        simp only [collect, hL] at h
        injection h with h
        subst h
        rw [hf y List.mem_cons_self b hy]
        simp only [collect, ih bs' hL (fun x hx b' hb' => hf x (List.mem_cons_of_mem _ hx) b' hb'), List.map_cons]

lemma collect_ok_mem {α β : Type} (f : α → Except Err β) :
    ∀ (L : List α) (bs : List β), collect (L.map f) = .ok bs → ∀ b ∈ bs, ∃ x ∈ L, f x = .ok b := by
  intro L
  induction L with
  | nil =>
    intro bs h b hb
    simp only [List.map_nil, collect] at h
    injection h with h
    subst h
    cases hb
  | cons y L ih =>
    intro bs h b hb
    simp only [List.map_cons] at h
    cases hy : f y with
    | error e => rw [hy] at h; simp [collect] at h
    | ok b0 =>
      rw [hy] at h
      cases hL : collect (L.map f) with
      | error e => simp [collect, hL] at h
      | ok bs' =>
        simp only [collect, hL] at h
        injection h with h
        subst h
        rcases List.mem_cons.mp hb with rfl | hb'
        · exact ⟨y, List.mem_cons_self, hy⟩
        · obtain ⟨x, hx, hfx⟩ := ih bs' hL b hb'
          exact ⟨x, List.mem_cons_of_mem _ hx, hfx⟩

/-- the expression of half `h` of a constraint -/
def halfRows (C : Constr K) (h : ℕ) : RoRows K := if h = 0 then C.orig else C.orig.negate

/-- re-padding an item to the width `nd1` assigns to its half and scenario -/
def repad (nd1 : ℕ → ℕ → ℕ) (it : Item K) : Item K := Item.setNd it (nd1 it.h it.s)

section roToRoc
variable (C : Constr K) (r : Rule) (S : ℕ) (amb : AmbSel) (w0 : ℕ)
  (hcc : ∀ s < S, ∀ d < r.nv, r.cc s d < w0)
  (hlc : ∀ s < S, ∀ d < r.nv, ∀ j < C.rows.nz, r.mask d j = true → r.lcol s d j < w0)

lemma orig_nz : C.orig.nz = C.rows.nz := by
  unfold Constr.orig; cases C.kind <;> rfl

include hcc hlc in
lemma half_repad (h : ℕ) (eq : Bool) (R : RoRows K) (hR : R.nz = C.rows.nz) (its : List (Item K))
    (hok : half C r S amb (fun _ _ => w0) h eq R = .ok its) (nd1 : ℕ → ℕ → ℕ)
    (hnd1 : ∀ h s, w0 ≤ nd1 h s) :
    half C r S amb nd1 h eq R = .ok (its.map (repad nd1)) := by
  unfold half at hok ⊢
  apply collect_ok_map _ _ (repad nd1) _ _ hok
  intro s hs it hit
  have hs' := List.mem_range.mp hs
  obtain ⟨e1, e2⟩ := itemOf_hs C r amb w0 h eq R s it hit
  have := itemOf_repad C r amb w0 h eq R s (hcc s hs') (by rw [hR]; exact hlc s hs') it hit (nd1 h s) (hnd1 h s)
  rw [this]
  unfold repad
  rw [e1, e2]

include hcc hlc in
/-- **`ro_to_roc` at other padding widths** returns the re-padded items -/
theorem roToRoc_repad (its : List (Item K)) (hok : roToRoc C r S amb (fun _ _ => w0) = .ok its)
    (nd1 : ℕ → ℕ → ℕ) (hnd1 : ∀ h s, w0 ≤ nd1 h s) :
    roToRoc C r S amb nd1 = .ok (its.map (repad nd1)) := by
  unfold roToRoc at hok ⊢
  by_cases hsp : splits C r = true
  · rw [if_pos hsp] at hok ⊢
    cases hl : half C r S amb (fun _ _ => w0) 0 false C.orig with
    | error e => rw [hl] at hok; cases hok
    | ok l =>
      rw [hl] at hok
      cases hl' : half C r S amb (fun _ _ => w0) 1 false C.orig.negate with
      | error e => rw [hl'] at hok; cases hok
      | ok l' =>
        rw [hl'] at hok
        simp only at hok
        injection hok with hok
        subst hok
        rw [half_repad C r S amb w0 hcc hlc 0 false C.orig (orig_nz C) l hl nd1 hnd1,
          half_repad C r S amb w0 hcc hlc 1 false C.orig.negate (orig_nz C) l' hl' nd1 hnd1]
        simp only [List.map_append]
  · rw [if_neg hsp] at hok ⊢
    exact half_repad C r S amb w0 hcc hlc 0 C.eq C.orig (orig_nz C) its hok nd1 hnd1

/-- every returned item is the item of some half and scenario -/
theorem roToRoc_mem (nd : ℕ → ℕ → ℕ) (its : List (Item K)) (hok : roToRoc C r S amb nd = .ok its)
    (it : Item K) (hit : it ∈ its) :
    ∃ h s eq, s < S ∧ itemOf C r amb (nd h s) h eq (halfRows C h) s = .ok it := by
  unfold roToRoc at hok
  by_cases hsp : splits C r = true
  · rw [if_pos hsp] at hok
    cases hl : half C r S amb nd 0 false C.orig with
    | error e => rw [hl] at hok; cases hok
    | ok l =>
      rw [hl] at hok
      cases hl' : half C r S amb nd 1 false C.orig.negate with
      | error e => rw [hl'] at hok; cases hok
      | ok l' =>
        rw [hl'] at hok
        simp only at hok
        injection hok with hok
        subst hok
        rcases List.mem_append.mp hit with hit | hit
        · unfold half at hl
          obtain ⟨s, hs, h1⟩ := collect_ok_mem _ _ _ hl it hit
          exact ⟨0, s, false, List.mem_range.mp hs, h1⟩
        · unfold half at hl'
          obtain ⟨s, hs, h1⟩ := collect_ok_mem _ _ _ hl' it hit
          exact ⟨1, s, false, List.mem_range.mp hs, h1⟩
  · rw [if_neg hsp] at hok
    unfold half at hok
    obtain ⟨s, hs, h1⟩ := collect_ok_mem _ _ _ hok it hit
    exact ⟨0, s, C.eq, List.mem_range.mp hs, h1⟩

end roToRoc

/-- a block of rows at the realisation `0` -/
lemma eval_zero (R : RoRows K) (n : ℕ) (v : ℕ → K) :
    R.eval n v (fun _ => 0) = ∑ d ∈ range R.nd, R.al n d * v d + R.ac n := by
  unfold RoRows.eval
  have : ∑ j ∈ range R.nz, ((∑ d ∈ range R.nd, R.Rl n j d * v d) + R.Rc n j) * (0 : K) = 0 := by
    apply Finset.sum_eq_zero; intro j _; rw [mul_zero]
  rw [this, zero_add]


/-- **no exception of `dro_to_roc`'s check**: a decision column in the pattern of a random coefficient of a checked
row of a `DecRoConstr` piece has no dependency declared -/
lemma not_rejectsE (r : Rule) (nrand : ℕ) (ps : List (Constr K)) (pat : ℕ → ℕ → ℕ → Bool) (m : ℕ)
    (h : rejectsE r nrand ps pat m = false) (i : ℕ) (hi : i < m) (l : ℕ) (hl : l < ps.length)
    (hk : (ps.getD l Constr.zero).kind = .ro) (d : ℕ) (hd : d < r.nv) (hp : pat l i d = true)
    (j : ℕ) (hj : j < nrand) : r.mask d j = false := by
  by_contra hm
  have hm' : r.mask d j = true := by
    cases hh : r.mask d j
    · exact absurd hh hm
    · rfl
  have h1 : r.isRo nrand = true := by
    unfold Rule.isRo
    rw [List.any_eq_true]
    refine ⟨d, List.mem_range.mpr hd, ?_⟩
    rw [List.any_eq_true]
    exact ⟨j, List.mem_range.mpr hj, hm'⟩
  have h2 : ((List.range m).any fun i => (List.range ps.length).any fun l =>
      ((ps.getD l Constr.zero).kind == .ro) && (List.range r.nv).any fun d =>
        pat l i d && (List.range nrand).any fun j => r.mask d j) = true := by
    rw [List.any_eq_true]
    refine ⟨i, List.mem_range.mpr hi, ?_⟩
    rw [List.any_eq_true]
    refine ⟨l, List.mem_range.mpr hl, ?_⟩
    rw [Bool.and_eq_true]
    refine ⟨by rw [hk]; rfl, ?_⟩
    rw [List.any_eq_true]
    refine ⟨d, List.mem_range.mpr hd, ?_⟩
    rw [Bool.and_eq_true, List.any_eq_true]
    exact ⟨hp, j, List.mem_range.mpr hj, hm'⟩
  unfold rejectsE at h
  rw [h1, h2] at h
  simp at h

end DroModel
end RsomeV
