import RsomeV.M.ShowTable
import Mathlib.Data.List.Sort
import Mathlib.Data.List.Perm.Basic
import Mathlib.Data.List.Count
import Mathlib.Data.Rat.Lemmas
import Mathlib.Tactic.NormNum
import Mathlib.Tactic.Linarith
import Mathlib.Tactic.Ring

/-! Helper lemmas for C16Show (the `show()` table determines the program). -/

namespace RsomeV.ShowTable

/-! ### labels and row classes -/

theorem tag_numLabel (pre : List Char) (i : ℕ) (h : pre.length = 2) : tag (numLabel pre i) = pre := by
  simp [tag, numLabel, String.toList_ofList, h]

/-- rows of one class: cells of the rows whose label starts with `t` -/
def cls (t : List Char) (rows : List (String × List Cell)) : List (List Cell) :=
  (rows.filter fun r => tag r.1 = t).map (·.2)

theorem rowsOf_eq (t : List Char) (T : Table) : rowsOf t T = cls t T.rows := rfl

theorem cls_append (t : List Char) (A B : List (String × List Cell)) :
    cls t (A ++ B) = cls t A ++ cls t B := by
  simp [cls, List.filter_append]

theorem cls_cons (t : List Char) (r : String × List Cell) (B : List (String × List Cell)) :
    cls t (r :: B) = (if tag r.1 = t then [r.2] else []) ++ cls t B := by
  by_cases h : tag r.1 = t <;> simp [cls, h]

theorem cls_nil (t : List Char) : cls t [] = [] := rfl

theorem cls_block (t t' : List Char) (B : List (String × List Cell)) (h : ∀ r ∈ B, tag r.1 = t') :
    cls t B = if t' = t then B.map (·.2) else [] := by
  by_cases e : t' = t
  · subst e
    have : (B.filter fun r => tag r.1 = t') = B := by
      rw [List.filter_eq_self]; intro r hr; simpa using h r hr
    simp [cls, this]
  · have : (B.filter fun r => tag r.1 = t) = [] := by
      rw [List.filter_eq_nil_iff]; intro r hr; simp [h r hr, e]
    simp [cls, this, e]

/-- `fillna` keeps the labels -/
def fillRow (s : String) (r : String × List Cell) : String × List Cell := (r.1, r.2.map (fillCell s))

theorem cls_fill (t : List Char) (s : String) (B : List (String × List Cell)) :
    cls t (B.map (fillRow s)) = (cls t B).map (List.map (fillCell s)) := by
  induction B with
  | nil => rfl
  | cons r B ih =>
    rw [List.map_cons, cls_cons, cls_cons, ih]
    by_cases h : tag r.1 = t <;> simp [fillRow, h]

variable (P : ConeProg ℚ)

theorem tag_lcRows : ∀ r ∈ lcRows P, tag r.1 = ['L', 'C'] := by
  intro r hr
  simp only [lcRows, List.mem_map] at hr
  obtain ⟨i, -, rfl⟩ := hr
  exact tag_numLabel _ _ rfl

theorem tag_qcRows : ∀ r ∈ qcRows P, tag r.1 = ['Q', 'C'] := by
  intro r hr
  simp only [qcRows, List.mem_mapIdx] at hr
  obtain ⟨i, _, rfl⟩ := hr
  exact tag_numLabel _ _ rfl

theorem tag_ecRows : ∀ r ∈ ecRows P, tag r.1 = ['E', 'C'] := by
  intro r hr
  simp only [ecRows, List.mem_mapIdx] at hr
  obtain ⟨i, _, rfl⟩ := hr
  exact tag_numLabel _ _ rfl

theorem tag_obj : tag (objRow P).1 = ['O', 'b'] := by
  show tag "Obj" = ['O', 'b']; decide
theorem tag_ub : tag (ubRow P).1 = ['U', 'B'] := by
  show tag "UB" = ['U', 'B']; decide
theorem tag_lb : tag (lbRow P).1 = ['L', 'B'] := by
  show tag "LB" = ['L', 'B']; decide
theorem tag_type (vt : List String) : tag (typeRow vt).1 = ['T', 'y'] := by
  show tag "Type" = ['T', 'y']; decide

/-- all rows of `SOCProg.show()` / `GCProg.show()`, flat -/
theorem showConic_rows (e : Bool) (vt : List String) :
    (showConic P e vt).rows =
      (objRow P :: (lcRows P ++ (qcRows P ++ ((if e then ecRows P else []) ++
        [ubRow P, lbRow P, typeRow vt])))).map (fillRow "-") := by
  have hq : (Table.concatOpt ⟨columns P.lp.nc, objRow P :: lcRows P⟩ (showqc P)).rows
      = objRow P :: lcRows P ++ qcRows P := by
    unfold showqc
    by_cases h : P.qmat = []
    · simp [h, Table.concatOpt, qcRows]
    · simp [h, Table.concatOpt, Table.concat]
  have hx : ∀ A : Table, (A.concatOpt (showec P)).rows = A.rows ++ ecRows P := by
    intro A
    unfold showec
    by_cases h : P.xmat = []
    · simp [h, Table.concatOpt, ecRows]
    · simp [h, Table.concatOpt, Table.concat]
  have hfr : fillRow "-" = fun r : String × List Cell => (r.1, r.2.map (fillCell "-")) := rfl
  cases e
  · simp only [showConic, showlc, Table.fillna, Table.concat, hq, Bool.false_eq_true, if_false]
    simp [hfr]
  · simp only [showConic, showlc, Table.fillna, Table.concat, hx, hq, if_true]
    simp [hfr]

/-! ### cells -/

theorem xCells_append2 (xs : List Cell) (a b : Cell) : xCells (xs ++ [a, b]) = xs := by
  simp [xCells]

theorem readLc_append2 (xs : List Cell) (s c : Cell) :
    readLc (xs ++ [s, c]) = (xs.map Cell.toRat, decide (s = .str "=="), c.toRat) := by
  simp [readLc]

theorem fill_nums (s : String) (f : ℕ → ℚ) (l : List ℕ) :
    (l.map fun j => Cell.num (f j)).map (fillCell s) = l.map fun j => Cell.num (f j) := by
  simp [List.map_map, Function.comp_def, fillCell]

theorem fill_bounds (s : String) (neg : Bool) (f : ℕ → Option ℚ) (l : List ℕ) :
    (l.map fun j => boundCell neg (f j)).map (fillCell s) = l.map fun j => boundCell neg (f j) := by
  rw [List.map_map]
  apply List.map_congr_left
  intro j _
  cases h : f j <;> simp [boundCell, fillCell, h]

theorem fill_strs (s : String) (l : List String) :
    (l.map Cell.str).map (fillCell s) = l.map Cell.str := by
  simp [List.map_map, Function.comp_def, fillCell]

theorem toRat_nums (f : ℕ → ℚ) (l : List ℕ) : (l.map fun j => Cell.num (f j)).map Cell.toRat = l.map f := by
  simp [List.map_map, Function.comp_def, Cell.toRat]

theorem toBound_ub (f : ℕ → Option ℚ) (neg : Bool) (l : List ℕ) :
    (l.map fun j => boundCell neg (f j)).map Cell.toBound = l.map f := by
  rw [List.map_map]
  apply List.map_congr_left
  intro j _
  cases h : f j <;> simp [boundCell, Cell.toBound, h]

theorem toStr_strs (l : List String) : (l.map Cell.str).map Cell.toStr = l := by
  simp [List.map_map, Function.comp_def, Cell.toStr]

theorem getD_map_range (n : ℕ) (f : ℕ → ℚ) (j : ℕ) (h : j < n) :
    ((List.range n).map f).getD j 0 = f j := by
  simp [List.getD, h]

theorem filter_range_eq (n a : ℕ) (h : a < n) :
    ((List.range n).filter fun j => decide (j = a)) = [a] := by
  induction n with
  | zero => omega
  | succ n ih =>
    rw [List.range_succ, List.filter_append]
    by_cases e : a = n
    · subst e
      have : ((List.range a).filter fun j => decide (j = a)) = [] := by
        rw [List.filter_eq_nil_iff]; intro j hj; simp at hj ⊢; omega
      simp [this]
    · have : a < n := by omega
      rw [ih this]
      have h2 : ¬ n = a := fun h => e h.symm
      simp [h2]

/-! ### second-order cone rows -/

theorem sum_zip_replicate (t : List ℕ) (j : ℕ) :
    (((List.replicate t.length (1 : ℚ)).zip t).map fun p => if p.2 = j then p.1 else 0).sum
      = (t.count j : ℚ) := by
  induction t with
  | nil => simp
  | cons a t ih =>
    rw [List.length_cons, List.replicate_succ, List.zip_cons_cons, List.map_cons, List.sum_cons, ih,
      List.count_cons]
    by_cases h : a = j
    · simp [h]
      ring
    · simp [h]

theorem csrCell_qc (h : ℕ) (t : List ℕ) (j : ℕ) :
    csrCell (qcVals (h :: t)) (h :: t) j = (if h = j then -1 else 0) + (t.count j : ℚ) := by
  simp only [csrCell, qcVals, List.length_cons, Nat.add_sub_cancel, List.zip_cons_cons, List.map_cons,
    List.sum_cons]
  rw [sum_zip_replicate]

/-- reading a `QC` row gives the head and the counting-sorted tail -/
theorem readQc_row (nc : ℕ) (h : ℕ) (t : List ℕ) (hh : h < nc) (hnot : h ∉ t) :
    readQc ((csrRow nc (qcVals (h :: t)) (h :: t) ++ [Cell.str "<=", Cell.num 0]).map (fillCell "-"))
      = normCone nc (h :: t) := by
  have hrow : (csrRow nc (qcVals (h :: t)) (h :: t) ++ [Cell.str "<=", Cell.num 0]).map (fillCell "-")
      = csrRow nc (qcVals (h :: t)) (h :: t) ++ [Cell.str "<=", Cell.num 0] := by
    rw [List.map_append, csrRow, fill_nums]; rfl
  rw [hrow]
  unfold readQc
  simp only [xCells_append2, csrRow, toRat_nums, List.length_map, List.length_range]
  have hc : t.count h = 0 := List.count_eq_zero.mpr hnot
  have e1 : ((List.range nc).filter fun j =>
      decide (((List.range nc).map (csrCell (qcVals (h :: t)) (h :: t))).getD j 0 < 0))
      = (List.range nc).filter fun j => decide (j = h) := by
    apply List.filter_congr
    intro j hj
    rw [getD_map_range _ _ _ (List.mem_range.mp hj), csrCell_qc]
    by_cases e : h = j
    · subst e; simp [hc]
    · have e' : ¬ j = h := fun x => e x.symm
      have : (0 : ℚ) ≤ (t.count j : ℚ) := Nat.cast_nonneg _
      simp [e, e', not_lt.mpr this]
  have e2 : ((List.range nc).flatMap fun j =>
      List.replicate (((List.range nc).map (csrCell (qcVals (h :: t)) (h :: t))).getD j 0).num.toNat j)
      = countSort nc t := by
    unfold countSort
    apply List.flatMap_congr
    intro j hj
    rw [getD_map_range _ _ _ (List.mem_range.mp hj), csrCell_qc]
    by_cases e : h = j
    · subst e; simp [hc]
    · simp [e]
  rw [e1, e2, filter_range_eq nc h hh]
  simp [normCone]

/-! ### exponential cone rows -/

theorem csrCell_ec (a b c j : ℕ) :
    csrCell ecVals [a, b, c] j = (if a = j then 1 else 0) + ((if b = j then 2 else 0) + (if c = j then 3 else 0)) := by
  simp [csrCell, ecVals]

theorem readEc_row (nc : ℕ) (a b c : ℕ) (ha : a < nc) (hb : b < nc) (hc : c < nc)
    (hab : a ≠ b) (hac : a ≠ c) (hbc : b ≠ c) :
    readEc ((csrRow nc ecVals [a, b, c] ++ [Cell.str "-", Cell.str "-"]).map (fillCell "-")) = [a, b, c] := by
  have hrow : (csrRow nc ecVals [a, b, c] ++ [Cell.str "-", Cell.str "-"]).map (fillCell "-")
      = csrRow nc ecVals [a, b, c] ++ [Cell.str "-", Cell.str "-"] := by
    rw [List.map_append, csrRow, fill_nums]; rfl
  rw [hrow]
  unfold readEc
  simp only [xCells_append2, csrRow, toRat_nums, List.length_map, List.length_range]
  have key : ∀ (v : ℚ) (m : ℕ), (∀ j, (csrCell ecVals [a, b, c] j = v ↔ j = m)) → m < nc →
      ((List.range nc).filter fun j =>
        decide (((List.range nc).map (csrCell ecVals [a, b, c])).getD j 0 = v)) = [m] := by
    intro v m hv hm
    rw [← filter_range_eq nc m hm]
    apply List.filter_congr
    intro j hj
    rw [getD_map_range _ _ _ (List.mem_range.mp hj)]
    simp [hv j]
  have val : ∀ j, csrCell ecVals [a, b, c] j =
      if j = a then 1 else if j = b then 2 else if j = c then 3 else 0 := by
    intro j
    rw [csrCell_ec]
    have hba := hab.symm
    have hca := hac.symm
    have hcb := hbc.symm
    by_cases e1 : j = a
    · simp [e1, hba, hca]
    · by_cases e2 : j = b
      · simp [e2, hab, hba, hcb]
      · by_cases e3 : j = c
        · simp [e3, hac, hca, hbc, hcb]
        · have e1' : ¬ a = j := fun x => e1 x.symm
          have e2' : ¬ b = j := fun x => e2 x.symm
          have e3' : ¬ c = j := fun x => e3 x.symm
          simp [e1, e2, e3, e1', e2', e3']
  have h1 : ∀ j, (csrCell ecVals [a, b, c] j = 1 ↔ j = a) := by
    intro j; rw [val]; split_ifs <;> simp_all
  have h2 : ∀ j, (csrCell ecVals [a, b, c] j = 2 ↔ j = b) := by
    intro j; rw [val]; split_ifs <;> simp_all
  have h3 : ∀ j, (csrCell ecVals [a, b, c] j = 3 ↔ j = c) := by
    intro j; rw [val]; split_ifs <;> simp_all
  rw [key 1 a h1 ha, key 2 b h2 hb, key 3 c h3 hc]
  rfl

/-! ### counting sort -/

theorem count_countSort (n : ℕ) (t : List ℕ) (j : ℕ) :
    (countSort n t).count j = if j < n then t.count j else 0 := by
  induction n with
  | zero => simp [countSort]
  | succ n ih =>
    have : countSort (n + 1) t = countSort n t ++ List.replicate (t.count n) n := by
      simp [countSort, List.range_succ, List.flatMap_append]
    rw [this, List.count_append, ih, List.count_replicate]
    by_cases h1 : j < n
    · have : ¬ n = j := by omega
      have h2 : j < n + 1 := by omega
      simp [h1, h2, this]
    · by_cases h2 : n = j
      · subst h2; simp
      · have : ¬ j < n + 1 := by omega
        simp [h1, h2, this]

/-- the counting sort is a permutation of the list -/
theorem countSort_perm (n : ℕ) (t : List ℕ) (h : ∀ j ∈ t, j < n) : (countSort n t).Perm t := by
  rw [List.perm_iff_count]
  intro j
  rw [count_countSort]
  by_cases hj : j < n
  · simp [hj]
  · have : j ∉ t := fun hm => hj (h j hm)
    simp [hj, List.count_eq_zero.mpr this]

theorem countSort_sorted (n : ℕ) (t : List ℕ) : (countSort n t).Pairwise (· ≤ ·) := by
  induction n with
  | zero => simp [countSort]
  | succ n ih =>
    have e : countSort (n + 1) t = countSort n t ++ List.replicate (t.count n) n := by
      simp [countSort, List.range_succ, List.flatMap_append]
    rw [e, List.pairwise_append]
    refine ⟨ih, ?_, ?_⟩
    · rw [List.pairwise_replicate]; simp
    · intro a ha b hb
      have hb' : b = n := (List.mem_replicate.mp hb).2
      have : 0 < (countSort n t).count a := List.count_pos_iff.mpr ha
      rw [count_countSort] at this
      by_cases h : a < n
      · omega
      · simp [h] at this

/-- an ascending list of columns is its own counting sort -/
theorem countSort_eq_self (n : ℕ) (t : List ℕ) (h : ∀ j ∈ t, j < n) (hs : t.Pairwise (· ≤ ·)) :
    countSort n t = t :=
  List.Perm.eq_of_pairwise (le := (· ≤ ·)) (fun _ _ _ _ h1 h2 => Nat.le_antisymm h1 h2)
    (countSort_sorted n t) hs (countSort_perm n t h)

/-- a cone with ascending tail is shown as it is -/
theorem normCone_eq_self (n : ℕ) (q : List ℕ) (h : ∀ j ∈ q, j < n) (hs : q.tail.Pairwise (· ≤ ·)) :
    normCone n q = q := by
  cases q with
  | nil => simp [normCone, countSort]
  | cons a t =>
    have : countSort n t = t := countSort_eq_self n t (fun j hj => h j (List.mem_cons_of_mem _ hj)) hs
    simp [normCone, this]

/-! ### lists over `range` -/

theorem map_range_inj {α : Type} (n : ℕ) (f g : ℕ → α) (h : (List.range n).map f = (List.range n).map g) :
    ∀ i < n, f i = g i := by
  intro i hi
  exact List.map_inj_left.mp h i (List.mem_range.mpr hi)

theorem map_range_len {α : Type} (n m : ℕ) (f g : ℕ → α) (h : (List.range n).map f = (List.range m).map g) :
    n = m := by
  simpa using congrArg List.length h

end RsomeV.ShowTable
