import RsomeV.L.ConeDualWeak
import RsomeV.L.LpDualStrong
import RsomeV.L.RobustComplete
import Mathlib.Analysis.Real.Sqrt
import Mathlib.LinearAlgebra.Pi
import Mathlib.Topology.Algebra.Module.Basic
import Mathlib.Topology.Algebra.Module.ContinuousLinearMap.Basic
import Mathlib.Topology.Algebra.Monoid
import Mathlib.Topology.Algebra.Ring.Real
import Mathlib.Topology.Order.OrderClosed
import Mathlib.Tactic.Linarith
import Mathlib.Tactic.Ring
import Mathlib.Tactic.Positivity

/-! Second-order cone facts over `ℝ` in the representation of the development (`socMem`, index
lists, `qBlocks`): strict membership, the cone laws, openness of the strict product cone in
`Fin m → ℝ`, self-duality of the product cone laid out by `qBlocks`, and the transport of cone
membership between the index lists `qs` and the consecutive blocks `qBlocks qs off`. -/

set_option linter.unusedSectionVars false
set_option linter.unusedSimpArgs false
set_option linter.unusedVariables false

namespace RsomeV
open Finset

/-! ### Head value and tail square sum of a cone -/

/-- head value and sum of squares of the tail of `x[q]` -/
def socData (x : ℕ → ℝ) : List ℕ → Option (ℝ × ℝ)
  | [] => none
  | h :: t => some (x h, (t.map fun j => x j ^ 2).sum)

/-- strict second-order cone membership of `x[q]` (head `>` Euclidean norm of the tail), without
square roots -/
def socStrict (x : ℕ → ℝ) : List ℕ → Prop
  | [] => True
  | h :: t => 0 < x h ∧ (t.map fun j => x j ^ 2).sum < x h ^ 2

lemma socMem_iff_data (x : ℕ → ℝ) (q : List ℕ) :
    socMem x q ↔ ∀ a S, socData x q = some (a, S) → 0 ≤ a ∧ S ≤ a ^ 2 := by
  cases q with
  | nil => simp [socMem, socData]
  | cons h t => simp [socMem, socData]

lemma socStrict_iff_data (x : ℕ → ℝ) (q : List ℕ) :
    socStrict x q ↔ ∀ a S, socData x q = some (a, S) → 0 < a ∧ S < a ^ 2 := by
  cases q with
  | nil => simp [socStrict, socData]
  | cons h t => simp [socStrict, socData]

lemma socMem_of_data_eq {x y : ℕ → ℝ} {q b : List ℕ} (h : socData x q = socData y b) :
    socMem x q ↔ socMem y b := by
  rw [socMem_iff_data, socMem_iff_data, h]

lemma socStrict_of_data_eq {x y : ℕ → ℝ} {q b : List ℕ} (h : socData x q = socData y b) :
    socStrict x q ↔ socStrict y b := by
  rw [socStrict_iff_data, socStrict_iff_data, h]

lemma socStrict.socMem {x : ℕ → ℝ} {q : List ℕ} (h : socStrict x q) : socMem x q := by
  cases q with
  | nil => trivial
  | cons a t => exact ⟨h.1.le, h.2.le⟩

/-- `socData` depends only on the values read position by position -/
lemma socData_eq_of_getD (x y : ℕ → ℝ) (q b : List ℕ) (hlen : q.length = b.length)
    (h : ∀ p < q.length, x (q.getD p 0) = y (b.getD p 0)) : socData x q = socData y b := by
  cases q with
  | nil =>
    cases b with
    | nil => rfl
    | cons _ _ => simp at hlen
  | cons a T =>
    cases b with
    | nil => simp at hlen
    | cons a' T' =>
      simp only [List.length_cons, Nat.add_right_cancel_iff] at hlen
      have h0 : x a = y a' := by
        have := h 0 (by simp)
        simpa using this
      have hs : (T.map fun j => x j ^ 2).sum = (T'.map fun j => y j ^ 2).sum := by
        rw [sum_map_eq_range, sum_map_eq_range, hlen]
        apply Finset.sum_congr rfl
        intro p hp
        have hp' : p < T'.length := Finset.mem_range.mp hp
        have := h (p + 1) (by simp only [List.length_cons]; omega)
        simp only [List.getD_cons_succ] at this
        rw [this]
      simp only [socData, h0, hs]

lemma socData_map (v : ℕ → ℝ) (f : ℕ → ℕ) (q : List ℕ) :
    socData v (q.map f) = socData (fun i => v (f i)) q := by
  cases q with
  | nil => rfl
  | cons h t => simp only [List.map_cons, socData, List.map_map]; rfl

lemma socData_congr (u w : ℕ → ℝ) (q : List ℕ) (h : ∀ i ∈ q, u i = w i) :
    socData u q = socData w q := by
  apply socData_eq_of_getD u w q q rfl
  intro p hp
  exact h _ (ConeProg.getD_mem' q p hp 0)

lemma socStrict_congr (u w : ℕ → ℝ) (q : List ℕ) (h : ∀ i ∈ q, u i = w i) :
    socStrict u q ↔ socStrict w q :=
  socStrict_of_data_eq (socData_congr u w q h)

lemma socStrict_map (v : ℕ → ℝ) (f : ℕ → ℕ) (q : List ℕ) :
    socStrict v (q.map f) ↔ socStrict (fun i => v (f i)) q :=
  socStrict_of_data_eq (socData_map v f q)

lemma socMem_zero_of (u : ℕ → ℝ) (q : List ℕ) (h : ∀ i ∈ q, u i = 0) : socMem u q := by
  rw [socMem_congr u (fun _ => 0) q h]
  cases q with
  | nil => trivial
  | cons a t =>
    refine ⟨le_refl _, ?_⟩
    have : (t.map fun _ : ℕ => ((0 : ℝ)) ^ 2).sum = 0 := by
      apply List.sum_eq_zero
      intro x hx
      simp only [List.mem_map] at hx
      obtain ⟨_, _, rfl⟩ := hx
      ring
    rw [this]; norm_num

/-! ### Cone laws -/

lemma soc_inner_le (n : ℕ) (x y : ℕ → ℝ) (t s : ℝ) (ht : 0 ≤ t) (hs : 0 ≤ s)
    (hx : ∑ i ∈ range n, x i ^ 2 ≤ t ^ 2) (hy : ∑ i ∈ range n, y i ^ 2 ≤ s ^ 2) :
    ∑ i ∈ range n, x i * y i ≤ t * s := by
  have h := soc_pairing n x (fun i => - y i) t s ht hs hx (by simpa using hy)
  have e : ∑ i ∈ range n, x i * (fun i => - y i) i = - ∑ i ∈ range n, x i * y i := by
    rw [← Finset.sum_neg_distrib]; apply Finset.sum_congr rfl; intro i _; ring
  rw [e] at h
  linarith

lemma socMem_smul (x : ℕ → ℝ) (q : List ℕ) (t : ℝ) (ht : 0 ≤ t) (h : socMem x q) :
    socMem (fun i => t * x i) q := by
  cases q with
  | nil => trivial
  | cons a T =>
    obtain ⟨h0, h1⟩ := h
    refine ⟨mul_nonneg ht h0, ?_⟩
    rw [sum_map_eq_range] at h1 ⊢
    have e : ∑ p ∈ range T.length, (t * x (T.getD p 0)) ^ 2
        = t ^ 2 * ∑ p ∈ range T.length, x (T.getD p 0) ^ 2 := by
      rw [Finset.mul_sum]; apply Finset.sum_congr rfl; intro p _; ring
    rw [e, mul_pow]
    exact mul_le_mul_of_nonneg_left h1 (sq_nonneg t)

lemma socStrict_smul (x : ℕ → ℝ) (q : List ℕ) (t : ℝ) (ht : 0 < t) (h : socStrict x q) :
    socStrict (fun i => t * x i) q := by
  cases q with
  | nil => trivial
  | cons a T =>
    obtain ⟨h0, h1⟩ := h
    refine ⟨mul_pos ht h0, ?_⟩
    rw [sum_map_eq_range] at h1 ⊢
    have e : ∑ p ∈ range T.length, (t * x (T.getD p 0)) ^ 2
        = t ^ 2 * ∑ p ∈ range T.length, x (T.getD p 0) ^ 2 := by
      rw [Finset.mul_sum]; apply Finset.sum_congr rfl; intro p _; ring
    rw [e, mul_pow]
    exact mul_lt_mul_of_pos_left h1 (by positivity)

lemma socMem_add_strict (x y : ℕ → ℝ) (q : List ℕ) (hx : socMem x q) (hy : socStrict y q) :
    socStrict (fun i => x i + y i) q := by
  cases q with
  | nil => trivial
  | cons a T =>
    obtain ⟨hx0, hx1⟩ := hx
    obtain ⟨hy0, hy1⟩ := hy
    refine ⟨by linarith, ?_⟩
    rw [sum_map_eq_range] at hx1 hy1 ⊢
    have hin := soc_inner_le T.length (fun p => x (T.getD p 0)) (fun p => y (T.getD p 0))
      (x a) (y a) hx0 hy0.le hx1 hy1.le
    have e : ∑ p ∈ range T.length, (x (T.getD p 0) + y (T.getD p 0)) ^ 2
        = ∑ p ∈ range T.length, x (T.getD p 0) ^ 2
          + 2 * ∑ p ∈ range T.length, x (T.getD p 0) * y (T.getD p 0)
          + ∑ p ∈ range T.length, y (T.getD p 0) ^ 2 := by
      rw [Finset.mul_sum, ← Finset.sum_add_distrib, ← Finset.sum_add_distrib]
      apply Finset.sum_congr rfl; intro p _; ring
    rw [e]
    nlinarith

/-! ### Consecutive blocks -/

open ConeProg in
lemma qBlocks_cons (q : List ℕ) (qs : List (List ℕ)) (off : ℕ) :
    qBlocks (q :: qs) off = ((List.range q.length).map (· + off)) :: qBlocks qs (off + q.length) :=
  rfl

open ConeProg in
lemma qBlocks_ge : ∀ (qs : List (List ℕ)) (off : ℕ), ∀ b ∈ qBlocks qs off, ∀ i ∈ b, off ≤ i
  | [], _ => by intro b hb; simp [qBlocks] at hb
  | q :: qs, off => by
    intro b hb i hi
    rw [qBlocks_cons, List.mem_cons] at hb
    rcases hb with rfl | hb
    · simp only [List.mem_map, List.mem_range] at hi
      obtain ⟨a, _, rfl⟩ := hi
      omega
    · have := qBlocks_ge qs (off + q.length) b hb i hi
      omega

lemma list_range_map_sum (f : ℕ → ℝ) (n : ℕ) :
    ((List.range n).map f).sum = ∑ i ∈ range n, f i := by
  induction n with
  | zero => simp
  | succ n ih => rw [List.sum_range_succ, Finset.sum_range_succ, ih]

/-- cone membership on a consecutive block, as a statement about `Finset` sums -/
lemma socData_block (v : ℕ → ℝ) (off L : ℕ) :
    socData v ((List.range (L + 1)).map (· + off))
      = some (v off, ∑ p ∈ range L, v (off + 1 + p) ^ 2) := by
  rw [List.range_succ_eq_map]
  simp only [List.map_cons, List.map_map, socData, Nat.zero_add]
  rw [← list_range_map_sum]
  have e : ((fun j => v j ^ 2) ∘ (fun x => x + off) ∘ Nat.succ)
      = fun p => v (off + 1 + p) ^ 2 := by
    funext p
    simp only [Function.comp, Nat.succ_eq_add_one]
    congr 2
    omega
  rw [e]

lemma socMem_block (v : ℕ → ℝ) (off L : ℕ) :
    socMem v ((List.range (L + 1)).map (· + off))
      ↔ 0 ≤ v off ∧ ∑ p ∈ range L, v (off + 1 + p) ^ 2 ≤ v off ^ 2 := by
  rw [socMem_iff_data, socData_block]
  simp

open ConeProg in
/-- **Self-duality of the product of second-order cones laid out by `qBlocks`**: a vector that
pairs non-negatively with every member of the product cone supported on the blocks is a member. -/
lemma qBlocks_selfdual (w : ℕ → ℝ) : ∀ (qs : List (List ℕ)) (off : ℕ),
    (∀ u : ℕ → ℝ, (∀ b ∈ qBlocks qs off, socMem u b) →
      (∀ i, i < off ∨ off + qs.flatten.length ≤ i → u i = 0) →
      0 ≤ ∑ k ∈ range qs.flatten.length, w (off + k) * u (off + k)) →
    ∀ b ∈ qBlocks qs off, socMem w b := by
  intro qs
  induction qs with
  | nil => intro off _ b hb; simp [qBlocks] at hb
  | cons q qs ih =>
    intro off H b hb
    rw [qBlocks_cons, List.mem_cons] at hb
    have hlen : (q :: qs).flatten.length = q.length + qs.flatten.length := by
      rw [List.flatten_cons, List.length_append]
    rcases hb with rfl | hb
    · -- the first block
      cases q with
      | nil => simp [socMem]
      | cons a T =>
        set L := T.length with hL
        have hql : (a :: T).length = L + 1 := by simp [hL]
        rw [hql]
        -- test vectors supported on the first block
        have key : ∀ (α : ℝ) (g : ℕ → ℝ), 0 ≤ α → ∑ p ∈ range L, g (off + 1 + p) ^ 2 ≤ α ^ 2 →
            0 ≤ w off * α + ∑ p ∈ range L, w (off + 1 + p) * g (off + 1 + p) := by
          intro α g hα hg
          set u : ℕ → ℝ := fun i => if i = off then α
            else if off < i ∧ i < off + 1 + L then g i else 0 with hu
          have hu0 : u off = α := by simp [hu]
          have hu1 : ∀ p < L, u (off + 1 + p) = g (off + 1 + p) := by
            intro p hp
            have h1 : ¬ (off + 1 + p = off) := by omega
            have h2 : off < off + 1 + p ∧ off + 1 + p < off + 1 + L := by omega
            simp only [hu, h1, h2, if_false, and_self, if_true]
          have hu2 : ∀ i, off + 1 + L ≤ i → u i = 0 := by
            intro i hi
            have h1 : ¬ (i = off) := by omega
            have h2 : ¬ (off < i ∧ i < off + 1 + L) := by omega
            simp only [hu, h1, h2, if_false]
          have hu3 : ∀ i, i < off → u i = 0 := by
            intro i hi
            have h1 : ¬ (i = off) := by omega
            have h2 : ¬ (off < i ∧ i < off + 1 + L) := by omega
            simp only [hu, h1, h2, if_false]
          have h := H u ?_ ?_
          · rw [hlen, hql, Finset.sum_range_add, Finset.sum_range_succ'] at h
            have e1 : ∑ k ∈ range L, w (off + (k + 1)) * u (off + (k + 1))
                = ∑ p ∈ range L, w (off + 1 + p) * g (off + 1 + p) := by
              apply Finset.sum_congr rfl
              intro p hp
              have : off + (p + 1) = off + 1 + p := by omega
              rw [this, hu1 p (Finset.mem_range.mp hp)]
            have e2 : ∑ k ∈ range qs.flatten.length,
                w (off + (L + 1 + k)) * u (off + (L + 1 + k)) = 0 := by
              apply Finset.sum_eq_zero
              intro k _
              rw [hu2 _ (by omega), mul_zero]
            simp only [Nat.add_zero] at h
            rw [e1, e2, hu0] at h
            linarith
          · intro b hb
            rw [qBlocks_cons, List.mem_cons] at hb
            rcases hb with rfl | hb
            · rw [hql, socMem_block, hu0]
              refine ⟨hα, ?_⟩
              have : ∑ p ∈ range L, u (off + 1 + p) ^ 2 = ∑ p ∈ range L, g (off + 1 + p) ^ 2 := by
                apply Finset.sum_congr rfl
                intro p hp
                rw [hu1 p (Finset.mem_range.mp hp)]
              rw [this]; exact hg
            · apply socMem_zero_of
              intro i hi
              have := qBlocks_ge qs _ b hb i hi
              rw [hql] at this
              exact hu2 i (by omega)
          · intro i hi
            rcases hi with hi | hi
            · exact hu3 i hi
            · rw [hlen, hql] at hi
              exact hu2 i (by omega)
        rw [socMem_block]
        have hw0 : 0 ≤ w off := by
          have := key 1 (fun _ => 0) zero_le_one (by simp)
          simpa using this
        refine ⟨hw0, ?_⟩
        set S : ℝ := ∑ p ∈ range L, w (off + 1 + p) ^ 2 with hS
        have hS0 : 0 ≤ S := Finset.sum_nonneg (fun _ _ => sq_nonneg _)
        have hr0 : 0 ≤ Real.sqrt S := Real.sqrt_nonneg S
        have hr2 : Real.sqrt S ^ 2 = S := Real.sq_sqrt hS0
        have h := key (Real.sqrt S) (fun i => - w i) hr0 (by
          rw [hr2, hS]
          apply le_of_eq
          apply Finset.sum_congr rfl; intro p _; ring)
        have e : ∑ p ∈ range L, w (off + 1 + p) * (fun i => - w i) (off + 1 + p) = - S := by
          rw [hS, ← Finset.sum_neg_distrib]
          apply Finset.sum_congr rfl; intro p _; ring
        rw [e] at h
        -- `S ≤ w off * √S`, `√S ^ 2 = S`
        by_cases hz : Real.sqrt S = 0
        · have : S = 0 := by rw [← hr2, hz]; ring
          rw [this]; exact sq_nonneg _
        · have hrpos : 0 < Real.sqrt S := lt_of_le_of_ne hr0 (Ne.symm hz)
          have h1 : Real.sqrt S * Real.sqrt S ≤ w off * Real.sqrt S := by nlinarith
          have h2 : Real.sqrt S ≤ w off := le_of_mul_le_mul_right h1 hrpos
          rw [← hr2]
          exact pow_le_pow_left₀ hr0 h2 2
    · -- a later block
      apply ih (off + q.length) _ b hb
      intro u hu hsupp
      have h := H u ?_ ?_
      · rw [hlen, Finset.sum_range_add] at h
        have e1 : ∑ k ∈ range q.length, w (off + k) * u (off + k) = 0 := by
          apply Finset.sum_eq_zero
          intro k hk
          have hk' : k < q.length := Finset.mem_range.mp hk
          rw [hsupp _ (Or.inl (by omega)), mul_zero]
        rw [e1, zero_add] at h
        simpa [Nat.add_assoc] using h
      · intro b' hb'
        rw [qBlocks_cons, List.mem_cons] at hb'
        rcases hb' with rfl | hb'
        · apply socMem_zero_of
          intro i hi
          simp only [List.mem_map, List.mem_range] at hi
          obtain ⟨p, hp, rfl⟩ := hi
          exact hsupp _ (Or.inl (by omega))
        · exact hu b' hb'
      · intro i hi
        apply hsupp
        rw [hlen] at hi
        rcases hi with hi | hi
        · left; omega
        · right; omega

open ConeProg in
/-- membership in the product cone laid out by `qBlocks` is membership of the index lists `qs`
for the vector read through `qs.flatten` -/
lemma qBlocks_socData (u : ℕ → ℝ) : ∀ (qs : List (List ℕ)) (off : ℕ) (v : ℕ → ℝ),
    (∀ k < qs.flatten.length, v (off + k) = u (qs.flatten.getD k 0)) →
    List.Forall₂ (fun b q => socData v b = socData u q) (qBlocks qs off) qs := by
  intro qs
  induction qs with
  | nil => intro off v _; exact List.Forall₂.nil
  | cons q qs ih =>
    intro off v hv
    have hlen : (q :: qs).flatten.length = q.length + qs.flatten.length := by
      rw [List.flatten_cons, List.length_append]
    rw [qBlocks_cons]
    refine List.Forall₂.cons ?_ ?_
    · apply socData_eq_of_getD
      · simp
      · intro p hp
        have hp' : p < q.length := by simpa using hp
        have hg : ((List.range q.length).map (· + off)).getD p 0 = p + off := by
          rw [List.getD_eq_getElem _ _ (by simpa using hp')]; simp
        rw [hg, Nat.add_comm, hv p (by omega), List.flatten_cons,
          List.getD_append _ _ _ _ hp']
    · apply ih
      intro k hk
      rw [Nat.add_assoc, hv (q.length + k) (by omega), List.flatten_cons,
        List.getD_append_right _ _ _ _ (by omega)]
      congr 2
      omega

lemma forall₂_mem_iff {α β : Type} (R : α → β → Prop) (P : α → Prop) (Q : β → Prop)
    (hR : ∀ a b, R a b → (P a ↔ Q b)) :
    ∀ (l₁ : List α) (l₂ : List β), List.Forall₂ R l₁ l₂ → ((∀ a ∈ l₁, P a) ↔ (∀ b ∈ l₂, Q b)) := by
  intro l₁ l₂ h
  induction h with
  | nil => simp
  | cons hab _ ih =>
    rw [List.forall_mem_cons, List.forall_mem_cons, hR _ _ hab, ih]

open ConeProg in
lemma qBlocks_socMem_iff (u : ℕ → ℝ) (qs : List (List ℕ)) (off : ℕ) (v : ℕ → ℝ)
    (hv : ∀ k < qs.flatten.length, v (off + k) = u (qs.flatten.getD k 0)) :
    (∀ b ∈ qBlocks qs off, socMem v b) ↔ (∀ q ∈ qs, socMem u q) :=
  forall₂_mem_iff _ _ _ (fun _ _ h => socMem_of_data_eq h) _ _ (qBlocks_socData u qs off v hv)

open ConeProg in
lemma qBlocks_socStrict_iff (u : ℕ → ℝ) (qs : List (List ℕ)) (off : ℕ) (v : ℕ → ℝ)
    (hv : ∀ k < qs.flatten.length, v (off + k) = u (qs.flatten.getD k 0)) :
    (∀ b ∈ qBlocks qs off, socStrict v b) ↔ (∀ q ∈ qs, socStrict u q) :=
  forall₂_mem_iff _ _ _ (fun _ _ h => socStrict_of_data_eq h) _ _ (qBlocks_socData u qs off v hv)

open ConeProg in
/-- the blocks at offset `off + d` are the blocks at offset `off`, shifted -/
lemma qBlocks_shift (d : ℕ) : ∀ (qs : List (List ℕ)) (off : ℕ),
    qBlocks qs (off + d) = (qBlocks qs off).map (fun b => b.map (· + d))
  | [], _ => rfl
  | q :: qs, off => by
    rw [qBlocks_cons, qBlocks_cons, List.map_cons, List.map_map]
    have : off + d + q.length = off + q.length + d := by omega
    rw [this, qBlocks_shift d qs (off + q.length)]
    congr 1
    apply List.map_congr_left
    intro p _
    simp only [Function.comp]
    omega

open ConeProg in
/-- the head entry of every non-trivial block is non-negative -/
lemma headPos_nonneg (w : ℕ → ℝ) : ∀ (qs : List (List ℕ)) (off : ℕ),
    (∀ b ∈ qBlocks qs off, socMem w b) →
    ∀ k ∈ headPos qs off, k < off + qs.flatten.length → 0 ≤ w k := by
  intro qs
  induction qs with
  | nil => intro off _ k hk; simp [headPos] at hk
  | cons q qs ih =>
    intro off hw k hk hlt
    have hlen : (q :: qs).flatten.length = q.length + qs.flatten.length := by
      rw [List.flatten_cons, List.length_append]
    have hw' : ∀ b ∈ qBlocks qs (off + q.length), socMem w b := by
      intro b hb; apply hw; rw [qBlocks_cons]; exact List.mem_cons_of_mem _ hb
    simp only [headPos, List.mem_cons] at hk
    rcases hk with rfl | hk
    · cases q with
      | nil =>
        -- an empty cone: its position is the head of the next cone
        cases qs with
        | nil => simp at hlt
        | cons q' qs' =>
          apply ih (k + ([] : List ℕ).length) hw' k
          · simp [headPos]
          · simpa [hlen] using hlt
      | cons a T =>
        have h := hw _ (by rw [qBlocks_cons]; exact List.mem_cons_self)
        have hql : (a :: T).length = T.length + 1 := by simp
        rw [hql, socMem_block] at h
        exact h.1
    · apply ih (off + q.length) hw' k hk
      rw [hlen] at hlt
      omega

/-! ### The product cone in `Fin m → ℝ` -/

open ConeProg in
/-- the product of second-order cones on the consecutive blocks of `qs`, in `Fin m → ℝ` -/
def prodCone (qs : List (List ℕ)) (m : ℕ) : Set (Fin m → ℝ) :=
  {u | ∀ b ∈ qBlocks qs 0, socMem (extF u) b}

open ConeProg in
/-- the strict product cone -/
def prodConeStrict (qs : List (List ℕ)) (m : ℕ) : Set (Fin m → ℝ) :=
  {u | ∀ b ∈ qBlocks qs 0, socStrict (extF u) b}

lemma extF_smul {m : ℕ} (t : ℝ) (u : Fin m → ℝ) (i : ℕ) : extF (t • u) i = t * extF u i := by
  unfold extF; split_ifs <;> simp

lemma extF_add {m : ℕ} (u v : Fin m → ℝ) (i : ℕ) : extF (u + v) i = extF u i + extF v i := by
  unfold extF; split_ifs <;> simp

lemma continuous_extF {m : ℕ} (i : ℕ) : Continuous fun u : Fin m → ℝ => extF u i := by
  unfold extF
  by_cases h : i < m
  · simp only [h, dif_pos]; exact continuous_apply _
  · simp only [h, dif_neg, not_false_iff]; exact continuous_const

lemma isOpen_forall_mem_list {α X : Type} [TopologicalSpace X] (P : α → X → Prop) :
    ∀ (l : List α), (∀ a ∈ l, IsOpen {u | P a u}) → IsOpen {u | ∀ a ∈ l, P a u}
  | [], _ => by simp
  | a :: l, h => by
    have : {u | ∀ a' ∈ a :: l, P a' u} = {u | P a u} ∩ {u | ∀ a' ∈ l, P a' u} := by
      ext u; simp [List.forall_mem_cons]
    rw [this]
    exact (h a List.mem_cons_self).inter
      (isOpen_forall_mem_list P l (fun a' ha' => h a' (List.mem_cons_of_mem _ ha')))

lemma isOpen_socStrict {m : ℕ} (b : List ℕ) : IsOpen {u : Fin m → ℝ | socStrict (extF u) b} := by
  cases b with
  | nil => simp [socStrict]
  | cons h t =>
    have : {u : Fin m → ℝ | socStrict (extF u) (h :: t)}
        = {u | 0 < extF u h} ∩ {u | (t.map fun j => extF u j ^ 2).sum < extF u h ^ 2} := by
      ext u; simp [socStrict]
    rw [this]
    refine (isOpen_lt continuous_const (continuous_extF h)).inter
      (isOpen_lt ?_ ((continuous_extF h).pow 2))
    exact continuous_list_sum t (fun j _ => (continuous_extF j).pow 2)

lemma isOpen_prodConeStrict (qs : List (List ℕ)) (m : ℕ) : IsOpen (prodConeStrict qs m) :=
  isOpen_forall_mem_list (fun b (u : Fin m → ℝ) => socStrict (extF u) b) _
    (fun b _ => isOpen_socStrict b)

lemma prodConeStrict_subset (qs : List (List ℕ)) (m : ℕ) : prodConeStrict qs m ⊆ prodCone qs m :=
  fun _ hu b hb => (hu b hb).socMem

lemma prodConeStrict_smul (qs : List (List ℕ)) (m : ℕ) (u : Fin m → ℝ) (hu : u ∈ prodConeStrict qs m)
    (t : ℝ) (ht : 0 < t) : t • u ∈ prodConeStrict qs m := by
  intro b hb
  rw [socStrict_congr _ (fun i => t * extF u i) b (fun i _ => extF_smul t u i)]
  exact socStrict_smul _ b t ht (hu b hb)

lemma prodCone_add_strict (qs : List (List ℕ)) (m : ℕ) (u : Fin m → ℝ) (hu : u ∈ prodCone qs m)
    (v : Fin m → ℝ) (hv : v ∈ prodConeStrict qs m) : u + v ∈ prodConeStrict qs m := by
  intro b hb
  rw [socStrict_congr _ (fun i => extF u i + extF v i) b (fun i _ => extF_add u v i)]
  exact socMem_add_strict _ _ b (hu b hb) (hv b hb)

open ConeProg in
/-- a continuous linear functional on `Fin m → ℝ` that is non-negative on the product cone is the
pairing with a member of the product cone (`m` = total length of the blocks) -/
theorem prodCone_dual (qs : List (List ℕ)) (m : ℕ) (hm : qs.flatten.length = m)
    (ψ : (Fin m → ℝ) →L[ℝ] ℝ) (hψ : ∀ u ∈ prodCone qs m, 0 ≤ ψ u) :
    ∃ w : ℕ → ℝ, (∀ b ∈ qBlocks qs 0, socMem w b) ∧
      ∀ u : Fin m → ℝ, ψ u = ∑ k ∈ range m, w k * extF u k := by
  set w0 : Fin m → ℝ := fun k => ψ (fun j => if k = j then 1 else 0) with hw0
  have hrep : ∀ u : Fin m → ℝ, ψ u = ∑ k ∈ range m, extF w0 k * extF u k := by
    intro u
    have h := LinearMap.pi_apply_eq_sum_univ (ψ : (Fin m → ℝ) →ₗ[ℝ] ℝ) u
    have h' : ψ u = ∑ k : Fin m, u k * w0 k := by
      simpa [hw0, smul_eq_mul] using h
    rw [h', ← Fin.sum_univ_eq_sum_range (fun k => extF w0 k * extF u k) m]
    apply Finset.sum_congr rfl
    intro k _
    rw [extF_val, extF_val, mul_comm]
  refine ⟨extF w0, ?_, hrep⟩
  apply qBlocks_selfdual (extF w0) qs 0
  intro u hu hsupp
  rw [hm]
  set u' : Fin m → ℝ := fun k => u k.val with hu'
  have hmem : u' ∈ prodCone qs m := by
    intro b hb
    rw [socMem_congr (extF u') u b]
    · exact hu b hb
    · intro i hi
      have hlt := qBlocks_lt qs 0 b hb i hi
      rw [Nat.zero_add, hm] at hlt
      have : extF u' i = u' ⟨i, hlt⟩ := extF_val u' ⟨i, hlt⟩
      rw [this]
  have h := hψ u' hmem
  rw [hrep] at h
  have e : ∑ k ∈ range m, extF w0 k * extF u' k
      = ∑ k ∈ range m, extF w0 (0 + k) * u (0 + k) := by
    apply Finset.sum_congr rfl
    intro k hk
    have hk' : k < m := Finset.mem_range.mp hk
    have : extF u' k = u' ⟨k, hk'⟩ := extF_val u' ⟨k, hk'⟩
    rw [this, Nat.zero_add]
  rw [e] at h
  exact h

end RsomeV
