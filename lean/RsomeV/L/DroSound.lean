import RsomeV.M.Dro
import RsomeV.L.ConeDualWeak
import RsomeV.L.RobustSound
import Mathlib.Tactic.Linarith
import Mathlib.Tactic.Ring
import Mathlib.Data.List.GetD

/-! Helper lemmas for C03: the lifted support `Dro.mixSupport` (model of
`Ambiguity.mix_support`), the abstract soundness argument of the event-wise DRO reformulation,
and a variant of `rc_sound` whose layout hypothesis is satisfied by mixed supports. -/

set_option linter.unusedSectionVars false
set_option linter.unusedSimpArgs false
set_option linter.unusedVariables false

namespace RsomeV
open Finset

variable {K : Type} [Field K] [LinearOrder K] [IsStrictOrderedRing K]

/-! ### Blocks: `offs` and `locate` -/

lemma offs_zero (ws : List ℕ) : offs ws 0 = 0 := by simp [offs]

lemma offs_cons_succ (w : ℕ) (ws : List ℕ) (k : ℕ) : offs (w :: ws) (k + 1) = w + offs ws k := by
  simp [offs]

lemma offs_add_le : ∀ (ws : List ℕ) (k : ℕ), k < ws.length → offs ws k + ws.getD k 0 ≤ ws.sum
  | [], k, h => by simp at h
  | w :: ws, 0, _ => by simp [offs]
  | w :: ws, k + 1, h => by
      have := offs_add_le ws k (by simpa using h)
      rw [offs_cons_succ, List.getD_cons_succ, List.sum_cons]
      omega

lemma offs_le_sum : ∀ (ws : List ℕ) (k : ℕ), offs ws k ≤ ws.sum
  | [], k => by simp [offs]
  | w :: ws, 0 => by simp [offs]
  | w :: ws, k + 1 => by
      have := offs_le_sum ws k
      rw [offs_cons_succ, List.sum_cons]
      omega

lemma locate_offs : ∀ (ws : List ℕ) (k o : ℕ), k < ws.length → o < ws.getD k 0 →
    locate ws (offs ws k + o) = some (k, o)
  | [], k, o, h, _ => by simp at h
  | w :: ws, 0, o, _, ho => by
      have ho' : o < w := by simpa using ho
      simp [locate, offs, ho']
  | w :: ws, k + 1, o, h, ho => by
      have ih := locate_offs ws k o (by simpa using h) (by simpa using ho)
      rw [offs_cons_succ]
      unfold locate
      rw [if_neg (by omega), show w + offs ws k + o - w = offs ws k + o by omega, ih]
      rfl

lemma locate_none : ∀ (ws : List ℕ) (j : ℕ), ws.sum ≤ j → locate ws j = none
  | [], j, _ => rfl
  | w :: ws, j, h => by
      rw [List.sum_cons] at h
      unfold locate
      rw [if_neg (by omega), locate_none ws (j - w) (by omega)]
      rfl

lemma locate_some : ∀ (ws : List ℕ) (j : ℕ), j < ws.sum →
    ∃ k o, locate ws j = some (k, o) ∧ k < ws.length ∧ o < ws.getD k 0 ∧ j = offs ws k + o
  | [], j, h => by simp at h
  | w :: ws, j, h => by
      rw [List.sum_cons] at h
      by_cases hj : j < w
      · exact ⟨0, j, by simp [locate, hj], by simp, by simpa using hj, by simp [offs]⟩
      · obtain ⟨k, o, h1, h2, h3, h4⟩ := locate_some ws (j - w) (by omega)
        refine ⟨k + 1, o, ?_, by simpa using h2, by simpa using h3, ?_⟩
        · unfold locate
          rw [if_neg hj, h1]; rfl
        · rw [offs_cons_succ]; omega

/-- a sum over consecutive blocks -/
lemma sum_blocks : ∀ (ws : List ℕ) (F : ℕ → K),
    ∑ j ∈ range ws.sum, F j
      = ∑ k ∈ range ws.length, ∑ o ∈ range (ws.getD k 0), F (offs ws k + o)
  | [], F => by simp
  | w :: ws, F => by
      rw [List.sum_cons, Finset.sum_range_add, List.length_cons, Finset.sum_range_succ',
        sum_blocks ws (fun j => F (w + j))]
      simp only [List.getD_cons_succ, List.getD_cons_zero, offs_cons_succ, offs_zero, zero_add,
        add_assoc]
      rw [add_comm]

/-! ### Sums with a window of non-zeros -/

/-- a sum whose terms vanish outside the window `[lo, lo + w)` -/
lemma sum_window (n lo w : ℕ) (h : lo + w ≤ n) (F : ℕ → K)
    (hF : ∀ j < n, ¬ (lo ≤ j ∧ j < lo + w) → F j = 0) :
    ∑ j ∈ range n, F j = ∑ o ∈ range w, F (lo + o) := by
  obtain ⟨r, rfl⟩ := Nat.exists_eq_add_of_le h
  rw [Finset.sum_range_add, Finset.sum_range_add]
  have h1 : ∑ x ∈ range lo, F x = 0 := by
    apply Finset.sum_eq_zero; intro x hx
    have := Finset.mem_range.mp hx
    exact hF x (by omega) (by omega)
  have h2 : ∑ x ∈ range r, F (lo + w + x) = 0 := by
    apply Finset.sum_eq_zero; intro x hx
    have := Finset.mem_range.mp hx
    exact hF _ (by omega) (by omega)
  rw [h1, h2, zero_add, add_zero]

lemma sum_prefix (n m : ℕ) (h : m ≤ n) (F : ℕ → K) (hF : ∀ j < n, m ≤ j → F j = 0) :
    ∑ j ∈ range n, F j = ∑ j ∈ range m, F j := by
  have := sum_window n 0 m (by omega) F (fun j hj hh => hF j hj (by omega))
  simpa using this

/-- two non-zero positions -/
lemma sum_two (n c1 c2 : ℕ) (h1 : c1 < n) (h2 : c2 < n) (hne : c1 ≠ c2) (x : ℕ → K) :
    ∑ j ∈ range n, (if j = c1 then (1:K) else if j = c2 then -1 else 0) * x j = x c1 - x c2 := by
  have e : ∀ j ∈ range n, (if j = c1 then (1:K) else if j = c2 then -1 else 0) * x j
      = (if j = c1 then x j else 0) + (if j = c2 then - x j else 0) := by
    intro j _
    by_cases a : j = c1
    · have : j ≠ c2 := fun hh => hne (a.symm.trans hh)
      simp [a, hne]
    · by_cases b : j = c2
      · subst b; simp [a]
      · simp [a, b]
  rw [Finset.sum_congr rfl e, Finset.sum_add_distrib, Finset.sum_ite_eq', Finset.sum_ite_eq',
    if_pos (Finset.mem_range.mpr h1), if_pos (Finset.mem_range.mpr h2)]
  ring

/-- `Σ_j count(j, l)·π_j = Σ_{s ∈ l} π_s` -/
lemma sum_count (n : ℕ) (π : ℕ → K) : ∀ (l : List ℕ), (∀ s ∈ l, s < n) →
    ∑ j ∈ range n, ((l.count j : ℕ) : K) * π j = (l.map π).sum
  | [], _ => by simp
  | s :: l, h => by
      have ih := sum_count n π l (fun t ht => h t (List.mem_cons_of_mem _ ht))
      have hs : s < n := h s (by simp)
      have e : ∀ j ∈ range n, (((s :: l).count j : ℕ) : K) * π j
          = ((l.count j : ℕ) : K) * π j + (if j = s then π j else 0) := by
        intro j _
        rw [List.count_cons]
        by_cases a : j = s
        · subst a; simp; ring
        · have : (s == j) = false := by simpa using fun hh => a hh.symm
          simp [a, this]
      rw [Finset.sum_congr rfl e, Finset.sum_add_distrib, ih, Finset.sum_ite_eq',
        if_pos (Finset.mem_range.mpr hs), List.map_cons, List.sum_cons]
      ring

/-! ### Second-order cones: congruence and scaling -/

lemma socMem_congr (x y : ℕ → K) (q : List ℕ) (h : ∀ j ∈ q, x j = y j) (hx : socMem x q) :
    socMem y q := by
  cases q with
  | nil => trivial
  | cons a T =>
    obtain ⟨h0, h1⟩ := hx
    have e : (T.map fun j => y j ^ 2) = (T.map fun j => x j ^ 2) := by
      apply List.map_congr_left
      intro j hj
      rw [h j (List.mem_cons_of_mem _ hj)]
    refine ⟨by rw [← h a (by simp)]; exact h0, ?_⟩
    rw [e, ← h a (by simp)]
    exact h1

lemma list_sum_map_mul (t : K) (f : ℕ → K) (T : List ℕ) :
    (T.map fun j => t * f j).sum = t * (T.map f).sum := by
  induction T with
  | nil => simp
  | cons a T ih => simp [ih, mul_add]

/-- the second-order cone is closed under scaling by `t ≥ 0` -/
lemma socMem_scale (t : K) (ht : 0 ≤ t) (x : ℕ → K) (q : List ℕ) (hx : socMem x q) :
    socMem (fun j => t * x j) q := by
  cases q with
  | nil => trivial
  | cons a T =>
    obtain ⟨h0, h1⟩ := hx
    refine ⟨mul_nonneg ht h0, ?_⟩
    have e : (T.map fun j => (t * x j) ^ 2) = T.map fun j => t ^ 2 * (x j ^ 2) := by
      apply List.map_congr_left; intro j _; ring
    rw [e, list_sum_map_mul (t ^ 2) (fun j => x j ^ 2) T, mul_pow]
    exact mul_le_mul_of_nonneg_left h1 (sq_nonneg t)


/-- a sum with a prefix region and a window region -/
lemma sum_two_regions (n npro lo w : ℕ) (h1 : npro ≤ lo) (h2 : lo + w ≤ n) (f g x : ℕ → K) :
    ∑ j ∈ range n, (if j < npro then f j else if lo ≤ j ∧ j < lo + w then g (j - lo) else 0) * x j
      = ∑ j ∈ range npro, f j * x j + ∑ o ∈ range w, g o * x (lo + o) := by
  have e : ∀ j ∈ range n,
      (if j < npro then f j else if lo ≤ j ∧ j < lo + w then g (j - lo) else 0) * x j
      = (if j < npro then f j * x j else 0)
        + (if lo ≤ j ∧ j < lo + w then g (j - lo) * x j else 0) := by
    intro j _
    by_cases a : j < npro
    · rw [if_pos a, if_pos a, if_neg (by omega), add_zero]
    · rw [if_neg a, if_neg a, zero_add]
      split_ifs <;> simp
  rw [Finset.sum_congr rfl e, Finset.sum_add_distrib,
    sum_prefix n npro (by omega) _ (fun j _ hj => if_neg (by omega)),
    sum_window n lo w h2 _ (fun j _ hj => if_neg hj)]
  congr 1
  · apply Finset.sum_congr rfl; intro j hj
    rw [if_pos (Finset.mem_range.mp hj)]
  · apply Finset.sum_congr rfl; intro o ho
    have := Finset.mem_range.mp ho
    rw [if_pos (by omega), Nat.add_sub_cancel_left]

/-! ### The mixed support -/

namespace Dro

variable (pro : ConeProg K) (exps : List (ConeProg K × List ℕ))

lemma colW_getD (k : ℕ) : (colW exps).getD k 0 = (blk exps k).lp.nc := by
  unfold colW blk
  exact List.getD_map exps (emptyProg, []) (fun e : ConeProg K × List ℕ => e.1.lp.nc)
lemma rowW_getD (k : ℕ) : (rowW exps).getD k 0 = (blk exps k).lp.nr := by
  unfold rowW blk
  exact List.getD_map exps (emptyProg, []) (fun e : ConeProg K × List ℕ => e.1.lp.nr)
lemma colW_length : (colW exps).length = exps.length := by simp [colW]
lemma rowW_length : (rowW exps).length = exps.length := by simp [rowW]

lemma mix_nc : (mixSupport pro exps).lp.nc = colEnd pro exps + 3 * (xsrc pro exps).length := rfl
lemma mix_nr : (mixSupport pro exps).lp.nr = rowEnd pro exps + 3 * (xsrc pro exps).length := rfl

lemma pro_nc_le_colOff (k : ℕ) : pro.lp.nc ≤ colOff pro exps k := Nat.le_add_right _ _
lemma pro_nc_le_colEnd : pro.lp.nc ≤ colEnd pro exps := Nat.le_add_right _ _
lemma pro_nr_le_rowEnd : pro.lp.nr ≤ rowEnd pro exps := Nat.le_add_right _ _

lemma colOff_add_le (k : ℕ) (hk : k < exps.length) :
    colOff pro exps k + (blk exps k).lp.nc ≤ colEnd pro exps := by
  have := offs_add_le (colW exps) k (by rw [colW_length]; exact hk)
  rw [colW_getD] at this
  unfold colOff colEnd; omega

lemma rowOff_add_le (k : ℕ) (hk : k < exps.length) :
    rowOff pro exps k + (blk exps k).lp.nr ≤ rowEnd pro exps := by
  have := offs_add_le (rowW exps) k (by rw [rowW_length]; exact hk)
  rw [rowW_getD] at this
  unfold rowOff rowEnd; omega

/-! #### Entries of the matrix -/

lemma mixA_pro (i : ℕ) (hi : i < pro.lp.nr) (j : ℕ) :
    mixA pro exps i j = if j < pro.lp.nc then pro.lp.a i j else 0 := by
  unfold mixA; rw [if_pos hi]

lemma locate_row (k : ℕ) (hk : k < exps.length) (r : ℕ) (hr : r < (blk exps k).lp.nr) :
    locate (rowW exps) (rowOff pro exps k + r - pro.lp.nr) = some (k, r) := by
  have : rowOff pro exps k + r - pro.lp.nr = offs (rowW exps) k + r := by unfold rowOff; omega
  rw [this]
  exact locate_offs _ k r (by rw [rowW_length]; exact hk) (by rw [rowW_getD]; exact hr)

lemma mixA_blk (k : ℕ) (hk : k < exps.length) (r : ℕ) (hr : r < (blk exps k).lp.nr) (j : ℕ) :
    mixA pro exps (rowOff pro exps k + r) j
      = if j < pro.lp.nc then - (((idx exps k).count j : ℕ) : K) * (blk exps k).lp.b r
        else if colOff pro exps k ≤ j ∧ j < colOff pro exps k + (blk exps k).lp.nc then
          (blk exps k).lp.a r (j - colOff pro exps k) else 0 := by
  unfold mixA
  rw [if_neg (by unfold rowOff; omega), locate_row pro exps k hk r hr]

lemma locate_row_aux (o : ℕ) :
    locate (rowW exps) (rowEnd pro exps + o - pro.lp.nr) = none :=
  locate_none _ _ (by unfold rowEnd; omega)

lemma mixA_aux (o : ℕ) (j : ℕ) :
    mixA pro exps (rowEnd pro exps + o) j
      = if j = colEnd pro exps + o then 1
        else if j = xcol pro exps o then -1 else 0 := by
  unfold mixA
  rw [if_neg (by unfold rowEnd; omega), locate_row_aux pro exps o]
  simp only [Nat.add_sub_cancel_left]

lemma mixEq_pro (i : ℕ) (hi : i < pro.lp.nr) : mixEq pro exps i = pro.lp.eq i := by
  unfold mixEq; rw [if_pos hi]

lemma mixEq_blk (k : ℕ) (hk : k < exps.length) (r : ℕ) (hr : r < (blk exps k).lp.nr) :
    mixEq pro exps (rowOff pro exps k + r) = (blk exps k).lp.eq r := by
  unfold mixEq
  rw [if_neg (by unfold rowOff; omega), locate_row pro exps k hk r hr]

lemma mixEq_aux (o : ℕ) : mixEq pro exps (rowEnd pro exps + o) = decide (o % 3 ≠ 1) := by
  unfold mixEq
  rw [if_neg (by unfold rowEnd; omega), locate_row_aux pro exps o]
  simp only [Nat.add_sub_cancel_left]

/-- every row index of the mixed support is a row of `pro`, a row of a block, or a copy row -/
lemma row_cases (i : ℕ) (hi : i < (mixSupport pro exps).lp.nr) :
    i < pro.lp.nr ∨
    (∃ k r, k < exps.length ∧ r < (blk exps k).lp.nr ∧ i = rowOff pro exps k + r) ∨
    (∃ o, o < 3 * (xsrc pro exps).length ∧ i = rowEnd pro exps + o) := by
  rw [mix_nr] at hi
  by_cases h1 : i < pro.lp.nr
  · exact Or.inl h1
  by_cases h2 : i < rowEnd pro exps
  · right; left
    obtain ⟨k, r, _, hk, hr, he⟩ := locate_some (rowW exps) (i - pro.lp.nr) (by unfold rowEnd at h2; omega)
    rw [rowW_length] at hk
    rw [rowW_getD] at hr
    exact ⟨k, r, hk, hr, by unfold rowOff; omega⟩
  · right; right
    exact ⟨i - rowEnd pro exps, by omega, by omega⟩

/-! #### Rows evaluated at an arbitrary assignment -/

lemma mix_row_pro (i : ℕ) (hi : i < pro.lp.nr) (x : ℕ → K) :
    (mixSupport pro exps).lp.row i x = ∑ j ∈ range pro.lp.nc, pro.lp.a i j * x j := by
  show ∑ j ∈ range (colEnd pro exps + 3 * (xsrc pro exps).length), mixA pro exps i j * x j = _
  rw [sum_prefix _ pro.lp.nc (by have := pro_nc_le_colEnd pro exps; omega)]
  · apply Finset.sum_congr rfl; intro j hj
    rw [mixA_pro pro exps i hi, if_pos (Finset.mem_range.mp hj)]
  · intro j _ hj
    rw [mixA_pro pro exps i hi, if_neg (by omega), zero_mul]

lemma mix_row_blk (k : ℕ) (hk : k < exps.length) (r : ℕ) (hr : r < (blk exps k).lp.nr)
    (x : ℕ → K) :
    (mixSupport pro exps).lp.row (rowOff pro exps k + r) x
      = ∑ j ∈ range pro.lp.nc, - (((idx exps k).count j : ℕ) : K) * (blk exps k).lp.b r * x j
        + ∑ o ∈ range (blk exps k).lp.nc, (blk exps k).lp.a r o * x (colOff pro exps k + o) := by
  show ∑ j ∈ range (colEnd pro exps + 3 * (xsrc pro exps).length),
    mixA pro exps (rowOff pro exps k + r) j * x j = _
  simp only [mixA_blk pro exps k hk r hr]
  exact sum_two_regions _ pro.lp.nc (colOff pro exps k) (blk exps k).lp.nc
    (pro_nc_le_colOff pro exps k) (by have := colOff_add_le pro exps k hk; omega) _ _ x

lemma mix_row_aux (o : ℕ) (ho : o < 3 * (xsrc pro exps).length)
    (hlt : xcol pro exps o < colEnd pro exps) (x : ℕ → K) :
    (mixSupport pro exps).lp.row (rowEnd pro exps + o) x
      = x (colEnd pro exps + o) - x (xcol pro exps o) := by
  show ∑ j ∈ range (colEnd pro exps + 3 * (xsrc pro exps).length),
    mixA pro exps (rowEnd pro exps + o) j * x j = _
  simp only [mixA_aux pro exps o]
  exact sum_two _ _ _ (by omega) (by omega) (by omega) x

lemma mix_b_pro (i : ℕ) (hi : i < pro.lp.nr) : (mixSupport pro exps).lp.b i = pro.lp.b i := by
  show (if i < pro.lp.nr then pro.lp.b i else 0) = _
  rw [if_pos hi]

lemma mix_b_ge (i : ℕ) (hi : pro.lp.nr ≤ i) : (mixSupport pro exps).lp.b i = 0 := by
  show (if i < pro.lp.nr then pro.lp.b i else 0) = _
  rw [if_neg (by omega)]

/-! #### The lifted point -/

variable (π : ℕ → K) (ν : ℕ → ℕ → K)

lemma liftPoint_pro (j : ℕ) (hj : j < pro.lp.nc) : liftPoint pro exps π ν j = π j := by
  unfold liftPoint; rw [if_pos hj]

lemma liftPoint_blk (k : ℕ) (hk : k < exps.length) (o : ℕ) (ho : o < (blk exps k).lp.nc) :
    liftPoint pro exps π ν (colOff pro exps k + o) = evProb exps k π * ν k o := by
  unfold liftPoint
  rw [if_neg (by unfold colOff; omega)]
  have : colOff pro exps k + o - pro.lp.nc = offs (colW exps) k + o := by unfold colOff; omega
  rw [this, locate_offs _ k o (by rw [colW_length]; exact hk) (by rw [colW_getD]; exact ho)]

lemma liftPoint_aux (o : ℕ) :
    liftPoint pro exps π ν (colEnd pro exps + o) = liftBase pro exps π ν (xcol pro exps o) := by
  unfold liftPoint
  rw [if_neg (by unfold colEnd; omega), locate_none _ _ (by unfold colEnd; omega)]
  simp only [Nat.add_sub_cancel_left]

lemma liftBase_pro (j : ℕ) (hj : j < pro.lp.nc) : liftBase pro exps π ν j = π j := by
  unfold liftBase; rw [if_pos hj]

lemma liftBase_blk (k : ℕ) (hk : k < exps.length) (o : ℕ) (ho : o < (blk exps k).lp.nc) :
    liftBase pro exps π ν (colOff pro exps k + o) = evProb exps k π * ν k o := by
  unfold liftBase
  rw [if_neg (by unfold colOff; omega)]
  have : colOff pro exps k + o - pro.lp.nc = offs (colW exps) k + o := by unfold colOff; omega
  rw [this, locate_offs _ k o (by rw [colW_length]; exact hk) (by rw [colW_getD]; exact ho)]

/-- in front of the auxiliary columns the lifted point is its non-auxiliary part -/
lemma liftPoint_lt (j : ℕ) (hj : j < colEnd pro exps) :
    liftPoint pro exps π ν j = liftBase pro exps π ν j := by
  by_cases h : j < pro.lp.nc
  · rw [liftPoint_pro pro exps π ν j h, liftBase_pro pro exps π ν j h]
  · obtain ⟨k, o, _, hk, ho, he⟩ := locate_some (colW exps) (j - pro.lp.nc)
      (by unfold colEnd at hj; omega)
    rw [colW_length] at hk
    rw [colW_getD] at ho
    have hj' : j = colOff pro exps k + o := by unfold colOff; omega
    rw [hj', liftPoint_blk pro exps π ν k hk o ho, liftBase_blk pro exps π ν k hk o ho]

/-! #### Feasibility of the lifted point -/

lemma getD_mem_gen {α : Type} (l : List α) (i : ℕ) (h : i < l.length) (d : α) : l.getD i d ∈ l := by
  rw [List.getD_eq_getElem _ _ h]; exact List.getElem_mem h

lemma getD_map_lt (l : List ℕ) (f : ℕ → ℕ) (t : ℕ) (h : t < l.length) :
    (l.map f).getD t 0 = f (l.getD t 0) := by
  rw [List.getD_eq_getElem _ _ (by simpa using h), List.getD_eq_getElem _ _ h, List.getElem_map]

lemma mem_xsrc (e : List ℕ) :
    e ∈ xsrc pro exps ↔
      e ∈ pro.xmat ∨ ∃ k, k < exps.length ∧ ∃ e' ∈ (blk exps k).xmat,
        e = e'.map fun j => j + colOff pro exps k := by
  show e ∈ pro.xmat ++ (List.range exps.length).flatMap (fun k =>
      (blk exps k).xmat.map fun e => e.map fun j => j + colOff pro exps k) ↔ _
  simp only [List.mem_append, List.mem_flatMap, List.mem_range, List.mem_map]
  constructor
  · rintro (h | ⟨k, hk, e', he', rfl⟩)
    · exact Or.inl h
    · exact Or.inr ⟨k, hk, e', he', rfl⟩
  · rintro (h | ⟨k, hk, e', he', rfl⟩)
    · exact Or.inl h
    · exact Or.inr ⟨k, hk, e', he', rfl⟩

/-- every component of a source triple is a non-auxiliary column of the mixed support -/
lemma xsrc_lt (hxl : ∀ e ∈ pro.xmat, e.length = 3) (hxp : ∀ e ∈ pro.xmat, ∀ j ∈ e, j < pro.lp.nc)
    (hxle : ∀ k < exps.length, ∀ e ∈ (blk exps k).xmat, e.length = 3)
    (hxe : ∀ k < exps.length, ∀ e ∈ (blk exps k).xmat, ∀ j ∈ e, j < (blk exps k).lp.nc)
    (e : List ℕ) (he : e ∈ xsrc pro exps) (t : ℕ) (ht : t < 3) :
    e.getD t 0 < colEnd pro exps := by
  rcases (mem_xsrc pro exps e).mp he with h | ⟨k, hk, e', he', rfl⟩
  · have := hxp e h _ (getD_mem_gen e t (by rw [hxl e h]; exact ht) 0)
    have := pro_nc_le_colEnd pro exps
    omega
  · have hl := hxle k hk e' he'
    rw [getD_map_lt e' _ t (by rw [hl]; exact ht)]
    have := hxe k hk e' he' _ (getD_mem_gen e' t (by rw [hl]; exact ht) 0)
    have := colOff_add_le pro exps k hk
    omega

/-- the column read by copy row / auxiliary column `o` is a non-auxiliary column -/
lemma xcol_lt (hxl : ∀ e ∈ pro.xmat, e.length = 3) (hxp : ∀ e ∈ pro.xmat, ∀ j ∈ e, j < pro.lp.nc)
    (hxle : ∀ k < exps.length, ∀ e ∈ (blk exps k).xmat, e.length = 3)
    (hxe : ∀ k < exps.length, ∀ e ∈ (blk exps k).xmat, ∀ j ∈ e, j < (blk exps k).lp.nc)
    (o : ℕ) (ho : o < 3 * (xsrc pro exps).length) :
    xcol pro exps o < colEnd pro exps :=
  xsrc_lt pro exps hxl hxp hxle hxe _ (getD_mem_gen _ _ (by omega) _) _ (Nat.mod_lt _ (by omega))

/-- the non-auxiliary part of the lifted point satisfies every forwarded exponential cone: those
of `pro` at `π`, those of block `k` at `t_k·ν_k` (closure of the cone under scaling by `t_k ≥ 0`) -/
lemma xsrc_exp (E : K → K → K → Prop)
    (hEs : ∀ t a b c : K, 0 ≤ t → E a b c → E (t * a) (t * b) (t * c))
    (hxl : ∀ e ∈ pro.xmat, e.length = 3) (hxp : ∀ e ∈ pro.xmat, ∀ j ∈ e, j < pro.lp.nc)
    (hxle : ∀ k < exps.length, ∀ e ∈ (blk exps k).xmat, e.length = 3)
    (hxe : ∀ k < exps.length, ∀ e ∈ (blk exps k).xmat, ∀ j ∈ e, j < (blk exps k).lp.nc)
    (hπ : pro.Feas E π) (hν : ∀ k < exps.length, (blk exps k).Feas E (ν k))
    (ht : ∀ k < exps.length, 0 ≤ evProb exps k π)
    (e : List ℕ) (he : e ∈ xsrc pro exps) :
    E (liftBase pro exps π ν (e.getD 0 0)) (liftBase pro exps π ν (e.getD 1 0))
      (liftBase pro exps π ν (e.getD 2 0)) := by
  rcases (mem_xsrc pro exps e).mp he with h | ⟨k, hk, e', he', rfl⟩
  · have hl := hxl e h
    have hm : ∀ t < 3, e.getD t 0 < pro.lp.nc := fun t ht =>
      hxp e h _ (getD_mem_gen e t (by rw [hl]; exact ht) 0)
    rw [liftBase_pro pro exps π ν _ (hm 0 (by omega)), liftBase_pro pro exps π ν _ (hm 1 (by omega)),
      liftBase_pro pro exps π ν _ (hm 2 (by omega))]
    exact hπ.exp e h
  · have hl := hxle k hk e' he'
    have hm : ∀ t < 3, e'.getD t 0 < (blk exps k).lp.nc := fun t ht =>
      hxe k hk e' he' _ (getD_mem_gen e' t (by rw [hl]; exact ht) 0)
    rw [getD_map_lt e' _ 0 (by omega), getD_map_lt e' _ 1 (by omega), getD_map_lt e' _ 2 (by omega),
      Nat.add_comm (e'.getD 0 0), Nat.add_comm (e'.getD 1 0), Nat.add_comm (e'.getD 2 0),
      liftBase_blk pro exps π ν k hk _ (hm 0 (by omega)),
      liftBase_blk pro exps π ν k hk _ (hm 1 (by omega)),
      liftBase_blk pro exps π ν k hk _ (hm 2 (by omega))]
    exact hEs _ _ _ _ (ht k hk) ((hν k hk).exp e' he')

lemma mem_mix_qmat (q : List ℕ) :
    q ∈ (mixSupport pro exps).qmat ↔
      q ∈ pro.qmat ∨ ∃ k, k < exps.length ∧ ∃ q' ∈ (blk exps k).qmat,
        q = q'.map fun j => j + colOff pro exps k := by
  show q ∈ pro.qmat ++ (List.range exps.length).flatMap (fun k =>
      (blk exps k).qmat.map fun q => q.map fun j => j + colOff pro exps k) ↔ _
  simp only [List.mem_append, List.mem_flatMap, List.mem_range, List.mem_map]
  constructor
  · rintro (h | ⟨k, hk, q', hq', rfl⟩)
    · exact Or.inl h
    · exact Or.inr ⟨k, hk, q', hq', rfl⟩
  · rintro (h | ⟨k, hk, q', hq', rfl⟩)
    · exact Or.inl h
    · exact Or.inr ⟨k, hk, q', hq', rfl⟩

lemma mem_mix_xmat (e : List ℕ) :
    e ∈ (mixSupport pro exps).xmat ↔ ∃ i, i < (xsrc pro exps).length ∧
      e = [colEnd pro exps + 3 * i, colEnd pro exps + 3 * i + 1, colEnd pro exps + 3 * i + 2] := by
  show e ∈ (List.range (xsrc pro exps).length).map (fun i =>
      [colEnd pro exps + 3 * i, colEnd pro exps + 3 * i + 1, colEnd pro exps + 3 * i + 2]) ↔ _
  simp only [List.mem_map, List.mem_range]
  constructor
  · rintro ⟨i, hi, rfl⟩; exact ⟨i, hi, rfl⟩
  · rintro ⟨i, hi, rfl⟩; exact ⟨i, hi, rfl⟩

/-- **Lifting**: probabilities feasible for `pro` and, for every event, a point feasible for its
expectation program (exponential cones included; the cone predicate `E` is closed under scaling by
`t ≥ 0`) give a feasible point of the mixed support -/
theorem lift_feas (E : K → K → K → Prop)
    (hEs : ∀ t a b c : K, 0 ≤ t → E a b c → E (t * a) (t * b) (t * c))
    (hqp : ∀ q ∈ pro.qmat, ∀ j ∈ q, j < pro.lp.nc)
    (hxl : ∀ e ∈ pro.xmat, e.length = 3) (hxp : ∀ e ∈ pro.xmat, ∀ j ∈ e, j < pro.lp.nc)
    (hqe : ∀ k < exps.length, ∀ q ∈ (blk exps k).qmat, ∀ j ∈ q, j < (blk exps k).lp.nc)
    (hxle : ∀ k < exps.length, ∀ e ∈ (blk exps k).xmat, e.length = 3)
    (hxe : ∀ k < exps.length, ∀ e ∈ (blk exps k).xmat, ∀ j ∈ e, j < (blk exps k).lp.nc)
    (hidx : ∀ k < exps.length, ∀ s ∈ idx exps k, s < pro.lp.nc)
    (hπ : pro.Feas E π)
    (hν : ∀ k < exps.length, (blk exps k).Feas E (ν k))
    (ht : ∀ k < exps.length, 0 ≤ evProb exps k π) :
    (mixSupport pro exps).Feas E (liftPoint pro exps π ν) := by
  refine ⟨⟨?_, fun _ _ => trivial, fun _ _ => trivial⟩, ?_, ?_⟩
  · intro i hi
    show if mixEq pro exps i then _ else _
    rcases row_cases pro exps i hi with h1 | ⟨k, r, hk, hr, rfl⟩ | ⟨o, ho, rfl⟩
    · -- a row of `pro`
      have hrow : (mixSupport pro exps).lp.row i (liftPoint pro exps π ν) = pro.lp.row i π := by
        rw [mix_row_pro pro exps i h1]
        apply Finset.sum_congr rfl; intro j hj
        rw [liftPoint_pro pro exps π ν j (Finset.mem_range.mp hj)]
      rw [mixEq_pro pro exps i h1, hrow, mix_b_pro pro exps i h1]
      exact hπ.lin.rows i h1
    · -- a perspective row of block `k`
      have hrow : (mixSupport pro exps).lp.row (rowOff pro exps k + r) (liftPoint pro exps π ν)
          = evProb exps k π * ((blk exps k).lp.row r (ν k) - (blk exps k).lp.b r) := by
        rw [mix_row_blk pro exps k hk r hr]
        have e1 : ∑ j ∈ range pro.lp.nc,
            - (((idx exps k).count j : ℕ) : K) * (blk exps k).lp.b r * liftPoint pro exps π ν j
            = - (blk exps k).lp.b r * evProb exps k π := by
          have : ∀ j ∈ range pro.lp.nc,
              - (((idx exps k).count j : ℕ) : K) * (blk exps k).lp.b r * liftPoint pro exps π ν j
              = - (blk exps k).lp.b r * ((((idx exps k).count j : ℕ) : K) * π j) := by
            intro j hj
            rw [liftPoint_pro pro exps π ν j (Finset.mem_range.mp hj)]; ring
          rw [Finset.sum_congr rfl this, ← Finset.mul_sum,
            sum_count pro.lp.nc π (idx exps k) (hidx k hk)]
          rfl
        have e2 : ∑ o ∈ range (blk exps k).lp.nc,
            (blk exps k).lp.a r o * liftPoint pro exps π ν (colOff pro exps k + o)
            = evProb exps k π * (blk exps k).lp.row r (ν k) := by
          unfold LinProg.row
          rw [Finset.mul_sum]
          apply Finset.sum_congr rfl; intro o ho
          rw [liftPoint_blk pro exps π ν k hk o (Finset.mem_range.mp ho)]; ring
        rw [e1, e2]; ring
      rw [mixEq_blk pro exps k hk r hr, hrow, mix_b_ge pro exps _ (by unfold rowOff; omega)]
      have h := (hν k hk).lin.rows r hr
      have t0 := ht k hk
      by_cases he : (blk exps k).lp.eq r = true
      · rw [if_pos he] at h ⊢
        rw [h]; ring
      · rw [if_neg he] at h ⊢
        exact mul_nonpos_of_nonneg_of_nonpos t0 (by linarith)
    · -- a copy row of an exponential cone
      have hlt := xcol_lt pro exps hxl hxp hxle hxe o ho
      have hrow : (mixSupport pro exps).lp.row (rowEnd pro exps + o) (liftPoint pro exps π ν) = 0 := by
        rw [mix_row_aux pro exps o ho hlt, liftPoint_aux, liftPoint_lt pro exps π ν _ hlt]
        ring
      rw [hrow, mix_b_ge pro exps _ (by unfold rowEnd; omega)]
      split_ifs <;> simp
  · intro q hq
    rcases (mem_mix_qmat pro exps q).mp hq with h | ⟨k, hk, q', hq', rfl⟩
    · exact socMem_congr π _ q (fun j hj => (liftPoint_pro pro exps π ν j (hqp q h j hj)).symm)
        (hπ.soc q h)
    · rw [socMem_map]
      apply socMem_congr (fun j => evProb exps k π * ν k j) _ q'
      · intro j hj
        rw [Nat.add_comm, liftPoint_blk pro exps π ν k hk j (hqe k hk q' hq' j hj)]
      · exact socMem_scale _ (ht k hk) (ν k) q' ((hν k hk).soc q' hq')
  · intro e he
    obtain ⟨i, hi, rfl⟩ := (mem_mix_xmat pro exps e).mp he
    have hm : (xsrc pro exps).getD i [] ∈ xsrc pro exps := getD_mem_gen _ _ hi _
    have h := xsrc_exp pro exps π ν E hEs hxl hxp hxle hxe hπ hν ht _ hm
    have e0 : colEnd pro exps + 3 * i = colEnd pro exps + (3 * i + 0) := by omega
    have e1 : colEnd pro exps + 3 * i + 1 = colEnd pro exps + (3 * i + 1) := by omega
    have e2 : colEnd pro exps + 3 * i + 2 = colEnd pro exps + (3 * i + 2) := by omega
    simp only [List.getD_cons_zero, List.getD_cons_succ]
    rw [e2, e1, e0, liftPoint_aux, liftPoint_aux, liftPoint_aux]
    unfold xcol
    rw [show (3 * i + 0) / 3 = i by omega, show (3 * i + 1) / 3 = i by omega,
      show (3 * i + 2) / 3 = i by omega, show (3 * i + 0) % 3 = 0 by omega,
      show (3 * i + 1) % 3 = 1 by omega, show (3 * i + 2) % 3 = 2 by omega]
    exact h

/-! #### Well-formedness of the mixed support -/

/-- the mixed support is well formed as soon as the index lists of its inputs are in range and
the stored pattern of `pro` covers its non-zeros -/
theorem mix_wf (hst : ∀ i j, pro.lp.a i j ≠ 0 → pro.st i j = true)
    (hqp : ∀ q ∈ pro.qmat, ∀ j ∈ q, j < pro.lp.nc)
    (hqe : ∀ k < exps.length, ∀ q ∈ (blk exps k).qmat, ∀ j ∈ q, j < (blk exps k).lp.nc) :
    (mixSupport pro exps).WF where
  qlt := by
    intro q hq j hj
    rw [mix_nc]
    rcases (mem_mix_qmat pro exps q).mp hq with h | ⟨k, hk, q', hq', rfl⟩
    · have := hqp q h j hj
      have := pro_nc_le_colEnd pro exps
      omega
    · obtain ⟨j', hj', rfl⟩ := List.mem_map.mp hj
      have := hqe k hk q' hq' j' hj'
      have := colOff_add_le pro exps k hk
      omega
  xlen := by
    intro e he
    obtain ⟨i, _, rfl⟩ := (mem_mix_xmat pro exps e).mp he
    rfl
  xlt := by
    intro e he j hj
    obtain ⟨i, hi, rfl⟩ := (mem_mix_xmat pro exps e).mp he
    rw [mix_nc]
    simp only [List.mem_cons, List.not_mem_nil, or_false] at hj
    omega
  xnotneg := by intro e _ j _; rfl
  stcov := by
    intro i j h
    have h' : mixA pro exps i j ≠ 0 := h
    show (if i < pro.lp.nr then (decide (j < pro.lp.nc) && pro.st i j)
      else decide (mixA pro exps i j ≠ 0)) = true
    by_cases hi : i < pro.lp.nr
    · rw [if_pos hi]
      rw [mixA_pro pro exps i hi] at h'
      by_cases hj : j < pro.lp.nc
      · rw [if_pos hj] at h'
        simp [hj, hst i j h']
      · rw [if_neg hj] at h'; exact absurd rfl h'
    · rw [if_neg hi]
      exact decide_eq_true h'

/-- exponential-cone columns of the mixed support are never second-order-cone columns -/
lemma mix_xq_disjoint
    (hqp : ∀ q ∈ pro.qmat, ∀ j ∈ q, j < pro.lp.nc)
    (hqe : ∀ k < exps.length, ∀ q ∈ (blk exps k).qmat, ∀ j ∈ q, j < (blk exps k).lp.nc) :
    ∀ e ∈ (mixSupport pro exps).xmat, ∀ j ∈ e, j ∉ (mixSupport pro exps).eye := by
  intro e he j hj hmem
  obtain ⟨i, hi, rfl⟩ := (mem_mix_xmat pro exps e).mp he
  simp only [List.mem_cons, List.not_mem_nil, or_false] at hj
  unfold ConeProg.eye at hmem
  obtain ⟨q, hq, hjq⟩ := List.mem_flatten.mp hmem
  have hlt : j < colEnd pro exps := by
    rcases (mem_mix_qmat pro exps q).mp hq with h | ⟨k, hk, q', hq', rfl⟩
    · have := hqp q h j hjq
      have := pro_nc_le_colEnd pro exps
      omega
    · obtain ⟨j', hj', rfl⟩ := List.mem_map.mp hjq
      have := hqe k hk q' hq' j' hj'
      have := colOff_add_le pro exps k hk
      omega
  omega

/-! #### The first-stage row of `dro_to_roc` -/

variable (S nz nd : ℕ) (acol : ℕ → ℕ) (bcol : ℕ → ℕ → ℕ)

/-- value of the decision column selected by `c` (`0` if none) -/
def optVal (v : ℕ → K) : Option ℕ → K
  | some d => v d
  | none => 0

lemma sum_ite_some (n : ℕ) (c : Option ℕ) (v : ℕ → K) (hc : ∀ d, c = some d → d < n) :
    ∑ d ∈ range n, (if c = some d then (1:K) else 0) * v d = optVal v c := by
  cases c with
  | none => simp [optVal]
  | some d0 =>
    have e : ∀ d ∈ range n, (if some d0 = some d then (1:K) else 0) * v d
        = if d = d0 then v d else 0 := by
      intro d _
      by_cases a : d = d0
      · subst a; simp
      · have : ¬ (some d0 = some d) := fun hh => a (Option.some.inj hh).symm
        simp [a, this]
    rw [Finset.sum_congr rfl e, Finset.sum_ite_eq', if_pos (Finset.mem_range.mpr (hc d0 rfl))]
    rfl

lemma droCol_pro (j : ℕ) (hj : j < pro.lp.nc) :
    droCol pro exps S nz acol bcol j = if j < S then some (acol j) else none := by
  unfold droCol; rw [if_pos hj]

lemma droCol_blk (k : ℕ) (hk : k < exps.length) (o : ℕ) (ho : o < (blk exps k).lp.nc) :
    droCol pro exps S nz acol bcol (colOff pro exps k + o)
      = if o < nz then some (bcol k o) else none := by
  unfold droCol
  rw [if_neg (by unfold colOff; omega)]
  have : colOff pro exps k + o - pro.lp.nc = offs (colW exps) k + o := by unfold colOff; omega
  rw [this, locate_offs _ k o (by rw [colW_length]; exact hk) (by rw [colW_getD]; exact ho)]

/-- the first-stage row evaluated at a decision `v` and a point `ζ` of the mixed support -/
theorem droRow_eval (hS : S ≤ pro.lp.nc) (hnz : ∀ k < exps.length, nz ≤ (blk exps k).lp.nc)
    (hacol : ∀ s < S, acol s < nd) (hbcol : ∀ k < exps.length, ∀ j < nz, bcol k j < nd)
    (v ζ : ℕ → K) :
    (droRow pro exps S nz nd acol bcol).eval 0 v ζ
      = ∑ s ∈ range S, v (acol s) * ζ s
        + ∑ k ∈ range exps.length, ∑ j ∈ range nz, v (bcol k j) * ζ (colOff pro exps k + j) := by
  -- coefficient of column `j`
  have hcoef : ∀ j, j < colEnd pro exps →
      (∑ d ∈ range nd, (if droCol pro exps S nz acol bcol j = some d then (1:K) else 0) * v d)
        = optVal v (droCol pro exps S nz acol bcol j) := by
    intro j hj
    apply sum_ite_some
    intro d hd
    by_cases hjp : j < pro.lp.nc
    · rw [droCol_pro pro exps S nz acol bcol j hjp] at hd
      by_cases hjs : j < S
      · rw [if_pos hjs] at hd
        rw [← Option.some.inj hd]; exact hacol j hjs
      · rw [if_neg hjs] at hd; cases hd
    · obtain ⟨k, o, _, hk, ho, he⟩ := locate_some (colW exps) (j - pro.lp.nc)
        (by unfold colEnd at hj; omega)
      rw [colW_length] at hk
      rw [colW_getD] at ho
      have hj' : j = colOff pro exps k + o := by unfold colOff; omega
      rw [hj', droCol_blk pro exps S nz acol bcol k hk o ho] at hd
      by_cases hon : o < nz
      · rw [if_pos hon] at hd
        rw [← Option.some.inj hd]; exact hbcol k hk o hon
      · rw [if_neg hon] at hd; cases hd
  show (∑ j ∈ range (colEnd pro exps),
      ((∑ d ∈ range nd, (if droCol pro exps S nz acol bcol j = some d then (1:K) else 0) * v d)
        + 0) * ζ j) + ((∑ d ∈ range nd, (0:K) * v d) + 0) = _
  have hz : ∑ d ∈ range nd, (0:K) * v d = 0 := by simp
  rw [hz, add_zero, add_zero]
  have e1 : ∀ j ∈ range (colEnd pro exps),
      ((∑ d ∈ range nd, (if droCol pro exps S nz acol bcol j = some d then (1:K) else 0) * v d)
        + 0) * ζ j
      = optVal v (droCol pro exps S nz acol bcol j) * ζ j := by
    intro j hj
    rw [add_zero, hcoef j (Finset.mem_range.mp hj)]
  rw [Finset.sum_congr rfl e1]
  unfold colEnd
  rw [Finset.sum_range_add]
  congr 1
  · -- the probability block
    rw [sum_prefix pro.lp.nc S hS]
    · apply Finset.sum_congr rfl; intro s hs
      have hs' := Finset.mem_range.mp hs
      rw [droCol_pro pro exps S nz acol bcol s (by omega), if_pos hs']
      rfl
    · intro j hj hSj
      rw [droCol_pro pro exps S nz acol bcol j hj, if_neg (by omega)]
      simp [optVal]
  · -- the expectation blocks
    rw [sum_blocks (colW exps), colW_length]
    apply Finset.sum_congr rfl; intro k hk
    have hk' := Finset.mem_range.mp hk
    rw [colW_getD, sum_prefix (blk exps k).lp.nc nz (hnz k hk')]
    · apply Finset.sum_congr rfl; intro o ho
      have ho' := Finset.mem_range.mp ho
      have hlt : o < (blk exps k).lp.nc := lt_of_lt_of_le ho' (hnz k hk')
      have := droCol_blk pro exps S nz acol bcol k hk' o hlt
      unfold colOff at this ⊢
      rw [← add_assoc, this, if_pos ho']
      rfl
    · intro o ho hno
      have := droCol_blk pro exps S nz acol bcol k hk' o ho
      unfold colOff at this
      rw [← add_assoc, this, if_neg (by omega)]
      simp [optVal]

end Dro
end RsomeV

/-! ### `rc_sound` with a layout hypothesis that mixed supports satisfy -/

namespace RsomeV
open Finset ConeProg RoRows

variable {K : Type} [Field K] [LinearOrder K] [IsStrictOrderedRing K]

/-- Safety of the robust counterpart (`C01.rc_sound`) with the hypothesis "second-order cones sit
on lifted columns" required only when the conic dual takes the compact layout
(`Pz.rowsRemoved = true`).  In the general layout the dual has one row per primal column, so
row `j` of the dual is tied to column `j` whatever the position of the cone columns.  The mixed
support of `dro.Ambiguity` has cone columns *between* coefficient-carrying columns (cones of the
probability block precede the expectation blocks), so `C01.rc_sound` does not apply to it, while
this version does (its dual never takes the compact layout in the differential tests). -/
theorem rc_sound_gen (Pz : ConeProg K) (E : K → K → K → Prop) (hE : ExpPair E) (hwf : Pz.WF)
    (hones : ∀ j, Pz.lp.c j = 1)
    (R : RoRows K) (hnz : R.nz ≤ Pz.lp.nc)
    (hq : Pz.rowsRemoved = true → ∀ q ∈ Pz.qmat, ∀ j ∈ q, R.nz ≤ j)
    (hxq : Pz.rowsRemoved = true → ∀ e ∈ Pz.xmat, ∀ j ∈ e, j ∉ Pz.eye)
    (v : ℕ → K) (hv : (R.leToRc Pz.coneDual).prog.Feas E v)
    (n : ℕ) (hn : n < R.m) (ζ : ℕ → K) (hζ : Pz.Feas E ζ) :
    R.eval n v ζ ≤ 0 := by
  set S := Pz.coneDual with hS
  set c' : ℕ → K := fun j => if j < R.nz then - R.coef n j v else 0 with hc'
  -- the three layout facts
  have hnr : R.nz ≤ S.lp.nr := by
    by_cases hr : Pz.rowsRemoved = true
    · exact le_coneDual_nr Pz R.nz hnz (hq hr)
    · rw [hS, coneDual_nr, if_neg hr]; exact hnz
  have hlt : ∀ j < R.nz, Pz.rowIdx j = j := by
    intro j hj
    by_cases hr : Pz.rowsRemoved = true
    · exact rowIdx_lt Pz R.nz hnz (hq hr) j hj
    · unfold rowIdx; rw [if_neg hr]
  have hge : ∀ r, R.nz ≤ r → r < S.lp.nr → R.nz ≤ Pz.rowIdx r := by
    intro r hr1 hr2
    by_cases hr : Pz.rowsRemoved = true
    · exact rowIdx_ge Pz R.nz hnz (hq hr) r hr1 hr2
    · unfold rowIdx; rw [if_neg hr]; exact hr1
  have hnum : R.numRand S = R.nz := by unfold numRand; exact Nat.min_eq_left hnr
  have hy : (Pz.withCost c').coneDual.Feas E (fun i => v (R.ycol S n i)) := by
    rw [coneDual_withCost]
    apply leToRc_extract R S E (coneDual_ub Pz) (coneDual_lb Pz) (coneDual_xlen Pz) v hv n hn
    intro j hj
    rw [hnum, hS, coneDual_b]
    unfold dualRhs
    by_cases h : j < R.nz
    · rw [if_pos h, hlt j h, hones]
      simp only [hc', h, if_true]
      split_ifs <;> ring
    · have := hge j (by omega) hj
      rw [if_neg h]
      simp only [hc', show ¬ Pz.rowIdx j < R.nz by omega, if_false]
      split_ifs <;> simp
  have hwf' : (Pz.withCost c').WF := ⟨hwf.qlt, hwf.xlen, hwf.xlt, hwf.xnotneg, hwf.stcov⟩
  have hζ' : (Pz.withCost c').Feas E ζ := ⟨⟨hζ.lin.rows, hζ.lin.ubs, hζ.lin.lbs⟩, hζ.soc, hζ.exp⟩
  have hcz : (Pz.withCost c').rowsRemoved = true →
      ∀ q ∈ (Pz.withCost c').qmat, ∀ j ∈ q, (Pz.withCost c').lp.c j = 0 := by
    intro hr q hq' j hj
    have := hq hr q hq' j hj
    show c' j = 0
    simp only [hc', show ¬ j < R.nz by omega, if_false]
  have hweak := coneDual_weak (Pz.withCost c') E hE hwf' hcz hxq ζ _ hζ' hy
  have hobjS : (Pz.withCost c').coneDual.lp.obj (fun i => v (R.ycol S n i))
      = ∑ i ∈ range S.lp.nc, S.lp.c i * v (R.ycol S n i) := by
    rw [coneDual_withCost]; rfl
  have hobjP : (Pz.withCost c').lp.obj ζ = - ∑ j ∈ range R.nz, R.coef n j v * ζ j := by
    show ∑ j ∈ range Pz.lp.nc, c' j * ζ j = _
    obtain ⟨k, hk⟩ := Nat.exists_eq_add_of_le hnz
    rw [hk, Finset.sum_range_add, ← Finset.sum_neg_distrib]
    have h0 : ∑ x ∈ range k, c' (R.nz + x) * ζ (R.nz + x) = 0 := by
      apply Finset.sum_eq_zero; intro x _
      simp only [hc', show ¬ R.nz + x < R.nz by omega, if_false, zero_mul]
    rw [h0, add_zero]
    apply Finset.sum_congr rfl; intro j hj
    simp only [hc', Finset.mem_range.mp hj, if_true]; ring
  have hrow1 := hv.lin.rows n (by rw [leToRc_nr]; omega)
  rw [leToRc_row1 R S n hn, leToRc_b1 R S n hn, leToRc_eq1 R S n hn] at hrow1
  simp only [Bool.false_eq_true, if_false] at hrow1
  rw [hobjS, hobjP] at hweak
  unfold RoRows.eval
  unfold coef at hweak
  linarith

end RsomeV

/-! ### Abstract conditional expectations and the event-wise DRO argument -/

namespace RsomeV
open Finset

variable {K : Type} [Field K] [LinearOrder K] [IsStrictOrderedRing K]

/-- A *conditional expectation operator* on a support `Z`: a positive normalised linear
functional on integrands `(ℕ → K) → K` that only looks at points of `Z`.  Integration against any
probability measure carried by `Z` is one; no measure theory is needed for the soundness
argument. -/
structure CondExp (Z : (ℕ → K) → Prop) (Es : ((ℕ → K) → K) → K) : Prop where
  add  : ∀ g h : (ℕ → K) → K, Es (fun z => g z + h z) = Es g + Es h
  smul : ∀ (a : K) (g : (ℕ → K) → K), Es (fun z => a * g z) = a * Es g
  mono : ∀ g h : (ℕ → K) → K, (∀ z, Z z → g z ≤ h z) → Es g ≤ Es h
  norm : ∀ c : K, Es (fun _ => c) = c

namespace CondExp
variable {Z : (ℕ → K) → Prop} {Es : ((ℕ → K) → K) → K}

lemma zero (h : CondExp Z Es) : Es (fun _ => 0) = 0 := h.norm 0

lemma sum (h : CondExp Z Es) (n : ℕ) (g : ℕ → (ℕ → K) → K) :
    Es (fun z => ∑ i ∈ range n, g i z) = ∑ i ∈ range n, Es (g i) := by
  induction n with
  | zero => simpa using h.zero
  | succ n ih =>
    simp only [Finset.sum_range_succ]
    rw [h.add (fun z => ∑ i ∈ range n, g i z) (g n), ih]

/-- linear combination of coordinates -/
lemma lin (h : CondExp Z Es) (n : ℕ) (β : ℕ → K) :
    Es (fun z => ∑ j ∈ range n, β j * z j) = ∑ j ∈ range n, β j * Es (fun z => z j) := by
  rw [h.sum n (fun j z => β j * z j)]
  apply Finset.sum_congr rfl; intro j _
  exact h.smul (β j) (fun z => z j)

end CondExp

/-- the computable instance: a finitely supported distribution with atoms `pt i` (in `Z`) and
weights `w i ≥ 0` summing to one -/
def finExp (n : ℕ) (w : ℕ → K) (pt : ℕ → ℕ → K) : ((ℕ → K) → K) → K :=
  fun g => ∑ i ∈ range n, w i * g (pt i)

theorem finExp_condExp (Z : (ℕ → K) → Prop) (n : ℕ) (w : ℕ → K) (pt : ℕ → ℕ → K)
    (hw : ∀ i < n, 0 ≤ w i) (hsum : ∑ i ∈ range n, w i = 1) (hZ : ∀ i < n, Z (pt i)) :
    CondExp Z (finExp n w pt) where
  add := by
    intro g h
    unfold finExp
    rw [← Finset.sum_add_distrib]
    apply Finset.sum_congr rfl; intro i _; ring
  smul := by
    intro a g
    unfold finExp
    rw [Finset.mul_sum]
    apply Finset.sum_congr rfl; intro i _; ring
  mono := by
    intro g h hgh
    unfold finExp
    apply Finset.sum_le_sum
    intro i hi
    have hi' := Finset.mem_range.mp hi
    exact mul_le_mul_of_nonneg_left (hgh _ (hZ i hi')) (hw i hi')
  norm := by
    intro c
    unfold finExp
    rw [← Finset.sum_mul, hsum, one_mul]

/-- **The event-wise DRO argument** (abstract form; see `C03.dro_sound`). -/
theorem dro_sound_core (S nE nz : ℕ) (Z : ℕ → (ℕ → K) → Prop) (Es : ℕ → ((ℕ → K) → K) → K)
    (hEs : ∀ s < S, CondExp (Z s) (Es s))
    (f : ℕ → (ℕ → K) → K) (α : ℕ → K) (β : ℕ → ℕ → K)
    (Ev : ℕ → ℕ → Prop) [∀ k s, Decidable (Ev k s)]
    (p : ℕ → K) (hp : ∀ s < S, 0 ≤ p s)
    (H2 : ∀ s < S, ∀ z, Z s z →
      f s z ≤ α s + ∑ k ∈ range nE, if Ev k s then ∑ j ∈ range nz, β k j * z j else 0)
    (H1 : ∑ s ∈ range S, α s * p s
        + ∑ k ∈ range nE, ∑ j ∈ range nz,
            β k j * (∑ s ∈ range S, if Ev k s then p s * Es s (fun z => z j) else 0) ≤ 0) :
    ∑ s ∈ range S, p s * Es s (f s) ≤ 0 := by
  -- scenario-wise bound
  have hs : ∀ s < S, Es s (f s)
      ≤ α s + ∑ k ∈ range nE, if Ev k s then ∑ j ∈ range nz, β k j * Es s (fun z => z j) else 0 := by
    intro s hsS
    have hE := hEs s hsS
    have h1 := hE.mono (f s)
      (fun z => α s + ∑ k ∈ range nE, if Ev k s then ∑ j ∈ range nz, β k j * z j else 0)
      (H2 s hsS)
    have h2 : Es s (fun z => α s + ∑ k ∈ range nE, if Ev k s then ∑ j ∈ range nz, β k j * z j else 0)
        = α s + ∑ k ∈ range nE,
            if Ev k s then ∑ j ∈ range nz, β k j * Es s (fun z => z j) else 0 := by
      rw [hE.add (fun _ => α s)
        (fun z => ∑ k ∈ range nE, if Ev k s then ∑ j ∈ range nz, β k j * z j else 0), hE.norm,
        hE.sum nE (fun k z => if Ev k s then ∑ j ∈ range nz, β k j * z j else 0)]
      congr 1
      apply Finset.sum_congr rfl; intro k _
      by_cases hk : Ev k s
      · simp only [if_pos hk]
        exact hE.lin nz (β k)
      · simp only [if_neg hk]
        exact hE.zero
    linarith
  -- weighted sum over the scenarios
  have hsum : ∑ s ∈ range S, p s * Es s (f s)
      ≤ ∑ s ∈ range S, p s * (α s + ∑ k ∈ range nE,
          if Ev k s then ∑ j ∈ range nz, β k j * Es s (fun z => z j) else 0) := by
    apply Finset.sum_le_sum
    intro s hsm
    have hsS := Finset.mem_range.mp hsm
    exact mul_le_mul_of_nonneg_left (hs s hsS) (hp s hsS)
  -- rearrangement
  have hre : ∑ s ∈ range S, p s * (α s + ∑ k ∈ range nE,
          if Ev k s then ∑ j ∈ range nz, β k j * Es s (fun z => z j) else 0)
      = ∑ s ∈ range S, α s * p s
        + ∑ k ∈ range nE, ∑ j ∈ range nz,
            β k j * (∑ s ∈ range S, if Ev k s then p s * Es s (fun z => z j) else 0) := by
    have e1 : ∀ s ∈ range S, p s * (α s + ∑ k ∈ range nE,
          if Ev k s then ∑ j ∈ range nz, β k j * Es s (fun z => z j) else 0)
        = α s * p s + ∑ k ∈ range nE, ∑ j ∈ range nz,
            (if Ev k s then β k j * (p s * Es s (fun z => z j)) else 0) := by
      intro s _
      rw [mul_add, Finset.mul_sum, mul_comm (p s) (α s)]
      congr 1
      apply Finset.sum_congr rfl; intro k _
      by_cases hk : Ev k s
      · simp only [if_pos hk]
        rw [Finset.mul_sum]
        apply Finset.sum_congr rfl; intro j _; ring
      · simp only [if_neg hk]
        simp
    rw [Finset.sum_congr rfl e1, Finset.sum_add_distrib]
    congr 1
    rw [Finset.sum_comm]
    apply Finset.sum_congr rfl; intro k _
    rw [Finset.sum_comm]
    apply Finset.sum_congr rfl; intro j _
    rw [Finset.mul_sum]
    apply Finset.sum_congr rfl; intro s _
    split_ifs <;> simp
  linarith

end RsomeV
