import Mathlib.Analysis.LocallyConvex.Separation
import Mathlib.Topology.Algebra.Module.Basic
import Mathlib.Tactic.Linarith
import Mathlib.Tactic.Ring

/-! Conic Lagrangian duality under a Slater condition, in abstract form.

`conic_lagrange`: let `C` be a convex set of a real vector space `E` (no topology needed on `E`),
`T : E → F` linear into a topological vector space, `K ⊆ F` a convex cone with an open "strict
interior" `Ki ⊆ K` (`K + Ki ⊆ Ki`, `Ki` stable under positive scaling).  If some point of `C` is
mapped into `Ki` (Slater point) and the linear functional `φ` is bounded below by `γ` on
`{x ∈ C | T x ∈ K}`, then there is a continuous linear functional `ψ` on `F`, non-negative on `K`
(an element of the dual cone), such that `φ - ψ ∘ T` is bounded below by `γ` on the whole of `C`
(no gap, multiplier attained).  Proof: geometric Hahn-Banach (`geometric_hahn_banach_open_point`)
applied in `F × ℝ`. -/

namespace RsomeV.ConicStrong

open Set

theorem conic_lagrange {E F : Type*} [AddCommGroup E] [Module ℝ E]
    [AddCommGroup F] [Module ℝ F] [TopologicalSpace F] [IsTopologicalAddGroup F]
    [ContinuousSMul ℝ F]
    (C : Set E) (hC : Convex ℝ C) (T : E →ₗ[ℝ] F) (φ : E →ₗ[ℝ] ℝ) (γ : ℝ)
    (K Ki : Set F) (hKi_open : IsOpen Ki) (hKiK : Ki ⊆ K)
    (hKi_smul : ∀ k ∈ Ki, ∀ t : ℝ, 0 < t → t • k ∈ Ki)
    (hK_add : ∀ k ∈ K, ∀ k' ∈ Ki, k + k' ∈ Ki)
    (x0 : E) (hx0 : x0 ∈ C) (hTx0 : T x0 ∈ Ki)
    (hbd : ∀ x ∈ C, T x ∈ K → γ ≤ φ x) :
    ∃ ψ : F →L[ℝ] ℝ, (∀ k ∈ K, 0 ≤ ψ k) ∧ ∀ x ∈ C, γ ≤ φ x - ψ (T x) := by
  -- `Ki` is convex
  have hKi_conv : Convex ℝ Ki := by
    intro u hu v hv a b ha hb hab
    rcases ha.eq_or_lt with ha0 | ha0
    · have hb1 : b = 1 := by rw [← ha0] at hab; simpa using hab
      rw [← ha0, hb1]; simpa using hv
    rcases hb.eq_or_lt with hb0 | hb0
    · have ha1 : a = 1 := by rw [← hb0] at hab; simpa using hab
      rw [← hb0, ha1]; simpa using hu
    have := hK_add (b • v) (hKiK (hKi_smul v hv b hb0)) (a • u) (hKi_smul u hu a ha0)
    rwa [add_comm] at this
  -- the open convex set to be separated from the origin
  set B : Set (F × ℝ) := {p | ∃ x ∈ C, T x - p.1 ∈ Ki ∧ φ x - γ < p.2} with hB
  have hBopen : IsOpen B := by
    have : B = ⋃ x ∈ C, {p : F × ℝ | T x - p.1 ∈ Ki ∧ φ x - γ < p.2} := by
      ext p
      simp only [hB, mem_ofPred_eq, mem_iUnion, exists_prop]
    rw [this]
    refine isOpen_biUnion fun x _ => ?_
    exact (hKi_open.preimage (continuous_const.sub continuous_fst)).inter
      (isOpen_lt continuous_const continuous_snd)
  have hBconv : Convex ℝ B := by
    rintro p ⟨x1, hx1, hk1, hr1⟩ q ⟨x2, hx2, hk2, hr2⟩ a b ha hb hab
    refine ⟨a • x1 + b • x2, hC hx1 hx2 ha hb hab, ?_, ?_⟩
    · have e : T (a • x1 + b • x2) - (a • p + b • q).1
          = a • (T x1 - p.1) + b • (T x2 - q.1) := by
        simp only [map_add, map_smul, Prod.fst_add, Prod.smul_fst, smul_sub]
        abel
      rw [e]
      exact hKi_conv hk1 hk2 ha hb hab
    · have e1 : φ (a • x1 + b • x2) - γ = a * (φ x1 - γ) + b * (φ x2 - γ) := by
        have hγ : γ = (a + b) * γ := by rw [hab, one_mul]
        simp only [map_add, map_smul, smul_eq_mul]
        linear_combination (-1 : ℝ) * hγ
      have e2 : (a • p + b • q).2 = a * p.2 + b * q.2 := by
        simp [Prod.snd_add, Prod.smul_snd, smul_eq_mul]
      rw [e1, e2]
      rcases ha.eq_or_lt with ha0 | ha0
      · have hb1 : b = 1 := by rw [← ha0] at hab; simpa using hab
        rw [← ha0, hb1]; simpa using hr2
      · have h1 : a * (φ x1 - γ) < a * p.2 := mul_lt_mul_of_pos_left hr1 ha0
        have h2 : b * (φ x2 - γ) ≤ b * q.2 := mul_le_mul_of_nonneg_left hr2.le hb
        linarith
  have h0B : (0 : F × ℝ) ∉ B := by
    rintro ⟨x, hx, hk, hr⟩
    simp only [Prod.fst_zero, sub_zero, Prod.snd_zero] at hk hr
    have := hbd x hx (hKiK hk)
    linarith
  obtain ⟨f, hf⟩ := geometric_hahn_banach_open_point hBconv hBopen h0B
  rw [map_zero] at hf
  set τ : ℝ := f (0, 1) with hτ
  set ψ0 : F →L[ℝ] ℝ := f.comp (ContinuousLinearMap.inl ℝ F ℝ) with hψ0
  have hfsplit : ∀ (u : F) (t : ℝ), f (u, t) = ψ0 u + t * τ := by
    intro u t
    have : (u, t) = (u, (0 : ℝ)) + t • ((0 : F), (1 : ℝ)) := by
      ext <;> simp
    rw [this, map_add, map_smul]
    simp [hψ0, hτ]
  have hstar : ∀ x ∈ C, ∀ k ∈ Ki, ∀ r : ℝ, 0 < r →
      ψ0 (T x) - ψ0 k + (φ x - γ + r) * τ < 0 := by
    intro x hx k hk r hr
    have hmem : ((T x - k, φ x - γ + r) : F × ℝ) ∈ B := by
      refine ⟨x, hx, ?_, ?_⟩
      · simpa using hk
      · simpa using hr
    have := hf _ hmem
    rw [hfsplit, map_sub] at this
    exact this
  have hφ0 : γ ≤ φ x0 := hbd x0 hx0 (hKiK hTx0)
  have hτneg : τ < 0 := by
    have := hstar x0 hx0 (T x0) hTx0 1 one_pos
    rw [sub_self, zero_add] at this
    by_contra hcon
    have hτ0 : 0 ≤ τ := not_lt.mp hcon
    have : 0 ≤ (φ x0 - γ + 1) * τ := mul_nonneg (by linarith) hτ0
    linarith
  set s : ℝ := (-τ)⁻¹ with hs
  have hspos : 0 < s := inv_pos.mpr (by linarith)
  have hsτ : s * τ = -1 := by
    have hne : -τ ≠ 0 := by linarith
    have : s * (-τ) = 1 := inv_mul_cancel₀ hne
    linarith
  -- the scaled inequality
  have hstar2 : ∀ x ∈ C, ∀ k ∈ Ki, ∀ r : ℝ, 0 < r →
      s * ψ0 (T x) - s * ψ0 k < φ x - γ + r := by
    intro x hx k hk r hr
    have h := mul_neg_of_pos_of_neg hspos (hstar x hx k hk r hr)
    have e : s * (ψ0 (T x) - ψ0 k + (φ x - γ + r) * τ)
        = s * ψ0 (T x) - s * ψ0 k - (φ x - γ + r) := by
      linear_combination (φ x - γ + r) * hsτ
    rw [e] at h
    linarith
  have hKi_nonneg : ∀ k ∈ Ki, 0 ≤ s * ψ0 k := by
    intro k hk
    by_contra hcon
    have hneg : s * ψ0 k < 0 := not_le.mp hcon
    set A : ℝ := φ x0 - γ + 1 - s * ψ0 (T x0) with hA
    set p : ℝ := -(s * ψ0 k) with hp
    have hppos : 0 < p := by linarith
    have htpos : 0 < (|A| + 1) / p := div_pos (by positivity) hppos
    have h := hstar2 x0 hx0 _ (hKi_smul k hk _ htpos) 1 one_pos
    rw [map_smul, smul_eq_mul] at h
    have e : s * ((|A| + 1) / p * ψ0 k) = -(|A| + 1) := by
      have : s * ((|A| + 1) / p * ψ0 k) = (|A| + 1) / p * (s * ψ0 k) := by ring
      rw [this, show s * ψ0 k = -p by rw [hp]; ring]
      field_simp
    rw [e] at h
    have := le_abs_self A
    linarith
  refine ⟨s • ψ0, ?_, ?_⟩
  · -- non-negativity on `K`
    intro k hk
    show 0 ≤ s * ψ0 k
    have h0 : 0 ≤ s * ψ0 (T x0) := hKi_nonneg _ hTx0
    by_contra hcon
    have hneg : s * ψ0 k < 0 := not_le.mp hcon
    -- `k + ε • T x0 ∈ Ki`
    have hε : ∀ ε : ℝ, 0 < ε → 0 ≤ s * ψ0 k + ε * (s * ψ0 (T x0)) := by
      intro ε hε
      have := hKi_nonneg _ (hK_add k hk _ (hKi_smul _ hTx0 ε hε))
      rw [map_add, map_smul, smul_eq_mul] at this
      linarith
    have hpos : 0 < s * ψ0 (T x0) + 1 := by linarith
    have hεpos : 0 < -(s * ψ0 k) / (2 * (s * ψ0 (T x0) + 1)) :=
      div_pos (by linarith) (by linarith)
    have h := hε _ hεpos
    have hle : -(s * ψ0 k) / (2 * (s * ψ0 (T x0) + 1)) * (s * ψ0 (T x0))
        ≤ -(s * ψ0 k) / 2 := by
      rw [div_mul_eq_mul_div, div_le_div_iff₀ (by linarith) (by norm_num)]
      have : -(s * ψ0 k) * (s * ψ0 (T x0)) ≤ -(s * ψ0 k) * (s * ψ0 (T x0) + 1) :=
        mul_le_mul_of_nonneg_left (by linarith) (by linarith)
      nlinarith
    linarith
  · -- the Lagrangian bound on `C`
    intro x hx
    show γ ≤ φ x - s * ψ0 (T x)
    have h0 : 0 ≤ s * ψ0 (T x0) := hKi_nonneg _ hTx0
    have hε : ∀ ε : ℝ, 0 < ε → s * ψ0 (T x) ≤ φ x - γ + ε := by
      intro ε hε
      set δ : ℝ := ε / (s * ψ0 (T x0) + 1) with hδ
      have hden : 0 < s * ψ0 (T x0) + 1 := by linarith
      have hδpos : 0 < δ := div_pos hε hden
      have h := hstar2 x hx _ (hKi_smul _ hTx0 δ hδpos) δ hδpos
      rw [map_smul, smul_eq_mul] at h
      have hδe : δ * (s * ψ0 (T x0) + 1) = ε := by
        rw [hδ]; field_simp
      nlinarith
    have := le_of_forall_pos_le_add hε
    linarith

end RsomeV.ConicStrong
