import Mathlib.Analysis.SpecialFunctions.Exp
import Mathlib.Tactic.Linarith
import Mathlib.Tactic.Ring
import Mathlib.Tactic.FieldSimp
import Mathlib.Tactic.Positivity

/-! Two-point Jensen inequality for `exp` (convexity of the perspective of `exp`), used by
`RsomeV/Props/C18Upper.lean` for the lower bound of a block of `GCProg.to_socp` in the original
columns, whatever split the block point uses:

    α0·exp p + α1·exp q ≥ (α0 + α1)·exp((α0·p + α1·q)/(α0 + α1)).

Proof: tangent line of `exp` at the mean `m` (`exp s ≥ exp m·(1 + s − m)`, i.e.
`Real.add_one_le_exp`), weighted sum; no convexity library needed. -/

namespace RsomeV
namespace SocApprox

/-- tangent line of `exp` at `m` -/
lemma exp_tangent (m s : ℝ) : Real.exp m * (1 + (s - m)) ≤ Real.exp s := by
  have h := Real.add_one_le_exp (s - m)
  have e : Real.exp s = Real.exp m * Real.exp (s - m) := by
    rw [← Real.exp_add]; congr 1; ring
  rw [e]
  exact mul_le_mul_of_nonneg_left (by linarith) (Real.exp_pos m).le

/-- two-point Jensen inequality for `exp` with non-negative weights `α0, α1`, `α0 + α1 > 0` -/
lemma exp_jensen2 (α0 α1 p q : ℝ) (h0 : 0 ≤ α0) (h1 : 0 ≤ α1) (hs : 0 < α0 + α1) :
    (α0 + α1) * Real.exp ((α0 * p + α1 * q) / (α0 + α1)) ≤ α0 * Real.exp p + α1 * Real.exp q := by
  set m := (α0 * p + α1 * q) / (α0 + α1) with hm
  have hp := mul_le_mul_of_nonneg_left (exp_tangent m p) h0
  have hq := mul_le_mul_of_nonneg_left (exp_tangent m q) h1
  have hmean : m * (α0 + α1) = α0 * p + α1 * q := by
    rw [hm]; field_simp
  have e : α0 * (Real.exp m * (1 + (p - m))) + α1 * (Real.exp m * (1 + (q - m))) =
      (α0 + α1) * Real.exp m + Real.exp m * (α0 * p + α1 * q - m * (α0 + α1)) := by ring
  rw [hmean, sub_self, mul_zero, add_zero] at e
  linarith

/-- the form used for a block: if `a0 ≤ α0·lo + x1`, `α0 ≥ 0`, `α1 > 0` then
`(α0 + α1)·exp(a0/(α0 + α1)) ≤ α0·exp lo + α1·exp(x1/α1)` -/
lemma exp_persp_split (α0 α1 lo x1 a0 : ℝ) (h0 : 0 ≤ α0) (h1 : 0 < α1) (ha : a0 ≤ α0 * lo + x1) :
    (α0 + α1) * Real.exp (a0 / (α0 + α1)) ≤ α0 * Real.exp lo + α1 * Real.exp (x1 / α1) := by
  have hs : 0 < α0 + α1 := by linarith
  have hj := exp_jensen2 α0 α1 lo (x1 / α1) h0 h1.le hs
  have e : α1 * (x1 / α1) = x1 := by field_simp
  rw [e] at hj
  have hmono : Real.exp (a0 / (α0 + α1)) ≤ Real.exp ((α0 * lo + x1) / (α0 + α1)) :=
    Real.exp_le_exp.mpr (div_le_div_of_nonneg_right ha hs.le)
  have := mul_le_mul_of_nonneg_left hmono hs.le
  linarith

end SocApprox
end RsomeV
