import RsomeV.M.SocApprox
import RsomeV.L.ConeDualWeak
import Mathlib.Tactic.Linarith
import Mathlib.Tactic.Ring
import Mathlib.Tactic.Positivity
import Mathlib.Tactic.FieldSimp
import Mathlib.Tactic.NormNum
import Mathlib.Tactic.IntervalCases

/-! Helper lemmas for `RsomeV/Props/C18.lean`: evaluation of the sparse rows of the model of
`GCProg.to_socp`, extraction of the relations one block enforces from feasibility of the result,
and the algebra of the chain of rotated cones. -/

set_option linter.unusedSectionVars false
set_option linter.unusedSimpArgs false
set_option linter.unusedVariables false

namespace RsomeV
namespace SocApprox
open Finset

variable {K : Type} [Field K] [LinearOrder K] [IsStrictOrderedRing K]

/-! ### sparse rows -/

lemma entry_nil (j : ℕ) : entry ([] : List (ℕ × K)) j = 0 := by simp [entry]

lemma entry_cons (e : ℕ × K) (row : List (ℕ × K)) (j : ℕ) :
    entry (e :: row) j = (if e.1 = j then e.2 else 0) + entry row j := by
  unfold entry
  by_cases h : e.1 = j <;> simp [List.filter_cons, h]

lemma entry_append (r1 r2 : List (ℕ × K)) (j : ℕ) : entry (r1 ++ r2) j = entry r1 j + entry r2 j := by
  simp [entry, List.filter_append]

/-- a dense row evaluates to the sum over its sparse entries -/
lemma sum_entry (row : List (ℕ × K)) (n : ℕ) (x : ℕ → K) (h : ∀ e ∈ row, e.1 < n) :
    ∑ j ∈ range n, entry row j * x j = (row.map fun e => e.2 * x e.1).sum := by
  induction row with
  | nil => simp [entry_nil]
  | cons e row ih =>
    have he : e.1 < n := h e (by simp)
    have ih' := ih (fun e' he' => h e' (by simp [he']))
    simp only [entry_cons, add_mul, Finset.sum_add_distrib, ih', List.map_cons, List.sum_cons]
    congr 1
    simp [ite_mul, Finset.sum_ite_eq, he]

/-! ### the rows of one block -/

lemma blockRow_rot0 (L : ℕ) (lo hi elo : K) (q : ℕ) :
    blockRow L lo hi elo (7 + 3 * q) =
      [(4, 1 / 2), (wCol L q, -(1 / 2)), (numVars L + 3 * q, -1)] := by
  have h1 : 7 + 3 * q = 3 * q + 7 := by omega
  rw [h1]
  simp only [blockRow]
  have h2 : 3 * q % 3 = 0 := by omega
  have h3 : 3 * q / 3 = q := by omega
  simp [h2, h3]

lemma blockRow_rot1 (L : ℕ) (lo hi elo : K) (q : ℕ) :
    blockRow L lo hi elo (7 + 3 * q + 1) = yRow L q ++ [(numVars L + 3 * q + 1, -1)] := by
  have h1 : 7 + 3 * q + 1 = (3 * q + 1) + 7 := by omega
  rw [h1]
  simp only [blockRow]
  have h2 : (3 * q + 1) % 3 = 1 := by omega
  have h3 : (3 * q + 1) / 3 = q := by omega
  simp [h2, h3]

lemma blockRow_rot2 (L : ℕ) (lo hi elo : K) (q : ℕ) :
    blockRow L lo hi elo (7 + 3 * q + 2) =
      [(4, -(1 / 2)), (wCol L q, -(1 / 2)), (numVars L + 3 * q + 2, 1)] := by
  have h1 : 7 + 3 * q + 2 = (3 * q + 2) + 7 := by omega
  rw [h1]
  simp only [blockRow]
  have h2 : (3 * q + 2) % 3 = 2 := by omega
  have h3 : (3 * q + 2) / 3 = q := by omega
  simp [h2, h3]

lemma wCol_lt (L q : ℕ) (hq : q < 3 + L) : wCol L q < numVars L := by
  unfold wCol numVars
  split_ifs <;> omega

lemma yRow_lt (L q : ℕ) (hq : q < 3 + L) : ∀ e ∈ (yRow L q : List (ℕ × K)), e.1 < numVars L := by
  intro e he
  unfold yRow at he
  unfold numVars
  split_ifs at he <;> simp at he <;> rcases he with rfl | rfl <;> simp <;> omega

/-- every row `r < rowCount L` is `0..6` or `7 + 3q + s` with `q < 3 + L`, `s < 3` -/
lemma row_cases (L r : ℕ) (hr : r < rowCount L) :
    r < 7 ∨ ∃ q s, q < 3 + L ∧ s < 3 ∧ r = 7 + 3 * q + s := by
  by_cases h : r < 7
  · exact Or.inl h
  · refine Or.inr ⟨(r - 7) / 3, (r - 7) % 3, ?_, ?_, ?_⟩ <;> unfold rowCount at hr <;> omega

/-- all columns of a block row lie inside the block (needs `1 ≤ L`: row 3 names `v_0`) -/
lemma blockRow_lt (L : ℕ) (hL : 1 ≤ L) (lo hi elo : K) (r : ℕ) (hr : r < rowCount L) :
    ∀ e ∈ blockRow L lo hi elo r, e.1 < numCols L := by
  rcases row_cases L r hr with h | ⟨q, s, hq, hs, rfl⟩
  · have hn : 8 < numCols L := by unfold numCols numVars; omega
    interval_cases r <;> simp [blockRow] <;> omega
  · have hw := wCol_lt L q hq
    have hy := yRow_lt (K := K) L q hq
    have hc : numCols L = numVars L + (3 + L) * 3 := rfl
    interval_cases s
    · rw [Nat.add_zero, blockRow_rot0]
      simp
      omega
    · rw [blockRow_rot1]
      intro e he
      simp at he
      rcases he with h | rfl
      · have := hy e h
        omega
      · simp; omega
    · rw [blockRow_rot2]
      simp
      omega

/-! ### rows, bounds and cones of the result -/

/-- the exponential cones of the source are triples of existing columns -/
def XOk (P : ConeProg K) : Prop := ∀ e ∈ P.xmat, e.length = 3 ∧ ∀ j ∈ e, j < P.lp.nc

lemma XOk_of_WF (P : ConeProg K) (h : P.WF) : XOk P := fun e he => ⟨h.xlen e he, h.xlt e he⟩

lemma XOk.getD_lt {P : ConeProg K} (h : XOk P) {k : ℕ} (hk : k < P.xmat.length) (i : ℕ) (hi : i < 3) :
    (P.xmat.getD k []).getD i 0 < P.lp.nc := by
  have hm : P.xmat.getD k [] ∈ P.xmat := by
    rw [List.getD_eq_getElem _ _ hk]; exact List.getElem_mem hk
  obtain ⟨h3, hlt⟩ := h _ hm
  have hi' : i < (P.xmat.getD k []).length := by omega
  rw [List.getD_eq_getElem _ _ hi']
  exact hlt _ (List.getElem_mem hi')

lemma leftRow_lt {P : ConeProg K} (h : XOk P) {k : ℕ} (hk : k < P.xmat.length) (r : ℕ) :
    ∀ e ∈ (leftRow (P.xmat.getD k []) r : List (ℕ × K)), e.1 < P.lp.nc := by
  intro e he
  unfold leftRow at he
  split at he <;> simp at he
  · subst he; exact h.getD_lt hk 1 (by omega)
  · subst he; exact h.getD_lt hk 0 (by omega)
  · subst he; exact h.getD_lt hk 2 (by omega)

lemma block_index (nr R k r : ℕ) (hr : r < R) :
    ¬ (nr + k * R + r < nr) ∧ (nr + k * R + r - nr) / R = k ∧ (nr + k * R + r - nr) % R = r := by
  have h1 : nr + k * R + r - nr = r + R * k := by rw [Nat.mul_comm]; omega
  refine ⟨by omega, ?_, ?_⟩
  · rw [h1, Nat.add_mul_div_left _ _ (by omega), Nat.div_eq_of_lt hr]; omega
  · rw [h1, Nat.add_mul_mod_self_left, Nat.mod_eq_of_lt hr]

/-- evaluation of row `r` of the block of the `k`-th exponential cone -/
lemma toSocp_row_block (P : ConeProg K) (L : ℕ) (hL : 1 ≤ L) (lo hi elo : K) (hx : XOk P) (k : ℕ)
    (hk : k < P.xmat.length) (r : ℕ) (hr : r < rowCount L) (x : ℕ → K) :
    (toSocp P L lo hi elo).lp.row (P.lp.nr + k * rowCount L + r) x =
      ((leftRow (P.xmat.getD k []) r).map fun e => e.2 * x e.1).sum +
      ((blockRow L lo hi elo r).map fun e => e.2 * x (off P L k + e.1)).sum := by
  obtain ⟨h1, h2, h3⟩ := block_index P.lp.nr (rowCount L) k r hr
  unfold LinProg.row
  simp only [toSocp, h1, h2, h3, if_false]
  rw [sum_entry]
  · simp [globalRow, List.map_append, List.sum_append, List.map_map, Function.comp_def]
  · intro e he
    simp only [globalRow, List.mem_append, List.mem_map] at he
    rcases he with he | ⟨e', he', rfl⟩
    · have := leftRow_lt hx hk r e he
      omega
    · have := blockRow_lt L hL lo hi elo r hr e' he'
      have h4 : (k + 1) * numCols L ≤ P.xmat.length * numCols L := Nat.mul_le_mul_right _ hk
      simp only [off]
      rw [Nat.add_mul, Nat.one_mul] at h4
      omega

lemma toSocp_eq_block (P : ConeProg K) (L : ℕ) (lo hi elo : K) (k r : ℕ) (hr : r < rowCount L) :
    (toSocp P L lo hi elo).lp.eq (P.lp.nr + k * rowCount L + r) = blockEq r := by
  obtain ⟨h1, h2, h3⟩ := block_index P.lp.nr (rowCount L) k r hr
  simp only [toSocp, h1, h3, if_false]

lemma toSocp_b_block (P : ConeProg K) (L : ℕ) (lo hi elo : K) (k r : ℕ) (hr : r < rowCount L) :
    (toSocp P L lo hi elo).lp.b (P.lp.nr + k * rowCount L + r) = 0 := by
  obtain ⟨h1, h2, h3⟩ := block_index P.lp.nr (rowCount L) k r hr
  simp only [toSocp, h1, if_false]

lemma toSocp_row_lt (P : ConeProg K) (L : ℕ) (lo hi elo : K) (k r : ℕ) (hk : k < P.xmat.length)
    (hr : r < rowCount L) : P.lp.nr + k * rowCount L + r < (toSocp P L lo hi elo).lp.nr := by
  have h4 : (k + 1) * rowCount L ≤ P.xmat.length * rowCount L := Nat.mul_le_mul_right _ hk
  rw [Nat.add_mul, Nat.one_mul] at h4
  simp only [toSocp]
  omega

lemma toSocp_col_lt (P : ConeProg K) (L : ℕ) (lo hi elo : K) (k c : ℕ) (hk : k < P.xmat.length)
    (hc : c < numCols L) : off P L k + c < (toSocp P L lo hi elo).lp.nc := by
  have h4 : (k + 1) * numCols L ≤ P.xmat.length * numCols L := Nat.mul_le_mul_right _ hk
  rw [Nat.add_mul, Nat.one_mul] at h4
  simp only [toSocp, off]
  omega

lemma toSocp_lb_block (P : ConeProg K) (L : ℕ) (lo hi elo : K) (k c : ℕ) (hc : c < numCols L) :
    (toSocp P L lo hi elo).lp.lb (off P L k + c) = blockLb L c := by
  obtain ⟨h1, h2, h3⟩ := block_index P.lp.nc (numCols L) k c hc
  simp only [toSocp, off, h1, h3, if_false]

lemma blockCones_mem (P : ConeProg K) (L : ℕ) (lo hi elo : K) (k q : ℕ) (hk : k < P.xmat.length)
    (hq : q < 3 + L) :
    [off P L k + numVars L + 3 * q + 2, off P L k + numVars L + 3 * q + 1, off P L k + numVars L + 3 * q]
      ∈ (toSocp P L lo hi elo).qmat := by
  simp only [toSocp, List.mem_append, List.mem_flatMap, List.mem_range]
  refine Or.inr ⟨k, hk, ?_⟩
  simp only [blockCones, List.mem_map, List.mem_range]
  refine ⟨q, hq, ?_⟩
  have e1 : off P L k + numVars L + 2 + q * 3 = off P L k + numVars L + 3 * q + 2 := by omega
  have e2 : off P L k + numVars L + 1 + q * 3 = off P L k + numVars L + 3 * q + 1 := by omega
  have e3 : off P L k + numVars L + 0 + q * 3 = off P L k + numVars L + 3 * q := by omega
  rw [e1, e2, e3]

/-! ### what one block says -/

/-- the value `y` of the middle row of the `q`-th rotated cone at block-local point `y`:
`x1/2^L`, `x1/2^L + α1`, `g`, then `v_{q-3}` -/
def yVal (L q : ℕ) (y : ℕ → K) : K :=
  if q = 0 then y 2 / 2 ^ L else if q = 1 then y 2 / 2 ^ L + y 4 else if q = 2 then y 6 else y (5 + q)

lemma yRow_sum (L q : ℕ) (y : ℕ → K) : ((yRow L q).map fun e => e.2 * y e.1).sum = yVal L q y := by
  unfold yRow yVal
  split_ifs <;> simp <;> ring

/-- The relations one block of `to_socp` imposes, in block-local coordinates
`y 0 = t, y 1 = x0, y 2 = x1, y 3 = α0, y 4 = α1, y 5 = f, y 6 = g, y 7 = h, y (8+d) = v_d`, and
`y (numVars L + 3q + s)` the `q`-th cone triple; `a0 a1 a2` are the values of the columns of the
exponential cone `[i0, i1, i2]` (`a2·exp(a0/a2) ≤ a1`); `elo` is the coefficient `np.exp(cut_lower)`
of `α0` in row 0 (`elo = 0`: the block before the repair, see `BlockRelOld` in `Props/C18Upper`). -/
structure BlockRel (L : ℕ) (lo hi elo a0 a1 a2 : K) (y : ℕ → K) : Prop where
  /-- row 0: `t + elo·α0 - x_{i1} ≤ 0` (`elo = np.exp(cut_lower)`) -/
  epi : y 0 + elo * y 3 ≤ a1
  /-- row 1: `x0 + x1 - x_{i0} = 0` -/
  splitx : y 1 + y 2 = a0
  /-- row 2: `α0 + α1 - x_{i2} = 0` -/
  splita : y 3 + y 4 = a2
  /-- row 3: `20/2^L/24·x1 + 23/24·α1 + f/4 + h/24 - v_0 ≤ 0` -/
  taylor : 20 / 2 ^ L / 24 * y 2 + 23 / 24 * y 4 + 1 / 4 * y 5 + 1 / 24 * y 7 ≤ y 8
  /-- row 4: `x0 - cLo·α0 ≤ 0` -/
  cutLo0 : y 1 ≤ lo * y 3
  /-- row 5: `x1 - cHi·α1 ≤ 0` -/
  cutHi : y 2 ≤ hi * y 4
  /-- row 6: `-x1 + cLo·α1 ≤ 0` -/
  cutLo1 : lo * y 4 ≤ y 2
  /-- `more_lb = 0` on `α, f, g, h, v` -/
  nonneg : ∀ c, 3 ≤ c → c < numVars L → 0 ≤ y c
  /-- rows `7+3q .. 7+3q+2`, the bound `0` on the third column and the cone `[c+2, c+1, c]` -/
  rot : ∀ q < 3 + L,
    y (numVars L + 3 * q) = (y 4 - y (wCol L q)) / 2 ∧
    y (numVars L + 3 * q + 1) = yVal L q y ∧
    y (numVars L + 3 * q + 2) ≤ (y 4 + y (wCol L q)) / 2 ∧
    0 ≤ y (numVars L + 3 * q + 2) ∧
    y (numVars L + 3 * q + 1) ^ 2 + y (numVars L + 3 * q) ^ 2 ≤ y (numVars L + 3 * q + 2) ^ 2

lemma leftRow_ge (xm : List ℕ) (r : ℕ) (h : 3 ≤ r) : (leftRow xm r : List (ℕ × K)) = [] := by
  match r, h with
  | r + 3, _ => rfl

/-- feasibility of the result gives the block relations for every exponential cone of the source -/
lemma feas_blockRel (P : ConeProg K) (L : ℕ) (hL : 1 ≤ L) (lo hi elo : K) (hx : XOk P)
    (E : K → K → K → Prop) (x : ℕ → K) (hf : (toSocp P L lo hi elo).Feas E x) (k : ℕ)
    (hk : k < P.xmat.length) :
    BlockRel L lo hi elo (x ((P.xmat.getD k []).getD 0 0)) (x ((P.xmat.getD k []).getD 1 0))
      (x ((P.xmat.getD k []).getD 2 0)) (fun c => x (off P L k + c)) := by
  have hR : 16 ≤ rowCount L := by unfold rowCount; omega
  have row : ∀ r, r < rowCount L →
      (if blockEq r then
        ((leftRow (P.xmat.getD k []) r).map fun e => e.2 * x e.1).sum +
          ((blockRow L lo hi elo r).map fun e => e.2 * x (off P L k + e.1)).sum = (0 : K)
       else
        ((leftRow (P.xmat.getD k []) r).map fun e => e.2 * x e.1).sum +
          ((blockRow L lo hi elo r).map fun e => e.2 * x (off P L k + e.1)).sum ≤ (0 : K)) := by
    intro r hr
    have := hf.lin.rows _ (toSocp_row_lt P L lo hi elo k r hk hr)
    rwa [toSocp_eq_block P L lo hi elo k r hr, toSocp_row_block P L hL lo hi elo hx k hk r hr,
      toSocp_b_block P L lo hi elo k r hr] at this
  have h0 := row 0 (by omega)
  have h1 := row 1 (by omega)
  have h2 := row 2 (by omega)
  have h3 := row 3 (by omega)
  have h4 := row 4 (by omega)
  have h5 := row 5 (by omega)
  have h6 := row 6 (by omega)
  simp [blockEq, leftRow, blockRow, -List.getD_eq_getElem?_getD] at h0 h1 h2 h3 h4 h5 h6
  refine ⟨by simpa using h0, by linarith, by linarith, by linarith, by linarith, by linarith, by linarith,
    ?_, ?_⟩
  · intro c hc3 hcV
    have hc : c < numCols L := by unfold numCols; omega
    have := hf.lin.lbs _ (toSocp_col_lt P L lo hi elo k c hk hc)
    rw [toSocp_lb_block P L lo hi elo k c hc] at this
    simpa [blockLb, hc3, hcV, LinProg.geLb] using this
  · intro q hq
    have hr0 : 7 + 3 * q < rowCount L := by unfold rowCount; omega
    have hr1 : 7 + 3 * q + 1 < rowCount L := by unfold rowCount; omega
    have hr2 : 7 + 3 * q + 2 < rowCount L := by unfold rowCount; omega
    have r0 := row _ hr0
    have r1 := row _ hr1
    have r2 := row _ hr2
    rw [leftRow_ge _ _ (by omega), blockRow_rot0] at r0
    rw [leftRow_ge _ _ (by omega), blockRow_rot1] at r1
    rw [leftRow_ge _ _ (by omega), blockRow_rot2] at r2
    have e0 : blockEq (7 + 3 * q) = true := by
      unfold blockEq; simp
    have e1 : blockEq (7 + 3 * q + 1) = true := by
      unfold blockEq; simp; omega
    have e2 : blockEq (7 + 3 * q + 2) = false := by
      unfold blockEq; simp; omega
    rw [e0] at r0
    rw [e1] at r1
    rw [e2] at r2
    simp only [List.map_append, List.sum_append, List.map_map, Function.comp_def] at r1
    have hy := yRow_sum L q (fun c => x (off P L k + c))
    rw [hy] at r1
    simp at r0 r1 r2
    have hc : numVars L + 3 * q + 2 < numCols L := by unfold numCols; omega
    have hlb := hf.lin.lbs _ (toSocp_col_lt P L lo hi elo k _ hk hc)
    rw [toSocp_lb_block P L lo hi elo k _ hc] at hlb
    have hmod : (numVars L + 3 * q + 2 - numVars L) % 3 = 2 := by omega
    have hnot : ¬ (numVars L + 3 * q + 2 < numVars L) := by omega
    have hle : numVars L ≤ numVars L + 3 * q + 2 := by omega
    simp [blockLb, hnot, hmod, hle, LinProg.geLb] at hlb
    have hcone := hf.soc _ (blockCones_mem P L lo hi elo k q hk hq)
    simp [socMem] at hcone
    simp only [← Nat.add_assoc] at r0 r1 r2 hlb hcone ⊢
    refine ⟨by linarith, by linarith, by linarith, hlb, ?_⟩
    linarith [hcone.2]

/-! ### algebra of the rotated cones -/

/-- one rotated cone: rows `c0 = (a - w)/2`, `c1 = y`, `c2 ≤ (a + w)/2`, bound `0 ≤ c2` and the cone
`c1² + c0² ≤ c2²` give `y² ≤ a·w` -/
lemma rot_prod (a w yv c0 c1 c2 : K) (h0 : c0 = (a - w) / 2) (h1 : c1 = yv) (h2 : c2 ≤ (a + w) / 2)
    (h3 : 0 ≤ c2) (h4 : c1 ^ 2 + c0 ^ 2 ≤ c2 ^ 2) : yv ^ 2 ≤ a * w := by
  have h5 : c2 ^ 2 ≤ ((a + w) / 2) ^ 2 := pow_le_pow_left₀ h3 h2 2
  subst h0 h1
  have e : ((a + w) / 2) ^ 2 - ((a - w) / 2) ^ 2 = a * w := by ring
  linarith

/-- the same relations force `w ≥ 0` -/
lemma rot_w_nonneg (a w c0 c1 c2 : K) (h0 : c0 = (a - w) / 2) (h2 : c2 ≤ (a + w) / 2)
    (h3 : 0 ≤ c2) (h4 : c1 ^ 2 + c0 ^ 2 ≤ c2 ^ 2) : 0 ≤ w := by
  by_contra hw
  have hw' : w < 0 := not_le.mp hw
  have h5 : c2 < c0 := by rw [h0]; linarith
  have h6 : c2 ^ 2 < c0 ^ 2 := pow_lt_pow_left₀ h5 h3 (by norm_num)
  linarith [sq_nonneg c1]

/-- the homogenised degree-4 Taylor polynomial: `Q4 u a = a⁴·P4(u/a)` -/
def Q4 (u a : K) : K := a ^ 4 + a ^ 3 * u + a ^ 2 * u ^ 2 / 2 + a * u ^ 3 / 6 + u ^ 4 / 24

lemma Q4_nonneg (u a : K) : 0 ≤ Q4 u a := by
  have e : Q4 u a = ((u ^ 2 + 2 * u * a) ^ 2 + 8 * a ^ 2 * (u + 3 * a / 2) ^ 2 + 6 * a ^ 4) / 24 := by
    unfold Q4; ring
  rw [e]
  positivity

/-- the Taylor row: with `u² ≤ a·f`, `(u+a)² ≤ a·g`, `g² ≤ a·h` and
`20/24·u + 23/24·a + f/4 + h/24 ≤ v`, `a ≥ 0`:  `Q4 u a ≤ a³·v` -/
lemma taylor_row (a u f g h v : K) (ha : 0 ≤ a) (hf : u ^ 2 ≤ a * f) (hg : (u + a) ^ 2 ≤ a * g)
    (hh : g ^ 2 ≤ a * h) (hv : 20 / 24 * u + 23 / 24 * a + 1 / 4 * f + 1 / 24 * h ≤ v) :
    Q4 u a ≤ a ^ 3 * v := by
  have h1 : a ^ 2 * g ^ 2 ≤ a ^ 2 * (a * h) := mul_le_mul_of_nonneg_left hh (sq_nonneg a)
  have h2 : ((u + a) ^ 2) ^ 2 ≤ (a * g) ^ 2 := pow_le_pow_left₀ (sq_nonneg _) hg 2
  have h3 : a ^ 2 * u ^ 2 ≤ a ^ 2 * (a * f) := mul_le_mul_of_nonneg_left hf (sq_nonneg a)
  have h4 : a ^ 3 * (20 / 24 * u + 23 / 24 * a + 1 / 4 * f + 1 / 24 * h) ≤ a ^ 3 * v :=
    mul_le_mul_of_nonneg_left hv (pow_nonneg ha 3)
  have e1 : (a * g) ^ 2 = a ^ 2 * g ^ 2 := by ring
  unfold Q4
  have e2 : ((u + a) ^ 2) ^ 2 = u ^ 4 + 4 * u ^ 3 * a + 6 * u ^ 2 * a ^ 2 + 4 * u * a ^ 3 + a ^ 4 := by ring
  have e3 : a ^ 3 * (20 / 24 * u + 23 / 24 * a + 1 / 4 * f + 1 / 24 * h) =
      20 / 24 * (a ^ 3 * u) + 23 / 24 * a ^ 4 + 1 / 4 * (a ^ 2 * (a * f)) + 1 / 24 * (a ^ 2 * (a * h)) := by ring
  have e4 : a ^ 2 * u ^ 2 / 2 = 1 / 2 * (a ^ 2 * u ^ 2) := by ring
  have e5 : a * u ^ 3 / 6 = 1 / 6 * (u ^ 3 * a) := by ring
  have e6 : 4 * u ^ 3 * a = 4 * (u ^ 3 * a) := by ring
  have e7 : 6 * u ^ 2 * a ^ 2 = 6 * (a ^ 2 * u ^ 2) := by ring
  have e8 : 4 * u * a ^ 3 = 4 * (a ^ 3 * u) := by ring
  rw [e3] at h4
  rw [e1] at h2
  rw [e2, e6, e7, e8] at h2
  rw [e4, e5]
  linarith

lemma two_pow_sub (d : ℕ) : 2 ^ (d + 1 + 2) - 1 = 2 * (2 ^ (d + 2) - 1) + 1 := by
  have : 1 ≤ 2 ^ (d + 2) := Nat.one_le_two_pow
  rw [pow_succ]; omega

/-- repeated squaring through the chain `s_d² ≤ a·s_{d+1}` -/
lemma chain_pow (a B : K) (s : ℕ → K) (L : ℕ) (ha : 0 ≤ a) (hB : 0 ≤ B) (h0 : B ≤ a ^ 3 * s 0)
    (hs : ∀ d < L, s d ^ 2 ≤ a * s (d + 1)) :
    ∀ d ≤ L, B ^ 2 ^ d ≤ a ^ (2 ^ (d + 2) - 1) * s d := by
  intro d
  induction d with
  | zero => intro _; simpa using h0
  | succ d ih =>
    intro hd
    have ih' := ih (by omega)
    have h1 : (B ^ 2 ^ d) ^ 2 ≤ (a ^ (2 ^ (d + 2) - 1) * s d) ^ 2 :=
      pow_le_pow_left₀ (pow_nonneg hB _) ih' 2
    have h2 : (a ^ (2 ^ (d + 2) - 1)) ^ 2 * s d ^ 2 ≤ (a ^ (2 ^ (d + 2) - 1)) ^ 2 * (a * s (d + 1)) :=
      mul_le_mul_of_nonneg_left (hs d (by omega)) (sq_nonneg _)
    rw [two_pow_sub]
    calc B ^ 2 ^ (d + 1) = (B ^ 2 ^ d) ^ 2 := by rw [pow_succ, pow_mul]
      _ ≤ (a ^ (2 ^ (d + 2) - 1) * s d) ^ 2 := h1
      _ = (a ^ (2 ^ (d + 2) - 1)) ^ 2 * s d ^ 2 := by ring
      _ ≤ (a ^ (2 ^ (d + 2) - 1)) ^ 2 * (a * s (d + 1)) := h2
      _ = a ^ (2 * (2 ^ (d + 2) - 1) + 1) * s (d + 1) := by ring

end SocApprox
end RsomeV
