import RsomeV.M.ConeDual
import RsomeV.L.LpDualWeak
import Mathlib.Tactic.Linarith
import Mathlib.Tactic.Ring
import Mathlib.Tactic.Positivity
import Mathlib.Algebra.Order.BigOperators.Ring.Finset
import Mathlib.Algebra.BigOperators.Group.Finset.Basic
import Mathlib.Data.List.GetD

/-! Weak duality for the conic layers of the model of `do_math(primal=False)`.

Cone membership is stated without square roots (`0 ≤ head ∧ Σ tail² ≤ head²`), valid in
every linear ordered field.  The exponential cone is an abstract predicate `E` with the
pairing property `ExpPair E`; `RsomeV/L/ExpCone.lean` instantiates it with the real
exponential cone. -/

set_option linter.unusedSectionVars false
set_option linter.unusedSimpArgs false

namespace RsomeV
open Finset

variable {K : Type} [Field K] [LinearOrder K] [IsStrictOrderedRing K]

/-- second-order cone membership of the sub-vector `x[q]`, head first -/
def socMem (x : ℕ → K) : List ℕ → Prop
  | [] => True
  | h :: t => 0 ≤ x h ∧ (t.map fun j => x j ^ 2).sum ≤ x h ^ 2

/-- the pairing property the dual exp block needs (rsome's ordering: `a2·exp(a0/a2) ≤ a1`) -/
def ExpPair (E : K → K → K → Prop) : Prop :=
  ∀ a0 a1 a2 u0 u1 u2 : K, E a0 a1 a2 → E u0 u1 u2 → 0 ≤ -u2 * a0 + u1 * a1 - (u0 + u2) * a2

namespace ConeProg

/-- feasibility of a conic program: rows, bounds, second-order cones, exponential cones -/
structure Feas (P : ConeProg K) (E : K → K → K → Prop) (x : ℕ → K) : Prop where
  lin : P.lp.Feas x
  soc : ∀ q ∈ P.qmat, socMem x q
  exp : ∀ e ∈ P.xmat, E (x (e.getD 0 0)) (x (e.getD 1 0)) (x (e.getD 2 0))

/-- well-formedness of the index lists (true of every program `do_math` emits; re-checked by
the harness on every generated case) -/
structure WF (P : ConeProg K) : Prop where
  qlt : ∀ q ∈ P.qmat, ∀ j ∈ q, j < P.lp.nc
  xlen : ∀ e ∈ P.xmat, e.length = 3
  xlt : ∀ e ∈ P.xmat, ∀ j ∈ e, j < P.lp.nc
  /-- exponential-cone columns are auxiliary columns without an upper bound of zero -/
  xnotneg : ∀ e ∈ P.xmat, ∀ j ∈ e, P.lp.isNeg j = false
  /-- the stored pattern covers the non-zeros -/
  stcov : ∀ i j, P.lp.a i j ≠ 0 → P.st i j = true

end ConeProg

/-! ### Generic list / sum lemmas -/

lemma sum_map_eq_range (l : List ℕ) (f : ℕ → K) :
    (l.map f).sum = ∑ p ∈ range l.length, f (l.getD p 0) := by
  induction l with
  | nil => simp
  | cons a l ih =>
    rw [List.map_cons, List.sum_cons, List.length_cons, Finset.sum_range_succ', ih]
    simp [add_comm]

/-- Cauchy–Schwarz form of the self-duality of the second-order cone (no square roots) -/
theorem soc_pairing (n : ℕ) (x y : ℕ → K) (t s : K) (ht : 0 ≤ t) (hs : 0 ≤ s)
    (hx : ∑ i ∈ range n, x i ^ 2 ≤ t ^ 2) (hy : ∑ i ∈ range n, y i ^ 2 ≤ s ^ 2) :
    0 ≤ t * s + ∑ i ∈ range n, x i * y i := by
  have cs := Finset.sum_mul_sq_le_sq_mul_sq (range n) x y
  have h1 : (∑ i ∈ range n, x i * y i) ^ 2 ≤ (t * s) ^ 2 := by
    calc (∑ i ∈ range n, x i * y i) ^ 2 ≤ (∑ i ∈ range n, x i ^ 2) * ∑ i ∈ range n, y i ^ 2 := cs
      _ ≤ t ^ 2 * s ^ 2 := by
          apply mul_le_mul hx hy (sum_nonneg (fun i _ => sq_nonneg _)) (sq_nonneg _)
      _ = (t * s) ^ 2 := by ring
  have h2 : |∑ i ∈ range n, x i * y i| ≤ |t * s| := sq_le_sq.mp h1
  have h3 : |t * s| = t * s := abs_of_nonneg (mul_nonneg ht hs)
  rw [h3] at h2
  have := neg_le_of_abs_le h2
  linarith

/-- pairing of two second-order cone members given by index lists of equal length -/
theorem socMem_pairing (u v : ℕ → K) (q b : List ℕ) (hlen : q.length = b.length)
    (hu : socMem u q) (hv : socMem v b) :
    0 ≤ ∑ p ∈ range q.length, u (q.getD p 0) * v (b.getD p 0) := by
  cases q with
  | nil => simp
  | cons h T =>
    cases b with
    | nil => simp at hlen
    | cons h' T' =>
      simp only [List.length_cons, Nat.add_right_cancel_iff] at hlen
      obtain ⟨hu0, hu1⟩ := hu
      obtain ⟨hv0, hv1⟩ := hv
      rw [sum_map_eq_range] at hu1 hv1
      rw [List.length_cons, Finset.sum_range_succ']
      simp only [List.getD_cons_succ, List.getD_cons_zero]
      have := soc_pairing T.length (fun p => u (T.getD p 0)) (fun p => v (T'.getD p 0)) (u h) (v h')
        hu0 hv0 hu1 (by rw [hlen]; exact hv1)
      linarith

/-! ### The LP layer with slack in the dual rows -/

namespace LinProg

/-- the sign-normalised primal point: `do_math` substitutes `x ↦ -x` on columns whose upper
bound is zero (`isNeg`) -/
def sx (P : LinProg K) (x : ℕ → K) (j : ℕ) : K := if P.isNeg j then - x j else x j

lemma isNeg_le_zero (P : LinProg K) (x : ℕ → K) (hx : P.Feas x) (j : ℕ) (hj : j < P.nc)
    (hn : P.isNeg j = true) : x j ≤ 0 := by
  have hub := hx.ubs j hj
  simp only [isNeg] at hn
  cases hu : P.ub j with
  | none => simp [hu] at hn
  | some u =>
    have hu0 : u = 0 := by simpa [hu] using hn
    have : x j ≤ u := by simpa [leUb, hu] using hub
    linarith

/-- Weak duality with slack: if `y` satisfies the bounds of the LP dual and its rows with
right-hand side lowered by `τ`, the dual value is below the primal value by at least `τ · sx x`. -/
theorem dual_weak_slack (P : LinProg K) (x y τ : ℕ → K) (hx : P.Feas x)
    (hub : ∀ i < P.augNr, leUb (y i) (P.dual.ub i))
    (hrow : ∀ j < P.nc, if P.dual.eq j then P.dual.row j y = P.dual.b j - τ j
                        else P.dual.row j y ≤ P.dual.b j - τ j) :
    ∑ i ∈ range P.augNr, P.augB i * y i ≤ P.obj x - ∑ j ∈ range P.nc, τ j * P.sx x j := by
  set t : ℕ → K := fun j => if P.isNeg j then - τ j else τ j with ht
  set P' : LinProg K := { P with c := fun j => P.c j - t j } with hP'
  have hx' : P'.Feas x := ⟨hx.rows, hx.ubs, hx.lbs⟩
  have hy' : P'.dual.Feas y := by
    refine ⟨?_, hub, ?_⟩
    · intro j hj
      have := hrow j hj
      have hb : P'.dual.b j = P.dual.b j - τ j := by
        show (if P.isNeg j then - (P.c j - t j) else P.c j - t j) = (if P.isNeg j then - P.c j else P.c j) - τ j
        simp only [ht]
        split_ifs <;> ring
      rw [hb]
      exact this
    · intro i _; trivial
  have := dual_weak P' x y hx' hy'
  have hobj : P'.obj x = P.obj x - ∑ j ∈ range P.nc, τ j * P.sx x j := by
    show ∑ j ∈ range P.nc, (P.c j - t j) * x j = ∑ j ∈ range P.nc, P.c j * x j - _
    rw [← Finset.sum_sub_distrib]
    apply Finset.sum_congr rfl
    intro j _
    simp only [ht, sx]
    split_ifs <;> ring
  rw [hobj] at this
  exact this

end LinProg

lemma socMem_sx (P : LinProg K) (x : ℕ → K) (hx : P.Feas x) (q : List ℕ)
    (hq : ∀ j ∈ q, j < P.nc) (h : socMem x q) : socMem (P.sx x) q := by
  cases q with
  | nil => trivial
  | cons a T =>
    obtain ⟨h0, h1⟩ := h
    have hsq : ∀ j, P.sx x j ^ 2 = x j ^ 2 := by
      intro j; simp only [LinProg.sx]; split_ifs <;> ring
    have ha : 0 ≤ P.sx x a := by
      simp only [LinProg.sx]
      split_ifs with hn
      · have := P.isNeg_le_zero x hx a (hq a (by simp)) hn
        linarith
      · exact h0
    refine ⟨ha, ?_⟩
    simp only [hsq]
    exact h1

/-! ### Slack-certified weak duality and the general SOC layout -/

namespace ConeProg

/-- feasibility of a (dual) conic program with the right-hand side of row `r` lowered by `σ r` -/
structure FeasSlack (S : ConeProg K) (E : K → K → K → Prop) (σ w : ℕ → K) : Prop where
  rows : ∀ r < S.lp.nr, if S.lp.eq r then S.lp.row r w = S.lp.b r - σ r
                         else S.lp.row r w ≤ S.lp.b r - σ r
  ubs  : ∀ i < S.lp.nc, LinProg.leUb (w i) (S.lp.ub i)
  lbs  : ∀ i < S.lp.nc, LinProg.geLb (w i) (S.lp.lb i)
  soc  : ∀ q ∈ S.qmat, socMem w q
  exp  : ∀ e ∈ S.xmat, E (w (e.getD 0 0)) (w (e.getD 1 0)) (w (e.getD 2 0))

lemma Feas.toSlack {S : ConeProg K} {E : K → K → K → Prop} {w : ℕ → K} (h : S.Feas E w) :
    S.FeasSlack E (fun _ => 0) w :=
  ⟨by simpa using h.lin.rows, h.lin.ubs, h.lin.lbs, h.soc, h.exp⟩

/-- `S` is a weak dual of `P` *with row slack*: whenever `w` satisfies the cones and bounds of `S`
and its rows with right-hand side lowered by `σ`, the dual value `- S.lp.obj w` is below the primal
value by at least the slack paired with the (sign-normalised) primal point.  `rowOf j` is the
row of `S` that carries primal column `j` (out of range if that row was eliminated).
With `σ = 0` this is weak duality; a block of extra dual columns (the exponential block) is
absorbed by taking `σ` to be the contribution of the extra columns to each row. -/
def WeakSlack (P S : ConeProg K) (E : K → K → K → Prop) (rowOf : ℕ → ℕ) : Prop :=
  ∀ x w σ : ℕ → K, P.Feas E x → S.FeasSlack E σ w →
    - S.lp.obj w ≤ P.lp.obj x -
      ∑ j ∈ range P.lp.nc, (if rowOf j < S.lp.nr then σ (rowOf j) * P.lp.sx x j else 0)

theorem WeakSlack.weak {P S : ConeProg K} {E : K → K → K → Prop} {rowOf : ℕ → ℕ}
    (h : WeakSlack P S E rowOf) (x w : ℕ → K) (hx : P.Feas E x) (hw : S.Feas E w) :
    - S.lp.obj w ≤ P.lp.obj x := by
  have := h x w (fun _ => 0) hx hw.toSlack
  simpa using this

lemma getD_mem' (l : List ℕ) (p : ℕ) (hp : p < l.length) (d : ℕ) : l.getD p d ∈ l := by
  rw [List.getD_eq_getElem _ _ hp]; exact List.getElem_mem hp

lemma getD_irrel (l : List ℕ) (k : ℕ) (hk : k < l.length) (d d' : ℕ) : l.getD k d = l.getD k d' := by
  rw [List.getD_eq_getElem _ _ hk, List.getD_eq_getElem _ _ hk]

/-- the pairing of the primal cone vectors with the dual block columns is non-negative -/
lemma blocks_pairing (u v : ℕ → K) (d : ℕ) : ∀ (qs : List (List ℕ)) (o : ℕ),
    (∀ q ∈ qs, socMem u q) → (∀ b ∈ qBlocks qs o, socMem v b) →
    0 ≤ ∑ k ∈ range qs.flatten.length, v (o + k) * u (qs.flatten.getD k d) := by
  intro qs
  induction qs with
  | nil => intro o _ _; simp
  | cons q qs ih =>
    intro o hu hv
    rw [List.flatten_cons, List.length_append, Finset.sum_range_add]
    have h1 : ∑ k ∈ range q.length, v (o + k) * u ((q ++ qs.flatten).getD k d)
        = ∑ p ∈ range q.length, u (q.getD p 0) * v (((List.range q.length).map (· + o)).getD p 0) := by
      apply Finset.sum_congr rfl
      intro k hk
      have hk' : k < q.length := Finset.mem_range.mp hk
      have hbk : ((List.range q.length).map (· + o)).getD k 0 = k + o := by
        rw [List.getD_eq_getElem _ _ (by simpa using hk')]; simp
      rw [List.getD_append _ _ _ _ hk', getD_irrel q k hk' d 0, hbk, mul_comm, add_comm]
    have h2 : ∑ k ∈ range qs.flatten.length, v (o + (q.length + k)) * u ((q ++ qs.flatten).getD (q.length + k) d)
        = ∑ k ∈ range qs.flatten.length, v (o + q.length + k) * u (qs.flatten.getD k d) := by
      apply Finset.sum_congr rfl
      intro k _
      rw [List.getD_append_right _ _ _ _ (by omega)]
      simp [add_assoc]
    rw [h1, h2]
    have hb : ∀ b ∈ qBlocks qs (o + q.length), socMem v b := by
      intro b hb; apply hv; simp [qBlocks, hb]
    have hq := socMem_pairing u v q ((List.range q.length).map (· + o)) (by simp)
      (hu q (by simp)) (hv _ (by simp [qBlocks]))
    have := ih (o + q.length) (fun q' hq' => hu q' (by simp [hq'])) hb
    linarith

/-- no second-order cones: the SOC layer is the LP dual -/
theorem lpDual_weakSlack (P : ConeProg K) (E : K → K → K → Prop) (st : ℕ → ℕ → Bool) :
    WeakSlack P { lp := P.lp.dual, st := st, qmat := [], xmat := [] } E id := by
  intro x w σ hx hw
  have h := LinProg.dual_weak_slack P.lp x w σ hx.lin hw.ubs hw.rows
  have hobj : - (P.lp.dual).obj w = ∑ i ∈ range P.lp.augNr, P.lp.augB i * w i := by
    simp only [LinProg.obj, LinProg.dual]
    rw [← Finset.sum_neg_distrib]
    apply Finset.sum_congr rfl; intro i _; ring
  have hsum : ∑ j ∈ range P.lp.nc, (if id j < P.lp.dual.nr then σ (id j) * P.lp.sx x j else 0)
      = ∑ j ∈ range P.lp.nc, σ j * P.lp.sx x j := by
    apply Finset.sum_congr rfl; intro j hj
    have : j < P.lp.dual.nr := Finset.mem_range.mp hj
    simp [this]
  show - (P.lp.dual).obj w ≤ _ - ∑ j ∈ range P.lp.nc, (if id j < P.lp.dual.nr then σ (id j) * P.lp.sx x j else 0)
  rw [hobj, hsum]
  exact h

/-- Weak duality (with row slack) of the general SOC layout `socDual2`. -/
theorem socDual2_weakSlack (P : ConeProg K) (E : K → K → K → Prop) (hwf : P.WF) :
    WeakSlack P P.socDual2 E id := by
  intro x w σ hx hw
  set τ' : ℕ → K := fun j =>
    ∑ k ∈ range P.eye.length, (if P.eye.getD k P.lp.nc = j ∧ k < P.eye.length then (1:K) else 0)
      * w (P.lp.dual.nc + k) with hτ'
  have hrow_split : ∀ j, P.socDual2.lp.row j w = P.lp.dual.row j w + τ' j := by
    intro j
    simp only [socDual2, LinProg.row, hτ']
    rw [Finset.sum_range_add]
    congr 1
    · apply Finset.sum_congr rfl; intro i hi
      have : i < P.lp.dual.nc := Finset.mem_range.mp hi
      simp [this]
    · apply Finset.sum_congr rfl; intro k hk
      simp
  have hub : ∀ i < P.lp.augNr, LinProg.leUb (w i) (P.lp.dual.ub i) := by
    intro i hi
    have hi' : i < P.lp.dual.nc := hi
    have := hw.ubs i (by simp only [socDual2]; omega)
    simpa only [socDual2, hi', if_true] using this
  have hrow : ∀ j < P.lp.nc, if P.lp.dual.eq j then P.lp.dual.row j w = P.lp.dual.b j - (σ j + τ' j)
      else P.lp.dual.row j w ≤ P.lp.dual.b j - (σ j + τ' j) := by
    intro j hj
    have := hw.rows j hj
    rw [hrow_split] at this
    have heq : P.socDual2.lp.eq j = P.lp.dual.eq j := rfl
    have hb : P.socDual2.lp.b j = P.lp.dual.b j := rfl
    rw [heq, hb] at this
    split_ifs at this ⊢ with hh
    · linarith
    · linarith
  have h := LinProg.dual_weak_slack P.lp x w (fun j => σ j + τ' j) hx.lin hub hrow
  have hobj : - P.socDual2.lp.obj w = ∑ i ∈ range P.lp.augNr, P.lp.augB i * w i := by
    simp only [socDual2, LinProg.obj]
    rw [Finset.sum_range_add]
    have h0 : ∑ x ∈ range P.eye.length,
        (if P.lp.dual.nc + x < P.lp.dual.nc then P.lp.dual.c (P.lp.dual.nc + x) else 0) * w (P.lp.dual.nc + x) = 0 := by
      apply Finset.sum_eq_zero; intro k _; simp
    rw [h0, add_zero, ← Finset.sum_neg_distrib]
    apply Finset.sum_congr rfl; intro i hi
    have : i < P.lp.dual.nc := Finset.mem_range.mp hi
    simp only [this, if_true]
    simp only [LinProg.dual]; ring
  -- the slack paired with the primal point
  have hpair : ∑ j ∈ range P.lp.nc, τ' j * P.lp.sx x j
      = ∑ k ∈ range P.eye.length, w (P.lp.dual.nc + k) * P.lp.sx x (P.eye.getD k P.lp.nc) := by
    simp only [hτ', Finset.sum_mul]
    rw [Finset.sum_comm]
    apply Finset.sum_congr rfl; intro k hk
    have hk' : k < P.eye.length := Finset.mem_range.mp hk
    have hmem : P.eye.getD k P.lp.nc ∈ P.eye := by
      rw [List.getD_eq_getElem _ _ hk']; exact List.getElem_mem hk'
    have hlt : P.eye.getD k P.lp.nc < P.lp.nc := by
      rw [eye, List.mem_flatten] at hmem
      obtain ⟨q, hq, hjq⟩ := hmem
      exact hwf.qlt q hq _ hjq
    rw [Finset.sum_eq_single (P.eye.getD k P.lp.nc)]
    · simp only [hk', and_self, if_true, one_mul]
    · intro j _ hj; simp only [Ne.symm hj, false_and, if_false, zero_mul]
    · intro hn; exact absurd (Finset.mem_range.mpr hlt) hn
  have hnonneg : 0 ≤ ∑ k ∈ range P.eye.length,
      w (P.lp.dual.nc + k) * P.lp.sx x (P.eye.getD k P.lp.nc) := by
    apply blocks_pairing (P.lp.sx x) w P.lp.nc P.qmat P.lp.dual.nc
    · intro q hq
      exact socMem_sx P.lp x hx.lin q (hwf.qlt q hq) (hx.soc q hq)
    · intro b hb
      exact hw.soc b hb
  have hsum : ∑ j ∈ range P.lp.nc, (if id j < P.socDual2.lp.nr then σ (id j) * P.lp.sx x j else 0)
      = ∑ j ∈ range P.lp.nc, σ j * P.lp.sx x j := by
    apply Finset.sum_congr rfl; intro j hj
    have : j < P.socDual2.lp.nr := Finset.mem_range.mp hj
    simp only [id, this, if_true]
  rw [hobj, hsum]
  have hsplit : ∑ j ∈ range P.lp.nc, (σ j + τ' j) * P.lp.sx x j
      = ∑ j ∈ range P.lp.nc, σ j * P.lp.sx x j + ∑ j ∈ range P.lp.nc, τ' j * P.lp.sx x j := by
    rw [← Finset.sum_add_distrib]; apply Finset.sum_congr rfl; intro j _; ring
  rw [hsplit, hpair] at h
  linarith

/-- Weak duality of the general SOC layout `socDual2` (`socp.Model.do_math`, layout 2). -/
theorem socDual2_weak (P : ConeProg K) (E : K → K → K → Prop) (hwf : P.WF)
    (x w : ℕ → K) (hx : P.Feas E x) (hw : P.socDual2.Feas E w) :
    - P.socDual2.lp.obj w ≤ P.lp.obj x :=
  (socDual2_weakSlack P E hwf).weak x w hx hw

/-! ### The compact SOC layout -/

lemma ite_ne_zero' {c : Prop} [Decidable c] {a : K} (h : (if c then a else 0) ≠ 0) : c := by
  by_contra hc; simp [hc] at h

/-- every non-zero of the augmented primal matrix is a stored entry -/
lemma augA_ne_zero_augSt (P : ConeProg K) (hwf : P.WF) (i j : ℕ) (h : P.lp.augA i j ≠ 0) :
    P.augSt i j = true := by
  by_cases h1 : i < P.lp.nr
  · simp only [LinProg.augA, h1, if_true] at h
    simp only [augSt, h1, if_true]
    exact hwf.stcov i j h
  by_cases h2 : i < P.lp.nr + P.lp.idxUb.length
  · simp only [LinProg.augA, h1, h2, if_true, if_false] at h
    simp only [augSt, h1, h2, if_true, if_false]
    exact decide_eq_true (ite_ne_zero' h)
  by_cases h3 : i < P.lp.nr + P.lp.idxUb.length + P.lp.idxLb.length
  · simp only [LinProg.augA, h1, h2, h3, if_true, if_false] at h
    simp only [augSt, h1, h2, h3, if_true, if_false]
    exact decide_eq_true (ite_ne_zero' h)
  · simp only [LinProg.augA, h1, h2, h3, if_false] at h
    simp only [augSt, h1, h2, h3, if_false]
    exact decide_eq_true (ite_ne_zero' h)

lemma dual_a_eq_zero (P : ConeProg K) (hwf : P.WF) (j i0 : ℕ) (hrs : P.rowStored j = [i0])
    (i : ℕ) (hi : i < P.lp.augNr) (hne : i ≠ i0) : P.lp.dual.a j i = 0 := by
  by_contra h
  have h' : P.lp.augA i j ≠ 0 := by
    intro h0; apply h; simp [LinProg.dual, h0]
  have hs := augA_ne_zero_augSt P hwf i j h'
  have hm : i ∈ P.rowStored j := by
    simp only [rowStored, List.mem_filter, List.mem_range]; exact ⟨hi, hs⟩
  rw [hrs] at hm
  exact hne (by simpa using hm)

lemma dual_row_single (P : ConeProg K) (hwf : P.WF) (j i0 : ℕ) (hrs : P.rowStored j = [i0])
    (y : ℕ → K) : P.lp.dual.row j y = P.lp.dual.a j i0 * y i0 := by
  have hi0 : i0 < P.lp.augNr := by
    have : i0 ∈ P.rowStored j := by rw [hrs]; simp
    simp only [rowStored, List.mem_filter, List.mem_range] at this
    exact this.1
  show ∑ i ∈ range P.lp.augNr, P.lp.dual.a j i * y i = _
  rw [Finset.sum_eq_single i0]
  · intro i hi hne
    rw [dual_a_eq_zero P hwf j i0 hrs i (Finset.mem_range.mp hi) hne, zero_mul]
  · intro hn; exact absurd (Finset.mem_range.mpr hi0) hn

lemma flatMap_single {α : Type} (g : ℕ → List α) (d : α) (l : List ℕ)
    (h : ∀ j ∈ l, (g j).length = 1) : l.flatMap g = l.map (fun j => (g j).headD d) := by
  induction l with
  | nil => simp
  | cons a l ih =>
    obtain ⟨v, hv⟩ := List.length_eq_one_iff.mp (h a (by simp))
    rw [List.flatMap_cons, List.map_cons, ih (fun j hj => h j (by simp [hj])), hv]
    simp

lemma sum_ite_mem_list (l : List ℕ) (hl : l.Nodup) (n : ℕ) (hn : ∀ j ∈ l, j < n) (f : ℕ → K) :
    ∑ j ∈ range n, (if j ∈ l then f j else 0) = (l.map f).sum := by
  rw [← List.sum_toFinset f hl]
  have : ∀ j, (j ∈ l) = (j ∈ l.toFinset) := by intro j; simp
  simp only [this]
  rw [Finset.sum_ite_mem]
  congr 1
  apply Finset.inter_eq_right.mpr
  intro j hj
  exact Finset.mem_range.mpr (hn j (by simpa using hj))

lemma sum_flatten_map_nonneg (f : ℕ → K) : ∀ (qs : List (List ℕ)),
    (∀ q ∈ qs, 0 ≤ (q.map f).sum) → 0 ≤ (qs.flatten.map f).sum := by
  intro qs
  induction qs with
  | nil => intro _; simp
  | cons q qs ih =>
    intro h
    rw [List.flatten_cons, List.map_append, List.sum_append]
    have h1 := h q (by simp)
    have h2 := ih (fun q' hq' => h q' (by simp [hq']))
    linarith

lemma mem_linIdx (P : ConeProg K) (j : ℕ) : j ∈ P.linIdx ↔ j < P.lp.nc ∧ j ∉ P.eye := by
  simp [linIdx]

/-- Weak duality (with row slack) of the compact SOC layout `socDual1`, under the conditions
`compactOk` that select it, and zero cost on cone columns. -/
theorem socDual1_weakSlack (P : ConeProg K) (E : K → K → K → Prop) (hwf : P.WF)
    (hok : P.compactOk = true) (hc : ∀ q ∈ P.qmat, ∀ j ∈ q, P.lp.c j = 0) :
    WeakSlack P P.socDual1 E (fun j => P.linIdx.idxOf j) := by
  simp only [compactOk, Bool.and_eq_true, List.all_eq_true, beq_iff_eq, decide_eq_true_eq] at hok
  obtain ⟨⟨⟨⟨h1, h2⟩, _⟩, h4⟩, h5⟩ := hok
  intro x w σ hx hw
  -- notation
  set iof : ℕ → ℕ := fun j => (P.rowStored j).headD 0 with hiof
  set y : ℕ → K := fun i => if P.headCols.contains i then - w i else w i with hy
  set τ : ℕ → K := fun j => if j ∈ P.eye then P.lp.dual.b j - P.lp.dual.row j y
    else σ (P.linIdx.idxOf j) with hτ
  have hrs : ∀ j ∈ P.eye, P.rowStored j = [iof j] := by
    intro j hj
    obtain ⟨v, hv⟩ := List.length_eq_one_iff.mp (h1 j hj)
    simp only [hiof, hv, List.headD_cons]
  have hmemeye : ∀ q ∈ P.qmat, ∀ j ∈ q, j ∈ P.eye := by
    intro q hq j hj; exact List.mem_flatten.mpr ⟨q, hq, hj⟩
  have heyelt : ∀ j ∈ P.eye, j < P.lp.nc := by
    intro j hj
    obtain ⟨q, hq, hjq⟩ := List.mem_flatten.mp hj
    exact hwf.qlt q hq j hjq
  -- bounds of the LP dual at `y`
  have hub : ∀ i < P.lp.augNr, LinProg.leUb (y i) (P.lp.dual.ub i) := by
    intro i hi
    have hu : LinProg.leUb (w i) (if P.headCols.contains i then
        (match P.lp.dual.lb i with | none => none | some l => some (-l)) else P.lp.dual.ub i) :=
      hw.ubs i hi
    have hl : LinProg.geLb (w i) (if P.headCols.contains i then some 0 else P.lp.dual.lb i) :=
      hw.lbs i hi
    by_cases hf : P.headCols.contains i = true
    · simp only [hf, if_true, LinProg.geLb] at hl
      have hyi : y i ≤ 0 := by simp only [hy, hf, if_true]; linarith
      show LinProg.leUb (y i) (if P.lp.augEq i then none else some 0)
      split_ifs
      · trivial
      · exact hyi
    · simp only [hf] at hu
      simp only [hy, hf]
      exact hu
  -- rows of the compact dual are rows of the LP dual at `y`
  have hrowS : ∀ r, P.socDual1.lp.row r w = P.lp.dual.row (P.linIdx.getD r 0) y := by
    intro r
    show ∑ i ∈ range P.lp.dual.nc, (if P.headCols.contains i then - P.lp.dual.a (P.linIdx.getD r 0) i
        else P.lp.dual.a (P.linIdx.getD r 0) i) * w i
      = ∑ i ∈ range P.lp.dual.nc, P.lp.dual.a (P.linIdx.getD r 0) i * y i
    apply Finset.sum_congr rfl; intro i _
    simp only [hy]
    split_ifs <;> ring
  have hidx : ∀ j, j < P.lp.nc → j ∉ P.eye →
      P.linIdx.idxOf j < P.linIdx.length ∧ P.linIdx.getD (P.linIdx.idxOf j) 0 = j := by
    intro j hj hje
    have hm : j ∈ P.linIdx := (mem_linIdx P j).mpr ⟨hj, hje⟩
    have hlt := List.idxOf_lt_length_iff.mpr hm
    refine ⟨hlt, ?_⟩
    rw [List.getD_eq_getElem _ _ hlt]
    exact List.getElem_idxOf hlt
  have hrow : ∀ j < P.lp.nc, if P.lp.dual.eq j then P.lp.dual.row j y = P.lp.dual.b j - τ j
      else P.lp.dual.row j y ≤ P.lp.dual.b j - τ j := by
    intro j hj
    by_cases hje : j ∈ P.eye
    · have : P.lp.dual.b j - τ j = P.lp.dual.row j y := by simp only [hτ, hje, if_true]; ring
      rw [this]
      split_ifs
      · rfl
      · exact le_refl _
    · obtain ⟨hlt, hget⟩ := hidx j hj hje
      have hr : if P.lp.dual.eq (P.linIdx.getD (P.linIdx.idxOf j) 0) then
          P.socDual1.lp.row (P.linIdx.idxOf j) w
            = P.lp.dual.b (P.linIdx.getD (P.linIdx.idxOf j) 0) - σ (P.linIdx.idxOf j)
          else P.socDual1.lp.row (P.linIdx.idxOf j) w
            ≤ P.lp.dual.b (P.linIdx.getD (P.linIdx.idxOf j) 0) - σ (P.linIdx.idxOf j) :=
        hw.rows (P.linIdx.idxOf j) hlt
      rw [hrowS, hget] at hr
      have : τ j = σ (P.linIdx.idxOf j) := by simp only [hτ, hje, if_false]
      rw [this]
      exact hr
  have h := LinProg.dual_weak_slack P.lp x y τ hx.lin hub hrow
  -- objective
  have hobj : - P.socDual1.lp.obj w = ∑ i ∈ range P.lp.augNr, P.lp.augB i * y i := by
    show - ∑ i ∈ range P.lp.dual.nc, (if P.headCols.contains i then - P.lp.dual.c i
        else P.lp.dual.c i) * w i = _
    rw [← Finset.sum_neg_distrib]
    apply Finset.sum_congr rfl; intro i _
    simp only [hy, LinProg.dual]
    split_ifs <;> ring
  -- the slack of the eliminated rows is in the second-order cone
  have hτeye : ∀ j ∈ P.eye, τ j = - (P.lp.dual.a j (iof j) * y (iof j)) := by
    intro j hj
    have hq : ∃ q ∈ P.qmat, j ∈ q := by
      obtain ⟨q, hq, hjq⟩ := List.mem_flatten.mp hj; exact ⟨q, hq, hjq⟩
    obtain ⟨q, hq, hjq⟩ := hq
    have hb : P.lp.dual.b j = 0 := by
      show (if P.lp.isNeg j then - P.lp.c j else P.lp.c j) = 0
      rw [hc q hq j hjq]; simp
    simp only [hτ, hj, if_true]
    rw [dual_row_single P hwf j (iof j) (hrs j hj), hb]; ring
  have hτsoc : ∀ q ∈ P.qmat, socMem τ q := by
    intro q hq
    cases q with
    | nil => trivial
    | cons a T =>
      have hwq : socMem w ((a :: T).flatMap P.rowStored) := by
        apply hw.soc
        show (a :: T).flatMap P.rowStored ∈ P.qmat.map (fun q => q.flatMap P.rowStored)
        exact List.mem_map_of_mem hq
      rw [flatMap_single P.rowStored 0 (a :: T) (fun j hj => h1 j (hmemeye _ hq j hj))] at hwq
      obtain ⟨hw0, hw1⟩ := hwq
      have ha1 : P.lp.dual.a a (iof a) = 1 := of_decide_eq_true (h5 _ hq)
      have haeye : a ∈ P.eye := hmemeye _ hq a (by simp)
      have hflip : P.headCols.contains (iof a) = true := by
        simp only [List.contains_iff_mem, headCols, List.mem_flatMap]
        refine ⟨a :: T, hq, ?_⟩
        simp only [hrs a haeye]; simp
      have hτa : τ a = w (iof a) := by
        rw [hτeye a haeye, ha1]
        simp only [hy, hflip, if_true]; ring
      refine ⟨by rw [hτa]; exact hw0, ?_⟩
      rw [hτa]
      have : T.map (fun j => τ j ^ 2) = (T.map iof).map (fun i => w i ^ 2) := by
        rw [List.map_map]
        apply List.map_congr_left
        intro j hj
        have hje : j ∈ P.eye := hmemeye _ hq j (by simp [hj])
        rw [hτeye j hje]
        simp only [hy, Function.comp]
        rcases h4 j hje with ha | ha <;> rw [ha] <;> split_ifs <;> ring
      rw [this]
      exact hw1
  -- pairing
  have hpair : 0 ≤ ∑ j ∈ range P.lp.nc, (if j ∈ P.eye then τ j * P.lp.sx x j else 0) := by
    rw [sum_ite_mem_list P.eye h2 P.lp.nc heyelt (fun j => τ j * P.lp.sx x j)]
    apply sum_flatten_map_nonneg
    intro q hq
    rw [sum_map_eq_range]
    exact socMem_pairing τ (P.lp.sx x) q q rfl (hτsoc q hq)
      (socMem_sx P.lp x hx.lin q (hwf.qlt q hq) (hx.soc q hq))
  have hsplit : ∑ j ∈ range P.lp.nc, τ j * P.lp.sx x j
      = ∑ j ∈ range P.lp.nc, (if P.linIdx.idxOf j < P.socDual1.lp.nr
            then σ (P.linIdx.idxOf j) * P.lp.sx x j else 0)
        + ∑ j ∈ range P.lp.nc, (if j ∈ P.eye then τ j * P.lp.sx x j else 0) := by
    rw [← Finset.sum_add_distrib]
    apply Finset.sum_congr rfl; intro j hj
    have hj' : j < P.lp.nc := Finset.mem_range.mp hj
    have hnr : P.socDual1.lp.nr = P.linIdx.length := rfl
    rw [hnr]
    by_cases hje : j ∈ P.eye
    · have : ¬ P.linIdx.idxOf j < P.linIdx.length := by
        rw [List.idxOf_lt_length_iff, mem_linIdx]; tauto
      simp only [this, hje, if_true, if_false, zero_add]
    · have := (hidx j hj' hje).1
      simp only [this, hje, if_true, if_false, add_zero, hτ]
  rw [hobj]
  rw [hsplit] at h
  linarith

/-- Weak duality of the compact SOC layout `socDual1` (`socp.Model.do_math`, layout 1). -/
theorem socDual1_weak (P : ConeProg K) (E : K → K → K → Prop) (hwf : P.WF)
    (hok : P.compactOk = true) (hc : ∀ q ∈ P.qmat, ∀ j ∈ q, P.lp.c j = 0)
    (x w : ℕ → K) (hx : P.Feas E x) (hw : P.socDual1.Feas E w) :
    - P.socDual1.lp.obj w ≤ P.lp.obj x :=
  (socDual1_weakSlack P E hwf hok hc).weak x w hx hw

/-! ### The SOC layer `socDual`, all branches -/

lemma socDual_xmat (P : ConeProg K) : P.socDual.xmat = [] := by
  unfold socDual; split_ifs <;> rfl

lemma socDual_nr (P : ConeProg K) :
    P.socDual.lp.nr = if P.rowsRemoved then P.linIdx.length else P.lp.nc := by
  unfold socDual rowsRemoved
  by_cases hq : P.qmat.isEmpty = true
  · simp only [hq, if_true, Bool.not_true, Bool.false_and]; rfl
  · by_cases hok : P.compactOk = true
    · simp only [hq, hok, if_true, if_false]; rfl
    · simp only [hq, hok, if_false]; rfl

/-- Weak duality (with row slack) of `socDual` = `socp.Model.do_math(primal=False)`, whichever
branch it takes.  Zero cost on cone columns is needed only in the compact branch. -/
theorem socDual_weakSlack (P : ConeProg K) (E : K → K → K → Prop) (hwf : P.WF)
    (hc : P.rowsRemoved = true → ∀ q ∈ P.qmat, ∀ j ∈ q, P.lp.c j = 0) :
    WeakSlack P P.socDual E P.dualRowOf := by
  by_cases hq : P.qmat.isEmpty = true
  · have h1 : P.dualRowOf = id := by
      funext j; simp [dualRowOf, rowsRemoved, hq]
    have h2 : P.socDual = { lp := P.lp.dual, st := fun j i => P.augSt i j, qmat := [], xmat := [] } := by
      unfold socDual; rw [if_pos hq]
    rw [h1, h2]
    exact lpDual_weakSlack P E _
  · by_cases hok : P.compactOk = true
    · have hrr : P.rowsRemoved = true := by simp [rowsRemoved, hq, hok]
      have h1 : P.dualRowOf = fun j => P.linIdx.idxOf j := by
        funext j; simp [dualRowOf, hrr]
      have h2 : P.socDual = P.socDual1 := by
        unfold socDual; rw [if_neg hq, if_pos hok]
      rw [h1, h2]
      exact socDual1_weakSlack P E hwf hok (hc hrr)
    · have hrr : P.rowsRemoved = false := by simp [rowsRemoved, hok]
      have h1 : P.dualRowOf = id := by
        funext j; simp [dualRowOf, hrr]
      have h2 : P.socDual = P.socDual2 := by
        unfold socDual; rw [if_neg hq, if_neg hok]
      rw [h1, h2]
      exact socDual2_weakSlack P E hwf

lemma dualRowOf_inj (P : ConeProg K) (j j' : ℕ) (h : P.dualRowOf j < P.socDual.lp.nr)
    (h' : P.dualRowOf j = P.dualRowOf j') : j = j' := by
  rw [socDual_nr] at h
  by_cases hrr : P.rowsRemoved = true
  · simp only [dualRowOf, hrr, if_true] at h h'
    have h2 : P.linIdx.idxOf j' < P.linIdx.length := h' ▸ h
    have e1 := List.getElem_idxOf h
    have e2 := List.getElem_idxOf h2
    rw [← e1, ← e2]
    simp only [h']
  · simp only [dualRowOf, hrr] at h'
    exact h'

lemma dualRowOf_lt (P : ConeProg K) (hwf : P.WF)
    (hxq : P.rowsRemoved = true → ∀ e ∈ P.xmat, ∀ j ∈ e, j ∉ P.eye)
    (e : List ℕ) (he : e ∈ P.xmat) (j : ℕ) (hj : j ∈ e) : P.dualRowOf j < P.socDual.lp.nr := by
  rw [socDual_nr]
  have hlt := hwf.xlt e he j hj
  by_cases hrr : P.rowsRemoved = true
  · simp only [dualRowOf, hrr, if_true]
    rw [List.idxOf_lt_length_iff, mem_linIdx]
    exact ⟨hlt, hxq hrr e he j hj⟩
  · simp only [dualRowOf, hrr]
    exact hlt

/-! ### The exponential-cone block -/

/-- dual row carrying the `p`-th column of the `k`-th exponential cone -/
def exRow (P : ConeProg K) (k p : ℕ) : ℕ := P.dualRowOf ((P.xmat.getD k []).getD p 0)

/-- the coefficient block of the exponential cones (`blk` in `coneDual`) -/
def expBlk (P : ConeProg K) (r i : ℕ) : K :=
  (if i % 3 = 2 ∧ r = P.exRow (i / 3) 0 then -1 else 0) +
  (if i % 3 = 1 ∧ r = P.exRow (i / 3) 1 then 1 else 0) +
  (if i % 3 = 0 ∧ r = P.exRow (i / 3) 2 then -1 else 0) +
  (if i % 3 = 2 ∧ r = P.exRow (i / 3) 2 then -1 else 0)

lemma coneDual_of_xmat (P : ConeProg K) (h : ¬ P.xmat.isEmpty = true) :
    P.coneDual =
      { lp := { nr := P.socDual.lp.nr
                nc := P.socDual.lp.nc + 3 * P.xmat.length
                a := fun r i => if i < P.socDual.lp.nc then P.socDual.lp.a r i
                  else (if i < P.socDual.lp.nc + 3 * P.xmat.length
                    then P.expBlk r (i - P.socDual.lp.nc) else 0)
                b := P.socDual.lp.b
                eq := P.socDual.lp.eq
                ub := fun i => if i < P.socDual.lp.nc then P.socDual.lp.ub i else none
                lb := fun i => if i < P.socDual.lp.nc then P.socDual.lp.lb i else none
                c := fun i => if i < P.socDual.lp.nc then P.socDual.lp.c i else 0 }
        st := fun r i => if i < P.socDual.lp.nc then P.socDual.st r i
          else decide (P.expBlk r (i - P.socDual.lp.nc) ≠ 0)
        qmat := P.socDual.qmat
        xmat := (List.range P.xmat.length).map fun k =>
          [P.socDual.lp.nc + 3 * k, P.socDual.lp.nc + 3 * k + 1, P.socDual.lp.nc + 3 * k + 2] } := by
  unfold coneDual
  rw [if_neg h]
  rfl

lemma expBlk_0 (P : ConeProg K) (r k : ℕ) :
    P.expBlk r (3 * k) = if r = P.exRow k 2 then -1 else 0 := by
  have h1 : (3 * k) % 3 = 0 := by omega
  have h2 : (3 * k) / 3 = k := by omega
  simp [expBlk, h1, h2]

lemma expBlk_1 (P : ConeProg K) (r k : ℕ) :
    P.expBlk r (3 * k + 1) = if r = P.exRow k 1 then 1 else 0 := by
  have h1 : (3 * k + 1) % 3 = 1 := by omega
  have h2 : (3 * k + 1) / 3 = k := by omega
  simp [expBlk, h1, h2]

lemma expBlk_2 (P : ConeProg K) (r k : ℕ) :
    P.expBlk r (3 * k + 2) = (if r = P.exRow k 0 then -1 else 0) + (if r = P.exRow k 2 then -1 else 0) := by
  have h1 : (3 * k + 2) % 3 = 2 := by omega
  have h2 : (3 * k + 2) / 3 = k := by omega
  simp [expBlk, h1, h2]

lemma sum_range_three (g : ℕ → K) (m : ℕ) :
    ∑ i ∈ range (3 * m), g i = ∑ k ∈ range m, (g (3 * k) + g (3 * k + 1) + g (3 * k + 2)) := by
  induction m with
  | zero => simp
  | succ m ih =>
    rw [show 3 * (m + 1) = 3 * m + 1 + 1 + 1 by ring, Finset.sum_range_succ, Finset.sum_range_succ,
      Finset.sum_range_succ, ih, Finset.sum_range_succ]
    ring

lemma sum_rowOf_single (ρ : ℕ → ℕ) (nr nc : ℕ) (hinj : ∀ j j', ρ j < nr → ρ j = ρ j' → j = j')
    (v : ℕ → K) (e : ℕ) (he : e < nc) (hρ : ρ e < nr) (c : K) :
    ∑ j ∈ range nc, (if ρ j < nr then (if ρ j = ρ e then c else 0) * v j else 0) = c * v e := by
  rw [Finset.sum_eq_single e]
  · simp [hρ]
  · intro j _ hne
    by_cases h1 : ρ j < nr
    · have : ¬ ρ j = ρ e := fun h => hne (hinj j e h1 h)
      simp [this]
    · simp [h1]
  · intro hn; exact absurd (Finset.mem_range.mpr he) hn

lemma exp_inner (ρ : ℕ → ℕ) (nr nc : ℕ) (hinj : ∀ j j', ρ j < nr → ρ j = ρ j' → j = j')
    (v : ℕ → K) (e0 e1 e2 : ℕ) (h0 : e0 < nc) (h1 : e1 < nc) (h2 : e2 < nc)
    (r0 : ρ e0 < nr) (r1 : ρ e1 < nr) (r2 : ρ e2 < nr) (u0 u1 u2 : K) :
    ∑ j ∈ range nc, (if ρ j < nr then
        ((if ρ j = ρ e2 then -1 else 0) * u0 + (if ρ j = ρ e1 then 1 else 0) * u1 +
          ((if ρ j = ρ e0 then -1 else 0) + (if ρ j = ρ e2 then -1 else 0)) * u2) * v j else 0)
      = - u2 * v e0 + u1 * v e1 - (u0 + u2) * v e2 := by
  have e : ∀ j, (if ρ j < nr then
        ((if ρ j = ρ e2 then -1 else 0) * u0 + (if ρ j = ρ e1 then 1 else 0) * u1 +
          ((if ρ j = ρ e0 then -1 else 0) + (if ρ j = ρ e2 then -1 else 0)) * u2) * v j else 0)
      = (if ρ j < nr then (if ρ j = ρ e2 then -u0 else 0) * v j else 0)
        + (if ρ j < nr then (if ρ j = ρ e1 then u1 else 0) * v j else 0)
        + (if ρ j < nr then (if ρ j = ρ e0 then -u2 else 0) * v j else 0)
        + (if ρ j < nr then (if ρ j = ρ e2 then -u2 else 0) * v j else 0) := by
    intro j
    split_ifs <;> ring
  simp only [e]
  rw [Finset.sum_add_distrib, Finset.sum_add_distrib, Finset.sum_add_distrib,
    sum_rowOf_single ρ nr nc hinj v e2 h2 r2, sum_rowOf_single ρ nr nc hinj v e1 h1 r1,
    sum_rowOf_single ρ nr nc hinj v e0 h0 r0, sum_rowOf_single ρ nr nc hinj v e2 h2 r2]
  ring

/-- The exponential block of `gcp.Model.do_math(primal=False)`: if the SOC layer `socDual` is a
weak dual with row slack (`WeakSlack`, provided by `socDual_weakSlack`), then `coneDual` is a weak
dual.  Added hypothesis `hxq` (true by construction: exponential cones and second-order cones
live on disjoint auxiliary columns): in the compact layout, where the dual rows of SOC columns are
eliminated, no exponential-cone column is a SOC column. -/
theorem expBlock_weak (P : ConeProg K) (E : K → K → K → Prop) (hE : ExpPair E) (hwf : P.WF)
    (hxq : P.rowsRemoved = true → ∀ e ∈ P.xmat, ∀ j ∈ e, j ∉ P.eye)
    (hS : WeakSlack P P.socDual E P.dualRowOf)
    (x w : ℕ → K) (hx : P.Feas E x) (hw : P.coneDual.Feas E w) :
    - P.coneDual.lp.obj w ≤ P.lp.obj x := by
  by_cases hxm : P.xmat.isEmpty = true
  · have hcd : P.coneDual = P.socDual := by unfold coneDual; rw [if_pos hxm]
    rw [hcd] at hw ⊢
    exact hS.weak x w hx hw
  rw [coneDual_of_xmat P hxm] at hw ⊢
  obtain ⟨⟨hrows, hubs, hlbs⟩, hsoc, hexp⟩ := hw
  -- the contribution of the block columns to each row
  set σ : ℕ → K := fun r => ∑ i ∈ range (3 * P.xmat.length), P.expBlk r i * w (P.socDual.lp.nc + i) with hσ
  have hslack : P.socDual.FeasSlack E σ w := by
    refine ⟨?_, ?_, ?_, hsoc, ?_⟩
    · intro r hr
      have h := hrows r hr
      have hsplit : ∑ i ∈ range (P.socDual.lp.nc + 3 * P.xmat.length),
          (if i < P.socDual.lp.nc then P.socDual.lp.a r i
            else (if i < P.socDual.lp.nc + 3 * P.xmat.length
              then P.expBlk r (i - P.socDual.lp.nc) else 0)) * w i
          = P.socDual.lp.row r w + σ r := by
        rw [Finset.sum_range_add]
        congr 1
        · apply Finset.sum_congr rfl; intro i hi
          have : i < P.socDual.lp.nc := Finset.mem_range.mp hi
          simp only [this, if_true]
        · apply Finset.sum_congr rfl; intro i hi
          have : i < 3 * P.xmat.length := Finset.mem_range.mp hi
          have h1 : ¬ P.socDual.lp.nc + i < P.socDual.lp.nc := by omega
          have h2 : P.socDual.lp.nc + i < P.socDual.lp.nc + 3 * P.xmat.length := by omega
          simp only [h1, h2, if_true, if_false, Nat.add_sub_cancel_left]
      have h' : if P.socDual.lp.eq r then P.socDual.lp.row r w + σ r = P.socDual.lp.b r
          else P.socDual.lp.row r w + σ r ≤ P.socDual.lp.b r := by
        rw [← hsplit]; exact h
      split_ifs at h' ⊢
      · linarith
      · linarith
    · intro i hi
      have h := hubs i (show i < P.socDual.lp.nc + 3 * P.xmat.length by omega)
      simpa only [hi, if_true] using h
    · intro i hi
      have h := hlbs i (show i < P.socDual.lp.nc + 3 * P.xmat.length by omega)
      simpa only [hi, if_true] using h
    · intro e he; rw [socDual_xmat] at he; simp at he
  have hmain := hS x w σ hx hslack
  have hobj : ∑ i ∈ range (P.socDual.lp.nc + 3 * P.xmat.length),
      (if i < P.socDual.lp.nc then P.socDual.lp.c i else 0) * w i = P.socDual.lp.obj w := by
    rw [Finset.sum_range_add]
    have h0 : ∑ i ∈ range (3 * P.xmat.length),
        (if P.socDual.lp.nc + i < P.socDual.lp.nc then P.socDual.lp.c (P.socDual.lp.nc + i) else 0)
          * w (P.socDual.lp.nc + i) = 0 := by
      apply Finset.sum_eq_zero; intro i _
      have : ¬ P.socDual.lp.nc + i < P.socDual.lp.nc := by omega
      simp only [this, if_false, zero_mul]
    rw [h0, add_zero]
    apply Finset.sum_congr rfl; intro i hi
    have : i < P.socDual.lp.nc := Finset.mem_range.mp hi
    simp only [this, if_true]
  show - (∑ i ∈ range (P.socDual.lp.nc + 3 * P.xmat.length),
      (if i < P.socDual.lp.nc then P.socDual.lp.c i else 0) * w i) ≤ P.lp.obj x
  rw [hobj]
  -- the slack pairs non-negatively with the primal point
  suffices hnn : 0 ≤ ∑ j ∈ range P.lp.nc,
      (if P.dualRowOf j < P.socDual.lp.nr then σ (P.dualRowOf j) * P.lp.sx x j else 0) by linarith
  have hσ3 : ∀ r, σ r = ∑ k ∈ range P.xmat.length,
      ((if r = P.exRow k 2 then -1 else 0) * w (P.socDual.lp.nc + 3 * k)
        + (if r = P.exRow k 1 then 1 else 0) * w (P.socDual.lp.nc + 3 * k + 1)
        + ((if r = P.exRow k 0 then -1 else 0) + (if r = P.exRow k 2 then -1 else 0))
            * w (P.socDual.lp.nc + 3 * k + 2)) := by
    intro r
    simp only [hσ]
    rw [sum_range_three]
    apply Finset.sum_congr rfl; intro k _
    rw [expBlk_0, expBlk_1, expBlk_2]
    simp only [← add_assoc]
  have hswap : ∑ j ∈ range P.lp.nc,
      (if P.dualRowOf j < P.socDual.lp.nr then σ (P.dualRowOf j) * P.lp.sx x j else 0)
      = ∑ k ∈ range P.xmat.length, ∑ j ∈ range P.lp.nc,
        (if P.dualRowOf j < P.socDual.lp.nr then
          ((if P.dualRowOf j = P.exRow k 2 then -1 else 0) * w (P.socDual.lp.nc + 3 * k)
          + (if P.dualRowOf j = P.exRow k 1 then 1 else 0) * w (P.socDual.lp.nc + 3 * k + 1)
          + ((if P.dualRowOf j = P.exRow k 0 then -1 else 0) + (if P.dualRowOf j = P.exRow k 2 then -1 else 0))
              * w (P.socDual.lp.nc + 3 * k + 2)) * P.lp.sx x j else 0) := by
    rw [Finset.sum_comm]
    apply Finset.sum_congr rfl; intro j _
    rw [hσ3]
    split_ifs
    · rw [Finset.sum_mul]
    · simp
  rw [hswap]
  apply Finset.sum_nonneg
  intro k hk
  have hk' : k < P.xmat.length := Finset.mem_range.mp hk
  -- the k-th exponential cone of the primal
  have hemem : P.xmat.getD k [] ∈ P.xmat := by
    rw [List.getD_eq_getElem _ _ hk']; exact List.getElem_mem hk'
  have hlen := hwf.xlen _ hemem
  have hpm : ∀ p < 3, (P.xmat.getD k []).getD p 0 ∈ P.xmat.getD k [] := by
    intro p hp
    exact getD_mem' _ p (by omega) 0
  have hlt : ∀ p < 3, (P.xmat.getD k []).getD p 0 < P.lp.nc :=
    fun p hp => hwf.xlt _ hemem _ (hpm p hp)
  have hrl : ∀ p < 3, P.dualRowOf ((P.xmat.getD k []).getD p 0) < P.socDual.lp.nr :=
    fun p hp => dualRowOf_lt P hwf hxq _ hemem _ (hpm p hp)
  have hsx : ∀ p < 3, P.lp.sx x ((P.xmat.getD k []).getD p 0) = x ((P.xmat.getD k []).getD p 0) := by
    intro p hp
    have := hwf.xnotneg _ hemem _ (hpm p hp)
    simp only [LinProg.sx, this]; simp
  have hin := exp_inner P.dualRowOf P.socDual.lp.nr P.lp.nc (dualRowOf_inj P) (P.lp.sx x)
    ((P.xmat.getD k []).getD 0 0) ((P.xmat.getD k []).getD 1 0) ((P.xmat.getD k []).getD 2 0)
    (hlt 0 (by omega)) (hlt 1 (by omega)) (hlt 2 (by omega))
    (hrl 0 (by omega)) (hrl 1 (by omega)) (hrl 2 (by omega))
    (w (P.socDual.lp.nc + 3 * k)) (w (P.socDual.lp.nc + 3 * k + 1)) (w (P.socDual.lp.nc + 3 * k + 2))
  rw [hsx 0 (by omega), hsx 1 (by omega), hsx 2 (by omega)] at hin
  have hEx := hx.exp _ hemem
  have hEw := hexp [P.socDual.lp.nc + 3 * k, P.socDual.lp.nc + 3 * k + 1, P.socDual.lp.nc + 3 * k + 2]
    (List.mem_map.mpr ⟨k, List.mem_range.mpr hk', rfl⟩)
  exact le_of_le_of_eq (hE _ _ _ _ _ _ hEx hEw) hin.symm

/-- **Conic weak duality** for the whole model of `gcp.Model.do_math(primal=False)` (no LMIs):
no cones, compact SOC layout, general SOC layout, with or without the exponential block.

Hypotheses beyond well-formedness, both needed (and assumed) only when the compact layout is
selected (`P.rowsRemoved = true`, i.e. there are second-order cones and `compactOk` holds):
* `hc`  : cone columns carry no cost;
* `hxq` : (added, true by construction) no exponential-cone column is also a second-order-cone
  column - the compact layout eliminates the dual rows of SOC columns, so an exponential-block
  entry in such a row would be lost. -/
theorem coneDual_weak (P : ConeProg K) (E : K → K → K → Prop) (hE : ExpPair E) (hwf : P.WF)
    (hc : P.rowsRemoved = true → ∀ q ∈ P.qmat, ∀ j ∈ q, P.lp.c j = 0)
    (hxq : P.rowsRemoved = true → ∀ e ∈ P.xmat, ∀ j ∈ e, j ∉ P.eye)
    (x w : ℕ → K) (hx : P.Feas E x) (hw : P.coneDual.Feas E w) :
    - P.coneDual.lp.obj w ≤ P.lp.obj x :=
  expBlock_weak P E hE hwf hxq (socDual_weakSlack P E hwf hc) x w hx hw

/-- `coneDual_weak` with the two side hypotheses stated unconditionally. -/
theorem coneDual_weak' (P : ConeProg K) (E : K → K → K → Prop) (hE : ExpPair E) (hwf : P.WF)
    (hc : ∀ q ∈ P.qmat, ∀ j ∈ q, P.lp.c j = 0)
    (hxq : ∀ e ∈ P.xmat, ∀ j ∈ e, j ∉ P.eye)
    (x w : ℕ → K) (hx : P.Feas E x) (hw : P.coneDual.Feas E w) :
    - P.coneDual.lp.obj w ≤ P.lp.obj x :=
  coneDual_weak P E hE hwf (fun _ => hc) (fun _ => hxq) x w hx hw

end ConeProg

end RsomeV
