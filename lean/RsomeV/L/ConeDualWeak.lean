import RsomeV.M.ConeDual
import RsomeV.L.LpDualWeak
import Mathlib.Tactic.Linarith
import Mathlib.Tactic.Ring
import Mathlib.Tactic.Positivity

/-! Weak duality for the conic layers of the model of `do_math(primal=False)`.

Cone membership is stated without square roots (`0 ≤ head ∧ Σ tail² ≤ head²`), valid in
every linear ordered field.  The exponential cone is an abstract predicate `E` with the
pairing property `ExpPair E`; `RsomeV/L/ExpCone.lean` instantiates it with the real
exponential cone. -/

namespace RsomeV
open Finset

variable {K : Type} [Field K] [LinearOrder K] [IsStrictOrderedRing K]

/-- second-order cone membership of the sub-vector `x[q]`, head first -/
def socMem (x : ℕ → K) : List ℕ → Prop
  | [] => True
  | h :: t => 0 ≤ x h ∧ (t.map fun j => x j ^ 2).sum ≤ x h ^ 2

/-- the pairing property the dual exp block needs (rsome's ordering: `a2·exp(a0/a2) ≤ a1`) -/
def ExpPair (E : K → K → K → Prop) : Prop :=
  ∀ a0 a1 a2 u0 u1 u2 : K, E a0 a1 a2 → E u0 u1 u2 → 0 ≤ -u2 * a0 + u1 * a1 - (u0 + u2) * a2

namespace ConeProg

/-- feasibility of a conic program: rows, bounds, second-order cones, exponential cones -/
structure Feas (P : ConeProg K) (E : K → K → K → Prop) (x : ℕ → K) : Prop where
  lin : P.lp.Feas x
  soc : ∀ q ∈ P.qmat, socMem x q
  exp : ∀ e ∈ P.xmat, E (x (e.getD 0 0)) (x (e.getD 1 0)) (x (e.getD 2 0))

/-- well-formedness of the index lists (true of every program `do_math` emits; re-checked by
the harness on every generated case) -/
structure WF (P : ConeProg K) : Prop where
  qlt : ∀ q ∈ P.qmat, ∀ j ∈ q, j < P.lp.nc
  xlen : ∀ e ∈ P.xmat, e.length = 3
  xlt : ∀ e ∈ P.xmat, ∀ j ∈ e, j < P.lp.nc
  /-- exponential-cone columns are auxiliary columns without an upper bound of zero -/
  xnotneg : ∀ e ∈ P.xmat, ∀ j ∈ e, P.lp.isNeg j = false
  /-- the stored pattern covers the non-zeros -/
  stcov : ∀ i j, P.lp.a i j ≠ 0 → P.st i j = true

end ConeProg
end RsomeV
