import RsomeV.Props.C02Conic
import RsomeV.L.DroMixLp
import RsomeV.L.DroExact

/-! Helper results for `RsomeV/Props/C04Soc.lean` (exactness of the event-wise DRO reformulation for
ambiguity sets with second-order cones).

1. Exactness of the robust counterpart for supports with second-order cones under a Slater
   condition, with the position hypothesis on the cones (`hq`: cones behind the coefficient
   columns) required **only when the conic dual takes the compact layout**
   (`rc_exact_soc_slater_lay`).  `C02Conic.rc_exact_soc_slater` asks for it unconditionally, which
   the lifted support `Dro.mixSupport` never satisfies (its cones sit *inside* the blocks of the
   probability / expectation programs, before the next block of coefficient columns); in the general
   layout row `j` of the dual is tied to column `j` whatever the position of the cones
   (the remark of `rc_sound_gen` in `RsomeV/L/DroSound.lean`, here for both directions).
2. `farkas_eq_pairing_soc`: the affine Farkas lemma with equality rows of
   `RsomeV/L/DroExact.lean` in pairing form, for systems with second-order cones under a Slater
   condition (conic Lagrangian duality `ConicStrong.conic_lagrange` for the cones, then
   `C04.farkas_eq_pairing` on the polyhedral part).
3. `dro_complete_vertex_lift_soc_core`: completeness of the event-wise reformulation on vertex
   distributions (`C04.dro_complete_vertex_lift`) for a lifted set with second-order cones.
4. `sep_normalised`: a supporting functional at the origin for a convex set with non-empty interior
   in `(Fin L → ℝ) × ℝ`, normalised in the last coordinate (geometric Hahn–Banach).
5. `dro_complete_atoms_core`, `atoms_sound`: completeness / soundness of the event-wise
   reformulation for arbitrary supports, an arbitrary convex lifted set and finitely supported
   distributions, under an interior condition on the moments.
6. `ConeProg.feas_convex`: the feasible set of a conic program with second-order cones is convex.
7. `C04.Mix.mix_feas_iff`: the points of a mixed support without exponential cones. -/

set_option linter.unusedSectionVars false
set_option linter.unusedSimpArgs false
set_option linter.unusedVariables false

namespace RsomeV
open Finset ConeProg RoRows

/-! ### 1. Exactness of the counterpart, cones anywhere in the general layout -/

section lay
variable {K : Type} [Field K] [LinearOrder K] [IsStrictOrderedRing K]

/-- number of dual rows covers the coefficient columns: in the compact layout by the position of
the cones, in the general layout because there is one dual row per primal column -/
lemma le_coneDual_nr_lay (Pz : ConeProg K) (k : ℕ) (hk : k ≤ Pz.lp.nc)
    (hq : Pz.rowsRemoved = true → ∀ q ∈ Pz.qmat, ∀ j ∈ q, k ≤ j) : k ≤ Pz.coneDual.lp.nr := by
  by_cases hr : Pz.rowsRemoved = true
  · exact le_coneDual_nr Pz k hk (hq hr)
  · rw [coneDual_nr, if_neg hr]; exact hk

/-- `RoRows.dualRhs_rowCost` with the position hypothesis only in the compact layout -/
lemma dualRhs_rowCost_lay (R : RoRows K) (Pz : ConeProg K) (hones : ∀ j, Pz.lp.c j = 1)
    (hnz : R.nz ≤ Pz.lp.nc)
    (hq : Pz.rowsRemoved = true → ∀ q ∈ Pz.qmat, ∀ j ∈ q, R.nz ≤ j) (n : ℕ) (v : ℕ → K)
    (j : ℕ) (hj : j < Pz.coneDual.lp.nr) :
    Pz.dualRhs (R.rowCost n v) j
      = if j < R.numRand Pz.coneDual then - R.coef n j v * Pz.coneDual.lp.b j else 0 := by
  by_cases hr : Pz.rowsRemoved = true
  · exact R.dualRhs_rowCost Pz hones hnz (hq hr) n v j hj
  · have hnr : R.nz ≤ Pz.coneDual.lp.nr := le_coneDual_nr_lay Pz R.nz hnz hq
    have hnum : R.numRand Pz.coneDual = R.nz := by unfold numRand; exact Nat.min_eq_left hnr
    have hidx : ∀ r, Pz.rowIdx r = r := by intro r; unfold rowIdx; rw [if_neg hr]
    rw [hnum, coneDual_b]
    unfold dualRhs
    rw [hidx j]
    by_cases h : j < R.nz
    · rw [if_pos h, hones]
      simp only [rowCost, h, if_true]
      split_ifs <;> ring
    · rw [if_neg h]
      simp only [rowCost, h, if_false]
      split_ifs <;> simp

/-- `C02.rc_complete_of_dual` with the position hypothesis only in the compact layout -/
theorem rc_complete_of_dual_lay (Pz : ConeProg K) (E : K → K → K → Prop)
    (hones : ∀ j, Pz.lp.c j = 1)
    (R : RoRows K) (hnz : R.nz ≤ Pz.lp.nc)
    (hq : Pz.rowsRemoved = true → ∀ q ∈ Pz.qmat, ∀ j ∈ q, R.nz ≤ j)
    (v : ℕ → K)
    (hdual : ∀ n < R.m, ∃ y, (Pz.withCost (R.rowCost n v)).coneDual.Feas E y ∧
      R.detPart n v ≤ - (Pz.withCost (R.rowCost n v)).coneDual.lp.obj y) :
    ∃ v' : ℕ → K, (∀ d < R.nd, v' d = v d) ∧ (R.leToRc Pz.coneDual).prog.Feas E v' := by
  choose! y hy using hdual
  refine ⟨R.assemble Pz.coneDual v y, fun d hd => R.assemble_dec _ v y d hd, ?_⟩
  apply leToRc_build R Pz.coneDual E (coneDual_qlt Pz) (coneDual_xlt Pz) (coneDual_xlen Pz) v y
    (fun n => Pz.dualRhs (R.rowCost n v))
  · intro n hn j hj
    exact dualRhs_rowCost_lay R Pz hones hnz hq n v j hj
  · intro n hn
    have h := (hy n hn).1
    rw [coneDual_withCost] at h
    exact h
  · intro n hn
    have h := (hy n hn).2
    have hobj : (Pz.withCost (R.rowCost n v)).coneDual.lp.obj (y n)
        = ∑ i ∈ range Pz.coneDual.lp.nc, Pz.coneDual.lp.c i * y n i := by
      rw [coneDual_withCost]; rfl
    rw [hobj] at h
    unfold detPart at h
    linarith
  · intro n hn j h1 h2
    have hnr : R.nz ≤ Pz.coneDual.lp.nr := le_coneDual_nr_lay Pz R.nz hnz hq
    have : R.numRand Pz.coneDual = R.nz := by unfold numRand; exact Nat.min_eq_left hnr
    omega

end lay

/-- `C02Conic.hgap_soc_slater` with the position hypothesis only in the compact layout: conic
strong duality (`C02Conic.coneDual_strong`) needs "zero cost on the cone columns" only there. -/
theorem hgap_soc_slater_lay (Pz : ConeProg ℝ) (E : ℝ → ℝ → ℝ → Prop) (hwf : Pz.WF)
    (hx : Pz.xmat = [])
    (R : RoRows ℝ) (hnz : R.nz ≤ Pz.lp.nc)
    (hq : Pz.rowsRemoved = true → ∀ q ∈ Pz.qmat, ∀ j ∈ q, R.nz ≤ j)
    (htail : Pz.rowsRemoved = true → ∀ q ∈ Pz.qmat, ∀ j ∈ q.tail, Pz.lp.isFree j = true)
    (hslater : ∃ ζ0, Pz.Feas E ζ0 ∧ ∀ q ∈ Pz.qmat, socStrict ζ0 q)
    (x : ℕ → ℝ) :
    ∀ n < R.m, (∀ ζ, Pz.Feas E ζ → R.eval n x ζ ≤ 0) →
      ∃ y, (Pz.withCost (R.rowCost n x)).coneDual.Feas E y ∧
        R.detPart n x ≤ - (Pz.withCost (R.rowCost n x)).coneDual.lp.obj y := by
  intro n hn hsemi
  obtain ⟨ζ0, hζ0, hs⟩ := hslater
  set P' := Pz.withCost (R.rowCost n x) with hP'
  have hwf' : P'.WF := ⟨hwf.qlt, hwf.xlen, hwf.xlt, hwf.xnotneg, hwf.stcov⟩
  have hfe : ∀ ζ, P'.Feas E ζ ↔ Pz.Feas E ζ := fun ζ =>
    ⟨fun h => ⟨⟨h.lin.rows, h.lin.ubs, h.lin.lbs⟩, h.soc, h.exp⟩,
     fun h => ⟨⟨h.lin.rows, h.lin.ubs, h.lin.lbs⟩, h.soc, h.exp⟩⟩
  apply C02Conic.coneDual_strong P' E hwf' hx
  · intro hrr q hq' j hj
    show R.rowCost n x j = 0
    have := hq hrr q hq' j hj
    simp only [rowCost, show ¬ j < R.nz by omega, if_false]
  · intro hrr q hq' j hj
    exact htail hrr q hq' j hj
  · exact (hfe ζ0).mpr hζ0
  · exact hs
  · intro ζ hζ
    have h := hsemi ζ ((hfe ζ).mp hζ)
    rw [R.eval_eq] at h
    rw [hP', R.obj_rowCost Pz hnz n x ζ]
    linarith

/-- **Exactness of the robust counterpart for supports with second-order cones under a Slater
condition, cones anywhere when the dual takes the general layout.**  As
`C02Conic.rc_exact_soc_slater`, but `hq` (the cones sit behind the `R.nz` coefficient-carrying
columns) and `htail` are required only when `Pz.coneDual` takes the compact layout
(`Pz.rowsRemoved = true`).  `→`: `C01.rc_sound_late` with `k = R.nz`; `←`: conic strong duality
through `rc_complete_of_dual_lay`. -/
theorem rc_exact_soc_slater_lay (Pz : ConeProg ℝ) (E : ℝ → ℝ → ℝ → Prop) (hwf : Pz.WF)
    (hx : Pz.xmat = [])
    (hones : ∀ j, Pz.lp.c j = 1)
    (R : RoRows ℝ) (hnz : R.nz ≤ Pz.lp.nc)
    (hq : Pz.rowsRemoved = true → ∀ q ∈ Pz.qmat, ∀ j ∈ q, R.nz ≤ j)
    (htail : Pz.rowsRemoved = true → ∀ q ∈ Pz.qmat, ∀ j ∈ q.tail, Pz.lp.isFree j = true)
    (hslater : ∃ ζ0, Pz.Feas E ζ0 ∧ ∀ q ∈ Pz.qmat, socStrict ζ0 q)
    (x : ℕ → ℝ) :
    (∃ v' : ℕ → ℝ, (∀ d < R.nd, v' d = x d) ∧ (R.leToRc Pz.coneDual).prog.Feas E v') ↔
      (∀ n < R.m, ∀ ζ, Pz.Feas E ζ → R.eval n x ζ ≤ 0) := by
  constructor
  · rintro ⟨v', hd, hv⟩ n hn ζ hζ
    have hcx : Pz.coneDual.xmat = [] := by
      have : Pz.coneDual = Pz.socDual := by
        unfold coneDual; rw [if_pos (by rw [hx]; rfl)]
      rw [this, socDual_xmat]
    have hxm : (R.leToRc Pz.coneDual).prog.xmat = [] := by
      simp [leToRc, hcx]
    have hv0 : (R.leToRc Pz.coneDual).prog.Feas (fun _ _ _ => False) v' :=
      ⟨hv.lin, hv.soc, by intro e he; rw [hxm] at he; simp at he⟩
    have hζ0 : Pz.Feas (fun _ _ _ => False) ζ :=
      ⟨hζ.lin, hζ.soc, by intro e he; rw [hx] at he; simp at he⟩
    have h := C01.rc_sound_late Pz (fun _ _ _ => False) (fun _ _ _ _ _ _ h _ => h.elim) hwf hones R
      R.nz hnz hq (by intro n _ j h1 _ h3; omega)
      (by intro _ e he; rw [hx] at he; simp at he) v' hv0 n hn ζ hζ0 ζ (fun _ _ => rfl)
    rw [R.eval_congr n x v' ζ (fun d hd' => (hd d hd').symm)]
    exact h
  · intro hsemi
    exact rc_complete_of_dual_lay Pz E hones R hnz hq x
      (fun n hn => hgap_soc_slater_lay Pz E hwf hx R hnz hq htail hslater x n hn (hsemi n hn))

end RsomeV

/-! ### 2. Farkas with equality rows and second-order cones, in pairing form -/

namespace RsomeV.C04
open Finset RsomeV ConeProg

noncomputable section

/-- a vector read through an index list, as a linear map into `Fin e.length → ℝ` -/
def readN (e : List ℕ) : (ℕ → ℝ) →ₗ[ℝ] (Fin e.length → ℝ) where
  toFun := fun x k => x (e.getD k.val 0)
  map_add' x y := by funext k; rfl
  map_smul' t x := by funext k; rfl

/-- minus the cost on the first `n` coordinates, as a linear map -/
def negCostN (n : ℕ) (c : ℕ → ℝ) : (ℕ → ℝ) →ₗ[ℝ] ℝ where
  toFun := fun x => - ∑ j ∈ range n, c j * x j
  map_add' x y := by
    simp only [Pi.add_apply, mul_add, Finset.sum_add_distrib]; ring
  map_smul' t x := by
    simp only [Pi.smul_apply, smul_eq_mul, RingHom.id_apply]
    rw [mul_neg, Finset.mul_sum]
    congr 1
    apply Finset.sum_congr rfl; intro j _; ring

lemma sum_scatterN (n : ℕ) (e : List ℕ) (he : ∀ j ∈ e, j < n) (w x : ℕ → ℝ) :
    ∑ k ∈ range e.length, w k * x (e.getD k 0)
      = ∑ j ∈ range n, (∑ k ∈ range e.length, (if e.getD k 0 = j then w k else 0)) * x j := by
  simp only [Finset.sum_mul]
  rw [Finset.sum_comm]
  apply Finset.sum_congr rfl
  intro k hk
  have hk' : k < e.length := Finset.mem_range.mp hk
  have hlt : e.getD k 0 < n := he _ (ConeProg.getD_mem' e k hk' 0)
  rw [Finset.sum_eq_single (e.getD k 0)]
  · simp
  · intro j _ hj
    rw [if_neg (fun h => hj h.symm), zero_mul]
  · intro hn; exact absurd (Finset.mem_range.mpr hlt) hn

/-- **Affine Farkas lemma with equality rows and second-order cones, pairing form** (conic
counterpart of `farkas_eq_pairing`, over `ℝ`).  System in `x`: inequality rows `a r · x ≤ b r`,
equality rows `e l · x = d l`, cones `x[q] ∈ SOC` for the index lists `q ∈ qs` (head first; they
address the first `n` coordinates).  If some `x` satisfies the rows and is *strictly* inside every
cone (partial Slater condition) and `c · x ≤ γ` on the feasible set, then there are multipliers
`y ≥ 0`, `lam` (free) and a cone slack `κ` — a linear form that is non-negative at every `x` in the
cones (a member of the dual cone scattered to the coordinates) — with
`Σ_r y_r (a r · x) + Σ_l lam_l (e l · x) - κ · x = c · x` for **every** `x`, and
`y · b + lam · d ≤ γ`.

Proof: `ConicStrong.conic_lagrange` on the polyhedron with the product of the cones (self-dual:
`prodCone_dual`) gives `κ` with `(c + κ) · x ≤ γ` on the polyhedron; `farkas_eq_pairing` for the
cost `c + κ` gives `y`, `lam`. -/
theorem farkas_eq_pairing_soc (n m : ℕ) (ι : Type) [Fintype ι] (a : ι → ℕ → ℝ) (b : ι → ℝ)
    (e : ℕ → ℕ → ℝ) (d : ℕ → ℝ) (qs : List (List ℕ)) (hqs : ∀ q ∈ qs, ∀ j ∈ q, j < n)
    (c : ℕ → ℝ) (γ : ℝ)
    (hslater : ∃ x : ℕ → ℝ, (∀ r, ∑ j ∈ range n, a r j * x j ≤ b r) ∧
      (∀ l < m, ∑ j ∈ range n, e l j * x j = d l) ∧ ∀ q ∈ qs, socStrict x q)
    (himp : ∀ x : ℕ → ℝ, (∀ r, ∑ j ∈ range n, a r j * x j ≤ b r) →
      (∀ l < m, ∑ j ∈ range n, e l j * x j = d l) → (∀ q ∈ qs, socMem x q) →
      ∑ j ∈ range n, c j * x j ≤ γ) :
    ∃ (y : ι → ℝ) (lam : ℕ → ℝ) (κ : ℕ → ℝ), (∀ r, 0 ≤ y r) ∧
      (∀ x : ℕ → ℝ, (∀ q ∈ qs, socMem x q) → 0 ≤ ∑ j ∈ range n, κ j * x j) ∧
      (∀ x : ℕ → ℝ, ∑ r, y r * (∑ j ∈ range n, a r j * x j)
          + ∑ l ∈ range m, lam l * (∑ j ∈ range n, e l j * x j)
          - ∑ j ∈ range n, κ j * x j = ∑ j ∈ range n, c j * x j) ∧
      ∑ r, y r * b r + ∑ l ∈ range m, lam l * d l ≤ γ := by
  obtain ⟨x0, hA0, hF0, hs0⟩ := hslater
  set fl := qs.flatten with hfl
  have helt : ∀ j ∈ fl, j < n := by
    intro j hj
    obtain ⟨q, hq, hjq⟩ := List.mem_flatten.mp hj
    exact hqs q hq j hjq
  set C : Set (ℕ → ℝ) := {x | (∀ r, ∑ j ∈ range n, a r j * x j ≤ b r) ∧
    (∀ l < m, ∑ j ∈ range n, e l j * x j = d l)} with hC
  have hcomb : ∀ (M : ℕ → ℝ) (x y : ℕ → ℝ) (a' b' : ℝ),
      ∑ j ∈ range n, M j * (a' • x + b' • y) j
        = a' * ∑ j ∈ range n, M j * x j + b' * ∑ j ∈ range n, M j * y j := by
    intro M x y a' b'
    rw [Finset.mul_sum, Finset.mul_sum, ← Finset.sum_add_distrib]
    apply Finset.sum_congr rfl; intro j _
    simp only [Pi.add_apply, Pi.smul_apply, smul_eq_mul]; ring
  have hCconv : Convex ℝ C := by
    rintro x ⟨hx1, hx2⟩ y ⟨hy1, hy2⟩ a' b' ha hb hab
    refine ⟨fun r => ?_, fun l hl => ?_⟩
    · rw [hcomb]
      have e1 := mul_le_mul_of_nonneg_left (hx1 r) ha
      have e2 := mul_le_mul_of_nonneg_left (hy1 r) hb
      have : a' * b r + b' * b r = b r := by rw [← add_mul, hab, one_mul]
      linarith
    · rw [hcomb, hx2 l hl, hy2 l hl, ← add_mul, hab, one_mul]
  have hv : ∀ x : ℕ → ℝ, ∀ k < qs.flatten.length,
      extF (readN fl x) (0 + k) = x (qs.flatten.getD k 0) := by
    intro x k hk
    rw [Nat.zero_add]
    have : extF (readN fl x) k = (readN fl x) ⟨k, hk⟩ := extF_val _ ⟨k, hk⟩
    rw [this]; rfl
  have hK : ∀ x, readN fl x ∈ prodCone qs fl.length ↔ ∀ q ∈ qs, socMem x q :=
    fun x => qBlocks_socMem_iff x qs 0 (extF (readN fl x)) (hv x)
  have hKi : ∀ x, readN fl x ∈ prodConeStrict qs fl.length ↔ ∀ q ∈ qs, socStrict x q :=
    fun x => qBlocks_socStrict_iff x qs 0 (extF (readN fl x)) (hv x)
  obtain ⟨ψ, hψ, hL⟩ := ConicStrong.conic_lagrange C hCconv (readN fl) (negCostN n c) (-γ)
    (prodCone qs fl.length) (prodConeStrict qs fl.length)
    (isOpen_prodConeStrict _ _) (prodConeStrict_subset _ _)
    (prodConeStrict_smul _ _) (prodCone_add_strict _ _)
    x0 ⟨hA0, hF0⟩ ((hKi x0).mpr hs0)
    (fun x hx hk => by
      have := himp x hx.1 hx.2 ((hK x).mp hk)
      show -γ ≤ - ∑ j ∈ range n, c j * x j
      linarith)
  obtain ⟨s, hs, hrep⟩ := prodCone_dual qs fl.length rfl ψ hψ
  set κ : ℕ → ℝ := fun j => ∑ k ∈ range fl.length, (if fl.getD k 0 = j then s k else 0) with hκ
  -- the pairing of `ψ` with the cone coordinates of `x`
  have hψκ : ∀ x : ℕ → ℝ, ψ (readN fl x) = ∑ j ∈ range n, κ j * x j := by
    intro x
    rw [hrep]
    have e1 : ∑ k ∈ range fl.length, s k * extF (readN fl x) k
        = ∑ k ∈ range fl.length, s k * x (fl.getD k 0) := by
      apply Finset.sum_congr rfl
      intro k hk
      have hk' : k < fl.length := Finset.mem_range.mp hk
      have : extF (readN fl x) k = (readN fl x) ⟨k, hk'⟩ := extF_val _ ⟨k, hk'⟩
      rw [this]; rfl
    rw [e1, sum_scatterN n fl helt s x]
  have hpoly : ∀ x : ℕ → ℝ, (∀ r, ∑ j ∈ range n, a r j * x j ≤ b r) →
      (∀ l < m, ∑ j ∈ range n, e l j * x j = d l) →
      ∑ j ∈ range n, (c j + κ j) * x j ≤ γ := by
    intro x h1 h2
    have h := hL x ⟨h1, h2⟩
    rw [hψκ] at h
    have h' : -γ ≤ - (∑ j ∈ range n, c j * x j) - ∑ j ∈ range n, κ j * x j := h
    have e2 : ∑ j ∈ range n, (c j + κ j) * x j
        = ∑ j ∈ range n, c j * x j + ∑ j ∈ range n, κ j * x j := by
      rw [← Finset.sum_add_distrib]; apply Finset.sum_congr rfl; intro j _; ring
    rw [e2]; linarith
  obtain ⟨y, lam, hy0, hpair, hval⟩ := farkas_eq_pairing n m ι a b e d (fun j => c j + κ j) γ
    ⟨x0, hA0, hF0⟩ hpoly
  refine ⟨y, lam, κ, hy0, ?_, ?_, hval⟩
  · intro x hx
    rw [← hψκ]
    exact hψ _ ((hK x).mpr hx)
  · intro x
    rw [hpair x]
    have e2 : ∑ j ∈ range n, (c j + κ j) * x j
        = ∑ j ∈ range n, c j * x j + ∑ j ∈ range n, κ j * x j := by
      rw [← Finset.sum_add_distrib]; apply Finset.sum_congr rfl; intro j _; ring
    rw [e2]; ring

end

/-! ### 3. Completeness on vertices for a lifted set with second-order cones -/

section
variable (S nE nz nV N : ℕ) (vtx : ℕ → ℕ → ℕ → ℝ) (Ev : ℕ → ℕ → Prop) [∀ k s, Decidable (Ev k s)]
  (pc : ℕ → ℕ) (mc : ℕ → ℕ → ℕ)

/-- the cones of the lifted set, addressed in the columns `[w | ζ]` -/
def shiftQ (qs : List (List ℕ)) : List (List ℕ) := qs.map fun q => q.map fun c => S * nV + c

lemma shiftQ_socMem (qs : List (List ℕ)) (x : ℕ → ℝ) :
    (∀ q ∈ shiftQ S nV qs, socMem x q) ↔ (∀ q ∈ qs, socMem (zOf S nV x) q) := by
  unfold shiftQ
  constructor
  · intro h q hq
    have := h _ (List.mem_map.mpr ⟨q, hq, rfl⟩)
    rwa [socMem_map] at this
  · intro h q' hq'
    obtain ⟨q, hq, rfl⟩ := List.mem_map.mp hq'
    rw [socMem_map]
    exact h q hq

lemma shiftQ_socStrict (qs : List (List ℕ)) (x : ℕ → ℝ) :
    (∀ q ∈ shiftQ S nV qs, socStrict x q) ↔ (∀ q ∈ qs, socStrict (zOf S nV x) q) := by
  unfold shiftQ
  constructor
  · intro h q hq
    have := h _ (List.mem_map.mpr ⟨q, hq, rfl⟩)
    rwa [socStrict_map] at this
  · intro h q' hq'
    obtain ⟨q, hq, rfl⟩ := List.mem_map.mp hq'
    rw [socStrict_map]
    exact h q hq

/-- **Completeness on vertices for a lifted set with lifting columns and second-order cones**
(core form; see `C04Soc.dro_complete_vertex_lift_soc`).  As `dro_complete_vertex_lift_core`, the
lifted set being `AdmL g h N ζ ∧ ∀ q ∈ qs, socMem ζ q`; feasibility is strengthened to a Slater
condition (`hslater`: some admissible vertex distribution induces a lifted point strictly inside
every cone).  `farkas_eq_pairing_soc` replaces `farkas_eq_pairing`. -/
theorem dro_complete_vertex_lift_soc_core {ι : Type} [Fintype ι] (g : ι → ℕ → ℝ) (h : ι → ℝ)
    (qs : List (List ℕ)) (hqs : ∀ q ∈ qs, ∀ j ∈ q, j < N)
    (hpc : ∀ s < S, pc s < N) (hmc : ∀ k < nE, ∀ j < nz, mc k j < N)
    (fv : ℕ → ℕ → ℝ)
    (hslater : ∃ (w : ℕ → ℕ → ℝ) (ζ : ℕ → ℝ), (∀ s < S, ∀ i < nV, 0 ≤ w s i) ∧ AdmL g h N ζ ∧
      (∀ q ∈ qs, socStrict ζ q) ∧ Induces S nE nz nV vtx Ev pc mc w ζ)
    (hworst : ∀ (w : ℕ → ℕ → ℝ) (ζ : ℕ → ℝ), (∀ s < S, ∀ i < nV, 0 ≤ w s i) → AdmL g h N ζ →
      (∀ q ∈ qs, socMem ζ q) → Induces S nE nz nV vtx Ev pc mc w ζ →
      ∑ s ∈ range S, ∑ i ∈ range nV, w s i * fv s i ≤ 0) :
    ∃ (α : ℕ → ℝ) (β : ℕ → ℕ → ℝ),
      (∀ s < S, ∀ i < nV, fv s i ≤ α s + ∑ k ∈ range nE,
        if Ev k s then ∑ j ∈ range nz, β k j * vtx s i j else 0) ∧
      (∀ ζ, AdmL g h N ζ → (∀ q ∈ qs, socMem ζ q) →
        ∑ s ∈ range S, α s * ζ (pc s)
          + ∑ k ∈ range nE, ∑ j ∈ range nz, β k j * ζ (mc k j) ≤ 0) := by
  -- what the rows say about `x = [w | ζ]`
  have hineq : ∀ x : ℕ → ℝ,
      (∀ r, ∑ c ∈ range (S * nV + N), lA S nV g r c * x c
          ≤ vB S nV h r) ↔
        (AdmL g h N (zOf S nV x) ∧ ∀ s < S, ∀ i < nV, 0 ≤ wOf nV x s i) := by
    intro x
    constructor
    · intro hx
      refine ⟨fun r => ?_, fun s hs i hi => ?_⟩
      · have := hx (.inl r)
        rw [show lA S nV g (.inl r) = rowG S nV g r from rfl, eval_rowG] at this
        exact this
      · have := hx (.inr ⟨s * nV + i, flat_lt S nV s i hs hi⟩)
        rw [eval_nn] at this
        have h0 : vB S nV h (.inr ⟨s * nV + i, flat_lt S nV s i hs hi⟩) = 0 := rfl
        rw [h0] at this
        show 0 ≤ x (s * nV + i)
        simpa using this
    · rintro ⟨h1, h2⟩ r
      rcases r with r | t
      · rw [show lA S nV g (.inl r) = rowG S nV g r from rfl, eval_rowG]
        exact h1 r
      · rw [eval_nn]
        obtain ⟨a1, a2⟩ := unflat_lt S nV t.val t.isLt
        have := h2 _ a1 _ a2
        unfold wOf at this
        rw [Nat.div_add_mod' t.val nV] at this
        show - x t.val ≤ 0
        linarith
  have heq : ∀ x : ℕ → ℝ,
      (∀ l < S + nE * nz, ∑ c ∈ range (S * nV + N), lE S nz nV vtx Ev pc mc l c * x c
          = (fun _ => (0:ℝ)) l) ↔
        Induces S nE nz nV vtx Ev pc mc (wOf nV x) (zOf S nV x) := by
    intro x
    constructor
    · intro hx
      refine ⟨fun s hs => ?_, fun k hk j hj => ?_⟩
      · have := hx s (by omega)
        rw [lE_P S nz nV vtx Ev pc mc s hs, eval_rowP S nV N pc s hs (hpc s hs)] at this
        linarith
      · have hl : S + (k * nz + j) < S + nE * nz := by
          have := flat_lt nE nz k j hk hj; omega
        have := hx _ hl
        rw [lE_M S nz nV vtx Ev pc mc k j hj, eval_rowM S nV N vtx Ev mc k j (hmc k hk j hj)] at this
        linarith
    · rintro ⟨h1, h2⟩ l hl
      by_cases hls : l < S
      · rw [lE_P S nz nV vtx Ev pc mc l hls, eval_rowP S nV N pc l hls (hpc l hls), h1 l hls]
        ring
      · obtain ⟨a1, a2⟩ := unflat_lt nE nz (l - S) (by omega)
        have hl' : l = S + ((l - S) / nz * nz + (l - S) % nz) := by
          rw [Nat.div_add_mod' (l - S) nz]; omega
        rw [hl', lE_M S nz nV vtx Ev pc mc _ _ a2, eval_rowM S nV N vtx Ev mc _ _ (hmc _ a1 _ a2),
          h2 _ a1 _ a2]
        ring
  have hcost : ∀ x : ℕ → ℝ,
      ∑ c ∈ range (S * nV + N), (fun c => if c < S * nV then fv (c / nV) (c % nV) else 0) c * x c
        = ∑ s ∈ range S, ∑ i ∈ range nV, wOf nV x s i * fv s i := by
    intro x
    rw [sum_split]
    have h2 : ∑ c ∈ range N, (fun c => if c < S * nV then fv (c / nV) (c % nV) else 0)
        (S * nV + c) * zOf S nV x c = 0 := by
      apply Finset.sum_eq_zero; intro c _
      show (if S * nV + c < S * nV then fv ((S * nV + c) / nV) ((S * nV + c) % nV) else 0)
        * zOf S nV x c = 0
      rw [if_neg (by omega), zero_mul]
    rw [h2, add_zero]
    apply Finset.sum_congr rfl; intro s hs
    apply Finset.sum_congr rfl; intro i hi
    obtain ⟨e1, e2⟩ := flat_div_mod nV s i (Finset.mem_range.mp hi)
    show (if s * nV + i < S * nV then fv ((s * nV + i) / nV) ((s * nV + i) % nV) else 0) * _ = _
    rw [if_pos (flat_lt S nV s i (Finset.mem_range.mp hs) (Finset.mem_range.mp hi)), e1, e2, mul_comm]
  have hqs' : ∀ q ∈ shiftQ S nV qs, ∀ j ∈ q, j < S * nV + N := by
    intro q' hq' j hj
    unfold shiftQ at hq'
    obtain ⟨q, hq, rfl⟩ := List.mem_map.mp hq'
    obtain ⟨c, hc, rfl⟩ := List.mem_map.mp hj
    have := hqs q hq c hc
    omega
  obtain ⟨y, lam, κ, hy0, hκ, hpair, hval⟩ := farkas_eq_pairing_soc (S * nV + N) (S + nE * nz)
    (ι ⊕ Fin (S * nV)) (lA S nV g) (vB S nV h) (lE S nz nV vtx Ev pc mc) (fun _ => 0)
    (shiftQ S nV qs) hqs'
    (fun c => if c < S * nV then fv (c / nV) (c % nV) else 0) 0
    (by
      obtain ⟨w, ζ, hw, hadm, hstr, hind⟩ := hslater
      refine ⟨xOf S nV w ζ, (hineq _).mpr ⟨?_, ?_⟩, (heq _).mpr ?_,
        (shiftQ_socStrict S nV qs _).mpr ?_⟩
      · rw [zOf_xOf]; exact hadm
      · intro s hs i hi; rw [wOf_xOf S nV w ζ s i hs hi]; exact hw s hs i hi
      · rw [zOf_xOf]
        refine ⟨fun s hs => ?_, fun k hk j hj => ?_⟩
        · rw [hind.1 s hs]
          exact (pOf_congr nV _ _ s (fun i hi => wOf_xOf S nV w ζ s i hs hi)).symm
        · rw [hind.2 k hk j hj]
          exact (muOf_congr S nV vtx Ev _ _ k j
            (fun s hs i hi => wOf_xOf S nV w ζ s i hs hi)).symm
      · rw [zOf_xOf]; exact hstr)
    (by
      intro x hx1 hx2 hx3
      obtain ⟨hadm, hw⟩ := (hineq x).mp hx1
      have hind := (heq x).mp hx2
      rw [hcost]
      exact hworst _ _ hw hadm ((shiftQ_socMem S nV qs x).mp hx3) hind)
  -- the pairing identity in terms of `w`, `ζ`
  have hpair' : ∀ x : ℕ → ℝ,
      ∑ r, y (.inl r) * (∑ c ∈ range N, g r c * zOf S nV x c)
        + ∑ t : Fin (S * nV), y (.inr t) * (- x t.val)
        + (∑ s ∈ range S, lam s * (zOf S nV x (pc s) - pOf nV (wOf nV x) s)
          + ∑ k ∈ range nE, ∑ j ∈ range nz, lam (S + (k * nz + j))
              * (zOf S nV x (mc k j) - muOf S nV vtx Ev (wOf nV x) k j))
        - ∑ c ∈ range (S * nV + N), κ c * x c
      = ∑ s ∈ range S, ∑ i ∈ range nV, wOf nV x s i * fv s i := by
    intro x
    have := hpair x
    rw [hcost, Fintype.sum_sum_type,
      sum_lE S nE nz lam _ (fun s => zOf S nV x (pc s) - pOf nV (wOf nV x) s)
        (fun k j => zOf S nV x (mc k j) - muOf S nV vtx Ev (wOf nV x) k j)
        (fun s hs => by
          rw [lE_P S nz nV vtx Ev pc mc s hs, eval_rowP S nV N pc s hs (hpc s hs)])
        (fun k hk j hj => by
          rw [lE_M S nz nV vtx Ev pc mc k j hj, eval_rowM S nV N vtx Ev mc k j (hmc k hk j hj)])]
      at this
    rw [← this]
    congr 1
    congr 1
    congr 1
    · apply Finset.sum_congr rfl; intro r _
      rw [show lA S nV g (.inl r) = rowG S nV g r from rfl, eval_rowG]
    · apply Finset.sum_congr rfl; intro t _
      rw [eval_nn]
  refine ⟨fun s => - lam s, fun k j => - lam (S + (k * nz + j)), ?_, ?_⟩
  · -- scenario rows at the vertices: the unit weight on vertex `(s0, i0)`
    intro s0 hs0 i0 hi0
    set w0 : ℕ → ℕ → ℝ := fun s i => if s = s0 ∧ i = i0 then 1 else 0 with hw0
    have hx := hpair' (xOf S nV w0 (fun _ => 0))
    have hκ0 : 0 ≤ ∑ c ∈ range (S * nV + N), κ c * xOf S nV w0 (fun _ => 0) c := by
      apply hκ
      apply (shiftQ_socMem S nV qs _).mpr
      rw [zOf_xOf]
      intro q _
      exact socMem_zero_of _ q (fun _ _ => rfl)
    rw [zOf_xOf] at hx
    have ew : ∀ s < S, ∀ i < nV, wOf nV (xOf S nV w0 fun _ => 0) s i = w0 s i :=
      fun s hs i hi => wOf_xOf S nV w0 _ s i hs hi
    have e1 : ∑ s ∈ range S, ∑ i ∈ range nV, wOf nV (xOf S nV w0 fun _ => 0) s i * fv s i
        = fv s0 i0 := by
      have : ∀ s ∈ range S, ∀ i ∈ range nV, wOf nV (xOf S nV w0 fun _ => 0) s i * fv s i
          = fv s i * (if s = s0 ∧ i = i0 then 1 else 0) := by
        intro s hs i hi
        rw [ew s (Finset.mem_range.mp hs) i (Finset.mem_range.mp hi), mul_comm]
      rw [Finset.sum_congr rfl (fun s hs => Finset.sum_congr rfl (this s hs))]
      exact sum_indicator2 S nV s0 i0 hs0 hi0 fv
    have e2 : ∑ s ∈ range S, lam s * ((fun _ => (0:ℝ)) (pc s)
            - pOf nV (wOf nV (xOf S nV w0 fun _ => 0)) s)
          + ∑ k ∈ range nE, ∑ j ∈ range nz, lam (S + (k * nz + j))
              * ((fun _ => (0:ℝ)) (mc k j)
                - muOf S nV vtx Ev (wOf nV (xOf S nV w0 fun _ => 0)) k j)
        = - coefW nE nz vtx Ev lam (fun k j => lam (S + (k * nz + j))) s0 i0 := by
      have e3 := lin_w_eq S nE nz nV vtx Ev lam (fun k j => lam (S + (k * nz + j))) w0
      rw [sum_indicator2 S nV s0 i0 hs0 hi0
        (coefW nE nz vtx Ev lam (fun k j => lam (S + (k * nz + j))))] at e3
      rw [← e3, neg_add, ← Finset.sum_neg_distrib, ← Finset.sum_neg_distrib]
      congr 1
      · apply Finset.sum_congr rfl; intro s hs
        rw [pOf_congr nV _ w0 s (fun i hi => ew s (Finset.mem_range.mp hs) i hi)]
        ring
      · apply Finset.sum_congr rfl; intro k _
        rw [← Finset.sum_neg_distrib]
        apply Finset.sum_congr rfl; intro j _
        rw [muOf_congr S nV vtx Ev _ w0 k j ew]
        ring
    have e4 : ∑ r, y (.inl r) * (∑ c ∈ range N, g r c * (fun _ => (0:ℝ)) c) = 0 := by
      apply Finset.sum_eq_zero; intro r _
      simp
    have e5 : ∑ t : Fin (S * nV), y (.inr t) * (- xOf S nV w0 (fun _ => 0) t.val) ≤ 0 := by
      apply Finset.sum_nonpos; intro t _
      apply mul_nonpos_of_nonneg_of_nonpos (hy0 _)
      unfold xOf
      rw [if_pos t.isLt]
      show - (if t.val / nV = s0 ∧ t.val % nV = i0 then (1:ℝ) else 0) ≤ 0
      split_ifs <;> norm_num
    rw [e1, e2, e4] at hx
    have e6 := coefW_neg nE nz vtx Ev lam (fun k j => lam (S + (k * nz + j))) s0 i0
    unfold coefW at e6
    unfold coefW at hx
    linarith
  · -- the first-stage row: zero weights, the lifted point `ζ`
    intro ζ hadm hcone
    have hx := hpair' (xOf S nV (fun _ _ => 0) ζ)
    have hκ0 : 0 ≤ ∑ c ∈ range (S * nV + N), κ c * xOf S nV (fun _ _ => (0:ℝ)) ζ c := by
      apply hκ
      apply (shiftQ_socMem S nV qs _).mpr
      rw [zOf_xOf]
      exact hcone
    rw [zOf_xOf] at hx
    have ew : ∀ s < S, ∀ i < nV, wOf nV (xOf S nV (fun _ _ => (0:ℝ)) ζ) s i = 0 :=
      fun s hs i hi => wOf_xOf S nV _ ζ s i hs hi
    have e1 : ∑ s ∈ range S, ∑ i ∈ range nV, wOf nV (xOf S nV (fun _ _ => (0:ℝ)) ζ) s i * fv s i
        = 0 := by
      apply Finset.sum_eq_zero; intro s hs
      apply Finset.sum_eq_zero; intro i hi
      rw [ew s (Finset.mem_range.mp hs) i (Finset.mem_range.mp hi), zero_mul]
    have e2 : ∑ t : Fin (S * nV), y (.inr t) * (- xOf S nV (fun _ _ => (0:ℝ)) ζ t.val) = 0 := by
      apply Finset.sum_eq_zero; intro t _
      unfold xOf
      rw [if_pos t.isLt]; ring
    have e3 : ∀ s ∈ range S, lam s * (ζ (pc s) - pOf nV (wOf nV (xOf S nV (fun _ _ => (0:ℝ)) ζ)) s)
        = lam s * ζ (pc s) := by
      intro s hs
      have : pOf nV (wOf nV (xOf S nV (fun _ _ => (0:ℝ)) ζ)) s = 0 := by
        unfold pOf
        apply Finset.sum_eq_zero; intro i hi
        exact ew s (Finset.mem_range.mp hs) i (Finset.mem_range.mp hi)
      rw [this, sub_zero]
    have e4 : ∀ k ∈ range nE, ∀ j ∈ range nz, lam (S + (k * nz + j))
          * (ζ (mc k j) - muOf S nV vtx Ev (wOf nV (xOf S nV (fun _ _ => (0:ℝ)) ζ)) k j)
        = lam (S + (k * nz + j)) * ζ (mc k j) := by
      intro k _ j _
      have : muOf S nV vtx Ev (wOf nV (xOf S nV (fun _ _ => (0:ℝ)) ζ)) k j = 0 := by
        unfold muOf
        apply Finset.sum_eq_zero; intro s hs
        split_ifs
        · apply Finset.sum_eq_zero; intro i hi
          rw [ew s (Finset.mem_range.mp hs) i (Finset.mem_range.mp hi), zero_mul]
        · rfl
      rw [this, sub_zero]
    rw [e1, e2, Finset.sum_congr rfl e3,
      Finset.sum_congr rfl (fun k hk => Finset.sum_congr rfl (e4 k hk))] at hx
    have h1 : ∑ r, y (.inl r) * (∑ c ∈ range N, g r c * ζ c) ≤ ∑ r, y (.inl r) * h r := by
      apply Finset.sum_le_sum; intro r _
      exact mul_le_mul_of_nonneg_left (hadm r) (hy0 _)
    rw [Fintype.sum_sum_type] at hval
    have h2 : ∑ t : Fin (S * nV), y (.inr t) * vB S nV h (.inr t) = 0 := by
      apply Finset.sum_eq_zero; intro t _
      show y (.inr t) * 0 = 0
      ring
    have h3 : ∑ r, y (.inl r) * vB S nV h (.inl r) = ∑ r, y (.inl r) * h r := rfl
    have h4 : ∑ l ∈ range (S + nE * nz), lam l * (fun _ => (0:ℝ)) l = 0 := by
      apply Finset.sum_eq_zero; intro l _; simp
    have h5 : ∑ s ∈ range S, - lam s * ζ (pc s)
          + ∑ k ∈ range nE, ∑ j ∈ range nz, - lam (S + (k * nz + j)) * ζ (mc k j)
        = - (∑ s ∈ range S, lam s * ζ (pc s)
          + ∑ k ∈ range nE, ∑ j ∈ range nz, lam (S + (k * nz + j)) * ζ (mc k j)) := by
      rw [neg_add, ← Finset.sum_neg_distrib, ← Finset.sum_neg_distrib]
      congr 1
      · apply Finset.sum_congr rfl; intro s _; ring
      · apply Finset.sum_congr rfl; intro k _
        rw [← Finset.sum_neg_distrib]
        apply Finset.sum_congr rfl; intro j _; ring
    rw [h5]
    linarith

end

/-! ### 4. Separation in `(Fin L → ℝ) × ℝ` -/

/-- **Supporting functional of a convex set at the origin, normalised in the last coordinate.**
`B` is a convex subset of `(Fin L → ℝ) × ℝ` that does not contain the origin and contains an open
set `U` which contains the ray `{0} × (-∞, m)`.  Then there is `Λ` with
`Σ_l Λ_l·u_l + t ≤ 0` for every `(u, t) ∈ B`.  (Geometric Hahn–Banach for `interior B`; the
coefficient of `t` is positive because of the ray, and the bound passes from the interior to `B`
along segments.) -/
theorem sep_normalised {L : ℕ} (B U : Set ((Fin L → ℝ) × ℝ)) (hB : Convex ℝ B)
    (hUo : IsOpen U) (hUB : U ⊆ B) (m : ℝ) (hU : ∀ t < m, ((0 : Fin L → ℝ), t) ∈ U)
    (h0 : ((0 : Fin L → ℝ), (0 : ℝ)) ∉ B) :
    ∃ Λ : Fin L → ℝ, ∀ p ∈ B, ∑ l, Λ l * p.1 l + p.2 ≤ 0 := by
  have hUi : U ⊆ interior B := interior_maximal hUB hUo
  obtain ⟨g, hg⟩ := geometric_hahn_banach_open_point hB.interior isOpen_interior
    (fun h => h0 (interior_subset h))
  have hg0 : g ((0 : Fin L → ℝ), (0 : ℝ)) = 0 := by
    have : ((0 : Fin L → ℝ), (0 : ℝ)) = 0 := rfl
    rw [this, map_zero]
  rw [hg0] at hg
  set τ : ℝ := g (0, 1) with hτ
  set lam : (Fin L → ℝ) →L[ℝ] ℝ := g.comp (ContinuousLinearMap.inl ℝ (Fin L → ℝ) ℝ) with hlam
  have hsplit : ∀ (u : Fin L → ℝ) (t : ℝ), g (u, t) = lam u + t * τ := by
    intro u t
    have : (u, t) = (u, (0 : ℝ)) + t • ((0 : Fin L → ℝ), (1 : ℝ)) := by
      ext <;> simp
    rw [this, map_add, map_smul]
    simp [hlam, hτ]
  -- the coefficient of the last coordinate is positive
  have hτpos : 0 < τ := by
    set t0 : ℝ := -|m| - 1 with ht0
    have ht0m : t0 < m := by have := neg_abs_le m; linarith
    have ht0neg : t0 < 0 := by have := abs_nonneg m; linarith
    have h := hg _ (hUi (hU t0 ht0m))
    rw [hsplit, map_zero, zero_add] at h
    by_contra hcon
    have : 0 ≤ t0 * τ := mul_nonneg_of_nonpos_of_nonpos ht0neg.le (not_lt.mp hcon)
    linarith
  -- the bound on `B`
  have hle : ∀ p ∈ B, g p ≤ 0 := by
    intro p hp
    by_contra hcon
    have hpos : 0 < g p := not_le.mp hcon
    set x0 : (Fin L → ℝ) × ℝ := (0, m - 1) with hx0
    have hx0i : x0 ∈ interior B := hUi (hU (m - 1) (by linarith))
    have hx0neg : g x0 < 0 := hg x0 hx0i
    set θ : ℝ := g p / (g p - g x0) with hθ
    have hden : 0 < g p - g x0 := by linarith
    have hθpos : 0 < θ := div_pos hpos hden
    have hθle : θ ≤ 1 := by
      rw [hθ, div_le_one hden]; linarith
    have hmem := hB.add_smul_sub_mem_interior hp hx0i ⟨hθpos, hθle⟩
    have h := hg _ hmem
    rw [map_add, map_smul, map_sub, smul_eq_mul] at h
    have e : g p + θ * (g x0 - g p) = 0 := by
      rw [hθ]; field_simp; ring
    linarith
  refine ⟨fun l => lam (fun j => if l = j then 1 else 0) / τ, fun p hp => ?_⟩
  have h := hle p hp
  have hp' : p = (p.1, p.2) := rfl
  rw [hp', hsplit] at h
  have hrep : lam p.1 = ∑ l, p.1 l * lam (fun j => if l = j then 1 else 0) := by
    have h' := LinearMap.pi_apply_eq_sum_univ (lam : (Fin L → ℝ) →ₗ[ℝ] ℝ) p.1
    simpa [smul_eq_mul] using h'
  have e : ∑ l, lam (fun j => if l = j then 1 else 0) / τ * p.1 l = lam p.1 / τ := by
    rw [hrep, Finset.sum_div]
    apply Finset.sum_congr rfl; intro l _; ring
  rw [e]
  have : lam p.1 / τ + p.2 = (lam p.1 + p.2 * τ) / τ := by field_simp
  rw [this]
  exact div_nonpos_of_nonpos_of_nonneg h hτpos.le

/-! ### 5. Completeness for arbitrary supports: finitely supported distributions -/

section atoms
variable (S nE nz : ℕ) (Ev : ℕ → ℕ → Prop) [∀ k s, Decidable (Ev k s)]
  (pc : ℕ → ℕ) (mc : ℕ → ℕ → ℕ)

/-- a finitely supported distribution: `nA` atoms `atoms s i` per scenario with weights
`w s i ≥ 0`; an atom that carries weight lies in the support `Z s` of its scenario -/
def AtomsIn (nA : ℕ) (Z : ℕ → (ℕ → ℝ) → Prop) (atoms : ℕ → ℕ → ℕ → ℝ) (w : ℕ → ℕ → ℝ) : Prop :=
  ∀ s < S, ∀ i < nA, 0 ≤ w s i ∧ (w s i ≠ 0 → Z s (atoms s i))

/-- the lifted point `ζ` carries the probabilities and scaled means induced by the distribution,
up to the offsets `u` (one per link row: `u s` for `s < S`, `u (S + (k·nz + j))` for the mean of
component `j` on event `k`); `u = 0` is `Induces` -/
def InducesOff (nA : ℕ) (atoms : ℕ → ℕ → ℕ → ℝ) (w : ℕ → ℕ → ℝ) (ζ : ℕ → ℝ) (u : ℕ → ℝ) : Prop :=
  (∀ s < S, ζ (pc s) = pOf nA w s + u s) ∧
  (∀ k < nE, ∀ j < nz, ζ (mc k j) = muOf S nA atoms Ev w k j + u (S + (k * nz + j)))

/-- expected integrand of a finitely supported distribution -/
def valOf (nA : ℕ) (atoms : ℕ → ℕ → ℕ → ℝ) (w : ℕ → ℕ → ℝ) (f : ℕ → (ℕ → ℝ) → ℝ) : ℝ :=
  ∑ s ∈ range S, ∑ i ∈ range nA, w s i * f s (atoms s i)

lemma inducesOff_zero_iff (nA : ℕ) (atoms : ℕ → ℕ → ℕ → ℝ) (w : ℕ → ℕ → ℝ) (ζ : ℕ → ℝ) :
    InducesOff S nE nz Ev pc mc nA atoms w ζ (fun _ => 0) ↔
      Induces S nE nz nA atoms Ev pc mc w ζ := by
  unfold InducesOff Induces
  simp only [add_zero]

lemma inducesOff_congr (nA : ℕ) (atoms : ℕ → ℕ → ℕ → ℝ) (w : ℕ → ℕ → ℝ) (ζ : ℕ → ℝ)
    (u u' : ℕ → ℝ) (h : ∀ l < S + nE * nz, u l = u' l)
    (hu : InducesOff S nE nz Ev pc mc nA atoms w ζ u) :
    InducesOff S nE nz Ev pc mc nA atoms w ζ u' := by
  refine ⟨fun s hs => ?_, fun k hk j hj => ?_⟩
  · rw [← h s (by omega)]; exact hu.1 s hs
  · have := flat_lt nE nz k j hk hj
    rw [← h _ (by omega)]; exact hu.2 k hk j hj

/-- mixture of two weighted atom families: a sum over the concatenation -/
lemma sum_mix (n1 n2 : ℕ) (a b : ℝ) (w1 w2 x1 x2 : ℕ → ℝ) :
    ∑ i ∈ range (n1 + n2), (if i < n1 then a * w1 i else b * w2 (i - n1))
        * (if i < n1 then x1 i else x2 (i - n1))
      = a * ∑ i ∈ range n1, w1 i * x1 i + b * ∑ i ∈ range n2, w2 i * x2 i := by
  rw [Finset.sum_range_add, Finset.mul_sum, Finset.mul_sum]
  congr 1
  · apply Finset.sum_congr rfl; intro i hi
    rw [if_pos (Finset.mem_range.mp hi), if_pos (Finset.mem_range.mp hi)]; ring
  · apply Finset.sum_congr rfl; intro i _
    rw [if_neg (by omega), if_neg (by omega), Nat.add_sub_cancel_left]; ring

/-- atoms of the mixture -/
def mixAtoms (n1 : ℕ) (a1 a2 : ℕ → ℕ → ℕ → ℝ) : ℕ → ℕ → ℕ → ℝ :=
  fun s i => if i < n1 then a1 s i else a2 s (i - n1)
/-- weights of the mixture `a·(first) + b·(second)` -/
def mixW (n1 : ℕ) (a b : ℝ) (w1 w2 : ℕ → ℕ → ℝ) : ℕ → ℕ → ℝ :=
  fun s i => if i < n1 then a * w1 s i else b * w2 s (i - n1)

lemma mix_ev (n1 n2 : ℕ) (a b : ℝ) (a1 a2 : ℕ → ℕ → ℕ → ℝ) (w1 w2 : ℕ → ℕ → ℝ)
    (g : (ℕ → ℝ) → ℝ) (s : ℕ) :
    ∑ i ∈ range (n1 + n2), mixW n1 a b w1 w2 s i * g (mixAtoms n1 a1 a2 s i)
      = a * ∑ i ∈ range n1, w1 s i * g (a1 s i) + b * ∑ i ∈ range n2, w2 s i * g (a2 s i) := by
  rw [← sum_mix n1 n2 a b (w1 s) (w2 s) (fun i => g (a1 s i)) (fun i => g (a2 s i))]
  apply Finset.sum_congr rfl; intro i _
  unfold mixW mixAtoms
  by_cases h : i < n1
  · simp only [if_pos h]
  · simp only [if_neg h]

lemma mix_pOf (n1 n2 : ℕ) (a b : ℝ) (w1 w2 : ℕ → ℕ → ℝ) (s : ℕ) :
    pOf (n1 + n2) (mixW n1 a b w1 w2) s = a * pOf n1 w1 s + b * pOf n2 w2 s := by
  unfold pOf
  have := mix_ev n1 n2 a b (fun _ _ _ => 0) (fun _ _ _ => 0) w1 w2 (fun _ => 1) s
  simpa using this

lemma mix_muOf (n1 n2 : ℕ) (a b : ℝ) (a1 a2 : ℕ → ℕ → ℕ → ℝ) (w1 w2 : ℕ → ℕ → ℝ) (k j : ℕ) :
    muOf S (n1 + n2) (mixAtoms n1 a1 a2) Ev (mixW n1 a b w1 w2) k j
      = a * muOf S n1 a1 Ev w1 k j + b * muOf S n2 a2 Ev w2 k j := by
  unfold muOf
  rw [Finset.mul_sum, Finset.mul_sum, ← Finset.sum_add_distrib]
  apply Finset.sum_congr rfl; intro s _
  by_cases hk : Ev k s
  · simp only [if_pos hk]
    exact mix_ev n1 n2 a b a1 a2 w1 w2 (fun z => z j) s
  · simp only [if_neg hk]; ring

lemma mix_valOf (n1 n2 : ℕ) (a b : ℝ) (a1 a2 : ℕ → ℕ → ℕ → ℝ) (w1 w2 : ℕ → ℕ → ℝ)
    (f : ℕ → (ℕ → ℝ) → ℝ) :
    valOf S (n1 + n2) (mixAtoms n1 a1 a2) (mixW n1 a b w1 w2) f
      = a * valOf S n1 a1 w1 f + b * valOf S n2 a2 w2 f := by
  unfold valOf
  rw [Finset.mul_sum, Finset.mul_sum, ← Finset.sum_add_distrib]
  apply Finset.sum_congr rfl; intro s _
  exact mix_ev n1 n2 a b a1 a2 w1 w2 (f s) s

lemma mix_atomsIn (n1 n2 : ℕ) (a b : ℝ) (ha : 0 ≤ a) (hb : 0 ≤ b) (Z : ℕ → (ℕ → ℝ) → Prop)
    (a1 a2 : ℕ → ℕ → ℕ → ℝ) (w1 w2 : ℕ → ℕ → ℝ)
    (h1 : AtomsIn S n1 Z a1 w1) (h2 : AtomsIn S n2 Z a2 w2) :
    AtomsIn S (n1 + n2) Z (mixAtoms n1 a1 a2) (mixW n1 a b w1 w2) := by
  intro s hs i hi
  unfold mixW mixAtoms
  by_cases h : i < n1
  · simp only [if_pos h]
    obtain ⟨p1, p2⟩ := h1 s hs i h
    exact ⟨mul_nonneg ha p1, fun hne => p2 (fun h0 => hne (by rw [h0, mul_zero]))⟩
  · simp only [if_neg h]
    obtain ⟨p1, p2⟩ := h2 s hs (i - n1) (by omega)
    exact ⟨mul_nonneg hb p1, fun hne => p2 (fun h0 => hne (by rw [h0, mul_zero]))⟩

lemma extF_single {L : ℕ} (l : Fin L) (c : ℝ) (l' : ℕ) :
    extF (Pi.single l c : Fin L → ℝ) l' = if l' = l.val then c else 0 := by
  unfold extF
  by_cases h : l' < L
  · rw [dif_pos h, Pi.single_apply]
    by_cases e : l' = l.val
    · rw [if_pos e, if_pos (Fin.ext e)]
    · rw [if_neg e, if_neg (fun hh => e (congrArg Fin.val hh))]
  · rw [dif_neg h, if_neg (by have := l.isLt; omega)]

/-- the set separated from the origin: (offsets of the link rows, value below the expected
integrand) of the admissible distribution / lifted point pairs -/
def offSet (Z : ℕ → (ℕ → ℝ) → Prop) (A : Set (ℕ → ℝ)) (f : ℕ → (ℕ → ℝ) → ℝ) :
    Set ((Fin (S + nE * nz) → ℝ) × ℝ) :=
  {p | ∃ (nA : ℕ) (atoms : ℕ → ℕ → ℕ → ℝ) (w : ℕ → ℕ → ℝ) (ζ : ℕ → ℝ),
    AtomsIn S nA Z atoms w ∧ ζ ∈ A ∧ InducesOff S nE nz Ev pc mc nA atoms w ζ (extF p.1) ∧
    p.2 < valOf S nA atoms w f}

lemma offSet_convex (Z : ℕ → (ℕ → ℝ) → Prop) (A : Set (ℕ → ℝ)) (hA : Convex ℝ A)
    (f : ℕ → (ℕ → ℝ) → ℝ) : Convex ℝ (offSet S nE nz Ev pc mc Z A f) := by
  rintro p ⟨n1, a1, w1, ζ1, hat1, hζ1, hind1, hv1⟩ q ⟨n2, a2, w2, ζ2, hat2, hζ2, hind2, hv2⟩
    a b ha hb hab
  refine ⟨n1 + n2, mixAtoms n1 a1 a2, mixW n1 a b w1 w2, a • ζ1 + b • ζ2,
    mix_atomsIn S n1 n2 a b ha hb Z a1 a2 w1 w2 hat1 hat2, hA hζ1 hζ2 ha hb hab, ?_, ?_⟩
  · have hu : ∀ l, extF (a • p + b • q).1 l = a * extF p.1 l + b * extF q.1 l := by
      intro l
      have : (a • p + b • q).1 = a • p.1 + b • q.1 := rfl
      rw [this, extF_add, extF_smul, extF_smul]
    refine ⟨fun s hs => ?_, fun k hk j hj => ?_⟩
    · rw [mix_pOf, hu]
      show a * ζ1 (pc s) + b * ζ2 (pc s) = _
      rw [hind1.1 s hs, hind2.1 s hs]; ring
    · rw [mix_muOf, hu]
      show a * ζ1 (mc k j) + b * ζ2 (mc k j) = _
      rw [hind1.2 k hk j hj, hind2.2 k hk j hj]; ring
  · rw [mix_valOf]
    show a * p.2 + b * q.2 < _
    rcases ha.eq_or_lt with ha0 | ha0
    · have hb1 : b = 1 := by rw [← ha0] at hab; simpa using hab
      rw [← ha0, hb1]; simpa using hv2
    · have h1 : a * p.2 < a * valOf S n1 a1 w1 f := mul_lt_mul_of_pos_left hv1 ha0
      have h2 : b * q.2 ≤ b * valOf S n2 a2 w2 f := mul_le_mul_of_nonneg_left hv2.le hb
      linarith

/-- **Completeness of the event-wise reformulation for arbitrary supports and an arbitrary convex
lifted set** (core form; see `C04Soc.dro_complete_atoms`). -/
theorem dro_complete_atoms_core (Z : ℕ → (ℕ → ℝ) → Prop) (A : Set (ℕ → ℝ)) (hA : Convex ℝ A)
    (f : ℕ → (ℕ → ℝ) → ℝ)
    (hslater : ∃ ε : ℝ, 0 < ε ∧ ∀ u : ℕ → ℝ, (∀ l < S + nE * nz, |u l| ≤ ε) →
      ∃ (nA : ℕ) (atoms : ℕ → ℕ → ℕ → ℝ) (w : ℕ → ℕ → ℝ) (ζ : ℕ → ℝ),
        AtomsIn S nA Z atoms w ∧ ζ ∈ A ∧ InducesOff S nE nz Ev pc mc nA atoms w ζ u)
    (hworst : ∀ (nA : ℕ) (atoms : ℕ → ℕ → ℕ → ℝ) (w : ℕ → ℕ → ℝ) (ζ : ℕ → ℝ),
      AtomsIn S nA Z atoms w → ζ ∈ A → InducesOff S nE nz Ev pc mc nA atoms w ζ (fun _ => 0) →
      valOf S nA atoms w f ≤ 0) :
    ∃ (α : ℕ → ℝ) (β : ℕ → ℕ → ℝ),
      (∀ s < S, ∀ z, Z s z → f s z ≤ α s + ∑ k ∈ range nE,
        if Ev k s then ∑ j ∈ range nz, β k j * z j else 0) ∧
      (∀ ζ ∈ A, ∑ s ∈ range S, α s * ζ (pc s)
          + ∑ k ∈ range nE, ∑ j ∈ range nz, β k j * ζ (mc k j) ≤ 0) := by
  obtain ⟨ε, hε, hgen⟩ := hslater
  set L := S + nE * nz with hL
  set B := offSet S nE nz Ev pc mc Z A f with hBdef
  have hBconv : Convex ℝ B := offSet_convex S nE nz Ev pc mc Z A hA f
  -- the generators: offsets `0` and `±ε` on one link row
  obtain ⟨n0, a0, w0, ζ0, hat0, hζ0, hind0⟩ := hgen (fun _ => 0) (by intro l _; simp [hε.le])
  have hgp : ∀ l : Fin L, ∃ (nA : ℕ) (atoms : ℕ → ℕ → ℕ → ℝ) (w : ℕ → ℕ → ℝ) (ζ : ℕ → ℝ),
      AtomsIn S nA Z atoms w ∧ ζ ∈ A ∧
      InducesOff S nE nz Ev pc mc nA atoms w ζ (fun l' => if l' = l.val then ε else 0) := by
    intro l; apply hgen; intro l' _
    split_ifs
    · rw [abs_of_pos hε]
    · simp [hε.le]
  have hgm : ∀ l : Fin L, ∃ (nA : ℕ) (atoms : ℕ → ℕ → ℕ → ℝ) (w : ℕ → ℕ → ℝ) (ζ : ℕ → ℝ),
      AtomsIn S nA Z atoms w ∧ ζ ∈ A ∧
      InducesOff S nE nz Ev pc mc nA atoms w ζ (fun l' => if l' = l.val then -ε else 0) := by
    intro l; apply hgen; intro l' _
    split_ifs
    · rw [abs_neg, abs_of_pos hε]
    · simp [hε.le]
  choose np ap wp ζp hatp hζp hindp using hgp
  choose nm am wm ζm hatm hζm hindm using hgm
  set v0 : ℝ := valOf S n0 a0 w0 f with hv0
  set vp : Fin L → ℝ := fun l => valOf S (np l) (ap l) (wp l) f with hvp
  set vm : Fin L → ℝ := fun l => valOf S (nm l) (am l) (wm l) f with hvm
  set m : ℝ := v0 - ∑ l, (|vp l - v0| + |vm l - v0|) with hm
  have hnn : ∀ l : Fin L, 0 ≤ |vp l - v0| + |vm l - v0| := fun l => by positivity
  have hm0 : m ≤ v0 := by
    have : 0 ≤ ∑ l, (|vp l - v0| + |vm l - v0|) := Finset.sum_nonneg (fun l _ => hnn l)
    linarith
  have hsingle : ∀ l : Fin L, |vp l - v0| + |vm l - v0| ≤ ∑ l, (|vp l - v0| + |vm l - v0|) :=
    fun l => Finset.single_le_sum (fun l _ => hnn l) (Finset.mem_univ l)
  have hmp : ∀ l, m ≤ vp l := by
    intro l
    have h1 := hsingle l
    have h2 := neg_abs_le (vp l - v0)
    have h3 := abs_nonneg (vm l - v0)
    linarith
  have hmm : ∀ l, m ≤ vm l := by
    intro l
    have h1 := hsingle l
    have h2 := neg_abs_le (vm l - v0)
    have h3 := abs_nonneg (vp l - v0)
    linarith
  -- the open set inside `B`
  set U : Set ((Fin L → ℝ) × ℝ) := {p | ∑ l, |p.1 l| < ε ∧ p.2 < m} with hU
  have hUo : IsOpen U := by
    have c1 : Continuous fun p : (Fin L → ℝ) × ℝ => ∑ l, |p.1 l| :=
      continuous_finsetSum _ (fun l _ =>
        continuous_abs.comp ((continuous_apply l).comp continuous_fst))
    exact (isOpen_lt c1 continuous_const).inter (isOpen_lt continuous_snd continuous_const)
  have hUray : ∀ t < m, ((0 : Fin L → ℝ), t) ∈ U := by
    intro t ht
    refine ⟨?_, ht⟩
    simp [hε]
  have hUB : U ⊆ B := by
    rintro p ⟨hp1, hp2⟩
    -- `p` as a convex combination of the generators, all at height `p.2`
    set c : Fin L → ℝ := fun l => if 0 ≤ p.1 l then ε else -ε with hc
    set wt : Option (Fin L) → ℝ := fun o => match o with
      | none => 1 - ∑ l, |p.1 l| / ε
      | some l => |p.1 l| / ε with hwt
    set pts : Option (Fin L) → (Fin L → ℝ) × ℝ := fun o => match o with
      | none => (0, p.2)
      | some l => (Pi.single l (c l), p.2) with hpts
    have hsumdiv : ∑ l, |p.1 l| / ε = (∑ l, |p.1 l|) / ε := by rw [Finset.sum_div]
    have hw0 : ∀ o ∈ (Finset.univ : Finset (Option (Fin L))), 0 ≤ wt o := by
      intro o _
      cases o with
      | none =>
        show 0 ≤ 1 - ∑ l, |p.1 l| / ε
        rw [hsumdiv]
        have : (∑ l, |p.1 l|) / ε < 1 := by rw [div_lt_one hε]; exact hp1
        linarith
      | some l => exact div_nonneg (abs_nonneg _) hε.le
    have hw1 : ∑ o, wt o = 1 := by
      rw [Fintype.sum_option]
      show (1 - ∑ l, |p.1 l| / ε) + ∑ l, |p.1 l| / ε = 1
      ring
    have hmem : ∀ o ∈ (Finset.univ : Finset (Option (Fin L))), pts o ∈ B := by
      intro o _
      cases o with
      | none =>
        refine ⟨n0, a0, w0, ζ0, hat0, hζ0, ?_, lt_of_lt_of_le hp2 hm0⟩
        apply inducesOff_congr S nE nz Ev pc mc n0 a0 w0 ζ0 _ _ _ hind0
        intro l' _
        show (0:ℝ) = extF (0 : Fin L → ℝ) l'
        unfold extF; split_ifs <;> rfl
      | some l =>
        by_cases hs : 0 ≤ p.1 l
        · refine ⟨np l, ap l, wp l, ζp l, hatp l, hζp l, ?_, lt_of_lt_of_le hp2 (hmp l)⟩
          apply inducesOff_congr S nE nz Ev pc mc _ _ _ _ _ _ _ (hindp l)
          intro l' _
          show _ = extF (Pi.single l (c l) : Fin L → ℝ) l'
          rw [extF_single]
          simp only [hc, if_pos hs]
        · refine ⟨nm l, am l, wm l, ζm l, hatm l, hζm l, ?_, lt_of_lt_of_le hp2 (hmm l)⟩
          apply inducesOff_congr S nE nz Ev pc mc _ _ _ _ _ _ _ (hindm l)
          intro l' _
          show _ = extF (Pi.single l (c l) : Fin L → ℝ) l'
          rw [extF_single]
          simp only [hc, if_neg hs]
    have hcomb := hBconv.sum_mem hw0 hw1 hmem
    have heq : ∑ o, wt o • pts o = p := by
      rw [Fintype.sum_option]
      apply Prod.ext
      · funext l'
        simp only [hpts, hwt, Prod.smul_mk, smul_zero, Prod.fst_add, Prod.fst_sum, zero_add,
          Finset.sum_apply, Pi.smul_apply, smul_eq_mul, Pi.single_apply]
        rw [Finset.sum_eq_single l']
        · rw [if_pos rfl]
          simp only [hc]
          by_cases hs : 0 ≤ p.1 l'
          · rw [if_pos hs, abs_of_nonneg hs]; field_simp
          · rw [if_neg hs, abs_of_neg (not_le.mp hs)]; field_simp
        · intro l _ hne
          rw [if_neg (fun h => hne h.symm), mul_zero]
        · intro hn; exact absurd (Finset.mem_univ _) hn
      · simp only [hpts, hwt, Prod.smul_mk, Prod.snd_add, Prod.snd_sum, smul_eq_mul]
        rw [← Finset.sum_mul]
        ring
    rw [heq] at hcomb
    exact hcomb
  have h0B : ((0 : Fin L → ℝ), (0 : ℝ)) ∉ B := by
    rintro ⟨nA, atoms, w, ζ, hat, hζ, hind, hv⟩
    have hind' : InducesOff S nE nz Ev pc mc nA atoms w ζ (fun _ => 0) := by
      apply inducesOff_congr S nE nz Ev pc mc _ _ _ _ _ _ _ hind
      intro l' _
      show extF (0 : Fin L → ℝ) l' = 0
      unfold extF; split_ifs <;> rfl
    have := hworst nA atoms w ζ hat hζ hind'
    have hv' : (0:ℝ) < valOf S nA atoms w f := hv
    linarith
  obtain ⟨Λ, hΛ⟩ := sep_normalised B U hBconv hUo hUB m hUray h0B
  -- the bound for every admissible pair, with its offsets
  have hkey : ∀ (nA : ℕ) (atoms : ℕ → ℕ → ℕ → ℝ) (w : ℕ → ℕ → ℝ) (ζ : ℕ → ℝ) (u : ℕ → ℝ),
      AtomsIn S nA Z atoms w → ζ ∈ A → InducesOff S nE nz Ev pc mc nA atoms w ζ u →
      ∑ l ∈ range L, extF Λ l * u l + valOf S nA atoms w f ≤ 0 := by
    intro nA atoms w ζ u hat hζ hind
    by_contra hcon
    set D : ℝ := ∑ l ∈ range L, extF Λ l * u l + valOf S nA atoms w f with hD
    have hDpos : 0 < D := not_le.mp hcon
    have hp : ((fun l : Fin L => u l.val), valOf S nA atoms w f - D / 2) ∈ B := by
      refine ⟨nA, atoms, w, ζ, hat, hζ, ?_, ?_⟩
      · apply inducesOff_congr S nE nz Ev pc mc _ _ _ _ _ _ _ hind
        intro l' hl'
        show u l' = extF (fun l : Fin L => u l.val) l'
        unfold extF; rw [dif_pos hl']
      · show valOf S nA atoms w f - D / 2 < valOf S nA atoms w f
        linarith
    have h := hΛ _ hp
    have e : ∑ l : Fin L, Λ l * u l.val = ∑ l ∈ range L, extF Λ l * u l := sum_fin_extF' Λ u
    simp only at h
    rw [e] at h
    linarith
  -- the same, with the offsets given per link row
  have hkey' : ∀ (nA : ℕ) (atoms : ℕ → ℕ → ℕ → ℝ) (w : ℕ → ℕ → ℝ) (ζ : ℕ → ℝ)
      (up : ℕ → ℝ) (um : ℕ → ℕ → ℝ),
      AtomsIn S nA Z atoms w → ζ ∈ A → (∀ s < S, ζ (pc s) = pOf nA w s + up s) →
      (∀ k < nE, ∀ j < nz, ζ (mc k j) = muOf S nA atoms Ev w k j + um k j) →
      ∑ s ∈ range S, extF Λ s * up s
        + ∑ k ∈ range nE, ∑ j ∈ range nz, extF Λ (S + (k * nz + j)) * um k j
        + valOf S nA atoms w f ≤ 0 := by
    intro nA atoms w ζ up um hat hζ h1 h2
    set u : ℕ → ℝ := fun l => if l < S then up l else um ((l - S) / nz) ((l - S) % nz) with hu
    have hP : ∀ s < S, u s = up s := by intro s hs; simp only [hu, if_pos hs]
    have hM : ∀ k < nE, ∀ j < nz, u (S + (k * nz + j)) = um k j := by
      intro k _ j hj
      obtain ⟨e1, e2⟩ := flat_div_mod nz k j hj
      simp only [hu]
      rw [if_neg (by omega), Nat.add_sub_cancel_left, e1, e2]
    have hind : InducesOff S nE nz Ev pc mc nA atoms w ζ u :=
      ⟨fun s hs => by rw [hP s hs]; exact h1 s hs,
       fun k hk j hj => by rw [hM k hk j hj]; exact h2 k hk j hj⟩
    have h := hkey nA atoms w ζ u hat hζ hind
    rw [sum_lE S nE nz (extF Λ) u up um hP hM] at h
    exact h
  refine ⟨fun s => extF Λ s, fun k j => extF Λ (S + (k * nz + j)), ?_, ?_⟩
  · -- scenario rows: a large mass on one atom
    intro s0 hs0 z hz
    by_contra hcon
    set rhs : ℝ := extF Λ s0 + ∑ k ∈ range nE,
      (if Ev k s0 then ∑ j ∈ range nz, extF Λ (S + (k * nz + j)) * z j else 0) with hrhs
    have hgap : 0 < f s0 z - rhs := by linarith [not_le.mp hcon]
    set c1 : ℝ := ∑ s ∈ range S, extF Λ s * ζ0 (pc s)
      + ∑ k ∈ range nE, ∑ j ∈ range nz, extF Λ (S + (k * nz + j)) * ζ0 (mc k j) with hc1
    set M : ℝ := (|c1| + 1) / (f s0 z - rhs) with hM
    have hMpos : 0 < M := div_pos (by positivity) hgap
    have h := hkey' 1 (fun _ _ => z) (fun s _ => if s = s0 then M else 0) ζ0
      (fun s => ζ0 (pc s) - if s = s0 then M else 0)
      (fun k j => ζ0 (mc k j) - if Ev k s0 then M * z j else 0)
      (by
        intro s _ i _
        by_cases hs : s = s0
        · subst hs; simp only [if_true]; exact ⟨hMpos.le, fun _ => hz⟩
        · simp only [if_neg hs]; exact ⟨le_refl _, fun h => absurd rfl h⟩)
      hζ0
      (by
        intro s _
        unfold pOf
        simp only [Finset.sum_range_one]
        ring)
      (by
        intro k _ j _
        unfold muOf
        simp only [Finset.sum_range_one]
        have : ∑ s ∈ range S, (if Ev k s then (if s = s0 then M else 0) * z j else 0)
            = if Ev k s0 then M * z j else 0 := by
          rw [Finset.sum_eq_single s0]
          · simp
          · intro s _ hne; simp [hne]
          · intro hn; exact absurd (Finset.mem_range.mpr hs0) hn
        rw [this]; ring)
    have ev : valOf S 1 (fun _ _ => z) (fun s _ => if s = s0 then M else 0) f = M * f s0 z := by
      unfold valOf
      simp only [Finset.sum_range_one]
      rw [Finset.sum_eq_single s0]
      · simp
      · intro s _ hne; simp [hne]
      · intro hn; exact absurd (Finset.mem_range.mpr hs0) hn
    have e1 : ∑ s ∈ range S, extF Λ s * (ζ0 (pc s) - if s = s0 then M else 0)
        = ∑ s ∈ range S, extF Λ s * ζ0 (pc s) - M * extF Λ s0 := by
      have : ∀ s ∈ range S, extF Λ s * (ζ0 (pc s) - if s = s0 then M else 0)
          = extF Λ s * ζ0 (pc s) - (if s = s0 then M * extF Λ s else 0) := by
        intro s _; split_ifs <;> ring
      rw [Finset.sum_congr rfl this, Finset.sum_sub_distrib, Finset.sum_ite_eq',
        if_pos (Finset.mem_range.mpr hs0)]
    have e2 : ∑ k ∈ range nE, ∑ j ∈ range nz, extF Λ (S + (k * nz + j))
          * (ζ0 (mc k j) - if Ev k s0 then M * z j else 0)
        = ∑ k ∈ range nE, ∑ j ∈ range nz, extF Λ (S + (k * nz + j)) * ζ0 (mc k j)
          - M * ∑ k ∈ range nE,
            (if Ev k s0 then ∑ j ∈ range nz, extF Λ (S + (k * nz + j)) * z j else 0) := by
      rw [Finset.mul_sum, ← Finset.sum_sub_distrib]
      apply Finset.sum_congr rfl; intro k _
      by_cases hk : Ev k s0
      · simp only [if_pos hk]
        rw [Finset.mul_sum, ← Finset.sum_sub_distrib]
        apply Finset.sum_congr rfl; intro j _; ring
      · simp only [if_neg hk]; simp
    rw [ev, e1, e2] at h
    have hMg : M * (f s0 z - rhs) = |c1| + 1 := by
      rw [hM]; field_simp
    have hc1le := neg_abs_le c1
    have hexp : M * (f s0 z - rhs) = M * f s0 z - M * extF Λ s0
        - M * ∑ k ∈ range nE,
          (if Ev k s0 then ∑ j ∈ range nz, extF Λ (S + (k * nz + j)) * z j else 0) := by
      rw [hrhs]; ring
    linarith
  · -- the first-stage row: the zero distribution
    intro ζ hζ
    have h := hkey' 0 (fun _ _ _ => 0) (fun _ _ => 0) ζ (fun s => ζ (pc s)) (fun k j => ζ (mc k j))
      (by intro s _ i hi; omega) hζ
      (by intro s _; unfold pOf; simp)
      (by intro k _ j _; unfold muOf; simp)
    have ev : valOf S 0 (fun _ _ _ => 0) (fun _ _ => 0) f = 0 := by unfold valOf; simp
    rw [ev, add_zero] at h
    exact h

/-- **Soundness for finitely supported distributions**: multipliers with the scenario rows (H2) on
the supports and the first-stage row at the lifted point bound the expected integrand.  (Atoms of
weight zero may lie outside the support.) -/
theorem atoms_sound (Z : ℕ → (ℕ → ℝ) → Prop) (f : ℕ → (ℕ → ℝ) → ℝ)
    (α : ℕ → ℝ) (β : ℕ → ℕ → ℝ)
    (H2 : ∀ s < S, ∀ z, Z s z → f s z ≤ α s + ∑ k ∈ range nE,
        if Ev k s then ∑ j ∈ range nz, β k j * z j else 0)
    (nA : ℕ) (atoms : ℕ → ℕ → ℕ → ℝ) (w : ℕ → ℕ → ℝ) (ζ : ℕ → ℝ)
    (hat : AtomsIn S nA Z atoms w)
    (hind : Induces S nE nz nA atoms Ev pc mc w ζ)
    (H1 : ∑ s ∈ range S, α s * ζ (pc s)
        + ∑ k ∈ range nE, ∑ j ∈ range nz, β k j * ζ (mc k j) ≤ 0) :
    valOf S nA atoms w f ≤ 0 := by
  set fv : ℕ → ℕ → ℝ := fun s i =>
    if w s i = 0 then coefW nE nz atoms Ev α β s i else f s (atoms s i) with hfv
  have hval : valOf S nA atoms w f = ∑ s ∈ range S, ∑ i ∈ range nA, w s i * fv s i := by
    unfold valOf
    apply Finset.sum_congr rfl; intro s _
    apply Finset.sum_congr rfl; intro i _
    simp only [hfv]
    by_cases h0 : w s i = 0
    · rw [if_pos h0, h0, zero_mul, zero_mul]
    · rw [if_neg h0]
  rw [hval]
  apply vertex_sound S nE nz nA atoms Ev fv α β w (fun s hs i hi => (hat s hs i hi).1)
  · intro s hs i hi
    simp only [hfv]
    by_cases h0 : w s i = 0
    · rw [if_pos h0]; exact le_refl _
    · rw [if_neg h0]; exact H2 s hs _ ((hat s hs i hi).2 h0)
  · have e1 : ∑ s ∈ range S, α s * pOf nA w s = ∑ s ∈ range S, α s * ζ (pc s) := by
      apply Finset.sum_congr rfl; intro s hs
      rw [hind.1 s (Finset.mem_range.mp hs)]
    have e2 : ∑ k ∈ range nE, ∑ j ∈ range nz, β k j * muOf S nA atoms Ev w k j
        = ∑ k ∈ range nE, ∑ j ∈ range nz, β k j * ζ (mc k j) := by
      apply Finset.sum_congr rfl; intro k hk
      apply Finset.sum_congr rfl; intro j hj
      rw [hind.2 k (Finset.mem_range.mp hk) j (Finset.mem_range.mp hj)]
    rw [e1, e2]
    exact H1

end atoms

end RsomeV.C04

/-! ### 6. The feasible set of a conic program without exponential cones is convex -/

namespace RsomeV
open Finset ConeProg

lemma socMem_add (x y : ℕ → ℝ) (q : List ℕ) (hx : socMem x q) (hy : socMem y q) :
    socMem (fun i => x i + y i) q := by
  cases q with
  | nil => trivial
  | cons a T =>
    obtain ⟨hx0, hx1⟩ := hx
    obtain ⟨hy0, hy1⟩ := hy
    refine ⟨by linarith, ?_⟩
    rw [sum_map_eq_range] at hx1 hy1 ⊢
    have hin := soc_inner_le T.length (fun p => x (T.getD p 0)) (fun p => y (T.getD p 0))
      (x a) (y a) hx0 hy0 hx1 hy1
    have e : ∑ p ∈ range T.length, (x (T.getD p 0) + y (T.getD p 0)) ^ 2
        = ∑ p ∈ range T.length, x (T.getD p 0) ^ 2
          + 2 * ∑ p ∈ range T.length, x (T.getD p 0) * y (T.getD p 0)
          + ∑ p ∈ range T.length, y (T.getD p 0) ^ 2 := by
      rw [Finset.mul_sum, ← Finset.sum_add_distrib, ← Finset.sum_add_distrib]
      apply Finset.sum_congr rfl; intro p _; ring
    rw [e]
    nlinarith

/-- the feasible set of a conic program with second-order cones only is convex -/
theorem ConeProg.feas_convex (P : ConeProg ℝ) (E : ℝ → ℝ → ℝ → Prop) (hx : P.xmat = []) :
    Convex ℝ {ζ | P.Feas E ζ} := by
  intro x hx' y hy' a b ha hb hab
  have hxf : P.Feas E x := hx'
  have hyf : P.Feas E y := hy'
  refine ⟨P.lp.feas_convex hxf.lin hyf.lin ha hb hab, ?_, by intro e he; rw [hx] at he; simp at he⟩
  intro q hq
  have h1 := socMem_smul x q a ha (hxf.soc q hq)
  have h2 := socMem_smul y q b hb (hyf.soc q hq)
  exact socMem_add _ _ q h1 h2

end RsomeV

/-! ### 7. The points of a mixed support without exponential cones -/

namespace RsomeV.C04.Mix
open Finset RsomeV Dro

section
variable {K : Type} [Field K] [LinearOrder K] [IsStrictOrderedRing K]

/-- a sum with a prefix region and a window region (copy of `RsomeV.sum_two_regions` of
`RsomeV/L/DroSound.lean`, which cannot be imported here) -/
lemma sum_two_regions (n npro lo w : ℕ) (h1 : npro ≤ lo) (h2 : lo + w ≤ n) (f g x : ℕ → K) :
    ∑ j ∈ range n, (if j < npro then f j else if lo ≤ j ∧ j < lo + w then g (j - lo) else 0) * x j
      = ∑ j ∈ range npro, f j * x j + ∑ o ∈ range w, g o * x (lo + o) := by
  have e : ∀ j ∈ range n,
      (if j < npro then f j else if lo ≤ j ∧ j < lo + w then g (j - lo) else 0) * x j
      = (if j < npro then f j * x j else 0)
        + (if lo ≤ j ∧ j < lo + w then g (j - lo) * x j else 0) := by
    intro j _
    by_cases a : j < npro
    · rw [if_pos a, if_pos a, if_neg (by omega), add_zero]
    · rw [if_neg a, if_neg a, zero_add]
      split_ifs <;> simp
  rw [Finset.sum_congr rfl e, Finset.sum_add_distrib,
    sum_prefix n npro (by omega) _ (fun j _ hj => if_neg (by omega)),
    sum_window n lo w h2 _ (fun j _ hj => if_neg hj)]
  congr 1
  · apply Finset.sum_congr rfl; intro j hj
    rw [if_pos (Finset.mem_range.mp hj)]
  · apply Finset.sum_congr rfl; intro o ho
    have := Finset.mem_range.mp ho
    rw [if_pos (by omega), Nat.add_sub_cancel_left]

variable (pro : ConeProg K) (exps : List (ConeProg K × List ℕ))

/-- a row of the probability program, in the mixed support -/
lemma mix_row_pro (i : ℕ) (hi : i < pro.lp.nr) (x : ℕ → K) :
    (mixSupport pro exps).lp.row i x = ∑ j ∈ range pro.lp.nc, pro.lp.a i j * x j := by
  show ∑ j ∈ range (colEnd pro exps + 3 * (xsrc pro exps).length), mixA pro exps i j * x j = _
  rw [sum_prefix _ pro.lp.nc (by have := pro_nc_le_colEnd pro exps; omega)]
  · apply Finset.sum_congr rfl; intro j hj
    rw [mixA_pro pro exps i hi, if_pos (Finset.mem_range.mp hj)]
  · intro j _ hj
    rw [mixA_pro pro exps i hi, if_neg (by omega), zero_mul]

/-- a row of expectation program `k` in the mixed support: the perspective form
`a_r · μ_k - (Σ_{s ∈ E_k} p_s)·b_r` -/
lemma mix_row_blk (k : ℕ) (hk : k < exps.length) (r : ℕ) (hr : r < (blk exps k).lp.nr)
    (x : ℕ → K) :
    (mixSupport pro exps).lp.row (rowOff pro exps k + r) x
      = ∑ j ∈ range pro.lp.nc, - (((idx exps k).count j : ℕ) : K) * (blk exps k).lp.b r * x j
        + ∑ o ∈ range (blk exps k).lp.nc, (blk exps k).lp.a r o * x (colOff pro exps k + o) := by
  show ∑ j ∈ range (colEnd pro exps + 3 * (xsrc pro exps).length),
    mixA pro exps (rowOff pro exps k + r) j * x j = _
  simp only [mixA_blk pro exps k hk r hr]
  exact sum_two_regions _ pro.lp.nc (colOff pro exps k) (blk exps k).lp.nc
    (pro_nc_le_colOff pro exps k) (by have := colOff_add_le pro exps k hk; omega) _ _ x

/-- without exponential cones there are no copy rows -/
lemma xsrc_nil (hxp : pro.xmat = []) (hxe : ∀ k < exps.length, (blk exps k).xmat = []) :
    xsrc pro exps = [] := by
  apply List.eq_nil_iff_forall_not_mem.mpr
  intro e he
  rcases (mem_xsrc pro exps e).mp he with h | ⟨k, hk, e', he', _⟩
  · rw [hxp] at h; simp at h
  · rw [hxe k hk] at he'; simp at he'

/-- **The points of the lifted support** (no exponential cones): `ζ` is a point of
`mixSupport pro exps` iff its probability block satisfies the rows of `pro`, every expectation block
satisfies the rows of its program in perspective form, and the (shifted) second-order cones hold. -/
theorem mix_feas_iff (hxp : pro.xmat = []) (hxe : ∀ k < exps.length, (blk exps k).xmat = [])
    (E : K → K → K → Prop) (ζ : ℕ → K) :
    (mixSupport pro exps).Feas E ζ ↔
      ((∀ i < pro.lp.nr,
          if pro.lp.eq i then ∑ j ∈ range pro.lp.nc, pro.lp.a i j * ζ j = pro.lp.b i
          else ∑ j ∈ range pro.lp.nc, pro.lp.a i j * ζ j ≤ pro.lp.b i) ∧
       (∀ k < exps.length, ∀ r < (blk exps k).lp.nr,
          if (blk exps k).lp.eq r then
            ∑ j ∈ range pro.lp.nc, - (((idx exps k).count j : ℕ) : K) * (blk exps k).lp.b r * ζ j
              + ∑ o ∈ range (blk exps k).lp.nc, (blk exps k).lp.a r o * ζ (colOff pro exps k + o) = 0
          else
            ∑ j ∈ range pro.lp.nc, - (((idx exps k).count j : ℕ) : K) * (blk exps k).lp.b r * ζ j
              + ∑ o ∈ range (blk exps k).lp.nc, (blk exps k).lp.a r o * ζ (colOff pro exps k + o) ≤ 0) ∧
       (∀ q ∈ (mixSupport pro exps).qmat, socMem ζ q)) := by
  have hsrc := xsrc_nil pro exps hxp hxe
  have hxm : (mixSupport pro exps).xmat = [] := by
    show (List.range (xsrc pro exps).length).map _ = []
    rw [hsrc]; rfl
  have hnr : (mixSupport pro exps).lp.nr = rowEnd pro exps := by
    rw [mix_nr, hsrc]; rfl
  constructor
  · intro h
    refine ⟨fun i hi => ?_, fun k hk r hr => ?_, h.soc⟩
    · have := h.lin.rows i (by rw [hnr]; have := pro_nr_le_rowEnd pro exps; omega)
      rw [mix_row_pro pro exps i hi, mix_b_pro pro exps i hi] at this
      have he : (mixSupport pro exps).lp.eq i = pro.lp.eq i := mixEq_pro pro exps i hi
      rw [he] at this
      exact this
    · have := h.lin.rows (rowOff pro exps k + r)
        (by rw [hnr]; have := rowOff_add_le pro exps k hk; omega)
      rw [mix_row_blk pro exps k hk r hr, mix_b_ge pro exps _ (by unfold rowOff; omega)] at this
      have he : (mixSupport pro exps).lp.eq (rowOff pro exps k + r) = (blk exps k).lp.eq r :=
        mixEq_blk pro exps k hk r hr
      rw [he] at this
      exact this
  · rintro ⟨h1, h2, h3⟩
    refine ⟨⟨?_, fun _ _ => trivial, fun _ _ => trivial⟩, h3,
      by intro e he; rw [hxm] at he; simp at he⟩
    intro i hi
    rw [hnr] at hi
    by_cases hip : i < pro.lp.nr
    · have := h1 i hip
      rw [mix_row_pro pro exps i hip, mix_b_pro pro exps i hip]
      have he : (mixSupport pro exps).lp.eq i = pro.lp.eq i := mixEq_pro pro exps i hip
      rw [he]
      exact this
    · obtain ⟨k, r, _, hk, hr, he⟩ := locate_some (rowW exps) (i - pro.lp.nr)
        (by unfold rowEnd at hi; omega)
      rw [rowW_length] at hk
      rw [rowW_getD] at hr
      have hi' : i = rowOff pro exps k + r := by unfold rowOff; omega
      subst hi'
      have := h2 k hk r hr
      rw [mix_row_blk pro exps k hk r hr, mix_b_ge pro exps _ (by unfold rowOff; omega)]
      have he' : (mixSupport pro exps).lp.eq (rowOff pro exps k + r) = (blk exps k).lp.eq r :=
        mixEq_blk pro exps k hk r hr
      rw [he']
      exact this

end

end RsomeV.C04.Mix
