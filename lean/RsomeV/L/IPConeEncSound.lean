import RsomeV.M.IPConeEnc
import RsomeV.L.IPConeAtoms
import RsomeV.L.ConeDualWeak

/-! Soundness link between the executable standard-form model of the 'G' / 'T' / 'C' branches
(`RsomeV/M/IPConeEnc.lean`, compared entry by entry with the real `do_math()`) and the value-level
systems `PnormEnc`, `PowerEnc`, `GmeanEnc`: every point feasible for the assembled conic program
satisfies the value-level system (hence, by `RsomeV/L/IPConeAtoms.lean`, the user's inequality). -/

set_option linter.unusedSectionVars false
set_option linter.unusedSimpArgs false
set_option linter.unusedVariables false

namespace RsomeV.IPC
open Finset

variable {K : Type} [Field K] [LinearOrder K] [IsStrictOrderedRing K]

/-! ### evaluation of affine expressions and rows -/

/-- value of an affine expression at the point `v` (columns `< N`) -/
def Aff.ev (N : ℕ) (v : ℕ → K) (a : Aff K) : K := ∑ j ∈ range N, a.lin j * v j + a.c

section Ev
variable (N : ℕ) (v : ℕ → K)

lemma ev_add (a b : Aff K) : (a.add b).ev N v = a.ev N v + b.ev N v := by
  simp only [Aff.ev, Aff.add, add_mul, sum_add_distrib]; ring

lemma ev_sub (a b : Aff K) : (a.sub b).ev N v = a.ev N v - b.ev N v := by
  simp only [Aff.ev, Aff.sub, sub_mul, sum_sub_distrib]; ring

lemma ev_neg (a : Aff K) : a.neg.ev N v = - a.ev N v := by
  simp only [Aff.ev, Aff.neg, neg_mul, sum_neg_distrib]; ring

lemma ev_smul (k : K) (a : Aff K) : (Aff.smul k a).ev N v = k * a.ev N v := by
  simp only [Aff.ev, Aff.smul, mul_assoc, ← mul_sum]; ring

lemma ev_const (c : K) : (Aff.const c).ev N v = c := by
  simp [Aff.ev, Aff.const]

lemma ev_col {j : ℕ} (h : j < N) : (Aff.col j : Aff K).ev N v = v j := by
  simp only [Aff.ev, Aff.col, ite_mul, one_mul, zero_mul, add_zero]
  rw [sum_ite_eq' (range N) j]; simp [h]

lemma ev_sum (l : List (Aff K)) : (Aff.sum l).ev N v = (l.map (Aff.ev N v)).sum := by
  induction l with
  | nil => simp [Aff.sum, ev_const]
  | cons a t ih => simp [Aff.sum, ev_add, ih]

lemma list_sum_map_range (f : ℕ → K) (n : ℕ) : ((List.range n).map f).sum = ∑ j ∈ range n, f j := by
  induction n with
  | zero => simp
  | succ n ih => rw [List.range_succ, List.map_append, List.sum_append, ih, sum_range_succ]; simp

/-- an expression over the first `n` columns has the same value at every larger `N` -/
lemma ev_of_supp {a : Aff K} {n : ℕ} (hs : ∀ j, n ≤ j → a.lin j = 0) (hn : n ≤ N) :
    a.ev N v = a.ev n v := by
  simp only [Aff.ev]
  congr 1
  symm
  apply sum_subset (range_subset_range.mpr hn)
  intro j _ hj
  rw [hs j (by simpa using hj), zero_mul]

/-- the row holds at `v` -/
def Row.holds (r : Row K) : Prop :=
  if r.eq then ∑ j ∈ range N, r.lin j * v j = r.rhs else ∑ j ∈ range N, r.lin j * v j ≤ r.rhs

lemma leRow_holds (a : Aff K) : (leRow a).holds N v ↔ a.ev N v ≤ 0 := by
  simp only [Row.holds, leRow, Aff.ev]
  constructor <;> intro h <;> simp at h ⊢ <;> linarith

lemma eqRow_holds (a : Aff K) : (eqRow a).holds N v ↔ a.ev N v = 0 := by
  simp only [Row.holds, eqRow, Aff.ev]
  constructor <;> intro h <;> simp at h ⊢ <;> linarith

/-- the pending constraint holds at `v` -/
def Pend.holds : Pend K → Prop
  | .abs L S => |L.ev N v| ≤ S.ev N v
  | .cone L U V => L.ev N v ^ 2 ≤ U.ev N v * V.ev N v ∧ 0 ≤ U.ev N v ∧ 0 ≤ V.ev N v

/-- all rows and cones recorded so far hold at `v`, and all columns created so far are `< N` -/
structure Good (st : Bld K) : Prop where
  last : st.last ≤ N
  rows : ∀ r ∈ st.rows, r.holds N v
  soc : ∀ q ∈ st.qmat, socMem v q

end Ev

/-- from the second-order-cone form of `rsocone` back to the rotated cone -/
lemma rcone_of_soc {x u v a0 a1 ar : K} (h0 : a0 = (u - v) / 2) (h1 : a1 = x)
    (hr : ar ≤ (u + v) / 2) (hnn : 0 ≤ ar) (hs : a0 ^ 2 + a1 ^ 2 ≤ ar ^ 2) :
    x ^ 2 ≤ u * v ∧ 0 ≤ u ∧ 0 ≤ v := by
  subst h0 h1
  have hsq : ar ^ 2 ≤ ((u + v) / 2) ^ 2 := pow_le_pow_left₀ hnn hr 2
  have hid : ((u + v) / 2) ^ 2 - ((u - v) / 2) ^ 2 = u * v := by ring
  have huv : a1 ^ 2 ≤ u * v := by linarith
  have hnn' : 0 ≤ u * v := le_trans (sq_nonneg a1) huv
  have hsum : 0 ≤ u + v := by linarith
  have hu : 0 ≤ u := by
    by_contra hneg
    have hu' : u < 0 := lt_of_not_ge hneg
    have hv' : 0 < v := by linarith
    have : u * v < 0 := mul_neg_of_neg_of_pos hu' hv'
    linarith
  have hv : 0 ≤ v := by
    by_contra hneg
    have hv' : v < 0 := lt_of_not_ge hneg
    have hu' : 0 < u := by linarith
    have : u * v < 0 := mul_neg_of_pos_of_neg hu' hv'
    linarith
  exact ⟨huv, hu, hv⟩

/-! ### the second loop -/

lemma process_good (N : ℕ) (v : ℕ → K) (st : Bld K) (p : Pend K) (h : Good N v (process st p)) :
    Good N v st ∧ p.holds N v := by
  cases p with
  | abs L S =>
    simp only [process] at h
    refine ⟨⟨h.last, fun r hr => h.rows r (List.mem_append_left _ hr), h.soc⟩, ?_⟩
    have h1 := (leRow_holds N v _).mp
      (h.rows (leRow (L.add S.neg)) (List.mem_append_right _ (by simp)))
    have h2 := (leRow_holds N v _).mp
      (h.rows (leRow (L.neg.add S.neg)) (List.mem_append_right _ (by simp)))
    simp only [ev_add, ev_neg] at h1 h2
    exact abs_le.mpr ⟨by linarith, by linarith⟩
  | cone L U V =>
    simp only [process] at h
    have hl := h.last
    simp only at hl
    refine ⟨⟨by omega, fun r hr => h.rows r (List.mem_append_left _ hr),
      fun q hq => h.soc q (List.mem_append_left _ hq)⟩, ?_⟩
    have h1 := (eqRow_holds N v _).mp
      (h.rows (eqRow ((Aff.smul (1 / 2) (U.sub V)).sub (Aff.col st.last)))
        (List.mem_append_right _ (by simp)))
    have h2 := (eqRow_holds N v _).mp (h.rows (eqRow (L.sub (Aff.col (st.last + 1))))
      (List.mem_append_right _ (by simp)))
    have h3 := (leRow_holds N v _).mp
      (h.rows (leRow ((Aff.smul (1 / 2) (U.add V)).neg.add (Aff.col (st.last + 2))))
        (List.mem_append_right _ (by simp)))
    have hs := h.soc [st.last + 2, st.last, st.last + 1] (List.mem_append_right _ (by simp))
    simp only [ev_sub, ev_add, ev_neg, ev_smul, ev_col N v (show st.last < N by omega),
      ev_col N v (show st.last + 1 < N by omega), ev_col N v (show st.last + 2 < N by omega)] at h1 h2 h3
    simp only [socMem, List.map_cons, List.map_nil, List.sum_cons, List.sum_nil, add_zero] at hs
    exact rcone_of_soc (x := L.ev N v) (u := U.ev N v) (v := V.ev N v)
      (by linarith) (by linarith) (by linarith) hs.1 hs.2

lemma foldl_process_good (N : ℕ) (v : ℕ → K) : ∀ (pend : List (Pend K)) (st : Bld K),
    Good N v (pend.foldl process st) → Good N v st ∧ ∀ p ∈ pend, p.holds N v
  | [], st, h => ⟨h, by simp⟩
  | p :: ps, st, h => by
    rw [List.foldl_cons] at h
    obtain ⟨h1, h2⟩ := foldl_process_good N v ps (process st p) h
    obtain ⟨h3, h4⟩ := process_good N v st p h1
    refine ⟨h3, ?_⟩
    intro q hq
    rcases List.mem_cons.mp hq with rfl | hq
    · exact h4
    · exact h2 q hq

lemma process_last_le (st : Bld K) (p : Pend K) : st.last ≤ (process st p).last := by
  cases p <;> simp [process]

lemma foldl_process_last_le : ∀ (pend : List (Pend K)) (st : Bld K),
    st.last ≤ (pend.foldl process st).last
  | [], st => le_rfl
  | p :: ps, st => by
    rw [List.foldl_cons]
    exact le_trans (process_last_le st p) (foldl_process_last_le ps _)

/-- feasibility of the assembled program gives `Good` for the final builder state -/
lemma good_of_feas (st : Bld K) (E : K → K → K → Prop) (v : ℕ → K)
    (h : (assemble st).Feas E v) : Good st.last v st := by
  refine ⟨le_rfl, ?_, h.soc⟩
  intro r hr
  obtain ⟨i, hi, rfl⟩ := List.mem_iff_getElem.mp hr
  have := h.lin.rows i hi
  simp only [assemble, LinProg.row, List.getElem?_eq_getElem hi] at this
  simp only [Row.holds]
  exact this

/-! ### towers -/

lemma tower_spec {st st1 : Bld K} {left : Aff K} {right : List (Aff K)} {β : List ℕ}
    {pend : List (Pend K)} (h : tower st left right β = some (st1, pend)) :
    st1.rows = st.rows ∧ st1.qmat = st.qmat ∧ st.last ≤ st1.last ∧
    ∀ (N : ℕ) (v : ℕ → K), (∀ p ∈ pend, p.holds N v) →
      TowerSat β (left.ev N v) (fun i => (right.getD i (Aff.const 0)).ev N v) := by
  unfold tower at h
  cases ho : toSoc β with
  | none => rw [ho] at h; simp at h
  | some out =>
    rw [ho] at h
    simp only [Option.some.injEq, Prod.mk.injEq] at h
    obtain ⟨rfl, rfl⟩ := h
    refine ⟨rfl, rfl, by simp, ?_⟩
    intro N v hp
    refine ⟨fun var => (towerVal st.last left right var).ev N v, rfl, fun i _ => rfl, out, ho, ?_, ?_⟩
    · intro p hmem
      have := hp (Pend.abs (towerVal st.last left right p.1) (towerVal st.last left right p.2))
        (List.mem_append_left _ (List.mem_map.mpr ⟨p, hmem, rfl⟩))
      exact this
    · intro c hmem
      have := hp (Pend.cone (towerVal st.last left right c.left) (towerVal st.last left right c.u)
        (towerVal st.last left right c.v))
        (List.mem_append_right _ (List.mem_map.mpr ⟨c, hmem, rfl⟩))
      exact this

lemma towers_spec : ∀ (jobs : List (Aff K × List (Aff K) × List ℕ)) (st st' : Bld K)
    (pend : List (Pend K)), towers st jobs = some (st', pend) →
    st'.rows = st.rows ∧ st'.qmat = st.qmat ∧ st.last ≤ st'.last ∧
    ∀ (N : ℕ) (v : ℕ → K), (∀ p ∈ pend, p.holds N v) → ∀ job ∈ jobs,
      TowerSat job.2.2 (job.1.ev N v) (fun i => (job.2.1.getD i (Aff.const 0)).ev N v)
  | [], st, st', pend, h => by
    simp only [towers, Option.some.injEq, Prod.mk.injEq] at h
    obtain ⟨rfl, rfl⟩ := h
    exact ⟨rfl, rfl, le_rfl, fun _ _ _ job hj => by simp at hj⟩
  | (l, r, β) :: rest, st, st', pend, h => by
    simp only [towers] at h
    cases h1 : tower st l r β with
    | none => rw [h1] at h; simp at h
    | some res1 =>
      obtain ⟨st1, p1⟩ := res1
      rw [h1] at h
      simp only at h
      cases h2 : towers st1 rest with
      | none => rw [h2] at h; simp at h
      | some res2 =>
        obtain ⟨st2, p2⟩ := res2
        rw [h2] at h
        simp only [Option.some.injEq, Prod.mk.injEq] at h
        obtain ⟨rfl, rfl⟩ := h
        obtain ⟨a1, a2, a3, a4⟩ := tower_spec h1
        obtain ⟨b1, b2, b3, b4⟩ := towers_spec rest st1 st2 p2 h2
        refine ⟨b1.trans a1, b2.trans a2, le_trans a3 b3, ?_⟩
        intro N v hp job hj
        rcases List.mem_cons.mp hj with rfl | hj
        · exact a4 N v fun p hp' => hp p (List.mem_append_left _ hp')
        · exact b4 N v (fun p hp' => hp p (List.mem_append_right _ hp')) job hj

/-! ### the three branches -/

/-- everything the final state of a branch gives at a feasible point -/
lemma final_good {ncols : ℕ} {k : K} {ain aout : List (Aff K)} {pr : Params} {stF : Bld K}
    (h : finalState ncols k ain aout pr = some stF) (E : K → K → K → Prop) (v : ℕ → K)
    (hf : (assemble stF).Feas E v) :
    ∃ st0 pend, branch ncols k ain aout pr = some (st0, pend) ∧ st0.last ≤ stF.last ∧
      Good stF.last v st0 ∧ ∀ p ∈ pend, p.holds stF.last v := by
  unfold finalState at h
  cases hb : branch ncols k ain aout pr with
  | none => rw [hb] at h; simp at h
  | some res =>
    obtain ⟨st0, pend⟩ := res
    rw [hb] at h
    simp only [Option.some.injEq] at h
    subst h
    obtain ⟨g1, g2⟩ := foldl_process_good _ v pend st0 (good_of_feas _ E v hf)
    exact ⟨st0, pend, rfl, foldl_process_last_le pend st0, g1, g2⟩

/-- **'G'**: a feasible point of the standard form satisfies the value-level system -/
theorem g_stdform_enc {ncols : ℕ} {k : K} {ain aout : List (Aff K)} {b c : ℕ} {stF : Bld K}
    (h : finalState ncols k ain aout (.g [b, c]) = some stF) (E : K → K → K → Prop) (v : ℕ → K)
    (hf : (assemble stF).Feas E v) :
    ncols ≤ stF.last ∧
    PnormEnc [b, c] ain.length (fun j => k * (ain.getD j (Aff.const 0)).ev stF.last v)
      ((aout.getD 0 (Aff.const 0)).ev stF.last v)
      (fun j => (Aff.col (ncols + j) : Aff K).ev stF.last v)
      ((Aff.col (ncols + ain.length) : Aff K).ev stF.last v) := by
  obtain ⟨st0, pend, hb, hlast, hg, hp⟩ := final_good h E v hf
  simp only [branch] at hb
  obtain ⟨a1, a2, a3, a4⟩ := towers_spec _ _ _ _ hb
  have a3' : ncols + ain.length + 1 ≤ st0.last := a3
  refine ⟨by omega, ?_, ?_, ?_⟩
  · have := (leRow_holds _ v _).mp (hg.rows
      (leRow ((Aff.col (ncols + ain.length)).add (aout.getD 0 (Aff.const 0))))
      (by rw [a1]; simp [gInit]))
    simpa [ev_add] using this
  · have := (leRow_holds _ v _).mp (hg.rows
      (leRow ((Aff.sum ((List.range ain.length).map fun j => Aff.col (ncols + j))).sub
        (Aff.col (ncols + ain.length)))) (by rw [a1]; simp [gInit]))
    rw [ev_sub, ev_sum, List.map_map, list_sum_map_range] at this
    simp only [Function.comp] at this
    linarith
  · intro j hj
    have := a4 _ v hp (Aff.smul k (ain.getD j (Aff.const 0)),
      [Aff.col (ncols + j), Aff.col (ncols + ain.length)], [b, c])
      (List.mem_map.mpr ⟨j, List.mem_range.mpr hj, rfl⟩)
    simp only [ev_smul] at this
    apply this.congr
    intro i hi
    have : i = 0 ∨ i = 1 := by simp at hi; omega
    rcases this with rfl | rfl <;> simp

/-- **'C'**: a feasible point of the standard form satisfies the value-level system -/
theorem c_stdform_enc {ncols : ℕ} {k : K} {ain aout : List (Aff K)} {β : List ℕ} {stF : Bld K}
    (h : finalState ncols k ain aout (.c β) = some stF) (E : K → K → K → Prop) (v : ℕ → K)
    (hf : (assemble stF).Feas E v) :
    ncols ≤ stF.last ∧
    GmeanEnc β k ((aout.getD 0 (Aff.const 0)).ev stF.last v)
      (fun i => (ain.getD i (Aff.const 0)).ev stF.last v)
      ((Aff.col ncols : Aff K).ev stF.last v) := by
  obtain ⟨st0, pend, hb, hlast, hg, hp⟩ := final_good h E v hf
  simp only [branch] at hb
  obtain ⟨a1, a2, a3, a4⟩ := tower_spec hb
  have a3' : ncols + 1 ≤ st0.last := a3
  refine ⟨by omega, ?_, a4 _ v hp⟩
  have := (leRow_holds _ v _).mp (hg.rows
    (leRow ((Aff.smul k (Aff.col ncols)).add (aout.getD 0 (Aff.const 0))))
    (by rw [a1]; simp [cInit]))
  simp only [ev_add, ev_smul] at this
  rw [mul_comm]; exact this

lemma mem_zip_range {α : Type} (l : List α) {i : ℕ} (hi : i < l.length) :
    (i, l[i]) ∈ (List.range l.length).zip l := by
  apply List.mem_iff_getElem.mpr
  refine ⟨i, by simp [hi], ?_⟩
  simp

/-- **'T'**: a feasible point of the standard form satisfies the value-level system of every element
of the broadcast -/
theorem t_stdform_enc {ncols : ℕ} {k : K} {ain aout : List (Aff K)} {items : List (ℕ × ℕ × ℕ)}
    {stF : Bld K} (h : finalState ncols k ain aout (.t items) = some stF)
    (E : K → K → K → Prop) (v : ℕ → K) (hf : (assemble stF).Feas E v) :
    ncols ≤ stF.last ∧
    ∀ (i : ℕ) (hi : i < items.length),
      PowerEnc items[i].2.1 items[i].2.2 ((ain.getD items[i].1 (Aff.const 0)).ev stF.last v)
        (1 / k * (aout.getD i (Aff.const 0)).ev stF.last v)
        ((Aff.col (ncols + i) : Aff K).ev stF.last v)
        ((Aff.col (ncols + items.length + i) : Aff K).ev stF.last v) := by
  obtain ⟨st0, pend, hb, hlast, hg, hp⟩ := final_good h E v hf
  simp only [branch] at hb
  cases ht : towers (tInit ncols ain items) (tJobs ncols ain items) with
  | none => rw [ht] at hb; simp at hb
  | some res =>
    obtain ⟨st1, pend1⟩ := res
    rw [ht] at hb
    simp only [Option.some.injEq, Prod.mk.injEq] at hb
    obtain ⟨rfl, rfl⟩ := hb
    obtain ⟨a1, a2, a3, a4⟩ := towers_spec _ _ _ _ ht
    have a3' : ncols + 2 * items.length ≤ st1.last := a3
    have hlast' : st1.last ≤ stF.last := hlast
    refine ⟨by omega, ?_⟩
    intro i hi
    have hmem := mem_zip_range items hi
    have hrowsT : ∀ r ∈ tTail ncols k aout items.length, r.holds stF.last v :=
      fun r hr => hg.rows r (List.mem_append_right _ hr)
    have hrows0 : ∀ r ∈ (tInit ncols ain items).rows, r.holds stF.last v :=
      fun r hr => hg.rows r (List.mem_append_left _ (by rw [a1]; exact hr))
    refine ⟨?_, ?_, ?_⟩
    · -- aux2 == 1
      have := (eqRow_holds _ v _).mp (hrowsT
        (eqRow ((Aff.col (ncols + items.length + i)).sub (Aff.const 1)))
        (List.mem_append_left _ (List.mem_map.mpr ⟨i, List.mem_range.mpr hi, rfl⟩)))
      simp only [ev_sub, ev_const] at this
      linarith
    · -- aux1 + out/mult <= 0
      have := (leRow_holds _ v _).mp (hrowsT
        (leRow ((Aff.col (ncols + i)).add (Aff.smul (1 / k) (aout.getD i (Aff.const 0)))))
        (List.mem_append_right _ (List.mem_map.mpr ⟨i, List.mem_range.mpr hi, rfl⟩)))
      simpa [ev_add, ev_smul] using this
    · by_cases he : items[i].2.1 = items[i].2.2
      · rw [if_pos he]
        have hrows : ∀ r ∈ tAbsRows ncols ain i items[i], r.holds stF.last v := by
          intro r hr
          apply hrows0 r
          exact List.mem_flatMap.mpr ⟨(i, items[i]), hmem, hr⟩
        simp only [tAbsRows, he, if_true] at hrows
        have h1 := (leRow_holds _ v _).mp (hrows
          (leRow ((ain.getD items[i].1 (Aff.const 0)).sub (Aff.col (ncols + i)))) (by simp))
        have h2 := (leRow_holds _ v _).mp (hrows
          (leRow ((Aff.col (ncols + i)).neg.sub (ain.getD items[i].1 (Aff.const 0)))) (by simp))
        simp only [ev_sub, ev_neg] at h1 h2
        exact ⟨by linarith, by linarith⟩
      · rw [if_neg he]
        have hjob : tJob ncols items.length ain i items[i] =
            some (ain.getD items[i].1 (Aff.const 0),
              [Aff.col (ncols + i), Aff.col (ncols + items.length + i)],
              [items[i].2.2, items[i].2.1 - items[i].2.2]) := by
          simp [tJob, he]
        have := a4 _ v hp _ (List.mem_filterMap.mpr ⟨(i, items[i]), hmem, hjob⟩)
        apply this.congr
        intro i' hi'
        have : i' = 0 ∨ i' = 1 := by simp at hi'; omega
        rcases this with rfl | rfl <;> simp

/-! ### from the standard form to the user's inequality -/

/-- the expression only mentions the user columns `< n` -/
def Aff.UserOnly (n : ℕ) (a : Aff K) : Prop := ∀ j, n ≤ j → a.lin j = 0

lemma getD_userOnly {n : ℕ} {l : List (Aff K)} (h : ∀ a ∈ l, a.UserOnly n) (i : ℕ) :
    (l.getD i (Aff.const 0)).UserOnly n := by
  by_cases hi : i < l.length
  · rw [List.getD_eq_getElem _ _ hi]; exact h _ (List.getElem_mem hi)
  · rw [List.getD_eq_default _ _ (by omega)]; intro j _; rfl

lemma atomEncode_some {ncols : ℕ} {k : K} {ain aout : List (Aff K)} {pr : Params} {P : ConeProg K}
    (h : atomEncode ncols k ain aout pr = some P) :
    ∃ stF, finalState ncols k ain aout pr = some stF ∧ P = assemble stF := by
  unfold atomEncode at h
  obtain ⟨stF, h1, h2⟩ := Option.map_eq_some_iff.mp h
  exact ⟨stF, h1, h2.symm⟩

/-- 'G', integer degree: feasibility of the standard form implies `‖k·(Ain x + bin)‖_p ≤ -(Aout x + bout)`
in root-free form, evaluated on the user columns -/
theorem g_stdform_sound {ncols p : ℕ} (hp : 2 ≤ p) {k : K} {ain aout : List (Aff K)}
    (hin : ∀ a ∈ ain, a.UserOnly ncols) (hout : ∀ a ∈ aout, a.UserOnly ncols) {P : ConeProg K}
    (h : atomEncode ncols k ain aout (.g [1, p - 1]) = some P) (E : K → K → K → Prop) (v : ℕ → K)
    (hf : P.Feas E v) :
    0 ≤ -((aout.getD 0 (Aff.const 0)).ev ncols v) ∧
      ∑ j ∈ range ain.length, |k * (ain.getD j (Aff.const 0)).ev ncols v| ^ p ≤
        (-((aout.getD 0 (Aff.const 0)).ev ncols v)) ^ p := by
  obtain ⟨stF, h1, rfl⟩ := atomEncode_some h
  obtain ⟨hn, henc⟩ := g_stdform_enc h1 E v hf
  have := pnorm_int_sound hp henc
  rw [ev_of_supp _ v (getD_userOnly hout 0) hn] at this
  simp only [ev_of_supp _ v (getD_userOnly hin _) hn] at this
  exact this

/-- 'G', rational degree `(b+c)/b` over `ℝ` -/
theorem g_stdform_sound_real {ncols b c : ℕ} (hb : 1 ≤ b) (hc : 1 ≤ c) {k : ℝ}
    {ain aout : List (Aff ℝ)}
    (hin : ∀ a ∈ ain, a.UserOnly ncols) (hout : ∀ a ∈ aout, a.UserOnly ncols) {P : ConeProg ℝ}
    (h : atomEncode ncols k ain aout (.g [b, c]) = some P) (E : ℝ → ℝ → ℝ → Prop) (v : ℕ → ℝ)
    (hf : P.Feas E v) :
    0 ≤ -((aout.getD 0 (Aff.const 0)).ev ncols v) ∧
      ∑ j ∈ range ain.length, |k * (ain.getD j (Aff.const 0)).ev ncols v| ^ (((b + c : ℕ) : ℝ) / b) ≤
        (-((aout.getD 0 (Aff.const 0)).ev ncols v)) ^ (((b + c : ℕ) : ℝ) / b) := by
  obtain ⟨stF, h1, rfl⟩ := atomEncode_some h
  obtain ⟨hn, henc⟩ := g_stdform_enc h1 E v hf
  have := pnorm_frac_sound_real hb hc henc
  rw [ev_of_supp _ v (getD_userOnly hout 0) hn] at this
  simp only [ev_of_supp _ v (getD_userOnly hin _) hn] at this
  exact this

/-- 'T': feasibility of the standard form implies, for every element `i` of the broadcast,
`|in_i|^(p/q) ≤ -out_i/k` in root-free form -/
theorem t_stdform_sound {ncols : ℕ} {k : K} {ain aout : List (Aff K)} {items : List (ℕ × ℕ × ℕ)}
    (hin : ∀ a ∈ ain, a.UserOnly ncols) (hout : ∀ a ∈ aout, a.UserOnly ncols)
    (hpq : ∀ it ∈ items, 1 ≤ it.2.2 ∧ it.2.2 ≤ it.2.1) {P : ConeProg K}
    (h : atomEncode ncols k ain aout (.t items) = some P) (E : K → K → K → Prop) (v : ℕ → K)
    (hf : P.Feas E v) (i : ℕ) (hi : i < items.length) :
    0 ≤ -(1 / k * (aout.getD i (Aff.const 0)).ev ncols v) ∧
      |(ain.getD items[i].1 (Aff.const 0)).ev ncols v| ^ items[i].2.1 ≤
        (-(1 / k * (aout.getD i (Aff.const 0)).ev ncols v)) ^ items[i].2.2 := by
  obtain ⟨stF, h1, rfl⟩ := atomEncode_some h
  obtain ⟨hn, henc⟩ := t_stdform_enc h1 E v hf
  obtain ⟨hq1, hq2⟩ := hpq _ (List.getElem_mem hi)
  have := power_enc_sound hq1 hq2 (henc i hi)
  rw [ev_of_supp _ v (getD_userOnly hout i) hn, ev_of_supp _ v (getD_userOnly hin _) hn] at this
  exact this

/-- 'C': feasibility of the standard form implies `in_i ≥ 0` and `out ≤ k·gmean_β(in)` in root-free
form -/
theorem c_stdform_sound {ncols : ℕ} {k : K} (hk : 0 ≤ k) {ain aout : List (Aff K)} {β : List ℕ}
    (hne : β ≠ []) (hpos : ∀ b ∈ β, 1 ≤ b)
    (hin : ∀ a ∈ ain, a.UserOnly ncols) (hout : ∀ a ∈ aout, a.UserOnly ncols) {P : ConeProg K}
    (h : atomEncode ncols k ain aout (.c β) = some P) (E : K → K → K → Prop) (v : ℕ → K)
    (hf : P.Feas E v) :
    (∀ i < β.length, 0 ≤ (ain.getD i (Aff.const 0)).ev ncols v) ∧
      (0 ≤ (aout.getD 0 (Aff.const 0)).ev ncols v →
        ((aout.getD 0 (Aff.const 0)).ev ncols v) ^ β.sum ≤
          k ^ β.sum * ∏ i ∈ range β.length, ((ain.getD i (Aff.const 0)).ev ncols v) ^ β.getD i 0) := by
  obtain ⟨stF, h1, rfl⟩ := atomEncode_some h
  obtain ⟨hn, henc⟩ := c_stdform_enc h1 E v hf
  have := gmean_enc_sound hne hpos hk henc
  rw [ev_of_supp _ v (getD_userOnly hout 0) hn] at this
  simp only [ev_of_supp _ v (getD_userOnly hin _) hn] at this
  exact this

end RsomeV.IPC
