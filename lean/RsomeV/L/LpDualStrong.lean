import RsomeV.M.LpDual
import RsomeV.L.LpDualWeak
import RsomeV.L.Farkas
import Mathlib.Algebra.BigOperators.Fin
import Mathlib.Data.Fintype.BigOperators
import Mathlib.Data.Fintype.Sum
import Mathlib.Tactic.Linarith
import Mathlib.Tactic.Ring

/-! Strong duality (no gap + dual attainment) for the model of `lp.Model.do_math(primal=False)`,
from the affine Farkas lemma. -/

set_option linter.unusedSectionVars false
set_option linter.unusedSimpArgs false

namespace RsomeV
open Finset
variable {K : Type} [Field K] [LinearOrder K] [IsStrictOrderedRing K]

/-- extend a `Fin n`-indexed family by zero -/
def extF {n : ℕ} (f : Fin n → K) : ℕ → K := fun i => if h : i < n then f ⟨i, h⟩ else 0

lemma extF_val {n : ℕ} (f : Fin n → K) (i : Fin n) : extF f i.val = f i := by
  simp [extF]

lemma sum_fin_extF {n : ℕ} (f : Fin n → K) (g : ℕ → K) :
    ∑ i : Fin n, g i.val * f i = ∑ i ∈ range n, g i * extF f i := by
  rw [← Fin.sum_univ_eq_sum_range (fun i => g i * extF f i) n]
  apply Finset.sum_congr rfl; intro i _; rw [extF_val]

/-- affine Farkas with `ℕ`-indexed columns restricted to `range n` -/
theorem affine_farkas_cols (n : ℕ) (ι : Type) [Fintype ι] (a : ι → ℕ → K) (b : ι → K)
    (c : ℕ → K) (γ : K)
    (hfeas : ∃ x : ℕ → K, ∀ r, ∑ j ∈ range n, a r j * x j ≤ b r)
    (himp : ∀ x : ℕ → K, (∀ r, ∑ j ∈ range n, a r j * x j ≤ b r) → ∑ j ∈ range n, c j * x j ≤ γ) :
    ∃ y : ι → K, (∀ r, 0 ≤ y r) ∧ (∀ j < n, ∑ r, y r * a r j = c j) ∧ ∑ r, y r * b r ≤ γ := by
  obtain ⟨y, hy0, hyA, hyB⟩ := affine_farkas n ι (fun r (j : Fin n) => a r j.val) b
    (fun j : Fin n => c j.val) γ
    (by
      obtain ⟨x, hx⟩ := hfeas
      refine ⟨fun j => x j.val, fun r => ?_⟩
      rw [Fin.sum_univ_eq_sum_range (fun j => a r j * x j) n]
      exact hx r)
    (by
      intro x hx
      have h := himp (extF x) (fun r => by
        rw [← sum_fin_extF]; exact hx r)
      rw [← sum_fin_extF] at h
      exact h)
  exact ⟨y, hy0, fun j hj => hyA ⟨j, hj⟩, hyB⟩

lemma sum_fin_extF' {n : ℕ} (f : Fin n → K) (g : ℕ → K) :
    ∑ i : Fin n, f i * g i.val = ∑ i ∈ range n, extF f i * g i := by
  rw [← Fin.sum_univ_eq_sum_range (fun i => extF f i * g i) n]
  apply Finset.sum_congr rfl; intro i _; rw [extF_val]

lemma extF_nonneg {n : ℕ} (f : Fin n → K) (hf : ∀ i, 0 ≤ f i) (i : ℕ) : 0 ≤ extF f i := by
  unfold extF; split_ifs
  · exact hf _
  · exact le_refl _

namespace LinProg

/-- membership in a filtered range yields a position -/
lemma exists_getD_filter_range {n : ℕ} (p : ℕ → Bool) (j : ℕ) (hj : j < n) (hp : p j = true) :
    ∃ t, t < ((List.range n).filter p).length ∧ ((List.range n).filter p).getD t 0 = j := by
  have hmem : j ∈ (List.range n).filter p := by
    rw [List.mem_filter, List.mem_range]; exact ⟨hj, hp⟩
  obtain ⟨t, ht, he⟩ := List.getElem_of_mem hmem
  exact ⟨t, ht, by rw [← List.getElem_eq_getD (h := ht) 0]; exact he⟩

/-- the finite inequality system equivalent to `Feas` -/
structure Sys (P : LinProg K) (x : ℕ → K) : Prop where
  le  : ∀ i < P.augNr, P.augRow i x ≤ P.augB i
  ge  : ∀ i < P.augNr, P.augEq i = true → P.augB i ≤ P.augRow i x
  neg : ∀ k < P.nc, P.isNeg k = true → x k ≤ 0
  pos : ∀ k < P.nc, P.isFree k = false → P.isNeg k = false → 0 ≤ x k

lemma isNeg_iff (P : LinProg K) (j : ℕ) : P.isNeg j = true ↔ P.ub j = some 0 := by
  unfold isNeg
  cases hu : P.ub j with
  | none => simp
  | some u => simp

lemma sys_of_feas (P : LinProg K) (x : ℕ → K) (hx : P.Feas x) : P.Sys x := by
  refine ⟨?_, ?_, ?_, ?_⟩
  · intro i hi
    have hv := augRow_valid P x hx i hi
    by_cases he : P.augEq i
    · simp only [he, if_true] at hv; exact le_of_eq hv
    · simpa [he] using hv
  · intro i hi he
    have hv := augRow_valid P x hx i hi
    simp only [he, if_true] at hv; exact le_of_eq hv.symm
  · intro k hk hn
    have hub := hx.ubs k hk
    rw [isNeg_iff] at hn
    simpa [hn, leUb] using hub
  · intro j hj hf hn
    have hlb := hx.lbs j hj
    simp only [isFree, isNeg] at hf hn
    cases hl : P.lb j with
    | none =>
      cases hu : P.ub j with
      | none => simp [hl, hu] at hf
      | some u => simp [hl, hu] at hf hn; exact absurd hf hn
    | some l =>
      have hlx : l ≤ x j := by simpa [geLb, hl] using hlb
      cases hu : P.ub j with
      | none =>
        simp [hl, hu] at hf; rw [hf] at hlx; exact hlx
      | some u =>
        simp [hl, hu] at hf hn
        by_cases hl0 : l = 0
        · rw [hl0] at hlx; exact hlx
        · exact absurd (hf hl0) hn

lemma aug_orig (P : LinProg K) (x : ℕ → K) (i : ℕ) (hi : i < P.nr) :
    P.augRow i x = P.row i x ∧ P.augB i = P.b i ∧ P.augEq i = P.eq i := by
  simp [augRow, augA, augB, augEq, row, hi]

lemma aug_ub (P : LinProg K) (x : ℕ → K) (t : ℕ) (ht : t < P.idxUb.length) :
    P.augRow (P.nr + t) x = x (P.idxUb.getD t 0) ∧
    P.augB (P.nr + t) = (P.ub (P.idxUb.getD t 0)).getD 0 := by
  have h1 : ¬ (P.nr + t < P.nr) := by omega
  have h2 : P.nr + t < P.nr + P.idxUb.length := by omega
  have e : P.nr + t - P.nr = t := by omega
  obtain ⟨hj, _⟩ := getD_filter_range _ _ ht
  have hj' : P.idxUb.getD t 0 < P.nc := hj
  simp only [augRow, augA, augB, h1, h2, if_true, if_false, e]
  rw [sum_single_mul _ _ hj']
  simp

lemma aug_lb (P : LinProg K) (x : ℕ → K) (t : ℕ) (ht : t < P.idxLb.length) :
    P.augRow (P.nr + P.idxUb.length + t) x = - x (P.idxLb.getD t 0) ∧
    P.augB (P.nr + P.idxUb.length + t) = - (P.lb (P.idxLb.getD t 0)).getD 0 ∧
    P.augEq (P.nr + P.idxUb.length + t) = false := by
  have h1 : ¬ (P.nr + P.idxUb.length + t < P.nr) := by omega
  have h2 : ¬ (P.nr + P.idxUb.length + t < P.nr + P.idxUb.length) := by omega
  have h3 : P.nr + P.idxUb.length + t < P.nr + P.idxUb.length + P.idxLb.length := by omega
  have e : P.nr + P.idxUb.length + t - P.nr - P.idxUb.length = t := by omega
  obtain ⟨hj, _⟩ := getD_filter_range _ _ ht
  have hj' : P.idxLb.getD t 0 < P.nc := hj
  simp only [augRow, augA, augB, augEq, h1, h2, h3, if_true, if_false, e]
  rw [sum_single_mul _ _ hj']
  simp

lemma aug_fx (P : LinProg K) (x : ℕ → K) (t : ℕ) (ht : t < P.idxFx.length) :
    P.augRow (P.nr + P.idxUb.length + P.idxLb.length + t) x = - x (P.idxFx.getD t 0) ∧
    P.augB (P.nr + P.idxUb.length + P.idxLb.length + t) = - (P.lb (P.idxFx.getD t 0)).getD 0 ∧
    P.augEq (P.nr + P.idxUb.length + P.idxLb.length + t) = true := by
  have h1 : ¬ (P.nr + P.idxUb.length + P.idxLb.length + t < P.nr) := by omega
  have h2 : ¬ (P.nr + P.idxUb.length + P.idxLb.length + t < P.nr + P.idxUb.length) := by omega
  have h3 : ¬ (P.nr + P.idxUb.length + P.idxLb.length + t <
      P.nr + P.idxUb.length + P.idxLb.length) := by omega
  have e : P.nr + P.idxUb.length + P.idxLb.length + t - P.nr - P.idxUb.length - P.idxLb.length
      = t := by omega
  obtain ⟨hj, _⟩ := getD_filter_range _ _ ht
  have hj' : P.idxFx.getD t 0 < P.nc := hj
  simp only [augRow, augA, augB, augEq, h1, h2, h3, if_true, if_false, e]
  rw [sum_single_mul _ _ hj']
  simp

lemma feas_of_sys (P : LinProg K) (x : ℕ → K) (hs : P.Sys x) : P.Feas x := by
  refine ⟨?_, ?_, ?_⟩
  · intro i hi
    obtain ⟨e1, e2, e3⟩ := aug_orig P x i hi
    have hi' : i < P.augNr := by unfold augNr; omega
    have hle := hs.le i hi'
    rw [e1, e2] at hle
    by_cases he : P.eq i
    · have hge := hs.ge i hi' (by rw [e3]; exact he)
      rw [e1, e2] at hge
      simp only [he, if_true]; exact le_antisymm hle hge
    · simpa [he] using hle
  · intro j hj
    cases hu : P.ub j with
    | none => trivial
    | some u =>
      change x j ≤ u
      by_cases hu0 : u = 0
      · have := hs.neg j hj (by rw [isNeg_iff, hu, hu0])
        rw [hu0]; exact this
      · obtain ⟨t, ht, hg⟩ := exists_getD_filter_range
          (fun j => match P.ub j with | some u => decide (u ≠ 0) | none => false) j hj
          (by simp [hu, hu0])
        have ht' : t < P.idxUb.length := ht
        have hg' : P.idxUb.getD t 0 = j := hg
        obtain ⟨e1, e2⟩ := aug_ub P x t ht'
        have hle := hs.le (P.nr + t) (by unfold augNr; omega)
        rw [e1, e2, hg', hu] at hle
        simpa using hle
  · intro j hj
    cases hl : P.lb j with
    | none => trivial
    | some l =>
      change l ≤ x j
      by_cases hl0 : l = 0
      · subst hl0
        have hf : P.isFree j = false := by simp [isFree, hl]
        by_cases hn : P.isNeg j = true
        · have hub : P.ub j = some 0 := (isNeg_iff P j).mp hn
          obtain ⟨t, ht, hg⟩ := exists_getD_filter_range
            (fun j => match P.lb j, P.ub j with
              | some l, some u => decide (l = u) | _, _ => false) j hj
            (by simp [hl, hub])
          have ht' : t < P.idxFx.length := ht
          have hg' : P.idxFx.getD t 0 = j := hg
          obtain ⟨e1, e2, e3⟩ := aug_fx P x t ht'
          have hle := hs.le (P.nr + P.idxUb.length + P.idxLb.length + t) (by unfold augNr; omega)
          rw [e1, e2, hg', hl] at hle
          simpa using hle
        · exact hs.pos j hj hf (by simpa using hn)
      · obtain ⟨t, ht, hg⟩ := exists_getD_filter_range
          (fun j => match P.lb j with | some l => decide (l ≠ 0) | none => false) j hj
          (by simp [hl, hl0])
        have ht' : t < P.idxLb.length := ht
        have hg' : P.idxLb.getD t 0 = j := hg
        obtain ⟨e1, e2, _⟩ := aug_lb P x t ht'
        have hle := hs.le (P.nr + P.idxUb.length + t) (by unfold augNr; omega)
        rw [e1, e2, hg', hl] at hle
        simpa using hle

/-- row index of the finite system: `≤` rows, `≥` rows (equalities only), `x ≤ 0`, `0 ≤ x` -/
abbrev Rows (P : LinProg K) : Type := Fin P.augNr ⊕ Fin P.augNr ⊕ Fin P.nc ⊕ Fin P.nc

def sysA (P : LinProg K) : P.Rows → ℕ → K
  | .inl i => fun j => P.augA i j
  | .inr (.inl i) => fun j => if P.augEq i then - P.augA i j else 0
  | .inr (.inr (.inl k)) => fun j => if P.isNeg k then (if j = k.val then 1 else 0) else 0
  | .inr (.inr (.inr k)) => fun j =>
      if P.isFree k = false ∧ P.isNeg k = false then (if j = k.val then -1 else 0) else 0

def sysB (P : LinProg K) : P.Rows → K
  | .inl i => P.augB i
  | .inr (.inl i) => if P.augEq i then - P.augB i else 0
  | .inr (.inr (.inl _)) => 0
  | .inr (.inr (.inr _)) => 0

lemma sum_neg_mul' (n : ℕ) (a x : ℕ → K) :
    ∑ j ∈ range n, - a j * x j = - ∑ j ∈ range n, a j * x j := by
  rw [← Finset.sum_neg_distrib]; apply Finset.sum_congr rfl; intro j _; ring

lemma sysRow_le (P : LinProg K) (x : ℕ → K) (i : Fin P.augNr) :
    ∑ j ∈ range P.nc, P.sysA (.inl i) j * x j = P.augRow i x := rfl

lemma sysRow_ge (P : LinProg K) (x : ℕ → K) (i : Fin P.augNr) :
    ∑ j ∈ range P.nc, P.sysA (.inr (.inl i)) j * x j =
      if P.augEq i then - P.augRow i x else 0 := by
  by_cases he : P.augEq i = true
  · simp only [sysA, he, if_true]; exact sum_neg_mul' _ _ _
  · simp [sysA, he]

lemma sysRow_neg (P : LinProg K) (x : ℕ → K) (k : Fin P.nc) :
    ∑ j ∈ range P.nc, P.sysA (.inr (.inr (.inl k))) j * x j =
      if P.isNeg k then x k else 0 := by
  by_cases he : P.isNeg k = true
  · simp only [sysA, he, if_true]; rw [sum_single_mul _ _ k.isLt]; ring
  · simp [sysA, he]

lemma sysRow_pos (P : LinProg K) (x : ℕ → K) (k : Fin P.nc) :
    ∑ j ∈ range P.nc, P.sysA (.inr (.inr (.inr k))) j * x j =
      if P.isFree k = false ∧ P.isNeg k = false then - x k else 0 := by
  by_cases he : P.isFree k = false ∧ P.isNeg k = false
  · simp only [sysA, he, and_self, if_true]; rw [sum_single_mul _ _ k.isLt]; ring
  · simp only [sysA, he, if_false]; simp

lemma sys_rows_iff (P : LinProg K) (x : ℕ → K) :
    (∀ r, ∑ j ∈ range P.nc, P.sysA r j * x j ≤ P.sysB r) ↔ P.Sys x := by
  constructor
  · intro h
    refine ⟨fun i hi => ?_, fun i hi he => ?_, fun k hk hn => ?_, fun k hk hf hn => ?_⟩
    · have := h (.inl ⟨i, hi⟩)
      rw [sysRow_le] at this; exact this
    · have := h (.inr (.inl ⟨i, hi⟩))
      rw [sysRow_ge] at this
      simp only [sysB, he, if_true] at this
      linarith
    · have := h (.inr (.inr (.inl ⟨k, hk⟩)))
      rw [sysRow_neg] at this
      simpa [sysB, hn] using this
    · have := h (.inr (.inr (.inr ⟨k, hk⟩)))
      rw [sysRow_pos] at this
      simp only [sysB, hf, hn, and_self, if_true] at this
      linarith
  · intro hs r
    rcases r with i | i | k | k
    · rw [sysRow_le]; exact hs.le i i.isLt
    · rw [sysRow_ge]
      by_cases he : P.augEq i = true
      · have := hs.ge i i.isLt he
        simp only [sysB, he, if_true]; linarith
      · simp [sysB, he]
    · rw [sysRow_neg]
      by_cases he : P.isNeg k = true
      · simpa [sysB, he] using hs.neg k k.isLt he
      · simp [sysB, he]
    · rw [sysRow_pos]
      by_cases he : P.isFree k = false ∧ P.isNeg k = false
      · have := hs.pos k k.isLt he.1 he.2
        simp only [sysB, he, and_self, if_true]; linarith
      · simp only [sysB, he, if_false]; exact le_refl _

lemma sum_ite_single (n j : ℕ) (hj : j < n) (l : ℕ → K) (p : ℕ → Prop) [DecidablePred p] (s : K) :
    ∑ k ∈ range n, l k * (if p k then (if j = k then s else 0) else 0) =
      l j * (if p j then s else 0) := by
  rw [Finset.sum_eq_single j]
  · simp
  · intro k _ hk
    have : ¬ j = k := fun h => hk h.symm
    simp [this]
  · intro hn; exact absurd (Finset.mem_range.mpr hj) hn

/-- No duality gap, and dual attainment: every lower bound γ of the primal objective over a
non-empty primal feasible set is matched by a dual-feasible y.  (The dual program minimises
`P.dual.obj`, and `P.dual.c i = - augB i`, so `- P.dual.obj y` is the dual value.) -/
theorem dual_strong (P : LinProg K) (γ : K) (hfeas : ∃ x, P.Feas x)
    (hbd : ∀ x, P.Feas x → γ ≤ P.obj x) :
    ∃ y, P.dual.Feas y ∧ γ ≤ - P.dual.obj y := by
  obtain ⟨x0, hx0⟩ := hfeas
  obtain ⟨lam, h0, hA, hB⟩ := affine_farkas_cols P.nc P.Rows P.sysA P.sysB (fun j => - P.c j) (-γ)
    ⟨x0, (P.sys_rows_iff x0).mpr (P.sys_of_feas x0 hx0)⟩
    (fun x hx => by
      have h := hbd x (P.feas_of_sys x ((P.sys_rows_iff x).mp hx))
      unfold obj at h
      rw [sum_neg_mul']; linarith)
  -- the four multiplier blocks, extended to ℕ
  set l1 : ℕ → K := extF (fun i : Fin P.augNr => lam (.inl i)) with hl1
  set l2 : ℕ → K := extF (fun i : Fin P.augNr => lam (.inr (.inl i))) with hl2
  set l3 : ℕ → K := extF (fun k : Fin P.nc => lam (.inr (.inr (.inl k)))) with hl3
  set l4 : ℕ → K := extF (fun k : Fin P.nc => lam (.inr (.inr (.inr k)))) with hl4
  have n1 : ∀ i, 0 ≤ l1 i := extF_nonneg _ (fun _ => h0 _)
  have n2 : ∀ i, 0 ≤ l2 i := extF_nonneg _ (fun _ => h0 _)
  have n3 : ∀ i, 0 ≤ l3 i := extF_nonneg _ (fun _ => h0 _)
  have n4 : ∀ i, 0 ≤ l4 i := extF_nonneg _ (fun _ => h0 _)
  -- column equations in ℕ-indexed form
  have hcol : ∀ j < P.nc,
      ∑ i ∈ range P.augNr, l1 i * P.augA i j +
      (∑ i ∈ range P.augNr, l2 i * (if P.augEq i then - P.augA i j else 0) +
      (l3 j * (if P.isNeg j then 1 else 0) +
       l4 j * (if P.isFree j = false ∧ P.isNeg j = false then -1 else 0))) = - P.c j := by
    intro j hj
    have h := hA j hj
    rw [Fintype.sum_sum_type, Fintype.sum_sum_type, Fintype.sum_sum_type] at h
    simp only [sysA] at h
    rw [sum_fin_extF' (fun i : Fin P.augNr => lam (.inl i)) (fun i => P.augA i j),
      sum_fin_extF' (fun i : Fin P.augNr => lam (.inr (.inl i)))
        (fun i => if P.augEq i then - P.augA i j else 0),
      sum_fin_extF' (fun k : Fin P.nc => lam (.inr (.inr (.inl k))))
        (fun k => if P.isNeg k then (if j = k then 1 else 0) else 0),
      sum_fin_extF' (fun k : Fin P.nc => lam (.inr (.inr (.inr k))))
        (fun k => if P.isFree k = false ∧ P.isNeg k = false then (if j = k then -1 else 0) else 0),
      sum_ite_single _ _ hj, sum_ite_single _ _ hj] at h
    exact h
  -- value inequality in ℕ-indexed form
  have hval : ∑ i ∈ range P.augNr, l1 i * P.augB i +
      ∑ i ∈ range P.augNr, l2 i * (if P.augEq i then - P.augB i else 0) ≤ -γ := by
    have h := hB
    rw [Fintype.sum_sum_type, Fintype.sum_sum_type, Fintype.sum_sum_type] at h
    simp only [sysB, mul_zero, Finset.sum_const_zero, add_zero] at h
    rw [sum_fin_extF' (fun i : Fin P.augNr => lam (.inl i)) (fun i => P.augB i),
      sum_fin_extF' (fun i : Fin P.augNr => lam (.inr (.inl i)))
        (fun i => if P.augEq i then - P.augB i else 0)] at h
    exact h
  -- the dual solution
  set y : ℕ → K := fun i => - l1 i + (if P.augEq i then l2 i else 0) with hy
  have hsum : ∀ g : ℕ → K, ∑ i ∈ range P.augNr, g i * y i =
      - (∑ i ∈ range P.augNr, l1 i * g i +
         ∑ i ∈ range P.augNr, l2 i * (if P.augEq i then - g i else 0)) := by
    intro g
    rw [← Finset.sum_add_distrib, ← Finset.sum_neg_distrib]
    apply Finset.sum_congr rfl; intro i _
    simp only [hy]; split_ifs <;> ring
  refine ⟨y, ⟨?_, ?_, ?_⟩, ?_⟩
  · -- dual rows
    intro j hj
    have hj' : j < P.nc := hj
    have hc := hcol j hj'
    have hs := hsum (fun i => P.augA i j)
    beta_reduce at hs
    have hsn : ∑ i ∈ range P.augNr, - P.augA i j * y i =
        - ∑ i ∈ range P.augNr, P.augA i j * y i := sum_neg_mul' _ _ _
    obtain ⟨S1, hS1⟩ : ∃ S, S = ∑ i ∈ range P.augNr, l1 i * P.augA i j := ⟨_, rfl⟩
    obtain ⟨S2, hS2⟩ : ∃ S, S = ∑ i ∈ range P.augNr,
      l2 i * (if P.augEq i then - P.augA i j else 0) := ⟨_, rfl⟩
    rw [← hS1, ← hS2] at hc hs
    simp only [dual, row]
    by_cases hf : P.isFree j = true
    · have hn : P.isNeg j = false := by
        simp only [isFree, isNeg] at hf ⊢
        cases hu : P.ub j with
        | none => rfl
        | some u => simp [hu] at hf ⊢; exact hf.2
      simp only [hf, hn, Bool.false_eq_true, if_true, if_false] at hc ⊢
      simp at hc
      linarith
    · have hf' : P.isFree j = false := by simpa using hf
      by_cases hn : P.isNeg j = true
      · simp only [hf', hn, Bool.false_eq_true, if_true, if_false] at hc ⊢
        simp at hc
        rw [hsn]
        have := n3 j
        simp; linarith
      · have hn' : P.isNeg j = false := by simpa using hn
        simp only [hf', hn', and_self, Bool.false_eq_true, if_true, if_false] at hc ⊢
        simp at hc
        have := n4 j
        simp; linarith
  · -- dual upper bounds
    intro i hi
    simp only [dual]
    by_cases he : P.augEq i = true
    · simp only [he, if_true]; trivial
    · have he' : P.augEq i = false := by simpa using he
      simp only [he', Bool.false_eq_true, if_false]
      change y i ≤ 0
      have := n1 i
      simp only [hy, he', Bool.false_eq_true, if_false]; linarith
  · intro i hi; trivial
  · -- value
    have hs := hsum (fun i => P.augB i)
    beta_reduce at hs
    have : P.dual.obj y = - ∑ i ∈ range P.augNr, P.augB i * y i := by
      simp only [obj, dual]; exact sum_neg_mul' _ _ _
    rw [this, hs]; linarith

/-- corollary: if the primal attains its optimum at x⋆, the dual attains the same value -/
theorem dual_strong_attained (P : LinProg K) (xs : ℕ → K) (hxs : P.Feas xs)
    (hopt : ∀ x, P.Feas x → P.obj xs ≤ P.obj x) :
    ∃ y, P.dual.Feas y ∧ - P.dual.obj y = P.obj xs ∧
      ∀ y', P.dual.Feas y' → - P.dual.obj y' ≤ - P.dual.obj y := by
  obtain ⟨y, hy, hge⟩ := dual_strong P (P.obj xs) ⟨xs, hxs⟩ hopt
  have hval : ∀ y', P.dual.obj y' = - ∑ i ∈ range P.augNr, P.augB i * y' i := by
    intro y'; simp only [obj, dual]; exact sum_neg_mul' _ _ _
  have hw : ∀ y', P.dual.Feas y' → - P.dual.obj y' ≤ P.obj xs := by
    intro y' hy'
    have := dual_weak P xs y' hxs hy'
    rw [hval]; linarith
  have heq : - P.dual.obj y = P.obj xs := le_antisymm (hw y hy) hge
  exact ⟨y, hy, heq, fun y' hy' => by rw [heq]; exact hw y' hy'⟩

end LinProg

end RsomeV
