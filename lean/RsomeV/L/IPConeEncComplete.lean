import RsomeV.L.IPConeEncSound
import RsomeV.L.IPConeVars

/-! Completeness link for the standard-form model of the 'G' / 'T' / 'C' branches: if the value-level
system is satisfiable, the assembled conic program has a feasible point with the same user columns.
The point is built column block by column block, mirroring the builder; every expression and row only
mentions columns created before it (`Aff.UserOnly n`, `Row.Supp n`), so later columns can be set
freely. -/

set_option linter.unusedSectionVars false
set_option linter.unusedSimpArgs false
set_option linter.unusedVariables false

namespace RsomeV.IPC
open Finset

variable {K : Type} [Field K] [LinearOrder K] [IsStrictOrderedRing K]

/-! ### supports -/

lemma userOnly_mono {a : Aff K} {n n' : ℕ} (h : a.UserOnly n) (hn : n ≤ n') : a.UserOnly n' :=
  fun j hj => h j (le_trans hn hj)

lemma userOnly_add {a b : Aff K} {n : ℕ} (ha : a.UserOnly n) (hb : b.UserOnly n) :
    (a.add b).UserOnly n := fun j hj => by simp [Aff.add, ha j hj, hb j hj]

lemma userOnly_sub {a b : Aff K} {n : ℕ} (ha : a.UserOnly n) (hb : b.UserOnly n) :
    (a.sub b).UserOnly n := fun j hj => by simp [Aff.sub, ha j hj, hb j hj]

lemma userOnly_neg {a : Aff K} {n : ℕ} (ha : a.UserOnly n) : a.neg.UserOnly n :=
  fun j hj => by simp [Aff.neg, ha j hj]

lemma userOnly_smul (k : K) {a : Aff K} {n : ℕ} (ha : a.UserOnly n) : (Aff.smul k a).UserOnly n :=
  fun j hj => by simp [Aff.smul, ha j hj]

lemma userOnly_const (c : K) (n : ℕ) : (Aff.const c).UserOnly n := fun _ _ => rfl

lemma userOnly_col {j n : ℕ} (h : j < n) : (Aff.col j : Aff K).UserOnly n := by
  intro i hi; simp only [Aff.col]; rw [if_neg]; omega

lemma userOnly_sum {l : List (Aff K)} {n : ℕ} (h : ∀ a ∈ l, a.UserOnly n) : (Aff.sum l).UserOnly n := by
  induction l with
  | nil => exact userOnly_const 0 n
  | cons a t ih =>
    exact userOnly_add (h a List.mem_cons_self) (ih fun b hb => h b (List.mem_cons_of_mem _ hb))

/-- the value of an expression only depends on the columns it mentions -/
lemma ev_congr {a : Aff K} {n : ℕ} (hs : a.UserOnly n) (N : ℕ) {v v' : ℕ → K}
    (hv : ∀ j < n, v' j = v j) : a.ev N v' = a.ev N v := by
  simp only [Aff.ev]
  congr 1
  apply sum_congr rfl
  intro j _
  by_cases hj : j < n
  · rw [hv j hj]
  · rw [hs j (by omega), zero_mul, zero_mul]

/-- the row only mentions columns `< n` -/
def Row.Supp (n : ℕ) (r : Row K) : Prop := ∀ j, n ≤ j → r.lin j = 0

lemma leRow_supp {a : Aff K} {n : ℕ} (h : a.UserOnly n) : (leRow a).Supp n := h
lemma eqRow_supp {a : Aff K} {n : ℕ} (h : a.UserOnly n) : (eqRow a).Supp n := h

lemma Row.holds_congr {r : Row K} {n : ℕ} (hs : r.Supp n) (N : ℕ) {v v' : ℕ → K}
    (hv : ∀ j < n, v' j = v j) (h : r.holds N v) : r.holds N v' := by
  have he : ∑ j ∈ range N, r.lin j * v' j = ∑ j ∈ range N, r.lin j * v j := by
    apply sum_congr rfl
    intro j _
    by_cases hj : j < n
    · rw [hv j hj]
    · rw [hs j (by omega), zero_mul, zero_mul]
  simp only [Row.holds] at h ⊢
  rw [he]; exact h

/-- the pending constraint only mentions columns `< n` -/
def Pend.Supp (n : ℕ) : Pend K → Prop
  | .abs L S => L.UserOnly n ∧ S.UserOnly n
  | .cone L U V => L.UserOnly n ∧ U.UserOnly n ∧ V.UserOnly n

lemma Pend.supp_mono {p : Pend K} {n n' : ℕ} (h : p.Supp n) (hn : n ≤ n') : p.Supp n' := by
  cases p with
  | abs L S => exact ⟨userOnly_mono h.1 hn, userOnly_mono h.2 hn⟩
  | cone L U V => exact ⟨userOnly_mono h.1 hn, userOnly_mono h.2.1 hn, userOnly_mono h.2.2 hn⟩

lemma Pend.holds_congr {p : Pend K} {n : ℕ} (hs : p.Supp n) (N : ℕ) {v v' : ℕ → K}
    (hv : ∀ j < n, v' j = v j) (h : p.holds N v) : p.holds N v' := by
  cases p with
  | abs L S =>
    simp only [Pend.holds] at h ⊢
    rw [ev_congr hs.1 N hv, ev_congr hs.2 N hv]; exact h
  | cone L U V =>
    simp only [Pend.holds] at h ⊢
    rw [ev_congr hs.1 N hv, ev_congr hs.2.1 N hv, ev_congr hs.2.2 N hv]; exact h

lemma socMem_congr {q : List ℕ} {n : ℕ} (hq : ∀ j ∈ q, j < n) {v v' : ℕ → K}
    (hv : ∀ j < n, v' j = v j) (h : socMem v q) : socMem v' q := by
  cases q with
  | nil => trivial
  | cons a t =>
    simp only [socMem] at h ⊢
    have e1 : v' a = v a := hv a (hq a List.mem_cons_self)
    have e2 : (t.map fun j => v' j ^ 2) = (t.map fun j => v j ^ 2) := by
      apply List.map_congr_left
      intro j hj
      rw [hv j (hq j (List.mem_cons_of_mem _ hj))]
    rw [e1, e2]; exact h

/-! ### builder invariants -/

/-- everything recorded so far only mentions columns created so far -/
structure Inv (st : Bld K) : Prop where
  rows : ∀ r ∈ st.rows, r.Supp st.last
  qmat : ∀ q ∈ st.qmat, ∀ j ∈ q, j < st.last
  lb0 : ∀ j ∈ st.lb0, j < st.last

/-- rows, cones and bounds recorded so far hold at `v` -/
structure GoodC (N : ℕ) (v : ℕ → K) (st : Bld K) : Prop where
  rows : ∀ r ∈ st.rows, r.holds N v
  soc : ∀ q ∈ st.qmat, socMem v q
  lbs : ∀ j ∈ st.lb0, 0 ≤ v j

lemma GoodC.congr {N : ℕ} {v v' : ℕ → K} {st : Bld K} (hinv : Inv st)
    (hv : ∀ j < st.last, v' j = v j) (h : GoodC N v st) : GoodC N v' st :=
  ⟨fun r hr => Row.holds_congr (hinv.rows r hr) N hv (h.rows r hr),
   fun q hq => socMem_congr (hinv.qmat q hq) hv (h.soc q hq),
   fun j hj => by rw [hv j (hinv.lb0 j hj)]; exact h.lbs j hj⟩

/-- `GoodC` for the final state is feasibility of the assembled program -/
lemma feas_of_goodC (st : Bld K) (E : K → K → K → Prop) (v : ℕ → K) (h : GoodC st.last v st) :
    (assemble st).Feas E v := by
  refine ⟨⟨?_, ?_, ?_⟩, h.soc, ?_⟩
  · intro i hi
    have hi' : i < st.rows.length := hi
    have := h.rows st.rows[i] (List.getElem_mem hi')
    simp only [assemble, LinProg.row, List.getElem?_eq_getElem hi']
    simp only [Row.holds] at this
    exact this
  · intro j _; simp [assemble, LinProg.leUb]
  · intro j _
    simp only [assemble]
    by_cases hj : st.lb0.contains j = true
    · rw [if_pos hj]; exact h.lbs j (by simpa using hj)
    · rw [if_neg hj]; trivial
  · intro e he; simp [assemble] at he

/-! ### the second loop -/

lemma process_complete (N : ℕ) (v : ℕ → K) (st : Bld K) (p : Pend K) (hinv : Inv st)
    (hN : (process st p).last ≤ N) (hps : p.Supp st.last) (hp : p.holds N v) (hg : GoodC N v st) :
    ∃ v' : ℕ → K, (∀ j < st.last, v' j = v j) ∧ GoodC N v' (process st p) ∧ Inv (process st p) := by
  cases p with
  | abs L S =>
    refine ⟨v, fun _ _ => rfl, ⟨?_, hg.soc, hg.lbs⟩, ⟨?_, hinv.qmat, hinv.lb0⟩⟩
    · intro r hr
      simp only [process] at hr
      rcases List.mem_append.mp hr with hr | hr
      · exact hg.rows r hr
      · simp only [Pend.holds] at hp
        have := abs_le.mp hp
        simp only [List.mem_cons, List.not_mem_nil, or_false] at hr
        rcases hr with rfl | rfl
        · rw [leRow_holds, ev_add, ev_neg]; linarith [this.2]
        · rw [leRow_holds, ev_add, ev_neg, ev_neg]; linarith [this.1]
    · intro r hr
      simp only [process] at hr ⊢
      rcases List.mem_append.mp hr with hr | hr
      · exact hinv.rows r hr
      · simp only [List.mem_cons, List.not_mem_nil, or_false] at hr
        rcases hr with rfl | rfl
        · exact leRow_supp (userOnly_add hps.1 (userOnly_neg hps.2))
        · exact leRow_supp (userOnly_add (userOnly_neg hps.1) (userOnly_neg hps.2))
  | cone L U V =>
    simp only [process] at hN
    obtain ⟨hL, hU, hV⟩ := hps
    simp only [Pend.holds] at hp
    obtain ⟨hc1, hc2, hc3⟩ := hp
    -- values of the three new columns
    let a0 : K := (U.ev N v - V.ev N v) / 2
    let a1 : K := L.ev N v
    let a2 : K := (U.ev N v + V.ev N v) / 2
    let v' : ℕ → K := fun j => if j = st.last then a0 else if j = st.last + 1 then a1 else
      if j = st.last + 2 then a2 else v j
    have hv' : ∀ j < st.last, v' j = v j := by
      intro j hj
      simp only [v']
      rw [if_neg (by omega), if_neg (by omega), if_neg (by omega)]
    have e0 : v' st.last = a0 := by simp [v']
    have e1 : v' (st.last + 1) = a1 := by simp [v']
    have e2 : v' (st.last + 2) = a2 := by simp [v']
    have hgo := hg.congr hinv hv'
    have hid : ((U.ev N v + V.ev N v) / 2) ^ 2 - ((U.ev N v - V.ev N v) / 2) ^ 2 =
        U.ev N v * V.ev N v := by ring
    refine ⟨v', hv', ⟨?_, ?_, ?_⟩, ⟨?_, ?_, ?_⟩⟩
    · intro r hr
      simp only [process] at hr
      rcases List.mem_append.mp hr with hr | hr
      · exact hgo.rows r hr
      · simp only [List.mem_cons, List.not_mem_nil, or_false] at hr
        rcases hr with rfl | rfl | rfl
        · rw [eqRow_holds, ev_sub, ev_smul, ev_sub, ev_col N v' (show st.last < N by omega), e0,
            ev_congr hU N hv', ev_congr hV N hv']
          simp only [a0]; ring
        · rw [eqRow_holds, ev_sub, ev_col N v' (show st.last + 1 < N by omega), e1, ev_congr hL N hv']
          simp only [a1]; ring
        · rw [leRow_holds, ev_add, ev_neg, ev_smul, ev_add,
            ev_col N v' (show st.last + 2 < N by omega), e2, ev_congr hU N hv', ev_congr hV N hv']
          simp only [a2]; apply le_of_eq; ring
    · intro q hq
      simp only [process] at hq
      rcases List.mem_append.mp hq with hq | hq
      · exact hgo.soc q hq
      · simp only [List.mem_cons, List.not_mem_nil, or_false] at hq
        subst hq
        simp only [socMem, List.map_cons, List.map_nil, List.sum_cons, List.sum_nil, add_zero, e0, e1,
          e2, a0, a1, a2]
        exact ⟨by linarith, by linarith⟩
    · intro j hj
      simp only [process] at hj
      rcases List.mem_append.mp hj with hj | hj
      · exact hgo.lbs j hj
      · simp only [List.mem_cons, List.not_mem_nil, or_false] at hj
        subst hj
        rw [e2]; simp only [a2]; linarith
    · intro r hr
      simp only [process] at hr ⊢
      rcases List.mem_append.mp hr with hr | hr
      · exact fun j hj => hinv.rows r hr j (by omega)
      · simp only [List.mem_cons, List.not_mem_nil, or_false] at hr
        rcases hr with rfl | rfl | rfl
        · exact eqRow_supp (userOnly_sub (userOnly_smul _ (userOnly_sub
            (userOnly_mono hU (by omega)) (userOnly_mono hV (by omega)))) (userOnly_col (by omega)))
        · exact eqRow_supp (userOnly_sub (userOnly_mono hL (by omega)) (userOnly_col (by omega)))
        · exact leRow_supp (userOnly_add (userOnly_neg (userOnly_smul _ (userOnly_add
            (userOnly_mono hU (by omega)) (userOnly_mono hV (by omega))))) (userOnly_col (by omega)))
    · intro q hq j hj
      simp only [process] at hq ⊢
      rcases List.mem_append.mp hq with hq | hq
      · have := hinv.qmat q hq j hj; omega
      · simp only [List.mem_cons, List.not_mem_nil, or_false] at hq
        subst hq
        simp only [List.mem_cons, List.not_mem_nil, or_false] at hj
        omega
    · intro j hj
      simp only [process] at hj ⊢
      rcases List.mem_append.mp hj with hj | hj
      · have := hinv.lb0 j hj; omega
      · simp only [List.mem_cons, List.not_mem_nil, or_false] at hj
        omega

lemma fold_complete (N : ℕ) : ∀ (pend : List (Pend K)) (st : Bld K) (v : ℕ → K), Inv st →
    (pend.foldl process st).last ≤ N → (∀ p ∈ pend, p.Supp st.last) → (∀ p ∈ pend, p.holds N v) →
    GoodC N v st →
    ∃ v' : ℕ → K, (∀ j < st.last, v' j = v j) ∧ GoodC N v' (pend.foldl process st)
  | [], st, v, _, _, _, _, hg => ⟨v, fun _ _ => rfl, hg⟩
  | p :: ps, st, v, hinv, hN, hs, hp, hg => by
    rw [List.foldl_cons] at hN ⊢
    have hN1 : (process st p).last ≤ N := le_trans (foldl_process_last_le ps _) hN
    obtain ⟨v1, hv1, hg1, hinv1⟩ := process_complete N v st p hinv hN1
      (hs p List.mem_cons_self) (hp p List.mem_cons_self) hg
    have hle := process_last_le st p
    obtain ⟨v2, hv2, hg2⟩ := fold_complete N ps (process st p) v1 hinv1 hN
      (fun q hq => Pend.supp_mono (hs q (List.mem_cons_of_mem _ hq)) hle)
      (fun q hq => Pend.holds_congr (hs q (List.mem_cons_of_mem _ hq)) N hv1
        (hp q (List.mem_cons_of_mem _ hq))) hg1
    exact ⟨v2, fun j hj => by rw [hv2 j (by omega), hv1 j hj], hg2⟩

/-! ### towers -/

lemma towerVal_supp {base na : ℕ} {left : Aff K} {right : List (Aff K)} {nr : ℕ}
    (hl : left.UserOnly base) (hr : ∀ a ∈ right, a.UserOnly base) {var : Var}
    (hv : var.ok nr na) : (towerVal base left right var).UserOnly (base + na) := by
  cases var with
  | x => exact userOnly_mono hl (by omega)
  | r i => exact userOnly_mono (getD_userOnly hr i) (by omega)
  | aux k => simp only [Var.ok] at hv; exact userOnly_col (by omega)

lemma tower_complete (N : ℕ) {st st1 : Bld K} {left : Aff K} {right : List (Aff K)} {β : List ℕ}
    {pend : List (Pend K)} (hne : β ≠ []) (hpos : ∀ b ∈ β, 1 ≤ b)
    (h : tower st left right β = some (st1, pend))
    (hl : left.UserOnly st.last) (hr : ∀ a ∈ right, a.UserOnly st.last) (hN : st1.last ≤ N)
    (v : ℕ → K)
    (hsat : TowerSat β (left.ev N v) (fun i => (right.getD i (Aff.const 0)).ev N v)) :
    ∃ v' : ℕ → K, (∀ j < st.last, v' j = v j) ∧ (∀ p ∈ pend, p.holds N v') ∧
      ∀ p ∈ pend, p.Supp st1.last := by
  obtain ⟨ρ, hρx, hρr, out, ho, hh⟩ := hsat
  unfold tower at h
  rw [ho] at h
  simp only [Option.some.injEq, Prod.mk.injEq] at h
  obtain ⟨rfl, rfl⟩ := h
  simp only at hN
  obtain ⟨hva, hvc⟩ := toSoc_vars hne hpos ho
  let v' : ℕ → K := fun j =>
    if st.last ≤ j ∧ j < st.last + out.flags.length then ρ (.aux (j - st.last)) else v j
  have hv' : ∀ j < st.last, v' j = v j := by
    intro j hj; simp only [v']; rw [if_neg (by omega)]
  -- value of a tower variable at the new point
  have hval : ∀ var : Var, var.ok β.length out.flags.length →
      (towerVal st.last left right var).ev N v' = ρ var := by
    intro var hok
    cases var with
    | x => simp only [towerVal]; rw [ev_congr hl N hv', hρx]
    | r i =>
      simp only [towerVal, Var.ok] at hok ⊢
      rw [ev_congr (getD_userOnly hr i) N hv', hρr i hok]
    | aux k =>
      simp only [towerVal, Var.ok] at hok ⊢
      rw [ev_col N v' (by omega)]
      simp only [v']
      rw [if_pos (by omega), Nat.add_sub_cancel_left]
  refine ⟨v', hv', ?_, ?_⟩
  · intro p hp
    rcases List.mem_append.mp hp with hp | hp
    · obtain ⟨q, hq, rfl⟩ := List.mem_map.mp hp
      obtain ⟨o1, o2⟩ := hva q hq
      simp only [Pend.holds]
      rw [hval _ o1, hval _ o2]
      exact hh.1 q hq
    · obtain ⟨c, hc, rfl⟩ := List.mem_map.mp hp
      obtain ⟨o1, o2, o3⟩ := hvc c hc
      simp only [Pend.holds]
      rw [hval _ o1, hval _ o2, hval _ o3]
      exact hh.2 c hc
  · intro p hp
    rcases List.mem_append.mp hp with hp | hp
    · obtain ⟨q, hq, rfl⟩ := List.mem_map.mp hp
      obtain ⟨o1, o2⟩ := hva q hq
      exact ⟨towerVal_supp hl hr o1, towerVal_supp hl hr o2⟩
    · obtain ⟨c, hc, rfl⟩ := List.mem_map.mp hp
      obtain ⟨o1, o2, o3⟩ := hvc c hc
      exact ⟨towerVal_supp hl hr o1, towerVal_supp hl hr o2, towerVal_supp hl hr o3⟩

lemma towers_complete (N : ℕ) : ∀ (jobs : List (Aff K × List (Aff K) × List ℕ)) (st st' : Bld K)
    (pend : List (Pend K)) (v : ℕ → K), towers st jobs = some (st', pend) →
    (∀ job ∈ jobs, job.2.2 ≠ [] ∧ (∀ b ∈ job.2.2, 1 ≤ b) ∧ job.1.UserOnly st.last ∧
      ∀ a ∈ job.2.1, a.UserOnly st.last) →
    st'.last ≤ N →
    (∀ job ∈ jobs, TowerSat job.2.2 (job.1.ev N v)
      (fun i => (job.2.1.getD i (Aff.const 0)).ev N v)) →
    ∃ v' : ℕ → K, (∀ j < st.last, v' j = v j) ∧ (∀ p ∈ pend, p.holds N v') ∧
      ∀ p ∈ pend, p.Supp st'.last
  | [], st, st', pend, v, h, _, _, _ => by
    simp only [towers, Option.some.injEq, Prod.mk.injEq] at h
    obtain ⟨rfl, rfl⟩ := h
    exact ⟨v, fun _ _ => rfl, by simp, by simp⟩
  | (l, r, β) :: rest, st, st', pend, v, h, hj, hN, hsat => by
    simp only [towers] at h
    cases h1 : tower st l r β with
    | none => rw [h1] at h; simp at h
    | some res1 =>
      obtain ⟨st1, p1⟩ := res1
      rw [h1] at h
      simp only at h
      cases h2 : towers st1 rest with
      | none => rw [h2] at h; simp at h
      | some res2 =>
        obtain ⟨st2, p2⟩ := res2
        rw [h2] at h
        simp only [Option.some.injEq, Prod.mk.injEq] at h
        obtain ⟨rfl, rfl⟩ := h
        obtain ⟨_, _, hle1, _⟩ := tower_spec h1
        obtain ⟨_, _, hle2, _⟩ := towers_spec rest st1 st2 p2 h2
        obtain ⟨hne, hpos, hl, hr⟩ := hj (l, r, β) List.mem_cons_self
        obtain ⟨v1, hv1, hp1, hs1⟩ := tower_complete N hne hpos h1 hl hr (by omega) v
          (hsat (l, r, β) List.mem_cons_self)
        obtain ⟨v2, hv2, hp2, hs2⟩ := towers_complete N rest st1 st2 p2 v1 h2
          (fun job hjob => by
            obtain ⟨a, b, c, d⟩ := hj job (List.mem_cons_of_mem _ hjob)
            exact ⟨a, b, userOnly_mono c hle1, fun x hx => userOnly_mono (d x hx) hle1⟩)
          hN
          (fun job hjob => by
            obtain ⟨a, b, c, d⟩ := hj job (List.mem_cons_of_mem _ hjob)
            have := hsat job (List.mem_cons_of_mem _ hjob)
            rw [← ev_congr c N hv1] at this
            have e : (fun i => (job.2.1.getD i (Aff.const 0)).ev N v) =
                (fun i => (job.2.1.getD i (Aff.const 0)).ev N v1) := by
              funext i; exact (ev_congr (getD_userOnly d i) N hv1).symm
            rw [e] at this
            exact this)
        refine ⟨v2, fun j hj' => by rw [hv2 j (by omega), hv1 j hj'], ?_, ?_⟩
        · intro p hp
          rcases List.mem_append.mp hp with hp | hp
          · exact Pend.holds_congr (hs1 p hp) N hv2 (hp1 p hp)
          · exact hp2 p hp
        · intro p hp
          rcases List.mem_append.mp hp with hp | hp
          · exact Pend.supp_mono (hs1 p hp) hle2
          · exact hs2 p hp

/-! ### state bookkeeping of the first loop -/

lemma tower_state {st st1 : Bld K} {left : Aff K} {right : List (Aff K)} {β : List ℕ}
    {pend : List (Pend K)} (h : tower st left right β = some (st1, pend)) :
    st1 = { st with last := st1.last } ∧ st.last ≤ st1.last := by
  unfold tower at h
  cases ho : toSoc β with
  | none => rw [ho] at h; simp at h
  | some out =>
    rw [ho] at h
    simp only [Option.some.injEq, Prod.mk.injEq] at h
    obtain ⟨rfl, rfl⟩ := h
    exact ⟨rfl, by simp⟩

lemma towers_state : ∀ (jobs : List (Aff K × List (Aff K) × List ℕ)) (st st' : Bld K)
    (pend : List (Pend K)), towers st jobs = some (st', pend) →
    st' = { st with last := st'.last } ∧ st.last ≤ st'.last
  | [], st, st', pend, h => by
    simp only [towers, Option.some.injEq, Prod.mk.injEq] at h
    obtain ⟨rfl, rfl⟩ := h
    exact ⟨rfl, le_rfl⟩
  | (l, r, β) :: rest, st, st', pend, h => by
    simp only [towers] at h
    cases h1 : tower st l r β with
    | none => rw [h1] at h; simp at h
    | some res1 =>
      obtain ⟨st1, p1⟩ := res1
      rw [h1] at h
      simp only at h
      cases h2 : towers st1 rest with
      | none => rw [h2] at h; simp at h
      | some res2 =>
        obtain ⟨st2, p2⟩ := res2
        rw [h2] at h
        simp only [Option.some.injEq, Prod.mk.injEq] at h
        obtain ⟨rfl, rfl⟩ := h
        obtain ⟨e1, l1⟩ := tower_state h1
        obtain ⟨e2, l2⟩ := towers_state rest st1 st2 p2 h2
        refine ⟨?_, le_trans l1 l2⟩
        rw [e2, e1]

lemma Inv.setLast {st : Bld K} (h : Inv st) {n : ℕ} (hn : st.last ≤ n) :
    Inv { st with last := n } :=
  ⟨fun r hr j hj => h.rows r hr j (le_trans hn hj),
   fun q hq j hj => lt_of_lt_of_le (h.qmat q hq j hj) hn,
   fun j hj => lt_of_lt_of_le (h.lb0 j hj) hn⟩

lemma GoodC.setLast {N : ℕ} {v : ℕ → K} {st : Bld K} (h : GoodC N v st) (n : ℕ) :
    GoodC N v { st with last := n } := ⟨h.rows, h.soc, h.lbs⟩

/-- value of a user expression at a point that agrees with `v` on the user columns -/
lemma ev_user {a : Aff K} {n N : ℕ} (hs : a.UserOnly n) (hn : n ≤ N) {v v' : ℕ → K}
    (hv : ∀ j < n, v' j = v j) : a.ev N v' = a.ev n v := by
  rw [ev_congr hs N hv, ev_of_supp N v hs hn]

/-- common tail of the three completeness proofs: from a point that satisfies the state after the
first loop and all pending constraints to a feasible point of the assembled program -/
lemma finish_complete {st0 : Bld K} {pend : List (Pend K)} (E : K → K → K → Prop) (v : ℕ → K)
    (hinv : Inv st0) (hs : ∀ p ∈ pend, p.Supp st0.last)
    (hp : ∀ p ∈ pend, p.holds (pend.foldl process st0).last v)
    (hg : GoodC (pend.foldl process st0).last v st0) :
    ∃ v' : ℕ → K, (∀ j < st0.last, v' j = v j) ∧ (assemble (pend.foldl process st0)).Feas E v' := by
  obtain ⟨v', hv', hg'⟩ := fold_complete _ pend st0 v hinv le_rfl hs hp hg
  exact ⟨v', hv', feas_of_goodC _ E v' hg'⟩

/-! ### 'C' -/

theorem c_stdform_complete_of_enc {ncols : ℕ} {k : K} {ain aout : List (Aff K)} {β : List ℕ}
    (hne : β ≠ []) (hpos : ∀ b ∈ β, 1 ≤ b)
    (hin : ∀ a ∈ ain, a.UserOnly ncols) (hout : ∀ a ∈ aout, a.UserOnly ncols) {P : ConeProg K}
    (h : atomEncode ncols k ain aout (.c β) = some P) (E : K → K → K → Prop) (v0 : ℕ → K) {a : K}
    (henc : GmeanEnc β k ((aout.getD 0 (Aff.const 0)).ev ncols v0)
      (fun i => (ain.getD i (Aff.const 0)).ev ncols v0) a) :
    ∃ v : ℕ → K, (∀ j < ncols, v j = v0 j) ∧ P.Feas E v := by
  obtain ⟨stF, h1, rfl⟩ := atomEncode_some h
  unfold finalState at h1
  cases hb : branch ncols k ain aout (.c β) with
  | none => rw [hb] at h1; simp at h1
  | some res =>
    obtain ⟨st0, pend⟩ := res
    rw [hb] at h1
    simp only [Option.some.injEq] at h1
    subst h1
    simp only [branch] at hb
    obtain ⟨est, hle⟩ := tower_state hb
    have hle' : ncols + 1 ≤ st0.last := hle
    have hN : st0.last ≤ (pend.foldl process st0).last := foldl_process_last_le pend st0
    set N := (pend.foldl process st0).last with hNdef
    -- the point after the first loop
    let v1 : ℕ → K := fun j => if j = ncols then a else v0 j
    have hv1 : ∀ j < ncols, v1 j = v0 j := by
      intro j hj; simp only [v1]; rw [if_neg (by omega)]
    have hcol : (Aff.col ncols : Aff K).ev N v1 = a := by
      rw [ev_col N v1 (by omega)]; simp [v1]
    have hinvC : Inv (cInit ncols k aout) := by
      refine ⟨?_, by simp [cInit], by simp [cInit]⟩
      intro r hr
      simp only [cInit, List.mem_cons, List.not_mem_nil, or_false] at hr
      subst hr
      exact leRow_supp (userOnly_add (userOnly_smul _ (userOnly_col (by simp [cInit])))
        (userOnly_mono (getD_userOnly hout 0) (by simp [cInit])))
    have hgC : GoodC N v1 (cInit ncols k aout) := by
      refine ⟨?_, by simp [cInit], by simp [cInit]⟩
      intro r hr
      simp only [cInit, List.mem_cons, List.not_mem_nil, or_false] at hr
      subst hr
      rw [leRow_holds, ev_add, ev_smul, hcol, ev_user (getD_userOnly hout 0) (by omega) hv1]
      have := henc.row_out
      linarith [mul_comm a k]
    obtain ⟨v2, hv2, hp2, hs2⟩ := tower_complete N hne hpos hb
      (userOnly_col (by simp [cInit])) (fun x hx => userOnly_mono (hin x hx) (by simp [cInit]))
      hN v1 (by
        rw [hcol]
        have e : (fun i => (ain.getD i (Aff.const 0)).ev N v1) =
            (fun i => (ain.getD i (Aff.const 0)).ev ncols v0) := by
          funext i; exact ev_user (getD_userOnly hin i) (by omega) hv1
        rw [e]; exact henc.tower)
    have hinv0 : Inv st0 := by rw [est]; exact hinvC.setLast hle
    have hg0 : GoodC N v2 st0 := by
      rw [est]; exact (hgC.congr hinvC hv2).setLast _
    obtain ⟨v3, hv3, hf⟩ := finish_complete E v2 hinv0 hs2 hp2 hg0
    refine ⟨v3, ?_, hf⟩
    intro j hj
    have h2 : v2 j = v1 j := hv2 j (by simp only [cInit]; omega)
    rw [hv3 j (by omega), h2, hv1 j hj]

/-! ### 'G' -/

theorem g_stdform_complete_of_enc {ncols : ℕ} {k : K} {ain aout : List (Aff K)} {b c : ℕ}
    (hb : 1 ≤ b) (hc : 1 ≤ c)
    (hin : ∀ a ∈ ain, a.UserOnly ncols) (hout : ∀ a ∈ aout, a.UserOnly ncols) {P : ConeProg K}
    (h : atomEncode ncols k ain aout (.g [b, c]) = some P) (E : K → K → K → Prop) (v0 : ℕ → K)
    {t : ℕ → K} {w : K}
    (henc : PnormEnc [b, c] ain.length (fun j => k * (ain.getD j (Aff.const 0)).ev ncols v0)
      ((aout.getD 0 (Aff.const 0)).ev ncols v0) t w) :
    ∃ v : ℕ → K, (∀ j < ncols, v j = v0 j) ∧ P.Feas E v := by
  obtain ⟨stF, h1, rfl⟩ := atomEncode_some h
  unfold finalState at h1
  cases hbr : branch ncols k ain aout (.g [b, c]) with
  | none => rw [hbr] at h1; simp at h1
  | some res =>
    obtain ⟨st0, pend⟩ := res
    rw [hbr] at h1
    simp only [Option.some.injEq] at h1
    subst h1
    simp only [branch] at hbr
    obtain ⟨est, hle⟩ := towers_state _ _ _ _ hbr
    have hle' : ncols + ain.length + 1 ≤ st0.last := hle
    have hN : st0.last ≤ (pend.foldl process st0).last := foldl_process_last_le pend st0
    set N := (pend.foldl process st0).last with hNdef
    set n := ain.length with hn
    let v1 : ℕ → K := fun j => if j < ncols then v0 j else if j < ncols + n then t (j - ncols)
      else if j = ncols + n then w else v0 j
    have hv1 : ∀ j < ncols, v1 j = v0 j := by
      intro j hj; simp only [v1]; rw [if_pos hj]
    have hcol1 : ∀ j < n, (Aff.col (ncols + j) : Aff K).ev N v1 = t j := by
      intro j hj
      rw [ev_col N v1 (by omega)]
      simp only [v1]
      rw [if_neg (by omega), if_pos (by omega), Nat.add_sub_cancel_left]
    have hcol2 : (Aff.col (ncols + n) : Aff K).ev N v1 = w := by
      rw [ev_col N v1 (by omega)]
      simp only [v1]
      rw [if_neg (by omega), if_neg (by omega)]
      simp
    have hlastG : (gInit ncols ain aout).last = ncols + n + 1 := rfl
    have hsumS : (Aff.sum ((List.range n).map fun j => (Aff.col (ncols + j) : Aff K))).UserOnly
        (ncols + n + 1) := by
      apply userOnly_sum
      intro a ha
      obtain ⟨j, hj, rfl⟩ := List.mem_map.mp ha
      exact userOnly_col (by have := List.mem_range.mp hj; omega)
    have hinvG : Inv (gInit ncols ain aout) := by
      refine ⟨?_, by simp [gInit], by simp [gInit]⟩
      intro r hr
      simp only [gInit, List.mem_cons, List.not_mem_nil, or_false] at hr
      rcases hr with rfl | rfl
      · exact leRow_supp (userOnly_add (userOnly_col (by omega))
          (userOnly_mono (getD_userOnly hout 0) (by omega)))
      · exact leRow_supp (userOnly_sub hsumS (userOnly_col (by omega)))
    have hgG : GoodC N v1 (gInit ncols ain aout) := by
      refine ⟨?_, by simp [gInit], by simp [gInit]⟩
      intro r hr
      simp only [gInit, List.mem_cons, List.not_mem_nil, or_false] at hr
      rcases hr with rfl | rfl
      · rw [leRow_holds, ev_add, hcol2, ev_user (getD_userOnly hout 0) (by omega) hv1]
        exact henc.row_out
      · rw [leRow_holds, ev_sub, hcol2, ev_sum, List.map_map, list_sum_map_range]
        have : ∑ j ∈ range n, ((Aff.ev N v1) ∘ fun j => (Aff.col (ncols + j) : Aff K)) j =
            ∑ j ∈ range n, t j :=
          sum_congr rfl fun j hj => hcol1 j (mem_range.mp hj)
        rw [this]
        linarith [henc.row_sum]
    obtain ⟨v2, hv2, hp2, hs2⟩ := towers_complete N _ _ _ _ v1 hbr
      (by
        intro job hjob
        obtain ⟨j, hj, rfl⟩ := List.mem_map.mp hjob
        have hj' := List.mem_range.mp hj
        refine ⟨by simp, pos_two hb hc, ?_, ?_⟩
        · exact userOnly_smul _ (userOnly_mono (getD_userOnly hin j) (by rw [hlastG]; omega))
        · intro a ha
          simp only [List.mem_cons, List.not_mem_nil, or_false] at ha
          rcases ha with rfl | rfl
          · exact userOnly_col (by rw [hlastG]; omega)
          · exact userOnly_col (by rw [hlastG]; omega))
      hN
      (by
        intro job hjob
        obtain ⟨j, hj, rfl⟩ := List.mem_map.mp hjob
        have hj' := List.mem_range.mp hj
        have hx : (Aff.smul k (ain.getD j (Aff.const 0))).ev N v1 =
            k * (ain.getD j (Aff.const 0)).ev ncols v0 := by
          rw [ev_smul, ev_user (getD_userOnly hin j) (by omega) hv1]
        simp only
        rw [hx]
        apply (henc.tower j hj').congr
        intro i hi
        have : i = 0 ∨ i = 1 := by simp at hi; omega
        rcases this with rfl | rfl
        · simp [hcol1 j hj']
        · simp; exact hcol2.symm)
    have hinv0 : Inv st0 := by rw [est]; exact hinvG.setLast hle
    have hg0 : GoodC N v2 st0 := by
      rw [est]; exact (hgG.congr hinvG hv2).setLast _
    obtain ⟨v3, hv3, hf⟩ := finish_complete E v2 hinv0 hs2 hp2 hg0
    refine ⟨v3, ?_, hf⟩
    intro j hj
    have h2 : v2 j = v1 j := hv2 j (by rw [hlastG]; omega)
    rw [hv3 j (by omega), h2, hv1 j hj]

/-! ### 'T' -/

lemma of_mem_zip_range {α : Type} {l : List α} {i : ℕ} {x : α}
    (h : (i, x) ∈ (List.range l.length).zip l) : ∃ hi : i < l.length, x = l[i] := by
  obtain ⟨n, hn, he⟩ := List.mem_iff_getElem.mp h
  simp only [List.length_zip, List.length_range, min_self] at hn
  simp only [List.getElem_zip, List.getElem_range, Prod.mk.injEq] at he
  obtain ⟨rfl, rfl⟩ := he
  exact ⟨hn, rfl⟩

theorem t_stdform_complete_of_enc {ncols : ℕ} {k : K} {ain aout : List (Aff K)}
    {items : List (ℕ × ℕ × ℕ)}
    (hin : ∀ a ∈ ain, a.UserOnly ncols) (hout : ∀ a ∈ aout, a.UserOnly ncols)
    (hpq : ∀ it ∈ items, 1 ≤ it.2.2 ∧ it.2.2 ≤ it.2.1) {P : ConeProg K}
    (h : atomEncode ncols k ain aout (.t items) = some P) (E : K → K → K → Prop) (v0 : ℕ → K)
    {t one : ℕ → K}
    (henc : ∀ (i : ℕ) (hi : i < items.length),
      PowerEnc items[i].2.1 items[i].2.2 ((ain.getD items[i].1 (Aff.const 0)).ev ncols v0)
        (1 / k * (aout.getD i (Aff.const 0)).ev ncols v0) (t i) (one i)) :
    ∃ v : ℕ → K, (∀ j < ncols, v j = v0 j) ∧ P.Feas E v := by
  obtain ⟨stF, h1, rfl⟩ := atomEncode_some h
  unfold finalState at h1
  cases hbr : branch ncols k ain aout (.t items) with
  | none => rw [hbr] at h1; simp at h1
  | some res =>
    obtain ⟨st0, pend⟩ := res
    rw [hbr] at h1
    simp only [Option.some.injEq] at h1
    subst h1
    simp only [branch] at hbr
    cases ht : towers (tInit ncols ain items) (tJobs ncols ain items) with
    | none => rw [ht] at hbr; simp at hbr
    | some res1 =>
      obtain ⟨st1, pend1⟩ := res1
      rw [ht] at hbr
      simp only [Option.some.injEq, Prod.mk.injEq] at hbr
      obtain ⟨rfl, rfl⟩ := hbr
      obtain ⟨est, hle⟩ := towers_state _ _ _ _ ht
      set s := items.length with hs
      have hlastT : (tInit ncols ain items).last = ncols + 2 * s := rfl
      have hle' : ncols + 2 * s ≤ st1.last := hle
      set st0 : Bld K := { st1 with rows := st1.rows ++ tTail ncols k aout s } with hst0
      have hN : st0.last ≤ (pend1.foldl process st0).last := foldl_process_last_le pend1 st0
      have hst0last : st0.last = st1.last := rfl
      set N := (pend1.foldl process st0).last with hNdef
      let v1 : ℕ → K := fun j => if j < ncols then v0 j else if j < ncols + s then t (j - ncols)
        else if j < ncols + 2 * s then one (j - (ncols + s)) else v0 j
      have hv1 : ∀ j < ncols, v1 j = v0 j := by
        intro j hj; simp only [v1]; rw [if_pos hj]
      have hcol1 : ∀ i < s, (Aff.col (ncols + i) : Aff K).ev N v1 = t i := by
        intro i hi
        rw [ev_col N v1 (by omega)]
        simp only [v1]
        rw [if_neg (by omega), if_pos (by omega), Nat.add_sub_cancel_left]
      have hcol2 : ∀ i < s, (Aff.col (ncols + s + i) : Aff K).ev N v1 = one i := by
        intro i hi
        rw [ev_col N v1 (by omega)]
        simp only [v1]
        rw [if_neg (by omega), if_neg (by omega), if_pos (by omega), Nat.add_sub_cancel_left]
      -- rows of the `p == q` elements
      have hinvT : Inv (tInit ncols ain items) := by
        refine ⟨?_, by simp [tInit], by simp [tInit]⟩
        intro r hr
        simp only [tInit] at hr
        obtain ⟨⟨i, it⟩, hmem, hr⟩ := List.mem_flatMap.mp hr
        obtain ⟨hi, rfl⟩ := of_mem_zip_range hmem
        simp only [tAbsRows] at hr
        split_ifs at hr with he
        · simp only [List.mem_cons, List.not_mem_nil, or_false] at hr
          rcases hr with rfl | rfl
          · exact leRow_supp (userOnly_sub (userOnly_mono (getD_userOnly hin _) (by rw [hlastT]; omega))
              (userOnly_col (by rw [hlastT]; omega)))
          · exact leRow_supp (userOnly_sub (userOnly_neg (userOnly_col (by rw [hlastT]; omega)))
              (userOnly_mono (getD_userOnly hin _) (by rw [hlastT]; omega)))
        · simp at hr
      have hgT : GoodC N v1 (tInit ncols ain items) := by
        refine ⟨?_, by simp [tInit], by simp [tInit]⟩
        intro r hr
        simp only [tInit] at hr
        obtain ⟨⟨i, it⟩, hmem, hr⟩ := List.mem_flatMap.mp hr
        obtain ⟨hi, rfl⟩ := of_mem_zip_range hmem
        simp only [tAbsRows] at hr
        split_ifs at hr with he
        · have hb := (henc i hi).body
          rw [if_pos he] at hb
          simp only [List.mem_cons, List.not_mem_nil, or_false] at hr
          rcases hr with rfl | rfl
          · rw [leRow_holds, ev_sub, hcol1 i hi, ev_user (getD_userOnly hin _) (by omega) hv1]
            linarith [hb.1]
          · rw [leRow_holds, ev_sub, ev_neg, hcol1 i hi,
              ev_user (getD_userOnly hin _) (by omega) hv1]
            linarith [hb.2]
        · simp at hr
      obtain ⟨v2, hv2, hp2, hs2⟩ := towers_complete N _ _ _ _ v1 ht
        (by
          intro job hjob
          obtain ⟨⟨i, it⟩, hmem, hj⟩ := List.mem_filterMap.mp hjob
          obtain ⟨hi, rfl⟩ := of_mem_zip_range hmem
          simp only [tJob] at hj
          split_ifs at hj with he
          obtain rfl := Option.some.inj hj
          obtain ⟨q1, q2⟩ := hpq _ (List.getElem_mem hi)
          refine ⟨by simp, pos_two q1 (by omega), ?_, ?_⟩
          · exact userOnly_mono (getD_userOnly hin _) (by rw [hlastT]; omega)
          · intro a ha
            simp only [List.mem_cons, List.not_mem_nil, or_false] at ha
            rcases ha with rfl | rfl
            · exact userOnly_col (by rw [hlastT]; omega)
            · exact userOnly_col (by rw [hlastT]; omega))
        (by omega)
        (by
          intro job hjob
          obtain ⟨⟨i, it⟩, hmem, hj⟩ := List.mem_filterMap.mp hjob
          obtain ⟨hi, rfl⟩ := of_mem_zip_range hmem
          simp only [tJob] at hj
          split_ifs at hj with he
          obtain rfl := Option.some.inj hj
          have hb := (henc i hi).body
          rw [if_neg he] at hb
          simp only
          rw [ev_user (getD_userOnly hin _) (by omega) hv1]
          apply hb.congr
          intro i' hi'
          have : i' = 0 ∨ i' = 1 := by simp at hi'; omega
          rcases this with rfl | rfl
          · simp [hcol1 i hi]
          · simp; exact (hcol2 i hi).symm)
      -- the state after the loop: the rows `aux2 == 1`, `aux1 + out/mult <= 0` are appended
      have hinv1 : Inv st1 := by rw [est]; exact hinvT.setLast hle
      have hinv0 : Inv st0 := by
        refine ⟨?_, hinv1.qmat, hinv1.lb0⟩
        intro r hr
        simp only [hst0] at hr
        rcases List.mem_append.mp hr with hr | hr
        · exact hinv1.rows r hr
        · simp only [tTail] at hr
          rcases List.mem_append.mp hr with hr | hr
          · obtain ⟨i, hi, rfl⟩ := List.mem_map.mp hr
            have hi' := List.mem_range.mp hi
            exact eqRow_supp (userOnly_sub (userOnly_col (by show _ < st1.last; omega))
              (userOnly_const _ _))
          · obtain ⟨i, hi, rfl⟩ := List.mem_map.mp hr
            have hi' := List.mem_range.mp hi
            exact leRow_supp (userOnly_add (userOnly_col (by show _ < st1.last; omega))
              (userOnly_smul _ (userOnly_mono (getD_userOnly hout i) (by show _ ≤ st1.last; omega))))
      have hv2' : ∀ j < ncols + 2 * s, v2 j = v1 j := fun j hj => hv2 j (by rw [hlastT]; exact hj)
      have hg1 : GoodC N v2 st1 := by
        rw [est]; exact (hgT.congr hinvT hv2).setLast _
      have hg0 : GoodC N v2 st0 := by
        refine ⟨?_, hg1.soc, hg1.lbs⟩
        intro r hr
        simp only [hst0] at hr
        rcases List.mem_append.mp hr with hr | hr
        · exact hg1.rows r hr
        · simp only [tTail] at hr
          rcases List.mem_append.mp hr with hr | hr
          · obtain ⟨i, hi, rfl⟩ := List.mem_map.mp hr
            have hi' := List.mem_range.mp hi
            rw [eqRow_holds, ev_sub, ev_const,
              ev_congr (userOnly_col (show ncols + s + i < ncols + 2 * s by omega)) N hv2',
              hcol2 i hi', (henc i hi').row_one]
            ring
          · obtain ⟨i, hi, rfl⟩ := List.mem_map.mp hr
            have hi' := List.mem_range.mp hi
            rw [leRow_holds, ev_add, ev_smul,
              ev_congr (userOnly_col (show ncols + i < ncols + 2 * s by omega)) N hv2',
              hcol1 i hi',
              ev_user (getD_userOnly hout i) (by omega) (fun j hj => by
                rw [hv2' j (by omega), hv1 j hj])]
            exact (henc i hi').row_out
      obtain ⟨v3, hv3, hf⟩ := finish_complete E v2 hinv0 hs2 hp2 hg0
      refine ⟨v3, ?_, hf⟩
      intro j hj
      rw [hv3 j (by omega), hv2' j (by omega), hv1 j hj]

/-! ### the model always returns a program on valid parameters -/

lemma tower_isSome (st : Bld K) (left : Aff K) (right : List (Aff K)) {β : List ℕ} (hne : β ≠ [])
    (hpos : ∀ b ∈ β, 1 ≤ b) : ∃ r, tower st left right β = some r := by
  obtain ⟨out, ho⟩ := toSoc_some hne hpos
  unfold tower; rw [ho]; exact ⟨_, rfl⟩

lemma towers_isSome : ∀ (jobs : List (Aff K × List (Aff K) × List ℕ)) (st : Bld K),
    (∀ job ∈ jobs, job.2.2 ≠ [] ∧ ∀ b ∈ job.2.2, 1 ≤ b) → ∃ r, towers st jobs = some r
  | [], st, _ => ⟨_, rfl⟩
  | (l, r, β) :: rest, st, h => by
    obtain ⟨hne, hpos⟩ := h (l, r, β) List.mem_cons_self
    obtain ⟨⟨st1, p1⟩, h1⟩ := tower_isSome st l r hne hpos
    obtain ⟨⟨st2, p2⟩, h2⟩ := towers_isSome rest st1 fun job hj => h job (List.mem_cons_of_mem _ hj)
    exact ⟨(st2, p1 ++ p2), by simp only [towers, h1, h2]⟩

theorem atomEncode_isSome_g (ncols : ℕ) (k : K) (ain aout : List (Aff K)) {b c : ℕ} (hb : 1 ≤ b)
    (hc : 1 ≤ c) : ∃ P, atomEncode ncols k ain aout (.g [b, c]) = some P := by
  obtain ⟨⟨st, pend⟩, h⟩ := towers_isSome (gJobs ncols k ain [b, c]) (gInit ncols ain aout) (by
    intro job hj
    obtain ⟨j, _, rfl⟩ := List.mem_map.mp hj
    exact ⟨by simp, pos_two hb hc⟩)
  exact ⟨assemble (pend.foldl process st),
    by simp only [atomEncode, finalState, branch, h, Option.map_some]⟩

theorem atomEncode_isSome_c (ncols : ℕ) (k : K) (ain aout : List (Aff K)) {β : List ℕ} (hne : β ≠ [])
    (hpos : ∀ b ∈ β, 1 ≤ b) : ∃ P, atomEncode ncols k ain aout (.c β) = some P := by
  obtain ⟨⟨st, pend⟩, h⟩ := tower_isSome (cInit ncols k aout) (Aff.col ncols) ain hne hpos
  exact ⟨assemble (pend.foldl process st),
    by simp only [atomEncode, finalState, branch, h, Option.map_some]⟩

theorem atomEncode_isSome_t (ncols : ℕ) (k : K) (ain aout : List (Aff K))
    {items : List (ℕ × ℕ × ℕ)} (hpq : ∀ it ∈ items, 1 ≤ it.2.2 ∧ it.2.2 ≤ it.2.1) :
    ∃ P, atomEncode ncols k ain aout (.t items) = some P := by
  obtain ⟨⟨st, pend⟩, h⟩ := towers_isSome (tJobs ncols ain items) (tInit ncols ain items) (by
    intro job hjob
    obtain ⟨⟨i, it⟩, hmem, hj⟩ := List.mem_filterMap.mp hjob
    obtain ⟨hi, rfl⟩ := of_mem_zip_range hmem
    simp only [tJob] at hj
    split_ifs at hj with he
    obtain rfl := Option.some.inj hj
    obtain ⟨q1, q2⟩ := hpq _ (List.getElem_mem hi)
    exact ⟨by simp, pos_two q1 (by omega)⟩)
  exact ⟨assemble (pend.foldl process
      { st with rows := st.rows ++ tTail ncols k aout items.length }),
    by simp only [atomEncode, finalState, branch, h, Option.map_some]⟩

end RsomeV.IPC
