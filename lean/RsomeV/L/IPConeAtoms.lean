import RsomeV.L.IPConeLemmas
import Mathlib.Algebra.Order.BigOperators.Ring.Finset
import Mathlib.Analysis.SpecialFunctions.Pow.Real
import Mathlib.Algebra.BigOperators.Field

/-! Lemmas for the atoms built on the `IPCone` tower (xtypes 'G', 'T', 'C'), roots in `ℝ`. -/

set_option linter.unusedSectionVars false
set_option linter.unusedSimpArgs false
set_option linter.unusedVariables false

namespace RsomeV.IPC
open Finset

/-- `ℝ` has `k`-th roots of non-negative numbers -/
theorem real_hasRoots : HasRoots ℝ := by
  intro y k hy hk
  refine ⟨y ^ ((k : ℝ)⁻¹), Real.rpow_nonneg hy _, ?_⟩
  exact Real.rpow_inv_natCast_pow hy (by omega)

section
variable {K : Type} [Field K] [LinearOrder K] [IsStrictOrderedRing K]

/-- `to_soc` returns on every non-empty vector of positive weights -/
lemma toSoc_some {β : List ℕ} (hne : β ≠ []) (hpos : ∀ b ∈ β, 1 ≤ b) : ∃ out, toSoc β = some out := by
  by_cases h1 : β.length = 1
  · obtain ⟨b, rfl⟩ := List.length_eq_one_iff.mp h1; exact ⟨_, toSoc_singleton b⟩
  · obtain ⟨m, _, hc⟩ := toSoc_eq (wf_of hne hpos h1)
    rcases hc with ⟨_, r, _, ht⟩ | ⟨_, r, _, ht⟩ <;> exact ⟨_, ht⟩

/-- soundness of a tower in terms of values -/
theorem towerSat_sound {β : List ℕ} (hne : β ≠ []) (hpos : ∀ b ∈ β, 1 ≤ b) {x : K} {r : ℕ → K}
    (h : TowerSat β x r) :
    (∀ i < β.length, 0 ≤ r i) ∧ |x| ^ β.sum ≤ ∏ i ∈ range β.length, r i ^ β.getD i 0 := by
  obtain ⟨ρ, hx, hr, out, ho, hh⟩ := h
  obtain ⟨hnn, hpw⟩ := toSoc_sound ρ hne hpos ho hh
  rw [prodPow_rvars, hx] at hpw
  refine ⟨fun i hi => by rw [← hr i hi]; exact hnn i hi, ?_⟩
  have he : ∏ i ∈ range β.length, ρ (.r i) ^ β.getD i 0 = ∏ i ∈ range β.length, r i ^ β.getD i 0 :=
    prod_congr rfl fun i hi => by rw [hr i (mem_range.mp hi)]
  rw [← he]; exact hpw

/-- completeness of a tower in terms of values, in a field with roots -/
theorem towerSat_complete (hroot : HasRoots K) {β : List ℕ} (hne : β ≠ []) (hpos : ∀ b ∈ β, 1 ≤ b)
    {x : K} {r : ℕ → K} (hnn : ∀ i < β.length, 0 ≤ r i)
    (hpw : |x| ^ β.sum ≤ ∏ i ∈ range β.length, r i ^ β.getD i 0) : TowerSat β x r := by
  obtain ⟨out, hout⟩ := toSoc_some hne hpos
  let ρ0 : Var → K := fun v => match v with
    | .x => x
    | .r i => r i
    | .aux _ => 0
  obtain ⟨ρ', h1, h2, hh⟩ := toSoc_complete hroot ρ0 hne hpos hout hnn (by
    rw [prodPow_rvars]; exact hpw)
  exact ⟨ρ', h1, fun i _ => h2 i, out, hout, hh⟩

lemma pos_two {b c : ℕ} (hb : 1 ≤ b) (hc : 1 ≤ c) : ∀ x ∈ [b, c], 1 ≤ x := by
  intro x hx; simp only [List.mem_cons, List.not_mem_nil, or_false] at hx
  rcases hx with rfl | rfl <;> assumption

lemma TowerSat.congr {β : List ℕ} {x : K} {r r' : ℕ → K} (h : TowerSat β x r)
    (hr : ∀ i < β.length, r i = r' i) : TowerSat β x r' := by
  obtain ⟨ρ, h1, h2, h3⟩ := h
  exact ⟨ρ, h1, fun i hi => (h2 i hi).trans (hr i hi), h3⟩

/-- soundness of a two-weight tower `IPCone(x, (r0, r1), [b, c])` -/
lemma tower2_sound {b c : ℕ} (hb : 1 ≤ b) (hc : 1 ≤ c) {x r0 r1 : K}
    (h : TowerSat [b, c] x (fun i => if i = 0 then r0 else r1)) :
    0 ≤ r0 ∧ 0 ≤ r1 ∧ |x| ^ (b + c) ≤ r0 ^ b * r1 ^ c := by
  obtain ⟨hnn, hpw⟩ := towerSat_sound (by simp) (pos_two hb hc) h
  have h0 := hnn 0 (by simp)
  have h1 := hnn 1 (by simp)
  simp only [if_true, one_ne_zero, if_false] at h0 h1
  refine ⟨h0, h1, ?_⟩
  simpa [Finset.prod_range_succ] using hpw

/-- completeness of a two-weight tower in a field with roots -/
lemma tower2_complete (hroot : HasRoots K) {b c : ℕ} (hb : 1 ≤ b) (hc : 1 ≤ c) {x r0 r1 : K}
    (h0 : 0 ≤ r0) (h1 : 0 ≤ r1) (hpw : |x| ^ (b + c) ≤ r0 ^ b * r1 ^ c) :
    TowerSat [b, c] x (fun i => if i = 0 then r0 else r1) := by
  apply towerSat_complete hroot (by simp) (pos_two hb hc)
  · intro i hi
    have : i = 0 ∨ i = 1 := by simp at hi; omega
    rcases this with rfl | rfl <;> simpa
  · simpa [Finset.prod_range_succ] using hpw

/-! ### 'G' : p-norm -/

/-- root-free consequence of the 'G' encoding for weights `[b, c]` (degree `(b+c)/b`) -/
theorem pnorm_enc_sound {b c n : ℕ} (hb : 1 ≤ b) (hc : 1 ≤ c) {y : ℕ → K} {o : K} {t : ℕ → K}
    {w : K} (h : PnormEnc [b, c] n y o t w) :
    0 ≤ w ∧ w ≤ -o ∧ (∀ j < n, 0 ≤ t j ∧ |y j| ^ (b + c) ≤ t j ^ b * w ^ c) ∧
      ∑ j ∈ range n, t j ≤ w := by
  have key : ∀ j < n, 0 ≤ t j ∧ |y j| ^ (b + c) ≤ t j ^ b * w ^ c := by
    intro j hj
    obtain ⟨a0, a1, a2⟩ := tower2_sound hb hc (h.tower j hj)
    exact ⟨a0, a2⟩
  have hw : 0 ≤ w := le_trans (sum_nonneg fun j hj => (key j (mem_range.mp hj)).1) h.row_sum
  exact ⟨hw, by linarith [h.row_out], key, h.row_sum⟩

/-- integer degree `p ≥ 2` (`β = [1, p-1]`): `Σ_j |y_j|^p ≤ (-o)^p` and `0 ≤ -o` -/
theorem pnorm_int_sound {p n : ℕ} (hp : 2 ≤ p) {y : ℕ → K} {o : K} {t : ℕ → K}
    {w : K} (h : PnormEnc [1, p - 1] n y o t w) :
    0 ≤ -o ∧ ∑ j ∈ range n, |y j| ^ p ≤ (-o) ^ p := by
  obtain ⟨hw, hwo, key, hsum⟩ := pnorm_enc_sound (le_refl 1) (by omega) h
  have hp1 : 1 + (p - 1) = p := by omega
  refine ⟨le_trans hw hwo, ?_⟩
  calc ∑ j ∈ range n, |y j| ^ p ≤ ∑ j ∈ range n, t j * w ^ (p - 1) := by
        apply sum_le_sum
        intro j hj
        have := (key j (mem_range.mp hj)).2
        rwa [hp1, pow_one] at this
    _ = (∑ j ∈ range n, t j) * w ^ (p - 1) := by rw [sum_mul]
    _ ≤ w * w ^ (p - 1) := mul_le_mul_of_nonneg_right hsum (pow_nonneg hw _)
    _ = w ^ p := by rw [← pow_succ', Nat.sub_add_cancel (by omega)]
    _ ≤ (-o) ^ p := pow_le_pow_left₀ hw hwo p

/-- completeness for integer degree in a field with roots -/
theorem pnorm_int_complete (hroot : HasRoots K) {p n : ℕ} (hp : 2 ≤ p) {y : ℕ → K} {o : K}
    (ho : 0 ≤ -o) (hs : ∑ j ∈ range n, |y j| ^ p ≤ (-o) ^ p) :
    ∃ (t : ℕ → K) (w : K), PnormEnc [1, p - 1] n y o t w := by
  have hp1 : 1 + (p - 1) = p := by omega
  obtain ⟨w, hw⟩ : ∃ w : K, w = -o := ⟨_, rfl⟩
  rw [← hw] at ho hs
  -- t_j = |y_j|^p / w^(p-1)   (0 when w = 0)
  obtain ⟨t, ht⟩ : ∃ t : ℕ → K, ∀ j, t j = |y j| ^ p / w ^ (p - 1) := ⟨_, fun _ => rfl⟩
  have htn : ∀ j, 0 ≤ t j := fun j => by
    rw [ht]; exact div_nonneg (pow_nonneg (abs_nonneg _) _) (pow_nonneg ho _)
  have hterm : ∀ j < n, |y j| ^ p ≤ t j * w ^ (p - 1) := by
    intro j hj
    rcases eq_or_lt_of_le ho with h0 | hpos
    · -- w = 0 : every |y_j|^p is 0
      have hz : w ^ p = 0 := by rw [← h0]; exact zero_pow (by omega)
      have hle : |y j| ^ p ≤ ∑ i ∈ range n, |y i| ^ p :=
        single_le_sum (f := fun i => |y i| ^ p) (fun i _ => pow_nonneg (abs_nonneg _) _)
          (mem_range.mpr hj)
      have : |y j| ^ p ≤ 0 := by linarith
      exact le_trans this (mul_nonneg (htn j) (pow_nonneg ho _))
    · have : w ^ (p - 1) ≠ 0 := pow_ne_zero _ (ne_of_gt hpos)
      rw [ht, div_mul_cancel₀ _ this]
  have hsumt : ∑ j ∈ range n, t j ≤ w := by
    rcases eq_or_lt_of_le ho with h0 | hpos
    · have : ∀ j ∈ range n, t j = 0 := by
        intro j _
        rw [ht, ← h0, zero_pow (by omega : p - 1 ≠ 0), div_zero]
      rw [sum_congr rfl this, sum_const_zero]; exact ho
    · simp only [ht]; rw [← sum_div, div_le_iff₀ (pow_pos hpos _), ← pow_succ',
        Nat.sub_add_cancel (by omega)]
      exact hs
  refine ⟨t, w, by rw [hw]; simp, hsumt, ?_⟩
  intro j hj
  apply tower2_complete hroot (le_refl 1) (by omega) (htn j) ho
  rw [hp1, pow_one]; exact hterm j hj

/-- one entry of the rational-degree bound: from `Y^(b+c) ≤ t^b·W^c` to `Y^((b+c)/b) ≤ t·W^(c/b)` -/
lemma rpow_entry {b c : ℕ} (hb : 1 ≤ b) {Y t W : ℝ} (hY : 0 ≤ Y) (ht : 0 ≤ t) (hW : 0 ≤ W)
    (h : Y ^ (b + c) ≤ t ^ b * W ^ c) :
    Y ^ (((b + c : ℕ) : ℝ) / b) ≤ t * W ^ ((c : ℝ) / b) := by
  have hb0 : b ≠ 0 := by omega
  have hinv : (0 : ℝ) ≤ (b : ℝ)⁻¹ := inv_nonneg.mpr (Nat.cast_nonneg b)
  calc Y ^ (((b + c : ℕ) : ℝ) / b) = (Y ^ (b + c)) ^ ((b : ℝ)⁻¹) := by
        rw [div_eq_mul_inv, Real.rpow_natCast_mul hY]
    _ ≤ (t ^ b * W ^ c) ^ ((b : ℝ)⁻¹) := Real.rpow_le_rpow (pow_nonneg hY _) h hinv
    _ = (t ^ b) ^ ((b : ℝ)⁻¹) * (W ^ c) ^ ((b : ℝ)⁻¹) :=
        Real.mul_rpow (pow_nonneg ht _) (pow_nonneg hW _)
    _ = t * W ^ ((c : ℝ) / b) := by
        rw [Real.pow_rpow_inv_natCast ht hb0, div_eq_mul_inv, Real.rpow_natCast_mul hW]

/-- rational degree `(b+c)/b` over `ℝ` : `Σ_j |y_j|^((b+c)/b) ≤ (-o)^((b+c)/b)`, i.e.
`‖y‖_{(b+c)/b} ≤ -o` -/
theorem pnorm_frac_sound_real {b c n : ℕ} (hb : 1 ≤ b) (hc : 1 ≤ c) {y : ℕ → ℝ} {o : ℝ}
    {t : ℕ → ℝ} {w : ℝ} (h : PnormEnc [b, c] n y o t w) :
    0 ≤ -o ∧ ∑ j ∈ range n, |y j| ^ (((b + c : ℕ) : ℝ) / b) ≤ (-o) ^ (((b + c : ℕ) : ℝ) / b) := by
  obtain ⟨hw, hwo, key, hsum⟩ := pnorm_enc_sound hb hc h
  have hbpos : (0 : ℝ) < b := Nat.cast_pos.mpr (by omega)
  have hexp : (0 : ℝ) ≤ ((b + c : ℕ) : ℝ) / b := div_nonneg (Nat.cast_nonneg _) hbpos.le
  have hsplit : ((b + c : ℕ) : ℝ) / b = 1 + (c : ℝ) / b := by
    rw [Nat.cast_add, add_div, div_self (ne_of_gt hbpos)]
  refine ⟨le_trans hw hwo, ?_⟩
  calc ∑ j ∈ range n, |y j| ^ (((b + c : ℕ) : ℝ) / b)
      ≤ ∑ j ∈ range n, t j * w ^ ((c : ℝ) / b) := by
        apply sum_le_sum
        intro j hj
        obtain ⟨h1, h2⟩ := key j (mem_range.mp hj)
        exact rpow_entry hb (abs_nonneg _) h1 hw h2
    _ = (∑ j ∈ range n, t j) * w ^ ((c : ℝ) / b) := by rw [sum_mul]
    _ ≤ w * w ^ ((c : ℝ) / b) := mul_le_mul_of_nonneg_right hsum (Real.rpow_nonneg hw _)
    _ = w ^ (((b + c : ℕ) : ℝ) / b) := by
        rw [hsplit, Real.rpow_one_add' hw]
        have : (0 : ℝ) ≤ (c : ℝ) / b := div_nonneg (Nat.cast_nonneg _) hbpos.le
        linarith
    _ ≤ (-o) ^ (((b + c : ℕ) : ℝ) / b) := Real.rpow_le_rpow hw hwo hexp

/-! ### 'T' : power -/

/-- `|x|^(p/q) ≤ -o` in root-free form -/
theorem power_enc_sound {p q : ℕ} (hq : 1 ≤ q) (hpq : q ≤ p) {x o t one : K}
    (h : PowerEnc p q x o t one) : 0 ≤ -o ∧ |x| ^ p ≤ (-o) ^ q := by
  have hto : t ≤ -o := by linarith [h.row_out]
  have hbody := h.body
  by_cases he : p = q
  · rw [if_pos he] at hbody
    have hx : |x| ≤ t := abs_le.mpr ⟨hbody.2, hbody.1⟩
    have ht : 0 ≤ t := le_trans (abs_nonneg _) hx
    refine ⟨le_trans ht hto, ?_⟩
    rw [he]; exact pow_le_pow_left₀ (abs_nonneg _) (le_trans hx hto) q
  · rw [if_neg he] at hbody
    obtain ⟨a0, a1, a2⟩ := tower2_sound hq (by omega : 1 ≤ p - q) hbody
    rw [h.row_one, one_pow, mul_one, Nat.add_sub_cancel' hpq] at a2
    exact ⟨le_trans a0 hto, le_trans a2 (pow_le_pow_left₀ a0 hto q)⟩

/-- completeness with the explicit witnesses `aux1 = -o`, `aux2 = 1` -/
theorem power_enc_complete' (hroot : HasRoots K) {p q : ℕ} (hq : 1 ≤ q) (hpq : q ≤ p) {x o : K}
    (ho : 0 ≤ -o) (hx : |x| ^ p ≤ (-o) ^ q) : PowerEnc p q x o (-o) 1 := by
  refine ⟨rfl, by simp, ?_⟩
  by_cases he : p = q
  · rw [if_pos he]
    subst he
    have : |x| ≤ -o := (pow_le_pow_iff_left₀ (abs_nonneg _) ho (by omega)).mp hx
    have := abs_le.mp this
    exact ⟨this.2, by linarith [this.1]⟩
  · rw [if_neg he]
    apply tower2_complete hroot hq (by omega : 1 ≤ p - q) ho (show (0 : K) ≤ 1 from zero_le_one)
    rw [Nat.add_sub_cancel' hpq, one_pow, mul_one]; exact hx

theorem power_enc_complete (hroot : HasRoots K) {p q : ℕ} (hq : 1 ≤ q) (hpq : q ≤ p) {x o : K}
    (ho : 0 ≤ -o) (hx : |x| ^ p ≤ (-o) ^ q) :
    ∃ (t one : K), PowerEnc p q x o t one := by
  refine ⟨-o, 1, rfl, by simp, ?_⟩
  by_cases he : p = q
  · rw [if_pos he]
    subst he
    have : |x| ≤ -o := (pow_le_pow_iff_left₀ (abs_nonneg _) ho (by omega)).mp hx
    have := abs_le.mp this
    exact ⟨this.2, by linarith [this.1]⟩
  · rw [if_neg he]
    apply tower2_complete hroot hq (by omega : 1 ≤ p - q) ho (show (0 : K) ≤ 1 from zero_le_one)
    rw [Nat.add_sub_cancel' hpq, one_pow, mul_one]; exact hx

/-! ### 'C' : geometric mean -/

/-- `o ≤ k·gmean(in)` in root-free form: all entries are non-negative and, when `o ≥ 0`,
`o^d ≤ k^d · Π in_i^β_i` with `d = Σβ` -/
theorem gmean_enc_sound {β : List ℕ} (hne : β ≠ []) (hpos : ∀ b ∈ β, 1 ≤ b) {k o a : K}
    (hk : 0 ≤ k) {inp : ℕ → K} (h : GmeanEnc β k o inp a) :
    (∀ i < β.length, 0 ≤ inp i) ∧
      (0 ≤ o → o ^ β.sum ≤ k ^ β.sum * ∏ i ∈ range β.length, inp i ^ β.getD i 0) := by
  obtain ⟨hnn, hpw⟩ := towerSat_sound hne hpos h.tower
  refine ⟨hnn, ?_⟩
  intro ho0
  have h1 : o ≤ k * |a| := by
    have := h.row_out
    have h2 : -(a * k) ≤ k * |a| := by
      rw [mul_comm a k, ← mul_neg]; exact mul_le_mul_of_nonneg_left (neg_le_abs a) hk
    linarith
  calc o ^ β.sum ≤ (k * |a|) ^ β.sum := pow_le_pow_left₀ ho0 h1 _
    _ = k ^ β.sum * |a| ^ β.sum := mul_pow _ _ _
    _ ≤ _ := mul_le_mul_of_nonneg_left hpw (pow_nonneg hk _)

theorem gmean_enc_complete (hroot : HasRoots K) {β : List ℕ} (hne : β ≠ []) (hpos : ∀ b ∈ β, 1 ≤ b)
    {k o : K} (hk : 0 ≤ k) {inp : ℕ → K} (hnn : ∀ i < β.length, 0 ≤ inp i)
    (h : o ≤ 0 ∨ o ^ β.sum ≤ k ^ β.sum * ∏ i ∈ range β.length, inp i ^ β.getD i 0) :
    ∃ a : K, GmeanEnc β k o inp a := by
  have hd : β.sum ≠ 0 := by
    obtain ⟨b, hb⟩ := List.exists_mem_of_ne_nil β hne
    have := hpos b hb
    have := List.single_le_sum (l := β) (fun _ _ => Nat.zero_le _) b hb
    omega
  have hP : 0 ≤ ∏ i ∈ range β.length, inp i ^ β.getD i 0 :=
    prod_nonneg fun i hi => pow_nonneg (hnn i (mem_range.mp hi)) _
  -- the value of `aux`
  obtain ⟨a, ha1, ha2⟩ : ∃ a : K, a * k + o ≤ 0 ∧
      |a| ^ β.sum ≤ ∏ i ∈ range β.length, inp i ^ β.getD i 0 := by
    by_cases ho : o ≤ 0
    · exact ⟨0, by simpa using ho, by rw [abs_zero, zero_pow hd]; exact hP⟩
    · have ho' : 0 < o := lt_of_not_ge ho
      have h' := h.resolve_left ho
      have hkpos : 0 < k := by
        rcases eq_or_lt_of_le hk with hk0 | hk0
        · rw [← hk0, zero_pow hd, zero_mul] at h'
          exact absurd h' (not_le.mpr (pow_pos ho' _))
        · exact hk0
      refine ⟨-(o / k), ?_, ?_⟩
      · have : -(o / k) * k = -o := by field_simp
        rw [this]; simp
      · rw [abs_neg, abs_of_nonneg (div_nonneg ho'.le hk), div_pow,
          div_le_iff₀ (pow_pos hkpos _), mul_comm]
        exact h'
  exact ⟨a, ha1, towerSat_complete hroot hne hpos hnn ha2⟩

end

end RsomeV.IPC
