import RsomeV.L.ExpCone
import RsomeV.L.ExpConeScale
import RsomeV.L.LpDualStrong
import Mathlib.Analysis.SpecialFunctions.Log.Basic
import Mathlib.Analysis.Convex.SpecificFunctions.Basic
import Mathlib.Topology.Algebra.Module.Basic
import Mathlib.Topology.Algebra.Module.ContinuousLinearMap.Basic
import Mathlib.LinearAlgebra.Pi
import Mathlib.Tactic.Linarith
import Mathlib.Tactic.Ring
import Mathlib.Tactic.FieldSimp
import Mathlib.Tactic.Positivity

/-! The exponential cone over `ℝ` (`realExpCone`, rsome's coordinate order
`a2 * exp (a0 / a2) ≤ a1`) as a cone suitable for conic Lagrangian duality:

* `realExpStrict` : the strict part `0 < a2 ∧ a2 * exp (a0 / a2) < a1`; it is stable under
  positive scaling, `K + Ki ⊆ Ki` (`realExpCone_add_strict`, the perspective of `exp` is
  sub-additive), and open;
* `expCone_dual` : **the dual cone of the exponential cone.**  A linear functional
  `(c0, c1, c2)` that is non-negative on `realExpCone` is the `ExpPair` pairing with the point
  `(c0 - c2, c1, -c0)` of `realExpCone`; with `realExpCone_pair` this is an equivalence
  (`expCone_selfdual_iff`);
* `expProd m` / `expProdStrict m` : the product of `m` exponential cones on the consecutive index
  triples `3k, 3k+1, 3k+2` of `Fin (3 * m) → ℝ`, its cone laws, openness of the strict part, and
  `expProd_dual` : every continuous linear functional non-negative on the product is the sum of
  the `ExpPair` pairings with a point of the same product. -/

set_option linter.unusedSectionVars false
set_option linter.unusedSimpArgs false
set_option linter.unusedVariables false

namespace RsomeV
open Finset

/-! ### The strict exponential cone -/

/-- strict membership of the exponential cone (rsome's ordering): `a2 > 0` and
`a2 * exp (a0 / a2) < a1` -/
def realExpStrict (a0 a1 a2 : ℝ) : Prop := 0 < a2 ∧ a2 * Real.exp (a0 / a2) < a1

lemma realExpStrict.mem {a0 a1 a2 : ℝ} (h : realExpStrict a0 a1 a2) : realExpCone a0 a1 a2 :=
  Or.inl ⟨h.1, h.2.le⟩

lemma realExpStrict_smul (t a0 a1 a2 : ℝ) (ht : 0 < t) (h : realExpStrict a0 a1 a2) :
    realExpStrict (t * a0) (t * a1) (t * a2) := by
  obtain ⟨h2, h1⟩ := h
  refine ⟨mul_pos ht h2, ?_⟩
  have e : t * a0 / (t * a2) = a0 / a2 := by field_simp
  rw [e, mul_assoc]
  exact mul_lt_mul_of_pos_left h1 ht

/-- the perspective `(a0, a2) ↦ a2 * exp (a0 / a2)` of `exp` is sub-additive on `a2 > 0` -/
lemma exp_persp_subadd (a0 a2 b0 b2 : ℝ) (ha : 0 < a2) (hb : 0 < b2) :
    (a2 + b2) * Real.exp ((a0 + b0) / (a2 + b2))
      ≤ a2 * Real.exp (a0 / a2) + b2 * Real.exp (b0 / b2) := by
  have hs : 0 < a2 + b2 := by linarith
  have hcv := convexOn_exp.2 (Set.mem_univ (a0 / a2)) (Set.mem_univ (b0 / b2))
    (div_nonneg ha.le hs.le) (div_nonneg hb.le hs.le) (by field_simp)
  simp only [smul_eq_mul] at hcv
  have e : a2 / (a2 + b2) * (a0 / a2) + b2 / (a2 + b2) * (b0 / b2) = (a0 + b0) / (a2 + b2) := by
    field_simp
  rw [e] at hcv
  have h := mul_le_mul_of_nonneg_left hcv hs.le
  have e2 : (a2 + b2) * (a2 / (a2 + b2) * Real.exp (a0 / a2) + b2 / (a2 + b2) * Real.exp (b0 / b2))
      = a2 * Real.exp (a0 / a2) + b2 * Real.exp (b0 / b2) := by
    field_simp
  rw [e2] at h
  exact h

/-- `K + Ki ⊆ Ki` for the exponential cone -/
lemma realExpCone_add_strict (a0 a1 a2 b0 b1 b2 : ℝ) (ha : realExpCone a0 a1 a2)
    (hb : realExpStrict b0 b1 b2) : realExpStrict (a0 + b0) (a1 + b1) (a2 + b2) := by
  obtain ⟨hb2, hb1⟩ := hb
  rcases ha with ⟨ha2, ha1⟩ | ⟨ha2, ha0, ha1⟩
  · refine ⟨by linarith, ?_⟩
    have := exp_persp_subadd a0 a2 b0 b2 ha2 hb2
    linarith
  · subst ha2
    rw [zero_add]
    refine ⟨hb2, ?_⟩
    have hle : (a0 + b0) / b2 ≤ b0 / b2 := by
      apply div_le_div_of_nonneg_right _ hb2.le
      linarith
    have := mul_le_mul_of_nonneg_left (Real.exp_le_exp.mpr hle) hb2.le
    linarith

/-- the closed exponential cone is closed under addition -/
lemma realExpCone_add (a0 a1 a2 b0 b1 b2 : ℝ) (ha : realExpCone a0 a1 a2)
    (hb : realExpCone b0 b1 b2) : realExpCone (a0 + b0) (a1 + b1) (a2 + b2) := by
  rcases hb with ⟨hb2, hb1⟩ | ⟨hb2, hb0, hb1⟩
  · rcases ha with ⟨ha2, ha1⟩ | ⟨ha2, ha0, ha1⟩
    · left
      refine ⟨by linarith, ?_⟩
      have := exp_persp_subadd a0 a2 b0 b2 ha2 hb2
      linarith
    · subst ha2
      rw [zero_add]
      left
      refine ⟨hb2, ?_⟩
      have hle : (a0 + b0) / b2 ≤ b0 / b2 := by
        apply div_le_div_of_nonneg_right _ hb2.le
        linarith
      have := mul_le_mul_of_nonneg_left (Real.exp_le_exp.mpr hle) hb2.le
      linarith
  · subst hb2
    rw [add_zero]
    rcases ha with ⟨ha2, ha1⟩ | ⟨ha2, ha0, ha1⟩
    · left
      refine ⟨ha2, ?_⟩
      have hle : (a0 + b0) / a2 ≤ a0 / a2 := by
        apply div_le_div_of_nonneg_right _ ha2.le
        linarith
      have := mul_le_mul_of_nonneg_left (Real.exp_le_exp.mpr hle) ha2.le
      linarith
    · right
      exact ⟨ha2, by linarith, by linarith⟩

/-! ### The dual cone -/

/-- **Dual cone of the exponential cone.**  If the linear functional `(c0, c1, c2)` is
non-negative on the closed exponential cone, then `(c0 - c2, c1, -c0)` is a point of the closed
exponential cone; i.e. the functional is the pairing `-u2 * a0 + u1 * a1 - (u0 + u2) * a2` of
`ExpPair` with `u = (c0 - c2, c1, -c0)`.  (Classically: `K_exp^* = {(u, v, w) : u < 0,
-u * exp (w / u) ≤ e * v} ∪ {(0, v, w) : v, w ≥ 0}`; in rsome's coordinates and with rsome's
substitution `u0 + u2` for the third multiplier the factor `e` disappears.)  Proof: evaluate the
functional on the rays `(-1, 0, 0)`, `(0, 1, 0)` and on the curve `(t, exp t, 1)`, at the minimiser
`t = log (-c0 / c1)` resp. for `t → ±∞`. -/
theorem expCone_dual (c0 c1 c2 : ℝ)
    (h : ∀ a0 a1 a2 : ℝ, realExpCone a0 a1 a2 → 0 ≤ c0 * a0 + c1 * a1 + c2 * a2) :
    realExpCone (c0 - c2) c1 (-c0) := by
  have hc0 : c0 ≤ 0 := by
    have := h (-1) 0 0 (Or.inr ⟨rfl, by norm_num, le_refl _⟩)
    linarith
  have hc1 : 0 ≤ c1 := by
    have := h 0 1 0 (Or.inr ⟨rfl, le_refl _, by norm_num⟩)
    linarith
  have hcurve : ∀ t : ℝ, 0 ≤ c0 * t + c1 * Real.exp t + c2 := by
    intro t
    have := h t (Real.exp t) 1 (Or.inl ⟨one_pos, by simp⟩)
    linarith
  rcases hc0.eq_or_lt with h0 | h0
  · -- `c0 = 0`: the face `u2 = 0`
    right
    refine ⟨by rw [h0]; ring, ?_, hc1⟩
    rw [h0, zero_sub]
    by_contra hcon
    have hc2 : c2 < 0 := by linarith
    rcases hc1.eq_or_lt with h1 | h1
    · have := hcurve 0
      rw [h0, ← h1] at this
      linarith
    · have hpos : 0 < -c2 / (2 * c1) := div_pos (by linarith) (by linarith)
      have := hcurve (Real.log (-c2 / (2 * c1)))
      rw [Real.exp_log hpos, h0] at this
      have e : c1 * (-c2 / (2 * c1)) = -c2 / 2 := by field_simp
      linarith
  · -- `c0 < 0`: the curved part
    left
    have hu2 : 0 < -c0 := by linarith
    have hne : c0 ≠ 0 := ne_of_lt h0
    have h1 : 0 < c1 := by
      rcases hc1.eq_or_lt with h1 | h1
      · exfalso
        have := hcurve ((|c2| + 1) / (-c0))
        rw [← h1] at this
        have e : c0 * ((|c2| + 1) / -c0) = -(|c2| + 1) := by field_simp
        have := le_abs_self c2
        linarith
      · exact h1
    refine ⟨hu2, ?_⟩
    have hpos : 0 < -c0 / c1 := div_pos hu2 h1
    have ht := hcurve (Real.log (-c0 / c1))
    rw [Real.exp_log hpos] at ht
    have e : c1 * (-c0 / c1) = -c0 := by field_simp
    have hle : (c0 - c2) / (-c0) ≤ -Real.log (-c0 / c1) := by
      rw [div_le_iff₀ hu2]
      linarith
    calc -c0 * Real.exp ((c0 - c2) / -c0)
        ≤ -c0 * Real.exp (-Real.log (-c0 / c1)) :=
          mul_le_mul_of_nonneg_left (Real.exp_le_exp.mpr hle) hu2.le
      _ = c1 := by
          rw [Real.exp_neg, Real.exp_log hpos]
          field_simp

/-- existence form of `expCone_dual`, in the shape of `ExpPair` -/
theorem expCone_dual_exists (c0 c1 c2 : ℝ)
    (h : ∀ a0 a1 a2 : ℝ, realExpCone a0 a1 a2 → 0 ≤ c0 * a0 + c1 * a1 + c2 * a2) :
    ∃ u0 u1 u2 : ℝ, realExpCone u0 u1 u2 ∧ c0 = -u2 ∧ c1 = u1 ∧ c2 = -(u0 + u2) :=
  ⟨c0 - c2, c1, -c0, expCone_dual c0 c1 c2 h, by ring, rfl, by ring⟩

/-- **the exponential cone is "self-dual" through rsome's pairing**: `(c0, c1, c2)` is
non-negative on the cone iff `(c0 - c2, c1, -c0)` is a point of the cone -/
theorem expCone_selfdual_iff (c0 c1 c2 : ℝ) :
    (∀ a0 a1 a2 : ℝ, realExpCone a0 a1 a2 → 0 ≤ c0 * a0 + c1 * a1 + c2 * a2) ↔
      realExpCone (c0 - c2) c1 (-c0) := by
  constructor
  · exact expCone_dual c0 c1 c2
  · intro hu a0 a1 a2 ha
    have := realExpCone_pair a0 a1 a2 (c0 - c2) c1 (-c0) ha hu
    have e : - -c0 * a0 + c1 * a1 - (c0 - c2 + -c0) * a2 = c0 * a0 + c1 * a1 + c2 * a2 := by ring
    rw [e] at this
    exact this

/-- the same equivalence, quantified over the multiplier: `u` is a point of the cone iff its
`ExpPair` pairing is non-negative on the cone -/
theorem realExpCone_iff_pair (u0 u1 u2 : ℝ) :
    realExpCone u0 u1 u2 ↔
      ∀ a0 a1 a2 : ℝ, realExpCone a0 a1 a2 → 0 ≤ -u2 * a0 + u1 * a1 - (u0 + u2) * a2 := by
  constructor
  · intro hu a0 a1 a2 ha
    exact realExpCone_pair a0 a1 a2 u0 u1 u2 ha hu
  · intro h
    have := expCone_dual (-u2) u1 (-(u0 + u2)) (by
      intro a0 a1 a2 ha
      have := h a0 a1 a2 ha
      linarith)
    have e1 : -u2 - -(u0 + u2) = u0 := by ring
    have e2 : - -u2 = u2 := by ring
    rw [e1, e2] at this
    exact this

/-! ### The product cone on consecutive triples of `Fin (3 * m) → ℝ` -/

/-- the pairing of the `k`-th multiplier triple of `w` with the `k`-th triple of `v` -/
def expPairing (w v : ℕ → ℝ) (k : ℕ) : ℝ :=
  -w (3 * k + 2) * v (3 * k) + w (3 * k + 1) * v (3 * k + 1)
    - (w (3 * k) + w (3 * k + 2)) * v (3 * k + 2)

/-- the product of `m` exponential cones on the triples `3k, 3k+1, 3k+2` -/
def expProd (m : ℕ) : Set (Fin (3 * m) → ℝ) :=
  {u | ∀ k < m, realExpCone (extF u (3 * k)) (extF u (3 * k + 1)) (extF u (3 * k + 2))}

/-- the strict product cone -/
def expProdStrict (m : ℕ) : Set (Fin (3 * m) → ℝ) :=
  {u | ∀ k < m, realExpStrict (extF u (3 * k)) (extF u (3 * k + 1)) (extF u (3 * k + 2))}

lemma extF_smul' {m : ℕ} (t : ℝ) (u : Fin m → ℝ) (i : ℕ) : extF (t • u) i = t * extF u i := by
  unfold extF; split_ifs <;> simp

lemma extF_add' {m : ℕ} (u v : Fin m → ℝ) (i : ℕ) : extF (u + v) i = extF u i + extF v i := by
  unfold extF; split_ifs <;> simp

lemma continuous_extF' {m : ℕ} (i : ℕ) : Continuous fun u : Fin m → ℝ => extF u i := by
  unfold extF
  by_cases h : i < m
  · simp only [h, dif_pos]; exact continuous_apply _
  · simp only [h, dif_neg, not_false_iff]; exact continuous_const

lemma expProdStrict_subset (m : ℕ) : expProdStrict m ⊆ expProd m :=
  fun _ hu k hk => (hu k hk).mem

lemma expProdStrict_smul (m : ℕ) (u : Fin (3 * m) → ℝ) (hu : u ∈ expProdStrict m)
    (t : ℝ) (ht : 0 < t) : t • u ∈ expProdStrict m := by
  intro k hk
  rw [extF_smul', extF_smul', extF_smul']
  exact realExpStrict_smul t _ _ _ ht (hu k hk)

lemma expProd_add_strict (m : ℕ) (u : Fin (3 * m) → ℝ) (hu : u ∈ expProd m)
    (v : Fin (3 * m) → ℝ) (hv : v ∈ expProdStrict m) : u + v ∈ expProdStrict m := by
  intro k hk
  rw [extF_add', extF_add', extF_add']
  exact realExpCone_add_strict _ _ _ _ _ _ (hu k hk) (hv k hk)

lemma isOpen_realExpStrict {m : ℕ} (i0 i1 i2 : ℕ) :
    IsOpen {u : Fin m → ℝ | realExpStrict (extF u i0) (extF u i1) (extF u i2)} := by
  have hs : IsOpen {u : Fin m → ℝ | 0 < extF u i2} :=
    isOpen_lt continuous_const (continuous_extF' i2)
  have hf : ContinuousOn
      (fun u : Fin m → ℝ => extF u i2 * Real.exp (extF u i0 / extF u i2) - extF u i1)
      {u : Fin m → ℝ | 0 < extF u i2} := by
    apply ContinuousOn.sub _ (continuous_extF' i1).continuousOn
    apply ContinuousOn.mul (continuous_extF' i2).continuousOn
    apply Real.continuous_exp.comp_continuousOn
    exact ContinuousOn.div (continuous_extF' i0).continuousOn (continuous_extF' i2).continuousOn
      (fun u hu => ne_of_gt hu)
  have := hf.isOpen_inter_preimage hs (isOpen_Iio (a := (0 : ℝ)))
  convert this using 1
  ext u
  simp only [realExpStrict, Set.mem_ofPred_eq, Set.mem_inter_iff, Set.mem_preimage, Set.mem_Iio,
    sub_neg]

lemma isOpen_expProdStrict (m : ℕ) : IsOpen (expProdStrict m) := by
  have : expProdStrict m = ⋂ k ∈ Finset.range m,
      {u : Fin (3 * m) → ℝ |
        realExpStrict (extF u (3 * k)) (extF u (3 * k + 1)) (extF u (3 * k + 2))} := by
    ext u
    simp [expProdStrict]
  rw [this]
  exact isOpen_biInter_finset (fun k _ => isOpen_realExpStrict _ _ _)

lemma sum_range_three' (g : ℕ → ℝ) (m : ℕ) :
    ∑ i ∈ range (3 * m), g i = ∑ k ∈ range m, (g (3 * k) + g (3 * k + 1) + g (3 * k + 2)) := by
  induction m with
  | zero => simp
  | succ m ih =>
    rw [show 3 * (m + 1) = 3 * m + 1 + 1 + 1 by ring, Finset.sum_range_succ, Finset.sum_range_succ,
      Finset.sum_range_succ, ih, Finset.sum_range_succ]
    ring

/-- the vector carrying `(a0, a1, a2)` on the `k`-th triple and zero elsewhere -/
def tripleVec (k : ℕ) (a0 a1 a2 : ℝ) : ℕ → ℝ := fun i =>
  if i = 3 * k then a0 else if i = 3 * k + 1 then a1 else if i = 3 * k + 2 then a2 else 0

lemma tripleVec_0 (k : ℕ) (a0 a1 a2 : ℝ) : tripleVec k a0 a1 a2 (3 * k) = a0 := by
  unfold tripleVec; rw [if_pos rfl]

lemma tripleVec_1 (k : ℕ) (a0 a1 a2 : ℝ) : tripleVec k a0 a1 a2 (3 * k + 1) = a1 := by
  unfold tripleVec; rw [if_neg (by omega), if_pos rfl]

lemma tripleVec_2 (k : ℕ) (a0 a1 a2 : ℝ) : tripleVec k a0 a1 a2 (3 * k + 2) = a2 := by
  unfold tripleVec; rw [if_neg (by omega), if_neg (by omega), if_pos rfl]

lemma tripleVec_other (k k' : ℕ) (hne : k' ≠ k) (a0 a1 a2 : ℝ) (p : ℕ) (hp : p < 3) :
    tripleVec k a0 a1 a2 (3 * k' + p) = 0 := by
  unfold tripleVec; rw [if_neg (by omega), if_neg (by omega), if_neg (by omega)]

/-- **Dual of the product of exponential cones**: a continuous linear functional on
`Fin (3 * m) → ℝ` that is non-negative on the product of exponential cones is the sum of the
`ExpPair` pairings with a point `w` of the same product. -/
theorem expProd_dual (m : ℕ) (ψ : (Fin (3 * m) → ℝ) →L[ℝ] ℝ) (hψ : ∀ u ∈ expProd m, 0 ≤ ψ u) :
    ∃ w : ℕ → ℝ, (∀ k < m, realExpCone (w (3 * k)) (w (3 * k + 1)) (w (3 * k + 2))) ∧
      ∀ u : Fin (3 * m) → ℝ, ψ u = ∑ k ∈ range m, expPairing w (extF u) k := by
  set c0 : Fin (3 * m) → ℝ := fun k => ψ (fun j => if k = j then 1 else 0) with hc0
  set c : ℕ → ℝ := extF c0 with hc
  have hrep : ∀ u : Fin (3 * m) → ℝ, ψ u = ∑ i ∈ range (3 * m), c i * extF u i := by
    intro u
    have h := LinearMap.pi_apply_eq_sum_univ (ψ : (Fin (3 * m) → ℝ) →ₗ[ℝ] ℝ) u
    have h' : ψ u = ∑ k : Fin (3 * m), u k * c0 k := by
      simpa [hc0, smul_eq_mul] using h
    rw [h', ← Fin.sum_univ_eq_sum_range (fun k => c k * extF u k) (3 * m)]
    apply Finset.sum_congr rfl
    intro k _
    rw [hc, extF_val, extF_val, mul_comm]
  set w : ℕ → ℝ := fun i =>
    if i % 3 = 0 then c i - c (i + 2) else if i % 3 = 1 then c i else - c (i - 2) with hw
  have hw0 : ∀ k, w (3 * k) = c (3 * k) - c (3 * k + 2) := by
    intro k
    have : (3 * k) % 3 = 0 := by omega
    simp only [hw, this, if_true]
  have hw1 : ∀ k, w (3 * k + 1) = c (3 * k + 1) := by
    intro k
    have h1 : (3 * k + 1) % 3 = 1 := by omega
    simp only [hw, h1, if_true]
    norm_num
  have hw2 : ∀ k, w (3 * k + 2) = - c (3 * k) := by
    intro k
    have h1 : (3 * k + 2) % 3 = 2 := by omega
    simp only [hw, h1, Nat.add_sub_cancel]
    norm_num
  have hpair : ∀ (v : ℕ → ℝ) k, expPairing w v k
      = c (3 * k) * v (3 * k) + c (3 * k + 1) * v (3 * k + 1) + c (3 * k + 2) * v (3 * k + 2) := by
    intro v k
    simp only [expPairing, hw0, hw1, hw2]
    ring
  refine ⟨w, ?_, ?_⟩
  · intro k hk
    rw [hw0, hw1, hw2]
    apply expCone_dual
    intro a0 a1 a2 ha
    -- the test vector supported on the `k`-th triple
    set t : ℕ → ℝ := tripleVec k a0 a1 a2 with ht
    set u : Fin (3 * m) → ℝ := fun i => t i.val with hu
    have hext : ∀ i < 3 * m, extF u i = t i := by
      intro i hi
      have : extF u i = u ⟨i, hi⟩ := extF_val u ⟨i, hi⟩
      rw [this]
    have hz : ∀ k', k' ≠ k → t (3 * k') = 0 ∧ t (3 * k' + 1) = 0 ∧ t (3 * k' + 2) = 0 := by
      intro k' hne
      have z0 := tripleVec_other k k' hne a0 a1 a2 0 (by omega)
      rw [Nat.add_zero] at z0
      exact ⟨z0, tripleVec_other k k' hne a0 a1 a2 1 (by omega),
        tripleVec_other k k' hne a0 a1 a2 2 (by omega)⟩
    have hmem : u ∈ expProd m := by
      intro k' hk'
      rw [hext _ (by omega), hext _ (by omega), hext _ (by omega)]
      by_cases hkk : k' = k
      · subst hkk
        rw [ht, tripleVec_0, tripleVec_1, tripleVec_2]
        exact ha
      · obtain ⟨z0, z1, z2⟩ := hz k' hkk
        rw [z0, z1, z2]
        exact realExpCone_zero
    have h := hψ u hmem
    rw [hrep, sum_range_three'] at h
    rw [Finset.sum_eq_single k] at h
    · rw [hext _ (by omega), hext _ (by omega), hext _ (by omega), ht, tripleVec_0, tripleVec_1,
        tripleVec_2] at h
      exact h
    · intro k' hk' hne
      have hk'' : k' < m := Finset.mem_range.mp hk'
      obtain ⟨z0, z1, z2⟩ := hz k' hne
      rw [hext _ (by omega), hext _ (by omega), hext _ (by omega), z0, z1, z2]
      ring
    · intro hn
      exact absurd (Finset.mem_range.mpr hk) hn
  · intro u
    rw [hrep, sum_range_three']
    apply Finset.sum_congr rfl
    intro k _
    rw [hpair]

end RsomeV
