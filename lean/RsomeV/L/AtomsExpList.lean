import RsomeV.L.AtomsExp

/-! Several exp-type constraints in one model (`encodeAtoms`): every atom contributes a *fragment*
(rows, cones, auxiliary columns at its own offset `b`); `do_math` only appends.  Generic lemmas that
lift per-fragment soundness / completeness to the whole list. -/

set_option linter.unusedSectionVars false
set_option linter.unusedSimpArgs false
set_option linter.unusedVariables false

namespace RsomeV.AExp
open Finset

section generic
variable {K : Type} [Field K] [LinearOrder K] [IsStrictOrderedRing K]

namespace Atom

/-- number of auxiliary columns an atom creates before the common step -/
def naux : Atom K → ℕ
  | .entropy R => R.ain.length
  | .softplus R => 2 * R.pairs.length
  | .kl R => R.p.length
  | _ => 0

/-- rows the atom appends to `aux_constr` when `b` columns exist -/
def fragRows (b : ℕ) : Atom K → List (ERow K)
  | .entropy R => (List.range R.aout.length).map fun i =>
      ERow.le0 ((R.outDiv i).sub (Aff.sumVars b R.ain.length))
  | .softplus R => (List.range R.pairs.length).map fun t =>
      ERow.le0 (((Aff.var (b + 2 * t)).add (Aff.var (b + 2 * t + 1))).sub (Aff.cst 1))
  | .kl R => [ERow.le0 ((Aff.sumVars b R.p.length).sub (Aff.cst R.r))]
  | _ => []

/-- cones the atom appends to `self.exp_constr` -/
def fragExp (b : ℕ) : Atom K → List (ExpC K)
  | .exp R => R.pairs.map fun p => ⟨R.inAt (p.getD 0 0), (R.outDiv (p.getD 1 0)).neg, Aff.cst 1⟩
  | .log R => R.pairs.map fun p => ⟨R.outDiv (p.getD 1 0), R.inAt (p.getD 0 0), Aff.cst 1⟩
  | .softplus R => (List.range R.pairs.length).flatMap fun t =>
      [⟨(R.inAt ((R.pairs.getD t []).getD 0 0)).add (R.outDiv ((R.pairs.getD t []).getD 1 0)),
          Aff.var (b + 2 * t), Aff.cst 1⟩,
       ⟨R.outDiv ((R.pairs.getD t []).getD 1 0), Aff.var (b + 2 * t + 1), Aff.cst 1⟩]
  | .pexp R => R.triples.map fun p =>
      ⟨R.inAt (p.getD 0 0), (R.outDiv (p.getD 2 0)).neg, R.scAt (p.getD 1 0)⟩
  | .plog R => R.triples.map fun p =>
      ⟨R.outDiv (p.getD 2 0), R.inAt (p.getD 0 0), R.scAt (p.getD 1 0)⟩
  | _ => []

/-- cones the atom appends to `more_exp` -/
def fragMore (b : ℕ) : Atom K → List (ExpC K)
  | .entropy R => (List.range R.ain.length).map fun t => ⟨Aff.var (b + t), Aff.cst 1, R.inAt t⟩
  | .kl R => (List.range R.p.length).map fun t =>
      ⟨((Aff.var (b + t)).smul (1 / R.phat.getD t 0)).neg, Aff.cst 1,
        (R.p.getD t default).smul (1 / R.phat.getD t 0)⟩
  | _ => []

/-- the fragment of atom `a` placed at offset `b`, as a stand-alone state -/
def frag (b : ℕ) (a : Atom K) : ExpEnc K := ⟨b + a.naux, a.fragRows b, a.fragExp b ++ a.fragMore b⟩

end Atom

lemma EncSt.step_eq (s : EncSt K) (a : Atom K) :
    s.step a = ⟨s.last + a.naux, s.rows ++ a.fragRows s.last, s.expC ++ a.fragExp s.last,
      s.more ++ a.fragMore s.last⟩ := by
  cases a <;> simp [EncSt.step, Atom.naux, Atom.fragRows, Atom.fragExp, Atom.fragMore]

lemma encodeAtom_eq_frag (n : ℕ) (a : Atom K) : encodeAtom n a = Atom.frag n a := by
  simp [encodeAtom, encodeAtoms, EncSt.step_eq, EncSt.finish, Atom.frag]

namespace EncSt

/-- supports of everything in the state lie below `last` -/
structure WF (s : EncSt K) : Prop where
  rows : ∀ r ∈ s.rows, ∀ j, s.last ≤ j → r.lin j = 0
  cones : ∀ c ∈ s.expC ++ s.more, c.e1.SuppLt s.last ∧ c.e2.SuppLt s.last ∧ c.e3.SuppLt s.last

lemma finish_wf {s : EncSt K} (h : s.WF) : s.finish.WF := ⟨h.rows, h.cones⟩

lemma step_wf {s : EncSt K} {a : Atom K} (h : s.WF) (ha : (Atom.frag s.last a).WF) : (s.step a).WF := by
  rw [step_eq]
  have hle : s.last ≤ s.last + a.naux := Nat.le_add_right _ _
  constructor
  · intro r hr j hj
    rcases List.mem_append.1 hr with hr | hr
    · exact h.rows r hr j (le_trans hle hj)
    · exact ha.rows r hr j hj
  · intro c hc
    have hc' : c ∈ s.expC ++ s.more ∨ c ∈ a.fragExp s.last ++ a.fragMore s.last := by
      simp only [List.mem_append] at hc ⊢
      tauto
    rcases hc' with hc' | hc'
    · obtain ⟨h1, h2, h3⟩ := h.cones c hc'
      exact ⟨h1.mono hle, h2.mono hle, h3.mono hle⟩
    · exact ha.cones c hc'

/-- only appends: where every atom of the list lands -/
lemma foldl_spec (atoms : List (Atom K)) : ∀ s : EncSt K,
    s.last ≤ (atoms.foldl step s).last ∧
    (∀ r ∈ s.rows, r ∈ (atoms.foldl step s).rows) ∧
    (∀ c ∈ s.expC ++ s.more, c ∈ (atoms.foldl step s).expC ++ (atoms.foldl step s).more) ∧
    ∀ a ∈ atoms, ∃ b, s.last ≤ b ∧ b + a.naux ≤ (atoms.foldl step s).last ∧
      (∀ r ∈ a.fragRows b, r ∈ (atoms.foldl step s).rows) ∧
      (∀ c ∈ a.fragExp b ++ a.fragMore b, c ∈ (atoms.foldl step s).expC ++ (atoms.foldl step s).more) := by
  induction atoms with
  | nil => intro s; simp
  | cons a rest ih =>
    intro s
    obtain ⟨i1, i2, i3, i4⟩ := ih (s.step a)
    simp only [List.foldl_cons]
    have e := step_eq s a
    have hlast : (s.step a).last = s.last + a.naux := by rw [e]
    have hrows : (s.step a).rows = s.rows ++ a.fragRows s.last := by rw [e]
    have hexp : (s.step a).expC = s.expC ++ a.fragExp s.last := by rw [e]
    have hmore : (s.step a).more = s.more ++ a.fragMore s.last := by rw [e]
    refine ⟨by omega, ?_, ?_, ?_⟩
    · intro r hr; apply i2; rw [hrows]; exact List.mem_append_left _ hr
    · intro c hc; apply i3; rw [hexp, hmore]
      simp only [List.mem_append] at hc ⊢; tauto
    · intro a' ha'
      rcases List.mem_cons.1 ha' with rfl | ha'
      · refine ⟨s.last, le_rfl, by omega, ?_, ?_⟩
        · intro r hr; apply i2; rw [hrows]; exact List.mem_append_right _ hr
        · intro c hc; apply i3; rw [hexp, hmore]
          simp only [List.mem_append] at hc ⊢; tauto
      · obtain ⟨b, hb1, hb2, hb3, hb4⟩ := i4 a' ha'
        exact ⟨b, by omega, hb2, hb3, hb4⟩

/-- the content of a state at an assignment -/
def Sat (s : EncSt K) (Ec : K → K → K → Prop) (v : ℕ → K) : Prop := s.finish.Sat Ec v

end EncSt

/-- **list soundness, generic part**: a point satisfying the final state satisfies the fragment of
every atom of the list, at the offset `b ≥ n` where `do_math` placed it -/
theorem encodeAtoms_frag_sat (n : ℕ) (atoms : List (Atom K)) (Ec : K → K → K → Prop) (v : ℕ → K)
    (hwf : ∀ a ∈ atoms, ∀ b, n ≤ b → (Atom.frag b a).WF)
    (hs : (encodeAtoms n atoms).Sat Ec v) :
    ∀ a ∈ atoms, ∃ b, n ≤ b ∧ (Atom.frag b a).Sat Ec v := by
  intro a ha
  obtain ⟨_, _, _, h4⟩ := EncSt.foldl_spec atoms (⟨n, [], [], []⟩ : EncSt K)
  obtain ⟨b, hb1, hb2, hb3, hb4⟩ := h4 a ha
  have hb1 : n ≤ b := hb1
  refine ⟨b, hb1, ?_, ?_⟩
  · intro r hr
    have := hs.1 r (hb3 r hr)
    exact (ERow.holds_congr ((hwf a ha b hb1).rows r hr) hb2 le_rfl (fun _ _ => rfl)).1 this
  · intro c hc
    have := hs.2 c (hb4 c hc)
    obtain ⟨s1, s2, s3⟩ := (hwf a ha b hb1).cones c hc
    have e : ∀ e : Aff K, e.SuppLt (Atom.frag b a).base →
        e.eval (encodeAtoms n atoms).base v = e.eval (Atom.frag b a).base v := fun e he =>
      Aff.eval_congr he hb2 le_rfl (fun _ _ => rfl)
    rw [e _ s1, e _ s2, e _ s3] at this
    exact this

lemma encodeAtoms_wf (n : ℕ) (atoms : List (Atom K))
    (hwf : ∀ a ∈ atoms, ∀ b, n ≤ b → (Atom.frag b a).WF) : (encodeAtoms n atoms).WF := by
  suffices h : ∀ (l : List (Atom K)) (s : EncSt K), n ≤ s.last → s.WF → (∀ a ∈ l, a ∈ atoms) →
      (l.foldl EncSt.step s).WF from
    EncSt.finish_wf (h atoms ⟨n, [], [], []⟩ le_rfl ⟨by simp, by simp⟩ (fun _ h => h))
  intro l
  induction l with
  | nil => intro s _ hs _; exact hs
  | cons a rest ih =>
    intro s hn hs hsub
    simp only [List.foldl_cons]
    have ha : a ∈ atoms := hsub a List.mem_cons_self
    apply ih
    · rw [EncSt.step_eq]; exact le_trans hn (Nat.le_add_right _ _)
    · exact EncSt.step_wf hs (hwf a ha _ hn)
    · intro a' h'; exact hsub a' (List.mem_cons_of_mem _ h')

/-- **list completeness, generic part**.  `Sem v a` is the user's inequality of atom `a`; it only
reads the columns `< n`.  If every fragment can be satisfied by a choice `u` of its auxiliary columns
(whatever the other columns `≥ n` are), the whole state can be satisfied. -/
theorem encodeAtoms_sat_of_frag (n : ℕ) (atoms : List (Atom K)) (Ec : K → K → K → Prop) (v : ℕ → K)
    (hwf : ∀ a ∈ atoms, ∀ b, n ≤ b → (Atom.frag b a).WF)
    (hfrag : ∀ a ∈ atoms, ∀ b, n ≤ b → ∃ u : ℕ → K, ∀ v' : ℕ → K, (∀ j < n, v' j = v j) →
      (∀ t < a.naux, v' (b + t) = u t) → (Atom.frag b a).Sat Ec v') :
    ∃ w, (∀ j < n, w j = v j) ∧ (encodeAtoms n atoms).Sat Ec w := by
  suffices h : ∀ (l : List (Atom K)) (s : EncSt K) (v0 : ℕ → K), n ≤ s.last → s.WF →
      (∀ a ∈ l, a ∈ atoms) → (∀ j < n, v0 j = v j) → s.Sat Ec v0 →
      ∃ w, (∀ j < s.last, w j = v0 j) ∧ (l.foldl EncSt.step s).Sat Ec w by
    obtain ⟨w, hw, hs⟩ := h atoms ⟨n, [], [], []⟩ v le_rfl ⟨by simp, by simp⟩ (fun _ h => h)
      (fun _ _ => rfl) ⟨by simp [EncSt.finish], by simp [EncSt.finish]⟩
    exact ⟨w, hw, hs⟩
  intro l
  induction l with
  | nil => intro s v0 _ _ _ _ hs; exact ⟨v0, fun _ _ => rfl, hs⟩
  | cons a rest ih =>
    intro s v0 hn hswf hsub hv0 hs
    simp only [List.foldl_cons]
    have ha : a ∈ atoms := hsub a List.mem_cons_self
    obtain ⟨u, hu⟩ := hfrag a ha s.last hn
    -- write the fragment's auxiliary columns
    let v1 : ℕ → K := fun j => if s.last ≤ j ∧ j < s.last + a.naux then u (j - s.last) else v0 j
    have hv1 : ∀ j < s.last, v1 j = v0 j := fun j hj => by
      have : ¬ (s.last ≤ j ∧ j < s.last + a.naux) := by omega
      simp only [v1, if_neg this]
    have hv1n : ∀ j < n, v1 j = v j := fun j hj => by rw [hv1 j (by omega), hv0 j hj]
    have hv1u : ∀ t < a.naux, v1 (s.last + t) = u t := fun t ht => by
      have : s.last ≤ s.last + t ∧ s.last + t < s.last + a.naux := by omega
      simp only [v1, if_pos this]; congr 1; omega
    have hfs := hu v1 hv1n hv1u
    have hawf := hwf a ha s.last hn
    have hle : s.last ≤ s.last + a.naux := Nat.le_add_right _ _
    have hs1 : (s.step a).Sat Ec v1 := by
      rw [EncSt.step_eq]
      constructor
      · intro r hr
        rcases List.mem_append.1 hr with hr | hr
        · exact (ERow.holds_congr (hswf.rows r hr) hle le_rfl hv1).2 (hs.1 r hr)
        · exact hfs.1 r hr
      · intro c hc
        have hc' : c ∈ s.expC ++ s.more ∨ c ∈ a.fragExp s.last ++ a.fragMore s.last := by
          simp only [EncSt.finish, List.mem_append] at hc ⊢
          tauto
        rcases hc' with hc' | hc'
        · obtain ⟨s1, s2, s3⟩ := hswf.cones c hc'
          have := hs.2 c hc'
          have e : ∀ e : Aff K, e.SuppLt s.last →
              e.eval (s.last + a.naux) v1 = e.eval s.last v0 := fun e he =>
            Aff.eval_congr he hle le_rfl hv1
          simp only [EncSt.finish] at this ⊢
          rw [e _ s1, e _ s2, e _ s3]
          exact this
        · exact hfs.2 c hc'
    obtain ⟨w, hw, hsw⟩ := ih (s.step a) v1 (by rw [EncSt.step_eq]; exact le_trans hn hle)
      (EncSt.step_wf hswf hawf) (fun a' h' => hsub a' (List.mem_cons_of_mem _ h')) hv1n hs1
    refine ⟨w, fun j hj => ?_, hsw⟩
    rw [hw j (by rw [EncSt.step_eq]; exact lt_of_lt_of_le hj hle), hv1 j hj]

end generic

section fragwf
variable {K : Type} [Field K] [LinearOrder K] [IsStrictOrderedRing K]

/-- the request's expressions only mention the `n` columns of the model -/
def Atom.WFReq (n : ℕ) : Atom K → Prop
  | .exp R => R.WF n
  | .log R => R.WF n
  | .entropy R => R.WF n
  | .softplus R => R.WF n
  | .pexp R => R.WF n
  | .plog R => R.WF n
  | .kl R => R.WF n

lemma CvxReq.eval_inAt_congr {R : CvxReq K} {n m : ℕ} (h : R.WF n) (hm : n ≤ m) {v' v : ℕ → K}
    (hv : ∀ j < n, v' j = v j) (i : ℕ) : (R.inAt i).eval m v' = R.inVal n v i :=
  Aff.eval_congr (CvxReq.suppLt_inAt h i) hm le_rfl hv

lemma CvxReq.eval_outDiv_congr {R : CvxReq K} {n m : ℕ} (h : R.WF n) (hm : n ≤ m) {v' v : ℕ → K}
    (hv : ∀ j < n, v' j = v j) (i : ℕ) :
    (R.outDiv i).eval m v' = R.outVal n v i * (1 / R.mult) := by
  rw [Aff.eval_congr (CvxReq.suppLt_outDiv h i) hm le_rfl hv, CvxReq.eval_outDiv]

lemma PCvxReq.eval_scAt_congr {R : PCvxReq K} {n m : ℕ} (h : R.WF n) (hm : n ≤ m) {v' v : ℕ → K}
    (hv : ∀ j < n, v' j = v j) (i : ℕ) : (R.scAt i).eval m v' = R.scVal n v i :=
  Aff.eval_congr (PCvxReq.suppLt_scAt h i) hm le_rfl hv

lemma KLReq.eval_p_congr {R : KLReq K} {n m : ℕ} (h : R.WF n) (hm : n ≤ m) {v' v : ℕ → K}
    (hv : ∀ j < n, v' j = v j) (t : ℕ) : (R.p.getD t default).eval m v' = R.pVal n v t :=
  Aff.eval_congr (Aff.suppLt_getD h t) hm le_rfl hv

lemma frag_exp (b : ℕ) (R : CvxReq K) : Atom.frag b (.exp R) = ⟨b, [], R.pairs.map fun p =>
    ⟨R.inAt (p.getD 0 0), (R.outDiv (p.getD 1 0)).neg, Aff.cst 1⟩⟩ := by
  simp [Atom.frag, Atom.naux, Atom.fragRows, Atom.fragExp, Atom.fragMore]

lemma frag_log (b : ℕ) (R : CvxReq K) : Atom.frag b (.log R) = ⟨b, [], R.pairs.map fun p =>
    ⟨R.outDiv (p.getD 1 0), R.inAt (p.getD 0 0), Aff.cst 1⟩⟩ := by
  simp [Atom.frag, Atom.naux, Atom.fragRows, Atom.fragExp, Atom.fragMore]

lemma frag_pexp (b : ℕ) (R : PCvxReq K) : Atom.frag b (.pexp R) = ⟨b, [], R.triples.map fun p =>
    ⟨R.inAt (p.getD 0 0), (R.outDiv (p.getD 2 0)).neg, R.scAt (p.getD 1 0)⟩⟩ := by
  simp [Atom.frag, Atom.naux, Atom.fragRows, Atom.fragExp, Atom.fragMore]

lemma frag_plog (b : ℕ) (R : PCvxReq K) : Atom.frag b (.plog R) = ⟨b, [], R.triples.map fun p =>
    ⟨R.outDiv (p.getD 2 0), R.inAt (p.getD 0 0), R.scAt (p.getD 1 0)⟩⟩ := by
  simp [Atom.frag, Atom.naux, Atom.fragRows, Atom.fragExp, Atom.fragMore]

lemma frag_entropy (b : ℕ) (R : CvxReq K) : Atom.frag b (.entropy R) = ⟨b + R.ain.length,
    (List.range R.aout.length).map (fun i => ERow.le0 ((R.outDiv i).sub (Aff.sumVars b R.ain.length))),
    (List.range R.ain.length).map fun t => ⟨Aff.var (b + t), Aff.cst 1, R.inAt t⟩⟩ := by
  simp [Atom.frag, Atom.naux, Atom.fragRows, Atom.fragExp, Atom.fragMore]

lemma frag_softplus (b : ℕ) (R : CvxReq K) : Atom.frag b (.softplus R) = ⟨b + 2 * R.pairs.length,
    (List.range R.pairs.length).map (fun t =>
      ERow.le0 (((Aff.var (b + 2 * t)).add (Aff.var (b + 2 * t + 1))).sub (Aff.cst 1))),
    (List.range R.pairs.length).flatMap fun t =>
      [⟨(R.inAt ((R.pairs.getD t []).getD 0 0)).add (R.outDiv ((R.pairs.getD t []).getD 1 0)),
          Aff.var (b + 2 * t), Aff.cst 1⟩,
       ⟨R.outDiv ((R.pairs.getD t []).getD 1 0), Aff.var (b + 2 * t + 1), Aff.cst 1⟩]⟩ := by
  simp [Atom.frag, Atom.naux, Atom.fragRows, Atom.fragExp, Atom.fragMore]

lemma frag_kl (b : ℕ) (R : KLReq K) : Atom.frag b (.kl R) = ⟨b + R.p.length,
    [ERow.le0 ((Aff.sumVars b R.p.length).sub (Aff.cst R.r))],
    (List.range R.p.length).map fun t =>
      ⟨((Aff.var (b + t)).smul (1 / R.phat.getD t 0)).neg, Aff.cst 1,
        (R.p.getD t default).smul (1 / R.phat.getD t 0)⟩⟩ := by
  simp [Atom.frag, Atom.naux, Atom.fragRows, Atom.fragExp, Atom.fragMore]

/-- supports of a fragment placed at `b ≥ n` -/
lemma frag_wf (n b : ℕ) (hb : n ≤ b) (a : Atom K) (h : a.WFReq n) : (Atom.frag b a).WF := by
  cases a with
  | exp R =>
    rw [frag_exp]
    refine ⟨by simp, ?_⟩
    intro c hc
    obtain ⟨p, _, rfl⟩ := List.mem_map.1 hc
    exact ⟨(CvxReq.suppLt_inAt h _).mono hb, ((CvxReq.suppLt_outDiv h _).neg).mono hb, Aff.suppLt_cst _ _⟩
  | log R =>
    rw [frag_log]
    refine ⟨by simp, ?_⟩
    intro c hc
    obtain ⟨p, _, rfl⟩ := List.mem_map.1 hc
    exact ⟨(CvxReq.suppLt_outDiv h _).mono hb, (CvxReq.suppLt_inAt h _).mono hb, Aff.suppLt_cst _ _⟩
  | pexp R =>
    rw [frag_pexp]
    refine ⟨by simp, ?_⟩
    intro c hc
    obtain ⟨p, _, rfl⟩ := List.mem_map.1 hc
    exact ⟨(CvxReq.suppLt_inAt h.1 _).mono hb, ((CvxReq.suppLt_outDiv h.1 _).neg).mono hb,
      (PCvxReq.suppLt_scAt h _).mono hb⟩
  | plog R =>
    rw [frag_plog]
    refine ⟨by simp, ?_⟩
    intro c hc
    obtain ⟨p, _, rfl⟩ := List.mem_map.1 hc
    exact ⟨(CvxReq.suppLt_outDiv h.1 _).mono hb, (CvxReq.suppLt_inAt h.1 _).mono hb,
      (PCvxReq.suppLt_scAt h _).mono hb⟩
  | entropy R =>
    rw [frag_entropy]
    have hle : n ≤ b + R.ain.length := le_trans hb (Nat.le_add_right _ _)
    constructor
    · intro r hr
      obtain ⟨i, _, rfl⟩ := List.mem_map.1 hr
      exact ERow.le0_supp (((CvxReq.suppLt_outDiv h i).mono hle).sub (Aff.suppLt_sumVars le_rfl))
    · intro c hc
      obtain ⟨t, ht, rfl⟩ := List.mem_map.1 hc
      have ht' : t < R.ain.length := List.mem_range.1 ht
      exact ⟨Aff.suppLt_var (by simp only; omega), Aff.suppLt_cst _ _, (CvxReq.suppLt_inAt h t).mono hle⟩
  | softplus R =>
    rw [frag_softplus]
    have hle : n ≤ b + 2 * R.pairs.length := le_trans hb (Nat.le_add_right _ _)
    constructor
    · intro r hr
      obtain ⟨t, ht, rfl⟩ := List.mem_map.1 hr
      have ht' : t < R.pairs.length := List.mem_range.1 ht
      exact ERow.le0_supp (((Aff.suppLt_var (by simp only; omega)).add
        (Aff.suppLt_var (by simp only; omega))).sub (Aff.suppLt_cst _ _))
    · intro c hc
      obtain ⟨t, ht, hc⟩ := List.mem_flatMap.1 hc
      have ht' : t < R.pairs.length := List.mem_range.1 ht
      simp only [List.mem_cons, List.not_mem_nil, or_false] at hc
      rcases hc with rfl | rfl
      · exact ⟨((CvxReq.suppLt_inAt h _).add (CvxReq.suppLt_outDiv h _)).mono hle,
          Aff.suppLt_var (by simp only; omega), Aff.suppLt_cst _ _⟩
      · exact ⟨(CvxReq.suppLt_outDiv h _).mono hle,
          Aff.suppLt_var (by simp only; omega), Aff.suppLt_cst _ _⟩
  | kl R =>
    rw [frag_kl]
    have hle : n ≤ b + R.p.length := le_trans hb (Nat.le_add_right _ _)
    constructor
    · intro r hr
      simp only [List.mem_cons, List.not_mem_nil, or_false] at hr
      subst hr
      exact ERow.le0_supp ((Aff.suppLt_sumVars le_rfl).sub (Aff.suppLt_cst _ _))
    · intro c hc
      obtain ⟨t, ht, rfl⟩ := List.mem_map.1 hc
      have ht' : t < R.p.length := List.mem_range.1 ht
      exact ⟨((Aff.suppLt_var (by simp only; omega)).smul _).neg, Aff.suppLt_cst _ _,
        ((Aff.suppLt_getD h t).smul _).mono hle⟩

end fragwf

/-! ### per-atom fragments over `ℝ` -/

section fragreal
open Real

lemma exp_frag_sound (n b : ℕ) (hb : n ≤ b) (R : CvxReq ℝ) (hwf : R.WF n) (hk : 0 < R.mult) (v : ℕ → ℝ)
    (hs : (Atom.frag b (.exp R)).Sat realExpCone v) :
    ∀ p ∈ R.pairs, R.mult * exp (R.inVal n v (p.getD 0 0)) + R.outVal n v (p.getD 1 0) ≤ 0 := by
  intro p hp
  rw [frag_exp] at hs
  have := hs.2 _ (List.mem_map.2 ⟨p, hp, rfl⟩)
  simp only [Aff.eval_neg, CvxReq.eval_inAt_congr hwf hb (fun _ _ => rfl),
    CvxReq.eval_outDiv_congr hwf hb (fun _ _ => rfl), Aff.eval_cst, realExpCone_one] at this
  exact (exp_atom_iff _ _ _ hk).1 this

lemma exp_frag_complete (n b : ℕ) (hb : n ≤ b) (R : CvxReq ℝ) (hwf : R.WF n) (hk : 0 < R.mult)
    (v v' : ℕ → ℝ) (hv : ∀ j < n, v' j = v j)
    (h : ∀ p ∈ R.pairs, R.mult * exp (R.inVal n v (p.getD 0 0)) + R.outVal n v (p.getD 1 0) ≤ 0) :
    (Atom.frag b (.exp R)).Sat realExpCone v' := by
  rw [frag_exp]
  refine ⟨by simp, ?_⟩
  intro c hc
  obtain ⟨p, hp, rfl⟩ := List.mem_map.1 hc
  simp only [Aff.eval_neg, CvxReq.eval_inAt_congr hwf hb hv, CvxReq.eval_outDiv_congr hwf hb hv,
    Aff.eval_cst, realExpCone_one]
  exact (exp_atom_iff _ _ _ hk).2 (h p hp)

lemma log_frag_sound (n b : ℕ) (hb : n ≤ b) (R : CvxReq ℝ) (hwf : R.WF n) (hk : 0 < R.mult) (v : ℕ → ℝ)
    (hs : (Atom.frag b (.log R)).Sat realExpCone v) :
    ∀ p ∈ R.pairs, 0 < R.inVal n v (p.getD 0 0) ∧
      -R.mult * log (R.inVal n v (p.getD 0 0)) + R.outVal n v (p.getD 1 0) ≤ 0 := by
  intro p hp
  rw [frag_log] at hs
  have := hs.2 _ (List.mem_map.2 ⟨p, hp, rfl⟩)
  simp only [CvxReq.eval_inAt_congr hwf hb (fun _ _ => rfl),
    CvxReq.eval_outDiv_congr hwf hb (fun _ _ => rfl), Aff.eval_cst, realExpCone_one] at this
  exact (log_atom_iff _ _ _ hk).1 this

lemma log_frag_complete (n b : ℕ) (hb : n ≤ b) (R : CvxReq ℝ) (hwf : R.WF n) (hk : 0 < R.mult)
    (v v' : ℕ → ℝ) (hv : ∀ j < n, v' j = v j)
    (h : ∀ p ∈ R.pairs, 0 < R.inVal n v (p.getD 0 0) ∧
      -R.mult * log (R.inVal n v (p.getD 0 0)) + R.outVal n v (p.getD 1 0) ≤ 0) :
    (Atom.frag b (.log R)).Sat realExpCone v' := by
  rw [frag_log]
  refine ⟨by simp, ?_⟩
  intro c hc
  obtain ⟨p, hp, rfl⟩ := List.mem_map.1 hc
  simp only [CvxReq.eval_inAt_congr hwf hb hv, CvxReq.eval_outDiv_congr hwf hb hv,
    Aff.eval_cst, realExpCone_one]
  exact (log_atom_iff _ _ _ hk).2 (h p hp)

/-- the points the closed cone admits for one `pexp` triple -/
def PexpPt (k i s o : ℝ) : Prop :=
  (0 < s ∧ k * (s * exp (i / s)) + o ≤ 0) ∨ (s = 0 ∧ i ≤ 0 ∧ o ≤ 0)

/-- the points the closed cone admits for one `plog` triple -/
def PlogPt (k i s o : ℝ) : Prop :=
  (0 < s ∧ 0 < i ∧ -k * (s * log (i / s)) + o ≤ 0) ∨ (s = 0 ∧ o ≤ 0 ∧ 0 ≤ i)

lemma pexp_frag_sound (n b : ℕ) (hb : n ≤ b) (R : PCvxReq ℝ) (hwf : R.WF n) (hk : 0 < R.mult)
    (v : ℕ → ℝ) (hs : (Atom.frag b (.pexp R)).Sat realExpCone v) :
    ∀ p ∈ R.triples, PexpPt R.mult (R.inVal n v (p.getD 0 0)) (R.scVal n v (p.getD 1 0))
      (R.outVal n v (p.getD 2 0)) := by
  intro p hp
  rw [frag_pexp] at hs
  have := hs.2 _ (List.mem_map.2 ⟨p, hp, rfl⟩)
  simp only [Aff.eval_neg, CvxReq.eval_inAt_congr hwf.1 hb (fun _ _ => rfl),
    CvxReq.eval_outDiv_congr hwf.1 hb (fun _ _ => rfl),
    PCvxReq.eval_scAt_congr hwf hb (fun _ _ => rfl)] at this
  exact (pexp_cone_iff _ _ _ _ hk).1 this

lemma pexp_frag_complete (n b : ℕ) (hb : n ≤ b) (R : PCvxReq ℝ) (hwf : R.WF n) (hk : 0 < R.mult)
    (v v' : ℕ → ℝ) (hv : ∀ j < n, v' j = v j)
    (h : ∀ p ∈ R.triples, PexpPt R.mult (R.inVal n v (p.getD 0 0)) (R.scVal n v (p.getD 1 0))
      (R.outVal n v (p.getD 2 0))) :
    (Atom.frag b (.pexp R)).Sat realExpCone v' := by
  rw [frag_pexp]
  refine ⟨by simp, ?_⟩
  intro c hc
  obtain ⟨p, hp, rfl⟩ := List.mem_map.1 hc
  simp only [Aff.eval_neg, CvxReq.eval_inAt_congr hwf.1 hb hv, CvxReq.eval_outDiv_congr hwf.1 hb hv,
    PCvxReq.eval_scAt_congr hwf hb hv]
  exact (pexp_cone_iff _ _ _ _ hk).2 (h p hp)

lemma plog_frag_sound (n b : ℕ) (hb : n ≤ b) (R : PCvxReq ℝ) (hwf : R.WF n) (hk : 0 < R.mult)
    (v : ℕ → ℝ) (hs : (Atom.frag b (.plog R)).Sat realExpCone v) :
    ∀ p ∈ R.triples, PlogPt R.mult (R.inVal n v (p.getD 0 0)) (R.scVal n v (p.getD 1 0))
      (R.outVal n v (p.getD 2 0)) := by
  intro p hp
  rw [frag_plog] at hs
  have := hs.2 _ (List.mem_map.2 ⟨p, hp, rfl⟩)
  simp only [CvxReq.eval_inAt_congr hwf.1 hb (fun _ _ => rfl),
    CvxReq.eval_outDiv_congr hwf.1 hb (fun _ _ => rfl),
    PCvxReq.eval_scAt_congr hwf hb (fun _ _ => rfl)] at this
  exact (plog_cone_iff _ _ _ _ hk).1 this

lemma plog_frag_complete (n b : ℕ) (hb : n ≤ b) (R : PCvxReq ℝ) (hwf : R.WF n) (hk : 0 < R.mult)
    (v v' : ℕ → ℝ) (hv : ∀ j < n, v' j = v j)
    (h : ∀ p ∈ R.triples, PlogPt R.mult (R.inVal n v (p.getD 0 0)) (R.scVal n v (p.getD 1 0))
      (R.outVal n v (p.getD 2 0))) :
    (Atom.frag b (.plog R)).Sat realExpCone v' := by
  rw [frag_plog]
  refine ⟨by simp, ?_⟩
  intro c hc
  obtain ⟨p, hp, rfl⟩ := List.mem_map.1 hc
  simp only [CvxReq.eval_inAt_congr hwf.1 hb hv, CvxReq.eval_outDiv_congr hwf.1 hb hv,
    PCvxReq.eval_scAt_congr hwf hb hv]
  exact (plog_cone_iff _ _ _ _ hk).2 (h p hp)

lemma entropy_frag_sound (n b : ℕ) (hb : n ≤ b) (R : CvxReq ℝ) (hwf : R.WF n) (hk : 0 < R.mult)
    (v : ℕ → ℝ) (hs : (Atom.frag b (.entropy R)).Sat realExpCone v) :
    (∀ t < R.ain.length, 0 ≤ R.inVal n v t) ∧
    ∀ i < R.aout.length,
      R.mult * (∑ t ∈ range R.ain.length, R.inVal n v t * log (R.inVal n v t)) + R.outVal n v i ≤ 0 := by
  rw [frag_entropy] at hs
  obtain ⟨hrows, hcones⟩ := hs
  have hle : n ≤ b + R.ain.length := le_trans hb (Nat.le_add_right _ _)
  have hc : ∀ t < R.ain.length, 0 ≤ R.inVal n v t ∧ v (b + t) ≤ -(R.inVal n v t * log (R.inVal n v t)) := by
    intro t ht
    have := hcones _ (List.mem_map.2 ⟨t, List.mem_range.2 ht, rfl⟩)
    simp only [Aff.eval_cst, Aff.eval_var (show b + t < b + R.ain.length by omega),
      CvxReq.eval_inAt_congr hwf hle (fun _ _ => rfl)] at this
    exact (entropy_cone_iff _ _).1 this
  refine ⟨fun t ht => (hc t ht).1, fun i hi => ?_⟩
  have := hrows _ (List.mem_map.2 ⟨i, List.mem_range.2 hi, rfl⟩)
  rw [ERow.holds_le0, Aff.eval_sub, Aff.eval_sumVars le_rfl,
    CvxReq.eval_outDiv_congr hwf hle (fun _ _ => rfl)] at this
  have hsum : ∑ t ∈ range R.ain.length, v (b + t) ≤
      -(∑ t ∈ range R.ain.length, R.inVal n v t * log (R.inVal n v t)) := by
    rw [← Finset.sum_neg_distrib]
    exact Finset.sum_le_sum fun t ht => (hc t (Finset.mem_range.1 ht)).2
  apply (scale_le_iff _ _ _ hk).1
  linarith

lemma entropy_frag_complete (n b : ℕ) (hb : n ≤ b) (R : CvxReq ℝ) (hwf : R.WF n) (hk : 0 < R.mult)
    (v v' : ℕ → ℝ) (hv : ∀ j < n, v' j = v j)
    (haux : ∀ t < R.ain.length, v' (b + t) = -(R.inVal n v t * log (R.inVal n v t)))
    (h : (∀ t < R.ain.length, 0 ≤ R.inVal n v t) ∧
      ∀ i < R.aout.length,
        R.mult * (∑ t ∈ range R.ain.length, R.inVal n v t * log (R.inVal n v t)) + R.outVal n v i ≤ 0) :
    (Atom.frag b (.entropy R)).Sat realExpCone v' := by
  have hle : n ≤ b + R.ain.length := le_trans hb (Nat.le_add_right _ _)
  rw [frag_entropy]
  constructor
  · intro r hr
    obtain ⟨i, hi, rfl⟩ := List.mem_map.1 hr
    rw [ERow.holds_le0, Aff.eval_sub, Aff.eval_sumVars le_rfl, CvxReq.eval_outDiv_congr hwf hle hv,
      Finset.sum_congr rfl (fun t ht => haux t (Finset.mem_range.1 ht)), Finset.sum_neg_distrib]
    exact (scale_le_iff _ _ _ hk).2 (h.2 i (List.mem_range.1 hi))
  · intro c hc
    obtain ⟨t, ht, rfl⟩ := List.mem_map.1 hc
    have ht' : t < R.ain.length := List.mem_range.1 ht
    simp only [Aff.eval_cst, Aff.eval_var (show b + t < b + R.ain.length by omega),
      CvxReq.eval_inAt_congr hwf hle hv, haux t ht']
    exact (entropy_cone_iff _ _).2 ⟨h.1 t ht', le_rfl⟩

lemma softplus_frag_sound (n b : ℕ) (hb : n ≤ b) (R : CvxReq ℝ) (hwf : R.WF n) (hk : 0 < R.mult)
    (v : ℕ → ℝ) (hs : (Atom.frag b (.softplus R)).Sat realExpCone v) :
    ∀ p ∈ R.pairs,
      R.mult * log (1 + exp (R.inVal n v (p.getD 0 0))) + R.outVal n v (p.getD 1 0) ≤ 0 := by
  intro p hp
  obtain ⟨t, ht, rfl⟩ := exists_getD_of_mem hp []
  rw [frag_softplus] at hs
  obtain ⟨hrows, hcones⟩ := hs
  have hle : n ≤ b + 2 * R.pairs.length := le_trans hb (Nat.le_add_right _ _)
  have c0 : b + 2 * t < b + 2 * R.pairs.length := by omega
  have c1 : b + 2 * t + 1 < b + 2 * R.pairs.length := by omega
  have hrow := hrows _ (List.mem_map.2 ⟨t, List.mem_range.2 ht, rfl⟩)
  rw [ERow.holds_le0, Aff.eval_sub, Aff.eval_add, Aff.eval_var c0, Aff.eval_var c1, Aff.eval_cst] at hrow
  have h1 := hcones _ (List.mem_flatMap.2 ⟨t, List.mem_range.2 ht, List.mem_cons_self⟩)
  have h2 := hcones _ (List.mem_flatMap.2 ⟨t, List.mem_range.2 ht,
    List.mem_cons_of_mem _ List.mem_cons_self⟩)
  simp only [Aff.eval_add, Aff.eval_cst, Aff.eval_var c0, CvxReq.eval_inAt_congr hwf hle (fun _ _ => rfl),
    CvxReq.eval_outDiv_congr hwf hle (fun _ _ => rfl), realExpCone_one] at h1
  simp only [Aff.eval_cst, Aff.eval_var c1, CvxReq.eval_outDiv_congr hwf hle (fun _ _ => rfl),
    realExpCone_one] at h2
  apply (softplus_scale _ _ _ hk).1
  apply (softplus_iff _ _).1
  exact ⟨_, _, h1, h2, by linarith⟩

/-- value of the auxiliary column `j` (relative to the block) of a softplus atom -/
noncomputable def softplusAux (n : ℕ) (R : CvxReq ℝ) (v : ℕ → ℝ) (j : ℕ) : ℝ :=
  let p := R.pairs.getD (j / 2) []
  let o := R.outVal n v (p.getD 1 0) * (1 / R.mult)
  if j % 2 = 0 then exp (R.inVal n v (p.getD 0 0) + o) else exp o

lemma softplus_frag_complete (n b : ℕ) (hb : n ≤ b) (R : CvxReq ℝ) (hwf : R.WF n) (hk : 0 < R.mult)
    (v v' : ℕ → ℝ) (hv : ∀ j < n, v' j = v j)
    (haux : ∀ j < 2 * R.pairs.length, v' (b + j) = softplusAux n R v j)
    (h : ∀ p ∈ R.pairs,
      R.mult * log (1 + exp (R.inVal n v (p.getD 0 0))) + R.outVal n v (p.getD 1 0) ≤ 0) :
    (Atom.frag b (.softplus R)).Sat realExpCone v' := by
  have hle : n ≤ b + 2 * R.pairs.length := le_trans hb (Nat.le_add_right _ _)
  have haux0 : ∀ t < R.pairs.length, v' (b + 2 * t) =
      exp (R.inVal n v ((R.pairs.getD t []).getD 0 0) +
        R.outVal n v ((R.pairs.getD t []).getD 1 0) * (1 / R.mult)) := fun t ht => by
    rw [haux (2 * t) (by omega)]
    have h2 : (2 * t) % 2 = 0 := by omega
    have h3 : (2 * t) / 2 = t := by omega
    simp only [softplusAux, h2, h3, if_true]
  have haux1 : ∀ t < R.pairs.length, v' (b + 2 * t + 1) =
      exp (R.outVal n v ((R.pairs.getD t []).getD 1 0) * (1 / R.mult)) := fun t ht => by
    rw [add_assoc, haux (2 * t + 1) (by omega)]
    have h2 : ¬ ((2 * t + 1) % 2 = 0) := by omega
    have h3 : (2 * t + 1) / 2 = t := by omega
    simp only [softplusAux, if_neg h2, h3]
  rw [frag_softplus]
  constructor
  · intro r hr
    obtain ⟨t, ht, rfl⟩ := List.mem_map.1 hr
    have ht' : t < R.pairs.length := List.mem_range.1 ht
    have c0 : b + 2 * t < b + 2 * R.pairs.length := by omega
    have c1 : b + 2 * t + 1 < b + 2 * R.pairs.length := by omega
    rw [ERow.holds_le0, Aff.eval_sub, Aff.eval_add, Aff.eval_var c0, Aff.eval_var c1, Aff.eval_cst,
      haux0 t ht', haux1 t ht']
    have hp := h _ (getD_mem ht' [])
    have h1 := (softplus_scale _ _ _ hk).2 hp
    obtain ⟨u, w, hu, hw, huw⟩ := (softplus_iff _ _).2 h1
    linarith
  · intro c hc
    obtain ⟨t, ht, hc⟩ := List.mem_flatMap.1 hc
    have ht' : t < R.pairs.length := List.mem_range.1 ht
    have c0 : b + 2 * t < b + 2 * R.pairs.length := by omega
    have c1 : b + 2 * t + 1 < b + 2 * R.pairs.length := by omega
    simp only [List.mem_cons, List.not_mem_nil, or_false] at hc
    rcases hc with rfl | rfl
    · simp only [Aff.eval_add, Aff.eval_cst, Aff.eval_var c0, CvxReq.eval_inAt_congr hwf hle hv,
        CvxReq.eval_outDiv_congr hwf hle hv, realExpCone_one, haux0 t ht']
      exact le_rfl
    · simp only [Aff.eval_cst, Aff.eval_var c1, CvxReq.eval_outDiv_congr hwf hle hv, realExpCone_one,
        haux1 t ht']
      exact le_rfl

lemma kl_frag_sound (n b : ℕ) (hb : n ≤ b) (R : KLReq ℝ) (hwf : R.WF n)
    (hq : ∀ t < R.p.length, 0 < R.phat.getD t 0) (v : ℕ → ℝ)
    (hs : (Atom.frag b (.kl R)).Sat realExpCone v) :
    (∀ t < R.p.length, 0 ≤ R.pVal n v t) ∧
    ∑ t ∈ range R.p.length, R.pVal n v t * log (R.pVal n v t / R.phat.getD t 0) ≤ R.r := by
  rw [frag_kl] at hs
  obtain ⟨hrows, hcones⟩ := hs
  have hle : n ≤ b + R.p.length := le_trans hb (Nat.le_add_right _ _)
  have hc : ∀ t < R.p.length, 0 ≤ R.pVal n v t ∧
      R.pVal n v t * log (R.pVal n v t / R.phat.getD t 0) ≤ v (b + t) := by
    intro t ht
    have := hcones _ (List.mem_map.2 ⟨t, List.mem_range.2 ht, rfl⟩)
    simp only [Aff.eval_cst, Aff.eval_neg, Aff.eval_smul,
      Aff.eval_var (show b + t < b + R.p.length by omega),
      KLReq.eval_p_congr hwf hle (fun _ _ => rfl)] at this
    have := (kl_cone_iff _ _ _ (one_div_pos.2 (hq t ht))).1 this
    rwa [mul_one_div] at this
  refine ⟨fun t ht => (hc t ht).1, ?_⟩
  have := hrows _ List.mem_cons_self
  rw [ERow.holds_le0, Aff.eval_sub, Aff.eval_sumVars le_rfl, Aff.eval_cst] at this
  have hsum : ∑ t ∈ range R.p.length, R.pVal n v t * log (R.pVal n v t / R.phat.getD t 0) ≤
      ∑ t ∈ range R.p.length, v (b + t) :=
    Finset.sum_le_sum fun t ht => (hc t (Finset.mem_range.1 ht)).2
  linarith

lemma kl_frag_complete (n b : ℕ) (hb : n ≤ b) (R : KLReq ℝ) (hwf : R.WF n)
    (hq : ∀ t < R.p.length, 0 < R.phat.getD t 0) (v v' : ℕ → ℝ) (hv : ∀ j < n, v' j = v j)
    (haux : ∀ t < R.p.length, v' (b + t) = R.pVal n v t * log (R.pVal n v t / R.phat.getD t 0))
    (h : (∀ t < R.p.length, 0 ≤ R.pVal n v t) ∧
      ∑ t ∈ range R.p.length, R.pVal n v t * log (R.pVal n v t / R.phat.getD t 0) ≤ R.r) :
    (Atom.frag b (.kl R)).Sat realExpCone v' := by
  have hle : n ≤ b + R.p.length := le_trans hb (Nat.le_add_right _ _)
  rw [frag_kl]
  constructor
  · intro r hr
    simp only [List.mem_cons, List.not_mem_nil, or_false] at hr
    subst hr
    rw [ERow.holds_le0, Aff.eval_sub, Aff.eval_sumVars le_rfl, Aff.eval_cst,
      Finset.sum_congr rfl (fun t ht => haux t (Finset.mem_range.1 ht))]
    linarith [h.2]
  · intro c hc
    obtain ⟨t, ht, rfl⟩ := List.mem_map.1 hc
    have ht' : t < R.p.length := List.mem_range.1 ht
    simp only [Aff.eval_cst, Aff.eval_neg, Aff.eval_smul,
      Aff.eval_var (show b + t < b + R.p.length by omega), KLReq.eval_p_congr hwf hle hv, haux t ht']
    apply (kl_cone_iff _ _ _ (one_div_pos.2 (hq t ht'))).2
    rw [mul_one_div]
    exact ⟨h.1 t ht', le_rfl⟩

/-! ### one statement for all atoms -/

/-- side conditions of an atom: supports, `k > 0` (rsome stores `abs(k)`), `phat > 0` -/
def Atom.Ok (n : ℕ) : Atom ℝ → Prop
  | .exp R => R.WF n ∧ 0 < R.mult
  | .log R => R.WF n ∧ 0 < R.mult
  | .entropy R => R.WF n ∧ 0 < R.mult
  | .softplus R => R.WF n ∧ 0 < R.mult
  | .pexp R => R.WF n ∧ 0 < R.mult
  | .plog R => R.WF n ∧ 0 < R.mult
  | .kl R => R.WF n ∧ ∀ t < R.p.length, 0 < R.phat.getD t 0

/-- the user's inequality of an atom at the assignment `v` of the model's `n` columns, exactly as
characterised by the per-atom theorems of `RsomeV/Props/AtomsExp.lean` -/
def Atom.Sem (n : ℕ) (v : ℕ → ℝ) : Atom ℝ → Prop
  | .exp R => ∀ p ∈ R.pairs, R.mult * Real.exp (R.inVal n v (p.getD 0 0)) + R.outVal n v (p.getD 1 0) ≤ 0
  | .log R => ∀ p ∈ R.pairs, 0 < R.inVal n v (p.getD 0 0) ∧
      -R.mult * Real.log (R.inVal n v (p.getD 0 0)) + R.outVal n v (p.getD 1 0) ≤ 0
  | .entropy R => (∀ t < R.ain.length, 0 ≤ R.inVal n v t) ∧ ∀ i < R.aout.length,
      R.mult * (∑ t ∈ range R.ain.length, R.inVal n v t * Real.log (R.inVal n v t)) + R.outVal n v i ≤ 0
  | .softplus R => ∀ p ∈ R.pairs,
      R.mult * Real.log (1 + Real.exp (R.inVal n v (p.getD 0 0))) + R.outVal n v (p.getD 1 0) ≤ 0
  | .pexp R => ∀ p ∈ R.triples, PexpPt R.mult (R.inVal n v (p.getD 0 0)) (R.scVal n v (p.getD 1 0))
      (R.outVal n v (p.getD 2 0))
  | .plog R => ∀ p ∈ R.triples, PlogPt R.mult (R.inVal n v (p.getD 0 0)) (R.scVal n v (p.getD 1 0))
      (R.outVal n v (p.getD 2 0))
  | .kl R => (∀ t < R.p.length, 0 ≤ R.pVal n v t) ∧
      ∑ t ∈ range R.p.length, R.pVal n v t * Real.log (R.pVal n v t / R.phat.getD t 0) ≤ R.r

lemma Atom.Ok.wfReq {n : ℕ} {a : Atom ℝ} (h : a.Ok n) : a.WFReq n := by
  cases a <;> exact h.1

theorem atom_frag_sound (n b : ℕ) (hb : n ≤ b) (a : Atom ℝ) (hok : a.Ok n) (v : ℕ → ℝ)
    (hs : (Atom.frag b a).Sat realExpCone v) : a.Sem n v := by
  cases a with
  | exp R => exact exp_frag_sound n b hb R hok.1 hok.2 v hs
  | log R => exact log_frag_sound n b hb R hok.1 hok.2 v hs
  | entropy R => exact entropy_frag_sound n b hb R hok.1 hok.2 v hs
  | softplus R => exact softplus_frag_sound n b hb R hok.1 hok.2 v hs
  | pexp R => exact pexp_frag_sound n b hb R hok.1 hok.2 v hs
  | plog R => exact plog_frag_sound n b hb R hok.1 hok.2 v hs
  | kl R => exact kl_frag_sound n b hb R hok.1 hok.2 v hs

theorem atom_frag_complete (n b : ℕ) (hb : n ≤ b) (a : Atom ℝ) (hok : a.Ok n) (v : ℕ → ℝ)
    (h : a.Sem n v) : ∃ u : ℕ → ℝ, ∀ v' : ℕ → ℝ, (∀ j < n, v' j = v j) →
      (∀ t < a.naux, v' (b + t) = u t) → (Atom.frag b a).Sat realExpCone v' := by
  cases a with
  | exp R => exact ⟨fun _ => 0, fun v' hv _ => exp_frag_complete n b hb R hok.1 hok.2 v v' hv h⟩
  | log R => exact ⟨fun _ => 0, fun v' hv _ => log_frag_complete n b hb R hok.1 hok.2 v v' hv h⟩
  | pexp R => exact ⟨fun _ => 0, fun v' hv _ => pexp_frag_complete n b hb R hok.1 hok.2 v v' hv h⟩
  | plog R => exact ⟨fun _ => 0, fun v' hv _ => plog_frag_complete n b hb R hok.1 hok.2 v v' hv h⟩
  | entropy R =>
    exact ⟨fun t => -(R.inVal n v t * log (R.inVal n v t)),
      fun v' hv haux => entropy_frag_complete n b hb R hok.1 hok.2 v v' hv haux h⟩
  | softplus R =>
    exact ⟨softplusAux n R v, fun v' hv haux => softplus_frag_complete n b hb R hok.1 hok.2 v v' hv haux h⟩
  | kl R =>
    exact ⟨fun t => R.pVal n v t * log (R.pVal n v t / R.phat.getD t 0),
      fun v' hv haux => kl_frag_complete n b hb R hok.1 hok.2 v v' hv haux h⟩

end fragreal

/-! ### single atom and list of atoms: encoding ⟺ user inequalities -/

section main
open Real

lemma encodeAtoms_base_ge (n : ℕ) (atoms : List (Atom ℝ)) : n ≤ (encodeAtoms n atoms).base :=
  (EncSt.foldl_spec atoms (⟨n, [], [], []⟩ : EncSt ℝ)).1

/-- soundness for any list of exp-type constraints in one model -/
theorem encodeAtoms_sound' (n : ℕ) (atoms : List (Atom ℝ)) (hok : ∀ a ∈ atoms, a.Ok n) (v : ℕ → ℝ)
    (hf : (encodeAtoms n atoms).prog.Feas realExpCone v) : ∀ a ∈ atoms, a.Sem n v := by
  have hwf : ∀ a ∈ atoms, ∀ b, n ≤ b → (Atom.frag b a).WF := fun a ha b hb =>
    frag_wf n b hb a (hok a ha).wfReq
  have hs := (encodeAtoms n atoms).prog_sound (encodeAtoms_wf n atoms hwf) realExpCone
    realExpCone_mono v hf
  intro a ha
  obtain ⟨b, hb, hsat⟩ := encodeAtoms_frag_sat n atoms realExpCone v hwf hs a ha
  exact atom_frag_sound n b hb a (hok a ha) v hsat

/-- completeness for any list of exp-type constraints in one model -/
theorem encodeAtoms_complete' (n : ℕ) (atoms : List (Atom ℝ)) (hok : ∀ a ∈ atoms, a.Ok n) (v : ℕ → ℝ)
    (h : ∀ a ∈ atoms, a.Sem n v) :
    ∃ w, (∀ j < n, w j = v j) ∧ (encodeAtoms n atoms).prog.Feas realExpCone w := by
  have hwf : ∀ a ∈ atoms, ∀ b, n ≤ b → (Atom.frag b a).WF := fun a ha b hb =>
    frag_wf n b hb a (hok a ha).wfReq
  obtain ⟨w0, hw0, hs⟩ := encodeAtoms_sat_of_frag n atoms realExpCone v hwf
    (fun a ha b hb => atom_frag_complete n b hb a (hok a ha) v (h a ha))
  obtain ⟨w, hw, hf⟩ := (encodeAtoms n atoms).prog_complete (encodeAtoms_wf n atoms hwf) realExpCone w0 hs
  exact ⟨w, fun j hj => by rw [hw j (lt_of_lt_of_le hj (encodeAtoms_base_ge n atoms)), hw0 j hj], hf⟩

/-- soundness of the encoding of a single constraint -/
theorem atom_sound (n : ℕ) (a : Atom ℝ) (hok : a.Ok n) (v : ℕ → ℝ)
    (hf : (encodeAtom n a).prog.Feas realExpCone v) : a.Sem n v :=
  encodeAtoms_sound' n [a] (by simpa using hok) v hf a List.mem_cons_self

/-- completeness of the encoding of a single constraint -/
theorem atom_complete (n : ℕ) (a : Atom ℝ) (hok : a.Ok n) (v : ℕ → ℝ) (h : a.Sem n v) :
    ∃ w, (∀ j < n, w j = v j) ∧ (encodeAtom n a).prog.Feas realExpCone w :=
  encodeAtoms_complete' n [a] (by simpa using hok) v (by simpa using h)

end main

end RsomeV.AExp
